/-
C18 — round 5: the glue around the codec (Model/CodecX.lean) and sharper statements of earlier theorems.

* `zero_hold_knots`, `zero_hold_range`   the zero-order interpolator `tempo_fun` of `tempo_by_average`: it passes through
                          its knots, and every value is a fill value or the ordinate of a knot
* `tempo_average_default`   `tempo_by_average` without `input_onsets` returns the list of beat periods itself (the
                          interpolator evaluated at its own knots — until now an assumption about scipy)
* `tempo_average_at_pos`, `tempo_derivative_at_pos`   sampled at ANY `input_onsets`, both built-in tempo curves are
                          positive; `tempo_derivative_default` (any grouping)
* `monotonize_default_spec`   `monotonize_times(s)` without abscissae: `monotonize_times_spec` without side condition
* `unique_onsets_spec`    `get_unique_onset_idxs(onsets, eps, return_unique_onsets=True)` for any `eps ≥ 0`: a partition
                          into non-empty groups, neighbours inside a group at most `eps` apart, groups separated, the
                          unique onsets strictly increasing; `unique_onsets_default` (the codec's `eps`)
* `encode_tempo_arrays`   `encode_tempo` on arrays: refused unless the four lengths agree, else the encoder
* `decode_full_notes`, `decode_full_sorted`, `decode_full_alignment`, `decode_full_default_ids`, `clip_pitch_midi`
                          `decode_performance` with all it returns: pitch, alignment, `snote_ids=None`
* `matched_markings_same_table`, `matched_columns`   `to_matched_score(…, include_score_markings)`: the same rows and ids
                          with and without markings, for score objects and note arrays; the rows fit the columns
* `onsetwise_roundtrip`   `notewise_to_onsetwise ∘ onsetwise_to_notewise = id` on any partition into non-empty groups
* `time_maps_monotone`    both time maps are strictly increasing when the mean performed onsets are
* `velocity_roundtrip_float32`   the velocity survives the two single-precision roundings of the code path
                          (`v / 127` stored as float32, `x * 127.0` evaluated in float32): the tolerance is PROVED
* `decode_user_ids`       `decode_performance` for `snote_ids` in any order, stated exactly
* `performance_roundtrip_matched_ids`   THE ROUND TRIP with the weakest condition on ids: only the ids named by the
                          alignment's matches must be unique in the score; `duplicate_matched_id_breaks` shows that this
                          cannot be dropped
-/
import PartituraModel.Props.C18Pipeline
import PartituraModel.Proofs.C18Ext3

namespace C18
open Model Model.Codec C18P

-- ------------------------------------------------------------------ tempo_fun, input_onsets

theorem zero_hold_knots (ks : List (Rat × Rat)) (hx : IncX ks) (lo hi x y : Rat) (hm : (x, y) ∈ ks) :
    zeroHold ks lo hi x = some y :=
  zeroHold_knot ks hx lo hi x y hm

theorem zero_hold_range (ks : List (Rat × Rat)) (hne : ks ≠ []) (lo hi q : Rat) :
    ∃ v, zeroHold ks lo hi q = some v ∧ (v = lo ∨ v = hi ∨ v ∈ ks.map (·.2)) :=
  zeroHold_range ks hne lo hi q

example : IncX [((0 : Rat), (10 : Rat)), (1, 11), (2, 12), (4, 14)] := by decide +kernel
example : [(-1 : Rat) / 2, 0, 1 / 2, 1, 2, 39 / 10, 4, 41 / 10].map (zeroHold [(2, 12), (0, 10), (1, 11), (4, 14)] (-1) (-2))
    = [some (-1), some 10, some 10, some 11, some 12, some 12, some 14, some (-2)] := by decide +kernel

/-- `tempo_by_average(…)` with `input_onsets=None`: `tempo_fun(unique_s_onsets[:-1])` is the list of beat periods -/
theorem tempo_average_default (ns : List MNote) (hne : ns ≠ []) (hsd : ∀ x ∈ ns, 0 ≤ x.sd) (hpd : ∀ x ∈ ns, 0 ≤ x.pd) :
    tempoAverageAt ns (encGroups ns) none = tempoAverage ns (encGroups ns) :=
  tempoAverageAt_none ns hne hsd hpd

/-- `tempo_by_average(…, input_onsets=q)` is positive at every sampling point, whatever the performed onsets are -/
theorem tempo_average_at_pos (ns : List MNote) (hne : ns ≠ []) (hsd : ∀ x ∈ ns, 0 ≤ x.sd) (hpd : ∀ x ∈ ns, 0 ≤ x.pd)
    (inputs : List Rat) :
    ∃ out, tempoAverageAt ns (encGroups ns) (some inputs) = some out ∧ out.length = inputs.length ∧ ∀ b ∈ out, 0 < b :=
  tempoAverageAt_pos ns hne hsd hpd inputs

theorem tempo_derivative_at_pos (ns : List MNote) (hne : ns ≠ []) (hsd : ∀ x ∈ ns, 0 ≤ x.sd) (hpd : ∀ x ∈ ns, 0 ≤ x.pd)
    (inputs : List Rat) :
    ∃ out, tempoDerivativeAt ns (encGroups ns) (some inputs) = some out ∧ out.length = inputs.length ∧ ∀ b ∈ out, 0 < b :=
  tempoDerivativeAt_pos ns hne hsd hpd inputs

theorem tempo_derivative_default (ns : List MNote) (gs : List (Grp MNote)) :
    tempoDerivativeAt ns gs none = tempoDerivative ns gs :=
  tempoDerivativeAt_none ns gs

/-- the swapped performance of `demoSwapped`, sampled before, between and after the score onsets -/
example : tempoAverageAt demoSwapped (encGroups demoSwapped) (some [-1, 1 / 2, 2, 5 / 2, 7]) = some [1/2, 1/2, 1/8, 1/8, 1/8]
    ∧ tempoDerivativeAt demoSwapped (encGroups demoSwapped) (some [-1, 1 / 2, 2, 5 / 2, 7]) = some [1/2, 1/2, 5/16, 1/8, 1/8] := by
  decide +kernel
/-- a coarser `unique_onset_idxs` given by the caller -/
example : (pickGroups demoSwapped [[0, 1], [2], [3]]).bind (fun gs => tempoAverageAt demoSwapped gs none)
    = some [1, 1/8, 1/8] := by decide +kernel

/-- performed onsets of successive score onsets that are EQUAL (a plateau): positive beat periods all the same
    (seeded change C18-i returned the plateau unchanged, beat period 0) -/
def demoTies : List MNote := [⟨0, 1, 1, 1/2⟩, ⟨1, 1, 3/2, 1/2⟩, ⟨2, 1, 3/2, 1/2⟩, ⟨3, 1, 3/2, 1/2⟩, ⟨4, 1, 2, 1/2⟩]
example : demoTies ≠ [] ∧ (∀ x ∈ demoTies, 0 ≤ x.sd) ∧ (∀ x ∈ demoTies, 0 ≤ x.pd)
    ∧ ¬ (groupMeans (·.po) (encGroups demoTies)).Pairwise (· < ·)
    ∧ (groupMeans (·.po) (encGroups demoTies)).Pairwise (· ≤ ·)
    ∧ tempoAverage demoTies (encGroups demoTies) = some [1/2, 1/6, 1/6, 1/6, 1/2] := by decide +kernel

-- ------------------------------------------------------------------ monotonize_times(s)

/-- `monotonize_times(s)` without abscissae (`x = arange(len(s))`): the statement of `monotonize_times_spec`, with no
    condition left on the input -/
theorem monotonize_default_spec (ss : List Rat) (hne : ss ≠ []) :
    ∃ mono, monotonizeDefault ss = some (mono, arange ss.length) ∧
    (monoKnots ((arange ss.length).zip ss)).Sublist ((arange ss.length).zip ss) ∧
    IncY (monoKnots ((arange ss.length).zip ss)) ∧
    (ss.Pairwise (· < ·) → mono = ss) ∧
    (2 ≤ (monoKnots ((arange ss.length).zip ss)).length → mono.length = ss.length ∧ mono.Pairwise (· < ·) ∧
        List.Forall₂ (fun (k : Rat × Rat) y => k ∈ monoKnots ((arange ss.length).zip ss) → y = k.2)
          ((arange ss.length).zip ss) mono) ∧
    (∀ k0, monoKnots ((arange ss.length).zip ss) = [k0] → mono = ss.map fun _ => k0.2) :=
  monotonizeDefault_spec ss hne

example : monotonizeDefault [2, 1, 3, 5/2, 13/4] = some ([2, 5/2, 3, 25/8, 13/4], [0, 1, 2, 3, 4])
    ∧ monotonizeDefault [] = none := by decide +kernel

-- ------------------------------------------------------------------ get_unique_onset_idxs

/-- `get_unique_onset_idxs(onsets, eps, return_unique_onsets=True)` for any `eps ≥ 0` -/
theorem unique_onsets_spec (e : Rat) (he : 0 ≤ e) (ons : List Rat) :
    (uniqueOnsets e ons).1.flatten.Perm (enumFrom 0 ons) ∧ (∀ g ∈ (uniqueOnsets e ons).1, g ≠ []) ∧
    (uniqueOnsets e ons).1.Pairwise (fun g h => ∀ a ∈ g, ∀ b ∈ h, a.2 < b.2) ∧
    (∀ g ∈ (uniqueOnsets e ons).1, g.IsChain (fun a b => b.2 - a.2 ≤ e)) ∧
    (uniqueOnsets e ons).2 = groupMeans (fun x => x) (uniqueOnsets e ons).1 ∧
    (uniqueOnsets e ons).2.Pairwise (· < ·) := by
  obtain ⟨h1, h2, h3, h4⟩ := groupsByEps_spec e he (fun (x : Rat) => x) ons
  exact ⟨h1, h2, h3, h4, rfl, groupMeans_strict_of_separated (fun (x : Rat) => x) _ h2 h3⟩

/-- the codec groups with the default `eps = 1e-6` -/
theorem unique_onsets_default {α : Type} (key : α → Rat) (l : List α) : groupsByEps eps key l = groupsBy key l := rfl

example : uniqueOnsets (3 / 10) [0, 1/2, 3/5, 1, 1/5] = ([[(0, 0), (4, 1/5), (1, 1/2), (2, 3/5)], [(3, 1)]], [13/40, 1]) := by
  decide +kernel

-- ------------------------------------------------------------------ encode_tempo on arrays

/-- `encode_tempo` refuses arrays of different lengths and is the encoder of the zipped rows otherwise -/
theorem encode_tempo_arrays (m : Method) (n : Norm) (sdv : Rat) (so po sd pd : List Rat) :
    (¬ (so.length = po.length ∧ so.length = sd.length ∧ po.length = pd.length) →
      encodeTempoArrays m n sdv so po sd pd = none) ∧
    (so.length = po.length ∧ so.length = sd.length ∧ po.length = pd.length →
      encodeTempoArrays m n sdv so po sd pd = encode m n sdv (zip4 so sd po pd) ∧ (zip4 so sd po pd).length = so.length) :=
  encodeTempoArrays_spec m n sdv so po sd pd

example : encodeTempoArrays .average .bp 0 [0, 1] [1] [1, 1] [1, 1] = none
    ∧ (encodeTempoArrays .average .bp 0 [0, 1] [1, 2] [1, 1] [1/2, 1/2]).isSome := by decide +kernel

-- ------------------------------------------------------------------ decode_performance, everything it returns

/-- ids, onsets, durations and velocities of `decodeFull` are those of `decodePerformance` -/
theorem decode_full_notes (n : Norm) (ss : List SRow) (ids : List String) (ps : List ParamRow)
    (info : List SRow) (hinfo : selectRows ss ids = some info) (hlen : info.length = ps.length) :
    (decodeFull n ss (some ids) ps).map (fun r => r.1.map fun (d : DNote) => (d.1, d.2.2.1, d.2.2.2.1, d.2.2.2.2))
      = decodePerformance n ss ids ps :=
  decodeFull_notes n ss ids ps info hinfo hlen

/-- with the encoder's `snote_ids` (rows ordered by (onset_div, pitch)) note `k` also carries the pitch of the score
    row of `snote_ids[k]`, clipped to 1..127 -/
theorem decode_full_sorted (n : Norm) (ss : List SRow) (ids : List String) (ps : List ParamRow)
    (info : List SRow) (hinfo : selectRows ss ids = some info) (hlen : info.length = ps.length)
    (hsorted : info.Pairwise (fun a b => lexLe (a.odiv, a.pitch) (b.odiv, b.pitch) = true)) :
    (decodeFull n ss (some ids) ps).map (·.1) =
      (decodeTime n (List.zipWith mkDRow info ps)).map fun od =>
        zipWith4 (fun id (x : Rat × Rat) (p : ParamRow) (s : SRow) =>
          ((id, clipPitch s.pitch, x.1, x.2, decodeVel p.vel) : DNote)) ids od ps info :=
  decodeFull_sorted n ss ids ps info hinfo hlen hsorted

theorem clip_pitch_midi (p : Int) : 1 ≤ clipPitch p ∧ clipPitch p ≤ 127 ∧ (1 ≤ p → p ≤ 127 → clipPitch p = p) :=
  ⟨(clipPitch_range p).1, (clipPitch_range p).2, clipPitch_id p⟩

/-- the alignment of `return_alignment=True` pairs every decoded note with the score note of the same id -/
theorem decode_full_alignment (n : Norm) (ss : List SRow) (ids : List String) (ps : List ParamRow)
    (notes : List DNote) (al : List (String × String)) (h : decodeFull n ss (some ids) ps = some (notes, al)) :
    ∀ p ∈ al, p.1 = p.2 :=
  decodeFull_alignment n ss ids ps notes al h

/-- `snote_ids=None` is `snote_ids = [n["id"] for n in snotes]` when the score ids are unique -/
theorem decode_full_default_ids (n : Norm) (ss : List SRow) (ps : List ParamRow) (hnd : (ss.map (·.id)).Nodup) :
    decodeFull n ss none ps = decodeFull n ss (some (ss.map (·.id))) ps :=
  decodeFull_none n ss ps hnd

example : decodeFull .bp demoScore (some ["n1", "n2"]) [⟨0, 1, [1/2], 64/127⟩, ⟨1/8, 2, [1/4], 1/127⟩, ⟨9, 9, [9], 9⟩]
    = some ([("n1", 55, 0, 1, 64), ("n2", 62, 3/8, 1/2, 1)], [("n1", "n1"), ("n2", "n2")])
    ∧ decodeFull .bp demoScore (some ["n1", "n2"]) [⟨0, 1, [1/2], 64/127⟩] = none := by decide +kernel
/-- repeated ids: without `snote_ids` every row is decoded, with them the LAST row of the id is decoded twice -/
example : (decodeFull .bp [⟨"a", 0, 0, 0, 1⟩, ⟨"a", 4, 130, 1, 1⟩] none [⟨0, 1, [1/2], 64/127⟩, ⟨0, 1, [1/2], 64/127⟩]).map
      (fun r => r.1.map fun (d : DNote) => (d.1, d.2.1)) = some [("a", 1), ("a", 127)]
    ∧ (decodeFull .bp [⟨"a", 0, 0, 0, 1⟩, ⟨"a", 4, 130, 1, 1⟩] (some ["a", "a"]) [⟨0, 1, [1/2], 64/127⟩, ⟨0, 1, [1/2], 64/127⟩]).map
      (fun r => r.1.map fun (d : DNote) => (d.1, d.2.1)) = some [("a", 127), ("a", 127)] := by decide +kernel

-- ------------------------------------------------------------------ to_matched_score: the columns

/-- `to_matched_score(…, include_score_markings)` returns whenever it returns without the markings, with the same
    rows and `snote_ids`; the `voice` column is there exactly for a score OBJECT with markings -/
theorem matched_markings_same_table (mk arr : Bool) (fs : List String) (vs : List Int)
    (ss : List SRow) (ps : List PRow) (al : List ARow) (rows : List MRow)
    (h : toMatchedScore ss ps al = some rows) (hv : vs.length = ss.length) :
    ∃ ids voices, snoteIds ss rows = some ids ∧
      toMatchedScoreX mk arr fs vs ss ps al = some (matchedFieldNames mk arr fs, rows, ids, voices) ∧
      (voices.isSome ↔ (mk = true ∧ arr = false)) :=
  toMatchedScoreX_defined mk arr fs vs ss ps al rows h hv

/-- the rows fit the columns in all four cases; a note array has the six base columns whatever the flag says -/
theorem matched_columns (mk arr : Bool) (fs : List String) :
    matchedWidthOk mk arr fs = true ∧ matchedFieldNames mk true fs = baseFields ∧
    matchedFieldNames false arr fs = baseFields ∧ matchedFieldNames true false fs = baseFields ++ "voice" :: fs := by
  refine ⟨matchedWidthOk_true mk arr fs, ?_, ?_, ?_⟩ <;> cases mk <;> cases arr <;> simp [matchedFieldNames]

/-- before repair C18-13 the row loop appended the markings for a note array as well: 7 values for 6 columns -/
example : 6 + (if true then 1 + ([] : List String).length else 0) ≠ (matchedFieldNames true true []).length := by decide

example : toMatchedScoreX true false ["slur_feature.slur_incr"] [1, 2, 1] demoScore demoPerf demoAl
    = some (["onset", "duration", "pitch", "p_onset", "p_duration", "velocity", "voice", "slur_feature.slur_incr"],
        [⟨0, 0, 1, 60, 1, 3/40, 70⟩, ⟨2, 1, 1, 62, 17/16, 1, 60⟩], ["n0", "n2"], some [1, 1]) := by decide +kernel

-- ------------------------------------------------------------------ onset-wise / note-wise

/-- `onsetwise_to_notewise` followed by `notewise_to_onsetwise` is the identity for every partition of the notes into
    non-empty onset groups (`unique_onset_idxs`) -/
theorem onsetwise_roundtrip (n : Nat) (gs : List (List Nat)) (w : List Rat) (hperm : gs.flatten.Perm (List.range n))
    (hne : ∀ g ∈ gs, g ≠ []) (hlen : w.length = gs.length) :
    ∃ v, toNotewise w gs = some v ∧ v.length = n ∧ toOnsetwise v gs = some w :=
  onsetwise_roundtrip' n gs w hperm hne hlen

example : toNotewise [2, 7, 9/2] [[0, 2], [1], [4, 3]] = some [2, 7, 2, 9/2, 9/2]
    ∧ toOnsetwise [2, 7, 2, 9/2, 9/2] [[0, 2], [1], [4, 3]] = some [2, 7, 9/2]
    ∧ toOnsetwise [1, 2, 3, 4, 5] [[0, 2], [1], [4, 3]] = some [2, 2, 9/2]
    ∧ toNotewise [2, 7] [[0, 2], [1], [4, 3]] = none ∧ toOnsetwise [1, 2] [[0, 2]] = none := by decide +kernel

-- ------------------------------------------------------------------ monotone time maps

/-- when the mean performed onsets are strictly increasing (and there are two knots) both time maps are defined
    everywhere and strictly increasing -/
theorem time_maps_monotone (ro : Bool) (rows : List TRow) (hy : IncY (timeKnots ro rows))
    (h2 : 2 ≤ (timeKnots ro rows).length) :
    (∀ s t, s < t → ∃ p q, stimeToPtime (timeKnots ro rows) s = some p ∧ stimeToPtime (timeKnots ro rows) t = some q ∧ p < q) ∧
    (∀ p q, p < q → ∃ s t, ptimeToStime (timeKnots ro rows) p = some s ∧ ptimeToStime (timeKnots ro rows) q = some t ∧ s < t) :=
  timeMaps_strictMono (timeKnots ro rows) (timeKnots_incX ro rows) hy h2

example : stimeToPtime (timeKnots true demoRows) (1/2) = some (21/16) ∧ stimeToPtime (timeKnots true demoRows) 2 = some 2 := by
  decide +kernel

-- ------------------------------------------------------------------ velocity through two float32 roundings

/-- the code path of the velocity: `v / 127` is stored as a float32 (`x`, relative error at most 2⁻²⁴),
    `x * 127.0` is evaluated in float32 (`y`, relative error at most 2⁻²⁴), then rounded and clipped.
    Whatever the two roundings do within these bounds, the MIDI velocity comes back. -/
theorem velocity_roundtrip_float32 (v : Int) (h1 : 1 ≤ v) (h2 : v ≤ 127) (x y : Rat)
    (hx : |x - encodeVel v| ≤ encodeVel v / 16777216) (hy : |y - x * 127| ≤ |x * 127| / 16777216) :
    clipInt 1 127 (roundHalfEven y) = v :=
  velocity_two_roundings v h1 h2 x y hx hy

/-- the float32 nearest to 100/127 and the float32 product with 127 -/
example : clipInt 1 127 (roundHalfEven (100 : Rat)) = 100 :=
  velocity_roundtrip_float32 100 (by decide) (by decide) (13210406 / 16777216) 100
    (by unfold encodeVel; rw [abs_le]; constructor <;> norm_num) (by rw [abs_le]; constructor <;> norm_num)

-- ------------------------------------------------------------------ the round trip and the ids

/-- THE ROUND TRIP (`performance_roundtrip`) under the weakest condition on ids: the score may repeat ids as long as
    no id named by a match of the alignment is repeated (`to_matched_score` finds an id at its first row,
    `decode_performance` at its last: they agree exactly when the id occurs once). -/
theorem performance_roundtrip_matched_ids (L E : Rat → Rat) (hLE : ∀ r, 0 < r → E (L r) = r)
    (m : Method) (hm : m = .average ∨ m = .derivative) (n : Norm) (sd : Rat)
    (ss : List SRow) (ps : List PRow) (al : List ARow) (rows : List MRow)
    (hrows : toMatchedScore ss ps al = some rows) (hne : matchedNotes ss ps al ≠ [])
    (hu : ∀ a ∈ al, a.label = "match" → ∀ s, a.sid = some s → (ss.map (·.id)).count s ≤ 1)
    (hsd : ∀ s ∈ ss, 0 ≤ s.sd) (hvel : ∀ p ∈ ps, 1 ≤ p.vel ∧ p.vel ≤ 127)
    (hstd : ∀ bp, tempoOf m (rows.map toMNote) = some bp → StdOk n sd bp) :
    ∃ params ids pairs shift out,
      encodePerformance m n sd ss ps al = some (params, ids) ∧
      decodePerformance n ss ids (params.map (viaLog (fun r => E (L r)) n)) = some out ∧
      pairs.Perm (matchedNotes ss ps al) ∧
      pairs.Pairwise (fun a b => lexLe (sKey ss a.1) (sKey ss b.1) = true) ∧
      List.Forall₂ (fun (ij : Nat × Nat) (o : String × Rat × Rat × Int) =>
        ∃ s p, ss[ij.1]? = some s ∧ ps[ij.2]? = some p ∧
          o.1 = s.id ∧ o.2.1 = p.po - shift ∧ o.2.2.2 = p.vel ∧
          (0 < s.sd → 3 / 40 ≤ p.pd → o.2.2.1 = p.pd)) pairs out := by
  obtain ⟨pairs, hperm, hsorted, hpairs⟩ := matched_table ss ps al rows hrows
  have hrne : rows ≠ [] := by
    intro h0
    have h1 := hpairs.length_eq
    have h2 := hperm.length_eq
    rw [h0] at h1
    simp only [List.length_nil] at h1
    exact hne (List.length_eq_zero_iff.mp (by omega))
  -- every row's id is found at the row's own index, from either end
  have hu' : ∀ r ∈ rows, ∀ s, ss[r.sidx]? = some s → lastIndexOf s.id (ss.map (·.id)) = some r.sidx := by
    intro r hr s hs
    obtain ⟨ij, hij, hmk⟩ := forall₂_mem_right hpairs hr
    obtain ⟨s', p', b1, _, b3⟩ := mkRow_spec ss ps ij r hmk
    have hidx : r.sidx = ij.1 := by rw [b3]
    obtain ⟨i, j⟩ := ij
    have hmem : (i, j) ∈ matchedNotes ss ps al := hperm.mem_iff.mp hij
    obtain ⟨a, ha, hlab, sid, pid, hsid, _, hi, _⟩ := (matched_notes ss ps al i j).mp hmem
    have hget := indexOf_get' _ _ _ hi
    simp only at hidx
    rw [hidx] at hs ⊢
    have hsid' : s.id = sid := by
      have := map_getElem?_some _ _ _ _ hget
      obtain ⟨a', ha', hid⟩ := this
      rw [hs] at ha'
      cases ha'
      exact hid
    rw [hsid']
    exact lastIndexOf_of_count_le_one sid _ i (hu a ha hlab sid hsid) hget
  obtain ⟨params, info, henc, hinfo, hdec⟩ := pipeline_roundtrip' (fun r => E (L r)) hLE m hm n sd ss ps al rows pairs
    hrows hrne hpairs hsorted hu' hsd hvel hstd
  refine ⟨params, info.map (·.id), pairs, minPo (rows.map toMNote), _, henc, hdec, hperm, hsorted, ?_⟩
  rw [List.forall₂_iff_get]
  have l1 := hpairs.length_eq
  have l2 := hinfo.length_eq
  refine ⟨by simp; omega, ?_⟩
  intro k h1 h2
  have hk : k < rows.length := by omega
  have hki : k < info.length := by omega
  have a1 := (List.forall₂_iff_get.mp hpairs).2 k h1 hk
  have a2 := (List.forall₂_iff_get.mp hinfo).2 k hk hki
  simp only [List.get_eq_getElem] at a1 a2 ⊢
  obtain ⟨s, p, b1, b2, b3⟩ := mkRow_spec ss ps _ _ a1
  have hse : info[k] = s := by
    rw [b3] at a2
    simp only at a2
    rw [b1] at a2
    exact (Option.some.inj a2).symm
  refine ⟨s, p, b1, b2, ?_⟩
  simp only [List.getElem_zipWith, hse]
  refine ⟨trivial, by rw [b3], by rw [b3], ?_⟩
  intro hpos hge
  rw [b3]
  simp only
  rw [if_neg (ne_of_gt hpos)]
  have hn : ¬ (clipDur > p.pd) := by unfold clipDur; exact not_lt.mpr hge
  rw [if_neg hn]

/-- a score that repeats an id the alignment does NOT name: the hypothesis of `performance_roundtrip_matched_ids`
    holds, the one of `performance_roundtrip` (all ids unique) does not -/
def dupScore : List SRow := [⟨"n0", 0, 60, 0, 1⟩, ⟨"x", 4, 62, 1, 1⟩, ⟨"x", 8, 64, 2, 1⟩, ⟨"n3", 12, 65, 3, 1⟩]
def dupPerf : List PRow := [⟨"p0", 1, 1/2, 70⟩, ⟨"p1", 3/2, 1/2, 60⟩, ⟨"p2", 2, 1/2, 50⟩]
def dupAl : List ARow := [⟨"match", some "n0", some "p0"⟩, ⟨"match", some "n3", some "p2"⟩]

example : (∀ a ∈ dupAl, a.label = "match" → ∀ s, a.sid = some s → (dupScore.map (·.id)).count s ≤ 1)
    ∧ ¬ (dupScore.map (·.id)).Nodup ∧ matchedNotes dupScore dupPerf dupAl ≠ [] := by decide +kernel

/-- … and the condition cannot be dropped: when a MATCHED id is repeated, the encoder reads the first row carrying it
    and the decoder the last, and the decoded onsets are not the performed ones up to a shift (performed 1 and 3/2,
    i.e. 0 and 1/2; decoded 0 and 1) -/
theorem duplicate_matched_id_breaks :
    let al : List ARow := [⟨"match", some "n0", some "p0"⟩, ⟨"match", some "x", some "p1"⟩]
    (encodePerformance .average .bp 0 dupScore dupPerf al).bind (fun pi =>
      decodePerformance .bp dupScore pi.2 (pi.1.map (viaLog (fun r => r) .bp)))
      = some [("n0", 0, 1/2, 70), ("x", 1, 1/2, 60)] := by decide +kernel

-- ------------------------------------------------------------------ user-given snote_ids

/-- `decode_performance(score, parameters, snote_ids)` for `snote_ids` in ANY order (not only the encoder's): the rows
    selected for the ids are sorted stably by (onset_div, pitch) TOGETHER WITH their parameter rows (`order`, `ps'`),
    decoded in that order, and the k-th decoded note is labelled with the k-th id of the GIVEN list.  So parameter row k
    always meets the score row of `snote_ids[k]`, but the label of a note is right only where the given order agrees
    with the sorted one (`decode_ids_in_order`: everywhere, for the encoder's `snote_ids`). -/
theorem decode_user_ids (n : Norm) (ss : List SRow) (ids : List String) (ps : List ParamRow)
    (info : List SRow) (hinfo : selectRows ss ids = some info) (hlen : info.length = ps.length) :
    ∃ (order : List (Nat × SRow)) (ps' : List ParamRow),
      order.Perm (enumFrom 0 info) ∧
      order.Pairwise (fun a b => lexLe (a.2.odiv, a.2.pitch) (b.2.odiv, b.2.pitch) = true) ∧
      getAll ps (order.map (·.1)) = some ps' ∧
      decodePerformance n ss ids ps =
        (decodeTime n (List.zipWith (fun (s : Nat × SRow) (p : ParamRow) => mkDRow s.2 p) order ps')).map fun od =>
          zipWith3 (fun id (x : Rat × Rat) (p : ParamRow) => (id, x.1, x.2, decodeVel p.vel)) ids od ps' :=
  decodePerformance_any_order n ss ids ps info hinfo hlen

/-- the ids of `demoScore` given last-first: the note labelled "n2" is the decoded "n1" (duration 1 = 1·2·1/2,
    velocity 64) and vice versa -/
example : decodePerformance .bp demoScore ["n2", "n1"] [⟨1/8, 2, [1/4], 1/127⟩, ⟨0, 1, [1/2], 64/127⟩]
      = some [("n2", 0, 1, 64), ("n1", 3/8, 1/2, 1)]
    ∧ decodePerformance .bp demoScore ["n1", "n2"] [⟨0, 1, [1/2], 64/127⟩, ⟨1/8, 2, [1/4], 1/127⟩]
      = some [("n1", 0, 1, 64), ("n2", 3/8, 1/2, 1)] := by decide +kernel

end C18
