/-
C04 — the whole exporter and the round trip through the importer.

`export_pairing_sound` links `Model.ScoreMidi.saveScoreMidi` (the executable model of `save_score_midi`,
tied to the code by harness/props/c04.py) to the per-track theorems of Props/C04.lean: reading any
written track back returns exactly the sounding notes routed to that track, at the exact tick images of
their musical times.  `score_roundtrip` composes it with `Model.ScoreMidi.loadScoreMidi`.
Helper lemmas: Proofs/C04Group, C04Export, C04Import, C04Meta.
-/
import PartituraModel.Props.C04
import PartituraModel.Proofs.C04Export
import PartituraModel.Proofs.C04Import
import Mathlib.Tactic.FieldSimp
import Mathlib.Tactic.Ring

namespace C04
open Model Model.Ticks Model.MidiPair Model.MidiModes Model.ScoreMidi

-- ====================================================================== every track of an export

/-- The whole exporter.  For every score (list of parts as `save_score_midi` reads them, tied notes already
    merged into one row per sounding note) with well-formed quarter-duration tables, every mode, anacrusis
    policy, minimum ppq and audible velocity for which the exporter returns a file:
    * the file's ticks per quarter are `lcm(divisions) * 2^k` (see `ppq_minimal`);
    * every note key `(group, part, voice)` has a (track, channel) given by `map_to_track_channel`, related
      as `mode_export` states, and the file has exactly the tracks `0 .. max`;
    * for every track in which no two routed notes of equal channel and pitch overlap, pairing the note
      ons and offs of the written delta-time messages (what both readers do) returns exactly the
      sounding notes routed to that track: onset tick, end tick, channel, pitch, velocity. -/
theorem export_pairing_sound (mode : Nat) (a : Anacrusis) (minPpq vel : Nat) (parts : List PartIn) (ex : Exported)
    (h : saveScoreMidi mode a minPpq vel parts = some ex) (hvel : 0 < vel)
    (hw : ∀ x ∈ parts, C04T.WellFormed x.base) :
    ∃ o tcs,
      origin a (parts.map (·.base)) = some o ∧ mapToTrackChannel mode (noteKeys parts) = some tcs ∧
      ex.ppq = ppq (parts.flatMap fun x => divisions x.base) minPpq ∧
      (∀ k ∈ noteKeys parts, ∃ tc, lookup k ((noteKeys parts).zip tcs) = some tc ∧ tc.1 < ex.tracks.length) ∧
      (mode ≤ 5 → ∀ x ∈ (noteKeys parts).zip tcs, ∀ y ∈ (noteKeys parts).zip tcs,
        (x.2.1 = y.2.1 ↔ C04M.SameTrack mode x.1 y.1) ∧ (x.2 = y.2 ↔ C04M.SameTC mode x.1 y.1)) ∧
      ∀ tr (htr : tr < ex.tracks.length),
        C04P.NoOverlap (routedTo ex.ppq o vel ((noteKeys parts).zip tcs) parts tr) →
        (pairTrack (deltasFrom 0 ex.tracks[tr])).Perm (routedTo ex.ppq o vel ((noteKeys parts).zip tcs) parts tr) := by
  obtain ⟨o, metas, tcs, n, ho, hm, htc, hn, rfl⟩ := C04E.save_inv mode a minPpq vel parts ex h
  refine ⟨o, tcs, ho, htc, rfl, ?_, ?_, ?_⟩
  · -- every key has a track below the number of tracks
    intro k hk
    have hlen : (noteKeys parts).length = tcs.length := by
      cases hmode : decide (mode ≤ 5) with
      | true => exact ((mode_export mode (by simpa using hmode) _ _ htc).1).symm
      | false =>
        have h5 : 5 < mode := by simpa using hmode
        cases hkeys : noteKeys parts with
        | nil => rw [hkeys] at hk; simp at hk
        | cons k' ks => rw [hkeys, mode_export_rejects mode h5] at htc; cases htc
    obtain ⟨tc, hl⟩ := C04E.lookup_zip_some k (noteKeys parts) tcs hlen hk
    refine ⟨tc, hl, ?_⟩
    have hmem := C04E.lookup_mem _ _ _ hl
    have htcm : tc.1 ∈ tcs.map (·.1) := List.mem_map.mpr ⟨tc, (List.of_mem_zip hmem).2, rfl⟩
    simp only [Option.map_eq_some_iff] at hn
    obtain ⟨m, hmx, rfl⟩ := hn
    have := C04E.maxList_ge _ m hmx _ htcm
    simp only [List.length_map, List.length_range]
    omega
  · intro hmode
    exact (mode_export mode hmode _ _ htc).2
  · intro tr htr hno
    simp only [List.length_map, List.length_range] at htr
    simp only [List.getElem_map, List.getElem_range]
    rw [C04E.routedTo_eq] at hno ⊢
    unfold exportTrack
    have hT := C04E.trackTempos_kind (exportTempos (C04E.tkOf (exportPpq parts minPpq) o) parts) tr
    have hM : ∀ x ∈ trackMetas metas ((noteKeys parts).zip tcs) tr, C04P.isNoteMsg x = false := by
      intro x hx
      rcases C04E.trackMetas_kinds a _ parts metas hm _ tr x hx with h' | h'
      · exact C04D.isKS_not_note x h'
      · exact C04D.isTS_not_note x h'
    have hperm := C04E.trackNotes_perm (exportRecs (C04E.tkOf (exportPpq parts minPpq) o) parts)
      ((noteKeys parts).zip tcs) tr vel
    have hno' := (C04E.noOverlap_perm hperm).mpr hno
    have hv : ∀ n ∈ trackNotes (exportRecs (C04E.tkOf (exportPpq parts minPpq) o) parts)
        (fun k => lookup k ((noteKeys parts).zip tcs)) tr vel, C04P.Valid n := by
      intro n hn'
      exact C04E.route_valid _ vel tr hvel _ (C04E.exportRecs_valid _ o parts hw) n (hperm.mem_iff.mp hn')
    exact (track_pairing_sound _ _ _ hT.2 hM hno' hv).trans hperm

/-- non-vacuity: two parts in one group, divisions 3 and 2, a one-quarter pickup, touching notes of one pitch
    in two voices, a grace note on the pitch of its main note; mode 1 puts both parts on channels of one track -/
def demoScore : List PartIn :=
  [⟨0, ⟨3, [], 0, 15, some (0, 3), [(0, 4, 4)]⟩, [(0, 500000)], [(0, "C")], [(0, 3), (3, 15)],
      [(0, 3, 60, some 1), (3, 4, 60, some 2), (3, 0, 60, some 1), (3, 12, 64, some 1)]⟩,
   ⟨0, ⟨2, [], 0, 10, some (0, 2), [(0, 4, 4)]⟩, [], [(0, "C")], [(0, 2), (2, 10)],
      [(0, 2, 48, some 1), (2, 8, 48, some 1)]⟩]

example : (saveScoreMidi 1 .shift 0 64 demoScore).map (fun ex => (ex.ppq, ex.tracks.length)) = some (6, 1) ∧
    origin .shift (demoScore.map (·.base)) = some (-1) ∧
    mapToTrackChannel 1 (noteKeys demoScore) = some [(0, 1), (0, 1), (0, 2)] := by
  refine ⟨by decide +kernel, by decide +kernel, by decide +kernel⟩

example : ∀ x ∈ demoScore, C04T.WellFormed x.base := by
  intro x hx
  simp only [demoScore, List.mem_cons, List.not_mem_nil, or_false] at hx
  rcases hx with rfl | rfl <;> exact ⟨by decide, by simp, by simp [C04T.Asc, qRates]⟩

example : ∀ tr < 2, C04P.NoOverlap (routedTo 6 (-1) 64 ((noteKeys demoScore).zip [(0, 1), (0, 1), (0, 2)]) demoScore tr) := by
  unfold C04P.NoOverlap
  decide +kernel

-- ====================================================================== exact tick images

/-- `shift` / `time_sig_change`: the ticks the exporter writes are the exact images
    `ppq * (quarter(t) - origin)` of the musical times, for the ticks per quarter it chooses. -/
theorem export_ticks_exact (mode : Nat) (a : Anacrusis) (minPpq vel : Nat) (parts : List PartIn) (ex : Exported)
    (h : saveScoreMidi mode a minPpq vel parts = some ex) (ha : a ≠ .padBar)
    (hw : ∀ x ∈ parts, C04T.WellFormed x.base) :
    ∃ o, origin a (parts.map (·.base)) = some o ∧ 0 < ex.ppq ∧
      ∀ x ∈ parts, ∀ t, ((tick ex.ppq x.base o t : Int) : Rat) = (ex.ppq : Rat) * (quarter x.base t - o) := by
  obtain ⟨o, metas, tcs, n, ho, hm, htc, hn, rfl⟩ := C04E.save_inv mode a minPpq vel parts ex h
  have hpos : ∀ d ∈ parts.flatMap (fun x => divisions x.base), 0 < d := by
    intro d hd
    obtain ⟨x, hx, hd⟩ := List.mem_flatMap.mp hd
    obtain ⟨h0, hq, _⟩ := hw x hx
    simp only [divisions, List.mem_cons, List.mem_map] at hd
    rcases hd with rfl | ⟨e, he, rfl⟩
    · exact h0
    · exact hq e he
  obtain ⟨hdvd, _, hall, _, k, hk, _⟩ := ppq_minimal _ minPpq hpos
  refine ⟨o, ho, ?_, ?_⟩
  · show 0 < exportPpq parts minPpq
    unfold exportPpq
    rw [hk]
    exact Nat.mul_pos (C04T.natLcm_pos _ hpos) (Nat.two_pow_pos k)
  · intro x hx t
    have hdiv : ∀ b ∈ parts.map (·.base), ∀ d ∈ divisions b, d ∣ exportPpq parts minPpq := by
      intro b hb d hd
      obtain ⟨y, hy, rfl⟩ := List.mem_map.mp hb
      exact hall d (List.mem_flatMap.mpr ⟨y, hy, hd⟩)
    exact (ticks_integral _ a _ o hdiv ha ho x.base (List.mem_map.mpr ⟨x, hx, rfl⟩) t).2

/-- `pad_bar`: the same when the bar of the first time signature is a whole number of ticks.  PARTIAL: the
    hypothesis `hbar` is not implied by the choice of ppq (see `ticks_integral_pad_partial`, counter-example
    `padWitness`); it holds when a full bar of that signature fits the grid of some division of the score
    (`pad_bar_on_grid`). -/
theorem export_ticks_exact_pad_partial (mode : Nat) (minPpq vel : Nat) (parts : List PartIn) (ex : Exported)
    (h : saveScoreMidi mode .padBar minPpq vel parts = some ex)
    (hw : ∀ x ∈ parts, C04T.WellFormed x.base)
    (hbar : ∀ x ∈ parts, ∀ beats bt, tsAt x.base 0 = some (beats, bt) → bt ∣ 4 * beats * ex.ppq) :
    ∃ o, origin .padBar (parts.map (·.base)) = some o ∧ 0 < ex.ppq ∧
      ∀ x ∈ parts, ∀ t, ((tick ex.ppq x.base o t : Int) : Rat) = (ex.ppq : Rat) * (quarter x.base t - o) := by
  obtain ⟨o, metas, tcs, n, ho, hm, htc, hn, rfl⟩ := C04E.save_inv mode .padBar minPpq vel parts ex h
  have hpos : ∀ d ∈ parts.flatMap (fun x => divisions x.base), 0 < d := by
    intro d hd
    obtain ⟨x, hx, hd⟩ := List.mem_flatMap.mp hd
    obtain ⟨h0, hq, _⟩ := hw x hx
    simp only [divisions, List.mem_cons, List.mem_map] at hd
    rcases hd with rfl | ⟨e, he, rfl⟩
    · exact h0
    · exact hq e he
  obtain ⟨hdvd, _, hall, _, k, hk, _⟩ := ppq_minimal _ minPpq hpos
  refine ⟨o, ho, ?_, ?_⟩
  · show 0 < exportPpq parts minPpq
    unfold exportPpq
    rw [hk]
    exact Nat.mul_pos (C04T.natLcm_pos _ hpos) (Nat.two_pow_pos k)
  · intro x hx t
    have hdiv : ∀ b ∈ parts.map (·.base), ∀ d ∈ divisions b, d ∣ exportPpq parts minPpq := by
      intro b hb d hd
      obtain ⟨y, hy, rfl⟩ := List.mem_map.mp hb
      exact hall d (List.mem_flatMap.mpr ⟨y, hy, hd⟩)
    have hbar' : ∀ b ∈ parts.map (·.base), ∀ beats bt, tsAt b 0 = some (beats, bt) → bt ∣ 4 * beats * exportPpq parts minPpq := by
      intro b hb
      obtain ⟨y, hy, rfl⟩ := List.mem_map.mp hb
      exact hbar y hy
    exact (ticks_integral_pad_partial _ _ o hdiv ho hbar' x.base (List.mem_map.mpr ⟨x, hx, rfl⟩) t).2

-- ====================================================================== the round trip

/-- written ticks of all sounding notes: what the importer hands to `create_part`, over all parts -/
theorem roundtrip_ticks (mode : Nat) (a : Anacrusis) (minPpq vel : Nat) (parts : List PartIn) (ex : Exported)
    (imp : Imported)
    (h : saveScoreMidi mode a minPpq vel parts = some ex)
    (hi : loadScoreMidi mode ex.ppq (ex.tracks.map (deltasFrom 0)) = some imp)
    (hvel : 0 < vel) (hw : ∀ x ∈ parts, C04T.WellFormed x.base)
    (hno : ∀ o tcs, origin a (parts.map (·.base)) = some o → mapToTrackChannel mode (noteKeys parts) = some tcs →
      ∀ tr, C04P.NoOverlap (routedTo ex.ppq o vel ((noteKeys parts).zip tcs) parts tr)) :
    ∃ o, origin a (parts.map (·.base)) = some o ∧
      (imp.parts.flatMap fun e => e.2.notes.map C04I.strip).Perm (writtenRows ex.ppq o parts) ∧
      ∀ e ∈ imp.parts, e.2.divs = ex.ppq := by
  obtain ⟨o, tcs, ho, htc, hppq, hkeys, _, hpair⟩ := export_pairing_sound mode a minPpq vel parts ex h hvel hw
  obtain ⟨hnotes, hdivs⟩ := C04I.import_notes mode ex.ppq _ imp hi
  refine ⟨o, ho, hnotes.trans ?_, hdivs⟩
  rw [List.flatMap_map]
  -- track after track
  have hrec := C04E.exportRecs_rows ex.ppq o parts
  have hall : ∀ r ∈ exportRecs (C04E.tkOf ex.ppq o) parts, ∃ tc, lookup r.key ((noteKeys parts).zip tcs) = some tc := by
    intro r hr
    obtain ⟨tc, htc', _⟩ := hkeys r.key (C04E.mem_exportRecs_key _ parts r hr)
    exact ⟨tc, htc'⟩
  have hbound : ∀ e ∈ (exportRecs (C04E.tkOf ex.ppq o) parts).filterMap (C04E.routeAny ((noteKeys parts).zip tcs) vel),
      e.1 < ex.tracks.length := by
    intro e he
    simp only [List.mem_filterMap, C04E.routeAny, Option.map_eq_some_iff] at he
    obtain ⟨r, hr, tc, htc', rfl⟩ := he
    obtain ⟨tc', htc'', hlt⟩ := hkeys r.key (C04E.mem_exportRecs_key _ parts r hr)
    rw [htc'] at htc''
    cases htc''
    exact hlt
  have hsplit := C04E.routes_all ((noteKeys parts).zip tcs) vel ex.tracks.length _ hbound
  rw [← hrec, ← C04E.routeAny_all ((noteKeys parts).zip tcs) vel _ hall]
  have : (ex.tracks.flatMap fun tr => (pairTrack (deltasFrom 0 tr)).map C04I.noteRow).Perm
      (((List.range ex.tracks.length).flatMap fun tr =>
        (exportRecs (C04E.tkOf ex.ppq o) parts).filterMap (C04E.route ((noteKeys parts).zip tcs) vel tr)).map C04I.noteRow) := by
    rw [List.map_flatMap]
    have hr : ex.tracks = (List.range ex.tracks.length).map (fun i => ex.tracks[i]?.getD []) := by
      apply List.ext_getElem
      · simp
      · intro i h1 h2
        simp [List.getElem?_eq_getElem h1]
    conv_lhs => rw [hr, List.flatMap_map]
    apply List.Perm.flatMap_left
    intro tr htr
    have htr' : tr < ex.tracks.length := List.mem_range.mp htr
    simp only [List.getElem?_eq_getElem htr', Option.getD_some]
    have := hpair tr htr' (hno o tcs ho htc tr)
    rw [C04E.routedTo_eq] at this
    exact this.map _
  refine this.trans ?_
  refine (hsplit.map C04I.noteRow).trans (List.Perm.of_eq ?_)
  rw [List.map_map]
  rfl

/-- **Round trip** (`shift`, `time_sig_change`).  Export a score whose notes do not overlap in equal pitch
    within one (track, channel) of the chosen mode, and import the written file with the same mode: the
    imported parts together hold exactly the score's sounding notes — the same multiset of onset and duration
    in quarter notes (position in divisions over the quarter duration `create_part` sets, plus the origin of the
    file) and MIDI pitch — and every created part has `ppq` divisions per quarter. -/
theorem score_roundtrip (mode : Nat) (a : Anacrusis) (minPpq vel : Nat) (parts : List PartIn) (ex : Exported)
    (imp : Imported)
    (h : saveScoreMidi mode a minPpq vel parts = some ex)
    (hi : loadScoreMidi mode ex.ppq (ex.tracks.map (deltasFrom 0)) = some imp)
    (ha : a ≠ .padBar) (hvel : 0 < vel) (hw : ∀ x ∈ parts, C04T.WellFormed x.base)
    (hno : ∀ o tcs, origin a (parts.map (·.base)) = some o → mapToTrackChannel mode (noteKeys parts) = some tcs →
      ∀ tr, C04P.NoOverlap (routedTo ex.ppq o vel ((noteKeys parts).zip tcs) parts tr)) :
    ∃ o, origin a (parts.map (·.base)) = some o ∧ (importedRows o imp).Perm (scoreRows parts) ∧
      ∀ e ∈ imp.parts, e.2.divs = ex.ppq := by
  obtain ⟨o, ho, hperm, hdivs⟩ := roundtrip_ticks mode a minPpq vel parts ex imp h hi hvel hw hno
  obtain ⟨o', ho', hP, hex⟩ := export_ticks_exact mode a minPpq vel parts ex h ha hw
  rw [ho] at ho'
  cases ho'
  refine ⟨o, ho, ?_, hdivs⟩
  rw [C04I.importedRows_eq o imp ex.ppq hdivs, ← C04I.writtenRows_musical ex.ppq o parts hP hex]
  exact hperm.map _

/-- **Round trip** for `pad_bar`.  PARTIAL: needs the bar of the first time signature to be a whole number of
    ticks (`hbar`, see `export_ticks_exact_pad_partial`); everything else as in `score_roundtrip`. -/
theorem score_roundtrip_pad_partial (mode : Nat) (minPpq vel : Nat) (parts : List PartIn) (ex : Exported)
    (imp : Imported)
    (h : saveScoreMidi mode .padBar minPpq vel parts = some ex)
    (hi : loadScoreMidi mode ex.ppq (ex.tracks.map (deltasFrom 0)) = some imp)
    (hvel : 0 < vel) (hw : ∀ x ∈ parts, C04T.WellFormed x.base)
    (hbar : ∀ x ∈ parts, ∀ beats bt, tsAt x.base 0 = some (beats, bt) → bt ∣ 4 * beats * ex.ppq)
    (hno : ∀ o tcs, origin .padBar (parts.map (·.base)) = some o → mapToTrackChannel mode (noteKeys parts) = some tcs →
      ∀ tr, C04P.NoOverlap (routedTo ex.ppq o vel ((noteKeys parts).zip tcs) parts tr)) :
    ∃ o, origin .padBar (parts.map (·.base)) = some o ∧ (importedRows o imp).Perm (scoreRows parts) ∧
      ∀ e ∈ imp.parts, e.2.divs = ex.ppq := by
  obtain ⟨o, ho, hperm, hdivs⟩ := roundtrip_ticks mode .padBar minPpq vel parts ex imp h hi hvel hw hno
  obtain ⟨o', ho', hP, hex⟩ := export_ticks_exact_pad_partial mode minPpq vel parts ex h hw hbar
  rw [ho] at ho'
  cases ho'
  refine ⟨o, ho, ?_, hdivs⟩
  rw [C04I.importedRows_eq o imp ex.ppq hdivs, ← C04I.writtenRows_musical ex.ppq o parts hP hex]
  exact hperm.map _

-- ====================================================================== from the note objects

/-- The rows the exporter reads from a part (`Part.notes_tied` with `duration_tied`, `midi_pitch`, `voice`) are
    the rows of `notesTied` (one per tie-chain head, durations summed: `tied_rows`, `tied_merged`) with the voice of
    the head. -/
theorem tied_rows_voiced (notes : List ScoreNote) (voices : List Voice) :
    (notesTiedV notes voices).map (fun r => (r.1, r.2.1, r.2.2.1)) = notesTied notes ∧
    (notesTiedV notes voices).length = (notes.filter (fun n => !n.tiePrev)).length := by
  have hmap : (notesTiedV notes voices).map (fun r => (r.1, r.2.1, r.2.2.1)) = notesTied notes := by
    unfold notesTiedV notesTied
    rw [List.map_filterMap]
    apply List.filterMap_congr
    intro i _
    cases notes[i]? with
    | none => rfl
    | some n => cases h : n.tiePrev <;> simp [h]
  refine ⟨hmap, ?_⟩
  rw [← tied_rows notes, ← hmap, List.length_map]

/-- **Round trip from the note objects** (`shift`, `time_sig_change`): `save_score_midi` applied to parts given by
    their note objects with tie links (`saveScore`: tie chains merged by `notesTiedV`), imported with the same
    mode, gives back one note per tie chain at the chain head's onset with the summed duration. -/
theorem score_roundtrip_tied (mode : Nat) (a : Anacrusis) (minPpq vel : Nat) (srcs : List PartSrc) (ex : Exported)
    (imp : Imported)
    (h : saveScore mode a minPpq vel srcs = some ex)
    (hi : loadScoreMidi mode ex.ppq (ex.tracks.map (deltasFrom 0)) = some imp)
    (ha : a ≠ .padBar) (hvel : 0 < vel) (hw : ∀ x ∈ srcs, C04T.WellFormed x.base)
    (hno : ∀ o tcs, origin a (srcs.map (·.base)) = some o →
      mapToTrackChannel mode (noteKeys (srcs.map PartSrc.toPartIn)) = some tcs →
      ∀ tr, C04P.NoOverlap (routedTo ex.ppq o vel ((noteKeys (srcs.map PartSrc.toPartIn)).zip tcs)
        (srcs.map PartSrc.toPartIn) tr)) :
    ∃ o, origin a (srcs.map (·.base)) = some o ∧
      (importedRows o imp).Perm
        (srcs.flatMap fun x => (notesTiedV x.notes x.voices).map fun n =>
          (quarter x.base n.1, quarter x.base (n.1 + n.2.1) - quarter x.base n.1, n.2.2.1)) := by
  have hb : (srcs.map PartSrc.toPartIn).map (·.base) = srcs.map (·.base) := by
    rw [List.map_map]; rfl
  obtain ⟨o, ho, hperm, _⟩ := score_roundtrip mode a minPpq vel (srcs.map PartSrc.toPartIn) ex imp h hi ha hvel
    (by
      intro x hx
      obtain ⟨y, hy, rfl⟩ := List.mem_map.mp hx
      exact hw y hy)
    (by
      intro o tcs ho htc
      exact hno o tcs (hb ▸ ho) htc)
  refine ⟨o, hb ▸ ho, ?_⟩
  refine hperm.trans (List.Perm.of_eq ?_)
  unfold scoreRows
  rw [List.flatMap_map]
  rfl

example : notesTiedV [⟨0, 4, 60, false, some 1⟩, ⟨4, 2, 60, true, some 3⟩, ⟨4, 4, 64, false, none⟩, ⟨6, 1, 60, true, none⟩]
    [some 1, some 1, none, some 1] = [(0, 7, 60, some 1), (4, 4, 64, none)] := by decide +kernel

-- ====================================================================== `create_part`: placement in divisions

/-- The `create_part` side of the importer (measures, ties and tuplets are C11's subject): every part is created
    with one quarter duration, the file's ticks per quarter, set at time 0; a note is added from its onset tick to
    onset + duration (`placeNote`: one division per tick).  So in the created part the position of a division `t`
    in quarters (the quarter map before a pickup shift, `quarterRaw` of the part's table) is exactly `t / ticks`,
    and a note of `d` ticks lasts `d / ticks` quarters. -/
theorem create_part_placement (mode ticks : Nat) (tracks : List (List (Int × Msg))) (imp : Imported)
    (h : loadScoreMidi mode ticks tracks = some imp) :
    ∀ e ∈ imp.parts, e.2.divs = ticks ∧
      (∀ n ∈ e.2.notes, (placeNote n).1 = n.1 ∧ (placeNote n).2 - (placeNote n).1 = n.2.2.1) ∧
      ∀ b : TimeBase, b.d0 = e.2.divs → b.qd = [] → ∀ s d : Nat,
        quarterRaw b s = (s : Rat) / (ticks : Rat) ∧
        quarterRaw b (s + d) - quarterRaw b s = (d : Rat) / (ticks : Rat) := by
  intro e he
  have hd := (C04I.import_notes mode ticks tracks imp h).2 e he
  refine ⟨hd, ?_, ?_⟩
  · intro n _
    simp [placeNote]
  · intro b hb hq s d
    have hq' : ∀ t : Nat, quarterRaw b t = (t : Rat) / (ticks : Rat) := by
      intro t
      unfold quarterRaw
      rw [hq, hb, hd]
      simp only [qRates, List.map_nil, integ]
      push_cast
      ring
    refine ⟨hq' s, ?_⟩
    rw [hq' (s + d), hq' s]
    push_cast
    ring

/-- non-vacuity of the round trip on `demoScore`: the import of the export, in musical time, is a
    permutation of the score's rows (the grace note and the note it precedes change places) -/
example : ((saveScoreMidi 1 .shift 0 64 demoScore).bind fun ex =>
      (loadScoreMidi 1 ex.ppq (ex.tracks.map (deltasFrom 0))).map fun imp => importedRows (-1) imp) =
    some [(-1, 1, 60), (0, 0, 60), (0, 4 / 3, 60), (0, 4, 64), (-1, 1, 48), (0, 4, 48)] ∧
    scoreRows demoScore = [(-1, 1, 60), (0, 4 / 3, 60), (0, 0, 60), (0, 4, 64), (-1, 1, 48), (0, 4, 48)] := by
  refine ⟨by decide +kernel, by decide +kernel⟩

end C04
