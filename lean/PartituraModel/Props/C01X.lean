/-
C01, round 5 — property theorems about the extensions of Model/TimelineX.lean:

* the memo `Part._quarter_map` is an explicit component of the state (`CPart`); the machine `stepC`/`stepX`
  reads the MEMO where the code does (`get_or_add_point`) and rebuilds it where the code does
  (`set_quarter_duration`, only when the table changed).  Proved: the memo is the map of the current table in
  every reachable state (`cache_fresh_reachable`), hence the machine with the memo IS the memo-free machine of
  Model/Timeline.lean on the property's histories (`memo_machine_is_timeline`), and `_quarter_map(x)` =
  `quarter_duration_map(x)` = the step function of the table (`cached_map_is_fresh`);
* `TimePoint.add_*_object` / `remove_*_object` called directly and the Slur setters built on them are further
  operations of the histories: what they keep of `WInv` / `Inv` and their exact effect;
* the argument conventions (`which` strings, `mode` strings, omitted arguments, bounds as number / float /
  TimePoint) over the table regenerated from the live source (Gen/C01Sig.lean).
-/
import PartituraModel.Proofs.C01XStep
import PartituraModel.Props.C01Any

namespace C01
open TL

/-! ### the memo `_quarter_map` -/

/-- `Part.__init__`: the initial table is `[(0, q)]` (generated `partInitTimes = [0]`) and the memo is fresh -/
theorem memo_init (q : Nat) : CPart.init q = lift (Part.init q) := init_lift q

/-- `Part(id)`: the default quarter duration (generated from the live signature) is 1 -/
theorem init_default : CPart.initDefault = lift (Part.init 1) := by decide +kernel

/-- one step: with a fresh memo, the machine that reads the memo does what the memo-free machine does, and the
memo is fresh afterwards -/
theorem memo_step {c : CPart} (hc : CacheOk c) (op : Op) :
    stepC c op = (step c.part op).map fun r => (lift r.1, r.2) := by
  obtain ⟨p, qc⟩ := c
  simp only [CacheOk] at hc
  subst hc
  exact stepC_lift p op

/-- the memo is the map of the current table after EVERY history of the extended machine — no hypothesis on
the arguments at all -/
theorem cache_fresh_reachable (q : Nat) (ops : List OpX) : CacheOk (runX (CPart.init q) ops) :=
  runX_cacheOk (by rw [memo_init]; exact cacheOk_lift _) ops

/-- on the property's histories the machine with the memo is the timeline machine of Model/Timeline.lean: every
theorem of Props/C01, C01Any, C01Classes about `run (Part.init q) ops` is a theorem about the code's memoised
state machine -/
theorem memo_machine_is_timeline (q : Nat) (ops : List Op) :
    runX (CPart.init q) (ops.map .base) = lift (run (Part.init q) ops) := by
  rw [memo_init]; exact runX_base _ ops

/-- `quarter_duration_map` doubles a one-entry table before calling `interp1d`; the map is the same -/
theorem interpTable_same (tab : List (Int × Nat)) (x : Rat) : qdAtQ (interpTable tab) x = qdAtQ tab x :=
  qdAtQ_interpTable tab x

/-- in every reachable state `part._quarter_map(xs)` (memo) = `part.quarter_duration_map(xs)` (fresh) =
the value of the table at each time -/
theorem cached_map_is_fresh (q : Nat) (ops : List OpX) (xs : List Rat) :
    let c := runX (CPart.init q) ops
    stepX c (.mapCached xs) = stepX c (.mapFresh xs)
      ∧ stepX c (.mapFresh xs) = .ok (c, .qmap (quarterMap c.part xs)) := by
  intro c
  have hc : CacheOk c := cache_fresh_reachable q ops
  have e : ∀ x, qdAtQ (interpTable c.part.qtab) x = qdAtQ c.part.qtab x := fun x => qdAtQ_interpTable _ x
  refine ⟨?_, ?_⟩
  · simp only [stepX]
    rw [hc]
  · simp only [stepX, quarterMap]
    congr 3
    exact List.map_congr_left (fun x _ => e x)

/-! ### the invariant of all histories of the extended machine -/

theorem winvX_step {c c' : CPart} {op : OpX} {out : OutX} (hW : WInv c.part) (hc : CacheOk c)
    (hq : op.qdNonneg) (h : stepX c op = .ok (c', out)) : WInv c'.part ∧ CacheOk c' :=
  stepX_preserves ⟨hW, hc⟩ hq h

/-- after ANY history of `add / remove / set_quarter_duration / get_or_add_point / queries` interleaved with
direct `TimePoint.add_*_object / remove_*_object` calls, Slur setter calls, string-valued and omitted
arguments: the weak invariant (everything but "only the referenced point lists the object"; a point emptied by
`remove_*_object` counts as an allowed empty point) -/
theorem winvX_reachable (q : Nat) (ops : List OpX) (hq : ∀ op ∈ ops, op.qdNonneg) :
    WInv (runX (CPart.init q) ops).part :=
  (runX_xinv (by rw [memo_init]; exact xinv_lift (winv_init q)) ops hq).1

/-- along histories whose timeline operations are `Valid`, whose direct `add_*_object` calls hit a free side and
whose direct `remove_*_object` calls hit the point the object refers to (the Slur setters always do): the FULL
invariant of the property, with a point emptied by `remove_*_object` counted as an allowed empty point -/
theorem invX_reachable (q : Nat) (ops : List OpX) (hv : ValidHistoryX (CPart.init q) ops) :
    Inv (runX (CPart.init q) ops).part :=
  runX_inv (by rw [memo_init]; exact inv_init q) (by rw [memo_init]; exact cacheOk_lift _) ops hv

/-- in every reachable state of the extended machine a time point exists exactly when some object is listed
there or it is an allowed empty point (requested through `get_or_add_point`, or emptied by `remove_*_object`) -/
theorem pointsX_are_listings (q : Nat) (ops : List OpX) (hq : ∀ op ∈ ops, op.qdNonneg) (x : Int) :
    let s := (runX (CPart.init q) ops).part
    x ∈ s.times ↔ (∃ sd o, Listed s sd x o) ∨ x ∈ s.requested :=
  points_are_listings (winvX_reachable q ops hq) x

/-- no operation of the extended machine raises, except on a negative time-point argument -/
theorem stepX_total {c : CPart} {op : OpX} (hW : WInv c.part) (hc : CacheOk c) (hq : op.qdNonneg)
    (hn : op.negTime = false) : ∃ r, stepX c op = .ok r := stepX_ok ⟨hW, hc⟩ hq hn

/-! ### `TimePoint.add_*_object` / `remove_*_object` called directly -/

/-- `tp.add_starting_object(o)` / `tp.add_ending_object(o)` on the point at `t`: `o` refers to `t` and is
listed there (once), nothing is deregistered, `WInv` is kept; and the full invariant too when that side of
`o` was free -/
theorem tpAdd_effect {s : Part} (hW : WInv s) (sd : Side) {t : Int} (o : ObjRef) (ht : t ∈ s.times) :
    WInv (tpRegister s sd t o)
      ∧ (∀ sd' o', (getObj (tpRegister s sd t o).objs o').at sd'
          = if o' = o ∧ sd' = sd then some t else (getObj s.objs o').at sd')
      ∧ (∀ sd' x o', Listed (tpRegister s sd t o) sd' x o' ↔ Listed s sd' x o' ∨ (o' = o ∧ sd' = sd ∧ x = t))
      ∧ (tpRegister s sd t o).times = s.times ∧ (tpRegister s sd t o).qtab = s.qtab
      ∧ (Inv s → (getObj s.objs o).at sd = none → Inv (tpRegister s sd t o)) :=
  ⟨(wgood_iff_winv _).mp (tpRegister_wgood ((wgood_iff_winv _).mpr hW) o ht),
   fun sd' o' => tpRegister_refs hW.objsNodup sd t o sd' o',
   fun sd' x o' => tpRegister_listed ht sd' x o', register_times s sd t o, rfl,
   fun hI hfree => tpRegister_inv hI ht hfree⟩

/-- `tp.remove_starting_object(o)` / `tp.remove_ending_object(o)` on the point at `t`: `o`'s reference is
cleared WHATEVER it was, exactly the listing at `t` goes away, the time points stay as they are (no
`_cleanup_point`: the point may be left empty — it is recorded in the ghost), `WInv` is kept; and the full
invariant too when `t` is the point `o` referred to -/
theorem tpRemove_effect {s : Part} (hW : WInv s) (sd : Side) (t : Int) (o : ObjRef) :
    WInv (tpUnregister s sd t o)
      ∧ (∀ sd' o', (getObj (tpUnregister s sd t o).objs o').at sd'
          = if o' = o ∧ sd' = sd then none else (getObj s.objs o').at sd')
      ∧ (∀ sd' x o', Listed (tpUnregister s sd t o) sd' x o' ↔ Listed s sd' x o' ∧ ¬ (o' = o ∧ sd' = sd ∧ x = t))
      ∧ (tpUnregister s sd t o).times = s.times ∧ (tpUnregister s sd t o).qtab = s.qtab
      ∧ (Inv s → (getObj s.objs o).at sd = some t → Inv (tpUnregister s sd t o)) := by
  refine ⟨(wgood_iff_winv _).mp (tpUnregister_wgood ((wgood_iff_winv _).mpr hW) sd t o),
   fun sd' o' => tpUnregister_refs hW.objsNodup sd t o sd' o',
   fun sd' x o' => tpUnregister_listed s sd t o sd' x o', ?_, ?_, fun hI hat => tpUnregister_inv hI hat⟩
  · rw [tpUnregister_eq, allowEmpty_times, unregister_times]
  · rw [tpUnregister_eq, allowEmpty_qtab]; rfl

/-- `slur.start_note = note`: the slur leaves its start point; the full invariant is kept -/
theorem slurStart_effect {s : Part} (hI : Inv s) (slur : ObjRef) :
    Inv (slurSetStart s slur) ∧ (getObj (slurSetStart s slur).objs slur).start = none
      ∧ (∀ sd x o', Listed (slurSetStart s slur) sd x o' ↔
          Listed s sd x o' ∧ ¬ (o' = slur ∧ sd = .start ∧ (getObj s.objs slur).start = some x)) := by
  refine ⟨slurSetStart_inv hI slur, ?_, ?_⟩
  · unfold slurSetStart
    split
    · have := tpUnregister_refs hI.objsNodup .start (by assumption) slur .start slur
      simpa [ObjSt.at] using this
    · assumption
  · intro sd x o'
    unfold slurSetStart
    split
    · rename_i t ht
      rw [tpUnregister_listed]
      simp only [ht, Option.some.injEq]
      constructor
      · rintro ⟨a, b⟩; exact ⟨a, fun hc => b ⟨hc.1, hc.2.1, hc.2.2.symm⟩⟩
      · rintro ⟨a, b⟩; exact ⟨a, fun hc => b ⟨hc.1, hc.2.1, hc.2.2.symm⟩⟩
    · rename_i hnone
      simp [hnone]

/-- `slur.end_note = note` (for another object `note`): afterwards `slur.end` IS `note.end` (None when the note
has no end) and the full invariant is kept -/
theorem slurEnd_effect {s : Part} (hI : Inv s) {slur note : ObjRef} (hne : note ≠ slur) :
    Inv (slurSetEnd s slur note) ∧ (getObj (slurSetEnd s slur note).objs slur).stop = (getObj s.objs note).stop := by
  refine ⟨slurSetEnd_inv hI slur note, ?_⟩
  unfold slurSetEnd
  have key : ∀ s1 : Part, (s1.objs.map (·.ref)).Nodup → (getObj s1.objs slur).stop = none →
      (getObj s1.objs note).stop = (getObj s.objs note).stop →
      (getObj (match (getObj s1.objs note).stop with
        | some t' => tpRegister s1 .stop t' slur
        | none => s1).objs slur).stop = (getObj s.objs note).stop := by
    intro s1 hn h0 h1
    split
    · rename_i t' ht'
      have := tpRegister_refs hn .stop t' slur .stop slur
      simp only [ObjSt.at, and_self, if_true] at this
      rw [this, ← h1, ht']
    · rename_i hnone
      rw [h0, ← h1, hnone]
  split
  · rename_i t ht
    have hW := ((inv_iff_winv_strict s).mp hI).1
    have hW1 := (tpRemove_effect hW .stop t slur).1
    refine key _ hW1.objsNodup ?_ ?_
    · have := tpUnregister_refs hI.objsNodup .stop t slur .stop slur
      simpa [ObjSt.at] using this
    · have := tpUnregister_refs hI.objsNodup .stop t slur .stop note
      simpa [ObjSt.at, hne] using this
  · rename_i hnone
    exact key s hI.objsNodup hnone rfl

/-! ### argument conventions (over the table regenerated from the live source) -/

/-- `part.remove(o)` is `part.remove(o, "both")`; the three documented strings select the sides -/
theorem remove_default_both (s : Part) (o : ObjRef) :
    stepRemoveX s o none = stepRemove s o .both ∧ stepRemoveX s o (some "both") = stepRemove s o .both
      ∧ stepRemoveX s o (some "start") = stepRemove s o .start
      ∧ stepRemoveX s o (some "end") = stepRemove s o .stop := by
  simp only [stepRemoveX, whichSides_default, whichSides_both, whichSides_start, whichSides_end, and_self]

/-- any other `which` string silently does nothing -/
theorem remove_unknown_which (s : Part) (o : ObjRef) (w : String) (h1 : w ≠ "start") (h2 : w ≠ "end")
    (h3 : w ≠ "both") : stepRemoveX s o (some w) = .ok s := by
  simp only [stepRemoveX, whichSides_other w h1 h2 h3]

/-- `part.add(o)` with both times omitted is `add(o, None, None)`: nothing happens -/
theorem add_defaults (c : CPart) (o : ObjRef) :
    stepX c (.addDefault o none none) = .ok (c, .base .unit) := by
  simp only [stepX, Option.getD_none, Gen.C01Sig.addStartDefault, Gen.C01Sig.addEndDefault, stepAddC, isNeg,
    Bool.or_self, Bool.false_eq_true, if_false, addSideOptC, Except.bind, Except.map]

/-- `mode`: "ending" selects the ending registries, every other string the starting ones -/
theorem mode_table : modeOfString "ending" = .ending ∧ modeOfString "starting" = .starting
    ∧ ∀ m : String, m ≠ "ending" → (modeOfString m).side = .start :=
  ⟨modeOfString_ending, modeOfString_starting, modeOfString_other⟩

/-- a bound may be a number or a `TimePoint`: only its time matters -/
theorem bound_forms_agree (s : Part) (cls : Option Nat) (x y : Rat) (incl : Option Bool) (mode : Option String) :
    iterAllX s cls (.point x) (.point y) incl mode = iterAllX s cls (.num x) (.num y) incl mode
    ∧ iterAllX s cls (.point x) (.num y) incl mode = iterAllX s cls (.num x) (.num y) incl mode
    ∧ iterAllX s cls (.num x) (.point y) incl mode = iterAllX s cls (.num x) (.num y) incl mode :=
  ⟨rfl, rfl, rfl⟩

/-- `iter_all` with omitted arguments is `iter_all(None, None, None, False, "starting")`; with real bounds
(floats) it is the integer query at the ceilings -/
theorem iterAllX_is_iterAll (s : Part) (cls : Option Nat) (a b : Bound) (incl : Option Bool) (mode : Option String) :
    iterAllX s cls a b incl mode
      = iterAll s cls (a.key.map Int.ceil) (b.key.map Int.ceil) (incl.getD false)
          (modeOfString (mode.getD "starting")) := by
  rw [iterAllX_eq, iterAllQ_eq_ceil]

theorem iterAllX_defaults (s : Part) :
    iterAllX s none .absent .absent none none = iterAll s none none none false .starting := by
  rw [iterAllX_is_iterAll]; rfl

/-- time `τ` lies in `[a, b)` for real bounds -/
def inRangeQ (a b : Option Rat) (τ : Int) : Prop :=
  (∀ x, a = some x → x ≤ (τ : Rat)) ∧ (∀ y, b = some y → (τ : Rat) < y)

theorem inRange_ceil (a b : Option Rat) (τ : Int) :
    inRange (a.map Int.ceil) (b.map Int.ceil) τ ↔ inRangeQ a b τ := by
  unfold inRange inRangeQ
  constructor
  · rintro ⟨h1, h2⟩
    refine ⟨fun x hx => ?_, fun y hy => ?_⟩
    · exact Int.ceil_le.mp (h1 ⌈x⌉ (by simp [hx]))
    · exact Int.lt_ceil.mp (h2 ⌈y⌉ (by simp [hy]))
  · rintro ⟨h1, h2⟩
    refine ⟨fun x hx => ?_, fun y hy => ?_⟩
    · cases a with
      | none => simp at hx
      | some a' =>
        simp only [Option.map_some, Option.some.injEq] at hx
        subst hx
        exact Int.ceil_le.mpr (h1 a' rfl)
    · cases b with
      | none => simp at hy
      | some b' =>
        simp only [Option.map_some, Option.some.injEq] at hy
        subst hy
        exact Int.lt_ceil.mpr (h2 b' rfl)

/-- `iter_all` with bounds in any accepted form, flags omitted or not, in ANY reachable state: one
duplicate-free segment per time point with `a ≤ t < b` (as reals), in increasing time order, each holding
exactly the matching objects that point lists -/
theorem iterAllX_any_history {s : Part} (hW : WInv s) (hk : ClsOk s) (cls : Option Nat) (a b : Bound)
    (incl : Option Bool) (mode : Option String) :
    ∃ segs : List (Int × List ObjRef), iterAllX s cls a b incl mode = segs.flatMap (·.2)
      ∧ (segs.map (·.1)).Pairwise (· < ·)
      ∧ (∀ τ, τ ∈ segs.map (·.1) ↔ τ ∈ s.times ∧ inRangeQ a.key b.key τ)
      ∧ (∀ seg ∈ segs, seg.2.Nodup
          ∧ ∀ o, o ∈ seg.2 ↔ Listed s (modeOfString (mode.getD "starting")).side seg.1 o
              ∧ ClassSpecRT cls (inclEff cls (incl.getD false)) o.cls) := by
  rw [iterAllX_is_iterAll]
  obtain ⟨segs, h1, h2, h3, h4⟩ := iterAll_any_history hW hk cls (a.key.map Int.ceil) (b.key.map Int.ceil)
    (incl.getD false) (modeOfString (mode.getD "starting"))
  exact ⟨segs, h1, h2, fun τ => by rw [h3, inRange_ceil], h4⟩

/-! ### non-vacuity -/

section Examples

def xA : ObjRef := { id := 0, cls := 2 }
def xB : ObjRef := { id := 1, cls := 3 }
def xS : ObjRef := { id := 2, cls := 10 }

/-- adds, a quarter change, a direct `remove_starting_object` that leaves the point at 0 EMPTY, a direct
`add_ending_object`, both Slur setters, string / omitted arguments -/
def xhist : List OpX :=
  [.base (.add xA (some 0) (some 4)), .base (.setQD 2 3), .addDefault xB none (some (some 6)),
   .base (.add xS (some 2) (some 4)), .tpRemove .start 0 xA, .tpAdd .stop 4 xB, .slurEnd xS xB, .slurStart xS xA,
   .removeX xB none, .removeX xA (some "nonsense"), .base (.setQD 2 3), .base (.getOrAdd 9)]

/-- the Slur setters and a `remove_starting_object` on the object's own point inside a valid history -/
def xvalid : List OpX :=
  [.base (.add xA (some 0) (some 4)), .base (.add xB (some 4) (some 6)), .base (.add xS (some 0) (some 4)),
   .slurEnd xS xB, .slurStart xS xA, .tpRemove .start 0 xA, .tpAdd .start 4 xA, .removeX xB (some "end")]

example : ValidHistoryX (CPart.init 1) xvalid := by decide +kernel
example : (runX (CPart.init 1) xvalid).part.objs.map (fun e => (e.ref.id, e.start, e.stop))
    = [(0, some 4, some 4), (1, some 4, none), (2, none, some 6)] := by decide +kernel
example : ¬ ValidHistoryX (CPart.init 1) xhist := by decide +kernel
example : ∀ op ∈ xhist, op.qdNonneg := by decide +kernel
example : WInv (runX (CPart.init 1) xhist).part := (winvB_iff _).mp (by decide +kernel)
example : CacheOk (runX (CPart.init 1) xhist) := by decide +kernel
/-- the point at 0 is EMPTY and was never requested through `get_or_add_point`: `remove_starting_object` does
not clean up (only the ghost knows it) -/
example : (runX (CPart.init 1) xhist).part.points.map (fun p => (p.t, p.quarter, p.starting.map (·.id), p.ending.map (·.id)))
    = [(0, 1, [], []), (2, 3, [], []), (4, 3, [], [0, 2]), (6, 3, [], [1]), (9, 3, [], [])] := by decide +kernel
example : (runX (CPart.init 1) xhist).part.requested = [0, 2, 9] := by decide +kernel
/-- a memo that is NOT fresh gives a different machine: the hypothesis of `memo_step` is needed -/
example : ∃ c : CPart, ¬ CacheOk c ∧ (stepC c (.getOrAdd 5)).toOption.map (fun r => r.1.part)
    ≠ (step c.part (.getOrAdd 5)).toOption.map (fun r => r.1) :=
  ⟨{ part := (setQD (Part.init 1) 2 7), qcache := [(0, 1), (0, 1)] }, by decide +kernel, by decide +kernel⟩
example : iterAllX (runX (CPart.init 1) xhist).part none (.num (7 / 2)) (.point (9 / 2)) none (some "ending")
    = [xA, xS] := by
  have h1 : ⌈(7 / 2 : Rat)⌉ = 4 := by rw [Int.ceil_eq_iff]; norm_num
  have h2 : ⌈(9 / 2 : Rat)⌉ = 5 := by rw [Int.ceil_eq_iff]; norm_num
  rw [iterAllX_is_iterAll]
  simp only [Bound.key, Option.map_some, h1, h2]
  decide +kernel
example : inRangeQ (some (7 / 2)) (some (9 / 2)) 4 ∧ ¬ inRangeQ (some (7 / 2)) (some (9 / 2)) 3 := by
  unfold inRangeQ; constructor
  · constructor <;> intro x hx <;> simp only [Option.some.injEq] at hx <;> subst hx <;> norm_num
  · intro h; have := h.1 _ rfl; norm_num at this

end Examples

end C01
