/-
C10 — signature, clef and measure maps return what is in force at the queried time.
Property theorems over Model/StepMap.lean (helper lemmas: Proofs/C10.lean).

Vocabulary (Proofs/C10.lean):
  `SortedLE tbl` / `SortedLT tbl`  rows in time order (coincident times allowed / at most one per time)
  `InForce tbl x e`                `e ∈ tbl`, `e.1 ≤ x`, and no row starting at or before `x` starts later
  `Ordered ms`                     every measure is non-empty and starts at or after the end of the previous one
  `Tiles ms`                       … and starts exactly where the previous one ends (no gaps)
A result `none` is scipy's NaN; `span = some (first_point.t, last_point.t)`.
-/
import PartituraModel.Proofs.C10

namespace C10
open Model Model.StepMap Gen

/-! ### previous-value lookup -/

/-- `lookup_spec`: in a table in time order, the answer is the value of a row in force
    (greatest start ≤ x); when every row starts after `x`, scipy answers NaN and the
    back-filled lookup answers the first row's value. -/
theorem lookup_spec {α : Type} (tbl : Tbl α) (x : Int) (hs : SortedLE tbl) :
    ((∃ e ∈ tbl, e.1 ≤ x) →
      ∃ e, InForce tbl x e ∧ lastLE tbl x = some e.2 ∧ lookupPrev tbl x = some e.2) ∧
    ((∀ e ∈ tbl, x < e.1) → lastLE tbl x = none ∧ lookupPrev tbl x = tbl.head?.map (·.2)) := by
  constructor
  · rintro ⟨e0, he0, hle0⟩
    cases hr : lastLE tbl x with
    | none =>
      have := (lastLE_eq_none_iff tbl x hs).mp hr e0 he0
      omega
    | some w =>
      obtain ⟨e, he, hv⟩ := lastLE_some_inForce tbl x hs w hr
      exact ⟨e, he, by rw [hv], by rw [hv]; exact lookupPrev_of_some tbl x w hr⟩
  · intro h
    have hn := (lastLE_eq_none_iff tbl x hs).mpr h
    exact ⟨hn, lookupPrev_of_none tbl x hn⟩

/-- with at most one row per time, *the* row in force is the answer -/
theorem lookup_unique {α : Type} (tbl : Tbl α) (x : Int) (hs : SortedLT tbl) (e : Int × α)
    (h : InForce tbl x e) : lastLE tbl x = some e.2 ∧ lookupPrev tbl x = some e.2 :=
  ⟨lastLE_of_inForce tbl x hs e h, lookupPrev_of_inForce tbl x hs e h⟩

example : InForce [((0 : Int), "a"), (5, "b"), (9, "c")] 7 (5, "b") := by
  refine ⟨by simp, by decide, ?_⟩
  intro e' he' hle
  simp only [List.mem_cons, List.mem_nil_iff, or_false] at he'
  rcases he' with rfl | rfl | rfl <;> simp_all

example : lookupPrev [((3 : Int), "a"), (5, "b")] 1 = some "a" ∧ lastLE [((3 : Int), "a"), (5, "b")] 1 = none := by
  decide

/-- the wrapper `interp1d` with a single sample is the constant function -/
theorem single_sample {α : Type} (t : Int) (v : α) (x : Int) : interpPrev [(t, v)] x = some v := rfl

/-! ### time signatures -/

/-- musical beats as documented: 2 for 6, 3 for 9, 4 for 12, else the number of beats
    (over the regenerated `MUSICAL_BEATS` table, for every number of beats) -/
theorem musical_beats_spec (b : Nat) :
    musicalBeats b = if b = 6 then 2 else if b = 9 then 3 else if b = 12 then 4 else b := by
  unfold musicalBeats MUSICAL_BEATS
  simp only [lookup]
  by_cases h6 : b = 6
  · subst h6; rfl
  · by_cases h9 : b = 9
    · subst h9; rfl
    · by_cases h12 : b = 12
      · subst h12; rfl
      · have h6' : ¬ (6 = b) := fun h => h6 h.symm
        have h9' : ¬ (9 = b) := fun h => h9 h.symm
        have h12' : ¬ (12 = b) := fun h => h12 h.symm
        simp [h6, h9, h12, h6', h9', h12']

/-- `ts_spec`: on the timeline (`first ≤ x`) the time-signature map returns the time signature in
    force, the first one for positions before it, and 4/4 (musical beats 4) when there is none. -/
theorem ts_spec (f l x : Int) (hx : f ≤ x) (tss : List (Int × Nat × Nat)) (hs : SortedLT tss) :
    (tss = [] → tsMap (some (f, l)) tss x = some (4, 4, 4)) ∧
    (∀ e, InForce tss x e → tsMap (some (f, l)) tss x = some (e.2.1, e.2.2, musicalBeats e.2.1)) ∧
    (∀ e rest, tss = e :: rest → x < e.1 →
      tsMap (some (f, l)) tss x = some (e.2.1, e.2.2, musicalBeats e.2.1)) := by
  refine ⟨?_, ?_, ?_⟩
  · rintro rfl
    exact tsMap_default (some (f, l)) x hx
  · intro e he
    have hne : tss ≠ [] := by intro h; rw [h] at he; exact absurd he.1 (by simp)
    rw [tsMap_eq_lookupPrev f l x tss hne hx, tsRows_eq]
    exact lookupPrev_of_inForce _ x (sortedLT_mapVal _ tss hs) _ (inForce_mapVal _ tss x e he)
  · rintro e rest rfl hlt
    rw [tsMap_eq_lookupPrev f l x _ (by simp) hx, tsRows_eq]
    exact lookupPrev_before _ _ _ x hlt

/-- a part without time points: 4/4 from position 0 on -/
theorem ts_default_empty_part (x : Int) (hx : 0 ≤ x) : tsMap none [] x = some (4, 4, 4) :=
  tsMap_default none x hx

example : tsMap (some (0, 20)) [(8, 3, 4)] 2 = some (3, 4, 3)
    ∧ tsMap (some (0, 20)) [(8, 3, 4), (12, 6, 8)] 13 = some (6, 8, 2)
    ∧ tsMap (some (0, 20)) [(8, 3, 4), (12, 6, 8)] 11 = some (3, 4, 3)
    ∧ tsMap (some (2, 20)) [] 5 = some (4, 4, 4)
    ∧ tsMap (some (2, 20)) [(8, 3, 4), (12, 6, 8)] 1 = none := by decide

/-! ### key signatures -/

/-- `ks_spec`: the key-signature map returns (fifths, mode code) of the key signature in force,
    of the first one before it, and C major `(0, 1)` when there is none; a missing mode is major. -/
theorem ks_spec (f l x : Int) (hx : f ≤ x) (kss : List (Int × Int × Mode)) (hs : SortedLT kss) :
    (kss = [] → ksMap (some (f, l)) kss x = some (0, 1)) ∧
    (∀ e, InForce kss x e → ksMap (some (f, l)) kss x = some (e.2.1, keyModeToInt e.2.2)) ∧
    (∀ e rest, kss = e :: rest → x < e.1 → ksMap (some (f, l)) kss x = some (e.2.1, keyModeToInt e.2.2)) := by
  refine ⟨?_, ?_, ?_⟩
  · rintro rfl
    exact ksMap_default (some (f, l)) x hx
  · intro e he
    have hne : kss ≠ [] := by intro h; rw [h] at he; exact absurd he.1 (by simp)
    rw [ksMap_eq_lookupPrev f l x kss hne hx, ksRows_eq]
    exact lookupPrev_of_inForce _ x (sortedLT_mapVal _ kss hs) _ (inForce_mapVal _ kss x e he)
  · rintro e rest rfl hlt
    rw [ksMap_eq_lookupPrev f l x _ (by simp) hx, ksRows_eq]
    exact lookupPrev_before _ _ _ x hlt

theorem ks_default_empty_part (x : Int) (hx : 0 ≤ x) : ksMap none [] x = some (0, 1) :=
  ksMap_default none x hx

/-- mode codes: +1 / −1, decoding to the mode; a missing mode (`None`, "none") is read as major -/
theorem mode_code (m : Mode) :
    (keyModeToInt m = 1 ∨ keyModeToInt m = -1) ∧ keyIntToMode (keyModeToInt m) = some m
    ∧ modeOfString "None" = some .major ∧ modeOfString "none" = some .major := by
  cases m <;> decide

example : ksMap (some (0, 9)) [(0, -3, .minor), (4, 2, .major)] 3 = some (-3, -1)
    ∧ ksMap (some (0, 9)) [(0, -3, .minor), (4, 2, .major)] 4 = some (2, 1)
    ∧ ksMap (some (0, 9)) [(4, 2, .major)] 0 = some (2, 1)
    ∧ ksMap (some (0, 9)) [] 0 = some (0, 1) := by decide

/-! ### clefs -/

/-- the code of the "no clef" default, and the whole regenerated table decodes to what was encoded -/
theorem clef_code :
    clefSignToInt "none" = some 6 ∧
    (∀ e ∈ CLEF_TO_INT, clefIntToSign e.2 = some e.1 ∧ clefSignToInt e.1 = some e.2) := by decide

/-- the rows handed to the interpolators are the clefs with their sign codes (missing line / octave change = 0);
    an unknown sign makes the map raise -/
theorem clef_rows_spec (clefs : List RawClef) :
    (∀ rows, clefRows clefs = some rows →
      List.Forall₂ (fun (c : RawClef) (r : Int × ClefV) =>
        r.1 = c.1 ∧ r.2.1 = c.2.1 ∧ clefSignToInt c.2.2.1 = some r.2.2.1 ∧ r.2.2.2.1 = c.2.2.2.1.getD 0
          ∧ r.2.2.2.2 = c.2.2.2.2.getD 0) clefs rows) ∧
    (clefRows clefs = none ↔ ∃ c ∈ clefs, clefSignToInt c.2.2.1 = none) := by
  induction clefs with
  | nil => exact ⟨by intro rows h; simp [clefRows] at h; subst h; exact .nil, by simp [clefRows]⟩
  | cons c rest ih =>
    obtain ⟨t, st, sign, line, oc⟩ := c
    constructor
    · intro rows h
      unfold clefRows at h
      cases hc : clefSignToInt sign with
      | none => simp [hc] at h
      | some code =>
        cases hrs : clefRows rest with
        | none => simp [hc, hrs] at h
        | some rs =>
          simp only [hc, hrs, Option.some.injEq] at h
          subst h
          refine .cons ⟨rfl, rfl, hc, ?_, ?_⟩ (ih.1 rs hrs)
          · cases line <;> rfl
          · cases oc <;> rfl
    · unfold clefRows
      cases hc : clefSignToInt sign with
      | none => simp [hc]
      | some code =>
        cases hrs : clefRows rest with
        | none =>
          have := ih.2.mp hrs
          simp [hc, this]
        | some rs =>
          have h1 : ¬ ∃ c ∈ rest, clefSignToInt c.2.2.1 = none := by
            intro h; have := ih.2.mpr h; rw [hrs] at this; simp at this
          simp only [reduceCtorEq, List.mem_cons, exists_eq_or_imp, hc, false_or, false_iff]
          exact h1

/-- the staff-count rule: the largest staff number carried by any element, at least 1 -/
theorem number_of_staves_spec (staffs : List Int) :
    1 ≤ numberOfStaves staffs ∧ (∀ s ∈ staffs, s ≤ (numberOfStaves staffs : Int)) ∧
    (numberOfStaves staffs = 1 ∨ (numberOfStaves staffs : Int) ∈ staffs) := by
  have key : ∀ (l : List Int) (m : Int), 1 ≤ m →
      m ≤ l.foldl (fun m s => if m < s then s else m) m ∧
      (∀ s ∈ l, s ≤ l.foldl (fun m s => if m < s then s else m) m) ∧
      (l.foldl (fun m s => if m < s then s else m) m = m ∨ l.foldl (fun m s => if m < s then s else m) m ∈ l) := by
    intro l
    induction l with
    | nil => intro m _; simp
    | cons a rest ih =>
      intro m hm
      simp only [List.foldl_cons]
      by_cases h : m < a
      · simp only [h, if_true]
        obtain ⟨h1, h2, h3⟩ := ih a (by omega)
        refine ⟨by omega, ?_, ?_⟩
        · intro s hs
          rcases List.mem_cons.mp hs with rfl | hs'
          · exact h1
          · exact h2 s hs'
        · rcases h3 with h3 | h3
          · right; rw [h3]; exact List.mem_cons_self ..
          · right; exact List.mem_cons_of_mem _ h3
      · simp only [h, if_false]
        obtain ⟨h1, h2, h3⟩ := ih m hm
        refine ⟨h1, ?_, ?_⟩
        · intro s hs
          rcases List.mem_cons.mp hs with rfl | hs'
          · omega
          · exact h2 s hs'
        · rcases h3 with h3 | h3
          · left; exact h3
          · right; exact List.mem_cons_of_mem _ h3
  obtain ⟨h1, h2, h3⟩ := key staffs 1 (Int.le_refl _)
  unfold numberOfStaves
  refine ⟨by omega, ?_, ?_⟩
  · intro s hs
    have := h2 s hs
    omega
  · rcases h3 with h3 | h3
    · left; rw [h3]; rfl
    · right
      have : ((staffs.foldl (fun m s => if m < s then s else m) 1).toNat : Int)
          = staffs.foldl (fun m s => if m < s then s else m) 1 := by omega
      rw [this]; exact h3

/-- `clef_spec`: one row per staff `1..number_of_staves`; on the timeline the row of staff `i+1` is
    the clef of that staff in force, the first clef of that staff before it, and
    `(staff, code of "none", 0, 0)` for a staff without clefs. -/
theorem clef_spec (f l x : Int) (hx : f ≤ x) (clefs : List RawClef) (others : List Int) (rows : Tbl ClefV)
    (hr : clefRows clefs = some rows) :
    ∃ res, clefMap (some (f, l)) clefs others x = some res ∧
      res.length = numberOfStaves (clefs.map (·.2.1) ++ others) ∧
      ∀ i : Nat, i < numberOfStaves (clefs.map (·.2.1) ++ others) →
        (rows.filter (fun r => r.2.1 = (i : Int) + 1) = [] → res[i]? = some (some ((i : Int) + 1, 6, 0, 0))) ∧
        (SortedLT rows → ∀ e, InForce (rows.filter fun r => r.2.1 = (i : Int) + 1) x e →
          res[i]? = some (some e.2)) ∧
        (∀ e rest, rows.filter (fun r => r.2.1 = (i : Int) + 1) = e :: rest → x < e.1 →
          res[i]? = some (some e.2)) := by
  have hn : clefSignToInt "none" = some 6 := by decide
  refine ⟨_, by unfold clefMap; rw [hr, hn], by simp, ?_⟩
  intro i hi
  have hget : ∀ (g : Nat → Option ClefV), ((List.range (numberOfStaves (clefs.map (·.2.1) ++ others))).map g)[i]?
      = some (g i) := by
    intro g; rw [List.getElem?_map, List.getElem?_range hi]; rfl
  rw [hget]
  refine ⟨?_, ?_, ?_⟩
  · intro hnil
    rw [clefStaff_default (some (f, l)) x rows 6 _ hnil hx]
  · intro hs e he
    have hne : rows.filter (fun r => r.2.1 = (i : Int) + 1) ≠ [] := by
      intro h; rw [h] at he; exact absurd he.1 (by simp)
    rw [clefStaff_eq_lookupPrev f l x rows 6 _ hne hx]
    have hsf : SortedLT (rows.filter fun r => r.2.1 = (i : Int) + 1) := List.Pairwise.filter _ hs
    rw [lookupPrev_of_inForce _ x hsf e he]
  · intro e rest hrest hlt
    rw [clefStaff_eq_lookupPrev f l x rows 6 _ (by rw [hrest]; simp) hx, hrest]
    obtain ⟨t, v⟩ := e
    rw [lookupPrev_before t v rest x hlt]

/-- an unknown clef sign: the map raises (`none`) -/
theorem clef_unknown_sign (span : Span) (clefs : List RawClef) (others : List Int) (x : Int)
    (h : clefRows clefs = none) : clefMap span clefs others x = none := by
  unfold clefMap; rw [h]

example : clefMap (some (0, 9)) [(0, 1, "G", some 2, some 0), (4, 3, "F", some 4, none), (6, 1, "C", some 3, some (-1))] [2] 5
    = some [some (1, 0, 2, 0), some (2, 6, 0, 0), some (3, 1, 4, 0)] := by decide

example : clefMap (some (0, 9)) [(0, 1, "G", some 2, some 0), (4, 3, "F", some 4, none), (6, 1, "C", some 3, some (-1))] [2] 7
    = some [some (1, 2, 3, -1), some (2, 6, 0, 0), some (3, 1, 4, 0)] := by decide

/-! ### measures -/

/-- the pickup rule: a first measure shorter than `beats · divs_per_beat` gets the start
    `round(end − beats · divs_per_beat)` (exactly `end − k` when the full bar is the integer `k`);
    otherwise, and when either quantity is NaN, it keeps its start.  The corrected start is never later. -/
theorem pickup_spec (s e : Int) (b d : Rat) :
    (((e - s : Int) : Rat) < b * d →
      |((pickupStart s e (some b) (some d) : Int) : Rat) - ((e : Rat) - b * d)| ≤ 1 / 2) ∧
    (∀ k : Int, b * d = (k : Rat) → e - s < k → pickupStart s e (some b) (some d) = e - k) ∧
    (¬ ((e - s : Int) : Rat) < b * d → pickupStart s e (some b) (some d) = s) ∧
    pickupStart s e none (some d) = s ∧ pickupStart s e (some b) none = s ∧
    (∀ b' d', pickupStart s e b' d' ≤ s) := by
  refine ⟨?_, ?_, ?_, rfl, rfl, fun b' d' => pickupStart_le s e b' d'⟩
  · intro h
    unfold pickupStart
    simp only [h, if_true]
    exact Round.roundHalfEven_close _
  · intro k hk hlt
    unfold pickupStart
    have h : ((e - s : Int) : Rat) < b * d := by rw [hk]; exact_mod_cast hlt
    show (if ((e - s : Int) : Rat) < b * d then roundHalfEven ((e : Rat) - b * d) else s) = e - k
    rw [if_pos h, hk]
    have : (e : Rat) - (k : Rat) = ((e - k : Int) : Rat) := (Int.cast_sub e k).symm
    rw [this]
    exact Round.roundHalfEven_int _
  · intro h
    unfold pickupStart
    simp only [h, if_false]

/-- `measure_spec`: for non-overlapping measures in time order (gaps allowed), a position inside
    measure `i = (s, e)` gets `(s', e)` where `s'` is the pickup-corrected start for the first measure
    and `s` otherwise. -/
theorem measure_spec (span : Span) (tss : List (Int × Nat × Nat)) (ms : List (Int × Int)) (d : Option Rat)
    (x : Int) (ht : Ordered ms) (i : Nat) (s e : Int) (hi : ms[i]? = some (s, e)) (hs : s ≤ x) (he : x < e) :
    measureMap span tss ms d x
      = some (if i = 0 then pickupStart s e (beatsAtZero span tss) d else s, e) := by
  rw [measureMap_tiles span tss ms d x ht i s e hi hs he]
  exact (corrected_get ms _ d i s e hi).1

/-- the beats used by the pickup rule are those of the time-signature map at time 0 -/
theorem beats_at_zero (span : Span) (tss : List (Int × Nat × Nat)) :
    beatsAtZero span tss = (tsMap span tss 0).map fun v => (v.1 : Rat) := rfl

/-- no measures: one measure spanning the timeline, at every position -/
theorem measure_default (f l : Int) (tss : List (Int × Nat × Nat)) (d : Option Rat) (x : Int) :
    measureMap (some (f, l)) tss [] d x = some (f, l) ∧ measureMap none tss [] d x = some (0, 0) :=
  ⟨rfl, rfl⟩

example : Tiles [(0, 4), (4, 20), (20, 36)] := by simp [Tiles]

example : measureMap (some (0, 36)) [(0, 4, 4)] [(0, 4), (4, 20), (20, 36)] (some 4) 2 = some (-12, 4)
    ∧ measureMap (some (0, 36)) [(0, 4, 4)] [(0, 4), (4, 20), (20, 36)] (some 4) 19 = some (4, 20)
    ∧ measureMap (some (0, 36)) [(0, 4, 4)] [(0, 16), (16, 32)] (some 4) 2 = some (0, 16) := by
  decide +kernel

/-- `number_spec`: for non-overlapping measures in time order, a position inside a numbered measure gets its number
    (whenever the map does not raise, i.e. no `None` number survives the one-step back-fill). -/
theorem number_spec (span : Span) (tss : List (Int × Nat × Nat)) (ms : List (Int × Int × Option Int))
    (d : Option Rat) (x : Int) (ht : Ordered (strip ms)) (filled : List Int)
    (hf : allSome (fillNumbers (ms.map (·.2.2))) = some filled)
    (i : Nat) (s e n : Int) (hi : ms[i]? = some (s, e, some n)) (hs : s ≤ x) (he : x < e) :
    measureNumberMap span tss ms d x = some (some n) :=
  measureNumberMap_tiles span tss ms d x ht filled hf i s e n hi hs he

/-- when every measure carries a number the map does not raise -/
theorem number_total (ms : List (Int × Int × Option Int)) (h : ∀ m ∈ ms, m.2.2 ≠ none) :
    ∃ filled, allSome (fillNumbers (ms.map (·.2.2))) = some filled := by
  apply allSome_of_forall_some
  apply fillNumbers_no_none
  intro o ho
  obtain ⟨m, hm, rfl⟩ := List.mem_map.mp ho
  exact h m hm

/-- no measures: number 1 everywhere -/
theorem number_default (span : Span) (tss : List (Int × Nat × Nat)) (d : Option Rat) (x : Int) :
    measureNumberMap span tss [] d x = some (some 1) := by
  cases span <;> rfl

/-- a measure without a number takes the previous measure's number (index −1 wraps to the last) -/
example : fillNumbers [none, some 7, none, some 9] = [some 9, some 7, some 7, some 9] := by decide

example : measureNumberMap (some (0, 36)) [(0, 4, 4)] [(0, 4, some 1), (4, 20, none), (20, 36, some 3)] (some 4) 25
    = some (some 3) := by decide +kernel

/-- `metrical_spec`: for measures that tile, a position inside measure `i = (s, e)` gets
    `(x − s', e − s')`, `s'` the pickup-corrected start for the first measure and `s` otherwise. -/
theorem metrical_spec (span : Span) (tss : List (Int × Nat × Nat)) (ms : List (Int × Int)) (d : Option Rat)
    (x : Int) (ht : Tiles ms) (i : Nat) (s e : Int) (hi : ms[i]? = some (s, e)) (hs : s ≤ x) (he : x < e) :
    metricalMap span tss ms d x
      = some (x - (if i = 0 then pickupStart s e (beatsAtZero span tss) d else s),
              some (e - (if i = 0 then pickupStart s e (beatsAtZero span tss) d else s))) :=
  metricalMap_tiles span tss ms d x ht i s e hi hs he

/-- with gaps between measures the distance from the (corrected) start still holds; the reported
    length is then the distance to the next bar start, which is why `metrical_spec` assumes tiling -/
theorem metrical_position_no_tiling (span : Span) (tss : List (Int × Nat × Nat)) (ms : List (Int × Int))
    (d : Option Rat) (x : Int) (ht : Ordered ms) (i : Nat) (s e : Int) (hi : ms[i]? = some (s, e))
    (hs : s ≤ x) (he : x < e) :
    (metricalMap span tss ms d x).map (·.1)
      = some (x - (if i = 0 then pickupStart s e (beatsAtZero span tss) d else s)) :=
  metricalMap_ordered span tss ms d x ht i s e hi hs he

example : Ordered [(0, 4), (6, 20)] ∧ ¬ Tiles [(0, 4), (6, 20)]
    ∧ metricalMap (some (0, 20)) [] [(0, 8), (10, 20)] none 3 = some (3, some 10) := by
  refine ⟨by simp [Ordered], by simp [Tiles], by decide +kernel⟩

/-- the metrical position is measured from the start that `measure_map` reports, and the length is
    the extent that `measure_map` reports -/
theorem metrical_agrees_with_measure_map (span : Span) (tss : List (Int × Nat × Nat)) (ms : List (Int × Int))
    (d : Option Rat) (x : Int) (ht : Tiles ms) (i : Nat) (s e : Int) (hi : ms[i]? = some (s, e))
    (hs : s ≤ x) (he : x < e) :
    ∃ s' e', measureMap span tss ms d x = some (s', e') ∧
      metricalMap span tss ms d x = some (x - s', some (e' - s')) :=
  ⟨_, _, measure_spec span tss ms d x ht.ordered i s e hi hs he, metrical_spec span tss ms d x ht i s e hi hs he⟩

/-- no measures: metrical position `(0, 0)` everywhere (the documented default) -/
theorem metrical_default (span : Span) (tss : List (Int × Nat × Nat)) (d : Option Rat) (x : Int) :
    metricalMap span tss [] d x = some (0, some 0) := rfl

example : metricalMap (some (0, 36)) [(0, 4, 4)] [(0, 4), (4, 20), (20, 36)] (some 4) 2 = some (14, some 16)
    ∧ metricalMap (some (0, 36)) [(0, 4, 4)] [(0, 4), (4, 20), (20, 36)] (some 4) 21 = some (1, some 16)
    ∧ metricalMap (some (0, 16)) [(0, 4, 4)] [(0, 16)] (some 4) 5 = some (5, some 16) := by
  decide +kernel

/-! ### scalar and vector queries -/

/-- scalar/vector agreement at the model level: a vector query is the scalar map at every element -/
theorem scalar_vector {β : Type} (f : Int → β) (xs : List Int) :
    vec f xs = xs.map f ∧ (vec f xs).length = xs.length ∧
      ∀ i (h : i < xs.length), (vec f xs)[i]? = some (f xs[i]) := by
  refine ⟨rfl, by simp [vec], fun i h => ?_⟩
  simp [vec, List.getElem?_eq_getElem h]

end C10
