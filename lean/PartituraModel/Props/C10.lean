/-
C10 — signature, clef and measure maps return what is in force at the queried time.
Property theorems over Model/StepMap.lean.
-/
import PartituraModel.Model.StepMap

namespace C10
open Model Model.StepMap

/-- scalar/vector agreement at the model level: a vector query is the scalar map at every element -/
theorem scalar_vector {β : Type} (f : Int → β) (xs : List Int) :
    vec f xs = xs.map f ∧ (vec f xs).length = xs.length ∧
      ∀ i (h : i < xs.length), (vec f xs)[i]? = some (f xs[i]) := by
  refine ⟨rfl, by simp [vec], fun i h => ?_⟩
  simp [vec, List.getElem?_eq_getElem h]

end C10
