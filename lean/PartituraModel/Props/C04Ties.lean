/-
C04 - tied notes merged, for tie chains whose members are NOT neighbours on the timeline (a tie over a first ending).
The merged note lasts the SUM of the members' durations from the onset of the head - what `save_score_midi` writes
(`to_ppq(start + duration_tied)`, rows of `notesTied` / `notesTiedV`: `score_roundtrip_tied`) - and that is the end of
the last member exactly when the chain has no gap.  Models: Model/MidiPair.lean (durationTied, notesTied),
Model/ScoreMidiTies.lean (endTied, chain), tied to partitura/score.py by harness/props/c04.py (`tied`, `tiedend`).
-/
import PartituraModel.Model.ScoreMidiTies

namespace C04
open Model.MidiPair Model.ScoreMidiTies

theorem chain_ne_nil (notes : List ScoreNote) : ∀ (fuel i : Nat) (c : List ScoreNote),
    chain notes fuel i = some c → c ≠ [] := by
  intro fuel
  cases fuel with
  | zero => intro i c h; simp [chain] at h
  | succ k =>
    intro i c h
    simp only [chain] at h
    cases hn : notes[i]? with
    | none => simp [hn] at h
    | some n =>
      simp only [hn] at h
      cases ht : n.tieNext with
      | none => simp only [ht] at h; cases h; simp
      | some j =>
        simp only [ht] at h
        cases hc : chain notes k j with
        | none => simp [hc] at h
        | some c' => simp only [hc, Option.map_some] at h; cases h; simp

/-- the chain starts with the note itself -/
theorem chain_head (notes : List ScoreNote) (fuel i : Nat) (h : ScoreNote) (t : List ScoreNote)
    (hc : chain notes fuel i = some (h :: t)) : notes[i]? = some h := by
  cases fuel with
  | zero => simp [chain] at hc
  | succ k =>
    simp only [chain] at hc
    cases hn : notes[i]? with
    | none => simp [hn] at hc
    | some n =>
      simp only [hn] at hc
      cases ht : n.tieNext with
      | none => simp only [ht] at hc; cases hc; rfl
      | some j =>
        simp only [ht] at hc
        cases hc' : chain notes k j with
        | none => simp [hc'] at hc
        | some c' => simp only [hc', Option.map_some] at hc; cases hc; rfl

/-- `duration_tied` of a chain head is the SUM of the durations of the members of its chain - wherever they stand -/
theorem duration_tied_sum (notes : List ScoreNote) : ∀ (fuel i : Nat) (c : List ScoreNote),
    chain notes fuel i = some c → durationTied notes fuel i = (c.map (·.dur)).sum := by
  intro fuel
  induction fuel with
  | zero => intro i c h; simp [chain] at h
  | succ k ih =>
    intro i c h
    simp only [chain] at h
    simp only [durationTied]
    cases hn : notes[i]? with
    | none => simp [hn] at h
    | some n =>
      simp only [hn] at h ⊢
      cases ht : n.tieNext with
      | none => simp only [ht] at h ⊢; cases h; simp
      | some j =>
        simp only [ht] at h ⊢
        cases hc : chain notes k j with
        | none => simp [hc] at h
        | some c' =>
          simp only [hc, Option.map_some] at h
          cases h
          simp [ih j c' hc]

/-- `duration_tied` does not read where the members stand: moving the notes (any new starts) leaves it unchanged -/
theorem duration_tied_ignores_positions (notes : List ScoreNote) (f : ScoreNote → Nat) : ∀ (fuel i : Nat),
    durationTied (notes.map fun n => { n with start := f n }) fuel i = durationTied notes fuel i := by
  intro fuel
  induction fuel with
  | zero => intro i; rfl
  | succ k ih =>
    intro i
    simp only [durationTied, List.getElem?_map]
    cases hn : notes[i]? with
    | none => simp
    | some n =>
      simp only [Option.map_some]
      cases ht : n.tieNext with
      | none => simp
      | some j => simp [ih j]

/-- `end_tied` of a chain head whose members follow each other (with or without gaps) is the onset of the head plus
    `duration_tied` PLUS the divisions of the gaps: the end of the last member is later than the end of the merged
    note by exactly what the tie skips -/
theorem end_tied_gaps (notes : List ScoreNote) : ∀ (fuel i : Nat) (h : ScoreNote) (t : List ScoreNote),
    chain notes fuel i = some (h :: t) → Forward (h :: t) →
    endTied notes fuel i = h.start + durationTied notes fuel i + gapSum (h :: t) := by
  intro fuel
  induction fuel with
  | zero => intro i h t hc; simp [chain] at hc
  | succ k ih =>
    intro i h t hc hf
    simp only [chain] at hc
    simp only [endTied, durationTied]
    cases hn : notes[i]? with
    | none => simp [hn] at hc
    | some n =>
      simp only [hn] at hc ⊢
      cases ht : n.tieNext with
      | none =>
        simp only [ht] at hc ⊢
        cases hc
        simp [gapSum]
      | some j =>
        simp only [ht] at hc ⊢
        cases hc' : chain notes k j with
        | none => simp [hc'] at hc
        | some c' =>
          simp only [hc', Option.map_some] at hc
          cases hc
          cases t with
          | nil => exact absurd rfl (chain_ne_nil notes k j [] hc')
          | cons m t' =>
            have := ih j m t' hc' hf.2
            have hle := hf.1
            simp only [gapSum]
            omega

theorem contiguous_forward : ∀ (c : List ScoreNote), Contiguous c → Forward c ∧ gapSum c = 0
  | [], _ => ⟨trivial, rfl⟩
  | [_], _ => ⟨trivial, rfl⟩
  | a :: b :: l, h => by
    have ih := contiguous_forward (b :: l) h.2
    have h1 := h.1
    refine ⟨⟨by omega, ih.1⟩, ?_⟩
    simp only [gapSum, ih.2]
    omega

/-- an ORDINARY tie chain (every member starts where its predecessor ends): the end of the last member is the end of
    the merged note - the only case in which `end_tied.t` may stand for `start + duration_tied` -/
theorem end_tied_contiguous (notes : List ScoreNote) (fuel i : Nat) (h : ScoreNote) (t : List ScoreNote)
    (hc : chain notes fuel i = some (h :: t)) (hcont : Contiguous (h :: t)) :
    endTied notes fuel i = h.start + durationTied notes fuel i := by
  have := contiguous_forward _ hcont
  rw [end_tied_gaps notes fuel i h t hc this.1, this.2]
  rfl

/-- a chain with a gap: the end of the last member is strictly LATER than the end of the merged note, so the note off
    of the merged note (`score_roundtrip_tied`: head onset + summed duration) is not the image of `end_tied.t` -/
theorem end_tied_after_merged_end (notes : List ScoreNote) (fuel i : Nat) (h : ScoreNote) (t : List ScoreNote)
    (hc : chain notes fuel i = some (h :: t)) (hf : Forward (h :: t)) (hgap : 0 < gapSum (h :: t)) :
    h.start + durationTied notes fuel i < endTied notes fuel i := by
  rw [end_tied_gaps notes fuel i h t hc hf]
  omega

/-- the two readings agree exactly on the chains without a gap -/
theorem end_tied_eq_iff_no_gap (notes : List ScoreNote) (fuel i : Nat) (h : ScoreNote) (t : List ScoreNote)
    (hc : chain notes fuel i = some (h :: t)) (hf : Forward (h :: t)) :
    endTied notes fuel i = h.start + durationTied notes fuel i ↔ gapSum (h :: t) = 0 := by
  rw [end_tied_gaps notes fuel i h t hc hf]
  omega

/-- the row the exporter reads for a chain head: its own onset and pitch, the summed duration -/
theorem tied_row_of_head (notes : List ScoreNote) (i : Nat) (n : ScoreNote) (hn : notes[i]? = some n)
    (hp : n.tiePrev = false) : (n.start, durationTied notes notes.length i, n.pitch) ∈ notesTied notes := by
  unfold notesTied
  rw [List.mem_filterMap]
  refine ⟨i, ?_, ?_⟩
  · rw [List.mem_range]
    exact (List.getElem?_eq_some_iff.mp hn).1
  · simp [hn, hp]

/-- non-vacuity (the tie over a first ending, 12 divisions per quarter: C5 on beat 4 of bar 1 tied to the half note
    C5 that opens bar 3): the merged note lasts 12 + 24 = 36 divisions and ends at 72; the last member ends at 120 -/
example : notesTied [⟨36, 12, 72, false, some 1⟩, ⟨96, 24, 72, true, none⟩] = [(36, 36, 72)] := by decide +kernel
example : tiedEnds [⟨36, 12, 72, false, some 1⟩, ⟨96, 24, 72, true, none⟩] = [(36, 36, 120, 72)] := by decide +kernel
example : chain [⟨36, 12, 72, false, some 1⟩, ⟨96, 24, 72, true, none⟩] 2 0
    = some [⟨36, 12, 72, false, some 1⟩, ⟨96, 24, 72, true, none⟩] := rfl
example : Forward [⟨36, 12, 72, false, some 1⟩, ⟨96, 24, 72, true, none⟩] ∧
    gapSum [⟨36, 12, 72, false, some 1⟩, ⟨96, 24, 72, true, none⟩] = 48 := ⟨⟨by decide, trivial⟩, rfl⟩
/-- an ordinary tie over a barline: both readings give 60 -/
example : tiedEnds [⟨36, 12, 65, false, some 1⟩, ⟨48, 12, 65, true, none⟩] = [(36, 24, 60, 65)] := by decide +kernel
example : Contiguous [⟨36, 12, 65, false, some 1⟩, ⟨48, 12, 65, true, none⟩] := ⟨rfl, trivial⟩

end C04
