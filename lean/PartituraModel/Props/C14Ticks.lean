/-
C14 (round 6) — "onsets in seconds and ticks that agree under ppq and mpq … durations … in ticks agreeing with them":
HOW WELL they agree, for all times and all positive ppq / mpq.

`Props/C14.rows_consistent` states that the tick columns are `seconds_to_midi_ticks` of the seconds columns.  Here:
that conversion is within HALF A TICK of the time (`tick_within_half`), exact on every time that is a whole number of
ticks (`tick_exact_on_grid`), monotone and non-negative (`tick_mono`, `tick_nonneg`); so in every row built from a note
with 0 ≤ onset ≤ release the onset tick is non-negative and within half a tick of the onset, the tick duration is
non-negative and within ONE tick of release − onset — of the seconds duration whenever no pedal extends the note
(`rows_ticks_agree`).  The scale 10^6, the rounding of ties and the keyword defaults are REGENERATED (`tick_tables`).
-/
import PartituraModel.Proofs.Round
import Mathlib.Tactic.Ring
import PartituraModel.Model.PedalOrder

namespace C14
open Model Model.Pedal

/-- `seconds_to_midi_ticks`: one second at mpq = ppq = 1 is 10^6 ticks, ties go to the even tick, and both conversions
    default to the mpq / ppq a `PerformedPart` defaults to -/
theorem tick_tables :
    Gen.C14Order.tickScale = 1000000 ∧ Gen.C14Order.tickHalfEven = true
      ∧ Gen.C14Order.tickDefaultMpq = Gen.C14.defaultMpq ∧ Gen.C14Order.tickDefaultPpq = Gen.C14.defaultPpq := by decide

/-- the conversions with the regenerated scale are the ones every model of the project uses -/
theorem tick_scale_is_model (t : Rat) (k : Int) (mpq ppq : Nat) :
    secToTickG t mpq ppq = secToTick t mpq ppq ∧ tickToSecG k mpq ppq = tickToSec k mpq ppq := by
  constructor
  · simp [secToTickG, secToTick, Gen.C14Order.tickScale]
  · simp [tickToSecG, tickToSec, Gen.C14Order.tickScale]

/-- one tick in seconds -/
def tickLen (mpq ppq : Nat) : Rat := (mpq : Rat) / (1000000 * (ppq : Rat))

theorem tickLen_pos (mpq ppq : Nat) (hm : 0 < mpq) (hp : 0 < ppq) : 0 < tickLen mpq ppq := by
  have h1 : (0 : Rat) < mpq := Nat.cast_pos.mpr hm
  have h2 : (0 : Rat) < ppq := Nat.cast_pos.mpr hp
  exact div_pos h1 (mul_pos (by norm_num) h2)

theorem tickToSec_eq (k : Int) (mpq ppq : Nat) : tickToSec k mpq ppq = tickLen mpq ppq * (k : Rat) := by
  unfold tickToSec tickLen
  ring

theorem tick_arg (t : Rat) (mpq ppq : Nat) (hm : 0 < mpq) (hp : 0 < ppq) :
    1000000 * (ppq : Rat) * t / (mpq : Rat) = t / tickLen mpq ppq := by
  have h1 : (mpq : Rat) ≠ 0 := ne_of_gt (Nat.cast_pos.mpr hm)
  have h2 : (ppq : Rat) ≠ 0 := ne_of_gt (Nat.cast_pos.mpr hp)
  unfold tickLen
  field_simp

/-- seconds and ticks agree: converting a time to ticks and back moves it by at most half a tick -/
theorem tick_within_half (t : Rat) (mpq ppq : Nat) (hm : 0 < mpq) (hp : 0 < ppq) :
    |tickToSec (secToTick t mpq ppq) mpq ppq - t| ≤ tickLen mpq ppq / 2 := by
  have hL := tickLen_pos mpq ppq hm hp
  have hclose := Round.roundHalfEven_close (t / tickLen mpq ppq)
  rw [tickToSec_eq]
  unfold secToTick
  rw [tick_arg t mpq ppq hm hp]
  have e : tickLen mpq ppq * ((roundHalfEven (t / tickLen mpq ppq) : Int) : Rat) - t
      = tickLen mpq ppq * (((roundHalfEven (t / tickLen mpq ppq) : Int) : Rat) - t / tickLen mpq ppq) := by
    field_simp
  rw [e, abs_mul, abs_of_pos hL]
  calc tickLen mpq ppq * |((roundHalfEven (t / tickLen mpq ppq) : Int) : Rat) - t / tickLen mpq ppq|
      ≤ tickLen mpq ppq * (1 / 2) := mul_le_mul_of_nonneg_left hclose hL.le
    _ = tickLen mpq ppq / 2 := by ring

/-- a time that is a whole number of ticks is converted exactly -/
theorem tick_exact_on_grid (k : Int) (mpq ppq : Nat) (hm : 0 < mpq) (hp : 0 < ppq) :
    secToTick (tickToSec k mpq ppq) mpq ppq = k := by
  have hL := tickLen_pos mpq ppq hm hp
  unfold secToTick
  rw [tick_arg _ mpq ppq hm hp, tickToSec_eq]
  have : tickLen mpq ppq * (k : Rat) / tickLen mpq ppq = (k : Rat) := by
    field_simp
  rw [this]
  exact Round.roundHalfEven_int k

/-- a later time never gets an earlier tick -/
theorem tick_mono (t t' : Rat) (mpq ppq : Nat) (hm : 0 < mpq) (hp : 0 < ppq) (h : t ≤ t') :
    secToTick t mpq ppq ≤ secToTick t' mpq ppq := by
  have hL := tickLen_pos mpq ppq hm hp
  unfold secToTick
  rw [tick_arg t mpq ppq hm hp, tick_arg t' mpq ppq hm hp]
  exact Round.roundHalfEven_mono (div_le_div_of_nonneg_right h hL.le)

theorem tick_nonneg (t : Rat) (mpq ppq : Nat) (hm : 0 < mpq) (hp : 0 < ppq) (h : 0 ≤ t) : 0 ≤ secToTick t mpq ppq := by
  have h0 : secToTick 0 mpq ppq = 0 := by
    have := tick_exact_on_grid 0 mpq ppq hm hp
    simpa [tickToSec] using this
  rw [← h0]
  exact tick_mono 0 t mpq ppq hm hp h

/-- the rows of `note_array()` of a note with 0 ≤ onset ≤ release (and no given onset tick), for all positive ppq / mpq:
    the onset tick is non-negative and within half a tick of the onset in seconds; the duration in ticks is non-negative,
    zero for a zero-length note, and within one tick of release − onset, hence of the duration in seconds whenever no
    pedal extends the note -/
theorem rows_ticks_agree (mpq ppq : Nat) (hm : 0 < mpq) (hp : 0 < ppq) (n : Note) (so : Rat) (hot : n.onTick = none)
    (h0 : 0 ≤ n.on) (h1 : n.on ≤ n.off) :
    0 ≤ (noteRow mpq ppq n so).onsetTick
      ∧ |tickToSec (noteRow mpq ppq n so).onsetTick mpq ppq - (noteRow mpq ppq n so).onsetSec| ≤ tickLen mpq ppq / 2
      ∧ 0 ≤ (noteRow mpq ppq n so).durTick
      ∧ (n.on = n.off → (noteRow mpq ppq n so).durTick = 0)
      ∧ |tickToSec (noteRow mpq ppq n so).durTick mpq ppq - (n.off - n.on)| ≤ tickLen mpq ppq
      ∧ (so = n.off →
          |tickToSec (noteRow mpq ppq n so).durTick mpq ppq - (noteRow mpq ppq n so).durSec| ≤ tickLen mpq ppq) := by
  have hon : (noteRow mpq ppq n so).onsetTick = secToTick n.on mpq ppq := by simp [noteRow, hot]
  have hdur : (noteRow mpq ppq n so).durTick = secToTick n.off mpq ppq - secToTick n.on mpq ppq := by simp [noteRow, hot]
  have hsec : (noteRow mpq ppq n so).onsetSec = n.on := rfl
  have hds : (noteRow mpq ppq n so).durSec = so - n.on := rfl
  have ha := tick_within_half n.on mpq ppq hm hp
  have hb := tick_within_half n.off mpq ppq hm hp
  have hlin : tickToSec (secToTick n.off mpq ppq - secToTick n.on mpq ppq) mpq ppq - (n.off - n.on)
      = (tickToSec (secToTick n.off mpq ppq) mpq ppq - n.off) - (tickToSec (secToTick n.on mpq ppq) mpq ppq - n.on) := by
    rw [tickToSec_eq, tickToSec_eq, tickToSec_eq]
    push_cast
    ring
  have hone : |tickToSec (secToTick n.off mpq ppq - secToTick n.on mpq ppq) mpq ppq - (n.off - n.on)| ≤ tickLen mpq ppq := by
    rw [hlin]
    calc _ ≤ |tickToSec (secToTick n.off mpq ppq) mpq ppq - n.off| + |tickToSec (secToTick n.on mpq ppq) mpq ppq - n.on| :=
          abs_sub _ _
      _ ≤ tickLen mpq ppq / 2 + tickLen mpq ppq / 2 := add_le_add hb ha
      _ = tickLen mpq ppq := by ring
  rw [hon, hdur, hsec, hds]
  refine ⟨tick_nonneg _ mpq ppq hm hp h0, ha, ?_, ?_, hone, ?_⟩
  · have := tick_mono n.on n.off mpq ppq hm hp h1
    omega
  · intro he
    rw [he]
    omega
  · intro hso
    rw [hso]
    exact hone

-- mpq = 500000, ppq = 480: a tick is 1/960 s.  A note from 1/3 s to 2/3 s: ticks 320 and 640, exact; from 0.0004 s:
-- tick 0 (0.384 of a tick)
example : noteRow 500000 480 ⟨60, 1/3, 2/3, 64, 0, 1, none⟩ (2/3) = ⟨1/3, 1/3, 320, 320, 60, 64, 0, 1⟩
    ∧ tickLen 500000 480 = 1/960
    ∧ (noteRow 500000 480 ⟨60, 1/2500, 1/1000, 64, 0, 1, none⟩ (1/1000)).onsetTick = 0
    ∧ (noteRow 500000 480 ⟨60, 1/2500, 1/1000, 64, 0, 1, none⟩ (1/1000)).durTick = 1 := by decide +kernel

end C14
