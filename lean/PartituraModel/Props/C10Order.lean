/-
C10 (round 5) — coincident elements: WHICH of several elements of a kind that start at the same time is reported.

The Reading of the property has at most one element of a kind (and staff) per time; `lookup_spec` only says that the
value of ONE of the rows in force is returned.  The code is more definite: scipy's `previous` interpolation over the
stably sorted abscissae returns the LAST sample at or before the query, i.e. the last element in `iter_all` order
(C01: time order, then order of insertion; a re-added element is the latest), and the back-fill row copies the FIRST
element.  Here that is a theorem over all tables in time order, carried to the three signature maps and to every
state of the timeline reachable by a valid edit history.
-/
import PartituraModel.Proofs.C10Order
import PartituraModel.Props.C10
import PartituraModel.Props.C10Part
import PartituraModel.Props.C10Timeline

namespace C10
open Model Model.StepMap Gen

/-- **`lookup_last_in_order`**: in a table in time order (coincident times allowed) scipy's answer is the value of
    the LAST row, in table order, that starts at or before `x`; NaN when there is none -/
theorem lookup_last_in_order {α : Type} (tbl : Tbl α) (x : Int) (hs : SortedLE tbl) :
    lastLE tbl x = (upTo tbl x).getLast?.map (·.2) := by
  induction tbl with
  | nil => rfl
  | cons hd rest ih =>
    obtain ⟨t, v⟩ := hd
    have hs' := List.pairwise_cons.mp hs
    by_cases hx : x < t
    · rw [lastLE_cons_of_lt t v rest x hx, upTo_nil_of_lt]
      · rfl
      · intro e he
        rcases List.mem_cons.mp he with rfl | he'
        · exact hx
        · have := hs'.1 e he'
          simp only at this
          omega
    · have htx : t ≤ x := by omega
      rw [lastLE_cons_of_le t v rest x htx, ih hs'.2]
      have hf : upTo ((t, v) :: rest) x = (t, v) :: upTo rest x := by
        unfold upTo
        rw [List.filter_cons]
        simp [htx]
      rw [hf]
      cases hu : upTo rest x with
      | nil => rfl
      | cons a l =>
        rw [List.getLast?_cons_cons]
        cases hl : (a :: l).getLast? with
        | none => simp at hl
        | some e => rfl

/-- … and the back-filled lookup answers the FIRST row when every row starts after `x` -/
theorem lookupPrev_last_in_order {α : Type} (tbl : Tbl α) (x : Int) (hs : SortedLE tbl) :
    lookupPrev tbl x = match (upTo tbl x).getLast? with
      | some e => some e.2
      | none => tbl.head?.map (·.2) := by
  unfold lookupPrev
  rw [lookup_last_in_order tbl x hs]
  cases (upTo tbl x).getLast? <;> rfl

/-- two key signatures at time 4: the later one in the table is reported from 4 on, the first row before 0 -/
example : lastLE [((0 : Int), "a"), (4, "b"), (4, "c"), (9, "d")] 6 = some "c"
    ∧ upTo [((0 : Int), "a"), (4, "b"), (4, "c"), (9, "d")] 6 = [(0, "a"), (4, "b"), (4, "c")] := by decide

/-- **`ks_coincident`**: with several key signatures at one time allowed (table in `iter_all` order), on the
    timeline the map reports the LAST key signature in that order among those starting at or before `x`, and the
    FIRST one of the table for positions before all of them -/
theorem ks_coincident (f l x : Int) (hx : f ≤ x) (kss : List (Int × Int × Mode)) (hs : SortedLE kss)
    (hne : kss ≠ []) :
    ksMap (some (f, l)) kss x = match (upTo kss x).getLast? with
      | some e => some (e.2.1, keyModeToInt e.2.2)
      | none => kss.head?.map fun e => (e.2.1, keyModeToInt e.2.2) := by
  rw [ksMap_eq_lookupPrev f l x kss hne hx, ksRows_eq,
    lookupPrev_last_in_order _ x (sortedLE_mapVal _ kss hs), upTo_mapVal, getLast_mapVal]
  cases (upTo kss x).getLast? with
  | some e => rfl
  | none =>
    cases kss with
    | nil => exact absurd rfl hne
    | cons a b => rfl

/-- **`ts_coincident`**: the same for time signatures (with their stored musical beats) -/
theorem ts_coincident (f l x : Int) (hx : f ≤ x) (ts : List TimeMap.TSig) (hs : SortedLE (tsTbl ts))
    (hne : ts ≠ []) :
    tsMapE (some (f, l)) ts x = match (upTo (tsTbl ts) x).getLast? with
      | some e => some (e.2.beats, e.2.beatType, e.2.mb)
      | none => ts.head?.map fun s => (s.beats, s.beatType, s.mb) := by
  rw [tsMapE_eq_lookupPrev f l x ts hne hx, tsRowsE_eq,
    lookupPrev_last_in_order _ x (sortedLE_mapVal _ _ hs), upTo_mapVal, getLast_mapVal]
  cases (upTo (tsTbl ts) x).getLast? with
  | some e => rfl
  | none =>
    cases ts with
    | nil => exact absurd rfl hne
    | cons a b => rfl

/-- **`clef_coincident`**: the same per staff: the row of staff `i+1` is the LAST clef of that staff, in `iter_all`
    order, among those starting at or before `x`; the first clef of that staff before all of them -/
theorem clef_coincident (f l x : Int) (hx : f ≤ x) (clefs : List RawClef) (others : List Int) (rows : Tbl ClefV)
    (hr : clefRows clefs = some rows) (hs : SortedLE rows) (i : Nat)
    (hi : i < numberOfStaves (clefs.map (·.2.1) ++ others))
    (hne : rows.filter (fun r => r.2.1 = (i : Int) + 1) ≠ []) :
    ∃ res, clefMap (some (f, l)) clefs others x = some res ∧
      res[i]? = some (match (upTo (rows.filter fun r => r.2.1 = (i : Int) + 1) x).getLast? with
        | some e => some e.2
        | none => (rows.filter fun r => r.2.1 = (i : Int) + 1).head?.map (·.2)) := by
  have hn : clefSignToInt "none" = some 6 := by decide
  refine ⟨_, by unfold clefMap; rw [hr, hn], ?_⟩
  rw [List.getElem?_map, List.getElem?_range hi]
  simp only [Option.map_some, Option.some.injEq]
  rw [clefStaff_eq_lookupPrev f l x rows 6 _ hne hx]
  have hsf : SortedLE (rows.filter fun r => r.2.1 = (i : Int) + 1) := List.Pairwise.filter _ hs
  rw [lookupPrev_last_in_order _ x hsf]
  cases (upTo (rows.filter fun r => r.2.1 = (i : Int) + 1) x).getLast? <;> rfl

example : clefMap (some (0, 9)) [(0, 1, "G", some 2, none), (0, 1, "F", some 4, none), (0, 2, "C", some 3, none)] [] 3
    = some [some (1, 1, 4, 0), some (2, 2, 3, 0)] := by decide

example : ksMap (some (0, 12)) [(0, 1, .major), (4, -2, .minor), (4, 3, .major), (9, 0, .major)] 6 = some (3, 1)
    ∧ tsMapE (some (0, 12)) [⟨2, 3, 4, 3⟩, ⟨2, 6, 8, 2⟩, ⟨8, 2, 2, 2⟩] 5 = some (6, 8, 2)
    ∧ tsMapE (some (0, 12)) [⟨2, 3, 4, 3⟩, ⟨2, 6, 8, 2⟩, ⟨8, 2, 2, 2⟩] 1 = some (3, 4, 3) := by decide

/-- **`coincident_any_history`**: after ANY valid edit history of the timeline, the lookup on the table a map builds
    from `iter_all(cls)` reports the value of the LAST object in `iter_all` order among those of the class that start
    at or before `x` (for coincident objects: the one `iter_all` yields last - C01: the latest insertion), and the value
    of the first object `iter_all` yields for positions before all of them -/
theorem coincident_any_history {α : Type} (q : Nat) (ops : List TL.Op)
    (hv : TL.ValidHistory (TL.Part.init q) ops) (cls : Nat) (hc : cls < Gen.numClasses)
    (hk : ∀ e ∈ (TL.run (TL.Part.init q) ops).objs, e.ref.cls < Gen.numClasses) (val : TL.ObjRef → α) (x : Int) :
    lookupPrev (classTable (TL.run (TL.Part.init q) ops) cls val) x
      = match (upTo (classTable (TL.run (TL.Part.init q) ops) cls val) x).getLast? with
        | some e => some e.2
        | none => (classTable (TL.run (TL.Part.init q) ops) cls val).head?.map (·.2) :=
  lookupPrev_last_in_order _ x (tables_sorted_any_history q ops hv cls hc hk val).1

/-- in `exHistory` (Props/C10Timeline.lean) objects 0 and 1 of class 2 both start at 8, object 1 re-added last: it
    is the one reported from 8 on -/
example : lookupPrev (classTable (TL.run (TL.Part.init 1) exHistory) 2 (fun o => o.id)) 9 = some 1 := by
  decide +kernel

end C10
