/-
C01, round 2 — the numpy primitives behind the timeline as proved algorithms, and `_add_point` /
`_remove_point` themselves.

`bsearch` is the binary search numpy runs for `np.searchsorted(a, key)`; `npInsert` / `npDelete` are the
slice-copying `np.insert` / `np.delete` (Model/TimelineExt.lean).  Model/Timeline.lean uses the simpler
`searchsorted` (number of leading elements `< key`), `List.insertIdx`, `List.eraseIdx`; the theorems below
show that on the arrays the timeline ever holds (strictly sorted by time) these are the same functions, so the
only thing still trusted about numpy is that it runs the textbook algorithms (compared, see harness `np` cases).
-/
import PartituraModel.Proofs.C01Np
import PartituraModel.Proofs.C01WeakOps

namespace C01
open TL

/-! ### searchsorted -/

/-- numpy's binary search on a sorted array returns THE insertion index of `key` (side="left"): every element
before it is `< key`, no element from it on is — i.e. the least index whose element is `≥ key`, or `len` -/
theorem bsearch_spec {a : List Int} (hs : a.Pairwise (· ≤ ·)) (key : Int) :
    bsearch a key ≤ a.length
    ∧ (∀ j x, j < bsearch a key → a[j]? = some x → x < key)
    ∧ (∀ j x, bsearch a key ≤ j → a[j]? = some x → key ≤ x) := bsearch_isLB hs key

/-- … and it is the only index with that property -/
theorem bsearch_unique {a : List Int} (hs : a.Pairwise (· ≤ ·)) (key : Int) (r : Nat) (h1 : r ≤ a.length)
    (h2 : ∀ j x, j < r → a[j]? = some x → x < key) (h3 : ∀ j x, r ≤ j → a[j]? = some x → key ≤ x) :
    r = bsearch a key := isLB_unique ⟨h1, h2, h3⟩ (bsearch_isLB hs key)

/-- the model's `searchsorted` (prefix count) has the same specification … -/
theorem searchsorted_spec {a : List Int} (hs : a.Pairwise (· ≤ ·)) (key : Int) :
    searchsorted a key ≤ a.length
    ∧ (∀ j x, j < searchsorted a key → a[j]? = some x → x < key)
    ∧ (∀ j x, searchsorted a key ≤ j → a[j]? = some x → key ≤ x) := searchsorted_isLB hs key

/-- … hence computes what numpy's binary search computes, on every sorted array -/
theorem bsearch_eq_searchsorted {a : List Int} (hs : a.Pairwise (· ≤ ·)) (key : Int) :
    bsearch a key = searchsorted a key := bsearch_eq_searchsorted' hs key

/-! ### np.insert / np.delete -/

theorem npInsert_eq_insertIdx {α : Type} (a : List α) (i : Nat) (x : α) :
    npInsert a i x = if i ≤ a.length then some (a.insertIdx i x) else none := by
  unfold npInsert
  split
  · rename_i h; rw [insertIdx_eq_take_drop' a i x h]
  · rfl

theorem npDelete_eq_eraseIdx {α : Type} (a : List α) (i : Nat) :
    npDelete a i = if i < a.length then some (a.eraseIdx i) else none := by
  unfold npDelete
  split
  · rw [eraseIdx_eq_take_drop']
  · rfl

/-! ### on the arrays of a reachable part -/

/-- in every reachable state, for the point array and for the quarter-time list: the search index the model
uses is numpy's, it is in range for `np.insert`, and `np.insert` at it is the model's `insertIdx`; when a
point with time `t` exists the index is in range for `np.delete`, which is the model's `eraseIdx` -/
theorem timeline_np {s : Part} (hW : WInv s) (t : Int) :
    bsearch s.times t = searchsorted s.times t
    ∧ bsearch (s.qtab.map (·.1)) t = searchsorted (s.qtab.map (·.1)) t
    ∧ (∀ p : Point, npInsert s.points (bsearch s.times t) p
        = some (s.points.insertIdx (searchsorted (s.points.map (·.t)) t) p))
    ∧ (t ∈ s.times → npDelete s.points (bsearch s.times t)
        = some (s.points.eraseIdx (searchsorted (s.points.map (·.t)) t))) := by
  have hs := le_of_lt_pairwise hW.sorted
  have e1 := bsearch_eq_searchsorted' hs t
  have hlen : searchsorted s.times t ≤ s.points.length := by
    have := searchsorted_le_length s.times t
    simpa [Part.times] using this
  refine ⟨e1, bsearch_eq_searchsorted' (le_of_lt_pairwise hW.qsorted) t, ?_, ?_⟩
  · intro p
    rw [npInsert_eq_insertIdx, e1]
    simp only [hlen, if_true]
    rfl
  · intro hmem
    rw [npDelete_eq_eraseIdx, e1]
    have hlt : searchsorted s.times t < s.points.length := by
      rcases Nat.lt_or_ge (searchsorted s.times t) s.points.length with h | h
      · exact h
      · exfalso
        obtain ⟨j, hj, hjt⟩ := List.getElem_of_mem hmem
        have hx : s.times[j]? = some t := by rw [List.getElem?_eq_getElem hj, hjt]
        have := (searchsorted_isLB hs t).2.1 j t (by
          have : j < s.points.length := by simpa [Part.times] using hj
          omega) hx
        omega
    simp only [hlt, if_true]
    rfl

/-! ### `Part._add_point` / `Part._remove_point` -/

/-- `_add_point(TimePoint(t, q))` on a sorted, correctly linked point array: nothing happens when a point at `t`
exists; otherwise the fresh point is inserted at its sorted position and the result is again strictly sorted
and correctly linked, all other points keeping everything but their links -/
theorem addPoint_correct {pts : List Point} (hs : (pts.map (·.t)).Pairwise (· < ·)) (hl : LinksFrom none pts)
    (t : Int) (q : Nat) :
    (t ∈ pts.map (·.t) → addPoint pts (freshPoint t q) = .ok pts)
    ∧ (t ∉ pts.map (·.t) → ∃ pts', addPoint pts (freshPoint t q) = .ok pts'
        ∧ (pts'.map (·.t)).Pairwise (· < ·) ∧ LinksFrom none pts'
        ∧ ∃ pre post, pts = pre ++ post ∧ (∀ p ∈ pre, p.t < t) ∧ (∀ p ∈ post, t < p.t)
          ∧ pts'.map Point.unlink = (pre ++ freshPoint t q :: post).map Point.unlink) := by
  obtain ⟨pre, post, hsplit, h1, h2, -⟩ := searchsorted_split pts t
  constructor
  · intro hmem
    obtain ⟨pre', b, r, hsp, hbt, h1', -⟩ := split_at_time hs hmem
    rw [hsp]
    exact addPoint_present pre' r b t q h1' hbt
  · intro hnot
    have h2' : ∀ b ∈ post.head?, t < b.t := by
      intro b hb
      have hle := h2 b hb
      have hbm : b ∈ pts := by rw [hsplit]; exact List.mem_append.mpr (Or.inr (List.mem_of_mem_head? hb))
      have : b.t ≠ t := fun e => hnot (e ▸ List.mem_map_of_mem hbm)
      omega
    have hallpost : ∀ p ∈ post, t < p.t := by
      cases post with
      | nil => simp
      | cons b r =>
        intro p hp
        have hb := h2' b (by simp)
        rcases List.mem_cons.mp hp with rfl | hp
        · exact hb
        · exact sorted_post_gt (hsplit ▸ hs) (Int.le_of_lt hb) p hp
    refine ⟨insertLinked pre post t q, by rw [hsplit]; exact addPoint_absent pre post t q h1 h2', ?_,
      links_insertLinked pre post t q (hsplit ▸ hl), pre, post, hsplit, h1, hallpost, unlink_insertLinked pre post t q⟩
    rw [times_of_unlink_eq (unlink_insertLinked pre post t q)]
    rw [hsplit] at hs
    simp only [List.map_append, List.map_cons, List.pairwise_append, List.pairwise_cons] at hs ⊢
    refine ⟨hs.1, ⟨?_, hs.2.1⟩, ?_⟩
    · intro x hx
      obtain ⟨p, hp, rfl⟩ := List.mem_map.mp hx
      exact hallpost p hp
    · intro a ha b hb
      rcases List.mem_cons.mp hb with rfl | hb
      · obtain ⟨p, hp, rfl⟩ := List.mem_map.mp ha
        exact h1 p hp
      · exact hs.2.2 a ha b hb

/-- `_remove_point(tp)` (repaired, fixes/C01-1) for a point of a sorted, correctly linked array: the point is
deleted, the result is strictly sorted and correctly linked — also when it was the first, the last or the
only point — and all other points keep everything but their links -/
theorem removePoint_correct {pts : List Point} (hs : (pts.map (·.t)).Pairwise (· < ·)) (hl : LinksFrom none pts)
    {t : Int} (ht : t ∈ pts.map (·.t)) :
    ∃ pts', removePoint pts t = .ok pts' ∧ (pts'.map (·.t)).Pairwise (· < ·) ∧ LinksFrom none pts'
      ∧ ∃ pre b post, pts = pre ++ b :: post ∧ b.t = t
        ∧ pts'.map Point.unlink = (pre ++ post).map Point.unlink := by
  obtain ⟨pre, b, r, hsplit, hbt, h1, -⟩ := split_at_time hs ht
  refine ⟨eraseLinked pre r, by rw [hsplit]; exact removePoint_present pre r b t h1 hbt, ?_,
    links_eraseLinked pre r b (hsplit ▸ hl), pre, b, r, hsplit, hbt, unlink_eraseLinked pre r⟩
  rw [times_of_unlink_eq (unlink_eraseLinked pre r)]
  rw [hsplit] at hs
  simp only [List.map_append, List.map_cons, List.pairwise_append, List.pairwise_cons] at hs ⊢
  exact ⟨hs.1, hs.2.1.2, fun a ha c hc => hs.2.2 a ha c (by simp [hc])⟩

/-- the only way `_remove_point` raises: every point lies before `t` (`self._points[i]` with `i == len`);
`_cleanup_point` never calls it so (`remove_any_effect`: `remove` succeeds in every reachable state) -/
theorem removePoint_raises_iff (pts : List Point) (t : Int) :
    removePoint pts t = .error .index ↔ ∀ p ∈ pts, p.t < t := by
  obtain ⟨pre, post, hsplit, h1, h2, hidx⟩ := searchsorted_split pts t
  subst hsplit
  unfold removePoint
  simp only [hidx, getElem?_app_len]
  cases post with
  | nil =>
    simp only [List.head?_nil, List.append_nil]
    exact ⟨fun _ => h1, fun _ => trivial⟩
  | cons b r =>
    have hb := h2 b (by simp)
    simp only [List.head?_cons]
    constructor
    · intro h
      split at h <;> simp [pure, Except.pure] at h
    · intro h
      have := h b (by simp)
      omega

/-! ### non-vacuity -/

section Examples

example : bsearch [0, 2, 4, 4, 7, 9] 4 = 2 ∧ bsearch [0, 2, 4, 4, 7, 9] 5 = 4 ∧ bsearch [0, 2, 4, 4, 7, 9] 10 = 6
    ∧ bsearch [] 3 = 0 ∧ bsearch [0, 2, 4, 4, 7, 9] (-1) = 0 := by decide
example : ([0, 2, 4, 4, 7, 9] : List Int).Pairwise (· ≤ ·) := by decide
/-- on an UNSORTED array the two differ (so sortedness is a real hypothesis) -/
example : bsearch [5, 1, 3] 2 = 2 ∧ searchsorted [5, 1, 3] 2 = 0 := by decide
example : npInsert [10, 20, 30] 1 15 = some [10, 15, 20, 30] ∧ npInsert [10, 20, 30] 3 40 = some [10, 20, 30, 40]
    ∧ npInsert [10, 20, 30] 4 50 = none ∧ npDelete [10, 20, 30] 2 = some [10, 20] ∧ npDelete [10, 20, 30] 3 = none := by
  decide
/-- `removePoint_raises_iff`: the unrepaired witness input (removing the last point) does not raise -/
example : (removePoint [freshPoint 0 1, freshPoint 5 1] 5).toOption.map (fun l => l.map (·.t)) = some [0] := by
  decide +kernel
example : removePoint [freshPoint 0 1, freshPoint 5 1] 9 = .error .index := by decide +kernel

end Examples

end C01
