/-
C05, round 6 — SCORE-LEVEL tables (Score / PartGroup / list of parts, nested groups) and rest lists on the float cells
AS STORED.

`note_array_from_part_list` never recomputes a float cell: it makes each part's table (`note_array_from_part`, whose
cells are modelled bit for bit by `rowsF`, Props/C05Stored.lean), prefixes ids, multiplies the three division columns,
stacks the tables (`np.hstack`) and sorts on the stored `onset_beat` column, then pitch.  The model of that
(`partListRowsW rowsF`, `ensureNoteArrayF`; Model/NoteArrayF64.lean) is compared with the real arrays with tolerance 0
(streams `scoref`, `restlistf`, `restsfc`).  Theorems, for every tree of parts / groups and every option vector:
  * `dispatch_is_shared`: the dispatch over a part table, taken at the exact-rational part table, IS the dispatch of
    round 2 (`ensureNoteArray` / `ensureRestArray`) — one dispatch, two part tables;
  * `score_cells_stored`: every row of a score-level table carries the stored cells of a sounding note of one of the
    parts: `onset_* = f32 (map64 onset)`, `duration_* = f32 (f64 (map64 offset - map64 onset))`, maps of THAT part;
  * `score_table_sorted_on_stored_column`, `every_entry_point_sorted_on_stored_column`: the table is ordered by the
    stored `onset_beat` column itself, then pitch — for every entry point.  (Round 5 assumed that the separately rounded
    exact beat orders the rows like the stored column; no such assumption is left for note arrays.)
  * `stored_score_rows` (with `score_note_array_is_flat_stored`): the COMPLETE row of a score / flat list: a sounding
    note of a part with one divisions value `dv` dividing the least common multiple `L`, division columns times `L / dv`,
    `divs_pq = L`, float cells = the part's stored cells;
  * `stored_rest_columns`, `rest_list_cells_stored`, `rest_list_sorted_on_stored_column`: the same for rest arrays
    (uncollapsed) of parts, lists and groups;
  * `collapse_float_sums`, `stored_collapse`: collapse=True on the stored array — the merged float durations are the
    left-to-right binary32 sums of the stored durations; division totals kept, no adjacent rows left.
-/
import PartituraModel.Props.C05Stored
import PartituraModel.Props.C05Collapse
import PartituraModel.Proofs.C05StoredScore

namespace C05
open NoteArray List

/-- the four float cells of the row of note `n` (tied duration `dur`) of the described part `d`, as numpy stores them;
    the sort key is the stored onset_beat cell -/
def StoredCells (d : Desc) (n : Note) (dur : Int) (r : Row) : Prop :=
  r.onsetBeat = f32round ((d.beat64 n.onset).getD 0) ∧
  r.durBeat = f32round (f64round ((d.beat64 (n.onset + dur)).getD 0 - (d.beat64 n.onset).getD 0)) ∧
  r.onsetQuarter = f32round ((d.quarter64 n.onset).getD 0) ∧
  r.durQuarter = f32round (f64round ((d.quarter64 (n.onset + dur)).getD 0 - (d.quarter64 n.onset).getD 0)) ∧
  r.key = r.onsetBeat

theorem StoredCells.of_copied {d : Desc} {n : Note} {dur : Int} {r r0 : Row} (hc : Copied r r0)
    (h : StoredCells d n dur r0) : StoredCells d n dur r := by
  obtain ⟨c1, c2, c3, c4, c5, _, _⟩ := hc
  obtain ⟨h1, h2, h3, h4, h5⟩ := h
  exact ⟨c2.trans h1, c3.trans h2, c4.trans h3, c5.trans h4, by rw [c1, c2]; exact h5⟩

/-- ONE DISPATCH, TWO PART TABLES: the entry points over a given part table, taken at the exact-rational tables
    `rowsC` / `restRowsC`, are `ensureNoteArray` / `ensureRestArray` of round 2 (whose theorems `dispatch_reduces`,
    `score_is_flat_list`, … therefore describe the dispatch that the stored model `ensureNoteArrayF` uses) -/
theorem dispatch_is_shared (u : Bool) (o : Opts) (x : Input) :
    ensureNoteArrayW rowsC u o x = ensureNoteArray u o x ∧
    ∀ c, ensureRestArrayW restRowsC u o c x = ensureRestArray u o c x := by
  have hl : ∀ l, partListRowsW rowsC u o l = partListRows u o l := by
    intro l; unfold partListRowsW partListRows; rw [tablesOfW_rowsC]
  have hr : ∀ c l, restListRowsW restRowsC u o c l = restListRows u o c l := by
    intro c l; unfold restListRowsW restListRows; rw [restTablesOfW_restRowsC]
  constructor
  · cases x <;> simp only [ensureNoteArrayW, ensureNoteArray, hl]
  · intro c
    cases x <;> simp only [ensureRestArrayW, ensureRestArray, hr]

/-- a part list is one group -/
theorem partListRowsW_group (pt : PartTable) (u : Bool) (o : Opts) (l : List Tree) :
    (Tree.group l).tableW pt u o = partListRowsW pt u o l := by
  rw [Tree.tableW]; rfl

/-- EVERY FLOAT CELL OF A SCORE-LEVEL TABLE: whatever the nesting of groups, the unique_id_per_part flag and the
    options, each row of `note_array_from_part_list` carries the stored cells of a sounding note of one of the parts —
    the binary32 roundings of the binary64 values of THAT part's maps at the note's onset / offset. -/
theorem score_cells_stored (u : Bool) (o : Opts) (l : List Tree) (out : List Row)
    (h : partListRowsW rowsF u o l = some out) :
    ∀ r ∈ out, ∃ p ∈ partsOf l, ∃ n ∈ notesTied p.2, ∃ dur,
      durationTied p.2 n = some dur ∧ StoredCells p.1 n dur r := by
  intro r hr
  rw [← partListRowsW_group] at h
  obtain ⟨p, hp, tab, htab, r0, hr0, hc⟩ := tableW_copied rowsF u o (.group l) out h r hr
  rw [Tree.parts] at hp
  obtain ⟨n, hn, dur, hd, _, _, _, h1, h2, h3, h4, h5⟩ := stored_columns p.1 p.2 _ tab htab r0 hr0
  exact ⟨p, hp, n, hn, dur, hd, StoredCells.of_copied hc ⟨h1, h2, h3, h4, h5⟩⟩

/-- THE ORDER OF A SCORE-LEVEL TABLE, ON THE STORED VALUES: ordered by the stored `onset_beat` column, then pitch. -/
theorem score_table_sorted_on_stored_column (u : Bool) (o : Opts) (l : List Tree) (out : List Row)
    (h : partListRowsW rowsF u o l = some out) :
    out.Pairwise (NoteArray.Lex (·.onsetBeat) (fun a b => a.pitch ≤ b.pitch)) := by
  have hcells := score_cells_stored u o l out h
  obtain ⟨ts, _, hm⟩ := Option.bind_eq_some_iff.mp h
  obtain ⟨_, hs⟩ := merge_union u ts out hm
  apply hs.imp_of_mem
  intro a b ha hb hab
  obtain ⟨_, _, _, _, _, _, _, _, _, _, hka⟩ := hcells a ha
  obtain ⟨_, _, _, _, _, _, _, _, _, _, hkb⟩ := hcells b hb
  unfold NoteArray.Lex at hab ⊢
  simp only at hab ⊢
  rw [← hka, ← hkb]
  exact hab

/-- ... FOR EVERY ENTRY POINT (`ensure_notearray` on a part, a group, a score, a list; the methods are the same calls:
    `ensure_is_method`): whenever a table comes back it is ordered by its stored `onset_beat` column, then pitch. -/
theorem every_entry_point_sorted_on_stored_column (u : Bool) (o : Opts) (x : Input) (wd : Bool) (out : List Row)
    (h : ensureNoteArrayF u o x = .table wd out) :
    out.Pairwise (NoteArray.Lex (·.onsetBeat) (fun a b => a.pitch ≤ b.pitch)) := by
  have key : ∀ (w : Bool) (t : Option (List Row)), Res.ofOption w t = .table wd out → t = some out := by
    intro w t ht
    cases t with
    | none => cases ht
    | some t' =>
      simp only [Res.ofOption, Res.table.injEq] at ht
      rw [ht.2]
  unfold ensureNoteArrayF at h
  cases x with
  | structured t => cases h
  | plainArray => cases h
  | part d ns => exact stored_table_sorted d ns o out (key _ _ h)
  | group cs => exact score_table_sorted_on_stored_column u o cs out (key _ _ h)
  | score st => exact score_table_sorted_on_stored_column u o (flatParts st) out (key _ _ h)
  | list items =>
    simp only [ensureNoteArrayW] at h
    split at h
    · exact score_table_sorted_on_stored_column u o items out (key _ _ h)
    · cases h
  | other => cases h

-- ------------------------------------------------------------------ the whole row of a score-level table

theorem tablesOfW_parts (pt : PartTable) (u : Bool) (o : Opts) : ∀ ps : List (Desc × List Note),
    tablesOfW pt u o (ps.map fun p => Tree.part p.1 p.2) =
      NoteArray.mapM' (fun (p : Desc × List Note) => pt p.1 p.2 { o with divs := true }) ps := by
  intro ps
  induction ps with
  | nil => rw [List.map_nil, tablesOfW]; rfl
  | cons p ps ih =>
    rw [List.map_cons, tablesOfW, ih, Tree.tableW]
    conv_rhs => rw [NoteArray.mapM']
    cases pt p.1 p.2 { o with divs := true } <;>
      cases NoteArray.mapM' (fun (p : Desc × List Note) => pt p.1 p.2 { o with divs := true }) ps <;> rfl

/-- a part table made with the divisions column: the part has ONE divisions value `dv`, every row carries it, and the
    float cells are the stored ones -/
theorem stored_part_table_divs (d : Desc) (notes : List Note) (o : Opts) (t : List Row)
    (h : rowsF d notes { o with divs := true } = some t) :
    ∃ dv : Int, (d.tm.qd.map fun x => (x.2 : Int)) = [dv] ∧
      ∀ r ∈ t, r.divsPq = dv ∧ ∃ n ∈ notesTied notes, ∃ dur,
        durationTied notes n = some dur ∧ r.onsetDiv = n.onset ∧ r.durDiv = dur ∧ StoredCells d n dur r := by
  have hcols := stored_columns d notes _ t h
  obtain ⟨t0, ht0, rfl⟩ := rowsF_some d notes _ t h
  obtain ⟨dv, rs, hdv, _, _⟩ := rows_structure (part64 d notes { o with divs := true }) _ t0 ht0
  have hq : (d.tm.qd.map fun x => (x.2 : Int)) = [dv] := by
    unfold divsOf at hdv
    simp only [if_true] at hdv
    split at hdv
    · rename_i q hq
      simp only [Option.some.injEq] at hdv
      subst hdv
      exact hq
    · cases hdv
  refine ⟨dv, hq, ?_⟩
  intro r hr
  obtain ⟨n, hn, dur, hd, _, hon, hdur, h1, h2, h3, h4, h5⟩ := hcols r hr
  refine ⟨?_, n, hn, dur, hd, hon, hdur, h1, h2, h3, h4, h5⟩
  obtain ⟨r0, hr0, rfl⟩ := mem_map.mp hr
  obtain ⟨n', _, dv', d', pch, m, hdv', _, _, _, rfl⟩ := row_values (part64 d notes { o with divs := true }) _ t0 ht0 r0 hr0
  rw [hdv] at hdv'
  simp only [Option.some.injEq] at hdv'
  subst hdv'
  rfl

/-- **THE ROW OF A SCORE-LEVEL TABLE, COMPLETE** (a score, or a list of parts: `score_is_flat_list`): with `L` the
    least common multiple of the divisions of the parts that have notes, every row is the row of a sounding note of one
    of the parts — that part has one divisions value `dv`, `dv` divides `L`, the onset and the tied duration in
    divisions are multiplied by `L / dv` (an exact integer), the divisions column holds `L`, and the four float cells
    are the stored cells of the part's own table (binary64 map values, binary32 store): nothing is recomputed. -/
theorem stored_score_rows (u : Bool) (o : Opts) (ps : List (Desc × List Note)) (out : List Row)
    (h : partListRowsW rowsF u o (ps.map fun p => Tree.part p.1 p.2) = some out) :
    ∃ ts, NoteArray.mapM' (fun (p : Desc × List Note) => rowsF p.1 p.2 { o with divs := true }) ps = some ts ∧
      ∀ r ∈ out, ∃ p ∈ ps, ∃ dv : Nat, (p.1.tm.qd.map fun x => (x.2 : Int)) = [(dv : Int)] ∧ 0 < dv ∧
        dv ∣ Model.natLcm (ts.map tableDivs) ∧
        ∃ n ∈ notesTied p.2, ∃ dur, durationTied p.2 n = some dur ∧ StoredCells p.1 n dur r ∧
          r.onsetDiv = n.onset * ((Model.natLcm (ts.map tableDivs) / dv : Nat) : Int) ∧
          r.durDiv = dur * ((Model.natLcm (ts.map tableDivs) / dv : Nat) : Int) ∧
          r.divsPq = ((Model.natLcm (ts.map tableDivs) : Nat) : Int) := by
  unfold partListRowsW at h
  rw [tablesOfW_parts] at h
  obtain ⟨ts, hts, hm⟩ := Option.bind_eq_some_iff.mp h
  refine ⟨ts, hts, ?_⟩
  intro r hr
  obtain ⟨t, ht, r0, hr0, hc, hon, hdur, hdq⟩ := mergeTables_copied u ts out hm r hr
  obtain ⟨_, _, hresc⟩ := lcm_rescale u ts out hm
  obtain ⟨hpos, hdvd, hmul, _⟩ := hresc t ht
  obtain ⟨p, hp, hpt⟩ := forall₂_mem_right (mapM'_forall₂ _ ps ts hts) t ht
  obtain ⟨dv, hq, hrows⟩ := stored_part_table_divs p.1 p.2 o t hpt
  obtain ⟨hdq0, n, hn, dur, hd, hon0, hdur0, hcells⟩ := hrows r0 hr0
  -- the divisions of the table are the divisions of its first row
  have htd : (tableDivs t : Int) = dv := by
    cases t with
    | nil => cases hr0
    | cons a l =>
      have ha := (hrows a mem_cons_self).1
      have hpos' : 0 < a.divsPq.toNat := hpos
      show ((a.divsPq.toNat : Nat) : Int) = dv
      rw [← ha]
      omega
  have hdvn : dv = ((tableDivs t : Nat) : Int) := htd.symm
  refine ⟨p, hp, tableDivs t, by rw [hq, hdvn], hpos, hdvd, n, hn, dur, hd, StoredCells.of_copied hc hcells, ?_, ?_, ?_⟩
  · rw [hon, hon0]
  · rw [hdur, hdur0]
  · rw [hdq, hdq0, hdvn]
    rw [Int.mul_comm]
    exact_mod_cast hmul

/-- `Score.note_array` / `ensure_notearray(score)`: the score forgets its grouping (`Score.parts` is the depth-first list
    of parts), so `stored_score_rows` describes every row of its table, with `ps` = the parts of the score in order -/
theorem score_note_array_is_flat_stored (u : Bool) (o : Opts) (st : List Tree) (wd : Bool) (out : List Row)
    (h : ensureNoteArrayF u o (.score st) = .table wd out) :
    wd = true ∧ partListRowsW rowsF u o ((partsOf st).map fun p => Tree.part p.1 p.2) = some out := by
  unfold ensureNoteArrayF at h
  simp only [ensureNoteArrayW, flatParts] at h
  cases hx : partListRowsW rowsF u o ((partsOf st).map fun p => Tree.part p.1 p.2) with
  | none => rw [hx] at h; cases h
  | some t =>
    rw [hx] at h
    simp only [Res.ofOption, Res.table.injEq] at h
    exact ⟨h.1.symm, by rw [h.2]⟩

-- ------------------------------------------------------------------ rest arrays

/-- the part `restRowsF` tabulates is `part64` -/
theorem restRowsF_some (d : Desc) (notes : List Note) (o : Opts) (out : List Row) (h : restRowsF d notes o = some out) :
    ∃ t, restRows (part64 d notes o) false = some t ∧ out = t.map storeRow64 := by
  unfold restRowsF at h
  split at h
  · cases h
  · split at h
    · simp only [Option.map_eq_some_iff] at h
      obtain ⟨t, ht, rfl⟩ := h
      exact ⟨t, ht, rfl⟩
    · cases h

/-- EVERY STORED FLOAT CELL OF A REST ARRAY (no collapsing): one row per rest, pitch 0, the cells are the binary32
    roundings of the binary64 map values at the rest's onset / offset; ordered by the stored onset_beat column. -/
theorem stored_rest_columns (d : Desc) (notes : List Note) (o : Opts) (out : List Row)
    (h : restRowsF d notes o = some out) :
    (∀ r ∈ out, ∃ n ∈ restsOf notes, ∃ dur,
      durationTied notes n = some dur ∧ r.onsetDiv = n.onset ∧ r.durDiv = dur ∧ r.pitch = 0 ∧ StoredCells d n dur r) ∧
    out.Pairwise (NoteArray.Lex (·.onsetBeat) (fun a b => a.pitch ≤ b.pitch)) ∧
    out.length = (restsOf notes).length := by
  obtain ⟨t, ht, rfl⟩ := restRowsF_some d notes o out h
  obtain ⟨hs, hv⟩ := rest_row_values (part64 d notes o) t ht
  have hcells : ∀ r ∈ t.map storeRow64, ∃ n ∈ restsOf notes, ∃ dur,
      durationTied notes n = some dur ∧ r.onsetDiv = n.onset ∧ r.durDiv = dur ∧ r.pitch = 0 ∧ StoredCells d n dur r := by
    intro r hr
    obtain ⟨r0, hr0, rfl⟩ := mem_map.mp hr
    obtain ⟨n, hn, dur, m, hd, _, hrow, hp, hon, hdur, _⟩ := hv r0 hr0
    refine ⟨n, hn, dur, hd, hon, hdur, hp, ?_⟩
    subst hrow
    exact ⟨rfl, rfl, rfl, rfl, rfl⟩
  refine ⟨hcells, ?_, ?_⟩
  · rw [pairwise_map]
    apply hs.imp_of_mem
    intro a b ha hb hab
    obtain ⟨_, _, _, _, _, _, _, _, _, _, _, hka⟩ := hcells (storeRow64 a) (mem_map_of_mem ha)
    obtain ⟨_, _, _, _, _, _, _, _, _, _, _, hkb⟩ := hcells (storeRow64 b) (mem_map_of_mem hb)
    have ha' : (storeRow64 a).key = a.key := rfl
    have hb' : (storeRow64 b).key = b.key := rfl
    unfold NoteArray.Lex at hab ⊢
    simp only at hab ⊢
    rw [← hka, ← hkb, ha', hb']
    exact hab
  · rw [length_map]
    exact (rest_rows_bijective (part64 d notes o) t ht).2

theorem restRowsFC_false (d : Desc) (notes : List Note) (o : Opts) : restRowsFC d notes o false = restRowsF d notes o := by
  unfold restRowsFC
  cases restRowsF d notes o <;> rfl

/-- a rest list is one group -/
theorem restListRowsW_group (rt : RestTable) (u : Bool) (o : Opts) (c : Bool) (l : List Tree) :
    (Tree.group l).restTableW rt u o c = restListRowsW rt u o c l := by
  rw [Tree.restTableW]; rfl

/-- the rest array of a list / group / nested groups (no collapsing): every row carries the stored cells of a rest of
    one of the parts -/
theorem rest_list_cells_stored (u : Bool) (o : Opts) (l : List Tree) (out : List Row)
    (h : restListRowsW restRowsFC u o false l = some out) :
    ∀ r ∈ out, ∃ p ∈ partsOf l, ∃ n ∈ restsOf p.2, ∃ dur,
      durationTied p.2 n = some dur ∧ r.pitch = 0 ∧ StoredCells p.1 n dur r := by
  intro r hr
  rw [← restListRowsW_group] at h
  obtain ⟨p, hp, tab, htab, r0, hr0, hc⟩ := restTableW_copied restRowsFC u o false (.group l) out h r hr
  rw [Tree.parts] at hp
  rw [restRowsFC_false] at htab
  obtain ⟨n, hn, dur, hd, _, _, hp0, hcells⟩ := (stored_rest_columns p.1 p.2 _ tab htab).1 r0 hr0
  exact ⟨p, hp, n, hn, dur, hd, hc.2.2.2.2.2.1.trans hp0, StoredCells.of_copied hc hcells⟩

/-- ... and it is ordered by the stored `onset_beat` column (all pitches are 0) -/
theorem rest_list_sorted_on_stored_column (u : Bool) (o : Opts) (l : List Tree) (out : List Row)
    (h : restListRowsW restRowsFC u o false l = some out) :
    out.Pairwise (NoteArray.Lex (·.onsetBeat) (fun a b => a.pitch ≤ b.pitch)) := by
  have hcells := rest_list_cells_stored u o l out h
  obtain ⟨ts, _, rfl⟩ := Option.map_eq_some_iff.mp h
  have hs : (mergeRestTables u ts).Pairwise (NoteArray.Lex (·.key) (fun a b => a.pitch ≤ b.pitch)) := by
    unfold mergeRestTables
    exact (rows_sorted _).1
  apply hs.imp_of_mem
  intro a b ha hb hab
  obtain ⟨_, _, _, _, _, _, _, _, _, _, _, hka⟩ := hcells a ha
  obtain ⟨_, _, _, _, _, _, _, _, _, _, _, hkb⟩ := hcells b hb
  unfold NoteArray.Lex at hab ⊢
  simp only at hab ⊢
  rw [← hka, ← hkb]
  exact hab

-- ------------------------------------------------------------------ collapse=True on the stored array

/-- WHAT A MERGED FLOAT DURATION IS, for every rounding: the row that absorbs the rests adjacent to it holds the
    left-to-right sum of their stored durations, rounded after every addition (`store` = binary32: numpy adds two
    float32 scalars).  This is the exact statement for float32 columns that `collapse_float_totals_partial` (exact
    columns only) leaves open; the division total is `collapse_first_row`. -/
theorem collapse_float_sums (store : Rat → Rat) (target voice : Int) : ∀ (post : List Row) (c : Row),
    (absorbAll store target voice c post).durBeat =
      (post.filter (hits target voice)).foldl (fun acc x => store (acc + x.durBeat)) c.durBeat ∧
    (absorbAll store target voice c post).durQuarter =
      (post.filter (hits target voice)).foldl (fun acc x => store (acc + x.durQuarter)) c.durQuarter := by
  intro post
  induction post with
  | nil => intro c; exact ⟨rfl, rfl⟩
  | cons x l ih =>
    intro c
    rw [absorbAll]
    by_cases hx : hits target voice x = true
    · rw [if_pos hx, filter_cons_of_pos hx, foldl_cons, foldl_cons]
      exact ih (absorbS store c x)
    · rw [if_neg hx, filter_cons_of_neg hx]
      exact ih c

/-- `rest_array_from_part(..., collapse=True)` on the stored values: the stored uncollapsed table (`stored_rest_columns`)
    collapsed with binary32 sums and the fuel the theorems of Props/C05Collapse.lean ask for; so on a clean table the
    division total of every voice is kept and no two rows of a voice are adjacent any more — on the stored array. -/
theorem stored_collapse (d : Desc) (notes : List Note) (o : Opts) (out : List Row)
    (h : restRowsFC d notes o true = some out) :
    ∃ t, restRowsF d notes o = some t ∧ out = recCollapse f32round (t.length + 1) t ∧
      (CleanTable t → (∀ v, sumW (·.durDiv) v out = sumW (·.durDiv) v t) ∧ CleanTable out ∧ ∀ c ∈ out, NoHit c out) := by
  unfold restRowsFC at h
  obtain ⟨t, ht, hout⟩ := Option.map_eq_some_iff.mp h
  simp only [if_true] at hout
  refine ⟨t, ht, hout.symm, ?_⟩
  intro hc
  subst hout
  refine ⟨fun v => (collapse_total f32round _ t hc v).1, (collapse_total f32round _ t hc 0).2, ?_⟩
  exact (collapse_merges_adjacent f32round t).2.2 (t.length + 1) hc (Nat.lt_succ_self _)

section Examples

/-- two parts with divisions 3 (the pickup example of Props/C05Stored.lean) and 2: least common multiple 6 -/
def exDesc2 : Desc :=
  { tm := { npoints := 2, first := 0, last := 8, qd := [(0, 2)], ts := [⟨0, 4, 4, 4⟩], m1 := some (0, 8), musical := false },
    kss := [], ms := [(0, 8)] }

def exNotes2 : List Note :=
  [ { id := "x", kind := .note, onset := 1, dur := 2, step := "G", alter := none, octave := 3, voice := some 1,
      staff := some 1, graceType := "", tieNext := none, tiePrev := none },
    { id := "r", kind := .rest, onset := 3, dur := 1, step := "", alter := none, octave := 0, voice := some 1,
      staff := some 1, graceType := "", tieNext := none, tiePrev := none } ]

def exTrees : List Tree := [.part exDesc3 exNotes3, .group [.part exDesc2 exNotes2]]

example : ((partListRowsW rowsF true noOpts exTrees).map fun t => t.map fun r => (r.id, r.onsetBeat, r.onsetDiv, r.divsPq)) =
    some [("P00_a", -11184811 / 16777216, 0, 6), ("P00_b", 0, 4, 6), ("P00_c", 11184811 / 33554432, 6, 6),
          ("P01_x", 1 / 2, 3, 6)] := by decide +kernel

example : (match ensureNoteArrayF true noOpts (.list exTrees) with | .refused => true | _ => false) = true := by decide +kernel

example : ((restListRowsW restRowsFC true noOpts false exTrees).map fun t => t.map fun r => (r.id, r.onsetBeat, r.durBeat)) =
    some [("P01_P00_r", 3 / 2, 1 / 2)] := by decide +kernel

/-- triplet rests 1/3 + 4/3 in the pickup part: the merged beat duration is the binary32 SUM of the two stored
    durations, 6990507 / 2^22 = 1.6666667 (the binary32 number nearest to 5/3 is 13981013 / 2^23 — one unit below) -/
def exRests3 : List Note :=
  [ { id := "r1", kind := .rest, onset := 2, dur := 1, step := "", alter := none, octave := 0, voice := some 1,
      staff := some 1, graceType := "", tieNext := none, tiePrev := none },
    { id := "r2", kind := .rest, onset := 3, dur := 4, step := "", alter := none, octave := 0, voice := some 1,
      staff := some 1, graceType := "", tieNext := none, tiePrev := none },
    { id := "r3", kind := .rest, onset := 10, dur := 1, step := "", alter := none, octave := 0, voice := some 1,
      staff := some 1, graceType := "", tieNext := none, tiePrev := none } ]

example : ((restRowsFC exDesc3 exRests3 noOpts true).map fun t => t.map fun r => (r.id, r.onsetBeat, r.durBeat, r.durDiv)) =
    some [("r1", 0, 6990507 / 4194304, 5), ("r3", 11184811 / 4194304, 11184811 / 33554432, 1)] := by decide +kernel

example : f32round (5 / 3) = 13981013 / 8388608 ∧ (6990507 : Rat) / 4194304 ≠ 13981013 / 8388608 := by decide +kernel

/-- the stored table of that part is clean (hypothesis of `stored_collapse`) -/
example : (restRowsF exDesc3 exRests3 noOpts).isSome = true ∧
    CleanTable ((restRowsF exDesc3 exRests3 noOpts).getD []) :=
  ⟨by decide +kernel,
   { pre_le := fun x hx => by cases hx
     sorted := by decide +kernel
     pos := by decide +kernel
     apart := by decide +kernel
     tg_le := fun k hk => by cases hk }⟩

end Examples

end C05
