import PartituraModel.Props.C12Lits

namespace C12
open Model Gen Gen.C12 Gen.C12L C12Bridge C12Lits

/-- the sign strings of SIGN_TO_ALTER that the note-name pattern can read (made of `x`, `b`, `#` only) -/
def grammarSigns : List (String × Option Int) :=
  SIGN_TO_ALTER.filter fun e => !e.1.toList.isEmpty && e.1.toList.all isAccChar

theorem grammar_signs_facts :
    ∀ e ∈ grammarSigns, e.1.toList.all isAccChar = true ∧ e.1.toList.isEmpty = false ∧
      lookup (String.ofList e.1.toList) SIGN_TO_ALTER = some e.2 := by decide

def stepFacts2 (s : String) : Bool :=
  match s.toList with
  | [c] => isStepChar c && decide (upper (String.ofList [c]) = s)
  | _ => false

theorem step_facts2 : ∀ s ∈ ["C", "D", "E", "F", "G", "A", "B"], stepFacts2 s = true := by decide

/-- **the documented grammar** `<step><accidentals><octave>`: every step letter, EVERY accidental string the sign table
    knows (`#`, `##`, `x`, `###`, `b`, `bb`, `bbb` — also the spellings `pitch_spelling_to_note_name` never prints),
    EVERY octave ≥ 0: parsed to the step, the table's alteration and the octave, and sounding that pitch -/
theorem name_grammar (s : String) (hs : s ∈ ["C", "D", "E", "F", "G", "A", "B"])
    (e : String × Option Int) (he : e ∈ grammarSigns) (o : Nat) :
    noteNameToSpellingG (s ++ e.1 ++ showNat o) = some (s, e.2, some (o : Int)) ∧
    noteNameToMidiG (s ++ e.1 ++ showNat o) = spellingToMidiG s e.2 (o : Int) := by
  have hsf := step_facts2 s hs
  obtain ⟨hacc, hne', hlook⟩ := grammar_signs_facts e he
  unfold stepFacts2 at hsf
  have main : noteNameToSpelling (s ++ e.1 ++ showNat o) = some (s, e.2, (o : Int)) := by
    split at hsf
    · rename_i c hc
      simp only [Bool.and_eq_true, decide_eq_true_eq] at hsf
      obtain ⟨hstep, hup⟩ := hsf
      have hsl : s.toList = [c] := hc
      have hname : (s ++ e.1 ++ showNat o).toList = c :: (e.1.toList ++ natDigits o) := by
        simp [String.toList_append, hsl, showNat]
      have hdig := Digits.natDigits_all o
      have hne := Digits.natDigits_ne_nil o
      have htw := takeWhile_prefix isAccChar e.1.toList (natDigits o)
        (by simpa [List.all_eq_true] using hacc)
        (by
          intro x hx
          cases hd : natDigits o with
          | nil => exact absurd hd hne
          | cons y ys =>
            rw [hd] at hx
            simp only [List.head?_cons, Option.mem_def, Option.some.injEq] at hx
            subst hx
            have := (hdig y (by rw [hd]; simp)).2
            simp only [Bool.and_eq_true, bne_iff_ne, ne_eq] at this
            simp [isAccChar, this.1.1, this.1.2, this.2])
      have htd : (natDigits o).takeWhile Char.isDigit = natDigits o := by
        have := (takeWhile_prefix Char.isDigit (natDigits o) [] (fun x hx => (hdig x hx).1) (by simp)).1
        simpa using this
      unfold noteNameToSpelling
      rw [hname]
      simp only [searchNoteName, matchNoteNameAt, hstep, if_true, htw.1, htw.2, htd]
      have hemp : (natDigits o).isEmpty = false := by
        cases hd : natDigits o with
        | nil => exact absurd hd hne
        | cons y ys => rfl
      simp only [hemp, hne', Bool.false_eq_true, if_false, hlook, hup, Digits.digitsToNat_natDigits]
    · simp at hsf
  constructor
  · rw [noteNameToSpellingG_eq, main]; rfl
  · rw [noteNameToMidiG_eq, spellingToMidiG_eq]
    unfold noteNameToMidi
    rw [main]

example : grammarSigns.map Prod.fst = ["#", "x", "##", "###", "b", "bb", "bbb"] := by decide

end C12
