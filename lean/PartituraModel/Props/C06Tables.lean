/-
C06 (round 5) — the literal data of the source the model relies on, regenerated from the live source on every run by
harness/translate_c06.py (Gen/C06Tables.lean): keyword defaults of the saver and the loaders, the keyword
`midi_to_notearray` forces, `note_hash` on its whole domain.  Editing any of them in the source re-elaborates these
theorems.
-/
import PartituraModel.Gen.C06Tables
import PartituraModel.Model.PerfObject
import PartituraModel.Props.C06

namespace C06
open Model Model.PerfMidi C06Export

/-- the translator could read everything it looks for -/
theorem tables_extracted : Gen.C06_EXTRACTION_OK = true ∧ Gen.C06_EXTRACTION_NOTES = [] := by decide

/-- **`note_hash`**: the live function is `channel * a + pitch * b` on all 16 × 128 (channel, pitch) pairs and
    injective there (checked by the translator on the whole domain), and the model's `noteHash` is that function -/
theorem note_hash_generated :
    Gen.C06_HASH_LINEAR = true ∧ Gen.C06_HASH_INJECTIVE = true ∧
    ∀ ch p, noteHash ch p = ch * Gen.C06_HASH_CH + p * Gen.C06_HASH_PITCH := by
  refine ⟨by decide, by decide, ?_⟩
  intro ch p
  simp [noteHash, Gen.C06_HASH_CH, Gen.C06_HASH_PITCH]

/-- equal hash = equal channel and pitch, for every MIDI pitch (and ANY channel number): the theorems of C06 that
    speak about notes "of one hash" speak about notes of one channel and pitch -/
theorem note_hash_injective (ch p ch' p' : Nat) (hp : p < 128) (hp' : p' < 128)
    (h : noteHash ch p = noteHash ch' p') : ch = ch' ∧ p = p' := by
  unfold noteHash at h
  omega

/-- `midi_to_notearray` is the MERGED load (the keyword it forces, read from its source) -/
theorem notearray_is_merged_load (f : MidiObj) :
    Gen.C06_NTA_MERGE = true ∧
    noteArrayOf f = (match loadFile true f.tracks with
      | [] => none
      | ts => some (ts.flatMap fun t => t.notes.map fun n => (n.on, n.pitch, n.vel, n.ch))) := ⟨rfl, rfl⟩

/-- the keyword defaults are usable values: every theorem that asks for `0 < mpq`, `0 < ppq` applies to a call that
    leaves the options out -/
theorem defaults_valid : 0 < Gen.C06_SAVE_MPQ ∧ 0 < Gen.C06_SAVE_PPQ ∧ 0 < Gen.C06_LOAD_MPQ ∧ 0 < Gen.C06_LP_MPQ ∧
    Gen.C06_LOAD_MERGE = Gen.C06_LP_MERGE ∧ Gen.C06_LOAD_MPQ = Gen.C06_LP_MPQ ∧ Gen.C06_LP_FNZ = false := by decide

/-- **Every option left out** — `save_performance_midi(perf, out)` then `load_performance_midi(out)`: the loader's
    tempo list is its default followed by the exporter's default tempo at tick 0, and every time t ≥ 0 comes back on
    the tick grid, at most half a tick away.  No side condition other than the performance using some track. -/
theorem default_call_roundtrip (parts : List PPart)
    (hne : usedTracks (quant Gen.C06_SAVE_MPQ Gen.C06_SAVE_PPQ) parts ≠ []) (t : Rat) (ht : 0 ≤ t) :
    let o := SaveOpts.defaults false
    let file := (savedAbs (quant o.mpq o.ppq) o.mpq o.merge parts).map toDelta
    tempoList Gen.C06_LOAD_MPQ (loaderTracks Gen.C06_LOAD_MERGE file) = [(0, Gen.C06_LOAD_MPQ), (0, o.mpq)] ∧
    secondsAt Gen.C06_LOAD_MPQ (loaderTracks Gen.C06_LOAD_MERGE file) o.ppq (secToTick t o.mpq o.ppq)
      = tickToSec (secToTick t o.mpq o.ppq) o.mpq o.ppq ∧
    |tickToSec (secToTick t o.mpq o.ppq) o.mpq o.ppq - t| ≤ (o.mpq : Rat) / (2 * 1000000 * o.ppq) :=
  export_import_t Gen.C06_SAVE_MPQ Gen.C06_SAVE_PPQ Gen.C06_LOAD_MPQ defaults_valid.1 defaults_valid.2.1
    Gen.C06_SAVE_MERGE Gen.C06_LOAD_MERGE parts hne t ht

/-- the default uses of the histories are ordinary uses -/
theorem default_uses (p : Bool) :
    Use.loadDefault p = .load p Gen.C06_LOAD_MPQ Gen.C06_LOAD_MERGE ∧
    Use.loadPerfDefault p = .loadPerf p Gen.C06_LP_MPQ Gen.C06_LP_MERGE Gen.C06_LP_FNZ := ⟨rfl, rfl⟩

/-- round 6 — the sort keys read from the live source (`ast`) are the keys of the model: the loaded notes are put
    in order, and numbered, by (note_on, midi_pitch, note_off, channel, track) — `secLe` / `KeyLe`, the track
    being the same within a part — AFTER `adjust_time` has assigned the final seconds (fixes/C06-8: `loadFileS`
    sorts by the final seconds); the saver writes the notes by (note_on, note_off) — `noteLe` -/
theorem sort_keys_generated :
    Gen.C06_SORT_KEY = ["note_on", "midi_pitch", "note_off", "channel", "track"] ∧
    Gen.C06_SORT_AFTER_ADJUST = true ∧ Gen.C06_WRITE_KEY = ["note_on", "note_off"] := by decide

end C06
