/-
C11 (round 6) — the measure theorems and the composed pipeline under ONE executable condition on the part.

`readingOKB p` (Model/MeasuresDec.lean) is computed from the part alone — signatures in time order inside a non-empty
timeline; existing measures in time order, non-empty, disjoint, inside the timeline, not straddling a signature change;
positive divisions and signature numbers; every stretch of one time signature on one linear piece of C02's beat map with a
whole number of divisions per beat.  The driver prints it for every generated part (stream `rok`), so the evidence counts
the parts on which the theorems below speak about the real `add_measures`.

* `reading_ok_exact`        `readingOKB p = true` iff `TsOK`, `ExistingOK`, `BarsIntegral` hold (a decision procedure)
* `measures_checked`        tiling, old measures kept, numbers 1..n           (`measures_tile_real`, `numbers_consecutive_real`)
* `measure_lengths_checked` bars of the length the signature implies          (`measure_lengths_real`)
* `pipeline_checked`        `add_measures`, `tie_notes`, `find_tuplets`, `sanitize_part`: note array kept, every note within
                            one measure, ties adjacent — validity of the notes being conditions on single notes and links
-/
import PartituraModel.Props.C11Compose
import PartituraModel.Proofs.C11Decide

namespace C11
open Model Model.Dur Model.Meas Model.San Model.Tup Gen C11Meas C11Bar C11Rows C11Sound C11Decide

/-- **reading_ok_exact**: the executable test holds EXACTLY when the side conditions of `measures_tile_real`,
    `numbers_consecutive_real`, `measure_lengths_real` do — it is a decision procedure for them, not a stronger condition -/
theorem reading_ok_exact (p : PartM) :
    readingOKB p = true ↔ ∃ l, stretches p = some l ∧ TsOK p ∧ ExistingOK p l ∧ BarsIntegral p l :=
  readingOKB_iff p

/-- **measures_checked**: on every part that passes the executable test, after `add_measures` the measures are pairwise
    disjoint in time order, lie inside the timeline, cover it, contain the old measures with their extents, and are
    numbered 1, 2, …, n in time order -/
theorem measures_checked (p : PartM) (fuel : Nat) (ms' : List Measure) (hok : readingOKB p = true)
    (h : addMeasures p fuel = .ok ms') :
    ms'.Pairwise (fun m m' => m.stop ≤ m'.start) ∧
    (∀ m ∈ ms', p.first ≤ m.start ∧ m.stop ≤ p.last) ∧
    (∀ t, p.first ≤ t → t < p.last → ∃ m ∈ ms', m.start ≤ t ∧ t < m.stop) ∧
    (p.measures.map C11Meas.ext).Sublist (ms'.map C11Meas.ext) ∧
    ∀ (i : Nat) (hi : i < ms'.length), (ms'[i]).number = some (1 + (i : Int)) := by
  obtain ⟨l, hl, h1, h2, h3⟩ := readingOKB_sound p hok
  obtain ⟨a, b, c, d⟩ := measures_tile_real p fuel l ms' h1 hl h2 h3 h
  exact ⟨a, b, c, d, numbers_consecutive_real p fuel l ms' h1 hl h2 h3 h⟩

/-- **measure_lengths_checked**: … and every measure is an old one or a bar of `beats * L` divisions inside a stretch of
    one time signature with `L` divisions per beat, shorter only where the stretch ends or an existing measure starts -/
theorem measure_lengths_checked (p : PartM) (fuel : Nat) (ms' : List Measure) (hok : readingOKB p = true)
    (h : addMeasures p fuel = .ok ms') :
    ∃ l, stretches p = some l ∧
    ∀ m ∈ ms', (∃ x ∈ p.measures, x.start = m.start ∧ x.stop = m.stop) ∨
      ∃ x ∈ l, ∃ L : Nat, StretchBeat p x L ∧ x.1 ≤ m.start ∧ m.start < x.2.1 ∧ m.stop ≤ x.2.1 ∧
        m.stop ≤ m.start + x.2.2 * L ∧
        (m.stop = m.start + x.2.2 * L ∨ m.stop = x.2.1 ∨ ∃ y ∈ p.measures, y.start = m.stop) := by
  obtain ⟨l, hl, h1, h2, h3⟩ := readingOKB_sound p hok
  exact ⟨l, hl, measure_lengths_real p fuel l ms' h1 hl h2 h3 h⟩

/-- **pipeline_checked**: the composed normalisation on every part that passes the executable test and every note list
    with distinct keys whose ties have back links and join a note of positive length to one that starts where it ends -/
theorem pipeline_checked (p : PartM) (fuel : Nat) (ms' : List Measure) (hok : readingOKB p = true)
    (h : addMeasures p fuel = .ok ms') (ns : List Note) (tol : Nat) (hkeys : KeysOK ns) (hlinks : LinksOK ns)
    (hc : C11Walk.ContigAll ns) (hpos : ∀ n ∈ ns, n.tieNext.isSome = true → n.start < n.stop) :
    soundingMidi (sanitizeTies (findTuplets p.qd (tieNotes { p with measures := ms' } ns)).notes tol) = soundingMidi ns ∧
    (∀ n ∈ sanitizeTies (findTuplets p.qd (tieNotes { p with measures := ms' } ns)).notes tol,
      p.first ≤ n.start → n.start < n.stop → n.stop ≤ p.last → ∃ m ∈ ms', m.start ≤ n.start ∧ n.stop ≤ m.stop) ∧
    C11Walk.ContigAll (sanitizeTies (findTuplets p.qd (tieNotes { p with measures := ms' } ns)).notes tol) := by
  obtain ⟨l, hl, h1, h2, h3⟩ := readingOKB_sound p hok
  exact pipeline_normalises_local p fuel l ms' h1 hl h2 h3 h ns tol hkeys hlinks hc hpos

-- non-vacuity: the part of Props/C11Bar.lean (6/8 at 2 per quarter, then 3/4 at 4 per quarter) passes the test, also
-- with an existing measure; a quarter-duration change inside a stretch, a beat of 1.5 divisions and overlapping
-- measures do not
example : readingOKB exReal = true := by decide +kernel
example : readingOKB { exReal with measures := [⟨12, 20, some 7⟩] } = true := by decide +kernel
example : readingOKB { exReal with qd := [(0, 2), (5, 4)] } = false := by decide +kernel
example : readingOKB { exReal with qd := [(0, 3), (12, 4)] } = false := by decide +kernel
example : readingOKB { exReal with measures := [⟨0, 8, none⟩, ⟨6, 12, none⟩] } = false := by decide +kernel

end C11
