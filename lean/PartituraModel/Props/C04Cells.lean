/-
C04 — "the same mode on import recovers the same grouping of notes into parts and voices", for the whole
pipeline: every sounding note of the score comes back from `loadScoreMidi (saveScoreMidi score)` in the
(part, voice) cell that `assign_group_part_voice` gives to the (track, channel) of its note key, and two notes
share a cell exactly when `Retained mode` relates their keys (`mode_recovery`).
Helper lemmas: Proofs/C04Cells.lean.
-/
import PartituraModel.Props.C04Export
import PartituraModel.Proofs.C04Cells

namespace C04
open Model Model.Ticks Model.MidiPair Model.MidiModes Model.ScoreMidi

/-- **Round trip with the grouping, any import mode.**  Under the hypotheses of `roundtrip_ticks` (any anacrusis
    policy), export with mode `mode` and import with mode `imode` (the same or another one): the notes of the
    imported parts, each with its part number and voice, are exactly the score's sounding notes at their written
    ticks, each with the (part, voice) of the cell that the importer's `assign_group_part_voice` (mode `imode`, over
    the sorted (track, channel) pairs the exporter used) gives to the (track, channel) of the note's key
    (`writtenCells`, `keyTag`) — what an import in another mode recovers of the grouping is exactly what
    `mode_import` says of the (track, channel) pairs `mode_export` wrote. -/
theorem roundtrip_cells_any_import_mode (mode imode : Nat) (a : Anacrusis) (minPpq vel : Nat) (parts : List PartIn)
    (ex : Exported) (imp : Imported)
    (h : saveScoreMidi mode a minPpq vel parts = some ex)
    (hi : loadScoreMidi imode ex.ppq (ex.tracks.map (deltasFrom 0)) = some imp)
    (hvel : 0 < vel) (hw : ∀ x ∈ parts, C04T.WellFormed x.base)
    (hno : ∀ o tcs, origin a (parts.map (·.base)) = some o → mapToTrackChannel mode (noteKeys parts) = some tcs →
      ∀ tr, C04P.NoOverlap (routedTo ex.ppq o vel ((noteKeys parts).zip tcs) parts tr)) :
    ∃ o tcs, origin a (parts.map (·.base)) = some o ∧ mapToTrackChannel mode (noteKeys parts) = some tcs ∧
      (importedCells imp).Perm (writtenCells imode ex.ppq o ((noteKeys parts).zip tcs) parts) := by
  obtain ⟨o, tcs, ho, htc, hppq, hkeys, _, hpair⟩ := export_pairing_sound mode a minPpq vel parts ex h hvel hw
  refine ⟨o, tcs, ho, htc, ?_⟩
  have hlen : (noteKeys parts).length = tcs.length := by
    cases hmode : decide (mode ≤ 5) with
    | true => exact ((mode_export mode (by simpa using hmode) _ _ htc).1).symm
    | false =>
      have h5 : 5 < mode := by simpa using hmode
      cases hk : noteKeys parts with
      | nil =>
        rw [hk] at htc
        have : tcs = [] := by
          match mode, h5 with
          | n + 6, _ => simpa [mapToTrackChannel] using htc.symm
        simp [this]
      | cons k' ks => rw [hk, mode_export_rejects mode h5] at htc; cases htc
  have hsnd : ((noteKeys parts).zip tcs).map (·.2) = tcs := C04I.zip_map_snd _ _ hlen
  have hic := C04C.import_cells imode ex.ppq _ imp hi
  simp only at hic
  -- each track read back is the notes routed to it
  have hpair' : ∀ tr (htr : tr < ex.tracks.length),
      (pairTrack (deltasFrom 0 ex.tracks[tr])).Perm
        ((exportRecs (C04E.tkOf ex.ppq o) parts).filterMap (C04E.route ((noteKeys parts).zip tcs) vel tr)) := by
    intro tr htr
    have := hpair tr htr (hno o tcs ho htc tr)
    rwa [C04E.routedTo_eq] at this
  -- the (track, channel) pairs with notes are the pairs of the note keys
  have htrch : sortedTC ((notesByTrCh ((readTracks (ex.tracks.map (deltasFrom 0))).filter fun e => !e.2.1.isEmpty)).map (·.1)) =
      sortedTC tcs := by
    apply C04C.sortedTC_congr
    rintro ⟨i, ch⟩
    rw [C04C.mem_byTrCh]
    constructor
    · rintro ⟨tr, htr, n, hn, rfl⟩
      simp only [List.getElem?_map, Option.map_eq_some_iff] at htr
      obtain ⟨tr0, htr0, rfl⟩ := htr
      obtain ⟨hi', htr0'⟩ := List.getElem?_eq_some_iff.mp htr0
      subst htr0'
      have hn' := (hpair' i hi').mem_iff.mp hn
      simp only [List.mem_filterMap, C04E.route] at hn'
      obtain ⟨r, _, hr⟩ := hn'
      split at hr
      · rename_i t c hl
        split at hr
        · rename_i ht
          cases hr
          subst ht
          exact (List.of_mem_zip (C04E.lookup_mem _ _ _ hl)).2
        · cases hr
      · cases hr
    · intro htc'
      -- the key of that pair has a note
      obtain ⟨j, hj, hjx⟩ := List.mem_iff_getElem.mp htc'
      have hjk : j < (noteKeys parts).length := by omega
      have hmem : ((noteKeys parts)[j], (i, ch)) ∈ (noteKeys parts).zip tcs := by
        rw [List.mem_iff_getElem]
        exact ⟨j, by simp [hlen, hj], by simp [hjx]⟩
      have hnd : (noteKeys parts).Nodup := C04G.firstSeen_nodup _
      have hl := C04C.lookup_zip_nodup (noteKeys parts) tcs hnd _ _ hmem
      have hkm : (noteKeys parts)[j] ∈ noteKeys parts := List.getElem_mem _
      obtain ⟨tc', hl', hlt⟩ := hkeys _ hkm
      rw [hl] at hl'
      cases hl'
      simp only at hlt
      obtain ⟨xi, hxi, n, hn, hkey⟩ := (C04C.mem_noteKeys parts _).mp hkm
      have hr : (⟨(xi.1.group, xi.2, n.2.2.2), C04E.tkOf ex.ppq o xi.1 n.1, C04E.tkOf ex.ppq o xi.1 (n.1 + n.2.1), n.2.2.1⟩ : NoteOut) ∈
          exportRecs (C04E.tkOf ex.ppq o) parts := by
        simp only [exportRecs, List.mem_flatMap, List.mem_map]
        exact ⟨xi, hxi, n, hn, rfl⟩
      refine ⟨deltasFrom 0 ex.tracks[i], by simp [List.getElem?_eq_getElem hlt], ?_⟩
      refine ⟨⟨C04E.tkOf ex.ppq o xi.1 n.1, C04E.tkOf ex.ppq o xi.1 (n.1 + n.2.1), ch, n.2.2.1, vel⟩, ?_, rfl⟩
      apply (hpair' i hlt).mem_iff.mpr
      simp only [List.mem_filterMap]
      refine ⟨_, hr, ?_⟩
      simp only [C04E.route, hkey, hl, ↓reduceIte]
  rw [htrch] at hic
  refine (List.Perm.trans (List.Perm.of_eq ?_) hic).trans ?_
  · rfl
  -- track after track
  rw [C04C.zipIdx_flatMap_range _ _ ([] : List (Int × Msg)) 0]
  simp only [List.length_map, Nat.add_zero]
  have hb : ∀ e ∈ (exportRecs (C04E.tkOf ex.ppq o) parts).filterMap (C04E.routeAny ((noteKeys parts).zip tcs) vel),
      e.1 < ex.tracks.length := by
    intro e he
    simp only [List.mem_filterMap, C04E.routeAny, Option.map_eq_some_iff] at he
    obtain ⟨r, hr, tc, htc', rfl⟩ := he
    obtain ⟨tc', htc'', hlt⟩ := hkeys r.key (C04E.mem_exportRecs_key _ parts r hr)
    rw [htc'] at htc''
    cases htc''
    exact hlt
  have hrt := C04C.routes_tagged (fun tc => tagOf (lookup tc (cellTable imode tcs))) ((noteKeys parts).zip tcs) vel
    ex.tracks.length (exportRecs (C04E.tkOf ex.ppq o) parts) hb
  refine (List.Perm.trans ?_ hrt).trans (List.Perm.of_eq ?_)
  · apply List.Perm.flatMap_left
    intro i hi'
    have hi'' : i < ex.tracks.length := List.mem_range.mp hi'
    simp only [List.getElem?_map, List.getElem?_eq_getElem hi'', Option.map_some, Option.getD_some]
    exact (hpair' i hi'').map _
  · unfold writtenCells exportRecs
    rw [List.filterMap_flatMap]
    apply List.flatMap_congr
    intro xi _
    rw [List.filterMap_map]
    apply List.filterMap_congr
    intro n _
    simp only [Function.comp, keyTag, hsnd, Option.map_map]
    rfl

/-- **Round trip with the grouping** (export and import with the same mode): the instance `imode = mode`. -/
theorem roundtrip_cells (mode : Nat) (a : Anacrusis) (minPpq vel : Nat) (parts : List PartIn) (ex : Exported)
    (imp : Imported)
    (h : saveScoreMidi mode a minPpq vel parts = some ex)
    (hi : loadScoreMidi mode ex.ppq (ex.tracks.map (deltasFrom 0)) = some imp)
    (hvel : 0 < vel) (hw : ∀ x ∈ parts, C04T.WellFormed x.base)
    (hno : ∀ o tcs, origin a (parts.map (·.base)) = some o → mapToTrackChannel mode (noteKeys parts) = some tcs →
      ∀ tr, C04P.NoOverlap (routedTo ex.ppq o vel ((noteKeys parts).zip tcs) parts tr)) :
    ∃ o tcs, origin a (parts.map (·.base)) = some o ∧ mapToTrackChannel mode (noteKeys parts) = some tcs ∧
      (importedCells imp).Perm (writtenCells mode ex.ppq o ((noteKeys parts).zip tcs) parts) :=
  roundtrip_cells_any_import_mode mode mode a minPpq vel parts ex imp h hi hvel hw hno

/-- **The import of an export returns.**  When the score has at least one sounding note (and the export returned, which
    forces one of the six modes), `load_score_midi` with the same mode returns on the written file — so the hypothesis
    `hi` of `score_roundtrip`, `roundtrip_ticks` and `roundtrip_cells` is satisfied by some `imp`. -/
theorem roundtrip_total (mode : Nat) (a : Anacrusis) (minPpq vel : Nat) (parts : List PartIn) (ex : Exported)
    (h : saveScoreMidi mode a minPpq vel parts = some ex)
    (hvel : 0 < vel) (hw : ∀ x ∈ parts, C04T.WellFormed x.base)
    (hnote : ∃ x ∈ parts, x.notes ≠ [])
    (hno : ∀ o tcs, origin a (parts.map (·.base)) = some o → mapToTrackChannel mode (noteKeys parts) = some tcs →
      ∀ tr, C04P.NoOverlap (routedTo ex.ppq o vel ((noteKeys parts).zip tcs) parts tr)) :
    mode ≤ 5 ∧ ∃ imp, loadScoreMidi mode ex.ppq (ex.tracks.map (deltasFrom 0)) = some imp := by
  obtain ⟨o, tcs, ho, htc, hppq, hkeys, _, hpair⟩ := export_pairing_sound mode a minPpq vel parts ex h hvel hw
  obtain ⟨x, hx, hxn⟩ := hnote
  obtain ⟨n, hn⟩ := List.exists_mem_of_ne_nil _ hxn
  obtain ⟨i, hi, hxi⟩ := List.mem_iff_getElem.mp hx
  have hzi : (x, i) ∈ parts.zipIdx := (C04C.mem_zipIdx_iff parts x i).mpr (by rw [List.getElem?_eq_getElem hi, hxi])
  have hk : (x.group, i, n.2.2.2) ∈ noteKeys parts := (C04C.mem_noteKeys parts _).mpr ⟨(x, i), hzi, n, hn, rfl⟩
  have hmode : mode ≤ 5 := by
    by_contra hc
    have h5 : 5 < mode := by omega
    cases hkk : noteKeys parts with
    | nil => rw [hkk] at hk; simp at hk
    | cons k' ks => rw [hkk, mode_export_rejects mode h5] at htc; cases htc
  refine ⟨hmode, ?_⟩
  obtain ⟨tc, hl, hlt⟩ := hkeys _ hk
  apply C04C.import_total mode hmode
  refine ⟨tc.1, deltasFrom 0 ex.tracks[tc.1], by simp [List.getElem?_eq_getElem hlt], ?_⟩
  intro hnil
  have hp := hpair tc.1 hlt (hno o tcs ho htc tc.1)
  rw [hnil, C04E.routedTo_eq] at hp
  have hr : (⟨(x.group, i, n.2.2.2), C04E.tkOf ex.ppq o x n.1, C04E.tkOf ex.ppq o x (n.1 + n.2.1), n.2.2.1⟩ : NoteOut) ∈
      exportRecs (C04E.tkOf ex.ppq o) parts := by
    simp only [exportRecs, List.mem_flatMap, List.mem_map]
    exact ⟨(x, i), hzi, n, hn, rfl⟩
  have : (⟨C04E.tkOf ex.ppq o x n.1, C04E.tkOf ex.ppq o x (n.1 + n.2.1), tc.2, n.2.2.1, vel⟩ : NoteRec) ∈
      (exportRecs (C04E.tkOf ex.ppq o) parts).filterMap (C04E.route ((noteKeys parts).zip tcs) vel tc.1) := by
    simp only [List.mem_filterMap]
    refine ⟨_, hr, ?_⟩
    simp only [C04E.route, hl, ↓reduceIte]
  rw [← hp.mem_iff] at this
  simp at this

/-- **Grouping recovered.**  For each of the six modes: every note key of the score has a (part, voice) in which
    its notes come back (`keyTag`, the tag `roundtrip_cells` attaches to the notes), and the notes of two keys come back
    in the same part and voice exactly when `Retained mode` relates the keys — mode 0 and 5 (part, voice), modes 1 and 3
    the part, modes 2 and 4 always. -/
theorem grouping_recovered (mode : Nat) (hm : mode ≤ 5) (parts : List PartIn) (tcs : List (Nat × Nat))
    (htc : mapToTrackChannel mode (noteKeys parts) = some tcs) :
    ∀ k₁ ∈ noteKeys parts, ∀ k₂ ∈ noteKeys parts,
      ∃ t₁ t₂, keyTag mode ((noteKeys parts).zip tcs) k₁ = some t₁ ∧ keyTag mode ((noteKeys parts).zip tcs) k₂ = some t₂ ∧
        (t₁ = t₂ ↔ Retained mode k₁ k₂) := by
  intro k₁ hk₁ k₂ hk₂
  have hlen : (noteKeys parts).length = tcs.length := ((mode_export mode hm _ _ htc).1).symm
  have hsnd : ((noteKeys parts).zip tcs).map (·.2) = tcs := C04I.zip_map_snd _ _ hlen
  obtain ⟨hex, hrec⟩ := mode_recovery mode hm (noteKeys parts) tcs (C04C.noteKeys_group parts) htc
  obtain ⟨tc₁, hl₁⟩ := C04E.lookup_zip_some k₁ (noteKeys parts) tcs hlen hk₁
  obtain ⟨tc₂, hl₂⟩ := C04E.lookup_zip_some k₂ (noteKeys parts) tcs hlen hk₂
  have hm₁ := C04E.lookup_mem _ _ _ hl₁
  have hm₂ := C04E.lookup_mem _ _ _ hl₂
  obtain ⟨c₁, hc₁⟩ := hex (k₁, tc₁) hm₁
  obtain ⟨c₂, hc₂⟩ := hex (k₂, tc₂) hm₂
  have hz₁ := C04C.lookup_zip_nodup _ _ (C04I.sortedTC_nodup tcs) _ _ hc₁
  have hz₂ := C04C.lookup_zip_nodup _ _ (C04I.sortedTC_nodup tcs) _ _ hc₂
  refine ⟨tagOf (some c₁), tagOf (some c₂), ?_, ?_, ?_⟩
  · simp only [keyTag, hl₁, Option.map_some, hsnd, cellTable]
    simp only at hz₁
    rw [hz₁]
  · simp only [keyTag, hl₂, Option.map_some, hsnd, cellTable]
    simp only at hz₂
    rw [hz₂]
  · rw [← (hrec (k₁, tc₁) hm₁ (k₂, tc₂) hm₂ c₁ hc₁ c₂ hc₂).1]
    have s₁ := C04C.assign_voice_shape mode (sortedTC tcs) c₁ (List.of_mem_zip hc₁).2
    have s₂ := C04C.assign_voice_shape mode (sortedTC tcs) c₂ (List.of_mem_zip hc₂).2
    simp only [tagOf, Prod.mk.injEq]
    constructor
    · rintro ⟨h1, h2⟩
      exact ⟨h1, C04C.voiceInt_inj _ _ s₁ s₂ h2⟩
    · rintro ⟨h1, h2⟩
      exact ⟨h1, by rw [h2]⟩

/-- what exporting with mode `mode` and importing with mode `imode` retains of the grouping of the notes: import
    modes 0, 1, 5 give every (track, channel) its own part / voice, so what the export mode put on one (track,
    channel) stays together; import modes 2 and 3 read a track as one voice / part, so what the export mode put in one
    track stays together; import mode 4 merges everything -/
def RetainedCross (mode imode : Nat) (a b : Key) : Prop :=
  match imode with
  | 2 => C04M.SameTrack mode a b
  | 3 => C04M.SameTrack mode a b
  | 4 => True
  | _ => C04M.SameTC mode a b

/-- **Grouping recovered, any import mode.**  Export with mode `mode`, import with mode `imode` (both 0..5): every note
    key has a (part, voice) in which its notes come back (the tag `roundtrip_cells_any_import_mode` attaches), and the
    notes of two keys come back in the same part and voice exactly when `RetainedCross mode imode` relates the keys. -/
theorem grouping_recovered_any_import_mode (mode imode : Nat) (hm : mode ≤ 5) (him : imode ≤ 5) (parts : List PartIn)
    (tcs : List (Nat × Nat)) (htc : mapToTrackChannel mode (noteKeys parts) = some tcs) :
    ∀ k₁ ∈ noteKeys parts, ∀ k₂ ∈ noteKeys parts,
      ∃ t₁ t₂, keyTag imode ((noteKeys parts).zip tcs) k₁ = some t₁ ∧ keyTag imode ((noteKeys parts).zip tcs) k₂ = some t₂ ∧
        (t₁ = t₂ ↔ RetainedCross mode imode k₁ k₂) := by
  intro k₁ hk₁ k₂ hk₂
  have hlen : (noteKeys parts).length = tcs.length := ((mode_export mode hm _ _ htc).1).symm
  have hsnd : ((noteKeys parts).zip tcs).map (·.2) = tcs := C04I.zip_map_snd _ _ hlen
  obtain ⟨tc₁, hl₁⟩ := C04E.lookup_zip_some k₁ (noteKeys parts) tcs hlen hk₁
  obtain ⟨tc₂, hl₂⟩ := C04E.lookup_zip_some k₂ (noteKeys parts) tcs hlen hk₂
  have hm₁ := C04E.lookup_mem _ _ _ hl₁
  have hm₂ := C04E.lookup_mem _ _ _ hl₂
  obtain ⟨c₁, hc₁⟩ := C04M.assign_total imode (sortedTC tcs) tc₁ ((C04M.mem_sortedTC _ _).mpr (List.of_mem_zip hm₁).2)
  obtain ⟨c₂, hc₂⟩ := C04M.assign_total imode (sortedTC tcs) tc₂ ((C04M.mem_sortedTC _ _).mpr (List.of_mem_zip hm₂).2)
  have hz₁ := C04C.lookup_zip_nodup _ _ (C04I.sortedTC_nodup tcs) _ _ hc₁
  have hz₂ := C04C.lookup_zip_nodup _ _ (C04I.sortedTC_nodup tcs) _ _ hc₂
  refine ⟨tagOf (some c₁), tagOf (some c₂), ?_, ?_, ?_⟩
  · simp only [keyTag, hl₁, Option.map_some, hsnd, cellTable]
    rw [hz₁]
  · simp only [keyTag, hl₂, Option.map_some, hsnd, cellTable]
    rw [hz₂]
  · obtain ⟨e1, e2⟩ := C04M.export_modes mode hm (noteKeys parts) tcs htc (k₁, tc₁) hm₁ (k₂, tc₂) hm₂
    obtain ⟨i1, _⟩ := C04M.import_modes imode him (sortedTC tcs) (tc₁, c₁) hc₁ (tc₂, c₂) hc₂
    simp only at e1 e2 i1
    have s₁ := C04C.assign_voice_shape imode (sortedTC tcs) c₁ (List.of_mem_zip hc₁).2
    have s₂ := C04C.assign_voice_shape imode (sortedTC tcs) c₂ (List.of_mem_zip hc₂).2
    have htag : tagOf (some c₁) = tagOf (some c₂) ↔ (c₁.2.1 = c₂.2.1 ∧ c₁.2.2 = c₂.2.2) := by
      simp only [tagOf, Prod.mk.injEq]
      constructor
      · rintro ⟨h1, h2⟩
        exact ⟨h1, C04C.voiceInt_inj _ _ s₁ s₂ h2⟩
      · rintro ⟨h1, h2⟩
        exact ⟨h1, by rw [h2]⟩
    rw [htag, i1]
    match imode, him with
    | 0, _ => simpa [C04M.SameCellIn, RetainedCross] using e2
    | 1, _ => simpa [C04M.SameCellIn, RetainedCross] using e2
    | 2, _ => simpa [C04M.SameCellIn, RetainedCross] using e1
    | 3, _ => simpa [C04M.SameCellIn, RetainedCross] using e1
    | 4, _ => simp [C04M.SameCellIn, RetainedCross]
    | 5, _ => simpa [C04M.SameCellIn, RetainedCross] using e2

/-- non-vacuity: `demoScore` exported with mode 0 (a track per part, a channel per voice) and imported with mode 3
    (a part per track): the three note keys come back in parts 0, 0 and 1 — the parts are recovered, the voices
    are not -/
example : mapToTrackChannel 0 (noteKeys demoScore) = some [(0, 1), (0, 2), (1, 1)] ∧
    (noteKeys demoScore).map (keyTag 3 ((noteKeys demoScore).zip [(0, 1), (0, 2), (1, 1)])) =
      [some (some 0, 0), some (some 0, 0), some (some 1, 0)] := by
  refine ⟨by decide +kernel, by decide +kernel⟩

/-- non-vacuity on `demoScore`, mode 1 (both parts in one group: one track, a channel per part, voices lost):
    the three note keys come back in parts 0, 0 and 1 -/
example : mapToTrackChannel 1 (noteKeys demoScore) = some [(0, 1), (0, 1), (0, 2)] ∧
    (noteKeys demoScore).map (keyTag 1 ((noteKeys demoScore).zip [(0, 1), (0, 1), (0, 2)])) =
      [some (some 0, 0), some (some 0, 0), some (some 1, 0)] := by
  refine ⟨by decide +kernel, by decide +kernel⟩

/-- non-vacuity of `roundtrip_cells` on `demoScore`: the imported notes with part and voice -/
example : ((saveScoreMidi 1 .shift 0 64 demoScore).bind fun ex =>
      (loadScoreMidi 1 ex.ppq (ex.tracks.map (deltasFrom 0))).map importedCells) =
    some [((0, 60, 6), (some 0, 0)), ((6, 60, 0), (some 0, 0)), ((6, 60, 8), (some 0, 0)), ((6, 64, 24), (some 0, 0)),
          ((0, 48, 6), (some 1, 0)), ((6, 48, 24), (some 1, 0))] := by
  decide +kernel

end C04
