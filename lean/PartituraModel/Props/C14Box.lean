/-
C14 (round 5) — the `Performance` container: "track numbers of a performance's parts are made unique without
mixing parts", for the whole state the container touches and under every history of statements on it.

* `Performance(performedparts, ensure_unique_tracks=e)`: which arguments are accepted and which parts the
  performance then holds (`perf_parts_dispatch`, `perf_init_spec`);
* `sanitize_track_numbers()` on the state: never fails, no track number is shared by two parts afterwards
  (`TracksUnique`), `num_tracks` is unchanged, a key / time signature or other meta event follows the notes,
  controls and programs of its part that were on its track and is left alone otherwise (`sanitize_box_spec`);
* renumbering is idempotent — on the tracks AND on the meta events (`sanitize_box_idempotent`): build ∘ build = build;
* over every history of `perf[i] = pp`, `performedparts.append(pp)` and renumberings: after each renumbering the
  tracks are unique again (`box_history_unique`).
-/
import PartituraModel.Proofs.C14Box
import PartituraModel.Props.C14Arrays

namespace C14
open Model Model.Pedal C14P

/-- no track number is shared by two parts -/
def TracksUnique (parts : List PartTracks) : Prop :=
  ∀ k₁ ∈ trackKeys parts, ∀ k₂ ∈ trackKeys parts, k₁.2 = k₂.2 → k₁.1 = k₂.1

/-! ### the argument of `Performance(...)` -/

/-- one `PerformedPart` becomes a performance of that part; an iterable is accepted exactly when every item is a
    `PerformedPart`, and the performance then holds exactly those parts in their order (fixes/C14-6: also when the
    iterable can be walked only once); anything else is rejected -/
theorem perf_parts_dispatch (p : BoxPart) (l : List (Option BoxPart)) (ps : List BoxPart) :
    perfParts (.single p) = some [p]
    ∧ (perfParts (.items l) = some ps ↔ l = ps.map some)
    ∧ perfParts .other = none := by
  refine ⟨rfl, ?_, rfl⟩
  unfold perfParts
  rw [mapM'_some_iff]
  constructor
  · intro h
    induction h with
    | nil => rfl
    | cons hab _ ih =>
      simp only [id] at hab
      rw [hab, ih]; rfl
  · intro h
    subst h
    induction ps with
    | nil => exact List.Forall₂.nil
    | cons a rest ih => exact List.Forall₂.cons rfl ih

example : perfParts (.items [some ⟨⟨[0], [], []⟩, []⟩, none]) = none := by decide +kernel

/-! ### `sanitize_track_numbers()` on the whole state -/

/-- the renumbering in explicit form: every part gets the positions of its (part, track) pairs in the sorted
    enumeration; it never fails -/
theorem sanitize_box_explicit (parts : List BoxPart) :
    sanitizeBox parts = some (parts.zipIdx.map (fun x =>
      { tracks := applyTracks (renumTriple (rankIn (sortedKeys (parts.map (·.tracks)))) (x.1.tracks, x.2)),
        metas := sanitizeMetas (sortedKeys (parts.map (·.tracks))) x.2 x.1.metas })) := by
  unfold sanitizeBox
  simp only []
  rw [show sortKeys (dedup (trackKeys (parts.map (·.tracks)))) = sortedKeys (parts.map (·.tracks)) from rfl,
    sanitizeWith_explicit _ _ (fun k hk => (mem_sortedKeys _ k).mpr hk), Option.map_some, List.zipIdx_map, List.map_map,
    zip_map_self, List.map_map]
  rfl

/-- the tracks of the new state are the renumbered tracks of the old one -/
theorem sanitize_box_tracks (parts qs : List BoxPart) (h : sanitizeBox parts = some qs) :
    qs.map (·.tracks) = renumbered (parts.map (·.tracks)) ∧ qs.length = parts.length := by
  rw [sanitize_box_explicit] at h
  have := Option.some.inj h
  subst this
  refine ⟨?_, by simp⟩
  unfold renumbered
  rw [List.zipIdx_map, List.map_map, List.map_map]
  rfl

/-- after the renumbering no track number is shared by two parts, and a part's tracks stay apart: the new number
    determines the old (part, track) pair -/
theorem renumbered_unique (pts : List PartTracks) :
    TracksUnique (renumbered pts)
    ∧ ∀ a ∈ trackKeys pts, ∀ b ∈ trackKeys pts, (newKey pts a).2 = (newKey pts b).2 → a = b := by
  have hinj : ∀ a ∈ trackKeys pts, ∀ b ∈ trackKeys pts, (newKey pts a).2 = (newKey pts b).2 → a = b := by
    intro a ha b hb h
    exact rank_inj pts a b ha hb (by simp only [newKey] at h; exact_mod_cast h)
  refine ⟨?_, hinj⟩
  intro k₁ h₁ k₂ h₂ h
  rw [trackKeys_renumbered] at h₁ h₂
  obtain ⟨a, ha, rfl⟩ := List.mem_map.mp h₁
  obtain ⟨b, hb, rfl⟩ := List.mem_map.mp h₂
  rw [hinj a ha b hb h]

/-- `num_tracks` is the same before and after -/
theorem renumbered_num_tracks (pts : List PartTracks) : numTracks (renumbered pts) = numTracks pts := by
  unfold numTracks
  rw [trackKeys_renumbered, dedup_map_inj _ _ (fun a ha b hb => newKey_inj pts a b ha hb), List.length_map]

/-- a meta event (key signature, time signature, other) of part `i`: when one of the part's notes, controls or
    programs was on its track it is renumbered with them, otherwise it keeps its track (or stays without one) -/
theorem metas_follow (pts : List PartTracks) (i : Nat) (ms : List (Option Int)) :
    sanitizeMetas (sortedKeys pts) i ms = ms.map (fun t =>
      if (i, trackOr t) ∈ trackKeys pts then some ((newKey pts (i, trackOr t)).2) else t) := by
  unfold sanitizeMetas
  apply List.map_congr_left
  intro t _
  by_cases hk : (i, trackOr t) ∈ trackKeys pts
  · obtain ⟨j, hj, _⟩ := indexOf_some_of_mem _ _ ((mem_sortedKeys pts _).mpr hk)
    rw [if_pos hk]
    simp only [trackMap, hj, newKey, rankIn, Option.getD_some]
  · rw [if_neg hk]
    have : trackMap (sortedKeys pts) (i, trackOr t) = none :=
      indexOf_none_of_not_mem _ _ (fun h => hk ((mem_sortedKeys pts _).mp h))
    simp only [this]

/-- `sanitize_track_numbers()`: never fails; afterwards no track number is shared by two parts, the number of
    tracks and of parts is what it was, and every meta event has followed its track -/
theorem sanitize_box_spec (parts : List BoxPart) :
    ∃ qs, sanitizeBox parts = some qs ∧ qs.length = parts.length
      ∧ TracksUnique (qs.map (·.tracks)) ∧ boxNumTracks qs = boxNumTracks parts
      ∧ ∀ (i : Nat) (p q : BoxPart), parts[i]? = some p → qs[i]? = some q →
          q.metas = p.metas.map (fun t => if (i, trackOr t) ∈ trackKeys (parts.map (·.tracks))
                                          then some ((newKey (parts.map (·.tracks)) (i, trackOr t)).2) else t) := by
  refine ⟨_, sanitize_box_explicit parts, by simp, ?_, ?_, ?_⟩
  · rw [(sanitize_box_tracks parts _ (sanitize_box_explicit parts)).1]
    exact (renumbered_unique _).1
  · unfold boxNumTracks
    rw [(sanitize_box_tracks parts _ (sanitize_box_explicit parts)).1]
    exact renumbered_num_tracks _
  · intro i p q hp hq
    rw [List.getElem?_map] at hq
    have hz : parts.zipIdx[i]? = some (p, i) := by
      rw [List.getElem?_zipIdx, hp]; simp
    rw [hz] at hq
    simp only [Option.map_some, Option.some.injEq] at hq
    rw [← hq]
    exact metas_follow _ i p.metas

/-! ### renumbering twice -/

theorem renumTriple_renumbered (pts : List PartTracks) (p : PartTracks × Nat) (hp : p ∈ pts.zipIdx) :
    renumTriple (rankIn (sortedKeys (renumbered pts))) (applyTracks (renumTriple (rankIn (sortedKeys pts)) p), p.2)
      = renumTriple (rankIn (sortedKeys pts)) p := by
  obtain ⟨k1, k2, k3⟩ := part_keys pts p hp
  have key : ∀ k ∈ trackKeys pts, rankIn (sortedKeys (renumbered pts)) (k.1, (rankIn (sortedKeys pts) k : Int))
      = rankIn (sortedKeys pts) k := by
    intro k hk
    have := rank_newKey pts k hk
    unfold rankIn
    rw [show (k.1, ((trackMap (sortedKeys pts) k).getD 0 : Int)) = newKey pts k from rfl, this]
  unfold renumTriple applyTracks
  simp only [List.map_map, Function.comp_def, trackOr_some]
  refine Prod.ext ?_ (Prod.ext ?_ ?_)
  · exact List.map_congr_left (fun t ht => key (p.2, t) (k1 t ht))
  · exact List.map_congr_left (fun t ht => key (p.2, trackOr t) (k2 t ht))
  · exact List.map_congr_left (fun t ht => key (p.2, trackOr t) (k3 t ht))

/-- renumbering already renumbered tracks changes nothing -/
theorem sanitize_sorted_idempotent (pts : List PartTracks) :
    sanitizeSorted (renumbered pts) = sanitizeSorted pts := by
  rw [sanitizeSorted_explicit, sanitizeSorted_explicit]
  unfold renumbered
  rw [zipIdx_map_zipIdx, List.map_map]
  congr 1
  apply List.map_congr_left
  intro p hp
  exact renumTriple_renumbered pts p hp

/-- … and the meta events stay where the first renumbering put them -/
theorem sanitize_metas_idempotent (pts : List PartTracks) (i : Nat) (ms : List (Option Int)) :
    sanitizeMetas (sortedKeys (renumbered pts)) i (sanitizeMetas (sortedKeys pts) i ms)
      = sanitizeMetas (sortedKeys pts) i ms := by
  unfold sanitizeMetas
  rw [List.map_map]
  apply List.map_congr_left
  intro m _
  simp only [Function.comp]
  -- a pair found in the new enumeration is the image of an old pair, at the same position
  have hfound : ∀ (x : Int) (j : Nat), trackMap (sortedKeys (renumbered pts)) (i, x) = some j → (j : Int) = x := by
    intro x j hj
    have hmem := indexOf_mem_of_some _ _ _ hj
    rw [sortedKeys_renumbered] at hmem
    obtain ⟨k, hk, hkx⟩ := List.mem_map.mp hmem
    have hk' := (mem_sortedKeys pts k).mp hk
    have h1 := rank_newKey pts k hk'
    rw [hkx, hj] at h1
    have h2 := (Prod.mk.inj hkx).2
    rw [← h2]
    simp only [rankIn, ← h1, Option.getD_some]
  cases h1 : trackMap (sortedKeys pts) (i, trackOr m) with
  | some k =>
    simp only [trackOr_some]
    have hk := (mem_sortedKeys pts _).mp (indexOf_mem_of_some _ _ _ h1)
    have := rank_newKey pts (i, trackOr m) hk
    rw [show newKey pts (i, trackOr m) = (i, (k : Int)) by simp [newKey, rankIn, h1], h1] at this
    simp only [this]
  | none =>
    simp only []
    cases h2 : trackMap (sortedKeys (renumbered pts)) (i, trackOr m) with
    | none => rfl
    | some j =>
      simp only []
      have hj := hfound (trackOr m) j h2
      cases m with
      | some y => rw [trackOr_some] at hj; rw [hj]
      | none =>
        exfalso
        have hneg : trackOr none < 0 := by decide
        omega

/-- `sanitize_track_numbers()` twice is `sanitize_track_numbers()` once — tracks and meta events -/
theorem sanitize_box_idempotent (parts qs : List BoxPart) (h : sanitizeBox parts = some qs) :
    sanitizeBox qs = some qs := by
  have htr := (sanitize_box_tracks parts qs h).1
  rw [sanitize_box_explicit] at h
  have hqs := Option.some.inj h
  rw [sanitize_box_explicit qs, htr]
  congr 1
  conv_rhs => rw [← hqs]
  rw [← hqs, zipIdx_map_zipIdx, List.map_map]
  apply List.map_congr_left
  intro x hx
  have hx' : (x.1.tracks, x.2) ∈ (parts.map (·.tracks)).zipIdx := by
    rw [List.mem_zipIdx_iff_getElem?] at hx ⊢
    simp only [List.getElem?_map, hx, Option.map_some]
  simp only [Function.comp]
  rw [renumTriple_renumbered _ _ hx', sanitize_metas_idempotent]

example : sanitizeBox [⟨⟨[3, 7], [none], []⟩, [some 1, some 7, none, some 9]⟩, ⟨⟨[3], [], [some 0]⟩, [some 3, none]⟩]
    = some [⟨⟨[1, 2], [some 0], []⟩, [some 1, some 2, some 0, some 9]⟩, ⟨⟨[4], [], [some 3]⟩, [some 4, none]⟩] := by
  decide +kernel

/-! ### `Performance(...)` and histories of statements on it -/

/-- the performance holds as many parts as were handed over; with `ensure_unique_tracks` (the default, regenerated
    from the source) no track number is shared by two of them, without it the parts are as given -/
theorem perf_init_spec (a : PerfArg) (e : Bool) :
    (perfParts a = none → perfInit a e = none)
    ∧ ∀ ps, perfParts a = some ps →
        ∃ qs, perfInit a e = some qs ∧ qs.length = ps.length
          ∧ (e = true → sanitizeBox ps = some qs ∧ TracksUnique (qs.map (·.tracks)))
          ∧ (e = false → qs = ps) := by
  constructor
  · intro h; simp [perfInit, h]
  · intro ps h
    obtain ⟨qs, hq, hl, hu, _, _⟩ := sanitize_box_spec ps
    cases e with
    | true => exact ⟨qs, by simp [perfInit, h, hq], hl, fun _ => ⟨hq, hu⟩, fun he => Bool.noConfusion he⟩
    | false => exact ⟨ps, by simp [perfInit, h], rfl, fun he => Bool.noConfusion he, fun _ => rfl⟩

/-- over every history of statements on a performance: whenever statement `k` is a renumbering it succeeds, and the
    state it leaves has unique tracks, as many parts and tracks as before it, and is a fixed point of renumbering -/
theorem box_history_unique (ps : List BoxPart) (ops : List BoxOp) (k : Nat) (h : ops[k]? = some .sanitize) :
    ∃ qs, (boxRun ps ops)[k]? = some (qs, .ok) ∧ TracksUnique (qs.map (·.tracks)) ∧ sanitizeBox qs = some qs := by
  induction ops generalizing ps k with
  | nil => simp at h
  | cons o rest ih =>
    cases k with
    | zero =>
      simp only [List.getElem?_cons_zero, Option.some.injEq] at h
      subst h
      obtain ⟨qs, hq, _, hu, _, _⟩ := sanitize_box_spec ps
      exact ⟨qs, by simp [boxRun, boxStep, hq], hu, sanitize_box_idempotent ps qs hq⟩
    | succ k' =>
      simp only [List.getElem?_cons_succ] at h
      obtain ⟨qs, hq, hu, hi⟩ := ih (boxStep ps o).1 k' h
      exact ⟨qs, by simp only [boxRun, List.getElem?_cons_succ]; exact hq, hu, hi⟩

/-- what the other statements do: `perf[i] = pp` replaces part `i` (IndexError past the end), `append` adds one —
    neither renumbers anything, so uniqueness may be lost until the next renumbering -/
theorem box_set_append (ps : List BoxPart) (i : Nat) (p : BoxPart) :
    (i < ps.length → boxStep ps (.setPart i p) = (setAt ps i p, .ok))
    ∧ (¬ i < ps.length → boxStep ps (.setPart i p) = (ps, .idxErr))
    ∧ boxStep ps (.appendPart p) = (ps ++ [p], .ok) := by
  refine ⟨fun h => by simp [boxStep, h], fun h => by simp [boxStep, h], rfl⟩

-- two parts on track 0: unique after construction; replacing the second by another part on track 0 loses it
-- (2 tracks, both parts on 0); the next renumbering restores it
example : (perfInit (.items [some ⟨⟨[0], [], []⟩, []⟩, some ⟨⟨[0], [], []⟩, []⟩]) true).map (fun ps =>
      (ps.map (·.tracks.notes), (boxRun ps [.setPart 1 ⟨⟨[0, 0], [], []⟩, []⟩, .sanitize]).map
        (fun x => (x.2, x.1.map (·.tracks.notes)))))
    = some ([[0], [1]], [(.ok, [[0], [0, 0]]), (.ok, [[0], [1, 1]])]) := by decide +kernel

end C14
