/-
C02 (round 6) — compositions that read like the statement.

* `quarter_durations(start, end)` ∘ (any history of `set_quarter_duration` calls, edits, queries): the rows are
  exactly the times of the RECORDED calls inside the bounds, each with the quarter duration in force there according
  to the call history (`built_quarter_durations`);
* the same for parts reached through the extended API (`api_quarter_durations`);
* continuity across a change point for the map as written, no tolerance hypothesis (`continuous_as_written`).
-/
import PartituraModel.Props.C02Api

namespace C02
open Model.TimeMap C02Proofs

/-- **`quarter_durations(start, end)` of every reachable part, in terms of the calls that were made**: a row
`(t, q)` is returned iff a call at time `t` was recorded (a call is not recorded only when its time had no entry
and its value was already in force), `q` is the value of the last recorded call among those with the greatest
time ≤ `t`, and `start ≤ t < end` (an omitted bound does not restrict). -/
theorem built_quarter_durations (q0 : Nat) (hq : 0 < q0) (hs : List HOp) (hv : ∀ op ∈ hs, ValidOp op)
    (a b : Option Rat) (e : Int × Nat) :
    e ∈ qdRange (buildPart q0 hs).qd a b ↔
      (e.1 ∈ (recorded q0 (qdCalls hs)).map (·.1) ∧ inForce (recorded q0 (qdCalls hs)) (e.1 : Rat) = some e.2) ∧
      (∀ s, a = some s → s ≤ (e.1 : Rat)) ∧ (∀ s, b = some s → (e.1 : Rat) < s) := by
  have hi := inv_reachable q0 hq hs hv
  have hsorted : ((buildPart q0 hs).qd.map (·.1)).Pairwise (· < ·) := hi.qd_sorted
  have hcalls : ∀ c ∈ qdCalls hs, 0 ≤ c.1 := fun c hc => (hv _ (qdCalls_mem hs c hc)).1
  have htimes : ∀ t : Int, t ∈ (buildPart q0 hs).qd.map (·.1) ↔ t ∈ (recorded q0 (qdCalls hs)).map (·.1) := by
    intro t
    rw [hrun_qd]
    exact table_times_recorded q0 _ hcalls t
  rw [qdRange_mem]
  constructor
  · rintro ⟨hmem, h1, h2⟩
    refine ⟨⟨(htimes e.1).mp (List.mem_map_of_mem hmem), ?_⟩, h1, h2⟩
    have hnn : (0 : Rat) ≤ (e.1 : Rat) := by exact_mod_cast hi.qd_nonneg e hmem
    rw [← built_qd_represents q0 hs hv _ hnn]
    exact qdMap_at_change _ hsorted e hmem
  · rintro ⟨⟨ht, hval⟩, h1, h2⟩
    refine ⟨?_, h1, h2⟩
    obtain ⟨e', he', hte⟩ := List.mem_map.mp ((htimes e.1).mpr ht)
    have hnn : (0 : Rat) ≤ (e'.1 : Rat) := by exact_mod_cast hi.qd_nonneg e' he'
    have h3 := qdMap_at_change _ hsorted e' he'
    rw [built_qd_represents q0 hs hv _ hnn, hte, hval] at h3
    have : e' = e := Prod.ext hte (Option.some.inj h3).symm
    rw [← this]
    exact he'

/-- the same for every part reached through the extended API: rejected calls, end-less measures and the default
quarter duration do not touch the quarter lists -/
theorem api_quarter_durations (q0 : Option Nat) (hq : ∀ q, q0 = some q → 0 < q) (xs : List XOp)
    (hv : ∀ op ∈ xs, ValidX op) (a b : Option Rat) (e : Int × Nat) :
    e ∈ qdRange (xbuildPart q0 xs).qd a b ↔
      (e.1 ∈ (recorded (q0Of q0) (qdCalls (lowerAll xs))).map (·.1) ∧
        inForce (recorded (q0Of q0) (qdCalls (lowerAll xs))) (e.1 : Rat) = some e.2) ∧
      (∀ s, a = some s → s ≤ (e.1 : Rat)) ∧ (∀ s, b = some s → (e.1 : Rat) < s) := by
  have hq0 : 0 < q0Of q0 := by
    cases q0 with
    | none => show 0 < Gen.C02.partQuarterDefault; decide
    | some q => exact hq q rfl
  have hvl : ∀ o ∈ lowerAll xs, ValidOp o := by
    intro o ho
    simp only [lowerAll, List.mem_flatMap] at ho
    obtain ⟨x, hx, hox⟩ := ho
    exact valid_lower x (hv x hx) o hox
  rw [xbuild_qd]
  exact built_quarter_durations (q0Of q0) hq0 (lowerAll xs) hvl a b e

/-- **No jump at a change point, for the map as written** (no tolerance hypothesis): across a key point `k'` (a
quarter-duration change and/or a signature start) the advance from `a` before it to `b` after it is the sum of the
two partial stretches, each at its own rate (length × factor / divisions in force). -/
theorem continuous_as_written (p : Part) (m : Mode) (h : WF p m) (pre post : List KP) (k k' k'' : KP)
    (hk : keypoints p m = pre ++ k :: k' :: k'' :: post) (a b : Rat)
    (ha : (k.t : Rat) ≤ a) (ha' : a ≤ (k'.t : Rat)) (hb : (k'.t : Rat) ≤ b) (hb' : b ≤ (k''.t : Rat)) :
    ∃ ya yb, fwdS p m a = some ya ∧ fwdS p m b = some yb ∧
      yb - ya = ((k'.t : Rat) - a) * (k.fac / k.divs) + (b - (k'.t : Rat)) * (k'.fac / k'.divs) := by
  have hw := effective_wf p m h
  have hk' : keypoints (effective p m) m = pre ++ k :: k' :: k'' :: post := by rw [(effective_same p m).1, hk]
  obtain ⟨ya, yb, h1, h2, h3⟩ := continuous_at_change (effective p m) m hw pre post k k' k'' hk' a b ha ha' hb hb'
  exact ⟨ya, yb, by rw [fwdS_eq_effective p m h, h1], by rw [fwdS_eq_effective p m h, h2], h3⟩

/-- non-vacuity: 4 | 8 | 4 stored, then a call at an earlier time whose value is already in force (not recorded) -/
example : qdRange (buildPart 4 [.setQD 32 8, .query, .setQD 64 4, .span 0 96, .setQD 16 4]).qd (some 10) (some 64) = [(32, 8)] ∧
    (recorded 4 (qdCalls [.setQD 32 8, .query, .setQD 64 4, .span 0 96, .setQD 16 4])).map (·.1) = [0, 32, 64] := by
  decide +kernel

end C02
