/-
C03 — the non-note children of a measure are read at the time they were written for.

  Model/XmlTrace.lean   `readOthers` (the position and `measure_maxtime` of `_handle_measure` at every `<attributes>`,
                        `<direction>`, `<sound>`, `<harmony>`, `<barline>`, `<print>`), `expectedOthers`
tied to the code by harness/props/c03.py stream otr (and, for the writer side, lin).
-/
import PartituraModel.Proofs.C03Trace
import PartituraModel.Model.XmlBar

namespace C03
open Model.Xml

/-- **others_in_place.**  For every well-formed measure content — any number of divisions segments, voices, chords, grace
    sequences, gaps, and any non-note elements at any onsets of the measure — both readers (the MusicXML semantics and the
    importer's bookkeeping), going through what `linearize` wrote, meet the non-note children in the order
    `merge_with_voice` placed them (segment by segment, by onset, inside an onset by rank), each exactly at the onset it
    was written for: time signatures, key signatures, clefs, divisions, directions, tempi, harmony and barlines are put on
    the timeline where they were.  The furthest position reached so far (`measure_maxtime`) lies between that onset and
    the end of the measure. -/
theorem others_in_place (m : MeasureContent) (hwf : MeasureWF m) (spec : Bool) :
    (readOthers spec m.start (linearize m)).map (fun e => (e.pos, e.order, e.sig)) = expectedOthers m ∧
      ∀ e ∈ readOthers spec m.start (linearize m), e.pos ≤ e.maxt ∧ e.maxt ≤ m.stop :=
  C03.Trace.others_linearize spec m hwf

/-- a measure with a second voice: the barline written for the end of the measure is met at the end, after the
    `<forward>` that closes the gap -/
def exampleMeasure : MeasureContent :=
  { nStaves := 1,
    segs := [
      { start := 0, stop := 8,
        notes := [
          { idx := 0, onset := 0, dur := 4, grace := false, voice := 1, staff := 1, pitch := 60, step := [67],
            gracePrev := false, seq := [] },
          { idx := 1, onset := 2, dur := 2, grace := false, voice := 2, staff := 1, pitch := 48, step := [67],
            gracePrev := false, seq := [] }],
        others := [{ onset := 8, order := 0, sig := "bar" }, { onset := 0, order := 1, sig := "att" }] }] }

example : MeasureWF exampleMeasure ∧
    readOthers false 0 (linearize exampleMeasure) = [⟨0, 0, 1, "att"⟩, ⟨8, 8, 0, "bar"⟩] := by
  decide

/-- **barline_position.**  A barline that `do_barlines` writes for onset `t` of a measure `[start, stop]` (location left
    when `t` is the start, right when it is the end, middle otherwise), met by the importer at position `t` with
    `t ≤ measure_maxtime ≤ stop` (`others_in_place`): the position its repeats and endings are given
    (`position_barline`) is `t`. -/
theorem barline_position (start stop t : Nat) (ms : Model.XmlBar.MState) (hpos : ms.pos = t)
    (hmax : t ≤ ms.maxt ∧ ms.maxt ≤ stop) :
    Model.XmlBar.barPos start ms (some (Model.XmlBar.locOf start stop t).name) = t := by
  unfold Model.XmlBar.barPos Model.XmlBar.locOf
  by_cases h1 : t = start
  · simp [h1, Model.XmlBar.Loc.name, Model.XmlBar.sLeft, Model.XmlBar.sRight]
  · by_cases h2 : t = stop
    · subst h2
      simp only [h1, if_false, if_true, Model.XmlBar.Loc.name]
      omega
    · simp [h1, h2, Model.XmlBar.Loc.name, Model.XmlBar.sLeft, Model.XmlBar.sRight, Model.XmlBar.sMiddle, hpos]

end C03
