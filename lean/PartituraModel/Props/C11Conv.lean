/-
C11 (round 6) — `GenericNote.duration_from_symbolic` and `format_symbolic_duration` (Model/SymConv.lean).

"Every symbolic duration the library assigns evaluates to the note's numeric duration under the divisions in force", and
"estimating a symbolic duration from a numeric one and converting it back returns the numeric duration, or reports that
no single notated value exists" — said with the note's own conversion property:

* `duration_from_symbolic_back`       on the estimate for `dur` at `div`: `None` or exactly `dur`, never an exception
* `duration_from_symbolic_note`       a note that stores no value: `None` or exactly its numeric duration
* `duration_from_symbolic_after_tie`  after `tie_notes`: the entered note untouched, or `None` / exactly the piece's duration
* `format_raises_only_on_tuple`       `format_symbolic_duration` answers on every value but a tuple of tied values
* `format_names_value`                for ALL type names without `.` / `_`, dots and ratios: equal strings, equal values
* `format_table_injective`            over the WHOLE regenerated table `SYM_DURS` (and the same values as 3:2 tuplets) the
                                      formatted strings are pairwise different: the string names the value
-/
import PartituraModel.Props.C11Sound
import PartituraModel.Model.SymConv
import PartituraModel.Proofs.C11Conv

namespace C11
open Model Model.Dur Model.Meas Model.Conv Gen C11Conv

theorem estimateI_shape (dur div : Nat) : estimateI dur div = .empty ∨ ∃ sd, estimateI dur div = .single sd := by
  unfold estimateI
  cases h : estimate (dur : Rat) div false with
  | none => exact Or.inl rfl
  | some e => exact estimate_shape (dur : Rat) div e h

/-- **duration_from_symbolic_back**: for every integer duration and every divisions value, `duration_from_symbolic`
    on the estimated symbolic duration is `None` (no single notated value) or exactly the duration — it never raises -/
theorem duration_from_symbolic_back (dur div : Nat) :
    durationFromSymbolic (some (estimateI dur div)) div = some none ∨
    durationFromSymbolic (some (estimateI dur div)) div = some (some (dur : Rat)) := by
  rcases estimateI_shape dur div with h | ⟨sd, h⟩
  · left; rw [h]; rfl
  · right
    rw [h]
    show (symbolicToNumeric sd (div : Rat)).map some = _
    rw [symdur_assigned dur div sd h]
    rfl

/-- **duration_from_symbolic_note**: a note that stores no symbolic duration (the generator never presets one; the
    property estimates it from the numeric duration and the quarter duration at the note's start) -/
theorem duration_from_symbolic_note (qd : List (Int × Nat)) (n : Note) (h : n.sym = none) :
    durationFromSymbolic (symbolicDuration qd n) (quarterAt qd n.start) = some none ∨
    durationFromSymbolic (symbolicDuration qd n) (quarterAt qd n.start) = some (some ((n.stop - n.start : Nat) : Rat)) := by
  unfold symbolicDuration
  rw [h]
  exact duration_from_symbolic_back (n.stop - n.start) (quarterAt qd n.start)

/-- **duration_from_symbolic_after_tie**: after `tie_notes` the note found under a key is the entered note with extent
    and stored value untouched, or a piece whose `duration_from_symbolic` is `None` or exactly the piece's duration -/
theorem duration_from_symbolic_after_tie (p : PartM) (ns : List Note) (x : Nat) (n' : Note)
    (h : C11Walk.lk (tieNotes p ns) x = some n') :
    (∃ n, C11Walk.lk ns x = some n ∧ n'.sym = n.sym ∧ n'.start = n.start ∧ n'.stop = n.stop) ∨
    durationFromSymbolic (symbolicDuration p.qd n') (quarterAt p.qd n'.start) = some none ∨
    durationFromSymbolic (symbolicDuration p.qd n') (quarterAt p.qd n'.start) =
      some (some ((n'.stop - n'.start : Nat) : Rat)) := by
  rcases tie_notes_symdur p ns x n' h with h1 | ⟨h2, _⟩
  · exact Or.inl h1
  · right
    unfold symbolicDuration
    rw [h2]
    exact duration_from_symbolic_back (n'.stop - n'.start) (quarterAt p.qd n'.start)

/-- **format_raises_only_on_tuple** -/
theorem format_raises_only_on_tuple (e : Option Est) : formatChars e = none ↔ ∃ l, e = some (.composite l) := by
  constructor
  · intro h
    match e, h with
    | some (.composite l), _ => exact ⟨l, rfl⟩
  · rintro ⟨l, rfl⟩; rfl

/-- **format_names_value**: for all type names without `.` and `_`, all dot counts and all tuplet ratios — two single
    values that `format_symbolic_duration` writes alike have the same type and dots, are both tuplets or both not, and as
    tuplets have the same ratio.  Every type name of the regenerated `LABEL_DURS` is such a name (`label_names_plain`) -/
theorem format_names_value (ty ty' : String) (d d' : Nat) (a n a' n' : Option Nat)
    (hty : ∀ c ∈ ty.toList, plainChar c = true) (hty' : ∀ c ∈ ty'.toList, plainChar c = true)
    (h : formatChars (some (.single (ty, d, a, n))) = formatChars (some (.single (ty', d', a', n')))) :
    ty = ty' ∧ d = d' ∧ ((a.isSome ∧ n.isSome) ↔ (a'.isSome ∧ n'.isSome)) ∧ (a.isSome → n.isSome → a = a' ∧ n = n') :=
  format_injective ty ty' d d' a n a' n' hty hty' h

theorem label_names_plain : ∀ e ∈ LABEL_DURS, ∀ c ∈ e.1.toList, plainChar c = true := by decide +kernel

-- the hypothesis is needed: a type named "quarter." with no dot and "quarter" with one dot are written alike
example : formatChars (some (.single ("quarter.", 0, none, none))) = formatChars (some (.single ("quarter", 1, none, none))) := by
  decide +kernel

/-- the values of the table as 3:2 tuplets -/
def asTriplet (sd : SymDur) : SymDur := (sd.1, sd.2.1, some 3, some 2)

/-- **format_table_injective**: over the whole regenerated table of notated values (plain and dotted), taken as they
    are and as 3:2 tuplets, `format_symbolic_duration` gives pairwise different strings, none of them `"unknown"` or empty -/
theorem format_table_injective :
    ((SYM_DURS ++ SYM_DURS.map asTriplet).map fun sd => formatChars (some (.single sd))).Nodup ∧
    ∀ sd ∈ SYM_DURS ++ SYM_DURS.map asTriplet,
      formatChars (some (.single sd)) ≠ formatChars none ∧ formatChars (some (.single sd)) ≠ formatChars (some .empty) := by
  decide +kernel

-- what the strings look like; a dotted triplet quarter at 12 per quarter lasts 12 divisions
example : formatSymbolic none = some "unknown" ∧ formatSymbolic (some .empty) = some "" ∧
    formatSymbolic (some (.single ("quarter", 2, none, none))) = some "quarter.." ∧
    formatSymbolic (some (.single ("16th", 0, some 3, some 2))) = some "16th_3/2" ∧
    formatSymbolic (some (.composite [("half", 0, none, none)])) = none := by decide +kernel
example : durationFromSymbolic (some (.single ("quarter", 1, some 3, some 2))) 12 = some (some 12) ∧
    durationFromSymbolic (some (.single ("crotchet", 0, none, none))) 12 = none ∧
    durationFromSymbolic (some (.single ("quarter", 4, none, none))) 12 = none ∧
    durationFromSymbolic (some .empty) 12 = some none := by decide +kernel
-- both answers of `duration_from_symbolic_back` occur: 6 at 4 per quarter is a dotted quarter, 34 at 16 has no single value
example : durationFromSymbolic (some (estimateI 6 4)) 4 = some (some 6) ∧
    durationFromSymbolic (some (estimateI 34 16)) 16 = some none := by decide +kernel

end C11
