/-
C11 — detecting tuplets never changes what sounds; for the notes of the library it changes nothing at all.

Model/Tuplets.lean models all three steps of `find_tuplets` over an abstract "no symbolic duration" test.
Decision recorded here (round 2): the dead test `symbolic_duration is None` is NOT repaired to `not symbolic_duration`:
no input violates property C11 as the code stands (`tuplets_dead`), and with the one-line repair `find_tuplets` would
label notes wrongly, because the estimator now answers tuplet guesses where it used to answer `None` and step 3
overwrites the guessed ratio (`tuplet_relabels_guess`: three notes of 10 divisions at 24 per quarter become "quarter
3:2", which lasts 16) — a violation of "every symbolic duration the library assigns evaluates to the note's numeric
duration" that does not exist today.
-/
import PartituraModel.Proofs.C11Tuplets

namespace C11
open Model Model.Dur Model.Meas Model.Tup Gen

/-- **tuplets_sound_same** (all three steps, any test `noSym`, any notes): `find_tuplets` only writes symbolic
    durations (and adds `Tuplet` objects) — every note keeps everything else, in place — so the rows of the note
    array (`sounding`: onset, tied duration, pitch, voice, id of the notes without `tie_prev`) are identical -/
theorem tuplets_sound_same (noSym : Note → Bool) (qd : List (Int × Nat)) (ns : List Note) :
    (findTupletsBy noSym qd ns).notes.map C11Tup.strip = ns.map C11Tup.strip ∧
    sounding (findTupletsBy noSym qd ns).notes = sounding ns :=
  ⟨C11Tup.findTupletsBy_strip noSym qd ns,
   C11Tup.sounding_of_strip_eq ns _ (C11Tup.findTupletsBy_strip noSym qd ns)⟩

/-- **tuplets_dead**: for the notes of the library (`symbolic_duration` is the stored value or the estimate, never
    `None`) step 1 finds no candidate group and `find_tuplets` changes nothing and adds no `Tuplet` -/
theorem tuplets_dead (qd : List (Int × Nat)) (ns : List Note) :
    candidatesBy (fun n => (symbolicDuration qd n).isNone) ns = [] ∧
    (findTuplets qd ns).notes = ns ∧ (findTuplets qd ns).tuplets = [] := by
  have h : ∀ n : Note, (fun n => (symbolicDuration qd n).isNone) n = false := by
    intro n; simp only; unfold symbolicDuration; split <;> rfl
  have hc := C11Tup.candidates_none _ h ns
  refine ⟨hc, ?_, ?_⟩ <;> (unfold findTuplets findTupletsBy; rw [hc]; rfl)

/-- **tuplet_label_straight**: where step 3 starts from a STRAIGHT undotted value (`total // 2` is a table value
    without tuplet ratio) the label it writes, `type actual_notes : 2`, lasts exactly as long as each of the
    `actual_notes` equal notes (`2 * (total // 2) = actual_notes * d`) -/
theorem tuplet_label_straight (h div actual d : Nat) (ty : String) (hact : 0 < actual) (hsum : 2 * h = actual * d)
    (hest : estimate (h : Rat) div false = some (.single (ty, 0, none, none))) :
    symbolicToNumeric (ty, 0, some actual, some 2) div = some (d : Rat) :=
  C11Tup.relabel_straight h div actual d ty hact hsum hest

-- non-vacuity: three eighth-triplets at 6 divisions per quarter (2 divisions each): total 6, half of it a dotted-free eighth
example : estimate ((3 : Nat) : Rat) 6 false = some (.single ("eighth", 0, none, none)) ∧ 2 * 3 = 3 * 2 := by decide +kernel

def exT (k s e : Nat) : Note :=
  { key := k, id := none, start := s, stop := e, pitch := "C_0_4", voice := some 1, staff := some 1, sym := none,
    tiePrev := none, tieNext := none, slurStops := [] }

-- the live path (a note class without estimated durations): the three notes become eighth 3:2, one Tuplet 0 → 2
example : ((findTupletsBy (fun n => n.sym.isNone) [(0, 6)] [exT 0 0 2, exT 1 2 4, exT 2 4 6]).notes.map (·.sym),
           (findTupletsBy (fun n => n.sym.isNone) [(0, 6)] [exT 0 0 2, exT 1 2 4, exT 2 4 6]).tuplets) =
    ([some (.single ("eighth", 0, some 3, some 2)), some (.single ("eighth", 0, some 3, some 2)),
      some (.single ("eighth", 0, some 3, some 2))], [(0, 2)]) := by decide +kernel

/-- **tuplet_relabels_guess** (why the dead test is not "repaired" in one line): three notes of 10 divisions at 24
    per quarter (5/12 quarter = 16th + triplet 16th, a composite value: `{}`) would form a candidate group; half their
    total, 15 divisions, is no table value, so the estimator GUESSES "quarter 8:5", which has no dots; step 3
    overwrites the ratio and labels the notes "quarter 3:2" — 16 divisions, not 10 -/
theorem tuplet_relabels_guess :
    estimate ((10 : Nat) : Rat) 24 false = some .empty ∧
    estimate ((15 : Nat) : Rat) 24 false = some (.single ("quarter", 0, some 8, some 5)) ∧
    (findTupletsBy (fun n => n.sym.isNone) [(0, 24)] [exT 0 0 10, exT 1 10 20, exT 2 20 30]).notes.map (·.sym) =
      [some (.single ("quarter", 0, some 3, some 2)), some (.single ("quarter", 0, some 3, some 2)),
       some (.single ("quarter", 0, some 3, some 2))] ∧
    symbolicToNumeric ("quarter", 0, some 3, some 2) 24 = some 16 := by
  refine ⟨by decide +kernel, by decide +kernel, by decide +kernel, by decide +kernel⟩

end C11
