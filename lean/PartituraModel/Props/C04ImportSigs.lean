/-
C04 (round 5) — tempo marks through the importer, and the exact condition of `pad_bar`.

`load_score_midi` collects the `set_tempo` events of ALL tracks and adds them to the first part.  For a file written by
`save_score_midi` they are exactly the entries of the exporter's `tempos` dict (`tempo_positions`, `tempo_last_wins`
say what that dict holds): nothing is lost, duplicated or moved by the reader, in any import mode.
-/
import PartituraModel.Props.C04Sigs
import PartituraModel.Props.C04Total
import PartituraModel.Props.C04Cells
import PartituraModel.Props.C04History

namespace C04
open Model Model.Ticks Model.MidiPair Model.MidiModes Model.ScoreMidi

theorem temposOf_filter (l : List (Int × Msg)) : temposOf l = temposOf (l.filter C04D.isTempo) := by
  induction l with
  | nil => rfl
  | cons e rest ih =>
    obtain ⟨t, m⟩ := e
    unfold temposOf at ih ⊢
    cases m <;> simp_all [C04D.isTempo, List.filter_cons]

theorem temposOf_perm {l₁ l₂ : List (Int × Msg)} (h : l₁.Perm l₂) : (temposOf l₁).Perm (temposOf l₂) :=
  h.filterMap _

theorem temposOf_trackTempos (tempos : List (Int × Nat)) (tr : Nat) :
    temposOf (C04E.trackTempos tempos tr) = if tr = 0 then tempos else [] := by
  unfold C04E.trackTempos
  split
  · simp only [temposOf, List.filterMap_map]
    induction tempos with
    | nil => rfl
    | cons e rest ih => simp_all
  · rfl

theorem readTracks_tempos (trs : List (List (Int × Msg))) :
    (readTracks (trs.map (deltasFrom 0))).flatMap (fun e => e.2.2.2.2) = trs.flatMap temposOf := by
  unfold readTracks
  have : ∀ (k : Nat) (l : List (List (Int × Msg))),
      (((l.map (deltasFrom 0)).zipIdx k).map fun (x : List (Int × Msg) × Nat) =>
        ((x.2, pairAbs (absoluteFrom 0 x.1), timeSigsOf (absoluteFrom 0 x.1), keySigsOf (absoluteFrom 0 x.1),
          temposOf (absoluteFrom 0 x.1)) : TrackRead)).flatMap (fun e => e.2.2.2.2) = l.flatMap temposOf := by
    intro k l
    induction l generalizing k with
    | nil => rfl
    | cons t ts ih =>
      simp only [List.map_cons, List.zipIdx_cons, List.flatMap_cons]
      rw [ih (k + 1), C04S.absolute_deltas]
  exact this 0 trs

theorem flatMap_perm_idx {α β : Type} (L : List α) (f : α → List β) (g : Nat → List β) (k : Nat)
    (h : ∀ i (hi : i < L.length), (f L[i]).Perm (g (k + i))) :
    (L.flatMap f).Perm ((List.range' k L.length).flatMap g) := by
  induction L generalizing k with
  | nil => simp
  | cons x xs ih =>
    simp only [List.length_cons, List.range'_succ, List.flatMap_cons]
    have h0 : (f x).Perm (g k) := h 0 (by simp)
    refine List.Perm.append h0 (ih (k + 1) ?_)
    intro i hi
    have h1 : (f xs[i]).Perm (g (k + (i + 1))) := h (i + 1) (by simp; omega)
    rw [show k + 1 + i = k + (i + 1) by omega]
    exact h1

theorem range_flatMap_zero {β : Type} (n : Nat) (hn : 0 < n) (D : List β) :
    (List.range n).flatMap (fun tr => if tr = 0 then D else []) = D := by
  cases n with
  | zero => omega
  | succ m =>
    rw [List.range_succ_eq_map, List.flatMap_cons, List.flatMap_map]
    simp

/-- **Tempo marks through the round trip**, every export mode, every import mode, every policy: the tempo events the
    importer hands to the first part are, as a multiset, exactly the entries of the exporter's `tempos` dict — one
    per tick, each a tempo mark of a part at the written tick of its position (or the default tempo at tick 0), and
    every tempo mark's tick is among them (`tempo_positions`; `tempo_last_wins` says which mark a shared tick keeps). -/
theorem import_tempo_positions (mode imode : Nat) (a : Anacrusis) (minPpq vel : Nat) (parts : List PartIn)
    (ex : Exported) (imp : Imported)
    (h : saveScoreMidi mode a minPpq vel parts = some ex)
    (hi : loadScoreMidi imode ex.ppq (ex.tracks.map (deltasFrom 0)) = some imp) :
    ∃ o, origin a (parts.map (·.base)) = some o ∧
      imp.tempos.Perm (exportTempos (fun x t => tick ex.ppq x.base o t) parts) ∧
      (imp.tempos.map (·.1)).Nodup ∧
      (∀ e ∈ imp.tempos, e = (0, 500000) ∨ ∃ x ∈ parts, ∃ tp ∈ x.tempos, e = (tick ex.ppq x.base o tp.1, tp.2)) ∧
      (∀ x ∈ parts, ∀ tp ∈ x.tempos, tick ex.ppq x.base o tp.1 ∈ imp.tempos.map (·.1)) := by
  obtain ⟨o, ho, hfil, hnd, hsrc, hcov⟩ := tempo_positions mode a minPpq vel parts ex h
  have himp := (C04I.load_inv imode ex.ppq _ imp hi).2
  rw [readTracks_tempos] at himp
  obtain ⟨o', metas, tcs, n, ho', hm, htc, hn, hex⟩ := C04E.save_inv mode a minPpq vel parts ex h
  rw [ho] at ho'
  cases ho'
  have hnpos : 0 < n := by
    simp only [Option.map_eq_some_iff] at hn
    obtain ⟨m, _, rfl⟩ := hn
    omega
  have hperm : imp.tempos.Perm (exportTempos (fun x t => tick ex.ppq x.base o t) parts) := by
    rw [himp]
    have hlen : ex.tracks.length = n := by rw [hex]; simp
    have hpt : ∀ tr (htr : tr < ex.tracks.length), (temposOf ex.tracks[tr]).Perm
        (if tr = 0 then exportTempos (fun x t => tick ex.ppq x.base o t) parts else []) := by
      intro tr htr
      rw [temposOf_filter]
      refine (temposOf_perm (hfil tr htr)).trans (List.Perm.of_eq ?_)
      exact temposOf_trackTempos _ tr
    have := flatMap_perm_idx ex.tracks temposOf
      (fun tr => if tr = 0 then exportTempos (fun x t => tick ex.ppq x.base o t) parts else []) 0
      (fun i hi => by simpa using hpt i hi)
    refine this.trans (List.Perm.of_eq ?_)
    rw [← List.range_eq_range']
    exact range_flatMap_zero _ (by omega) _
  refine ⟨o, ho, hperm, ?_, ?_, ?_⟩
  · exact (hperm.map (·.1)).nodup_iff.mpr hnd
  · intro e he
    exact hsrc e (hperm.mem_iff.mp he)
  · intro x hx tp htp
    exact ((hperm.map (·.1)).mem_iff).mpr (hcov x hx tp htp)

/-- non-vacuity on `demoScore`: the export holds the tempo mark of the first part at tick 0 and the importer returns it -/
example : ((saveScoreMidi 1 .shift 0 64 demoScore).bind fun ex =>
    (loadScoreMidi 1 ex.ppq (ex.tracks.map (deltasFrom 0))).map fun imp => imp.tempos) = some [(0, 500000)] := by
  decide +kernel

-- ====================================================================== the whole property, end to end

/-- **The property, end to end** (`shift`, `time_sig_change`; any export mode and any import mode 0..5; any minimum
    ppq and audible velocity).  For every well-formed score with a sounding note in which no two notes of equal pitch
    overlap within a track and channel of the export mode, with no hypothesis about any stage returning:
    `save_score_midi` returns a file whose ticks per quarter are the least common multiple of the divisions doubled up
    to the minimum; `load_score_midi` returns a score; the imported parts together hold exactly the score's sounding
    notes (onset and duration in quarters, MIDI pitch) in parts of `ppq` divisions per quarter; every note comes back
    in the (part, voice) that the import mode gives to the (track, channel) the export mode wrote it to; and the
    tempo events handed to the first part are exactly the exporter's tempo entries. -/
theorem property_end_to_end (mode imode : Nat) (a : Anacrusis) (minPpq vel : Nat) (parts : List PartIn)
    (hm : mode ≤ 5) (him : imode ≤ 5) (ha : a ≠ .padBar) (hvel : 0 < vel)
    (hw : ∀ x ∈ parts, C04T.WellFormed x.base) (hnote : ∃ x ∈ parts, x.notes ≠ [])
    (hts : a = .timeSigChange → ∀ x ∈ parts, ∀ m ∈ x.measures, (tsAt x.base m.1).isSome)
    (hno : ∀ o tcs, origin a (parts.map (·.base)) = some o → mapToTrackChannel mode (noteKeys parts) = some tcs →
      ∀ tr, C04P.NoOverlap (routedTo (exportPpq parts minPpq) o vel ((noteKeys parts).zip tcs) parts tr)) :
    ∃ ex imp o tcs, saveScoreMidi mode a minPpq vel parts = some ex ∧
      loadScoreMidi imode ex.ppq (ex.tracks.map (deltasFrom 0)) = some imp ∧
      origin a (parts.map (·.base)) = some o ∧ mapToTrackChannel mode (noteKeys parts) = some tcs ∧
      ex.ppq = ppq (parts.flatMap fun x => divisions x.base) minPpq ∧
      (importedRows o imp).Perm (scoreRows parts) ∧ (∀ e ∈ imp.parts, e.2.divs = ex.ppq) ∧
      (importedCells imp).Perm (writtenCells imode ex.ppq o ((noteKeys parts).zip tcs) parts) ∧
      imp.tempos.Perm (exportTempos (fun x t => tick ex.ppq x.base o t) parts) := by
  obtain ⟨ex, h⟩ := export_returns mode a minPpq vel parts hm hw hnote ⟨hts, fun h => absurd h ha⟩
  have hppq : ex.ppq = exportPpq parts minPpq := by
    obtain ⟨_, _, _, _, _, _, _, _, hex⟩ := C04E.save_inv mode a minPpq vel parts ex h
    rw [hex]
  have hno' : ∀ o tcs, origin a (parts.map (·.base)) = some o → mapToTrackChannel mode (noteKeys parts) = some tcs →
      ∀ tr, C04P.NoOverlap (routedTo ex.ppq o vel ((noteKeys parts).zip tcs) parts tr) := by
    rw [hppq]; exact hno
  obtain ⟨imp, hi⟩ := import_total_any_mode mode imode him a minPpq vel parts ex h hvel hw hnote hno'
  obtain ⟨o, ho, hperm, hdivs⟩ := score_roundtrip_any_import_mode mode imode a minPpq vel parts ex imp h hi ha hvel hw hno'
  obtain ⟨o₂, tcs, ho₂, htc, hcells⟩ := roundtrip_cells_any_import_mode mode imode a minPpq vel parts ex imp h hi hvel hw hno'
  obtain ⟨o₃, ho₃, htempo, _⟩ := import_tempo_positions mode imode a minPpq vel parts ex imp h hi
  rw [ho] at ho₂ ho₃
  cases ho₂
  cases ho₃
  exact ⟨ex, imp, o, tcs, h, hi, ho, htc, hppq, hperm, hdivs, hcells, htempo⟩

-- ====================================================================== pad_bar: the exact condition

/-- **`pad_bar`, exactly**: when every quarter duration divides the ticks per quarter, the origin `-(beats / (bt / 4))`
    of the padded bar makes EVERY tick image an integer if and only if `bt ∣ 4 * beats * P` — the hypothesis `hbar` of
    the `_pad_partial` theorems is not only sufficient but necessary (counter-example `padWitness`: 3/8, one division
    per quarter). -/
theorem pad_bar_integral_iff (P beats bt : Nat) (hbt : 0 < bt) (b : TimeBase) (hdiv : ∀ d ∈ divisions b, d ∣ P) :
    (∀ t, (toTick P b (-((beats : Rat) / ((bt : Rat) / 4))) t).den = 1) ↔ bt ∣ 4 * beats * P := by
  have hbt' : (bt : Rat) ≠ 0 := by exact_mod_cast (Nat.pos_iff_ne_zero.mp hbt)
  have key : ∀ t, toTick P b (-((beats : Rat) / ((bt : Rat) / 4))) t =
      (P : Rat) * quarter b t + ((4 * beats * P : Nat) : Rat) / (bt : Rat) := by
    intro t
    unfold toTick
    push_cast
    field_simp
    ring
  constructor
  · intro hall
    have h0 := hall 0
    rw [key] at h0
    obtain ⟨z, hz⟩ := C04T.quarter_isInt P b hdiv 0
    -- the fraction is an integer
    have hfrac : (((4 * beats * P : Nat) : Rat) / (bt : Rat)).den = 1 := by
      have e : ((4 * beats * P : Nat) : Rat) / (bt : Rat) =
          ((P : Rat) * quarter b 0 + ((4 * beats * P : Nat) : Rat) / (bt : Rat)) - (z : Rat) := by rw [hz]; ring
      rw [e]
      have hint : C04T.IsInt ((P : Rat) * quarter b 0 + ((4 * beats * P : Nat) : Rat) / (bt : Rat)) :=
        ⟨((P : Rat) * quarter b 0 + ((4 * beats * P : Nat) : Rat) / (bt : Rat)).num, by
          conv_lhs => rw [← Rat.num_div_den ((P : Rat) * quarter b 0 + ((4 * beats * P : Nat) : Rat) / (bt : Rat))]
          rw [h0]; simp⟩
      exact (hint.sub (C04T.isInt_intCast z)).den
    have : ((4 * beats * P : Nat) : Rat) / (bt : Rat) = (((4 * beats * P : Nat) : Int) : Rat) / (((bt : Nat) : Int) : Rat) := by
      push_cast; rfl
    rw [this, Rat.den_div_intCast_eq_one_iff _ _ (by exact_mod_cast (Nat.pos_iff_ne_zero.mp hbt))] at hfrac
    exact_mod_cast hfrac
  · intro hdvd t
    rw [key]
    obtain ⟨k, hk⟩ := hdvd
    have : ((4 * beats * P : Nat) : Rat) / (bt : Rat) = (k : Rat) := by
      rw [hk]; push_cast; field_simp
    rw [this]
    exact ((C04T.quarter_isInt P b hdiv t).add ⟨k, by simp⟩).den

end C04
