/-
C10 (round 5) — the literal data of the model is the data of the live source.

`harness/translate_c10.py` regenerates `Gen/C10Tables.lean` on every run by RUNNING the live functions on tiny probe
parts: the defaults every map answers with when its kind of element is absent, the start `measure_map` reports for
pickups whose corrected start is exactly half-way between two divisions, and the columns the three maps add to the
note / rest arrays for all 8 combinations of maps (four entry points).  The theorems below are stated over those
generated constants: editing a default, the rounding of the pickup rule or the column layout in the source
regenerates a different table and they stop building.

Round 6: `C10_ARG_SHAPES` - for each map and each kind of argument (number, 0-dimensional array, sequence) whether
the live call answers with one row or an array of rows; `arg_shapes_from_source` ties the dispatch of
Model/StepMapCalls.lean (in particular `Arg.isIterable`: the `isinstance(input, Iterable)` test of
`metrical_position_map`) to it, `call_shapes` (Props/C10Calls.lean) extends it to every part and position.
-/
import PartituraModel.Proofs.C10Notes
import PartituraModel.Props.C10Part
import PartituraModel.Props.C10Calls

namespace C10
open Model Model.StepMap Gen

/-- every probe of the translator could be read -/
theorem tables_extracted : C10_EXTRACTION_OK = true := by decide

/-! ### defaults -/

/-- **`defaults_from_source`**: the rows the model's table builders use when a kind of element is absent carry the
    values the live maps answer with on such a part, and these are the documented defaults: 4/4 with 4 musical
    beats, C major `(0, 1)`, the code of the `none` clef with line 0 and octave change 0, measure number 1, metrical
    position `(0, 0)`, one measure spanning the timeline; an empty part starts at 0 -/
theorem defaults_from_source (span : Span) (b d : Option Rat) (s x : Int) :
    tsTableOf span [] = [((spanOrZero span).1, C10_DEFAULT_TS), ((spanOrZero span).2, C10_DEFAULT_TS)] ∧
    ksTable span [] = [((spanOrZero span).1, C10_DEFAULT_KS), ((spanOrZero span).1, C10_DEFAULT_KS)] ∧
    clefSignToInt "none" = some C10_DEFAULT_CLEF.1 ∧
    clefTableStaff span [] C10_DEFAULT_CLEF.1 s
      = [((spanOrZero span).1, (s, C10_DEFAULT_CLEF)), ((spanOrZero span).2, (s, C10_DEFAULT_CLEF))] ∧
    measureNumberTable span [] b d = some [((spanOrZero span).1, C10_DEFAULT_MEASURE_NUMBER)] ∧
    metricalOfBars [] x = some (C10_DEFAULT_METRICAL.1, some C10_DEFAULT_METRICAL.2) ∧
    (C10_DEFAULT_MEASURE_IS_SPAN = true ∧ measureTable span [] b d = [((spanOrZero span).1, spanOrZero span)]) ∧
    C10_EMPTY_ORIGIN = (spanOrZero none).1 ∧
    (C10_DEFAULT_TS = (4, 4, 4) ∧ C10_DEFAULT_KS = (0, 1) ∧ C10_DEFAULT_CLEF.2 = (0, 0)
      ∧ C10_DEFAULT_MEASURE_NUMBER = 1 ∧ C10_DEFAULT_METRICAL = (0, 0)) := by
  refine ⟨?_, ?_, by decide, ?_, ?_, rfl, ⟨rfl, ?_⟩, rfl, by decide⟩
  · cases span with
    | none => rfl
    | some p => obtain ⟨f, l⟩ := p; simp [tsTableOf, spanOrZero, backfill, C10_DEFAULT_TS]
  · cases span with
    | none => rfl
    | some p => obtain ⟨f, l⟩ := p; simp [ksTable, ksRows, spanOrZero, C10_DEFAULT_KS]
  · cases span with
    | none => rfl
    | some p => obtain ⟨f, l⟩ := p; simp [clefTableStaff, spanOrZero, backfill, C10_DEFAULT_CLEF]
  · cases span <;> rfl
  · cases span <;> rfl

/-- a clef that carries no line / no octave change is reported with the values the live `clef_map` reports -/
theorem clef_missing_from_source (t st : Int) :
    clefRows [(t, st, "G", none, none)]
      = (clefSignToInt "G").map fun c => [(t, (st, c, C10_CLEF_MISSING.1, C10_CLEF_MISSING.2))] := by
  have hG : clefSignToInt "G" = some 0 := by decide
  simp [clefRows, hG, C10_CLEF_MISSING]

/-! ### the rounding of the pickup rule -/

/-- **`pickup_rounding_from_source`**: at the two probes (3/8 at 3 divisions per quarter: a bar of 9/2 divisions; first
    measures of 2 and 1 divisions, i.e. corrected starts −5/2 and −7/2) the live `measure_map` reports exactly what the
    model's `pickupStart` computes - rounding half to even; truncation, floor, ceiling and rounding half away from
    zero each differ on one of them -/
theorem pickup_rounding_from_source :
    C10_PICKUP_ROUNDING
      = [((2 : Rat) - 3 * (3 / 2), pickupStart 0 2 (some 3) (some (3 / 2))),
         ((1 : Rat) - 3 * (3 / 2), pickupStart 0 1 (some 3) (some (3 / 2)))] ∧
    (∀ pr ∈ C10_PICKUP_ROUNDING, roundHalfEven pr.1 = pr.2) ∧
    (∃ pr ∈ C10_PICKUP_ROUNDING, truncToZero pr.1 ≠ pr.2) ∧
    (∃ pr ∈ C10_PICKUP_ROUNDING, pr.1.floor ≠ pr.2) ∧
    (∃ pr ∈ C10_PICKUP_ROUNDING, pr.1.ceil ≠ pr.2) ∧
    (∃ pr ∈ C10_PICKUP_ROUNDING, -((-pr.1 + 1 / 2).floor) ≠ pr.2) := by
  decide +kernel

/-! ### the columns of the note / rest arrays -/

/-- **`na_columns_spec`**: for each of the four entry points and each of the 8 combinations of maps / flags the
    live functions add exactly the documented columns, the key-signature columns first, then the time-signature
    columns, then the metrical columns (a whole finite table) -/
theorem na_columns_spec (e : NAEntry) (fl : NAFlags) :
    naColumns e fl = some ((if fl.ks then ["ks_fifths", "ks_mode"] else [])
      ++ (if fl.ts then ["ts_beats", "ts_beat_type", "ts_mus_beats"] else [])
      ++ (if fl.mp then ["is_downbeat", "rel_onset_div", "tot_measure_div"] else [])) := by
  obtain ⟨a, b, c⟩ := fl
  cases e <;> cases a <;> cases b <;> cases c <;> decide

/-- the entry points on the part have the layout of the list functions -/
theorem part_columns_eq_list_columns :
    C10_NA_PART_COLUMNS = C10_NA_COLUMNS ∧ C10_REST_PART_COLUMNS = C10_REST_COLUMNS
    ∧ C10_REST_COLUMNS = C10_NA_COLUMNS := by decide

/-- **`column_by_name`**: the layout of the column NAMES (read off the live functions) agrees with the order in which
    the loop appends the cells (modelled by hand): in a row built with the maps the flags select, the cell under each
    documented name is the corresponding component of the map's answer -/
theorem column_by_name (e : NAEntry) (fl : NAFlags) (cols : List String) (h : naColumns e fl = some cols) (r : ColRow)
    (hks : r.ks.isSome = fl.ks) (hts : r.ts.isSome = fl.ts) (hmp : r.mp.isSome = fl.mp) :
    (∀ a b, r.ks = some (a, b) →
      cellNamed cols r "ks_fifths" = some (some a) ∧ cellNamed cols r "ks_mode" = some (some b)) ∧
    (∀ a b c, r.ts = some (a, b, c) →
      cellNamed cols r "ts_beats" = some (some a) ∧ cellNamed cols r "ts_beat_type" = some (some b)
      ∧ cellNamed cols r "ts_mus_beats" = some (some c)) ∧
    (∀ a b c, r.mp = some (a, b, c) →
      cellNamed cols r "is_downbeat" = some (some a) ∧ cellNamed cols r "rel_onset_div" = some (some b)
      ∧ cellNamed cols r "tot_measure_div" = some c) := by
  rw [na_columns_spec] at h
  injection h with h
  subst h
  obtain ⟨i, o, pi, ks, ts, mp⟩ := r
  obtain ⟨fk, ft, fm⟩ := fl
  simp only at hks hts hmp
  cases ks <;> cases ts <;> cases mp <;> simp only [Option.isSome] at hks hts hmp <;> subst hks hts hmp <;>
    refine ⟨?_, ?_, ?_⟩ <;> intros <;> simp_all [cellNamed, rowCells, indexOf]

example : naColumns .noteList ⟨true, false, true⟩
    = some ["ks_fifths", "ks_mode", "is_downbeat", "rel_onset_div", "tot_measure_div"] := by decide

/-! ### one row or an array of rows (round 6) -/

/-- the translator's probe part: 3/4 at 4 divisions per quarter, two bars, one note on staff 1 -/
def shapeProbe : PartD :=
  { npoints := 3, span := some (0, 24), qd := [(0, 4)], ts := [⟨0, 3, 4, 3⟩], musical := false,
    ms := [(0, 12, some 1), (12, 24, some 2)] }

/-- the shapes the MODEL's calls give on the probe part, in the layout of `C10_ARG_SHAPES` -/
def modelShapes : List (String × List (String × Bool)) :=
  let kinds : List (String × Arg) := [("scalar", .scalar 5), ("zerod", .zerod 5), ("seq", .seq [5, 7])]
  let row (f : Arg → Option Bool) : List (String × Bool) := kinds.filterMap fun k => (f k.2).map fun b => (k.1, b)
  [("time_signature_map", row fun a => some (callTS shapeProbe.span shapeProbe.ts a).isOne),
   ("key_signature_map", row fun a => some (callKS shapeProbe.span [] a).isOne),
   ("clef_map", row fun a => (callClef shapeProbe.span [] [1] a).map Res.isOne),
   ("measure_map", row fun a => (callMeasure shapeProbe a).map Res.isOne),
   ("measure_number_map", row fun a => (callMeasureNumber shapeProbe a).map Res.isOne),
   ("metrical_position_map", row fun a => (callMetrical shapeProbe a).map Res.isOne),
   ("metrical_position_map/no_measures", row fun a => (callMetrical { shapeProbe with ms := [] } a).map Res.isOne)]

/-- **`arg_shapes_from_source`**: for every map and every kind of argument the model's dispatch (scipy / the wrapper's
    `np.ndim` test / the collator / the `Iterable` test and `np.column_stack`) answers with one row or an array
    exactly as the live functions do - whole table, regenerated on every run -/
theorem arg_shapes_from_source : C10_ARG_SHAPES = modelShapes := by decide +kernel

/-- … and what the table says: a number and a 0-dimensional array give one row and a sequence an array, except that
    `metrical_position_map` of a part with measures turns a 0-dimensional array into a one-row array -/
theorem arg_shapes_spec : ∀ e ∈ C10_ARG_SHAPES,
    e.2 = [("scalar", true), ("zerod", e.1 != "metrical_position_map"), ("seq", false)] := by decide +kernel

end C10
