/-
C06 (round 6) — "Saving a performance (a Performance, a performed part, or a list of performed parts) …": the list
handed over as a one-shot iterable (generator, iterator, `map`), which the saver's `isinstance(…, Iterable)` branch
accepts (fixes/C06-9: the unrepaired code wrote a file without tracks).

  * `oneshot_first_save`   the first save of a fresh iterable writes exactly what saving the list of its parts
                           writes (same options, same form of `out`) — every theorem about lists applies;
  * `oneshot_exhausted`, `oneshot_later_saves`  afterwards the iterable is empty, and every later save of the same
                           object is the save of the empty list: a type-1 file without tracks (`save_empty_list`);
  * `oneshot_foreign`      an iterable that yields something that is no PerformedPart is rejected (ValueError);
  * `oneshot_unrepaired_loses_everything`  the unrepaired saver wrote the empty file whatever the parts.
-/
import PartituraModel.Model.PerfIter
import PartituraModel.Props.C06History

namespace C06
open Model Model.PerfMidi

/-- the first save of an iterable of performed parts = the save of the list of these parts -/
theorem oneshot_first_save (qf : Nat → Nat → Rat → Int) (ps : List PPart) (o : SaveOpts) (os : List SaveOpts) :
    (runOneShot qf ⟨ps, false⟩ (o :: os)).2.head? = some (saveOut qf (.parts ps) o) := rfl

/-- an iterable with a foreign element is rejected like the list with that element -/
theorem oneshot_foreign (qf : Nat → Nat → Rat → Int) (ps : List PPart) (o : SaveOpts) :
    (saveOneShot qf ⟨ps, true⟩ o).2 = none := rfl

/-- after any save nothing is left of the iterable -/
theorem oneshot_exhausted (qf : Nat → Nat → Rat → Int) (it : OneShot) (o : SaveOpts) (os : List SaveOpts) :
    (runOneShot qf it (o :: os)).1 = ⟨[], false⟩ := by
  induction os generalizing it o with
  | nil => rfl
  | cons o' os ih =>
    show (runOneShot qf (saveOneShot qf it o).1 (o' :: os)).1 = _
    exact ih _ o'

/-- saving the empty list: a file of type 1 without tracks (returned or written) -/
theorem save_empty_list (qf : Nat → Nat → Rat → Int) (o : SaveOpts) : saveOut qf (.parts []) o = some (1, []) := by
  unfold saveOut dispatchSave
  cases o.toObject <;> cases o.merge <;> rfl

/-- every save after the first one writes the empty file -/
theorem oneshot_later_saves (qf : Nat → Nat → Rat → Int) (it : OneShot) (o : SaveOpts) (os : List SaveOpts) :
    ∀ r ∈ (runOneShot qf it (o :: os)).2.tail, r = some (1, []) := by
  show ∀ r ∈ (runOneShot qf ⟨[], false⟩ os).2, r = some (1, [])
  induction os with
  | nil => intro r hr; cases hr
  | cons o' os ih =>
    intro r hr
    have : (runOneShot qf ⟨[], false⟩ (o' :: os)).2
        = saveOut qf (.parts []) o' :: (runOneShot qf ⟨[], false⟩ os).2 := rfl
    rw [this] at hr
    rcases List.mem_cons.mp hr with rfl | hr
    · exact save_empty_list qf o'
    · exact ih r hr

/-- NOT the code any more: the unrepaired saver wrote the empty file whatever parts the iterable held … -/
theorem oneshot_unrepaired_loses_everything (qf : Nat → Nat → Rat → Int) (ps : List PPart) (o : SaveOpts) :
    (saveOneShotUnrepaired qf ⟨ps, false⟩ o).2 = some (1, []) := save_empty_list qf o

/-- … while the list of one part with one note is a file with a track (non-vacuity of `oneshot_first_save`) -/
example : (saveOneShot (fun mpq ppq => quant mpq ppq) ⟨[⟨[], [], [], [], [⟨60, 64, 0, 0, 0, 1⟩], []⟩], false⟩
      ⟨480, 500000, false, true⟩).2
    = some (0, [[(0, Ev.tempo 500000), (0, Ev.noteOn 0 60 64), (0, Ev.program 0 0), (960, Ev.noteOff 0 60 0)]]) := by
  decide +kernel

end C06
