/-
C01 — a part is a consistent time-ordered collection under any edit history.

Property theorems over Model/Timeline.lean (the `Part` timeline state machine, mirroring the code after the
repairs fixes/C01-1..3) and the regenerated class DAG (Gen/Classes.lean).  Helper lemmas: Proofs/C01*.lean.

Vocabulary (all defined in Model/Timeline.lean unless noted):
  `Inv s`            the state invariant: times strictly increasing and non-negative, prev/next are exactly the
                     neighbours, every object's start/end is the very point that lists it (and only that one),
                     no point is empty unless requested through get_or_add_point, each point carries the quarter
                     duration in force, the quarter table is strictly sorted from time 0
  `Valid s op`       arguments the property quantifies over (`add` supplies a side only if the object is not
                     registered on it; quarter durations are set at times ≥ 0)
  `op.negTime`       the operation carries a negative time-point argument (Proofs/C01Ops)
  `ValidHistory`     every operation of a history is `Valid` in the state it meets (Proofs/C01Main)
  `getObj s.objs o`  the record (start, end) of object `o`
-/
import PartituraModel.Proofs.C01Main

namespace C01
open TL

/-! ### the invariant holds initially, is kept by every valid operation, hence in every reachable state -/

theorem inv_init (q : Nat) : Inv (Part.init q) := init_inv q

theorem inv_step {s s' : Part} {op : Op} {out : Out} (hI : Inv s) (hv : Valid s op)
    (h : step s op = .ok (s', out)) : Inv s' := step_preserves hI hv h

/-- by induction over the operation list; rejected operations leave the state as it was -/
theorem inv_reachable (q : Nat) (ops : List Op) (hv : ValidHistory (Part.init q) ops) :
    Inv (run (Part.init q) ops) := run_inv (init_inv q) ops hv

/-- the executable invariant the driver evaluates on model states is `Inv` -/
theorem invB_iff (s : Part) : invB s = true ↔ Inv s := by
  constructor
  · intro h
    simp only [invB, Bool.and_eq_true, decide_eq_true_eq] at h
    obtain ⟨⟨⟨⟨⟨⟨⟨⟨⟨⟨⟨⟨h1, h2⟩, h3⟩, h4⟩, h5⟩, h6⟩, h7⟩, h8⟩, h9⟩, h10⟩, h11⟩, h12⟩, h13⟩ := h
    exact ⟨h1, h2, h3, h4, h5, h6, fun sd e he t ht => h7 sd e he t (by simpa using ht), h8, h9, h10, h11, h12, h13⟩
  · intro h
    simp only [invB, Bool.and_eq_true, decide_eq_true_eq]
    exact ⟨⟨⟨⟨⟨⟨⟨⟨⟨⟨⟨⟨h.sorted, h.nonneg⟩, h.links⟩, h.regNodup⟩, h.objsNodup⟩, h.listed⟩,
      fun sd e he t ht => h.refOn sd e he t (by simpa using ht)⟩, h.listedKnown⟩, h.nonempty⟩, h.requestedOn⟩,
      h.quarter⟩, h.qsorted⟩, h.qhead⟩

/-! ### no operation raises on valid arguments; negative times are rejected and nothing changes -/

/-- an operation with valid, non-negative arguments never raises (and keeps the invariant) -/
theorem step_total {s : Part} {op : Op} (hI : Inv s) (hv : Valid s op) (hn : op.negTime = false) :
    ∃ s' out, step s op = .ok (s', out) ∧ Inv s' := step_ok hI hv hn

/-- a negative time point is rejected with InvalidTimePointException, whatever the state -/
theorem step_rejects (s : Part) (op : Op) (hn : op.negTime = true) :
    step s op = .error .invalidTimePoint := negTime_rejected s op hn

/-- … and the part is left exactly as it was (the next operation of the history meets the same state) -/
theorem rejected_unchanged (s : Part) (op : Op) (ops : List Op) (hn : op.negTime = true) :
    run s (op :: ops) = run s ops := by
  simp [run, negTime_rejected s op hn]

/-- read-only operations return the state they were given -/
theorem query_frame {s s' : Part} {op : Op} {out : Out} (hq : op.isQuery = true)
    (h : step s op = .ok (s', out)) : s' = s := query_state hq h

/-! ### the part is exactly the collection of the objects registered on it -/

/-- effect of `add` on the registration records: the supplied sides are set, nothing else changes;
the new time points are exactly the supplied times -/
theorem add_effect {s : Part} {o : ObjRef} {st en : Option Int} (hI : Inv s)
    (hv : Valid s (.add o st en)) (hn : (Op.add o st en).negTime = false) :
    ∃ s', step s (.add o st en) = .ok (s', .unit) ∧ Inv s' ∧ s'.qtab = s.qtab
      ∧ (getObj s'.objs o).start = (if st.isSome then st else (getObj s.objs o).start)
      ∧ (getObj s'.objs o).stop = (if en.isSome then en else (getObj s.objs o).stop)
      ∧ (∀ o', o' ≠ o → getObj s'.objs o' = getObj s.objs o')
      ∧ (∀ x, x ∈ s'.times ↔ x ∈ s.times ∨ some x = st ∨ some x = en) := by
  obtain ⟨s', h1, h2, h3, -, h5, h6, h7, h8⟩ := add_spec ((good_iff_inv s).mpr hI) hv hn
  exact ⟨s', h1, (good_iff_inv s').mp h2, h3, h5, h6, h7, h8⟩

/-- effect of `remove`: the requested sides are cleared, nothing else changes -/
theorem remove_effect {s : Part} (hI : Inv s) (o : ObjRef) (w : Which) :
    ∃ s', step s (.remove o w) = .ok (s', .unit) ∧ Inv s' ∧ s'.qtab = s.qtab
      ∧ (getObj s'.objs o).start = (if w = .start ∨ w = .both then none else (getObj s.objs o).start)
      ∧ (getObj s'.objs o).stop = (if w = .stop ∨ w = .both then none else (getObj s.objs o).stop)
      ∧ (∀ o', o' ≠ o → getObj s'.objs o' = getObj s.objs o') := by
  obtain ⟨s', h1, h2, h3, h4, h5, h6⟩ := remove_spec ((good_iff_inv s).mpr hI) o w
  exact ⟨s', h1, (good_iff_inv s').mp h2, h3, h4, h5, h6⟩

/-- `get_or_add_point(t)` returns the point at `t`, creating it if necessary; registrations and the quarter
table are untouched, and `t` is the only time that may have been added -/
theorem getOrAdd_effect {s : Part} (hI : Inv s) {t : Int} (ht : 0 ≤ t) :
    ∃ s', step s (.getOrAdd t) = .ok (s', .point (some t)) ∧ Inv s' ∧ s'.qtab = s.qtab ∧ s'.objs = s.objs
      ∧ t ∈ s'.times ∧ (∀ x, x ∈ s'.times ↔ x ∈ s.times ∨ x = t) := by
  obtain ⟨s', h1, h2, h3, h4, h5, h6⟩ := getOrAdd_spec ((good_iff_inv s).mpr hI) ht
  exact ⟨s', h1, (good_iff_inv s').mp h2, h3, h4, h5, h6⟩

/-- the time points are exactly the start/end times of the registered objects plus the requested points
(with `Inv.sorted` the point list is that set in increasing order, without repetition) -/
theorem points_are_spec {s : Part} (hI : Inv s) (x : Int) :
    x ∈ s.times ↔ (∃ e ∈ s.objs, e.start = some x ∨ e.stop = some x) ∨ x ∈ s.requested := times_spec hI x

/-- an object is listed by a point exactly when its back reference is that point's time -/
theorem listed_iff_backref {s : Part} (hI : Inv s) (sd : Side) (o : ObjRef) {p : Point} (hp : p ∈ s.points) :
    o ∈ p.reg sd ↔ (getObj s.objs o).at sd = some p.t :=
  ((good_iff_inv s).mpr hI).1.getObj_listed sd o hp

/-! ### set_quarter_duration -/

/-- the new value is in force from `t` up to the next later change, and nothing else changes:
other times keep their duration, every point carries the duration now in force (part of `Inv`), and
points, links, registries and object references are untouched -/
theorem setQD_law {s : Part} (hI : Inv s) {t : Int} (ht : 0 ≤ t) (q : Nat) :
    (∀ x, 0 ≤ x → ∀ v, qdAt s.qtab x = some v →
        qdAt (setQD s t q).qtab x = some (if t ≤ x ∧ ltOpt x (nextChange s.qtab t) then q else v))
    ∧ (setQD s t q).objs = s.objs ∧ (setQD s t q).requested = s.requested
    ∧ (setQD s t q).points.map (fun p => (p.t, p.prev, p.next, p.starting, p.ending))
        = s.points.map (fun p => (p.t, p.prev, p.next, p.starting, p.ending))
    ∧ Inv (setQD s t q) := by
  have hg := (good_iff_inv s).mpr hI
  have r := setQD_result hg.1.toQCore ht q
  exact ⟨r.law, r.objs, r.requested, r.same, (good_iff_inv _).mp (setQD_good hg ht q)⟩

/-- `quarter_durations(a, b)` returns the stored changes with `a ≤ time < b`, in table order -/
theorem quarterDurations_correct (s : Part) (a b : Option Int) (e : Int × Nat) :
    e ∈ quarterDurations s a b ↔ e ∈ s.qtab ∧ (∀ x, a = some x → x ≤ e.1) ∧ (∀ y, b = some y → e.1 < y) := by
  unfold quarterDurations
  cases a <;> cases b <;> simp [List.mem_filter] <;> intro _ <;> exact And.comm

/-! ### queries return precisely the matching registered objects in time order -/

/-- `iter_all(cls, start=a, end=b, include_subclasses, mode)`: duplicate-free, exactly the objects registered
on the side selected by `mode` whose time lies in `[a, b)` and whose class matches, in time order -/
theorem iterAll_correct {s : Part} (hI : Inv s) (cls : Option Nat) (a b : Option Int) (incl : Bool) (mode : Mode)
    (hk : ∀ e ∈ s.objs, e.ref.cls < Gen.numClasses) (hc : ∀ c, cls = some c → c < Gen.numClasses) :
    (iterAll s cls a b incl mode).Nodup
    ∧ (∀ o, o ∈ iterAll s cls a b incl mode ↔
        ∃ τ, (getObj s.objs o).at mode.side = some τ ∧ inRange a b τ ∧ ClassSpec cls (inclEff cls incl) o.cls)
    ∧ (iterAll s cls a b incl mode).Pairwise (fun o1 o2 => ∀ t1 t2,
        (getObj s.objs o1).at mode.side = some t1 → (getObj s.objs o2).at mode.side = some t2 → t1 ≤ t2) :=
  iterAll_spec hI cls a b incl mode hk hc

/-- `get_point(t).iter_prev(cls, eq, include_subclasses)`: the matching objects starting before `t`
(at `t` too with `eq`), latest first; `noPoint` iff the timeline has no point at `t` -/
theorem iterPrev_correct {s : Part} (hI : Inv s) {t : Int} (ht : 0 ≤ t) (cls : Option Nat) (eq incl : Bool)
    (hk : ∀ e ∈ s.objs, e.ref.cls < Gen.numClasses) (hc : ∀ c, cls = some c → c < Gen.numClasses) :
    ∃ out, step s (.iterPrev t cls eq incl) = .ok (s, out) ∧
      (t ∉ s.times → out = .noPoint) ∧
      (t ∈ s.times → ∃ l, out = .objs l ∧ l.Nodup
        ∧ (∀ o, o ∈ l ↔ ∃ τ, (getObj s.objs o).start = some τ ∧ (τ < t ∨ (eq = true ∧ τ = t))
            ∧ ClassSpec cls incl o.cls)
        ∧ l.Pairwise (fun o1 o2 => ∀ t1 t2, (getObj s.objs o1).start = some t1 →
            (getObj s.objs o2).start = some t2 → t2 ≤ t1)) := by
  have hg := (good_iff_inv s).mpr hI
  refine ⟨_, by simp only [step, iterPrev_spec hg ht, Except.map]; rfl, ?_, ?_⟩
  · intro h; simp [h]
  · intro h
    simp only [h, if_true]
    exact ⟨_, rfl, iterPrev_objs_spec hI t cls eq incl hk hc⟩

theorem iterNext_correct {s : Part} (hI : Inv s) {t : Int} (ht : 0 ≤ t) (cls : Option Nat) (eq incl : Bool)
    (hk : ∀ e ∈ s.objs, e.ref.cls < Gen.numClasses) (hc : ∀ c, cls = some c → c < Gen.numClasses) :
    ∃ out, step s (.iterNext t cls eq incl) = .ok (s, out) ∧
      (t ∉ s.times → out = .noPoint) ∧
      (t ∈ s.times → ∃ l, out = .objs l ∧ l.Nodup
        ∧ (∀ o, o ∈ l ↔ ∃ τ, (getObj s.objs o).start = some τ ∧ (t < τ ∨ (eq = true ∧ τ = t))
            ∧ ClassSpec cls incl o.cls)
        ∧ l.Pairwise (fun o1 o2 => ∀ t1 t2, (getObj s.objs o1).start = some t1 →
            (getObj s.objs o2).start = some t2 → t1 ≤ t2)) := by
  have hg := (good_iff_inv s).mpr hI
  refine ⟨_, by simp only [step, iterNext_spec hg ht, Except.map]; rfl, ?_, ?_⟩
  · intro h; simp [h]
  · intro h
    simp only [h, if_true]
    exact ⟨_, rfl, iterNext_objs_spec hI t cls eq incl hk hc⟩

/-- `first_point` / `last_point` are the minimum / maximum of the time points (None iff there are none) -/
theorem first_last_correct {s : Part} (hI : Inv s) :
    step s .first = .ok (s, .point s.times.head?) ∧ step s .last = .ok (s, .point s.times.getLast?)
    ∧ (∀ h ∈ s.times.head?, ∀ x ∈ s.times, h ≤ x) ∧ (∀ h ∈ s.times.getLast?, ∀ x ∈ s.times, x ≤ h)
    ∧ (s.times.head? = none ↔ s.times = []) ∧ (s.times.getLast? = none ↔ s.times = []) := by
  refine ⟨by simp [step, Part.times], by simp [step, Part.times], head_min hI.sorted, getLast_max hI.sorted,
    by simp, by simp⟩

/-- `get_point(t)` finds the point with time `t` iff there is one -/
theorem getPoint_correct {s : Part} (hI : Inv s) {t : Int} (ht : 0 ≤ t) :
    step s (.getPoint t) = .ok (s, .point (if t ∈ s.times then some t else none)) := by
  have hneg : ¬ t < 0 := by omega
  simp only [step, hneg, if_false]
  by_cases hm : t ∈ s.times
  · obtain ⟨l, p, r, hsplit, hpt, -, -⟩ := split_at_time hI.sorted hm
    have hs := hI.sorted
    rw [Part.times, hsplit] at hs
    subst hpt
    rw [hsplit, getPoint_of_split hs]
    simp [hm]
  · rw [getPoint_none_of_not_mem hm]
    simp [hm]

/-! ### the class hierarchy regenerated from the live classes (whole-table kernel evaluation) -/

/-- the modelled depth-first `iter_subclasses` yields, for every timed class, the very sequence the
implementation yields; that sequence is duplicate-free, never contains the class itself, and consists of
exactly the strict descendants according to the (independently generated) MRO table -/
theorem classes_dfs :
    (∀ c ∈ List.range Gen.numClasses, iterSubclasses c = Gen.iterSubclassesTab.getD c [])
    ∧ (∀ c ∈ List.range Gen.numClasses, (iterSubclasses c).Nodup ∧ c ∉ iterSubclasses c)
    ∧ (∀ c ∈ List.range Gen.numClasses, ∀ d ∈ List.range Gen.numClasses,
        (d ∈ iterSubclasses c ↔ (d ≠ c ∧ isSubclass d c = true))) :=
  ⟨iterSubclasses_eq_tab, iterSubclasses_nodup_tab, iterSubclasses_desc_tab⟩

/-- `iter_all(cls=None)` walks every timed class exactly once -/
theorem classes_object :
    Gen.objectSubclasses.Nodup ∧ ∀ k ∈ List.range Gen.numClasses, k ∈ Gen.objectSubclasses :=
  objectSubclasses_tab

/-! ### non-vacuity: the hypotheses above are satisfiable by non-trivial values -/

section Examples

/-- a Note (class 2), a GraceNote (3) and a DynamicLoudnessDirection (38) -/
def nA : ObjRef := { id := 0, cls := 2 }
def nB : ObjRef := { id := 1, cls := 3 }
def dC : ObjRef := { id := 2, cls := 38 }
def rD : ObjRef := { id := 3, cls := 5 }

deriving instance DecidableEq for Except

/-- 14 operations: adds by start/end/both with equal start and end, a re-set quarter duration at an existing
change, removal at the first and at the last point, a requested empty point, a rejected negative time -/
def history : List Op :=
  [.add nA (some 0) (some 4), .add nB (some 4) (some 4), .add dC (some 2) none, .setQD 4 2, .setQD 4 1,
   .add dC none (some 9), .getOrAdd 7, .add rD (some 3) (some (-1)), .remove nA .both, .remove dC .stop,
   .iterAll (some 1) none (some 5) true .starting, .remove nB .start, .setQD 0 3, .iterPrev 4 (some 0) true true]

example : ValidHistory (Part.init 1) history := by decide +kernel
example : Inv (run (Part.init 1) history) := (invB_iff _).mp (by decide +kernel)
/-- the final state is not trivial: three points, one of them empty-but-requested, a three-entry table -/
example : (run (Part.init 1) history).points.map (fun p => (p.t, p.quarter, p.prev, p.next))
    = [(2, 3, none, some 4), (4, 1, some 2, some 7), (7, 1, some 4, none)]
    ∧ (run (Part.init 1) history).qtab = [(0, 3), (4, 1)] := by decide +kernel

/-- `step_total` / `inv_step`: a valid non-negative operation on a reachable non-empty state -/
example : Valid (run (Part.init 1) history) (.add nA (some 7) (some 2))
    ∧ (Op.add nA (some 7) (some 2)).negTime = false := by decide +kernel
/-- `step_rejects`: a negative end with a valid start -/
example : (Op.add rD (some 3) (some (-1))).negTime = true := by decide
/-- the witness of F-C01-4 on the repaired model: rejected and nothing registered -/
example : step (Part.init 1) (.add rD (some 3) (some (-1))) = .error .invalidTimePoint := by decide +kernel
/-- the witnesses of F-C01-1/2 on the repaired model: removing the last / the first point relinks correctly -/
example : (run (Part.init 1) [.add nA (some 0) (some 1), .add nB (some 5) (some 9), .remove nB .stop]).points.map
    (fun p => (p.t, p.prev, p.next)) = [(0, none, some 1), (1, some 0, some 5), (5, some 1, none)] := by
  decide +kernel
example : (run (Part.init 1) [.add nA (some 0) none, .add nB (some 5) (some 9), .remove nA .both]).points.map
    (fun p => (p.t, p.prev, p.next)) = [(5, none, some 9), (9, some 5, none)] := by
  decide +kernel
/-- the witness of F-C01-3 on the repaired model: the entry stored at 10 is replaced -/
example : (run (Part.init 1) [.setQD 10 2, .setQD 10 1]).qtab = [(0, 1), (10, 1)]
    ∧ qdAt (run (Part.init 1) [.setQD 10 2, .setQD 10 1]).qtab 12 = some 1 := by decide +kernel
/-- `setQD_law`: both branches of the law occur (`nextChange` is `some 4` here) -/
example : nextChange (run (Part.init 1) history).qtab 2 = some 4 ∧ ltOpt 3 (some 4) ∧ ¬ ltOpt 4 (some 4) := by
  decide +kernel
/-- `iterAll_correct`: class bounds hold and the query is not empty -/
example : (∀ e ∈ (run (Part.init 1) history).objs, e.ref.cls < Gen.numClasses)
    ∧ iterAll (run (Part.init 1) history) (some 0) none none true .starting = [dC] := by decide +kernel
/-- `iterPrev_correct`: a point exists at 4 and the walk finds the direction that started at 2 -/
example : step (run (Part.init 1) history) (.iterPrev 4 (some 0) true true)
    = .ok (run (Part.init 1) history, .objs [dC]) := by decide +kernel

end Examples

end C01
