/-
C01 — a part is a consistent time-ordered collection under any edit history.
Property theorems over Model/Timeline.lean and the regenerated class DAG.
-/
import PartituraModel.Model.Timeline

namespace C01
open TL

/-- the generated DFS table is what the modelled `iter_subclasses` computes from `__subclasses__()` -/
theorem classes_dfs_table :
    ∀ c ∈ List.range Gen.numClasses, iterSubclasses c = Gen.iterSubclassesTab.getD c [] := by
  decide +kernel

end C01
