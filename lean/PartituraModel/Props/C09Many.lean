/-
C09, round 3: parts with MANY segments — the segment ids as strings.

The model (`Model/Unfold.lean`) numbers the segments and orders jump destinations by number; the code names
segment `i` `chr(65 + i)` and orders the id STRINGS (`destinations_no_volta.sort()`, `d > own_id`,
`idx <= seg.id`, the sort of `"<n>_Volta_<ID>"`), and recognises the kinds of raw destinations by substring.
These theorems say that for the ids `chr(65 + i)` — for EVERY `i`, beyond `'Z'` the ids are `'['`, `'\\'`, …,
`'a'`, … — all of these string operations are the numeric operations of the model, so that the theorems of
`Props/C09.lean` / `Props/C09Ext.lean` (all of them quantified over any number of segments) speak about what the
code does with 27, 60 or 200 segments as well; and that with ids counted like spreadsheet columns
(A … Z, AA, AB, …) they are not.  `Model/UnfoldIds.lean` holds the executable string layer (`pyLt`, `segId`,
`rawStr`, `cleanToStr`); the driver request `ids` compares `segId` with the ids the real `add_segments` hands out.
-/
import PartituraModel.Props.C09Ext
import PartituraModel.Proofs.C09IdStr
import PartituraModel.Proofs.C09Labels

namespace C09
open Model.Unfold

/-! ## the order of the id strings is the order in time -/

/-- Python's `<` on the ids of two segments is `<` on their numbers (their order in time), for segments
numbered however high: `'Z' < '['`, `'~' < chr(127)`, … (one character each, compared by code point). -/
theorem id_order_is_time_order (i j : Nat) : pyLt (segId i) (segId j) = true ↔ i < j :=
  segId_lt_iff i j

/-- … `<=` likewise, ids of different segments differ, and none is `"END"`. -/
theorem ids_distinct (i j : Nat) :
    (pyLe (segId i) (segId j) = true ↔ i ≤ j) ∧ (segId i = segId j → i = j) ∧ segId i ≠ endId :=
  ⟨segId_le_iff i j, segId_injective i j, segId_ne_end i⟩

/-- `"END" <= id` holds exactly from the sixth segment (`'F'`) on — for ALL later segments, not only up to `'Z'`:
this is the `5 ≤ i` of `Dest.lePast`. -/
theorem end_is_past_from_F (i : Nat) : pyLe endId (segId i) = true ↔ 5 ≤ i :=
  end_le_segId_iff i

-- non-vacuity / the boundary of the alphabet: segments 25, 26, 27 are 'Z', '[', '\\'
example : segId 25 = [90] ∧ segId 26 = [91] ∧ pyLt (segId 25) (segId 26) = true ∧ pyLt (segId 26) (segId 27) = true ∧
    pyLe endId (segId 4) = false ∧ pyLe endId (segId 5) = true ∧ pyLe endId (segId 40) = true := by decide

/-- The three comparisons the model makes on segment numbers are the comparisons the code makes on id strings:
`idx <= seg.id` in `Path.make_copy_with_jump_to` (END included), `d > own_id` and `d <= own_id` in the cleanup
of a segment that ends with a da capo / dal segno. -/
theorem model_comparisons_are_string_comparisons (d : Dest) (own j : Nat) :
    d.lePast own = pyLe d.str (segId own) ∧
    (Dest.seg j).ahead own = pyLt (segId own) (segId j) ∧
    (!(Dest.seg j).ahead own) = pyLe (segId j) (segId own) :=
  ⟨lePast_eq d own, ahead_eq own j, not_ahead_eq own j⟩

/-- `list(set(destinations_no_volta))` followed by `.sort()`: the model keeps the numbers in a strictly
increasing list (`insSorted`); the ids of that list are strictly increasing as Python strings and are the ids of
exactly the numbers put in — i.e. it is the sorted list of the distinct ids. -/
theorem plain_destinations_sorted_as_strings (l : List Nat) :
    ((l.foldl (fun acc j => insSorted j acc) []).map segId).Pairwise (fun a b => pyLt a b = true) ∧
    ∀ j, j ∈ l.foldl (fun acc j => insSorted j acc) [] ↔ j ∈ l := by
  refine ⟨sorted_ids _ (foldl_insSorted_pairwise l [] List.Pairwise.nil), ?_⟩
  have key : ∀ (l acc : List Nat) (j : Nat), j ∈ l.foldl (fun acc j => insSorted j acc) acc ↔ j ∈ l ∨ j ∈ acc := by
    intro l
    induction l with
    | nil => intro acc j; simp
    | cons a as ih =>
      intro acc j
      simp only [List.foldl_cons, ih, mem_insSorted, List.mem_cons]
      constructor
      · rintro (h | h | h) <;> simp [h]
      · rintro ((h | h) | h) <;> simp [h]
  intro j
  simpa using key l [] j

example : (([30, 2, 26, 2].foldl (fun acc j => insSorted j acc) []).map segId) = [[67], [91], [95]] := by decide

/-- `destinations_volta.sort()` sorts the strings `"<n>_Volta_<ID>"` (`n` a decimal digit, or `Z` for the jump
back to the start of the repeat — label 10 in the model): `<=` on these strings is `voltaLe` on
(label, segment number), and cutting eight characters off gives the id back. -/
theorem volta_keys_sorted_as_strings (a b : Nat × Nat) (ha : a.1 ≤ 10) (hb : b.1 ≤ 10) :
    pyLe (rawStr (.volta a.1) (.seg a.2)) (rawStr (.volta b.1) (.seg b.2)) = voltaLe a b ∧
    (rawStr (.volta a.1) (.seg a.2)).drop 8 = segId a.2 :=
  ⟨volta_key_le a b ha hb, volta_key_cut a.1 (.seg a.2)⟩

-- "2_Volta_[" ≤ "2_Volta_\\" ≤ "Z_Volta_A":  the number first, then the id, beyond 'Z' as well
example : pyLe (rawStr (.volta 2) (.seg 26)) (rawStr (.volta 2) (.seg 27)) = true ∧
    pyLe (rawStr (.volta 2) (.seg 27)) (rawStr (.volta 10) (.seg 0)) = true ∧
    pyLe (rawStr (.volta 3) (.seg 0)) (rawStr (.volta 2) (.seg 40)) = false := by decide

/-- The code sorts the raw destinations of a segment into four lists by substring tests (`"Volta_" in d`,
`"Navigation" in d`, `"Navigation1_" in d`, `"Navigation2_" in d`).  For the strings the code builds —
an id, `"<n>_Volta_" + id`, `"Navigation1_" + id`, `"Navigation2_" + id`, the id being `chr(65+i)` for any `i`
or `"END"` — each string passes exactly the test of its own kind (no id, however far beyond `'Z'`, can complete
one of the marker words), and the cuts `d[8:]`, `d[12:]` give the id back. -/
theorem raw_strings_classified (d : Dest) (lb : Nat) :
    (pyContains voltaSub (rawStr .plain d) = false ∧ pyContains navSub (rawStr .plain d) = false) ∧
    (pyContains voltaSub (rawStr (.volta lb) d) = true ∧ pyContains navSub (rawStr (.volta lb) d) = false) ∧
    (pyContains voltaSub (rawStr .nav1 d) = false ∧ pyContains (navMark 1) (rawStr .nav1 d) = true ∧
      pyContains (navMark 2) (rawStr .nav1 d) = false) ∧
    (pyContains voltaSub (rawStr .nav2 d) = false ∧ pyContains (navMark 2) (rawStr .nav2 d) = true ∧
      pyContains (navMark 1) (rawStr .nav2 d) = false) ∧
    ((rawStr (.volta lb) d).drop 8 = d.str ∧ (rawStr .nav1 d).drop 12 = d.str ∧ (rawStr .nav2 d).drop 12 = d.str) :=
  ⟨class_plain d, class_volta lb d, class_nav1 d, class_nav2 d, volta_key_cut lb d, nav_key_cut 1 d, nav_key_cut 2 d⟩

/-! ## the whole cleanup on strings -/

/-- The "clean up and ORDER" block of `_make_segments`, executed on the raw destination STRINGS exactly as the code
does (`cleanToStr`: four lists selected by substring, END moved to the back, `list(set(..)).sort()` and the sort of
the `"<n>_Volta_<ID>"` strings with Python's string order, `d[8:]`, `d[12:]`, the split at `own_id`), returns the
id strings of what the model's `cleanTo` returns on (tag, segment NUMBER) pairs — for the segment with any number
`own`, raw destinations to segments with any numbers.  (`VoltaOK`: a volta label is a digit or `Z` and never points
to END — what `labels_ok` proves of every list the boundary pass builds.) -/
theorem cleanup_is_string_cleanup (own : Nat) (raw : List (Tag × Dest)) (h : VoltaOK raw) :
    (cleanTo own raw).map (fun r => (r.1.map Dest.str, r.2.map Dest.str)) =
      some (cleanToStr (segId own) (raw.map rawOf)) :=
  cleanTo_refines own raw h

/-- Table level, no side condition: for every layout on which the model's `add_segments` succeeds, the variant that
does all of the cleanup on id strings (`mkSegmentsStr`, driver request `segstr`, compared with the real
`Segment.to` / `Segment.await_to` on every generated part) yields the id strings of the model's table.  So the
numeric order used throughout `Model/Unfold.lean` is not an idealisation of the code's string order: with ids
`chr(65+i)` they are the same function, for any number of segments. -/
theorem segment_table_is_string_algorithm (L : Layout) (g : List Seg) (h : mkSegments L = some g) :
    mkSegmentsStr L = some (g.map fun s => (s.to.map Dest.str, s.await.map Dest.str)) :=
  mkSegments_str L g h

-- non-vacuity: |: A [1. B :| [2,3. C | D, D.C. — strings "1_Volta_B", "2_Volta_C", "3_Volta_C", "Z_Volta_A", …
example :
    mkSegmentsStr { first := 0, last := 16, repeats := [(0, 8)], endings := [(4, 8, [1]), (8, 12, [2, 3])], dacapos := [16] } =
      some [([[66], [67], [67]], []), ([[65]], []), ([[65], [68]], []), ([[65], [69, 78, 68]], [[69, 78, 68]])] ∧
    (mkSegments { first := 0, last := 16, repeats := [(0, 8)], endings := [(4, 8, [1]), (8, 12, [2, 3])], dacapos := [16] }).isSome := by
  decide

/-- Why the single character matters.  Ids counted like spreadsheet columns (A … Z, AA, AB, …: `alphaId`) agree
with `chr(65+i)` on the first 26 segments but are NOT ordered by time: the 27th id `"AA"` is smaller than the
26th `"Z"` (and than `"B"`), and `"END"` is not `<=` it although `"END" <= "Z"`.  Every place that orders
destinations by id string then misorders a part with more than 26 segments. -/
theorem spreadsheet_ids_break_order :
    (∀ i, i < 26 → alphaId 4 i = segId i) ∧
    alphaId 4 25 = [90] ∧ alphaId 4 26 = [65, 65] ∧
    pyLt (alphaId 4 26) (alphaId 4 25) = true ∧ pyLt (alphaId 4 26) (alphaId 4 1) = true ∧
    pyLe endId (alphaId 4 25) = true ∧ pyLe endId (alphaId 4 26) = false ∧
    ¬ (∀ i j, i < j → pyLt (alphaId 4 i) (alphaId 4 j) = true) := by
  refine ⟨fun i h => alphaId_small i h 3, by decide, by decide, by decide, by decide, by decide, by decide, ?_⟩
  intro h
  have := h 25 26 (by decide)
  revert this
  decide

/-! ## many segments: the numeric theorems apply unchanged -/

-- 30 consecutive repeated sections [0,4) [4,8) … [116,120): the segment table of the code is the chain table, the
-- maximal unfolding plays 0,0,1,1,…,29,29, the minimal one 0,1,…,29, and there are 2^30 variants
example :
    let rest : List Int := (List.range 30).map fun (k : Nat) => (4 * (k + 1) : Int)
    let flags := List.replicate 30 true
    ((mkSegments (chainLayout 0 rest flags)).bind fun g => getPaths g false true true 100) = some [maxPath 0 flags] ∧
    ((mkSegments (chainLayout 0 rest flags)).bind fun g => getPaths g true false true 100) = some [minPath 0 flags] ∧
    (allPaths 0 flags).length = 2 ^ 30 := by
  intro rest flags
  have hs : StrictSorted (0 :: rest) := by
    simp [rest, List.range, List.range.loop, StrictSorted]
  have hadj : NoAdjFalse flags := by
    intro j h
    have h' : (List.replicate 30 true)[j]? = some false := h
    rw [List.getElem?_replicate] at h'
    split at h' <;> simp at h'
  have h := simple_repeats_unfold 0 rest flags hs (by simp [rest, flags]) (by simp [flags]) hadj true 100 (by simp [flags])
  refine ⟨h.2.2.1, h.2.2.2, ?_⟩
  have := h.2.1
  simpa [flags] using this

end C09
