/-
C13, round 6 — the decoder with `time_div` a `numpy.float32` (Model/PianoRollDecode32.lean): the quotient
`float(on) / time_div` is formed in binary32.

* `dec32_notes`  : the same notes (pitch, velocity, in the same order) as with any other non-zero `time_div`;
* `quot32_spec`  : for frame numbers below `2^24` the stored time is the quotient rounded ONCE to binary32, hence within
                   `2^-24` of its size (the binary64 route of `storeF32` rounds twice: `stored_close`, `2^-23`);
* `quot32_exact` : on a power-of-two grid it is the exact quotient — the same value the binary64 route stores.
-/
import PartituraModel.Props.C13Float
import PartituraModel.Model.PianoRollDecode32

namespace C13
open Model Model.PianoRoll C13Float
open List

/-- **the same notes**: pitches and velocities (and their order) do not depend on the kind of `time_div` -/
theorem dec32_notes (rows : Nat) (cols : List (List Int)) (td : Rat) (htd : td ≠ 0) :
    (decodeStored32 rows cols td).map (fun l => l.map fun x => (x.1, x.2.2.2)) =
      (decodeStored rows cols (some td)).map (fun l => l.map fun x => (x.1, x.2.2.2)) := by
  unfold decodeStored32 decodeStored decodeKw decode
  simp only [Option.getD_some]
  cases Model.lookup rows Gen.C13_DEC_SHAPES with
  | none => rfl
  | some init =>
    simp only [htd, false_and, if_false, Option.map_some, map_map]
    rfl

/-- a frame number below `2^24` is a binary32 number -/
theorem f32_nat (x : Nat) (hx : x < 2 ^ 24) : f32? (x : ℚ) = some (x : ℚ) := by
  have h := roundBin_exact 24 (-149) (x : Int) 0 (by simpa using hx) (by norm_num)
  have hp : pow2 0 = 1 := by rw [pow2_eq]; simp
  rw [hp, mul_one] at h
  unfold f32?
  simp only
  have hx' : ((x : Int) : ℚ) = (x : ℚ) := by simp
  rw [hx'] at h
  rw [h]
  have h0 : (0 : ℚ) ≤ (x : ℚ) := by positivity
  rw [if_neg (not_lt.mpr h0)]
  have hlt : (x : ℚ) < pow2 128 := by
    rw [pow2_eq]
    have : (x : ℚ) < (2 : ℚ) ^ (24 : Nat) := by exact_mod_cast hx
    calc (x : ℚ) < (2 : ℚ) ^ (24 : Nat) := this
      _ ≤ (2 : ℚ) ^ (128 : Int) := by
        rw [← zpow_natCast]
        exact zpow_le_zpow_right₀ (by norm_num) (by norm_num)
  rw [if_neg (not_le.mpr hlt)]

/-- **one rounding**: for a frame number `x < 2^24` a finite stored time is the quotient `x / td` rounded once to
    binary32 — within `|x / td| * 2^-24` of it in the normal range -/
theorem quot32_spec (x : Nat) (td y : Rat) (hx : x < 2 ^ 24) (h : quot32 x td = some y) :
    y = roundBin 24 (-149) ((x : ℚ) / td) ∧
    ((2 : ℚ) ^ (-126 : Int) ≤ |(x : ℚ) / td| → |y - (x : ℚ) / td| ≤ |(x : ℚ) / td| * (2 : ℚ) ^ (-24 : Int)) := by
  unfold quot32 at h
  rw [f32_nat x hx] at h
  simp only [Option.bind_some] at h
  have hy : y = roundBin 24 (-149) ((x : ℚ) / td) := by
    unfold f32? at h
    simp only at h
    by_cases hc : pow2 128 ≤ (if roundBin 24 (-149) ((x : ℚ) / td) < 0 then -roundBin 24 (-149) ((x : ℚ) / td)
        else roundBin 24 (-149) ((x : ℚ) / td))
    · rw [if_pos hc] at h; exact absurd h (by simp)
    · rw [if_neg hc] at h; exact (Option.some.inj h).symm
  refine ⟨hy, ?_⟩
  intro hn
  rw [hy]
  have he : ((-149 : Int) + ((24 : Nat) : Int) - 1) = -126 := by norm_num
  have h24 : (-(((24 : Nat)) : Int)) = (-24 : Int) := by norm_num
  have := (round_spec 24 (-149) ((x : ℚ) / td)).2.2.2.1 (by rw [he]; exact hn)
  rwa [h24] at this

/-- **exact on power-of-two grids**: when the quotient is `m * 2^k` with `|m| < 2^24`, `k ≥ -149`, a finite stored time
    is the quotient itself (the value the binary64 route stores too: `stored_exact`) -/
theorem quot32_exact (x : Nat) (td y : Rat) (hx : x < 2 ^ 24) (h : quot32 x td = some y)
    (m k : Int) (hq : (x : ℚ) / td = (m : ℚ) * (2 : ℚ) ^ k) (hm : m.natAbs < 2 ^ 24) (hk : -149 ≤ k) :
    y = (x : ℚ) / td := by
  rw [(quot32_spec x td y hx h).1]
  exact (round_spec 24 (-149) ((x : ℚ) / td)).2.2.2.2 m k hq hm hk

/-- frame 7 at `time_div = float32(0.1)` (= 13421773 / 2^27): 70.0 in binary32; the binary64 route forms 69.99999895…
    and stores the same binary32 number — the two routes can differ only where the binary64 quotient falls within `2^-53`
    (relative) of a midpoint between two binary32 numbers (double rounding); 1 / 3 in binary32; an exact quotient -/
example : quot32 7 (13421773 / 134217728) = some 70 ∧ storeF32 (7 / (13421773 / 134217728)) = some 70 ∧
    quot32 1 3 = some (11184811 / 33554432) ∧ quot32 3 (1/2) = some 6 := by decide +kernel

end C13
