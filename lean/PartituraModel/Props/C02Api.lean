/-
C02 (round 6) — the edges of the API around the maps (`Model/TimeMapApi.lean`): rejected table arguments of the
musical-beat switches, `Part(id)` without a quarter duration, a first measure without an end.

Every state reached through these calls is a state reached through the calls of round 2 (`HOp`):
* a rejected `set_musical_beat_per_ts` changes nothing; a rejected `use_musical_beat` leaves the part exactly where
  `use_musical_beat({})` would (musical mode ON, no musical beats touched) and is silently ignored — no exception —
  when the part already is in musical mode (`rejected_setMB`, `rejected_useMusical`);
* an end-less measure contributes its start to the timeline like a zero-length span; when it is the first measure
  starting at the first time point it hides every other measure starting there: the part is the part of the same
  history with the measures demoted to spans (`xbuild_is_build`), so NO pickup shift is applied
  (`open_first_measure_zero`);
* hence the statement for the maps as written holds for every part reachable through the extended API
  (`api_parts_property`).
-/
import PartituraModel.Props.C02Written
import PartituraModel.Model.TimeMapApi

namespace C02
open Model.TimeMap C02Proofs

/-! ### rejected table arguments -/

/-- **`set_musical_beat_per_ts(<not a dict>)` raises and changes nothing** -/
theorem rejected_setMB (s : BeatState) : stepB s .setMBBad = s ∧ raisesB s .setMBBad = true := ⟨rfl, rfl⟩

/-- **`use_musical_beat(<not a dict>)`**: already in musical mode — a warning, no exception, nothing changes; in
notated mode — `TypeError`, but only after the switch was flipped: the state is that of `use_musical_beat({})`
(musical mode on, the musical beats of the signatures untouched) -/
theorem rejected_useMusical (s : BeatState) :
    (s.musical = true → stepB s .useMusicalBad = s ∧ raisesB s .useMusicalBad = false) ∧
    (s.musical = false → stepB s .useMusicalBad = ⟨true, s.ts⟩ ∧ raisesB s .useMusicalBad = true) ∧
    stepB s .useMusicalBad = step s (.useMusical []) := by
  refine ⟨?_, ?_, ?_⟩
  · intro h; simp [stepB, raisesB, h]
  · intro h; simp [stepB, raisesB, h]
  · cases h : s.musical <;> simp [stepB, step, h]

/-- a call of the extended API as calls of round 2 -/
def lowerB : BOp → List Op
  | .ok op => [op]
  | .setMBBad => []
  | .useMusicalBad => [.useMusical []]

theorem stepB_lower (s : BeatState) (b : BOp) : stepB s b = (lowerB b).foldl step s := by
  cases b with
  | ok op => rfl
  | setMBBad => rfl
  | useMusicalBad => exact (rejected_useMusical s).2.2

/-- no rejected call ever changes the musical beats stored on a signature -/
theorem rejected_keeps_signatures (s : BeatState) (b : BOp) (hb : raisesB s b = true) : (stepB s b).ts = s.ts := by
  cases b with
  | ok op => simp [raisesB] at hb
  | setMBBad => rfl
  | useMusicalBad =>
    simp only [stepB]
    split <;> rfl

/-- a rejected `use_musical_beat` makes the accepted one that follows a no-op: the user's table is never applied -/
example : (runOpsB ⟨false, []⟩ [.ok (.addTS 0 6 8), .useMusicalBad, .ok (.useMusical [((6, 8), 3)]), .setMBBad, .useMusicalBad]).1.musical = true ∧
    (runOpsB ⟨false, []⟩ [.ok (.addTS 0 6 8), .useMusicalBad, .ok (.useMusical [((6, 8), 3)]), .setMBBad, .useMusicalBad]).1.ts = [⟨0, 6, 8, 2⟩] ∧
    (runOpsB ⟨false, []⟩ [.ok (.addTS 0 6 8), .useMusicalBad, .ok (.useMusical [((6, 8), 3)]), .setMBBad, .useMusicalBad]).2 =
      [false, true, false, true, false] := by decide +kernel

/-! ### histories of the extended API are histories of round 2 -/

def lower : XOp → List HOp
  | .h op => [op]
  | .setMBBad => (lowerB .setMBBad).map HOp.beat
  | .useMusicalBad => (lowerB .useMusicalBad).map HOp.beat
  | .measureOpen s => [.span s s]

def lowerAll (xs : List XOp) : List HOp := xs.flatMap lower

/-- a measure seen as a span: same time points, no measure -/
def demoteOp : HOp → HOp
  | .measure a e => .span a e
  | op => op

def ValidX : XOp → Prop
  | .h op => ValidOp op
  | .setMBBad => True
  | .useMusicalBad => True
  | .measureOpen s => 0 ≤ s

theorem insertKey_idem (k : Int) : ∀ l : List Int, insertKey k (insertKey k l) = insertKey k l
  | [] => by simp [insertKey]
  | a :: as => by
    by_cases h1 : k < a
    · simp [insertKey, h1]
    · by_cases h2 : k = a
      · simp [insertKey, h2]
      · simp [insertKey, h1, h2, insertKey_idem k as]

/-- one step of the extended API on the round-2 state -/
theorem xstep_st (x : XState) (op : XOp) : (xstep x op).st = (lower op).foldl hstep x.st := by
  cases op with
  | h o => rfl
  | setMBBad => rfl
  | useMusicalBad =>
    show { x.st with beat := stepB x.st.beat .useMusicalBad } = hstep x.st (.beat (.useMusical []))
    rw [(rejected_useMusical x.st.beat).2.2]
    rfl
  | measureOpen s =>
    show { x.st with times := insertKey s x.st.times } = hstep x.st (.span s s)
    simp only [hstep, insertKey_idem]

theorem xrun_st_from (xs : List XOp) : ∀ x : XState, (xs.foldl xstep x).st = (lowerAll xs).foldl hstep x.st := by
  induction xs with
  | nil => intro x; rfl
  | cons op rest ih =>
    intro x
    simp only [List.foldl_cons, lowerAll, List.flatMap_cons, List.foldl_append]
    rw [ih, xstep_st]
    rfl

/-- the quarter duration `Part(id[, quarter_duration])` starts with -/
def q0Of (q0 : Option Nat) : Nat := match q0 with | some q => q | none => Gen.C02.partQuarterDefault

/-- **the round-2 state after a history of the extended API is the state after the lowered history** -/
theorem xrun_st (q0 : Option Nat) (xs : List XOp) : (xrun q0 xs).st = hrun (q0Of q0) (lowerAll xs) := by
  unfold xrun hrun
  rw [xrun_st_from]
  rfl

/-- the state without its measures -/
def clearM (s : HState) : HState := { s with measures := [] }

theorem hstep_demote (s : HState) (op : HOp) : hstep (clearM s) (demoteOp op) = clearM (hstep s op) := by
  cases op with
  | setQD t q => rfl
  | beat o => cases o <;> rfl
  | measure a e => rfl
  | span a e => rfl
  | query => rfl

theorem demote_from (h : List HOp) : ∀ s : HState,
    (h.map demoteOp).foldl hstep (clearM s) = clearM (h.foldl hstep s) := by
  induction h with
  | nil => intro s; rfl
  | cons op rest ih =>
    intro s
    simp only [List.map_cons, List.foldl_cons]
    rw [hstep_demote, ih]

/-- a history with its measures demoted to spans builds the same part without a first measure -/
theorem demote_build (q0 : Nat) (h : List HOp) :
    buildPart q0 (h.map demoteOp) = { buildPart q0 h with m1 := none } := by
  unfold buildPart hrun
  have := demote_from h (hinit q0)
  have h0 : clearM (hinit q0) = hinit q0 := rfl
  rw [h0] at this
  rw [this]
  rfl

theorem validOp_demote (op : HOp) (h : ValidOp op) : ValidOp (demoteOp op) := by
  cases op with
  | measure a e => exact h
  | setQD t q => exact h
  | beat o => exact h
  | span a e => exact h
  | query => exact h

theorem valid_lower (op : XOp) (h : ValidX op) : ∀ o ∈ lower op, ValidOp o := by
  intro o ho
  cases op with
  | h o' => simp only [lower, List.mem_singleton] at ho; rw [ho]; exact h
  | setMBBad => simp [lower, lowerB] at ho
  | useMusicalBad =>
    simp only [lower, lowerB, List.map_cons, List.map_nil, List.mem_singleton] at ho
    rw [ho]
    intro e he
    simp at he
  | measureOpen s =>
    simp only [lower, List.mem_singleton] at ho
    rw [ho]
    exact ⟨h, h⟩

/-- **Every part reachable through the extended API is a part reachable through the calls of round 2** (a
rejected call lowered to nothing resp. `use_musical_beat({})`, an end-less measure to a span, and — when an
end-less measure is the first one starting at the first time point — every measure demoted to a span). -/
theorem xbuild_is_build (q0 : Option Nat) (xs : List XOp) (hv : ∀ op ∈ xs, ValidX op) :
    ∃ hs : List HOp, (∀ op ∈ hs, ValidOp op) ∧ xbuildPart q0 xs = buildPart (q0Of q0) hs ∧
      (hs = lowerAll xs ∨ hs = (lowerAll xs).map demoteOp) := by
  have hvl : ∀ o ∈ lowerAll xs, ValidOp o := by
    intro o ho
    simp only [lowerAll, List.mem_flatMap] at ho
    obtain ⟨x, hx, hox⟩ := ho
    exact valid_lower x (hv x hx) o hox
  unfold xbuildPart XState.toPart
  simp only
  rw [xrun_st]
  split
  · refine ⟨(lowerAll xs).map demoteOp, ?_, ?_, Or.inr rfl⟩
    · intro o ho
      simp only [List.mem_map] at ho
      obtain ⟨o', ho', rfl⟩ := ho
      exact validOp_demote o' (hvl o' ho')
    · rw [demote_build]
      rfl
  · exact ⟨lowerAll xs, hvl, rfl, Or.inl rfl⟩

/-- the quarter lists do not depend on the lowering chosen -/
theorem xbuild_qd (q0 : Option Nat) (xs : List XOp) : (xbuildPart q0 xs).qd = (buildPart (q0Of q0) (lowerAll xs)).qd := by
  unfold xbuildPart XState.toPart
  simp only
  rw [xrun_st]
  split <;> rfl

/-! ### the statement for every part reachable through the extended API -/

/-- **C02 for the maps as written, every part reachable through the extended API** (`Part(id)` with or without a
quarter duration, accepted and rejected musical-beat calls, measures with and without an end, notes, signatures,
`set_quarter_duration`, queries, in any order): exact advance over every stretch, monotone, strictly increasing;
`inv(fwd(x)) = x` on the whole timeline; a number exactly from time 0 to the last key point. -/
theorem api_parts_property (q0 : Option Nat) (hq : ∀ q, q0 = some q → 0 < q) (xs : List XOp)
    (hv : ∀ op ∈ xs, ValidX op) (m : Mode) (h2 : 2 ≤ (xbuildPart q0 xs).npoints) :
    WF (xbuildPart q0 xs) m ∧
    (∀ a b ya yb, a ≤ b → fwdS (xbuildPart q0 xs) m a = some ya → fwdS (xbuildPart q0 xs) m b = some yb →
        yb - ya = elapsed (keypoints (xbuildPart q0 xs) m) a b ∧ ya ≤ yb ∧ (a < b → ya < yb)) ∧
    (∀ x, ((xbuildPart q0 xs).first : Rat) ≤ x → x ≤ ((xbuildPart q0 xs).last : Rat) →
        roundTripS (xbuildPart q0 xs) m x = some x) ∧
    (∀ x, (∃ y, fwdS (xbuildPart q0 xs) m x = some y) ↔
        (0 : Rat) ≤ x ∧ x ≤ ((lastOf (keyTimes (xbuildPart q0 xs) m) : Int) : Rat)) := by
  obtain ⟨hs, hvs, heq, _⟩ := xbuild_is_build q0 xs hv
  have hq0 : 0 < q0Of q0 := by
    cases q0 with
    | none => show 0 < Gen.C02.partQuarterDefault; decide
    | some q => exact hq q rfl
  rw [heq] at h2 ⊢
  have hp := (property_as_written_unconditional (q0Of q0) hq0 hs hvs m).2.1 h2
  exact ⟨built_part_wf _ hq0 hs hvs m h2, hp.1, hp.2.1, hp.2.2.1⟩

/-- **A first measure without an end switches the pickup shift off**: when the first measure starting at the first
time point (order of addition) has no end, zero lies at time 0 and nowhere else — whatever other measures start
there. -/
theorem open_first_measure_zero (q0 : Option Nat) (hq : ∀ q, q0 = some q → 0 < q) (xs : List XOp)
    (hv : ∀ op ∈ xs, ValidX op) (m : Mode) (h2 : 2 ≤ (xbuildPart q0 xs).npoints)
    (ho : (xrun q0 xs).openFirst (xrun q0 xs).st.toPart.first = true) (z : Rat) :
    (xbuildPart q0 xs).m1 = none ∧ (fwdS (xbuildPart q0 xs) m z = some 0 ↔ z = 0) := by
  have hm1 : (xbuildPart q0 xs).m1 = none := by
    unfold xbuildPart XState.toPart
    simp only [ho, if_true]
  obtain ⟨hs, hvs, heq, _⟩ := xbuild_is_build q0 xs hv
  have hq0 : 0 < q0Of q0 := by
    cases q0 with
    | none => show 0 < Gen.C02.partQuarterDefault; decide
    | some q => exact hq q rfl
  refine ⟨hm1, ?_⟩
  rw [heq] at h2 hm1 ⊢
  have hw := built_part_wf _ hq0 hs hvs m h2
  have hti : tolInactiveB (buildPart (q0Of q0) hs) m = true := by
    unfold tolInactiveB; rw [hm1]
  have hno : pickupShift (buildPart (q0Of q0) hs) m (knots (keypoints (buildPart (q0Of q0) hs) m) 0) = 0 := by
    unfold pickupShift; rw [hm1]
  rw [fwdS_eq_fwd _ m hw hti]
  exact (built_zero_plain (q0Of q0) hq0 hs hvs m h2 hno z).1

/-- non-vacuity: 6/8 with four divisions per quarter, a pickup measure of 4 divisions; an end-less measure added
BEFORE it hides it (zero at time 0), added AFTER it does not (zero at the end of the pickup measure); a rejected
`use_musical_beat` leaves the part in musical mode (6/8 counts 2 beats: the bar of 12 divisions lasts 2 beats) -/
example :
    fwdS (xbuildPart (some 4) [.h (.beat (.addTS 0 6 8)), .measureOpen 0, .h (.measure 0 4), .h (.span 0 24)]) .notated 4 = some 2 ∧
    fwdS (xbuildPart (some 4) [.h (.beat (.addTS 0 6 8)), .h (.measure 0 4), .measureOpen 0, .h (.span 0 24)]) .notated 4 = some 0 ∧
    (xbuildPart none [.h (.span 0 8)]).qd = [(0, 1)] ∧
    (xbuildPart (some 4) [.h (.beat (.addTS 0 6 8)), .useMusicalBad, .h (.span 0 24)]).musical = true ∧
    beatMap (xbuildPart (some 4) [.h (.beat (.addTS 0 6 8)), .useMusicalBad, .h (.span 0 24)]) 12 = some 2 ∧
    xraised (xinit none) [.h (.beat (.addTS 0 6 8)), .useMusicalBad, .useMusicalBad, .setMBBad] =
      [false, true, false, true] := by
  decide +kernel

end C02
