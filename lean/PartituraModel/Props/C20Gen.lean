/-
C20 — the tie between the hand-written mirror of the argument dispatch (Model/ArgForms.lean) and the LIVE source:
harness/translate_c20.py extracts the if / elif chains of `save_performance_midi`, `Performance.__init__` and
`transpose`, and the members of the `ScoreLike` / `PerformanceLike` unions, into Gen/C20Tables.lean on every run;
Model/ArgFormsGen.lean interprets them.  The theorems say, for EVERY argument, that interpreting the regenerated
table gives exactly the model function that the theorems of Props/C20Forms.lean are about.  Editing the source so that
some form is bound differently (wrapped in a constructor, walked through the argument instead of the copy, a
branch dropped) changes the table and these theorems no longer elaborate.
-/
import PartituraModel.Model.ArgFormsGen

namespace C20Gen
open Model.ArgForms Model.ArgFormsGen

/-- the extraction understood every shape it met -/
theorem extraction_ok : Gen.C20.extractionOk = true := by decide

/-- the forms of `ScoreArg` / `PerfArg` (and of the generators of harness/c20_forms.py) are the members of the two
    documented unions, no more and no fewer -/
theorem unions_covered :
    Gen.C20.scoreLike = ["List[Part|PartGroup]", "Part", "PartGroup", "Score"] ∧
    Gen.C20.performanceLike = ["List[PerformedPart]", "PerformedPart", "Performance"] := by decide

/-- **`save_performance_midi` as written binds every PerformanceLike form the way `perfParts` says** -/
theorem perf_export_dispatch_generated (a : PerfArg) :
    interpPerf Gen.C20.perfExportDispatch a = some (perfParts a) := by
  cases a <;> rfl

/-- **`Performance.__init__` as written**: the parts of the new container are the argument's parts (the same
    objects), renumbered in place exactly when `ensure_unique_tracks` holds -/
theorem perf_ctor_dispatch_generated (e : Bool) (a : PerfArg) :
    (interpPerf Gen.C20.perfCtorDispatch a).map (Option.map (fun pps => if e then sanitize pps else pps))
      = some (perfCtor e a) := by
  cases a <;> rfl

/-- **`transpose` as written** deep-copies its argument first and selects the parts to rewrite from the COPY, by
    the class of the copy, exactly as `targets` says -/
theorem transpose_branches_generated (a c : TArg) :
    Gen.C20.transposeCopies = true ∧ interpTargets Gen.C20.transposeBranches a c = some (targets c) := by
  refine ⟨by decide, ?_⟩
  cases c <;> rfl

/-- the seeded variants are told apart by the interpreter: a table whose last branch walks the ARGUMENT (C20-j)
    selects the caller's parts for a group -/
example :
    interpTargets [("Score", "copy.parts"), ("Part", "[copy]"), ("else", "iter:arg")]
      (TArg.group [[0], [1]]) (TArg.group [[2], [3]]) = some [[0], [1]] := by decide

/-- … and a head that wraps in the constructor (C20-i) is a token the interpreter refuses -/
example :
    interpPerf [("not Performance", "?"), ("after", "attr:performedparts")] (PerfArg.ppart default) = none := by decide

end C20Gen
