/-
C20 — the tie between the hand-written mirror of the argument dispatch (Model/ArgForms.lean) and the LIVE source:
harness/translate_c20.py extracts the if / elif chains of `save_performance_midi`, `Performance.__init__`,
`transpose`, `save_score_midi`, `save_musicxml`, `Score.__init__` and `ensure_notearray`, and the members of the `ScoreLike` / `PerformanceLike` unions, into Gen/C20Tables.lean on every run;
Model/ArgFormsGen.lean interprets them.  The theorems say, for EVERY argument, that interpreting the regenerated
table gives exactly the model function that the theorems of Props/C20Forms.lean are about.  Editing the source so that
some form is bound differently (wrapped in a constructor, walked through the argument instead of the copy, a
branch dropped) changes the table and these theorems no longer elaborate.
-/
import PartituraModel.Model.ArgFormsGen
import PartituraModel.Proofs.C20Heap
import PartituraModel.Props.C20Forms
import PartituraModel.Props.C20Array

namespace C20Gen
open Model.ArgForms Model.ArgFormsGen

/-- the extraction understood every shape it met -/
theorem extraction_ok : Gen.C20.extractionOk = true := by decide

/-- the forms of `ScoreArg` / `PerfArg` (and of the generators of harness/c20_forms.py) are the members of the two
    documented unions, no more and no fewer -/
theorem unions_covered :
    Gen.C20.scoreLike = ["List[Part|PartGroup]", "Part", "PartGroup", "Score"] ∧
    Gen.C20.performanceLike = ["List[PerformedPart]", "PerformedPart", "Performance"] := by decide

/-- **`save_performance_midi` as written binds every PerformanceLike form the way `perfParts` says** -/
theorem perf_export_dispatch_generated (a : PerfArg) :
    interpPerf Gen.C20.perfExportDispatch a = some (perfParts a) := by
  cases a <;> rfl

/-- **`Performance.__init__` as written**: the parts of the new container are the argument's parts (the same
    objects), renumbered in place exactly when `ensure_unique_tracks` holds -/
theorem perf_ctor_dispatch_generated (e : Bool) (a : PerfArg) :
    (interpPerf Gen.C20.perfCtorDispatch a).map (Option.map (fun pps => if e then sanitize pps else pps))
      = some (perfCtor e a) := by
  cases a <;> rfl

/-- **`transpose` as written** deep-copies its argument first and selects the parts to rewrite from the COPY, by
    the class of the copy, exactly as `targets` says -/
theorem transpose_branches_generated (a c : TArg) :
    Gen.C20.transposeCopies = true ∧ interpTargets Gen.C20.transposeBranches a c = some (targets c) := by
  refine ⟨by decide, ?_⟩
  cases c <;> rfl

/-- the seeded variants are told apart by the interpreter: a table whose last branch walks the ARGUMENT (C20-j)
    selects the caller's parts for a group -/
example :
    interpTargets [("Score", "copy.parts"), ("Part", "[copy]"), ("else", "iter:arg")]
      (TArg.group [[0], [1]]) (TArg.group [[2], [3]]) = some [[0], [1]] := by decide

/-- … and a head that wraps in the constructor (C20-i) is a token the interpreter refuses -/
example :
    interpPerf [("not Performance", "?"), ("after", "attr:performedparts")] (PerfArg.ppart default) = none := by decide


-- ================================================================== score-like arguments

/-- **`save_score_midi` as written** binds `parts` so that walking it with `iter_parts` visits exactly `midiParts a`,
    for every ScoreLike form (a Score: the flat list of its parts; a Part / PartGroup: itself; a list / tuple: itself) -/
theorem score_midi_dispatch_generated (a : ScoreArg) :
    (interpScore Gen.C20.scoreMidiDispatch a).map (Option.map iterNodes) = some (some (midiParts a)) := by
  cases a with
  | score ps st => rfl
  | node n => cases n <;> rfl
  | seq b xs => cases b <;> rfl

/-- … and after the dispatch `parts` is only ever handed to `iter_parts` (directly, or inside `get_ppq`): the exporter
    never indexes, sorts or rebinds it, and never touches the argument itself again -/
theorem score_midi_uses_generated :
    (∀ u ∈ Gen.C20.scoreMidiUses, u = "iter_parts" ∨ u = "get_ppq") ∧ (∀ u ∈ Gen.C20.getPpqUses, u = "iter_parts") := by
  decide

/-- **`save_musicxml` as written**: anything that is not a Score goes through `Score(partlist=·)`, a Score is used as
    it is; afterwards the (re)bound score is only iterated (the container protocol of Props/C20.lean: its flat list) -/
theorem xml_head_generated (a : ScoreArg) :
    interpXml Gen.C20.xmlHead a = some (xmlScore a) ∧
    (∀ u ∈ Gen.C20.xmlUses, u = "for-iter" ∨ u = "attr:parts") := by
  refine ⟨?_, by decide⟩
  cases a with
  | score ps st => rfl
  | node n => cases n <;> rfl
  | seq b xs => cases b <;> rfl

/-- **`Score.__init__` as written**: `self.parts = list(iter_parts(partlist))`, then the structure chain -/
theorem score_ctor_generated (a : ScoreArg) :
    interpCtor Gen.C20.scoreCtorParts Gen.C20.scoreCtorStructure a = some (scoreCtor a) := by
  cases a with
  | score ps st => rfl
  | node n => cases n <;> rfl
  | seq b xs =>
    have h := C20Heap.iterParts_seq b xs
    cases b <;> simp only [interpCtor, scoreCtor, h] <;> rfl

/-- **`ensure_notearray` as written** hands on what `notearrayParts` says, for every ScoreLike form: a Part itself, the
    DIRECT children of a PartGroup, the flat list of a Score, a list only if it holds nothing but Parts; a tuple and
    a list holding a group are rejected (ValueError) -/
theorem notearray_dispatch_generated (a : ScoreArg) :
    interpScore Gen.C20.notearrayDispatch a = some (notearrayParts a) := by
  cases a with
  | score ps st => rfl
  | node n => cases n <;> rfl
  | seq b xs => cases b <;> rfl

/-- the interpreter tells variants apart: a head of `save_score_midi` that takes a Score's `part_structure`
    (a token it does not know) is refused, and a chain without the Score branch sends a Score to the Iterable branch,
    where `iter_parts(score)` has no meaning -/
example :
    interpScore [("Score", "attr:part_structure"), ("else", "raise")] (ScoreArg.score [0] [Node.part 0]) = none ∧
    interpScore [("Part|PartGroup", "singleton"), ("Iterable", "self"), ("else", "raise")]
      (ScoreArg.score [0] [Node.part 0]) = none := by decide

-- ================================================================== array views

/-- **`slice_notearray_by_time` as written** binds its result by ALLOCATION in both branches (`np.empty`,
    indexing with an integer array) — it is the function `sliceByTime` the theorems of Props/C20Array.lean are about —
    and every subscript-store of its body targets the result, none the argument -/
theorem slice_steps_generated {α : Type} :
    interpSlice (α := α) Gen.C20.sliceBind = some Model.ArrayView.sliceByTime ∧
    (∀ w ∈ Gen.C20.sliceWrites, w = "result") := by
  refine ⟨rfl, by decide⟩

/-- the variants are told apart: a table that hands the argument itself on (C20-c) denotes the aliasing function,
    and a basic slice is refused -/
example :
    interpSlice (α := Nat) [("empty-index", "np.empty"), ("else", "alias:arg")]
      = some (Model.ArrayView.sliceGen .empty .alias) ∧
    (interpSlice (α := Nat) [("empty-index", "np.empty"), ("else", "view:arg")]).isNone = true := ⟨rfl, rfl⟩

-- ================================================================== container protocol

/-- **the container methods as written**: `__getitem__`, `__setitem__`, `__iter__` and `__len__` of `Score` all
    delegate to `self.parts`, those of `Performance` to `self.performedparts` (one list each — the premise of
    Model/IterProto.lean; `__iter__` hands out the list's own iterator, so no cursor lives on the container), and
    neither class defines `__contains__` / `__reversed__` / `__delitem__` / `index` / `count` / `__getattr__`
    (`in` and `reversed()` fall back to the sequence protocol, as Props/C20Seq.lean assumes) -/
theorem protocol_delegates_generated :
    delegatesTo "parts" Gen.C20.scoreProtocol = true ∧
    delegatesTo "performedparts" Gen.C20.performanceProtocol = true ∧
    Gen.C20.scoreProtocolExtra = [] ∧ Gen.C20.performanceProtocolExtra = [] := by decide

/-- the seeded variant C20-d (`Score.__iter__` walks `part_structure`) is a body the reader does not accept -/
example :
    delegatesTo "parts" [("__getitem__", "getitem:parts"), ("__setitem__", "setitem:parts"), ("__iter__", "?"),
      ("__len__", "len:parts")] = false := by decide

-- ================================================================== composed: the LIVE tables carry the property

/-- **end to end, score side**: interpreting the dispatch the live source contains, `save_score_midi` and
    `save_musicxml` visit exactly the parts the argument stands for (`flat`: a Score's own list, otherwise the
    depth-first walk), each once and in order, for EVERY ScoreLike form; and what `ensure_notearray` hands on walks to
    the same list whenever it accepts the form -/
theorem live_exporters_agree (a : ScoreArg) :
    (interpScore Gen.C20.scoreMidiDispatch a).map (Option.map iterNodes) = some (some (flat a)) ∧
    (interpXml Gen.C20.xmlHead a).map (Option.map (·.1)) = some (some (flat a)) ∧
    (∀ ns, interpScore Gen.C20.notearrayDispatch a = some (some ns) → iterNodes ns = flat a) := by
  obtain ⟨hx, hm, hn⟩ := C20Forms.exporters_agree a
  refine ⟨?_, ?_, ?_⟩
  · rw [score_midi_dispatch_generated, hm]
  · rw [(xml_head_generated a).1]
    simpa using hx
  · intro ns h
    rw [notearray_dispatch_generated] at h
    exact hn ns (Option.some.inj h)

/-- **end to end, array views**: whatever function the live binding table of `slice_notearray_by_time` denotes, a
    call leaves the argument array as it was and returns an array that is not the argument -/
theorem live_slice_frame {α : Type}
    (f : (α → Bool) → (α → Bool) → (α → α) → (α → α) → Bool → Model.ArrayView.Bufs α → Nat →
      Option (Model.ArrayView.Bufs α × Nat))
    (hf : interpSlice Gen.C20.sliceBind = some f)
    (act early : α → Bool) (setAll clipDur : α → α) (clip : Bool) (bufs : Model.ArrayView.Bufs α) (a : Nat)
    (res : Model.ArrayView.Bufs α × Nat) (h : f act early setAll clipDur clip bufs a = some res) :
    res.1[a]? = bufs[a]? ∧ res.2 ≠ a := by
  have e : f = Model.ArrayView.sliceByTime := by
    have := (slice_steps_generated (α := α)).1
    rw [hf] at this
    exact Option.some.inj this
  subst e
  exact ⟨(C20Array.slice_frame act early setAll clipDur clip bufs a res h).2,
         (C20Array.slice_fresh act early setAll clipDur clip bufs a res h).2.1⟩

end C20Gen
