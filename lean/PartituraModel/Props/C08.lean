/-
C08 — saving an alignment as a match file and loading it returns the same data.
Property theorems over Model/MatchTime.lean.
-/
import PartituraModel.Model.MatchTime
import PartituraModel.Proofs.C08

namespace C08
open Model Model.MatchTime C08P

/-! ### de-duplication of the reader (`load_matchfile` / `validate_match_ids`) -/

/-- The documented rule, for every list of parsed lines:
    1. nothing is duplicated or reordered (the result is a sublist of the input);
    2. every line that is neither a deletion nor an insertion is kept — in particular every match;
    3. a deletion whose score id also occurs in a match is dropped;
    4. an insertion whose performed id also occurs in a match is dropped;
    5. a kept deletion is the only snote-carrying line of its score id, in the input and in the result;
    6. a kept insertion is the only kept note-carrying line of its performed id. -/
theorem dedup_spec (ls : List Line) :
    (validate ls).Sublist ls
    ∧ (∀ l ∈ ls, l.kind ≠ .deletion → l.kind ≠ .insertion → l ∈ validate ls)
    ∧ (∀ l ∈ ls, ∀ m ∈ ls, l.kind = .deletion → m.kind = .match_ → l.sid = m.sid → l.sid ≠ none → l ∉ validate ls)
    ∧ (∀ l ∈ ls, ∀ m ∈ ls, l.kind = .insertion → m.kind = .match_ → l.pid = m.pid → l.pid ≠ none → l ∉ validate ls)
    ∧ (∀ l ∈ validate ls, ∀ s, l.kind = .deletion → l.sid = some s → countSid ls s = 1 ∧ countSid (validate ls) s = 1)
    ∧ (∀ l ∈ validate ls, ∀ p, l.kind = .insertion → l.pid = some p → countPid (validate ls) p = 1) := by
  refine ⟨validate_sublist ls, ?_, ?_, ?_, ?_, ?_⟩
  · intro l hl hd hi
    unfold validate
    rw [mem_dropInsertions, mem_dropDeletions]
    exact ⟨⟨hl, fun h => hd h.1⟩, fun h => hi h.1⟩
  · intro l hl m hm hkl hkm hsid hne hv
    have hv' : l ∈ dropDeletions ls := (dropInsertions_sublist _).subset hv
    rw [mem_dropDeletions] at hv'
    apply hv'.2
    refine ⟨hkl, ?_⟩
    cases hs : l.sid with
    | none => exact absurd hs hne
    | some s =>
      refine ⟨s, rfl, ?_⟩
      have hlm : l ≠ m := by intro h; rw [h] at hkl; rw [hkl] at hkm; cases hkm
      unfold countSid
      exact two_le_filter_length hl hm hlm (by simp [Line.hasSnote, hkl, hs]) (by simp [Line.hasSnote, hkm, ← hsid, hs])
  · intro l hl m hm hkl hkm hpid hne hv
    unfold validate at hv
    rw [mem_dropInsertions] at hv
    apply hv.2
    refine ⟨hkl, ?_⟩
    cases hp : l.pid with
    | none => exact absurd hp hne
    | some p =>
      refine ⟨p, rfl, ?_⟩
      have hlm : l ≠ m := by intro h; rw [h] at hkl; rw [hkl] at hkm; cases hkm
      have hm' : m ∈ dropDeletions ls := by
        rw [mem_dropDeletions]; exact ⟨hm, fun h => by rw [hkm] at h; cases h.1⟩
      unfold countPid
      exact two_le_filter_length hv.1 hm' hlm (by simp [Line.hasNote, hkl, hp]) (by simp [Line.hasNote, hkm, ← hpid, hp])
  · intro l hl s hk hs
    have hl' : l ∈ dropDeletions ls := (dropInsertions_sublist _).subset hl
    rw [mem_dropDeletions] at hl'
    have hle : ¬ countSid ls s > 1 := fun hc => hl'.2 ⟨hk, s, hs, hc⟩
    have hsn : l.hasSnote = true := by simp [Line.hasSnote, hk]
    have hpos := countSid_pos hl'.1 hsn hs
    have hpos' := countSid_pos hl hsn hs
    have hmono := countSid_sublist (validate_sublist ls) s
    omega
  · intro l hl p hk hp
    unfold validate at hl ⊢
    have hl' := hl
    rw [mem_dropInsertions] at hl'
    have hle : ¬ countPid (dropDeletions ls) p > 1 := fun hc => hl'.2 ⟨hk, p, hp, hc⟩
    have hn : l.hasNote = true := by simp [Line.hasNote, hk]
    have hpos := countPid_pos hl hn hp
    have hmono := countPid_sublist (dropInsertions_sublist (dropDeletions ls)) p
    omega

/-- non-vacuity: a match, a conflicting deletion and a conflicting insertion, and an unrelated deletion -/
example :
    validate [⟨.match_, some 1, some 7⟩, ⟨.deletion, some 1, none⟩, ⟨.insertion, none, some 7⟩, ⟨.deletion, some 2, none⟩]
      = [⟨.match_, some 1, some 7⟩, ⟨.deletion, some 2, none⟩] := by decide

/-- exact duplicate text lines are read once: the text identities that reach the validation are distinct -/
theorem load_no_duplicate_text (raw : List (Nat × Option Line)) :
    ((firstOccurrences raw []).map (·.1)).Nodup := by
  suffices h : ∀ seen : List Nat, ((firstOccurrences raw seen).map (·.1)).Nodup ∧
      ∀ t ∈ (firstOccurrences raw seen).map (·.1), t ∉ seen from (h []).1
  induction raw with
  | nil => intro seen; simp [firstOccurrences]
  | cons a rest ih =>
    intro seen
    obtain ⟨t, l⟩ := a
    unfold firstOccurrences
    by_cases hc : seen.contains t = true
    · simp only [hc, if_true]; exact ih seen
    · simp only [hc]
      have h2 := ih (t :: seen)
      constructor
      · simp only [Bool.false_eq_true, if_false, List.map_cons, List.nodup_cons]
        refine ⟨fun hmem => ?_, h2.1⟩
        exact (h2.2 t hmem) (by simp)
      · intro u hu
        simp only [Bool.false_eq_true, if_false, List.map_cons, List.mem_cons] at hu
        rcases hu with rfl | hu
        · simpa using hc
        · have := h2.2 u hu
          simp at this
          exact this.2

/-! ### the alignment survives writing and reading -/

/-- an alignment the exporter accepts and the format can hold: no entry of kind `other`; the score id of
    a deletion occurs in no other match/deletion entry, the performed id of an insertion in no other
    match/insertion/ornament entry -/
def ValidAlignment (es : List Entry) : Prop :=
  (∀ e ∈ es, e.kind ≠ .other)
  ∧ (∀ e ∈ es, ∀ s, e.kind = .deletion → e.sid = some s → countSid (es.map lineOf) s ≤ 1)
  ∧ (∀ e ∈ es, ∀ p, e.kind = .insertion → e.pid = some p → countPid (es.map lineOf) p ≤ 1)

/-- Whatever order the exporter writes the note lines in (`ls` is any permutation of the lines of the
    entries), validation drops nothing and the alignment read back has exactly the saved entries
    (kinds, score ids, performed ids) with their multiplicities. -/
theorem alignment_roundtrip (es : List Entry) (ls : List Line) (hv : ValidAlignment es)
    (hp : ls.Perm (es.map lineOf)) :
    validate ls = ls ∧ (alignmentOf (validate ls)).Perm es := by
  obtain ⟨hother, hdel, hins⟩ := hv
  have hmem : ∀ l ∈ ls, ∃ e ∈ es, l = lineOf e := by
    intro l hl
    have := hp.subset hl
    simpa [eq_comm] using this
  have h1 : dropDeletions ls = ls := by
    unfold dropDeletions
    apply filter_eq_self_of_forall
    intro l hl
    obtain ⟨e, he, rfl⟩ := hmem l hl
    cases hs : (lineOf e).sid with
    | none => simp
    | some s =>
      by_cases hk : (lineOf e).kind = .deletion
      · have := hdel e he s hk hs
        rw [← countSid_perm hp s] at this
        simp [hk]; omega
      · simp [hk]
  have h2 : dropInsertions ls = ls := by
    unfold dropInsertions
    apply filter_eq_self_of_forall
    intro l hl
    obtain ⟨e, he, rfl⟩ := hmem l hl
    cases hs : (lineOf e).pid with
    | none => simp
    | some p =>
      by_cases hk : (lineOf e).kind = .insertion
      · have := hins e he p hk hs
        rw [← countPid_perm hp p] at this
        simp [hk]; omega
      · simp [hk]
  have hval : validate ls = ls := by unfold validate; rw [h1, h2]
  refine ⟨hval, ?_⟩
  rw [hval]
  have hal : ∀ l : List Entry, (∀ e ∈ l, e.kind ≠ .other) → alignmentOf (l.map lineOf) = l := by
    intro l hl
    induction l with
    | nil => rfl
    | cons e rest ih =>
      have hk := hl e (by simp)
      have ih' := ih (fun x hx => hl x (by simp [hx]))
      unfold alignmentOf at ih' ⊢
      simp only [List.map_cons, List.filterMap_cons]
      obtain ⟨k, si, pi⟩ := e
      cases k <;> simp_all [lineOf]
  have : (alignmentOf ls).Perm (alignmentOf (es.map lineOf)) := by
    unfold alignmentOf; exact hp.filterMap _
  rw [hal es hother] at this
  exact this

/-- non-vacuity: a valid alignment with all four kinds (an ornament referring to the matched score note) -/
example : ValidAlignment [⟨.match_, some 0, some 0⟩, ⟨.deletion, some 1, none⟩, ⟨.insertion, none, some 1⟩,
    ⟨.ornament, some 0, some 2⟩] := by
  refine ⟨by decide, ?_, ?_⟩
  · intro e he s hk hs
    simp only [List.mem_cons, List.mem_nil_iff, or_false] at he
    rcases he with rfl | rfl | rfl | rfl
    · cases hk
    · cases hs; decide
    · cases hk
    · cases hk
  · intro e he p hk hp
    simp only [List.mem_cons, List.mem_nil_iff, or_false] at he
    rcases he with rfl | rfl | rfl | rfl
    · cases hk
    · cases hk
    · cases hp; decide
    · cases hk

end C08
