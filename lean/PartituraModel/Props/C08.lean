/-
C08 — saving an alignment as a match file and loading it returns the same data.
Property theorems over Model/MatchTime.lean.
-/
import PartituraModel.Model.MatchTime
import PartituraModel.Proofs.C08
import PartituraModel.Proofs.Round

namespace C08
open Model Model.MatchTime C08P

/-! ### de-duplication of the reader (`load_matchfile` / `validate_match_ids`) -/

/-- The documented rule, for every list of parsed lines:
    1. nothing is duplicated or reordered (the result is a sublist of the input);
    2. every line that is neither a deletion nor an insertion is kept — in particular every match;
    3. a deletion whose score id also occurs in a match is dropped;
    4. an insertion whose performed id also occurs in a match is dropped;
    5. a kept deletion is the only snote-carrying line of its score id, in the input and in the result;
    6. a kept insertion is the only kept note-carrying line of its performed id. -/
theorem dedup_spec (ls : List Line) :
    (validate ls).Sublist ls
    ∧ (∀ l ∈ ls, l.kind ≠ .deletion → l.kind ≠ .insertion → l ∈ validate ls)
    ∧ (∀ l ∈ ls, ∀ m ∈ ls, l.kind = .deletion → m.kind = .match_ → l.sid = m.sid → l.sid ≠ none → l ∉ validate ls)
    ∧ (∀ l ∈ ls, ∀ m ∈ ls, l.kind = .insertion → m.kind = .match_ → l.pid = m.pid → l.pid ≠ none → l ∉ validate ls)
    ∧ (∀ l ∈ validate ls, ∀ s, l.kind = .deletion → l.sid = some s → countSid ls s = 1 ∧ countSid (validate ls) s = 1)
    ∧ (∀ l ∈ validate ls, ∀ p, l.kind = .insertion → l.pid = some p → countPid (validate ls) p = 1) := by
  refine ⟨validate_sublist ls, ?_, ?_, ?_, ?_, ?_⟩
  · intro l hl hd hi
    unfold validate
    rw [mem_dropInsertions, mem_dropDeletions]
    exact ⟨⟨hl, fun h => hd h.1⟩, fun h => hi h.1⟩
  · intro l hl m hm hkl hkm hsid hne hv
    have hv' : l ∈ dropDeletions ls := (dropInsertions_sublist _).subset hv
    rw [mem_dropDeletions] at hv'
    apply hv'.2
    refine ⟨hkl, ?_⟩
    cases hs : l.sid with
    | none => exact absurd hs hne
    | some s =>
      refine ⟨s, rfl, ?_⟩
      have hlm : l ≠ m := by intro h; rw [h] at hkl; rw [hkl] at hkm; cases hkm
      unfold countSid
      exact two_le_filter_length hl hm hlm (by simp [Line.hasSnote, hkl, hs]) (by simp [Line.hasSnote, hkm, ← hsid, hs])
  · intro l hl m hm hkl hkm hpid hne hv
    unfold validate at hv
    rw [mem_dropInsertions] at hv
    apply hv.2
    refine ⟨hkl, ?_⟩
    cases hp : l.pid with
    | none => exact absurd hp hne
    | some p =>
      refine ⟨p, rfl, ?_⟩
      have hlm : l ≠ m := by intro h; rw [h] at hkl; rw [hkl] at hkm; cases hkm
      have hm' : m ∈ dropDeletions ls := by
        rw [mem_dropDeletions]; exact ⟨hm, fun h => by rw [hkm] at h; cases h.1⟩
      unfold countPid
      exact two_le_filter_length hv.1 hm' hlm (by simp [Line.hasNote, hkl, hp]) (by simp [Line.hasNote, hkm, ← hpid, hp])
  · intro l hl s hk hs
    have hl' : l ∈ dropDeletions ls := (dropInsertions_sublist _).subset hl
    rw [mem_dropDeletions] at hl'
    have hle : ¬ countSid ls s > 1 := fun hc => hl'.2 ⟨hk, s, hs, hc⟩
    have hsn : l.hasSnote = true := by simp [Line.hasSnote, hk]
    have hpos := countSid_pos hl'.1 hsn hs
    have hpos' := countSid_pos hl hsn hs
    have hmono := countSid_sublist (validate_sublist ls) s
    omega
  · intro l hl p hk hp
    unfold validate at hl ⊢
    have hl' := hl
    rw [mem_dropInsertions] at hl'
    have hle : ¬ countPid (dropDeletions ls) p > 1 := fun hc => hl'.2 ⟨hk, p, hp, hc⟩
    have hn : l.hasNote = true := by simp [Line.hasNote, hk]
    have hpos := countPid_pos hl hn hp
    have hmono := countPid_sublist (dropInsertions_sublist (dropDeletions ls)) p
    omega

/-- non-vacuity: a match, a conflicting deletion and a conflicting insertion, and an unrelated deletion -/
example :
    validate [⟨.match_, some 1, some 7⟩, ⟨.deletion, some 1, none⟩, ⟨.insertion, none, some 7⟩, ⟨.deletion, some 2, none⟩]
      = [⟨.match_, some 1, some 7⟩, ⟨.deletion, some 2, none⟩] := by decide

/-- exact duplicate text lines are read once: the text identities that reach the validation are distinct -/
theorem load_no_duplicate_text (raw : List (Nat × Option Line)) :
    ((firstOccurrences raw []).map (·.1)).Nodup := by
  suffices h : ∀ seen : List Nat, ((firstOccurrences raw seen).map (·.1)).Nodup ∧
      ∀ t ∈ (firstOccurrences raw seen).map (·.1), t ∉ seen from (h []).1
  induction raw with
  | nil => intro seen; simp [firstOccurrences]
  | cons a rest ih =>
    intro seen
    obtain ⟨t, l⟩ := a
    unfold firstOccurrences
    by_cases hc : seen.contains t = true
    · simp only [hc, if_true]; exact ih seen
    · simp only [hc]
      have h2 := ih (t :: seen)
      constructor
      · simp only [Bool.false_eq_true, if_false, List.map_cons, List.nodup_cons]
        refine ⟨fun hmem => ?_, h2.1⟩
        exact (h2.2 t hmem) (by simp)
      · intro u hu
        simp only [Bool.false_eq_true, if_false, List.map_cons, List.mem_cons] at hu
        rcases hu with rfl | hu
        · simpa using hc
        · have := h2.2 u hu
          simp at this
          exact this.2

/-! ### the alignment survives writing and reading -/

/-- an alignment the exporter accepts and the format can hold: no entry of kind `other`; the score id of
    a deletion occurs in no other match/deletion entry, the performed id of an insertion in no other
    match/insertion/ornament entry -/
def ValidAlignment (es : List Entry) : Prop :=
  (∀ e ∈ es, e.kind ≠ .other)
  ∧ (∀ e ∈ es, ∀ s, e.kind = .deletion → e.sid = some s → countSid (es.map lineOf) s ≤ 1)
  ∧ (∀ e ∈ es, ∀ p, e.kind = .insertion → e.pid = some p → countPid (es.map lineOf) p ≤ 1)

/-- Whatever order the exporter writes the note lines in (`ls` is any permutation of the lines of the
    entries), validation drops nothing and the alignment read back has exactly the saved entries
    (kinds, score ids, performed ids) with their multiplicities. -/
theorem alignment_roundtrip (es : List Entry) (ls : List Line) (hv : ValidAlignment es)
    (hp : ls.Perm (es.map lineOf)) :
    validate ls = ls ∧ (alignmentOf (validate ls)).Perm es := by
  obtain ⟨hother, hdel, hins⟩ := hv
  have hmem : ∀ l ∈ ls, ∃ e ∈ es, l = lineOf e := by
    intro l hl
    have := hp.subset hl
    simpa [eq_comm] using this
  have h1 : dropDeletions ls = ls := by
    unfold dropDeletions
    apply filter_eq_self_of_forall
    intro l hl
    obtain ⟨e, he, rfl⟩ := hmem l hl
    cases hs : (lineOf e).sid with
    | none => simp
    | some s =>
      by_cases hk : (lineOf e).kind = .deletion
      · have := hdel e he s hk hs
        rw [← countSid_perm hp s] at this
        simp [hk]; omega
      · simp [hk]
  have h2 : dropInsertions ls = ls := by
    unfold dropInsertions
    apply filter_eq_self_of_forall
    intro l hl
    obtain ⟨e, he, rfl⟩ := hmem l hl
    cases hs : (lineOf e).pid with
    | none => simp
    | some p =>
      by_cases hk : (lineOf e).kind = .insertion
      · have := hins e he p hk hs
        rw [← countPid_perm hp p] at this
        simp [hk]; omega
      · simp [hk]
  have hval : validate ls = ls := by unfold validate; rw [h1, h2]
  refine ⟨hval, ?_⟩
  rw [hval]
  have hal : ∀ l : List Entry, (∀ e ∈ l, e.kind ≠ .other) → alignmentOf (l.map lineOf) = l := by
    intro l hl
    induction l with
    | nil => rfl
    | cons e rest ih =>
      have hk := hl e (by simp)
      have ih' := ih (fun x hx => hl x (by simp [hx]))
      unfold alignmentOf at ih' ⊢
      simp only [List.map_cons, List.filterMap_cons]
      obtain ⟨k, si, pi⟩ := e
      cases k <;> simp_all [lineOf]
  have : (alignmentOf ls).Perm (alignmentOf (es.map lineOf)) := by
    unfold alignmentOf; exact hp.filterMap _
  rw [hal es hother] at this
  exact this

/-- non-vacuity: a valid alignment with all four kinds (an ornament referring to the matched score note) -/
example : ValidAlignment [⟨.match_, some 0, some 0⟩, ⟨.deletion, some 1, none⟩, ⟨.insertion, none, some 1⟩,
    ⟨.ornament, some 0, some 2⟩] := by
  refine ⟨by decide, ?_, ?_⟩
  · intro e he s hk hs
    simp only [List.mem_cons, List.mem_nil_iff, or_false] at he
    rcases he with rfl | rfl | rfl | rfl
    · cases hk
    · cases hs; decide
    · cases hk
    · cases hk
  · intro e he p hk hp
    simp only [List.mem_cons, List.mem_nil_iff, or_false] at he
    rcases he with rfl | rfl | rfl | rfl
    · cases hk
    · cases hk
    · cases hp; decide
    · cases hk


/-! ### score times: measure:beat + offset and back -/

/-- What the exporter writes for a note `rel` divisions after its bar line denotes exactly that
    distance: whole beats (of the time signature's beat type) plus the offset fraction, read as the
    importer reads them, is `rel/divs` quarters — for every division value, beat type and distance;
    the beat number is at least 1 and the offset is a non-negative fraction of one beat. -/
theorem enc_position (divs den : Nat) (hd : 0 < divs) (hn : 0 < den) (rel : Int) (hr : 0 ≤ rel) :
    notePos 0 (encBeat divs den rel + 1) den (Frac.ofRat (encOffset divs den rel)).val 0 = (rel : Rat) / (divs : Rat)
    ∧ 1 ≤ encBeat divs den rel + 1
    ∧ 0 ≤ encOffset divs den rel ∧ encOffset divs den rel < 1 / (den : Rat) := by
  have hrange := C08P.enc_offset_range divs den hd hn rel
  refine ⟨?_, ?_, hrange.1, hrange.2⟩
  · unfold notePos
    rw [C08P.Frac.ofRat_val _ hrange.1]
    have := C08P.enc_position divs den hd hn rel
    simp only [add_sub_cancel_right, zero_add, sub_zero]
    exact this
  · have := C08P.encBeat_nonneg divs den hd rel hr
    omega

/-- **position_roundtrip.** A note `rel` divisions after the start of its measure, written by the
    exporter (beat, offset) and read by the importer with ANY divisions value `D`: if the bar start the
    importer reconstructed (`bhat − shiftHat`, in quarters from the loaded origin) is within `1/(2D)` of
    the written one (`barQ − shiftQ`), and the true position is on the importer's division grid
    (`D · position = z`), then the loaded onset is exactly `z` — for all onsets, measures, signatures. -/
theorem position_roundtrip (D divs den : Nat) (hd : 0 < divs) (hn : 0 < den) (rel : Int)
    (bhat shiftHat barQ shiftQ : Rat) (z : Int)
    (hgrid : (D : Rat) * (barQ + (rel : Rat) / (divs : Rat) - shiftQ) = (z : Rat))
    (hbar : (D : Rat) * |(bhat - shiftHat) - (barQ - shiftQ)| < 1 / 2) :
    roundHalfEven ((D : Rat) * notePos bhat (encBeat divs den rel + 1) den
        (Frac.ofRat (encOffset divs den rel)).val shiftHat) = z := by
  apply roundHalfEven_near
  have hrange := C08P.enc_offset_range divs den hd hn rel
  have hpos := C08P.enc_position divs den hd hn rel
  unfold notePos
  rw [C08P.Frac.ofRat_val _ hrange.1]
  have hD : (0 : Rat) ≤ (D : Rat) := by positivity
  have e : (D : Rat) * (bhat + ((encBeat divs den rel + 1 - 1 : Int) : Rat) * 4 / (den : Rat)
      + 4 * encOffset divs den rel - shiftHat) - (z : Rat)
      = (D : Rat) * ((bhat - shiftHat) - (barQ - shiftQ)) := by
    rw [← hgrid, ← hpos]
    simp only [add_sub_cancel_right]
    ring
  rw [e, abs_mul, abs_of_nonneg hD]
  exact hbar

/-- non-vacuity: 6/8 (beat type 8), 2 divisions per quarter, the note 9 divisions into the piece in a bar
    starting at division 6 (`rel = 3`): written `beat 4, offset 0`; read back with 8 divisions per quarter and a
    bar start that is off by 1/20000 quarter it lands exactly on division 36 = 8 · 9/2 -/
example : roundHalfEven ((8 : Nat) * notePos (3 + 1/20000) (encBeat 2 8 3 + 1) 8 (Frac.ofRat (encOffset 2 8 3)).val 0) = 36 := by
  have := position_roundtrip 8 2 8 (by decide) (by decide) 3 (3 + 1/20000) 0 3 0 36 (by norm_num) (by norm_num [abs_of_nonneg])
  simpa using this

/-- **duration_roundtrip.** The duration the exporter writes (`d/(4·divs)` of a whole note, reduced) gives
    back `D·d/divs` divisions — the same number of quarters — whenever the written denominator divides `D`
    (which `divs_sufficient` guarantees for the importer's divisions). -/
theorem duration_roundtrip (D divs : Nat) (d : Int) (hd0 : 0 ≤ d) (hdivs : 0 < divs)
    (hdvd : (encDur divs d).den ∣ 4 * D) :
    ((durDivs D (Frac.ofRat (encDur divs d)) : Int) : Rat) = (D : Rat) * (d : Rat) / (divs : Rat) := by
  have hnn : 0 ≤ encDur divs d := by
    rw [C08P.encDur_eq]
    apply div_nonneg
    · exact_mod_cast hd0
    · positivity
  unfold durDivs
  rw [C08P.Frac.ofRat_val _ hnn]
  obtain ⟨k, hk⟩ := hdvd
  have hden : ((encDur divs d).den : Rat) ≠ 0 := by exact_mod_cast (encDur divs d).den_nz
  have hval : (D : Rat) * 4 * encDur divs d = (((k : Int) * (encDur divs d).num : Int) : Rat) := by
    have h1 : encDur divs d * ((encDur divs d).den : Rat) = ((encDur divs d).num : Rat) := Rat.mul_den_eq_num _
    have h2 : (4 : Rat) * (D : Rat) = ((encDur divs d).den : Rat) * (k : Rat) := by exact_mod_cast hk
    calc (D : Rat) * 4 * encDur divs d = (4 * (D : Rat)) * encDur divs d := by ring
      _ = (k : Rat) * (encDur divs d * ((encDur divs d).den : Rat)) := by rw [h2]; ring
      _ = (((k : Int) * (encDur divs d).num : Int) : Rat) := by rw [h1]; push_cast; ring
  have hknn : 0 ≤ (k : Int) * (encDur divs d).num := by
    apply mul_nonneg
    · positivity
    · exact Rat.num_nonneg.mpr hnn
  rw [hval, C08P.truncRat_int _ hknn, ← hval, C08P.encDur_eq]
  have h4 : ((divs : Nat) : Rat) ≠ 0 := by exact_mod_cast (Nat.pos_iff_ne_zero.mp hdivs)
  push_cast
  field_simp

/-- non-vacuity: a dotted quarter (3 of 2 divisions per quarter) read with 8 divisions per quarter: 12 -/
example : durDivs 8 (Frac.ofRat (encDur 2 3)) = 12 := by decide +kernel

/-- **divs_sufficient.** With `D` = the importer's divisions (lcm over all notes of
    `max(beat_type/4, 1) · denominator · tuple divisor` of offset and duration): for every note, `D` times
    the offset and `D` times the duration (in quarters) are integers, and so is `D` times any whole number
    of beats when the beat type divides 4 or is a multiple of 4. -/
theorem divs_sufficient (ts : List TSLine) (maxTime : Rat) (ns : List SNote)
    (hpos : ∀ n ∈ ns, 0 < n.offset.den ∧ 0 < n.offset.tup ∧ 0 < n.dur.den ∧ 0 < n.dur.tup) :
    ∀ n ∈ ns,
      (∃ z : Int, (importDivs ts maxTime ns : Rat) * (4 * n.offset.val) = z)
      ∧ (∃ z : Int, (importDivs ts maxTime ns : Rat) * (4 * n.dur.val) = z)
      ∧ (∀ k : Int, (denAtBeats ts maxTime n.onsetB ∣ 4 ∨ 4 ∣ denAtBeats ts maxTime n.onsetB) →
            0 < denAtBeats ts maxTime n.onsetB →
            ∃ z : Int, (importDivs ts maxTime ns : Rat) * ((k : Rat) * 4 / (denAtBeats ts maxTime n.onsetB : Rat)) = z) := by
  intro n hn
  obtain ⟨h1, h2, h3, h4⟩ := hpos n hn
  set D := importDivs ts maxTime ns with hD
  set bt := denAtBeats ts maxTime n.onsetB with hbt
  have hm1 : max (bt / 4) 1 * n.offset.den * n.offset.tup ∣ D := by
    apply C08P.dvd_natLcm
    rw [List.mem_flatMap]
    exact ⟨n, hn, by simp [hbt]⟩
  have hm2 : max (bt / 4) 1 * n.dur.den * n.dur.tup ∣ D := by
    apply C08P.dvd_natLcm
    rw [List.mem_flatMap]
    exact ⟨n, hn, by simp [hbt]⟩
  have frac_int : ∀ (m : Nat) (f : Frac), 0 < f.den → 0 < f.tup → m * f.den * f.tup ∣ D →
      ∃ z : Int, (D : Rat) * (4 * f.val) = z := by
    intro m f hf1 hf2 hdv
    obtain ⟨c, hc⟩ := hdv
    refine ⟨4 * (f.num : Int) * (m : Int) * (c : Int), ?_⟩
    unfold Frac.val
    have e1 : ((f.den : Nat) : Rat) ≠ 0 := by exact_mod_cast (Nat.pos_iff_ne_zero.mp hf1)
    have e2 : ((f.tup : Nat) : Rat) ≠ 0 := by exact_mod_cast (Nat.pos_iff_ne_zero.mp hf2)
    have hc' : (D : Rat) = (m : Rat) * (f.den : Rat) * (f.tup : Rat) * (c : Rat) := by exact_mod_cast hc
    rw [hc']
    push_cast
    field_simp
  refine ⟨frac_int _ n.offset h1 h2 hm1, frac_int _ n.dur h3 h4 hm2, ?_⟩
  intro k hdiv hbtpos
  have hk1 : max (bt / 4) 1 ∣ D := (Dvd.intro _ rfl : max (bt / 4) 1 ∣ max (bt / 4) 1 * (n.offset.den * n.offset.tup)).trans
    (by rw [← Nat.mul_assoc]; exact hm1)
  have hbtne : ((bt : Nat) : Rat) ≠ 0 := by exact_mod_cast (Nat.pos_iff_ne_zero.mp hbtpos)
  rcases hdiv with hd4 | h4d
  · obtain ⟨c, hc⟩ := hd4
    refine ⟨(D : Int) * k * (c : Int), ?_⟩
    have hc' : (4 : Rat) = (bt : Rat) * (c : Rat) := by exact_mod_cast hc
    push_cast
    rw [hc']
    field_simp
  · obtain ⟨c, hc⟩ := h4d
    have hcpos : 0 < c := by
      rcases Nat.eq_zero_or_pos c with h0 | h0
      · rw [h0] at hc; omega
      · exact h0
    have hq : bt / 4 = c := by rw [hc]; simp
    have hmax : max (bt / 4) 1 = c := by rw [hq]; exact Nat.max_eq_left hcpos
    rw [hmax] at hk1
    obtain ⟨e, he⟩ := hk1
    refine ⟨(e : Int) * k, ?_⟩
    have hbt' : ((bt : Nat) : Rat) = 4 * (c : Rat) := by exact_mod_cast hc
    have hD' : ((D : Nat) : Rat) = (c : Rat) * (e : Rat) := by exact_mod_cast he
    have hcne : (c : Rat) ≠ 0 := by exact_mod_cast (Nat.pos_iff_ne_zero.mp hcpos)
    rw [hbt', hD']
    push_cast
    field_simp

/-- non-vacuity: a 6/8 note on beat 4 with offset 1/16 and duration 3/8: divisions = lcm(2·16, 2·8) = 32 -/
example : importDivs [⟨0, 1, 6, 8⟩] 6
    [{ measure := 1, beat := 4, offset := ⟨1, 16, 1⟩, dur := ⟨3, 8, 1⟩, comps := [], onsetB := 3, offsetB := 6 }] = 32 := by
  decide +kernel

/-! ### bar starts -/

/-- **bars_recovered_one_beat_type.** The case of ONE beat type `den0` (any number of changes of the beat count), with
    no condition on the divisions of the written score and none on where the changes fall; the general statement
    for mixed beat types is `bars_recovered` in Props/C08Mixed.lean.

    Let a bar start `rel₁` divisions before its first stored note, whose beat time `B` the file holds with four
    decimals.  The bar start the importer computes from that note (`barTime`) differs from the true one
    (`4·B/den0 − rel₁/divs` quarters after beat 0) by at most `1/(5000·den0)` quarter; hence with importer
    divisions `D < 2500·den0` and a bar line on the division grid, the loaded bar line
    `round(D·(barTime − shift))` is exactly the written one. -/
theorem bars_recovered_one_beat_type (den0 divs : Nat) (hden : 0 < den0) (hdivs : 0 < divs)
    (ts : List TSLine) (hts : ts ≠ []) (huni : ∀ x ∈ ts, x.den = den0) (maxTime : Rat)
    (rel₁ : Int) (B : Rat) (n : SNote)
    (hbeat : n.beat = encBeat divs den0 rel₁ + 1)
    (hoff : n.offset = Frac.ofRat (encOffset divs den0 rel₁))
    (hon : n.onsetB = dec4 B) :
    |barTime ts maxTime n - (4 * B / (den0 : Rat) - (rel₁ : Rat) / (divs : Rat))| ≤ 1 / (5000 * (den0 : Rat))
    ∧ ∀ (D : Nat) (shiftQ : Rat) (z : Int), (D : Rat) < 2500 * (den0 : Rat) →
        (D : Rat) * (4 * B / (den0 : Rat) - (rel₁ : Rat) / (divs : Rat) - shiftQ) = (z : Rat) →
        roundHalfEven ((D : Rat) * (barTime ts maxTime n - shiftQ)) = z := by
  have hd0 : (0 : Rat) < (den0 : Rat) := by exact_mod_cast hden
  have hrange := C08P.enc_offset_range divs den0 hdivs hden rel₁
  have hpos := C08P.enc_position divs den0 hdivs hden rel₁
  have hbar : barTime ts maxTime n = 4 * dec4 B / (den0 : Rat) - (rel₁ : Rat) / (divs : Rat) := by
    unfold barTime
    rw [C08P.beatsToQuarters_uniform den0 ts huni hts, C08P.denAtBeats_uniform den0 ts huni hts, hbeat, hoff, hon,
      C08P.Frac.ofRat_val _ hrange.1, ← hpos]
    simp only [add_sub_cancel_right]
    ring
  have hclose := C08P.dec4_close B
  have herr : |barTime ts maxTime n - (4 * B / (den0 : Rat) - (rel₁ : Rat) / (divs : Rat))| ≤ 1 / (5000 * (den0 : Rat)) := by
    rw [hbar]
    have e : 4 * dec4 B / (den0 : Rat) - (rel₁ : Rat) / (divs : Rat) - (4 * B / (den0 : Rat) - (rel₁ : Rat) / (divs : Rat))
        = (dec4 B - B) * (4 / (den0 : Rat)) := by ring
    have h4d : (0 : Rat) < 4 / (den0 : Rat) := div_pos (by norm_num) hd0
    rw [e, abs_mul, abs_of_pos h4d]
    calc |dec4 B - B| * (4 / (den0 : Rat)) ≤ (1 / 20000) * (4 / (den0 : Rat)) := by
          apply mul_le_mul_of_nonneg_right hclose (le_of_lt h4d)
      _ = 1 / (5000 * (den0 : Rat)) := by field_simp; ring
  refine ⟨herr, ?_⟩
  intro D shiftQ z hD hz
  apply roundHalfEven_near
  have e : (D : Rat) * (barTime ts maxTime n - shiftQ) - (z : Rat)
      = (D : Rat) * (barTime ts maxTime n - (4 * B / (den0 : Rat) - (rel₁ : Rat) / (divs : Rat))) := by
    rw [← hz]; ring
  have hDnn : (0 : Rat) ≤ (D : Rat) := by positivity
  rw [e, abs_mul, abs_of_nonneg hDnn]
  calc (D : Rat) * |barTime ts maxTime n - (4 * B / (den0 : Rat) - (rel₁ : Rat) / (divs : Rat))|
        ≤ (D : Rat) * (1 / (5000 * (den0 : Rat))) := mul_le_mul_of_nonneg_left herr hDnn
    _ < (2500 * (den0 : Rat)) * (1 / (5000 * (den0 : Rat))) := by
        apply mul_lt_mul_of_pos_right hD (div_pos one_pos (by linarith))
    _ = 1 / 2 := by field_simp; ring

/-- non-vacuity: 3/4 then 4/4 (one beat type, a change of the beat count), a bar whose first stored note is
    a triplet eighth (1 of 3 divisions) after the bar line at beat 3 -/
example : ∃ n : SNote, n.beat = encBeat 3 4 1 + 1 ∧ n.offset = Frac.ofRat (encOffset 3 4 1) ∧ n.onsetB = dec4 (3 + 1/3)
    ∧ ([⟨0, 1, 3, 4⟩, ⟨3, 2, 4, 4⟩] : List TSLine) ≠ [] ∧ ∀ x ∈ ([⟨0, 1, 3, 4⟩, ⟨3, 2, 4, 4⟩] : List TSLine), x.den = 4 :=
  ⟨{ measure := 2, beat := encBeat 3 4 1 + 1, offset := Frac.ofRat (encOffset 3 4 1), dur := ⟨1, 12, 1⟩, comps := [],
     onsetB := dec4 (3 + 1/3), offsetB := 0 }, rfl, rfl, rfl, by simp, by simp⟩

/-- the exporter's side of the same statement: with one beat type the beat time of a note, converted to
    quarters, minus its distance from the bar line is the beat time of the bar line — so the `4·B/den0 − rel₁/divs`
    of `bars_recovered_one_beat_type` IS the written bar start, for every measure, pickup and change of beat count -/
theorem written_bar_start (sc : Score) (den0 : Nat) (hden : 0 < den0) (hdivs : 0 < sc.divs)
    (s : TSig) (rest : List TSig) (hts : sc.ts = s :: rest) (huni : ∀ x ∈ sc.ts, x.den = den0) (o ms : Int) :
    4 * sc.beats o / (den0 : Rat) - ((o - ms : Int) : Rat) / (sc.divs : Rat) = 4 * sc.beats ms / (den0 : Rat) := by
  unfold Score.beats
  rw [hts] at huni ⊢
  rw [C08P.rawBeats_uniform sc.divs den0 rest s huni o, C08P.rawBeats_uniform sc.divs den0 rest s huni ms]
  have h1 : ((den0 : Nat) : Rat) ≠ 0 := by exact_mod_cast (Nat.pos_iff_ne_zero.mp hden)
  have h2 : ((sc.divs : Nat) : Rat) ≠ 0 := by exact_mod_cast (Nat.pos_iff_ne_zero.mp hdivs)
  push_cast
  field_simp
  ring

/-- **onset_roundtrip_one_beat_type.** (One beat type, as `bars_recovered_one_beat_type`; general: `onset_roundtrip` in
    Props/C08Mixed.lean.)  A note `rel` divisions
    after a bar line whose first stored note is `rel₁` divisions after it with beat time `B` (four decimals in the
    file); the importer's shift `shiftHat` is the four-decimal image of the true one (`|shiftHat − shiftQ| ≤
    1/(5000·den0)`: it is `4·dec4(B₀)/den0` for the first note of the piece, or 0).  With importer divisions
    `D < 1250·den0` and the true position on the grid, the loaded onset is exact. -/
theorem onset_roundtrip_one_beat_type (den0 divs : Nat) (hden : 0 < den0) (hdivs : 0 < divs)
    (ts : List TSLine) (hts : ts ≠ []) (huni : ∀ x ∈ ts, x.den = den0) (maxTime : Rat)
    (rel₁ rel : Int) (B : Rat) (n : SNote)
    (hbeat : n.beat = encBeat divs den0 rel₁ + 1)
    (hoff : n.offset = Frac.ofRat (encOffset divs den0 rel₁))
    (hon : n.onsetB = dec4 B)
    (D : Nat) (hD : (D : Rat) < 1250 * (den0 : Rat)) (shiftHat shiftQ : Rat)
    (hshift : |shiftHat - shiftQ| ≤ 1 / (5000 * (den0 : Rat))) (z : Int)
    (hgrid : (D : Rat) * ((4 * B / (den0 : Rat) - (rel₁ : Rat) / (divs : Rat)) + (rel : Rat) / (divs : Rat) - shiftQ) = (z : Rat)) :
    roundHalfEven ((D : Rat) * notePos (barTime ts maxTime n) (encBeat divs den0 rel + 1) den0
        (Frac.ofRat (encOffset divs den0 rel)).val shiftHat) = z := by
  have hbar := (bars_recovered_one_beat_type den0 divs hden hdivs ts hts huni maxTime rel₁ B n hbeat hoff hon).1
  apply position_roundtrip D divs den0 hdivs hden rel (barTime ts maxTime n) shiftHat
    (4 * B / (den0 : Rat) - (rel₁ : Rat) / (divs : Rat)) shiftQ z hgrid
  have hd0 : (0 : Rat) < (den0 : Rat) := by exact_mod_cast hden
  have hDnn : (0 : Rat) ≤ (D : Rat) := by positivity
  have htri : |barTime ts maxTime n - shiftHat - (4 * B / (den0 : Rat) - (rel₁ : Rat) / (divs : Rat) - shiftQ)|
      ≤ 1 / (5000 * (den0 : Rat)) + 1 / (5000 * (den0 : Rat)) := by
    have e : barTime ts maxTime n - shiftHat - (4 * B / (den0 : Rat) - (rel₁ : Rat) / (divs : Rat) - shiftQ)
        = (barTime ts maxTime n - (4 * B / (den0 : Rat) - (rel₁ : Rat) / (divs : Rat))) - (shiftHat - shiftQ) := by ring
    rw [e]
    exact (abs_sub _ _).trans (add_le_add hbar hshift)
  have hpos5 : (0 : Rat) < 1 / (5000 * (den0 : Rat)) := div_pos one_pos (by linarith)
  calc (D : Rat) * |barTime ts maxTime n - shiftHat - (4 * B / (den0 : Rat) - (rel₁ : Rat) / (divs : Rat) - shiftQ)|
        ≤ (D : Rat) * (1 / (5000 * (den0 : Rat)) + 1 / (5000 * (den0 : Rat))) := mul_le_mul_of_nonneg_left htri hDnn
    _ < (1250 * (den0 : Rat)) * (1 / (5000 * (den0 : Rat)) + 1 / (5000 * (den0 : Rat))) :=
        mul_lt_mul_of_pos_right hD (by linarith)
    _ = 1 / 2 := by field_simp; ring

/-! ### performed notes -/

/-- **ticks_seconds.** The tick written for a time in seconds is the nearest tick (ties to even), the seconds
    read back are that tick on the file's clock, and a second write/read cycle changes nothing. -/
theorem ticks_seconds (t : Rat) (mpq ppq : Nat) (hm : 0 < mpq) (hp : 0 < ppq) :
    |((perfRoundTrip mpq ppq t).1 : Rat) - 1000000 * (ppq : Rat) * t / (mpq : Rat)| ≤ 1 / 2
    ∧ (perfRoundTrip mpq ppq t).2 = tickToSec (perfRoundTrip mpq ppq t).1 mpq ppq
    ∧ perfRoundTrip mpq ppq (perfRoundTrip mpq ppq t).2 = perfRoundTrip mpq ppq t := by
  refine ⟨Round.roundHalfEven_close _, rfl, ?_⟩
  have hfix : secToTick (tickToSec (secToTick t mpq ppq) mpq ppq) mpq ppq = secToTick t mpq ppq := by
    unfold secToTick tickToSec
    have h1 : ((mpq : Nat) : Rat) ≠ 0 := by exact_mod_cast (Nat.pos_iff_ne_zero.mp hm)
    have h2 : ((ppq : Nat) : Rat) ≠ 0 := by exact_mod_cast (Nat.pos_iff_ne_zero.mp hp)
    have : 1000000 * (ppq : Rat) * ((mpq : Rat) * ((roundHalfEven (1000000 * (ppq : Rat) * t / (mpq : Rat)) : Int) : Rat)
        / (1000000 * (ppq : Rat))) / (mpq : Rat) = ((roundHalfEven (1000000 * (ppq : Rat) * t / (mpq : Rat)) : Int) : Rat) := by
      field_simp
    rw [this, Round.roundHalfEven_int]
  unfold perfRoundTrip
  simp only [hfix]

end C08
