/-
C06 — performance MIDI export and import preserve notes, controls and timing.

Theorems about `Model/PerfMidi.lean` (the model mirrors the code after fixes/C06-1 … C06-5).
`q` is the exporter's conversion of seconds to ticks; `quant mpq ppq` is round-half-even of 10^6·ppq·t/mpq.
-/
import PartituraModel.Model.PerfMidi
import PartituraModel.Proofs.C06Adjust
import PartituraModel.Proofs.C06Pair
import PartituraModel.Proofs.C06Export
import PartituraModel.Proofs.C06Ids
import PartituraModel.Proofs.C06Notes
import PartituraModel.Props.C12

namespace C06
open Model Model.PerfMidi C06Sort C06Adjust C06Pair C06Lists C06Export C06Ids C06Notes

-- ================================================================== timing

/-- `adjust_time` over a tempo list in order of tick is the integral of the tempo map:
    Σ_i (min k t_{i+1} − t_i)⁺ · mpq_i / (10^6·ppq) -/
theorem adjust_integral (ppq : Nat) (k t0 : Int) (m0 : Nat) (rest : List (Int × Nat))
    (hk : 0 ≤ k) (hs : SortedFrom 0 ((t0, m0) :: rest)) :
    adjustTime k ((t0, m0) :: rest) ppq = some (integral ppq k (0, m0) ((t0, m0) :: rest)) :=
  adjustTime_eq ppq k t0 m0 rest hk hs

example : SortedFrom 0 [(0, 500000), (480, 250000), (960, 1000000)] := by simp [SortedFrom]
example : adjustTime 1440 [(0, 500000), (480, 250000), (960, 1000000)] 480 = some (7 / 4) := by decide +kernel

/-- later ticks are not earlier in seconds -/
theorem adjust_mono (ppq : Nat) (a b t0 : Int) (m0 : Nat) (rest : List (Int × Nat))
    (ha : 0 ≤ a) (hab : a ≤ b) (hs : SortedFrom 0 ((t0, m0) :: rest)) :
    ∃ x y, adjustTime a ((t0, m0) :: rest) ppq = some x ∧ adjustTime b ((t0, m0) :: rest) ppq = some y ∧ x ≤ y :=
  ⟨_, _, adjustTime_eq ppq a t0 m0 rest ha hs, adjustTime_eq ppq b t0 m0 rest (le_trans ha hab) hs,
    integral_mono ppq a b hab _ _⟩

/-- … and strictly later when every tempo is positive -/
theorem adjust_strict_mono (ppq : Nat) (hp : 0 < ppq) (a b t0 : Int) (m0 : Nat) (rest : List (Int × Nat))
    (ha : 0 ≤ a) (hab : a < b) (hs : SortedFrom 0 ((t0, m0) :: rest)) (hm : 0 < m0) (hpos : AllPos rest) :
    ∃ x y, adjustTime a ((t0, m0) :: rest) ppq = some x ∧ adjustTime b ((t0, m0) :: rest) ppq = some y ∧ x < y :=
  ⟨_, _, adjustTime_eq ppq a t0 m0 rest ha hs, adjustTime_eq ppq b t0 m0 rest (le_trans ha (le_of_lt hab)) hs,
    integral_strictMono ppq hp a b hab (0, m0) _ ha hm hs
      (fun c hc => by rcases List.mem_cons.mp hc with rfl | hc; exact hm; exact hpos c hc)⟩

/-- Tempo changes in ANY track: the loader integrates the default tempo from tick 0 and then every
    `set_tempo` of the file in order of tick (events of one tick in track order), wherever they are.
    [holds for the repaired collection — fixes/C06-2; the examples below are the unrepaired order] -/
theorem adjust_any_track (d : Nat) (tracks : List Track) (ppq : Nat) (k : Int) (hk : 0 ≤ k)
    (hpos : ∀ e ∈ tracks.flatMap temposOf, 0 ≤ e.1) :
    (sortBy tempoLe (tracks.flatMap temposOf)).Perm (tracks.flatMap temposOf) ∧
    (sortBy tempoLe (tracks.flatMap temposOf)).Pairwise (fun a b => a.1 ≤ b.1) ∧
    secondsAt d tracks ppq k = integral ppq k (0, d) (sortBy tempoLe (tracks.flatMap temposOf)) := by
  have hsorted := sorted_sortBy tempoLe tempoLe_total tempoLe_trans (tracks.flatMap temposOf)
  refine ⟨perm_sortBy _ _, ?_, ?_⟩
  · exact hsorted.imp (fun h => by simpa [tempoLe] using h)
  · have hs : SortedFrom 0 ((0, d) :: sortBy tempoLe (tracks.flatMap temposOf)) :=
      ⟨le_refl _, sortedFrom_of_pairwise 0 _ (fun c hc => hpos c ((mem_sortBy _ _ _).mp hc)) hsorted⟩
    unfold secondsAt tempoList
    rw [adjustLoop_eq ppq k 0 0 d _ hk hs, zero_add]
    have : max (min k (0 : Int) - 0) 0 = 0 := by omega
    simp only [integral, this, Int.cast_zero, zero_mul, zero_add]

/-- the candidate F-C06-2 on the model: integrating the tempo changes in the order they are met track by
    track (tempo at tick 1000 in track 0, tick 500 in track 1) does not give the integral -/
example : adjustTime 1000 [(0, 500000), (1000, 1000000), (500, 250000)] 480
    ≠ some (integral 480 1000 (0, 500000) [(500, 250000), (1000, 1000000)]) := by decide +kernel

example : secondsAt 500000 [[(1000, Ev.tempo 1000000)], [(500, Ev.tempo 250000)]] 480 1000
    = integral 480 1000 (0, 500000) [(500, 250000), (1000, 1000000)] := by decide +kernel

/-- Single tempo on export: whatever the performance and the merging on either side, the loader's tempo
    list is the default followed by the exporter's tempo at tick 0, and a time `t` comes back as
    `tickToSec (secToTick t)` — `t` rounded to the tick grid, at most half a tick away -/
theorem export_import_t (mpq ppq d : Nat) (hm : 0 < mpq) (hp : 0 < ppq) (ms ml : Bool) (parts : List PPart)
    (hne : usedTracks (quant mpq ppq) parts ≠ []) (t : Rat) (ht : 0 ≤ t) :
    tempoList d (loaderTracks ml ((savedAbs (quant mpq ppq) mpq ms parts).map toDelta)) = [(0, d), (0, mpq)] ∧
    secondsAt d (loaderTracks ml ((savedAbs (quant mpq ppq) mpq ms parts).map toDelta)) ppq (secToTick t mpq ppq)
      = tickToSec (secToTick t mpq ppq) mpq ppq ∧
    |tickToSec (secToTick t mpq ppq) mpq ppq - t| ≤ (mpq : Rat) / (2 * 1000000 * ppq) := by
  have hm' : (0 : Rat) < (mpq : Rat) := by exact_mod_cast hm
  have hp' : (0 : Rat) < (ppq : Rat) := by exact_mod_cast hp
  have htl : tempoList d (loaderTracks ml ((savedAbs (quant mpq ppq) mpq ms parts).map toDelta))
      = [(0, d), (0, mpq)] := by
    unfold tempoList
    have h1 := sel_file gTempo rfl (quant mpq ppq) mpq ms ml parts
    rw [tempos_exportAbs _ _ _ hne] at h1
    have h2 : (loaderTracks ml ((savedAbs (quant mpq ppq) mpq ms parts).map toDelta)).flatMap temposOf
        = [(0, mpq)] := by
      have : temposOf = sel gTempo := funext temposOf_eq
      rw [this]
      exact List.perm_singleton.mp h1
    rw [h2]
    rfl
  have hk : 0 ≤ secToTick t mpq ppq := by
    have h0 : (0 : Rat) ≤ 1000000 * (ppq : Rat) * t / (mpq : Rat) := by positivity
    have := Round.roundHalfEven_mono h0
    rw [show ((0 : Rat)) = ((0 : Int) : Rat) by norm_num, Round.roundHalfEven_int] at this
    exact this
  refine ⟨htl, ?_, ?_⟩
  · unfold secondsAt
    rw [htl]
    have hnlt : ¬ secToTick t mpq ppq < 0 := not_lt.mpr hk
    simp only [adjustLoop, hnlt, if_false, sub_self, tickToSec_eq, Int.cast_zero, zero_mul, add_zero,
      sub_zero, zero_add]
    rfl
  · have hn := C12.tick_nearest t mpq ppq
    have e : tickToSec (secToTick t mpq ppq) mpq ppq - t
        = ((mpq : Rat) / (1000000 * ppq)) * (((secToTick t mpq ppq : Int) : Rat) - 1000000 * (ppq : Rat) * t / (mpq : Rat)) := by
      unfold tickToSec
      field_simp
    rw [e, abs_mul, abs_of_pos (by positivity : (0 : Rat) < (mpq : Rat) / (1000000 * ppq))]
    calc (mpq : Rat) / (1000000 * ppq) * |((secToTick t mpq ppq : Int) : Rat) - 1000000 * (ppq : Rat) * t / (mpq : Rat)|
        ≤ (mpq : Rat) / (1000000 * ppq) * (1 / 2) := by
          exact mul_le_mul_of_nonneg_left hn (by positivity)
      _ = (mpq : Rat) / (2 * 1000000 * ppq) := by field_simp

-- ================================================================== notes

/-- Pairing: if, for every (channel, pitch) hash, the note messages of a track alternate between a
    note-on and a release (note-off or zero-velocity note-on) of that channel and pitch — no two notes of
    one pitch and channel overlap —, the loader returns, for every hash, exactly the notes the track
    encodes, in order: onset tick and velocity of the note-on, release tick of the release -/
theorem pairing_sound (l : Track) (f : Nat → List RNote) (h : ∀ κ, Alt (proj κ l) (f κ)) (κ : Nat) :
    notesOf κ (pairNotes l) = f κ := by
  unfold pairNotes
  rw [pair_proj κ l (fun _ => none) (fun _ => none) rfl]
  exact pair_alt κ _ _ (h κ) (proj_key κ l) _ rfl

/-- non-vacuity: two pitches interleaved, a zero-velocity release, a note left sounding -/
example : Alt (proj (noteHash 0 60) [(0, Ev.noteOn 0 60 64), (5, Ev.noteOn 1 62 10), (10, Ev.noteOn 0 60 0),
      (10, Ev.noteOn 0 60 70), (12, Ev.control 0 64 127), (20, Ev.noteOff 0 60 0), (30, Ev.noteOff 1 62 64),
      (40, Ev.noteOn 0 60 1)])
    [⟨60, 0, 10, 64, 0⟩, ⟨60, 10, 20, 70, 0⟩] :=
  Alt.pair 0 10 0 60 64 _ _ _ (by decide) (Or.inr rfl)
    (Alt.pair 10 20 0 60 70 _ _ _ (by decide) (Or.inl ⟨0, rfl⟩) (Alt.sounding 40 0 60 1 (by decide)))

/-- overlapping notes of one pitch and channel are outside the statement: the second note-on overwrites -/
example : pairNotes [(0, Ev.noteOn 0 60 64), (5, Ev.noteOn 0 60 10), (10, Ev.noteOff 0 60 0), (20, Ev.noteOff 0 60 0)]
    = [⟨60, 5, 10, 10, 0⟩] := by decide

/-- Ids: the loaded notes are a rearrangement of the paired notes, and the note with id `n<i>` (position i)
    is not after the note with id `n<j>`, i < j, in the lexicographic order of (onset, pitch, offset,
    channel) with the times in seconds — for any tick→seconds conversion that is strictly increasing on
    the non-negative ticks (`adjust_strict_mono`); the track is the same for all notes of a part -/
theorem ids_by_key (l : List RNote) (sec : Int → Rat) (hsec : ∀ x y, 0 ≤ x → x < y → sec x < sec y)
    (hpos : ∀ n ∈ l, 0 ≤ n.on ∧ 0 ≤ n.off) :
    (sortNotes l).Perm l ∧ (sortNotes l).Pairwise (KeyLe sec) := by
  refine ⟨perm_sortBy _ _, ?_⟩
  have hs := sorted_sortBy rnoteLe rnoteLe_total rnoteLe_trans l
  unfold sortNotes
  refine List.Pairwise.imp_of_mem ?_ hs
  intro a b ha _ hab
  exact keyLe_of_rnoteLe sec hsec a b (hpos a ((mem_sortBy _ _ _).mp ha)) hab

example : sortNotes [⟨60, 10, 20, 1, 0⟩, ⟨62, 0, 5, 2, 0⟩, ⟨59, 10, 12, 3, 1⟩, ⟨59, 10, 12, 4, 0⟩]
    = [⟨62, 0, 5, 2, 0⟩, ⟨59, 10, 12, 4, 0⟩, ⟨59, 10, 12, 3, 1⟩, ⟨60, 10, 20, 1, 0⟩] := by decide

/-- Notes survive the round trip, track by track (no merging): if on every track number the notes of one
    (channel, pitch), in the order they are written (part by part, by (note_on, note_off)), each end before
    the next begins, then from file track j — read back from the delta-encoded saved file — the loader pairs,
    for every (channel, pitch), exactly the notes the performance has on its j-th smallest used track
    number: same pitch, velocity and channel, onset and release at the ticks `q note_on`, `q note_off` -/
theorem notes_kept_tracks (q : Rat → Int) (hq : ∀ a b, a ≤ b → q a ≤ q b) (mpq : Nat) (parts : List PPart)
    (hwf : ∀ p ∈ parts, ∀ n ∈ p.notes, n.on ≤ n.off ∧ 0 < n.vel)
    (hno : ∀ tr κ, (keyNotes parts tr κ).Pairwise (fun a b => a.off ≤ b.on)) :
    List.Forall₂ (fun tr t => ∀ κ, notesOf κ (pairNotes t) = (keyNotes parts tr κ).map (toR q))
      (usedTracks q parts) (loaderTracks false ((savedAbs q mpq false parts).map toDelta)) := by
  have hmem : ∀ tr κ, ∀ n ∈ keyNotes parts tr κ, n.on ≤ n.off ∧ 0 < n.vel := by
    intro tr κ n hn
    unfold keyNotes at hn
    obtain ⟨p, hp, hn⟩ := List.mem_flatMap.mp hn
    exact hwf p hp n ((mem_sortBy _ _ _).mp (List.mem_filter.mp hn).1)
  have key : ∀ tr (t : Track), (∀ κ, proj κ t = proj κ (trackAbs (insertAll q parts) tr)) →
      ∀ κ, notesOf κ (pairNotes t) = (keyNotes parts tr κ).map (toR q) := by
    intro tr t ht κ
    refine pairing_sound t (fun κ => (keyNotes parts tr κ).map (toR q)) ?_ κ
    intro κ'
    rw [ht κ', proj_trackAbs q hq parts tr κ' (fun n hn => (hmem tr κ' n hn).1) (hno tr κ')]
    exact noteMsgs_alt q _ (fun n hn => (hmem tr κ' n hn).2)
  rw [loaderTracks_saved, List.forall₂_map_right_iff]
  refine forall₂_exportAbs _ q mpq parts ?_ ?_
  · intro tr
    refine key tr _ ?_
    intro κ
    rw [proj_eq_sel, proj_eq_sel, sel_fixEot _ (gK_eot κ), sel_cons_none _ _ _ (gK_tempo κ mpq)]
  · intro tr
    refine key tr _ ?_
    intro κ
    rw [proj_eq_sel, proj_eq_sel, sel_fixEot _ (gK_eot κ)]

/-- The proviso of the property for one performed part: no two notes of the same track, channel and pitch
    overlap (as half-open intervals; the list may be in any order) — then the written order is the order
    in time and `notes_kept_tracks` applies; with the exporter's own rounding -/
theorem notes_kept_part (mpq ppq : Nat) (p : PPart)
    (hwf : ∀ n ∈ p.notes, n.on ≤ n.off ∧ 0 < n.vel)
    (hap : p.notes.Pairwise (fun a b => a.track = b.track → noteHash a.ch a.pitch = noteHash b.ch b.pitch → Apart a b)) :
    List.Forall₂ (fun tr t => ∀ κ, notesOf κ (pairNotes t) = (keyNotes [p] tr κ).map (toR (quant mpq ppq)))
      (usedTracks (quant mpq ppq) [p])
      (loaderTracks false ((savedAbs (quant mpq ppq) mpq false [p]).map toDelta)) := by
  refine notes_kept_tracks (quant mpq ppq) (quant_mono mpq ppq) mpq [p] ?_ ?_
  · intro p' hp'
    rw [List.mem_singleton] at hp'
    subst hp'
    exact hwf
  · intro tr κ
    exact keyNotes_single p tr κ (fun n hn => (hwf n hn).1) hap

/-- non-vacuity, and the witness of fixes/C06-4: two touching notes of one pitch listed in reverse order,
    a third on another channel overlapping both -/
example : let p : PPart := { metaOther := [], keySigs := [], timeSigs := [], controls := [],
                             notes := [⟨60, 70, 0, 0, 1, 2⟩, ⟨60, 64, 0, 0, 0, 1⟩, ⟨60, 5, 1, 0, 1/2, 3/2⟩],
                             programs := [] }
    p.notes.Pairwise (fun a b => a.track = b.track → noteHash a.ch a.pitch = noteHash b.ch b.pitch → Apart a b) ∧
    ((loaderTracks false ((savedAbs (quant 500000 480) 500000 false [p]).map toDelta)).map
        (fun t => sortNotes (pairNotes t)))
      = [[⟨60, 0, 960, 64, 0⟩, ⟨60, 480, 1440, 5, 1⟩, ⟨60, 960, 1920, 70, 0⟩]] := by
  refine ⟨?_, by decide +kernel⟩
  simp [Apart, noteHash]

-- ================================================================== controls, programs, signatures, meta

/-- Without merging: file track j, as the loader reads it back from the delta-encoded saved file, holds
    exactly the controls (tick, number, value, channel) the performance has on its j-th smallest used
    track number (as a multiset) -/
theorem controls_kept_tracks (q : Rat → Int) (mpq : Nat) (parts : List PPart) :
    List.Forall₂ (fun tr t => (controlsOf t).Perm (perfControls q parts tr))
      (usedTracks q parts) (loaderTracks false ((savedAbs q mpq false parts).map toDelta)) := by
  rw [loaderTracks_saved, List.forall₂_map_right_iff]
  refine (sel_exportAbs gCtl (by intros; rfl) (by intros; rfl) q mpq parts).imp ?_
  intro tr t h
  rw [controlsOf_eq, sel_fixEot gCtl rfl]
  have : (fun p => evI gCtl tr (partEvents q p))
      = fun p => (p.controls.filter (fun c => decide (c.track = tr))).map fun c => (q c.time, c.num, c.val, c.ch) :=
    funext (evI_ctl_part q tr)
  rw [this] at h
  exact h

/-- With or without merging on either side: the multiset of controls read from the whole file is the
    multiset of controls of the performance -/
theorem controls_kept (q : Rat → Int) (mpq : Nat) (ms ml : Bool) (parts : List PPart) :
    ((loaderTracks ml ((savedAbs q mpq ms parts).map toDelta)).flatMap controlsOf).Perm
      ((usedTracks q parts).flatMap (perfControls q parts)) := by
  have hc : controlsOf = sel gCtl := funext controlsOf_eq
  have : (fun tr => parts.flatMap fun p => evI gCtl tr (partEvents q p)) = perfControls q parts := by
    funext tr; unfold perfControls; congr 1; funext p; exact evI_ctl_part q tr p
  rw [hc, ← this]
  exact sel_file_perf gCtl rfl (by intros; rfl) (by intros; rfl) q mpq ms ml parts

/-- the same for time signatures, key signatures and other meta events (up to `end_of_track`) -/
theorem signatures_meta_kept (q : Rat → Int) (mpq : Nat) (ms ml : Bool) (parts : List PPart) :
    ((loaderTracks ml ((savedAbs q mpq ms parts).map toDelta)).flatMap timeSigsOf).Perm
      ((usedTracks q parts).flatMap (perfTimeSigs q parts)) ∧
    ((loaderTracks ml ((savedAbs q mpq ms parts).map toDelta)).flatMap keySigsOf).Perm
      ((usedTracks q parts).flatMap (perfKeySigs q parts)) ∧
    ((loaderTracks ml ((savedAbs q mpq ms parts).map toDelta)).flatMap (fun t => realMetas (metasOf t))).Perm
      ((usedTracks q parts).flatMap (perfMetas q parts)) := by
  refine ⟨?_, ?_, ?_⟩
  · have hc : timeSigsOf = sel gTime := funext timeSigsOf_eq
    have : (fun tr => parts.flatMap fun p => evI gTime tr (partEvents q p)) = perfTimeSigs q parts := by
      funext tr; unfold perfTimeSigs; congr 1; funext p; exact evI_time_part q tr p
    rw [hc, ← this]
    exact sel_file_perf gTime rfl (by intros; rfl) (by intros; rfl) q mpq ms ml parts
  · have hc : keySigsOf = sel gKey := funext keySigsOf_eq
    have : (fun tr => parts.flatMap fun p => evI gKey tr (partEvents q p)) = perfKeySigs q parts := by
      funext tr; unfold perfKeySigs; congr 1; funext p; exact evI_key_part q tr p
    rw [hc, ← this]
    exact sel_file_perf gKey rfl (by intros; rfl) (by intros; rfl) q mpq ms ml parts
  · have hc : (fun t => realMetas (metasOf t)) = sel gMeta := funext realMetas_metasOf
    have : (fun tr => parts.flatMap fun p => evI gMeta tr (partEvents q p)) = perfMetas q parts := by
      funext tr; unfold perfMetas; congr 1; funext p; exact evI_meta_part q tr p
    rw [hc, ← this]
    exact sel_file_perf gMeta rfl (by intros; rfl) (by intros; rfl) q mpq ms ml parts

/-- non-vacuity: a part on track numbers 0 and 2 without programs (default program inserted), merged on
    load: the used tracks, the single tempo, the controls and programs read back -/
example : let p : PPart := { metaOther := [⟨3, none, 0⟩, ⟨1/4, some 2, 2⟩], keySigs := [⟨0, -3, true, 0⟩],
                             timeSigs := [⟨0, 6, 8, 2⟩], controls := [⟨1/3, 64, 127, 1, 2⟩, ⟨0, 7, 100, 0, 0⟩],
                             notes := [⟨60, 64, 0, 0, 1/2, 1⟩], programs := [] }
    let tracks := loaderTracks true ((savedAbs (quant 500000 480) 500000 false [p]).map toDelta)
    usedTracks (quant 500000 480) [p] = [0, 2] ∧
    tempoList 500000 tracks = [(0, 500000), (0, 500000)] ∧
    tracks.flatMap controlsOf = [(0, 7, 100, 0), (320, 64, 127, 1)] ∧
    tracks.flatMap programsOf = [(0, 0, 0), (0, 0, 1)] ∧
    tracks.flatMap (fun t => realMetas (metasOf t)) = [(240, 2)] := by decide +kernel

/-- Programs, per track: what is read is what the performance has, plus `program_change 0` only
    (the default program written for the channels of a part without programs) -/
theorem programs_kept_tracks (q : Rat → Int) (mpq : Nat) (parts : List PPart) :
    List.Forall₂ (fun tr t => ∃ d : List (Int × Nat × Nat), (∀ x ∈ d, x.2.1 = 0) ∧
        (programsOf t).Perm (perfPrograms q parts tr ++ d))
      (usedTracks q parts) (loaderTracks false ((savedAbs q mpq false parts).map toDelta)) := by
  rw [loaderTracks_saved, List.forall₂_map_right_iff]
  refine (prog_exportAbs q mpq parts).imp ?_
  intro tr t h
  rw [programsOf_eq, sel_fixEot gProg rfl]
  exact h

/-- time signatures, per track -/
theorem time_signatures_kept_tracks (q : Rat → Int) (mpq : Nat) (parts : List PPart) :
    List.Forall₂ (fun tr t => (timeSigsOf t).Perm (perfTimeSigs q parts tr))
      (usedTracks q parts) (loaderTracks false ((savedAbs q mpq false parts).map toDelta)) := by
  rw [loaderTracks_saved, List.forall₂_map_right_iff]
  refine (sel_exportAbs gTime (by intros; rfl) (by intros; rfl) q mpq parts).imp ?_
  intro tr t h
  rw [timeSigsOf_eq, sel_fixEot gTime rfl]
  have : (fun p => evI gTime tr (partEvents q p))
      = fun p => (p.timeSigs.filter (fun c => decide (c.track = tr))).map fun c => (q c.time, c.num, c.den) :=
    funext (evI_time_part q tr)
  rw [this] at h
  exact h

/-- key signatures, per track -/
theorem key_signatures_kept_tracks (q : Rat → Int) (mpq : Nat) (parts : List PPart) :
    List.Forall₂ (fun tr t => (keySigsOf t).Perm (perfKeySigs q parts tr))
      (usedTracks q parts) (loaderTracks false ((savedAbs q mpq false parts).map toDelta)) := by
  rw [loaderTracks_saved, List.forall₂_map_right_iff]
  refine (sel_exportAbs gKey (by intros; rfl) (by intros; rfl) q mpq parts).imp ?_
  intro tr t h
  rw [keySigsOf_eq, sel_fixEot gKey rfl]
  have : (fun p => evI gKey tr (partEvents q p))
      = fun p => (p.keySigs.filter (fun c => decide (c.track = tr))).map fun c => (q c.time, c.fifths, c.minor) :=
    funext (evI_key_part q tr)
  rw [this] at h
  exact h

/-- other meta events, per track, up to `end_of_track` (mido moves it to the end of the track) -/
theorem meta_kept_tracks (q : Rat → Int) (mpq : Nat) (parts : List PPart) :
    List.Forall₂ (fun tr t => (realMetas (metasOf t)).Perm (perfMetas q parts tr))
      (usedTracks q parts) (loaderTracks false ((savedAbs q mpq false parts).map toDelta)) := by
  rw [loaderTracks_saved, List.forall₂_map_right_iff]
  refine (sel_exportAbs gMeta (by intros; rfl) (by intros; rfl) q mpq parts).imp ?_
  intro tr t h
  rw [realMetas_metasOf, sel_fixEot gMeta rfl]
  have : (fun p => evI gMeta tr (partEvents q p))
      = fun p => (p.metaOther.filter (fun c => decide (c.track = tr))).filterMap fun c => c.id.map fun i => (q c.time, i) :=
    funext (evI_meta_part q tr)
  rw [this] at h
  exact h

-- ================================================================== merging, delta times

/-- mido's `merge_tracks` (in absolute ticks): the merged track is in order of tick and holds, apart from
    `end_of_track`, exactly the (tick, message) pairs of the tracks -/
theorem merge_tracks (ts : List Track) :
    ((mergeAbs ts).filter (fun m => !isEot m.2)).Perm (ts.flatten.filter (fun m => !isEot m.2)) ∧
    (mergeAbs ts).Pairwise (fun a b => a.1 ≤ b.1) := by
  constructor
  · unfold mergeAbs
    rw [filter_fixEot]
    exact (perm_sortBy tickLe ts.flatten).filter _
  · unfold mergeAbs
    refine sorted_fixEot _ ?_
    exact (sorted_sortBy tickLe tickLe_total tickLe_trans ts.flatten).imp (fun h => by simpa [tickLe] using h)

example : mergeAbs [[(0, Ev.tempo 500000), (10, Ev.noteOn 0 60 64), (20, Ev.noteOff 0 60 0), (20, Ev.eot)],
                    [(5, Ev.control 0 64 127), (10, Ev.noteOn 1 62 64), (30, Ev.noteOff 1 62 0), (30, Ev.eot)]]
    = [(0, Ev.tempo 500000), (5, Ev.control 0 64 127), (10, Ev.noteOn 0 60 64), (10, Ev.noteOn 1 62 64),
       (20, Ev.noteOff 0 60 0), (30, Ev.noteOff 1 62 0), (30, Ev.eot)] := by decide

/-- delta encoding loses nothing: reading the delta times back gives the absolute ticks -/
theorem delta_roundtrip (l : Track) : toAbs (toDelta l) = l := toAbs_toDelta l

end C06
