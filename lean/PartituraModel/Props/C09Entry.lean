/-
C09, round 5 — the public entry points and the note ids.

* the literals and the argument dispatch of the entry points are the ones `harness/translate_c09.py` reads off the LIVE
  code on every run (Gen/C09Lits.lean): `lits_extracted`, `dropped_classes_are_source`, `id_format_is_source`,
  `segment_ids_are_source`, `entry_defaults_and_flags`;
* what every entry point computes, in terms of `mkSegments` / `getPaths` / `variant` / `suffixIds`
  (`unfold_part_maximal_is`, `unfold_part_minimal_is`, `iter_unfolded_parts_is`, `unfold_score_is_partwise`);
* END-TO-END statements for a call of `unfold_part_maximal` / any enumerated path with NO side condition other than the
  call having returned: `unfold_part_maximal_sound`, `unfolding_never_misses_a_segment`, `ids_are_visit_numbers`
  (the hypotheses `OffsetsOK`, positive lengths, `DisjointSegs` of Props/C09 and C09Ext are discharged from
  `add_segments` and `get_paths`);
* ids of ANY shape, duplicates included: `suffix_unambiguous`, `suffixed_ids_distinct`, `ids_rank_order`;
* r disjoint simple repeats through the entry points: `iter_unfolded_parts_count`, `unfold_part_maximal_simple_repeats`.
-/
import PartituraModel.Props.C09Ext
import PartituraModel.Proofs.C09Entry
import PartituraModel.Model.UnfoldIds

namespace C09
open Model.Unfold

/-! ## the tie to the source -/

/-- every probe of the translator succeeded; ids of every shape ('m3-2', 'a' / 'a-1' / 'a-1-1', '7', '-', 'n-', '-5',
'x--2', 'n-01', …) get exactly the separator and the first number appended by the live function, a note without an id
keeps None, of two notes with one id the earlier onset gets the first number -/
theorem lits_extracted :
    Gen.C09.OK = true ∧ Gen.C09.NOTES = [] ∧ Gen.C09.ID_SHAPES_OK = true ∧ Gen.C09.ID_NONE_KEPT = true ∧
    Gen.C09.ID_RANK_BY_ONSET = true := by decide

/-- the kinds the model drops are exactly the classes whose instances the live `create_variant_part` does not copy
(Repeat, Ending, ToCoda, DaCapo, DalSegno, Segment, System, Page); every other kind stands for a class the live code
copies (Fine, Segno and Coda among them: they are marks, not jump instructions) -/
theorem dropped_classes_are_source (k : Kind) :
    k.dropped = Gen.C09.DROPPED.contains k.className ∧
    (k.dropped = false → Gen.C09.KEPT.contains k.className = true) ∧
    Gen.C09.DROPPED.length = 8 ∧ (∀ c ∈ ["Fine", "Segno", "Coda"], Gen.C09.KEPT.contains c = true) := by
  cases k <;> decide

/-- the suffix of the model is the suffix of the live function: separator and first number -/
theorem id_format_is_source (s : String) (k : Nat) :
    s ++ "-" ++ toString (1 + k) = s ++ Gen.C09.ID_SEP ++ toString (Gen.C09.ID_FIRST + k) := rfl

/-- the segment ids of the model (`chr(65 + i)`, `"END"`) are those the live `add_segments` hands out -/
theorem segment_ids_are_source (i : Nat) : segId i = [Gen.C09.SEG_ID_BASE + i] ∧ endId = Gen.C09.END := ⟨rfl, rfl⟩

/-- the defaults of the signatures and the flags that reach `get_paths` / `new_part_from_path` from each entry point, as
recorded on the live code: maximal = (no_repeats False, all_repeats True, the caller's ignore_leaps, the caller's
update_ids) for a Part and for a Score alike; minimal = (True, False, True, no ids); all variants = (False, False, True,
the caller's update_ids); `ignore_leaps` defaults to True and `get_paths` to (False, False, True), as documented.  (The
default of `update_ids` is not pinned: the signatures say True, the docstrings False, the property "on request"; the
theorems below are stated for whatever the live signature says — `Gen.C09.MAX_DEF.1`, `ITER_DEF`, `NEWPART_DEF`.) -/
theorem entry_defaults_and_flags :
    Gen.C09.MAX_DEF.2 = true ∧ Gen.C09.PATHS_DEF = (false, false, true) ∧
    Gen.C09.maximalCall = (.const false, .const true, .ignoreLeaps, .updateIds) ∧
    Gen.C09.maximalScoreCall = Gen.C09.maximalCall ∧
    Gen.C09.minimalCall = (.const true, .const false, .const true, .const false) ∧
    Gen.C09.minimalScoreCall = Gen.C09.minimalCall ∧
    Gen.C09.iterCall = (.const false, .const false, .const true, .updateIds) ∧
    Gen.C09.variantsCall = (.const false, .const false, .const true, .const false) ∧
    Gen.C09.maximalPick = [0] ∧ Gen.C09.maximalScorePick = [0] ∧ Gen.C09.minimalPick = [0] ∧
    Gen.C09.minimalScorePick = [0] ∧ Gen.C09.iterPick = [0, 1] := by decide

/-! ## what the entry points compute -/

/-- `new_part_from_path`: the visits of the path, `create_variant_part`, ids on request (default: that of the live signature) -/
theorem new_part_from_path_is (g : List Seg) (p : APart) (path : List Nat) (upd : Option Bool) :
    newPartFromPath g p path upd = (visitsOf g path).map fun vs =>
      if upd.getD Gen.C09.NEWPART_DEF then { variant p vs with objs := suffixIds (variant p vs).objs }
      else variant p vs := rfl

/-- `unfold_part_maximal(part, update_ids, ignore_leaps)`: the FIRST path of the enumeration with all repeats taken
(`no_repeats=False, all_repeats=True, ignore_leap_info=ignore_leaps`), unfolded with `update_ids` (default: that of the live signature; `ignore_leaps` defaults to True) -/
theorem unfold_part_maximal_is (L : Layout) (p : APart) (upd il : Option Bool) (fuel : Nat) :
    unfoldPartMaximal L p upd il fuel =
      (mkSegments L).bind fun g => (getPaths g false true (il.getD true) fuel).bind fun ps =>
        ps.head?.bind fun path => newPartFromPath g p path (some (upd.getD Gen.C09.MAX_DEF.1)) := by
  unfold unfoldPartMaximal unfoldWith getPathsPart firstPath
  cases mkSegments L with
  | none => rfl
  | some g =>
    simp only [Option.bind_some, Option.getD_some]
    show ((getPaths g false true (il.getD true) fuel).map fun ps => (g, ps)).bind _ >>= _ = _
    cases getPaths g false true (il.getD true) fuel with
    | none => rfl
    | some ps =>
      cases ps with
      | nil => rfl
      | cons a rest =>
        simp only [Option.map_some, Option.bind_some, List.head?_cons, List.mapM_cons, List.mapM_nil]
        show (newPartFromPath g p a (some (upd.getD Gen.C09.MAX_DEF.1)) >>= fun x => pure [x]) >>= _ = _
        cases newPartFromPath g p a (some (upd.getD Gen.C09.MAX_DEF.1)) <;> rfl

/-- `unfold_part_minimal(part)`: the first path of the enumeration without repeats, ids never updated -/
theorem unfold_part_minimal_is (L : Layout) (p : APart) (fuel : Nat) :
    unfoldPartMinimal L p fuel =
      (mkSegments L).bind fun g => (getPaths g true false true fuel).bind fun ps =>
        ps.head?.bind fun path => newPartFromPath g p path (some false) := by
  unfold unfoldPartMinimal unfoldWith getPathsPart firstPath
  cases mkSegments L with
  | none => rfl
  | some g =>
    simp only [Option.bind_some, Option.getD_some]
    show ((getPaths g true false true fuel).map fun ps => (g, ps)).bind _ >>= _ = _
    cases getPaths g true false true fuel with
    | none => rfl
    | some ps =>
      cases ps with
      | nil => rfl
      | cons a rest =>
        simp only [Option.map_some, Option.bind_some, List.head?_cons, List.mapM_cons, List.mapM_nil]
        show (newPartFromPath g p a (some false) >>= fun x => pure [x]) >>= _ = _
        cases newPartFromPath g p a (some false) <;> rfl

/-- `iter_unfolded_parts(part, update_ids)`: every path of the full enumeration (`False, False, True`), in order -/
theorem iter_unfolded_parts_is (L : Layout) (p : APart) (upd : Option Bool) (fuel : Nat) :
    iterUnfoldedParts L p upd fuel =
      (mkSegments L).bind fun g => (getPaths g false false true fuel).bind fun ps =>
        ps.mapM fun path => newPartFromPath g p path (some (upd.getD Gen.C09.ITER_DEF)) := by
  unfold iterUnfoldedParts unfoldWith getPathsPart
  cases mkSegments L with
  | none => rfl
  | some g =>
    simp only [Option.bind_some, Option.getD_some]
    show ((getPaths g false false true fuel).map fun ps => (g, ps)).bind _ = _
    cases getPaths g false false true fuel <;> rfl

/-- unfolding a Score is unfolding each of its parts with the caller's arguments (maximal and minimal) -/
theorem unfold_score_is_partwise (parts : List (Layout × APart)) (upd il : Option Bool) (fuel : Nat) :
    unfoldScoreMaximal parts upd il fuel = parts.mapM (fun lp => unfoldPartMaximal lp.1 lp.2 upd il fuel) ∧
    unfoldScoreMinimal parts fuel = parts.mapM (fun lp => unfoldPartMinimal lp.1 lp.2 fuel) := ⟨rfl, rfl⟩

/-! ## ids of any shape, duplicates included -/

/-- The suffixed id can be read back: `<id>-<number>` determines the original id and the number WHATEVER the original id
looks like (it may end in `-<n>`, contain the separator, be a number, be a prefix or a suffixed form of another id):
the number is the part after the LAST separator. -/
theorem suffix_unambiguous (s t : String) (a b : Nat) (h : s ++ "-" ++ toString a = t ++ "-" ++ toString b) :
    s = t ∧ a = b :=
  suffix_unambiguous_aux s t a b h

-- non-vacuity: 'a' on its 11th visit and 'a-1' on its first one
example : ("a" ++ "-" ++ toString 11 = "a-11") ∧ ("a-1" ++ "-" ++ toString 1 = "a-1-1") ∧
    ("m3-2" ++ "-" ++ toString 1 = "m3-2-1") := by decide

/-- Among the notes that share an id (in ANY list of copies: unique or duplicate ids in the original), the one that comes
first in `sorted(part.notes, key=start)` — earlier onset; at one onset Note before GraceNote, then order of registration —
gets the smaller number. -/
theorem ids_rank_order (out : List OObj) (i j : Nat) (x y : OObj) (hx : out[i]? = some x) (hy : out[j]? = some y)
    (hkx : x.kind = .note) (hid : x.nid = y.nid) (hb : noteBefore (i, x) j y = true) :
    idRank out i x < idRank out j y :=
  idRank_lt out i j x y hx hy hkx hid hb

/-- After `update_note_ids_after_unfolding` no two notes carry the same id — for EVERY list of copies and every shape of
the original ids, duplicates in the original included (a note without an id keeps None). -/
theorem suffixed_ids_distinct (out : List OObj) (i j : Nat) (x y : OObj)
    (hx : (suffixIds out)[i]? = some x) (hy : (suffixIds out)[j]? = some y)
    (hkx : x.kind = .note) (hky : y.kind = .note) (hnx : x.nid ≠ none) (hid : x.nid = y.nid) : i = j := by
  have key : ∀ (k : Nat) (z : OObj), (suffixIds out)[k]? = some z → z.kind = .note → z.nid ≠ none →
      ∃ c s, out[k]? = some c ∧ c.kind = .note ∧ c.nid = some s ∧
        z.nid = some (s ++ "-" ++ toString (idRank out k c)) := by
    intro k z hz hk hn
    cases hc : out[k]? with
    | none =>
      have : (suffixIds out)[k]? = none := by
        unfold suffixIds; rw [List.getElem?_map, enum_get, hc]; rfl
      rw [this] at hz; cases hz
    | some c =>
      have he : (enum 0 out)[k]? = some (k, c) := by rw [enum_get, hc]; simp
      obtain ⟨c', h1, _, _, h4, _, _, _, _, h9⟩ := ids_suffixed_rank out k c he
      rw [hz] at h1
      simp only [Option.some.injEq] at h1
      subst h1
      have hck : c.kind = .note := by rw [← h4]; exact hk
      rw [hck] at h9
      cases hcn : c.nid with
      | none => rw [hcn] at h9; exact absurd h9 hn
      | some s => rw [hcn] at h9; exact ⟨c, s, rfl, hck, hcn, h9⟩
  obtain ⟨cx, s, hcx, hkcx, hncx, hxn⟩ := key i x hx hkx hnx
  obtain ⟨cy, t, hcy, hkcy, hncy, hyn⟩ := key j y hy hky (by rw [← hid]; exact hnx)
  rw [hxn, hyn] at hid
  simp only [Option.some.injEq] at hid
  obtain ⟨hst, hrank⟩ := suffix_unambiguous s t _ _ hid
  by_cases hij : i = j
  · exact hij
  · exact absurd hrank (idRank_ne out i j cx cy hcx hcy hkcx hkcy (by rw [hncx, hncy, hst]) hij)

-- non-vacuity: the ids 'a', 'a' (a duplicate) and 'a-1': the copies get 'a-1', 'a-2', 'a-1-1'
example : (suffixIds
    [{ orig := 0, visit := 0, kind := .note, start := 0, stp := some 1, payload := [], nid := some "a", refs := [] },
     { orig := 1, visit := 0, kind := .note, start := 2, stp := some 3, payload := [], nid := some "a", refs := [] },
     { orig := 2, visit := 0, kind := .note, start := 1, stp := some 2, payload := [], nid := some "a-1", refs := [] }]).map (·.nid)
    = [some "a-1", some "a-2", some "a-1-1"] := by decide

-- … and at one onset a Note is numbered before a GraceNote with the same id, whatever the order of registration
example : (suffixIds
    [{ orig := 0, visit := 0, kind := .note, start := 0, stp := some 0, payload := [], nid := some "d", refs := [], cls := 1 },
     { orig := 1, visit := 0, kind := .note, start := 0, stp := some 1, payload := [], nid := some "d", refs := [] }]).map (·.nid)
    = [some "d-2", some "d-1"] := by decide

/-! ## end to end: a call of an entry point -/

/-- `new_part_from_path` never misses a segment (no KeyError) on a path the enumeration produced. -/
theorem unfolding_never_misses_a_segment (g : List Seg) (nr ar il : Bool) (fuel : Nat) (ps : List (List Nat))
    (h : getPaths g nr ar il fuel = some ps) (path : List Nat) (hp : path ∈ ps) (p : APart) (upd : Option Bool) :
    ∃ vs v, visitsOf g path = some vs ∧ newPartFromPath g p path upd = some v := by
  obtain ⟨_, hw, l, hl, s, hs, _⟩ := paths_are_walks g nr ar il fuel ps h path hp
  obtain ⟨vs, hvs⟩ := visitsFrom_some g path 0 (walk_indices g path hw (fun l' hl' => by
    rw [hl] at hl'; simp only [Option.some.injEq] at hl'; subst hl'; exact ⟨s, hs⟩))
  have hvs' : visitsOf g path = some vs := hvs
  exact ⟨vs, if upd.getD Gen.C09.NEWPART_DEF then { variant p vs with objs := suffixIds (variant p vs).objs } else variant p vs, hvs',
    by rw [new_part_from_path_is, hvs']; rfl⟩

/-- What a successful call `unfold_part_maximal(part, update_ids, ignore_leaps)` returns, with NO side condition: there
are the segment table of `add_segments`, the first path of the all-repeats enumeration and its visits such that
 * the path is permitted: it starts at the first segment, every step is a destination of the table, its last segment
   reaches END;
 * the offsets are the running sums of the visited segments' lengths, every visited segment has positive length, the
   segments are pairwise disjoint;
 * the time points, the quarter durations and the objects are those of `create_variant_part` along these visits, the
   ids suffixed exactly when `update_ids` (default: the live signature's).
Everything Props/C09 proves about `variant p vs` under `OffsetsOK 0 vs`, positive lengths and `DisjointSegs g` therefore
holds for the returned part. -/
theorem unfold_part_maximal_sound (L : Layout) (p : APart) (upd il : Option Bool) (fuel : Nat) (v : Variant)
    (h : unfoldPartMaximal L p upd il fuel = some v) :
    ∃ (g : List Seg) (ps : List (List Nat)) (path : List Nat) (vs : List Visit),
      mkSegments L = some g ∧ getPaths g false true (il.getD true) fuel = some ps ∧ ps.head? = some path ∧
      visitsOf g path = some vs ∧
      path.head? = some 0 ∧ Walk g path ∧ (∃ l, path.getLast? = some l ∧ Edge g l .fin) ∧
      OffsetsOK 0 vs ∧ visitLens vs = path.map (segLen g) ∧ (∀ w ∈ vs, w.s < w.e) ∧ DisjointSegs g ∧
      v.points = (variant p vs).points ∧ v.qd = (variant p vs).qd ∧
      v.objs = (if upd.getD Gen.C09.MAX_DEF.1 then suffixIds (variant p vs).objs else (variant p vs).objs) := by
  rw [unfold_part_maximal_is] at h
  cases hg : mkSegments L with
  | none => simp [hg] at h
  | some g =>
    simp only [hg, Option.bind_some] at h
    cases hps : getPaths g false true (il.getD true) fuel with
    | none => simp [hps] at h
    | some ps =>
      simp only [hps, Option.bind_some] at h
      cases hpath : ps.head? with
      | none => simp [hpath] at h
      | some path =>
        simp only [hpath, Option.bind_some, newPartFromPath] at h
        cases hvs : visitsOf g path with
        | none => simp [hvs] at h
        | some vs =>
          simp only [hvs, Option.map_some, Option.some.injEq, Option.getD_some] at h
          have hmem : path ∈ ps := List.mem_of_mem_head? hpath
          obtain ⟨w1, w2, w3⟩ := paths_are_walks g false true (il.getD true) fuel ps hps path hmem
          obtain ⟨o1, o2, _⟩ := offsets_are_prefix_sums g path vs hvs
          have hposv : ∀ w ∈ vs, w.s < w.e := by
            intro w hw
            obtain ⟨k, hk⟩ := List.getElem?_of_mem hw
            obtain ⟨j, sg, _, hsg, e1, e2⟩ := visits_get g path vs hvs k w hk
            have := mkSegments_pos L g hg j sg hsg
            omega
          refine ⟨g, ps, path, vs, rfl, hps, hpath, hvs, w1, w2, w3, o1, o2, hposv, segments_disjoint L g hg, ?_, ?_, ?_⟩
          all_goals (subst h; cases upd.getD Gen.C09.MAX_DEF.1 <;> rfl)

/-- Ids on request, END TO END: for the segment table of ANY part and ANY list of segment numbers that has visits (every
enumerated path has: `unfolding_never_misses_a_segment`), in a part whose notes have unique ids the copy `c` made in
visit number `c.visit` (0-based position in the path) of a note with id `s` gets `s-<n>` where `n` = 1 + the number of
EARLIER occurrences of that visit's segment in the path — the visit number — and nothing else of the copy changes.  No
hypothesis on offsets, lengths or disjointness is left: they follow from `add_segments`. -/
theorem ids_are_visit_numbers (L : Layout) (g : List Seg) (hg : mkSegments L = some g) (path : List Nat)
    (vs : List Visit) (hvs : visitsOf g path = some vs) (p : APart) (huniq : UniqueNoteIds p.objs)
    (pos : Nat) (c : OObj) (hc : (variant p vs).objs[pos]? = some c) (hk : c.kind = .note) (s : String)
    (hn : c.nid = some s) :
    ∃ (j : Nat) (c' : OObj), path[c.visit]? = some j ∧ (suffixIds (variant p vs).objs)[pos]? = some c' ∧
      c'.nid = some (s ++ "-" ++ toString (1 + (path.take c.visit).count j)) ∧
      c'.orig = c.orig ∧ c'.visit = c.visit ∧ c'.kind = c.kind ∧ c'.start = c.start ∧ c'.stp = c.stp ∧
      c'.payload = c.payload ∧ c'.refs = c.refs := by
  obtain ⟨hoff, _, _⟩ := offsets_are_prefix_sums g path vs hvs
  have hposv : ∀ w ∈ vs, w.s < w.e := by
    intro w hw
    obtain ⟨k, hk'⟩ := List.getElem?_of_mem hw
    obtain ⟨j, sg, _, hsg, e1, e2⟩ := visits_get g path vs hvs k w hk'
    have := mkSegments_pos L g hg j sg hsg
    omega
  obtain ⟨o, c', ho, h1, h2, h3, h4, h5, h6, h7, h8, h9⟩ := ids_suffixed p vs hoff hposv huniq pos c hc hk s hn
  -- the visit of the copy and its segment
  have hcm : c ∈ variantObjs p.objs 0 vs [] := List.mem_of_getElem? hc
  have hcx : c.extra = false := by
    cases hx : c.extra with
    | false => rfl
    | true => have := out_extra_kind p.objs vs c hcm hx; rw [hk] at this; cases this
  obtain ⟨vc, o', hvc, ho', hwc, _, _, _, _⟩ := out_elem p.objs vs c hcm hcx
  rw [ho] at ho'
  simp only [Option.some.injEq] at ho'
  subst ho'
  obtain ⟨j, sg, hj, hsg, e1, e2⟩ := visits_get g path vs hvs c.visit vc hvc
  have hin : sg.start ≤ o.start ∧ o.start < sg.stp := by
    simp only [inWin, Bool.and_eq_true, decide_eq_true_eq] at hwc
    omega
  have hcount := ids_suffixed_visit_number g path vs hvs (segments_disjoint L g hg) o j sg hsg hin c.visit
  refine ⟨j, c', hj, h1, ?_, h3, h4, h5, h6, h7, h8, h9⟩
  rw [h2, hcount]

/-- The segments `add_segments` builds for ANY part (any arrangement of repeats, endings and marks it accepts) tile the
timeline: every segment has positive length and ends where the next one starts — so the sum of the lengths of
consecutive segments is the time they span and no time belongs to two segments (`segments_disjoint`). -/
theorem segments_tile (L : Layout) (g : List Seg) (h : mkSegments L = some g) :
    (∀ (i : Nat) (s : Seg), g[i]? = some s → s.start < s.stp) ∧
    (∀ (i : Nat) (s t : Seg), g[i]? = some s → g[i + 1]? = some t → s.stp = t.start) :=
  ⟨mkSegments_pos L g h, mkSegments_contiguous L g h⟩

-- non-vacuity: a repeat with two endings and a da capo al fine: five segments
example :
    let L : Layout := { first := 0, last := 20, repeats := [(0, 12)], endings := [(8, 12, [1]), (12, 16, [2])],
                        fines := [4], dacapos := [20] }
    ((mkSegments L).map fun g => g.map fun s => (s.start, s.stp)) =
      some [(0, 4), (4, 8), (8, 12), (12, 16), (16, 20)] := by decide

/-! ## r disjoint simple repeats through the entry points -/

/-- `list(iter_unfolded_parts(part))` of a part with r pairwise disjoint simple repeats (symbolic boundary times, as in
`simple_repeats_layout`) has exactly 2^r elements: every enumerated path unfolds. -/
theorem iter_unfolded_parts_count (t0 : Int) (rest : List Int) (flags : List Bool)
    (hs : StrictSorted (t0 :: rest)) (hlen : rest.length = flags.length) (hne : flags ≠ [])
    (hadj : NoAdjFalse flags) (p : APart) (upd : Option Bool) (fuel : Nat) (hf : 2 * flags.length + 1 ≤ fuel) :
    ∃ us, iterUnfoldedParts (chainLayout t0 rest flags) p upd fuel = some us ∧ us.length = 2 ^ (flags.count true) := by
  obtain ⟨h1, h2, _, _⟩ := simple_repeats_unfold t0 rest flags hs hlen hne hadj true fuel hf
  rw [iter_unfolded_parts_is]
  cases hg : mkSegments (chainLayout t0 rest flags) with
  | none => simp [hg] at h1
  | some g =>
    simp only [hg, Option.bind_some] at h1 ⊢
    rw [h1]
    simp only [Option.bind_some]
    obtain ⟨us, hus, hl⟩ := mapM_some_length (fun path => newPartFromPath g p path (some (upd.getD Gen.C09.ITER_DEF)))
      (allPaths 0 flags) (fun path hp => by
        obtain ⟨_, v, _, hv⟩ := unfolding_never_misses_a_segment g false false true fuel _ h1 path hp p (some (upd.getD Gen.C09.ITER_DEF))
        exact ⟨v, hv⟩)
    exact ⟨us, hus, by rw [hl, h2]⟩

/-- … its maximal unfolding is the part made along "every repeated section twice", its minimal one along "every
section once" (and neither fails). -/
theorem unfold_part_maximal_simple_repeats (t0 : Int) (rest : List Int) (flags : List Bool)
    (hs : StrictSorted (t0 :: rest)) (hlen : rest.length = flags.length) (hne : flags ≠ [])
    (hadj : NoAdjFalse flags) (p : APart) (upd il : Option Bool) (fuel : Nat) (hf : 2 * flags.length + 1 ≤ fuel) :
    ∃ g vmax vmin, mkSegments (chainLayout t0 rest flags) = some g ∧
      unfoldPartMaximal (chainLayout t0 rest flags) p upd il fuel = some vmax ∧
      newPartFromPath g p (maxPath 0 flags) (some (upd.getD Gen.C09.MAX_DEF.1)) = some vmax ∧
      unfoldPartMinimal (chainLayout t0 rest flags) p fuel = some vmin ∧
      newPartFromPath g p (minPath 0 flags) (some false) = some vmin := by
  obtain ⟨_, _, h3, _⟩ := simple_repeats_unfold t0 rest flags hs hlen hne hadj (il.getD true) fuel hf
  obtain ⟨_, _, _, h4⟩ := simple_repeats_unfold t0 rest flags hs hlen hne hadj true fuel hf
  rw [unfold_part_maximal_is, unfold_part_minimal_is]
  cases hg : mkSegments (chainLayout t0 rest flags) with
  | none => simp [hg] at h3
  | some g =>
    simp only [hg, Option.bind_some] at h3 h4 ⊢
    rw [h3, h4]
    simp only [Option.bind_some, List.head?_cons]
    obtain ⟨_, vmax, _, hmax⟩ := unfolding_never_misses_a_segment g false true (il.getD true) fuel _ h3 (maxPath 0 flags)
      (by simp) p (some (upd.getD Gen.C09.MAX_DEF.1))
    obtain ⟨_, vmin, _, hmin⟩ := unfolding_never_misses_a_segment g true false true fuel _ h4 (minPath 0 flags)
      (by simp) p (some false)
    exact ⟨g, vmax, vmin, rfl, hmax, hmax, hmin, hmin⟩

-- non-vacuity: |: A :| B — two variants; the maximal one plays A twice and suffixes the ids on request
example :
    let L := chainLayout 0 [4, 8] [true, false]
    let p : APart := { points := [0, 4, 8], qd := [(0, 1)], objs :=
      [{ kind := .note, start := 0, stp := some 4, payload := [60, 1, 1], nid := some "m1-1", refs := [] },
       { kind := .note, start := 4, stp := some 8, payload := [62, 1, 1], nid := some "m2-1", refs := [] }] }
    ((iterUnfoldedParts L p none 9).map (·.length)) = some 2 ∧
    ((unfoldPartMaximal L p (some true) none 9).map fun v => v.objs.map (·.nid)) =
      some [some "m1-1-1", some "m1-1-2", some "m2-1-1"] ∧
    ((unfoldPartMinimal L p 9).map fun v => v.objs.map (·.nid)) = some [some "m1-1", some "m2-1"] := by decide

/-! ## no repeat structure, through the entry points -/

/-- A part without repeats, endings and marks (any `first < last`): every entry point returns the part made from the
single visit `[first, last)` at offset 0 — the maximal and the minimal unfolding and the only variant are the same part
(`no_repeats_id`: every object once, moved by `−first`), with the ids suffixed `-1` exactly when `update_ids` (never for the
minimal one). -/
theorem unfold_without_structure (p : APart) (first last : Int) (h : first < last) (upd il : Option Bool) (fuel : Nat) :
    let plain := variant p [⟨first, last, 0⟩]
    let outMax := if upd.getD Gen.C09.MAX_DEF.1 then { plain with objs := suffixIds plain.objs } else plain
    let outIter := if upd.getD Gen.C09.ITER_DEF then { plain with objs := suffixIds plain.objs } else plain
    unfoldPartMaximal { first := first, last := last } p upd il (fuel + 1) = some outMax ∧
    unfoldPartMinimal { first := first, last := last } p (fuel + 1) = some plain ∧
    iterUnfoldedParts { first := first, last := last } p upd (fuel + 1) = some [outIter] := by
  have hg := no_repeats_graph first last h
  have hpaths := fun nr ar il' => no_repeats_single_path first last h nr ar il' fuel
  simp only [hg, Option.bind_some] at hpaths
  refine ⟨?_, ?_, ?_⟩
  · rw [unfold_part_maximal_is, hg]
    simp only [Option.bind_some, hpaths, List.head?_cons, new_part_from_path_is, visitsOf, visitsFrom,
      List.getElem?_cons_zero, Option.map_some, Option.getD_some]
  · rw [unfold_part_minimal_is, hg]
    simp only [Option.bind_some, hpaths, List.head?_cons, new_part_from_path_is, visitsOf, visitsFrom,
      List.getElem?_cons_zero, Option.map_some, Option.getD_some]
    simp
  · rw [iter_unfolded_parts_is, hg]
    simp only [Option.bind_some, hpaths, List.mapM_cons, List.mapM_nil, new_part_from_path_is, visitsOf, visitsFrom,
      List.getElem?_cons_zero, Option.map_some, Option.getD_some]
    simp

/-! ## the maximal and the minimal unfolding are single paths; totality on repeat-only parts -/

/-- With `no_repeats=True` or `all_repeats=True` the enumeration follows exactly one destination from every segment, so
for ANY segment table, when it returns it returns exactly ONE path: `paths[0]` in `unfold_part_maximal` /
`unfold_part_minimal` never fails and drops nothing. -/
theorem maximal_minimal_single_path (g : List Seg) (nr ar il : Bool) (fuel : Nat) (ps : List (List Nat))
    (hf : nr = true ∨ ar = true) (h : getPaths g nr ar il fuel = some ps) : ∃ path, ps = [path] :=
  unfoldFrom_single il fuel (initState g nr ar) ps hf h

/-- Every entry point is TOTAL on a part whose only structure is repeats (any number, nested, disjoint, sharing an end):
`add_segments` does not raise, the enumeration terminates within fuel 2^(n+1), every path unfolds. -/
theorem entry_points_total_on_repeats (L : Layout) (hL : RepeatsOnly L) (p : APart) (upd il : Option Bool) :
    ∃ g vmax vmin us, mkSegments L = some g ∧
      unfoldPartMaximal L p upd il (2 ^ (g.length + 1)) = some vmax ∧
      unfoldPartMinimal L p (2 ^ (g.length + 1)) = some vmin ∧
      iterUnfoldedParts L p upd (2 ^ (g.length + 1)) = some us := by
  obtain ⟨g, ps1, hg, _, h1⟩ := repeats_terminate L hL false true (il.getD true)
  obtain ⟨_, ps2, hg2, _, h2⟩ := repeats_terminate L hL true false true
  obtain ⟨_, ps3, hg3, _, h3⟩ := repeats_terminate L hL false false true
  rw [hg] at hg2 hg3
  simp only [Option.some.injEq] at hg2 hg3
  subst hg2 hg3
  obtain ⟨q1, rfl⟩ := maximal_minimal_single_path g false true _ _ ps1 (Or.inr rfl) h1
  obtain ⟨q2, rfl⟩ := maximal_minimal_single_path g true false _ _ ps2 (Or.inl rfl) h2
  obtain ⟨_, vmax, _, hmax⟩ := unfolding_never_misses_a_segment g false true _ _ _ h1 q1 (by simp) p (some (upd.getD Gen.C09.MAX_DEF.1))
  obtain ⟨_, vmin, _, hmin⟩ := unfolding_never_misses_a_segment g true false _ _ _ h2 q2 (by simp) p (some false)
  obtain ⟨us, hus, _⟩ := mapM_some_length (fun path => newPartFromPath g p path (some (upd.getD Gen.C09.ITER_DEF))) ps3
    (fun path hp => by
      obtain ⟨_, v, _, hv⟩ := unfolding_never_misses_a_segment g false false true _ _ h3 path hp p (some (upd.getD Gen.C09.ITER_DEF))
      exact ⟨v, hv⟩)
  refine ⟨g, vmax, vmin, us, hg, ?_, ?_, ?_⟩
  · rw [unfold_part_maximal_is, hg]
    simp only [Option.bind_some, h1, List.head?_cons]
    exact hmax
  · rw [unfold_part_minimal_is, hg]
    simp only [Option.bind_some, h2, List.head?_cons]
    exact hmin
  · rw [iter_unfolded_parts_is, hg]
    simp only [Option.bind_some, h3]
    exact hus

end C09
