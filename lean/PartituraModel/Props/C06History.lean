/-
C06 (round 5) — the result of loading / saving does not depend on the FORM in which the file / the performance is
handed over, nor on how often, in which order and with which options the same argument was used before.

`Model.PerfObject` threads a `mido.MidiFile` object through a history of uses (`Use`: `load_performance_midi`,
`load_performance`, `midi_to_notearray` — each given the object itself or the path of the file it is saved to —,
`obj.save`, direct iteration) and a performance through a history of saves (`SaveOpts`: ppq, mpq, merge_tracks_save,
`out` = file or None).  The theorems:

* `uses_object_unchanged`, `uses_independent`, `uses_agree`: the loaders do not write to the object (the merged track
  is a local list), so at every step of every history a use returns what it returns on a fresh copy, and the object
  is what it was;
* `history_load`, `history_load_performance`: what that is — never an error, the j-th part is the j-th kept track;
* `parsed_path_eq_object`, `unsaved_object_load`: path form = object form for an object parsed from a file; for an
  object that was never saved (built by hand, returned by `save_performance_midi(…, None)`) the two differ by the
  `end_of_track` entries of `meta_other` only;
* `returned_saved`, `history_roundtrip`: composed with the exporter — every load, in every history of uses of the
  written file or of the returned object, in either form, returns the controls, programs (up to default programs)
  and, merged, the notes of the performance;
* `dispatch_reduces`, `dispatch_rejects`, `saves_argument_unchanged`, `saves_independent`: the saver.

The `example`s at the end show that the loader which stores the merged track in `mid.tracks` (`useMergeInPlace`, the
seeded change C06-j) and an exporter that leaves rounded times in the performance (`saveRoundInPlace`) violate them
on the second use: the theorems separate the code from these.
Tied to the code by the `lhist` / `shist` cases of harness/props/c06.py.
-/
import PartituraModel.Model.PerfObject
import PartituraModel.Proofs.C06History
import PartituraModel.Props.C06
import PartituraModel.Props.C06Merge
import PartituraModel.Props.C06Regen

namespace C06
open Model Model.PerfMidi C06Sort C06Lists C06Export C06Notes C06Merged C06History

-- ====================================================================== histories of uses of one MidiFile object

/-- Any step function that hands its state back unchanged: after every history the state is what it was, and the
    i-th result is the result of that use on the ORIGINAL state. -/
theorem history_pure {σ ι ο : Type} (step : σ → ι → σ × ο) (hstep : ∀ s u, (step s u).1 = s) (s : σ) (us : List ι) :
    runWith step s us = (s, us.map fun u => (step s u).2) := runWith_pure step hstep s us

/-- the code's loaders hand the object back unchanged -/
theorem useObj_pure (f : MidiObj) (u : Use) : (useObj f u).1 = f := rfl

/-- **The object is not changed by being loaded**, whatever the history of uses (merged or not, any default tempo,
    through which entry point, interleaved with saving and reading it). -/
theorem uses_object_unchanged (f : MidiObj) (us : List Use) : (runUses f us).1 = f := by
  unfold runUses
  rw [history_pure useObj useObj_pure]

/-- **Every use sees the same file**: in any history the i-th use returns what that use returns on a fresh copy. -/
theorem uses_independent (f : MidiObj) (us : List Use) (i : Nat) (u : Use) (hu : us[i]? = some u) :
    (runUses f us).2[i]? = some (outOf f u) := by
  unfold runUses
  rw [history_pure useObj useObj_pure]
  simp only [List.getElem?_map, hu, Option.map_some]
  rfl

/-- in particular two equal uses at different places of a history agree -/
theorem uses_agree (f : MidiObj) (us : List Use) (i j : Nat) (u : Use) (hi : us[i]? = some u) (hj : us[j]? = some u) :
    (runUses f us).2[i]? = (runUses f us).2[j]? := by
  rw [uses_independent f us i u hi, uses_independent f us j u hj]

/-- **What a load in a history returns**: never an error; the performed parts are the kept tracks of the file as it
    was before the history began, part j with every entry on track j and every tick integrated over the file's
    tempo map — whatever was done with the object before. -/
theorem history_load (f : MidiObj) (us : List Use) (i : Nat) (p : Bool) (d : Nat) (m : Bool)
    (hu : us[i]? = some (.load p d m)) :
    (runUses f us).2[i]? = some (.loaded
      { kept := loadFile m (seen f p).tracks,
        parts := some ((loadFile m (seen f p).tracks).zipIdx.map fun x =>
          toPPart (secondsAt d (loaderTracks m (seen f p).tracks) (seen f p).ppq) x.2 x.1) }) := by
  rw [uses_independent f us i _ hu]
  simp only [outOf, loadObj, loadedParts_eq]

/-- the same through `load_performance` (with or without `first_note_at_zero`) -/
theorem history_load_performance (f : MidiObj) (us : List Use) (i : Nat) (p : Bool) (d : Nat) (m fnz : Bool)
    (hu : us[i]? = some (.loadPerf p d m fnz)) :
    (runUses f us).2[i]? = some (.performance (loadFile m (seen f p).tracks)
      (some (loadPerformanceP fnz ((loadFile m (seen f p).tracks).zipIdx.map fun x =>
          toPPart (secondsAt d (loaderTracks m (seen f p).tracks) (seen f p).ppq) x.2 x.1)))) := by
  rw [uses_independent f us i _ hu]
  simp only [outOf, loadedParts_eq, Option.map_some]

/-- `load_performance` without `first_note_at_zero` is `load_performance_midi`, in any history and either form -/
theorem history_dispatch (f : MidiObj) (us : List Use) (i j : Nat) (p : Bool) (d : Nat) (m : Bool)
    (hi : us[i]? = some (.loadPerf p d m false)) (hj : us[j]? = some (.load p d m)) :
    ∃ kept ps, (runUses f us).2[i]? = some (.performance kept (some ps)) ∧
      (runUses f us).2[j]? = some (.loaded ⟨kept, some ps⟩) := by
  refine ⟨_, _, history_load_performance f us i p d m false hi, ?_⟩
  rw [history_load f us j p d m hj]
  rfl

-- ====================================================================== path or object

/-- **An object parsed from a file**: giving the path and giving the object is the same (mido re-reads what it
    wrote). -/
theorem parsed_path_eq_object (g : MidiObj) (p : Bool) : seen g.saved p = g.saved := by
  cases p with
  | false => rfl
  | true => exact saved_idem g

/-- **An object that was never written** (built from messages, or returned by `save_performance_midi(…, None)`):
    loading the object and loading the file it is saved to give the same kept tracks — notes with their ids,
    controls, programs, key and time signatures, other meta events — except for the `end_of_track` entries of
    `meta_other`, and the same seconds. -/
theorem unsaved_object_load (f : MidiObj) (d : Nat) (m : Bool) :
    (loadFile m f.saved.tracks).map core = (loadFile m f.tracks).map core ∧
    secondsAt d (loaderTracks m f.saved.tracks) f.ppq = secondsAt d (loaderTracks m f.tracks) f.ppq := by
  constructor
  · rw [loadFile_core, loadFile_core, loaderTracks_saved_ne]
  · rw [← secondsAt_ne d (loaderTracks m f.saved.tracks), ← secondsAt_ne d (loaderTracks m f.tracks),
      loaderTracks_saved_ne]

/-- non-vacuity: a hand-built object without `end_of_track` — the file has one per track, and only `meta_other`
    shows it -/
example : let f : MidiObj := ⟨480, [[(0, Ev.tempo 400000)], [(10, Ev.noteOn 0 60 64), (5, Ev.noteOff 0 60 0)]]⟩
    loadFile false f.tracks ≠ loadFile false f.saved.tracks ∧
    (loadFile false f.tracks).map core = (loadFile false f.saved.tracks).map core ∧
    (loadFile false f.tracks).map (·.notes) = [[⟨60, 10, 15, 64, 0⟩]] := by decide +kernel

-- ====================================================================== composed with the exporter

/-- the file `save_performance_midi` writes, as an object -/
def writtenObj (q : Rat → Int) (ppq mpq : Nat) (ms : Bool) (parts : List PPart) : MidiObj :=
  ⟨ppq, (savedAbs q mpq ms parts).map toDelta⟩

/-- **`out=None` and `out=file` are the same export**: saving the returned object writes the file a direct save
    writes (mido adds the `end_of_track`s). -/
theorem returned_saved (q : Rat → Int) (ppq mpq : Nat) (ms : Bool) (parts : List PPart) :
    (returnedObj q ppq mpq ms parts).saved = writtenObj q ppq mpq ms parts := by
  unfold returnedObj writtenObj MidiObj.saved savedAbs returnedAbs
  simp only [List.map_map]
  congr 1
  apply List.map_congr_left
  intro t _
  simp [toAbs_toDelta]

/-- the written file is a fixed point of save-and-parse -/
theorem written_fixed (q : Rat → Int) (ppq mpq : Nat) (ms : Bool) (parts : List PPart) :
    (writtenObj q ppq mpq ms parts).saved = writtenObj q ppq mpq ms parts := by
  rw [← returned_saved, saved_idem]

/-- the kept tracks of a load, for any object `f` whose file is the written file (the written file itself, parsed;
    or the object the exporter returned): up to `end_of_track` entries those of the written file -/
theorem seen_written (f : MidiObj) (W : MidiObj) (hf : f.saved = W) (p m : Bool) :
    (loadFile m (seen f p).tracks).map core = (loadFile m W.tracks).map core := by
  cases p with
  | true => simp only [seen, if_true, hf]
  | false =>
    simp only [seen, Bool.false_eq_true, if_false]
    rw [← hf]
    exact (unsaved_object_load f 0 m).1.symm

theorem flatMap_core {β : Type} (g : RTrack → List β) (hg : ∀ t, g (core t) = g t) (l : List RTrack) :
    (l.map core).flatMap g = l.flatMap g := by
  rw [List.flatMap_map]
  exact List.flatMap_congr (fun t _ => hg t)

/-- **Round trip through a shared object, any history.**  Save a performance (any ppq/mpq conversion `q`, merged or
    not) and take either the written file, parsed, or the object the exporter returned for `out=None` (`f`: any
    object whose file is the written file).  Use it any number of times in any order.  Then the object is what it
    was, and EVERY `load_performance_midi` of the history — object or path form, any default tempo, merged or not,
    whatever was merged or loaded before — returns performed parts that hold exactly the controls of the
    performance (as ticks `q time`), its programs plus default programs only, and — when the loader sees one track
    (merged on either side) under the exact condition `MergeOk` — exactly the notes of the performance, in the order
    of their ids. -/
theorem history_roundtrip (q : Rat → Int) (hq : ∀ a b, a ≤ b → q a ≤ q b) (ppq mpq : Nat) (ms : Bool)
    (parts : List PPart) (f : MidiObj) (hf : f.saved = writtenObj q ppq mpq ms parts) (us : List Use) :
    (runUses f us).1 = f ∧
    ∀ (i : Nat) (p : Bool) (d : Nat) (ml : Bool), us[i]? = some (.load p d ml) →
      ∃ r ps, (runUses f us).2[i]? = some (.loaded r) ∧ r.parts = some ps ∧ ps.length = r.kept.length ∧
        (r.kept.flatMap (·.controls)).Perm ((usedTracks q parts).flatMap (perfControls q parts)) ∧
        (∃ dflt : List (Int × Nat × Nat), (∀ x ∈ dflt, ∃ tr ∈ usedTracks q parts, IsDefaultProg parts tr x) ∧
          (r.kept.flatMap (·.programs)).Perm ((usedTracks q parts).flatMap (perfPrograms q parts) ++ dflt)) ∧
        ((ml = true ∨ (ms = true ∧ 1 < (usedTracks q parts).length)) →
          (∀ p ∈ parts, ∀ n ∈ p.notes, n.on ≤ n.off ∧ 0 < n.vel) →
          (∀ κ, (mergedKeyNotes q parts κ).Pairwise (MergeOk q)) →
          r.kept.length ≤ 1 ∧ ∀ rt ∈ r.kept, rt.fileTrack = 0 ∧
            rt.notes.Perm ((parts.flatMap (·.notes)).map (toR q)) ∧
            rt.notes.Pairwise (fun a b => rnoteLe a b = true)) := by
  refine ⟨uses_object_unchanged f us, ?_⟩
  intro i p d ml hu
  have hk := seen_written f _ hf p ml
  have hW : (writtenObj q ppq mpq ms parts).tracks = (savedAbs q mpq ms parts).map toDelta := rfl
  refine ⟨_, _, history_load f us i p d ml hu, rfl, by simp, ?_, ?_, ?_⟩
  · show ((loadFile ml (seen f p).tracks).flatMap (·.controls)).Perm _
    rw [← flatMap_core (·.controls) (fun _ => rfl), hk, flatMap_core (·.controls) (fun _ => rfl), loadFile_controls, hW]
    exact controls_kept q mpq ms ml parts
  · obtain ⟨dflt, hd, hP⟩ := programs_kept q mpq ms ml parts
    refine ⟨dflt, hd, ?_⟩
    show ((loadFile ml (seen f p).tracks).flatMap (·.programs)).Perm _
    rw [← flatMap_core (·.programs) (fun _ => rfl), hk, flatMap_core (·.programs) (fun _ => rfl), loadFile_programs, hW]
    exact hP
  · intro hm hwf hno
    obtain ⟨hlen, hall⟩ := load_merged_notes q hq mpq ms ml parts hm hwf hno
    show (loadFile ml (seen f p).tracks).length ≤ 1 ∧ ∀ rt ∈ loadFile ml (seen f p).tracks, _
    have hlen' : (loadFile ml (seen f p).tracks).length = (loadFile ml ((savedAbs q mpq ms parts).map toDelta)).length := by
      have := congrArg List.length hk
      simpa [hW] using this
    refine ⟨by omega, ?_⟩
    intro rt hrt
    have hc : core rt ∈ (loadFile ml ((savedAbs q mpq ms parts).map toDelta)).map core := by
      rw [← hW, ← hk]
      exact List.mem_map_of_mem hrt
    obtain ⟨rt', hrt', he⟩ := List.mem_map.mp hc
    obtain ⟨h0, hP, hS⟩ := hall rt' hrt'
    have e1 : rt.fileTrack = rt'.fileTrack :=
      show (core rt).fileTrack = (core rt').fileTrack from congrArg RTrack.fileTrack he.symm
    have e2 : rt.notes = rt'.notes :=
      show (core rt).notes = (core rt').notes from congrArg RTrack.notes he.symm
    rw [e1, e2]
    exact ⟨h0, hP, hS⟩

/-- non-vacuity: a performance on track numbers 0 and 3 with a pedal and the same pitch on both tracks (apart), the
    object the exporter returns (no `end_of_track` yet); merged load, note array, unmerged load from the path, merged
    load again — the object is unchanged and the two merged loads are equal -/
example : let p : PPart := { metaOther := [], keySigs := [], timeSigs := [], controls := [⟨1/4, 64, 127, 0, 3⟩],
                             notes := [⟨60, 64, 0, 0, 0, 1/2⟩, ⟨60, 70, 0, 3, 1, 2⟩], programs := [] }
    let f := returnedObj (quant 500000 480) 480 500000 false [p]
    let us := [Use.load false 500000 true, Use.noteArray false, Use.load true 500000 false, Use.load false 600000 true]
    f.tracks.length = 2 ∧ (runUses f us).1 = f ∧
    (runUses f us).2[1]? = some (.noteArray (some [(0, 60, 64, 0), (960, 60, 70, 0)])) ∧
    ((runUses f us).2.map fun o => match o with
      | .loaded r => r.kept.map (fun t => (t.fileTrack, t.notes.length, t.controls.length, t.programs.length))
      | _ => []) = [[(0, 2, 1, 2)], [], [(0, 1, 0, 1), (1, 1, 1, 1)], [(0, 2, 1, 2)]] := by decide +kernel

-- ====================================================================== what the theorems exclude: C06-j

/-- two tracks, a note in each -/
def demoObj : MidiObj :=
  ⟨480, [[(0, Ev.tempo 500000), (0, Ev.noteOn 0 60 70), (384, Ev.noteOff 0 60 0), (0, Ev.eot)],
         [(96, Ev.noteOn 1 48 80), (384, Ev.noteOff 1 48 0), (0, Ev.eot)]]⟩

/-- the number of parts and of notes per part of what a use returned -/
def outShape : Out → List Nat
  | .loaded r => r.kept.map (·.notes.length)
  | .performance kept _ => kept.map (·.notes.length)
  | _ => []

/-- the code: unmerged, merged, unmerged — two parts, one part, two parts again; object unchanged -/
example : (runUses demoObj [.load false 500000 false, .load false 500000 true, .load false 500000 false]).1 = demoObj ∧
    (runUses demoObj [.load false 500000 false, .load false 500000 true, .load false 500000 false]).2.map outShape
      = [[1, 1], [2], [1, 1]] := by decide +kernel

/-- **What the theorems exclude** (the seeded change C06-j).  With the loader that stores the merged track in
    `mid.tracks` (`useMergeInPlace`, not the code) the merged load itself is right, the object is left with ONE track,
    and the next unmerged load of the same object returns one part with everything on track 0:
    `uses_object_unchanged` and `uses_agree` fail for it. -/
example : (runWith useMergeInPlace demoObj [.load false 500000 false, .load false 500000 true, .load false 500000 false]).1
      ≠ demoObj ∧
    (runWith useMergeInPlace demoObj [.load false 500000 false, .load false 500000 true, .load false 500000 false]).2.map outShape
      = [[1, 1], [2], [2]] := by decide +kernel

-- ====================================================================== the saver: argument kinds, histories of saves

/-- **Dispatch**: a `Performance`, a list of its parts and — for a single part — the part itself are the same
    export. -/
theorem dispatch_reduces (qf : Nat → Nat → Rat → Int) (ps : List PPart) (p : PPart) (o : SaveOpts) :
    saveOut qf (.performance ps) o = saveOut qf (.parts ps) o ∧
    saveOut qf (.part p) o = saveOut qf (.parts [p]) o ∧
    (∃ file, saveOut qf (.parts ps) o = some file) := ⟨rfl, rfl, _, rfl⟩

/-- anything that is no performance, performed part or iterable of performed parts is rejected (ValueError), and
    nothing else is -/
theorem dispatch_rejects (qf : Nat → Nat → Rat → Int) (a : PerfArg) (o : SaveOpts) :
    saveOut qf a o = none ↔ (a = .other ∨ ∃ ps, a = .mixed ps) := by
  cases a <;> simp [saveOut, dispatchSave]

/-- the type of the file and the tracks do not depend on `out`: the returned object, once saved, is the written file -/
theorem save_to_object_or_file (qf : Nat → Nat → Rat → Int) (a : PerfArg) (ppq mpq : Nat) (ms : Bool) :
    (saveOut qf a ⟨ppq, mpq, ms, true⟩).map (fun r => (r.1, (MidiObj.saved ⟨ppq, r.2⟩).tracks))
      = saveOut qf a ⟨ppq, mpq, ms, false⟩ := by
  cases h : dispatchSave a with
  | none => simp [saveOut, h]
  | some ps =>
    simp only [saveOut, h, Option.map_some, if_true, Bool.false_eq_true, if_false, exportFile]
    congr 2
    have := returned_saved (qf mpq ppq) ppq mpq ms ps
    unfold returnedObj writtenObj at this
    exact congrArg MidiObj.tracks this

theorem saveUse_pure (qf : Nat → Nat → Rat → Int) (a : PerfArg) (o : SaveOpts) : (saveUse qf a o).1 = a := rfl

/-- **The performance is not changed by being saved**, whatever the history of saves. -/
theorem saves_argument_unchanged (qf : Nat → Nat → Rat → Int) (a : PerfArg) (os : List SaveOpts) :
    (runSaves qf a os).1 = a := by
  unfold runSaves
  rw [history_pure (saveUse qf) (saveUse_pure qf)]

/-- **Every save writes the original performance**: the i-th file of any history of saves (other ppq, mpq, merging,
    `out` before) is the file a single save of a fresh copy with the i-th options writes — to which every round-trip
    theorem of C06 applies. -/
theorem saves_independent (qf : Nat → Nat → Rat → Int) (a : PerfArg) (os : List SaveOpts) (i : Nat) (o : SaveOpts)
    (ho : os[i]? = some o) : (runSaves qf a os).2[i]? = some (saveOut qf a o) := by
  unfold runSaves
  rw [history_pure (saveUse qf) (saveUse_pure qf)]
  simp only [List.getElem?_map, ho, Option.map_some]
  rfl

/-- one note at 0.3 s: tick 288 at 480 ticks per 0.5 s, tick 29 (28.8 rounded) at 48 -/
def demoPerf : PerfArg :=
  .part { metaOther := [], keySigs := [], timeSigs := [], controls := [], notes := [⟨60, 64, 0, 0, 0, 3/10⟩], programs := [] }

/-- the code: a coarse save first does not disturb the fine one -/
example : (runSaves quant demoPerf [⟨48, 500000, false, false⟩, ⟨480, 500000, false, false⟩]).2
    = [saveOut quant demoPerf ⟨48, 500000, false, false⟩, saveOut quant demoPerf ⟨480, 500000, false, false⟩] ∧
    ((saveOut quant demoPerf ⟨480, 500000, false, false⟩).map fun r => r.2.map (·.map (·.1)))
      = some [[0, 0, 0, 288, 0]] := by decide +kernel

/-- **What the theorems exclude.**  An exporter that leaves the rounded times in the performance
    (`saveRoundInPlace`, not the code): after the coarse save the note ends at 0.3020833… s and the fine save writes
    tick 290 instead of 288 — `saves_argument_unchanged` and `saves_independent` fail for it. -/
example : (runWith (saveRoundInPlace quant) demoPerf [⟨48, 500000, false, false⟩, ⟨480, 500000, false, false⟩]).1 ≠ demoPerf ∧
    ((runWith (saveRoundInPlace quant) demoPerf [⟨48, 500000, false, false⟩, ⟨480, 500000, false, false⟩]).2.map
      fun r => r.map fun r => r.2.map (·.map (·.1))) = [some [[0, 0, 0, 29, 0]], some [[0, 0, 0, 290, 0]]] := by decide +kernel

end C06
