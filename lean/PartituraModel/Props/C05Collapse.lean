/-
C05, round 2 — `collapse=True` rest arrays (`collapse_rests` / `rec_collapse_rests`), repaired behaviour
(fixes/C05-8): pass after pass, every rest absorbs the rests of the same VOICE (the staff is not looked at)
whose `onset_div` equals its `onset_div + duration_div`, summing the beat, quarter and division durations.
`store` is the rounding of the float columns (`f32round` in the model that is run against the code): it
only affects the merged beat / quarter durations, not what is merged.

`CleanTable t` (Proofs/C05Collapse.lean: `Clean [] [] t`) says: `t` is ordered by `onset_div`, every row has
a positive `duration_div`, and rows of one voice do not overlap — the rest array of a well-formed part.
-/
import PartituraModel.Proofs.C05Collapse
import PartituraModel.Model.NoteArrayMaps

namespace C05
open NoteArray List

/-- Collapsing never invents or reorders rows: what comes out is a sub-list of the table, row by row equal
    to the original in everything but the three durations (id, onset, voice, staff, signatures: those of
    the FIRST rest of a merged group).  For every rounding, every table, any number of passes. -/
theorem collapse_keeps_rows (store : Rat → Rat) (fuel : Nat) (rows : List Row) :
    ((recCollapse store fuel rows).map core).Sublist (rows.map core) :=
  recCollapse_sublist store fuel rows

/-- **Collapsing preserves the total rest duration of every voice** — in divisions, whatever the rounding of
    the float columns, for any number of passes — and the result is again a clean table. -/
theorem collapse_total (store : Rat → Rat) (fuel : Nat) (rows : List Row) (h : CleanTable rows) (v : Int) :
    sumW (·.durDiv) v (recCollapse store fuel rows) = sumW (·.durDiv) v rows ∧
    CleanTable (recCollapse store fuel rows) :=
  ⟨recCollapse_total store (·.durDiv) (fun _ _ => rfl) v fuel rows (cleanRun_of_clean store fuel rows h),
   recCollapse_clean store fuel rows h⟩

/-- one pass already does -/
theorem collapse_pass_total (store : Rat → Rat) (rows : List Row) (h : CleanTable rows) (v : Int) :
    sumW (·.durDiv) v (collapsePass store rows).1 = sumW (·.durDiv) v rows :=
  collapsePass_total store (·.durDiv) (fun _ _ => rfl) v rows h

/-- The beat and quarter totals of every voice are preserved as well when the float columns are exact.
    `_partial`: with float32 columns the merged beat / quarter durations are float32 sums of float32
    values, equal to the exact totals only up to rounding (compared within 2^-20 against the code). -/
theorem collapse_float_totals_partial (fuel : Nat) (rows : List Row) (h : CleanTable rows) (v : Int) :
    sumW (·.durBeat) v (recCollapse id fuel rows) = sumW (·.durBeat) v rows ∧
    sumW (·.durQuarter) v (recCollapse id fuel rows) = sumW (·.durQuarter) v rows :=
  ⟨recCollapse_total id (·.durBeat) (fun _ _ => rfl) v fuel rows (cleanRun_of_clean id fuel rows h),
   recCollapse_total id (·.durQuarter) (fun _ _ => rfl) v fuel rows (cleanRun_of_clean id fuel rows h)⟩

/-- **Exactly the adjacent rests are merged.**  (1) A pass merges nothing exactly when no row starts where a
    row of its voice ends, and then returns the table untouched.  (2) With the fuel `rest_array_from_part`
    gives it (more than the number of rows) the repeated pass ends on such a table: in the result no two
    rows of a voice are adjacent any more.  Together with `collapse_keeps_rows` and `collapse_total`: the
    result holds one row per maximal run of adjacent rests of a voice, with the run's total duration. -/
theorem collapse_merges_adjacent (store : Rat → Rat) (rows : List Row) :
    ((collapsePass store rows).2 = false ↔ ∀ c ∈ rows, NoHit c rows) ∧
    ((collapsePass store rows).2 = false → (collapsePass store rows).1 = rows) ∧
    (∀ fuel, CleanTable rows → rows.length < fuel →
      ∀ c ∈ recCollapse store fuel rows, NoHit c (recCollapse store fuel rows)) := by
  refine ⟨⟨fun h => (collapsePass_false store rows h).2, fun h => by rw [collapsePass_of_nohit store rows h]⟩,
    fun h => (collapsePass_false store rows h).1, ?_⟩
  intro fuel hr hl
  exact (collapsePass_false store _
    (recCollapse_stable store fuel rows (cleanRun_of_clean store fuel rows hr) hl)).2

/-- `NoHit`, spelled out -/
theorem noHit_iff (c : Row) (l : List Row) :
    NoHit c l ↔ ∀ x ∈ l, ¬ (x.onsetDiv = c.onsetDiv + c.durDiv ∧ x.voice = c.voice) := by
  unfold NoHit hits
  constructor
  · intro h x hx hh
    have := h x hx
    simp [hh.1, hh.2] at this
  · intro h x hx
    have := h x hx
    cases hd : decide (x.onsetDiv = c.onsetDiv + c.durDiv) <;> cases hv : decide (x.voice = c.voice) <;> simp_all

/-- the table `restRowsWith … true` collapses has the fuel (2) asks for -/
theorem rest_rows_fuel (store : Rat → Rat) (p : Part) (out : List Row) (h : restRowsWith store p true = some out) :
    ∃ t : List Row, out = recCollapse store (t.length + 1) t := by
  unfold restRowsWith at h
  cases hm : NoteArray.mapM' (restRow p.notes p.maps) (restsOf p.notes) with
  | none => simp [hm] at h
  | some rs =>
    simp [hm] at h
    exact ⟨_, by rw [← h, length_map]⟩

/-- what a merged row holds: on a clean table the row put out for the first row `c` is `c` with the durations
    of exactly the rows after it that start where it ends in its voice added to its own — every rounding. -/
theorem collapse_first_row (store : Rat → Rat) (c : Row) (post : List Row) (h : CleanTable (c :: post)) :
    (collapsePass store (c :: post)).1.head? =
      some (absorbAll store (c.onsetDiv + c.durDiv) c.voice c post) ∧
    (absorbAll store (c.onsetDiv + c.durDiv) c.voice c post).durDiv =
      c.durDiv + ((post.filter (hits (c.onsetDiv + c.durDiv) c.voice)).map (·.durDiv)).sum := by
  refine ⟨?_, absorbAll_measure store (·.durDiv) (fun _ _ => rfl) _ _ post c⟩
  unfold collapsePass
  simp only
  rw [passS, if_neg (by simp)]
  simp only
  rw [visitRow_clean h]
  simp only [nil_append]
  -- the first element of the accumulated list never changes
  have hfirst : ∀ (post : List Row) (x : Row × Bool) (pre : List (Row × Bool)) (tg : List (Int × Int)),
      (passS store (x :: pre) tg post).1.head? = some x := by
    intro post
    induction post with
    | nil => intro x pre tg; simp [passS]
    | cons d post ih =>
      intro x pre tg
      rw [passS]
      split
      · exact ih x _ tg
      · exact ih x _ _
  have := hfirst post (absorbAll store (c.onsetDiv + c.durDiv) c.voice c post, true) []
    (if post.any (hits (c.onsetDiv + c.durDiv) c.voice) = true then
      [(c.onsetDiv + c.durDiv, c.voice)] else [])
  cases hl : (passS store [(absorbAll store (c.onsetDiv + c.durDiv) c.voice c post, true)]
      (if post.any (hits (c.onsetDiv + c.durDiv) c.voice) = true then
        [(c.onsetDiv + c.durDiv, c.voice)] else []) post).1 with
  | nil => rw [hl] at this; cases this
  | cons y l =>
    rw [hl] at this
    simp only [head?_cons, Option.some.injEq] at this
    subst this
    simp [filter_cons_of_pos]

-- ------------------------------------------------------------------ non-vacuity

section Examples

def rest (id : String) (on dur : Rat) (divs : Int) (v : Int) : Row :=
  { key := on, onsetBeat := on, durBeat := dur, onsetQuarter := on, durQuarter := dur,
    onsetDiv := (on * divs).floor, durDiv := (dur * divs).floor, pitch := 0, voice := v, id := id, step := "0",
    alter := 0, octave := 0, isGrace := false, graceType := "", ksFifths := 0, ksMode := 1, tsBeats := 4,
    tsBeatType := 4, tsMusBeats := 4, isDownbeat := 0, relOnset := 0, totMeasure := 0, staff := 1, divsPq := 0 }

/-- voice 1: three adjacent rests and one apart; voice 2: thirds -/
def exRests : List Row :=
  [rest "a" 0 1 6 1, rest "x" 0 (1/3) 6 2, rest "y" (1/3) (2/3) 6 2, rest "b" 1 1 6 1, rest "c" 2 (1/2) 6 1,
   rest "d" 3 1 6 1]

/-- the table is clean (hypothesis of the theorems above) -/
example : CleanTable exRests :=
  { pre_le := fun x hx => by cases hx
    sorted := by decide +kernel
    pos := by decide +kernel
    apart := by decide +kernel
    tg_le := fun k hk => by cases hk }

/-- two passes: a+b+c (2.5 beats = 15 divisions), x+y, d alone -/
example : (recCollapse id 7 exRests).map (fun r => (r.id, r.durBeat, r.durDiv)) =
    [("a", (5 / 2 : Rat), (15 : Int)), ("x", 1, 6), ("d", 1, 6)] := by decide +kernel

/-- the same rests with float32 columns -/
example : ((recCollapse f32round 7 (exRests.map (storeRow f32round))).map (·.id)) = ["a", "x", "d"] := by
  decide +kernel

/-- triplets: `f32(1/3) + f32(4/3)` is not `f32(5/3)`, so a comparison of float32 beat sums (the code before
    fixes/C05-8) would leave a rest from 1/3 to 5/3 and the rest that starts at 5/3 apart; the division
    columns (1 + 4 = 5) merge them, and the merged beat duration is the float32 sum -/
example :
    f32round (f32round (1/3) + f32round (4/3)) ≠ f32round (5/3) ∧
    ((recCollapse f32round 4 ([rest "p" (1/3) (4/3) 3 1, rest "q" (5/3) (1/3) 3 1].map (storeRow f32round))).map
      fun r => (r.id, r.durDiv)) = [("p", (5 : Int))] := by
  decide +kernel

/-- a rest of duration 0 absorbs itself (its own offset is its onset): the flag stays true; the model stops
    when the fuel is spent (the Python loop would not end) — excluded by `CleanTable` (`pos`) -/
example : (collapsePass id [rest "z" 0 0 6 1]).2 = true := by decide +kernel

end Examples

end C05
