/-
C10 (round 5) — "scalar and array queries agree", for the calls as the code dispatches them.

Model/StepMapCalls.lean mirrors how each map treats the KIND of its argument: the wrapper
`partitura.utils.generic.interp1d` (scipy when there are at least two samples; one broadcast value, cut down to
its first row for a 0-dimensional argument, when there is one), the `isinstance(input, Iterable)` test of
`metrical_position_map`, the collator of `clef_map`.  For every map, every part and every argument:
a scalar call returns the row of the scalar map of Model/StepMap*.lean (the one the `*_spec` theorems are about),
and a call with a sequence returns exactly one such row per element, in order (`none` for an empty sequence).
-/
import PartituraModel.Model.StepMapCalls
import PartituraModel.Props.C10

namespace C10
open Model Model.StepMap

/-- **`interp_call_agrees`**: the wrapper called with a scalar gives the scalar lookup, called with a sequence the
    scalar lookup of every element - in the scipy branch and in the single-sample (broadcast) branch alike -/
theorem interp_call_agrees {α : Type} (tbl : Tbl α) :
    (∀ x, callInterpPrev tbl (.scalar x) = .one (interpPrev tbl x)) ∧
    (∀ xs, callInterpPrev tbl (.seq xs) = .many (xs.map (interpPrev tbl))) := by
  cases tbl with
  | nil => exact ⟨fun _ => rfl, fun _ => rfl⟩
  | cons a rest =>
    cases rest with
    | nil =>
      obtain ⟨t, v⟩ := a
      refine ⟨fun _ => rfl, fun xs => ?_⟩
      show Res.many (List.replicate xs.length (some v)) = Res.many (xs.map fun _ => some v)
      rw [List.map_const']
    | cons b rest' => exact ⟨fun _ => rfl, fun _ => rfl⟩

/-- **`ts_ks_calls_agree`**: `time_signature_map` and `key_signature_map` -/
theorem ts_ks_calls_agree (span : Span) (ts : List TimeMap.TSig) (kss : List (Int × Int × Mode)) :
    (∀ x, callTS span ts (.scalar x) = .one (tsMapE span ts x)) ∧
    (∀ xs, callTS span ts (.seq xs) = .many (vec (tsMapE span ts) xs)) ∧
    (∀ x, callKS span kss (.scalar x) = .one (ksMap span kss x)) ∧
    (∀ xs, callKS span kss (.seq xs) = .many (vec (ksMap span kss) xs)) :=
  ⟨(interp_call_agrees _).1, (interp_call_agrees _).2, (interp_call_agrees _).1, (interp_call_agrees _).2⟩

/-- **`measure_calls_agree`**: `measure_map` and `measure_number_map` (they raise for a scalar exactly when they raise
    for a sequence: the error comes from building the map) -/
theorem measure_calls_agree (p : PartD) :
    (∀ x, callMeasure p (.scalar x) = (measureMapP p x).map .one) ∧
    (∀ xs, callMeasure p (.seq xs) = if raisesP p then none else some (.many (xs.map (interpPrev (measureTableP p))))) ∧
    (∀ x, callMeasureNumber p (.scalar x) = (measureNumberMapP p x).map .one) ∧
    (∀ xs, (callMeasureNumber p (.seq xs)).isSome = (callMeasureNumber p (.scalar 0)).isSome) := by
  refine ⟨?_, ?_, ?_, ?_⟩
  · intro x
    unfold callMeasure measureMapP
    split
    · rfl
    · rw [(interp_call_agrees _).1]; rfl
  · intro xs
    unfold callMeasure
    split
    · rfl
    · rw [(interp_call_agrees _).2]
  · intro x
    unfold callMeasureNumber measureNumberMapP
    split
    · rfl
    · cases measureNumberTable p.span p.ms (beatsPerBar p) (divsPerBeat p) with
      | none => rfl
      | some tbl => simp [(interp_call_agrees tbl).1]
  · intro xs
    unfold callMeasureNumber
    split
    · rfl
    · cases measureNumberTable p.span p.ms (beatsPerBar p) (divsPerBeat p) <;> rfl

private theorem allSomeL_map_some {β : Type} (l : List β) : allSomeL (l.map some) = some l := by
  induction l with
  | nil => rfl
  | cons a rest ih => simp [allSomeL, ih]

/-- **`metrical_calls_agree`**: `metrical_position_map` - a sequence gives one `(position, length)` row per element,
    each the answer of the scalar call (the tuple), and nothing for an empty sequence -/
theorem metrical_calls_agree (p : PartD) (xs : List Int) (rows : List (Int × Option Int))
    (h : ∀ i (hi : i < xs.length), metricalMapP p xs[i] = rows[i]?) (hl : rows.length = xs.length) :
    callMetrical p (.seq xs) = some (.many rows) ∧
    ∀ i (hi : i < xs.length), callMetrical p (.scalar xs[i]) = (rows[i]?).map .one := by
  constructor
  · unfold callMetrical
    simp only
    have : xs.map (metricalMapP p) = rows.map some := by
      apply List.ext_getElem
      · simp [hl]
      · intro i h1 h2
        simp only [List.getElem_map]
        rw [h i (by simpa using h1)]
        simp only [List.length_map] at h2
        rw [List.getElem?_eq_getElem h2]
    rw [this, allSomeL_map_some]
    rfl
  · intro i hi
    unfold callMetrical
    simp only
    rw [h i hi]

/-- an empty sequence gives an empty array, for every map -/
theorem empty_argument (p : PartD) (span : Span) (kss : List (Int × Int × Mode)) (hr : raisesP p = false) :
    callTS p.span p.ts (.seq []) = .many [] ∧ callKS span kss (.seq []) = .many [] ∧
    callMeasure p (.seq []) = some (.many []) ∧ callMetrical p (.seq []) = some (.many []) := by
  refine ⟨(interp_call_agrees _).2 [], (interp_call_agrees _).2 [], ?_, rfl⟩
  rw [(measure_calls_agree p).2.1, hr]
  rfl

/-- **`clef_calls_agree`**: `clef_map` - for a scalar the list of staff rows of `clefMap`, for a sequence one such
    list per element -/
theorem clef_calls_agree (span : Span) (clefs : List RawClef) (others : List Int) :
    (∀ x, callClef span clefs others (.scalar x) = (clefMap span clefs others x).map .one) ∧
    (∀ xs, callClef span clefs others (.seq xs)
      = if (clefMap span clefs others 0).isSome
        then some (.many (xs.map fun x => (clefMap span clefs others x).getD [])) else none) := by
  constructor
  · intro x
    unfold callClef clefMap
    cases clefRows clefs with
    | none => rfl
    | some rows =>
      cases clefSignToInt "none" with
      | none => rfl
      | some noneCode =>
        simp only [Option.map_some, Option.some.injEq, Res.one.injEq, List.map_map]
        apply List.map_congr_left
        intro i _
        simp only [Function.comp_def]
        rw [(interp_call_agrees _).1]
  · intro xs
    unfold callClef clefMap
    cases clefRows clefs with
    | none => rfl
    | some rows =>
      cases clefSignToInt "none" with
      | none => rfl
      | some noneCode =>
        simp only [Option.isSome_some, if_true, Option.some.injEq, Res.many.injEq, Option.getD_some, List.map_map]
        apply List.ext_getElem
        · simp
        · intro j h1 h2
          simp only [List.getElem_map, List.getElem_range]
          apply List.map_congr_left
          intro i _
          simp only [Function.comp_def]
          rw [(interp_call_agrees _).2]
          simp only [List.length_map, List.length_range] at h1
          simp [List.getElem?_eq_getElem h1]

example : callTS (some (0, 16)) [⟨0, 3, 4, 3⟩] (.seq [2, 9]) = .many [some (3, 4, 3), some (3, 4, 3)]
    ∧ callTS (some (0, 16)) [⟨0, 3, 4, 3⟩] (.scalar 2) = .one (some (3, 4, 3))
    ∧ callTS (some (0, 16)) [⟨0, 3, 4, 3⟩, ⟨8, 4, 4, 4⟩] (.seq [2, 9]) = .many [some (3, 4, 3), some (4, 4, 4)]
    ∧ callTS (some (0, 16)) [⟨0, 3, 4, 3⟩] (.seq []) = .many [] := by decide

end C10
