/-
C10 (round 5) — "scalar and array queries agree", for the calls as the code dispatches them.

Model/StepMapCalls.lean mirrors how each map treats the KIND of its argument: the wrapper
`partitura.utils.generic.interp1d` (scipy when there are at least two samples; one broadcast value, cut down to
its first row for a 0-dimensional argument, when there is one), the `isinstance(input, Iterable)` test of
`metrical_position_map`, the collator of `clef_map`.  For every map, every part and every argument:
a scalar call returns the row of the scalar map of Model/StepMap*.lean (the one the `*_spec` theorems are about),
and a call with a sequence returns exactly one such row per element, in order (`none` for an empty sequence).

Round 6: `metrical_position_map` is modelled as the code dispatches (PPoly and the wrapper called with the argument as
it is, the `Iterable` test, `np.column_stack` / the tuple) and `metrical_calls_agree` has no hypotheses; the sequence
call of `measure_number_map` is an equation; a 0-dimensional array (`np.array(5)`) is a third kind of argument:
`zerod_calls_agree` - the row of the scalar call for five maps, and for `metrical_position_map` that row as a
ONE-ROW ARRAY when the part has measures (`numpy.ndarray` is `Iterable`; the values agree, the shape is the array's).
-/
import PartituraModel.Model.StepMapCalls
import PartituraModel.Props.C10

namespace C10
open Model Model.StepMap

/-- **`interp_call_agrees`**: the wrapper called with a scalar gives the scalar lookup, called with a sequence the
    scalar lookup of every element - in the scipy branch and in the single-sample (broadcast) branch alike -/
theorem interp_call_agrees {α : Type} (tbl : Tbl α) :
    (∀ x, callInterpPrev tbl (.scalar x) = .one (interpPrev tbl x)) ∧
    (∀ xs, callInterpPrev tbl (.seq xs) = .many (xs.map (interpPrev tbl))) := by
  cases tbl with
  | nil => exact ⟨fun _ => rfl, fun _ => rfl⟩
  | cons a rest =>
    cases rest with
    | nil =>
      obtain ⟨t, v⟩ := a
      refine ⟨fun _ => rfl, fun xs => ?_⟩
      show Res.many (List.replicate xs.length (some v)) = Res.many (xs.map fun _ => some v)
      rw [List.map_const']
    | cons b rest' => exact ⟨fun _ => rfl, fun _ => rfl⟩

/-- **`ts_ks_calls_agree`**: `time_signature_map` and `key_signature_map` -/
theorem ts_ks_calls_agree (span : Span) (ts : List TimeMap.TSig) (kss : List (Int × Int × Mode)) :
    (∀ x, callTS span ts (.scalar x) = .one (tsMapE span ts x)) ∧
    (∀ xs, callTS span ts (.seq xs) = .many (vec (tsMapE span ts) xs)) ∧
    (∀ x, callKS span kss (.scalar x) = .one (ksMap span kss x)) ∧
    (∀ xs, callKS span kss (.seq xs) = .many (vec (ksMap span kss) xs)) :=
  ⟨(interp_call_agrees _).1, (interp_call_agrees _).2, (interp_call_agrees _).1, (interp_call_agrees _).2⟩

private theorem allSomeL_map_some {β : Type} (l : List β) : allSomeL (l.map some) = some l := by
  induction l with
  | nil => rfl
  | cons a rest ih => simp [allSomeL, ih]

/-- **`measure_calls_agree`**: `measure_map` and `measure_number_map` (they raise for a scalar exactly when they raise
    for a sequence: the error comes from building the map) -/
theorem measure_calls_agree (p : PartD) :
    (∀ x, callMeasure p (.scalar x) = (measureMapP p x).map .one) ∧
    (∀ xs, callMeasure p (.seq xs) = if raisesP p then none else some (.many (xs.map (interpPrev (measureTableP p))))) ∧
    (∀ x, callMeasureNumber p (.scalar x) = (measureNumberMapP p x).map .one) ∧
    (∀ xs, callMeasureNumber p (.seq xs) = if raisesP p then none
        else (measureNumberTable p.span p.ms (beatsPerBar p) (divsPerBeat p)).map fun tbl =>
          .many (xs.map (interpPrev tbl))) ∧
    (∀ xs, xs ≠ [] → callMeasureNumber p (.seq xs)
        = (allSomeL (xs.map (measureNumberMapP p))).map .many) := by
  refine ⟨?_, ?_, ?_, ?_, ?_⟩
  · intro x
    unfold callMeasure measureMapP
    split
    · rfl
    · rw [(interp_call_agrees _).1]; rfl
  · intro xs
    unfold callMeasure
    split
    · rfl
    · rw [(interp_call_agrees _).2]
  · intro x
    unfold callMeasureNumber measureNumberMapP
    split
    · rfl
    · cases measureNumberTable p.span p.ms (beatsPerBar p) (divsPerBeat p) with
      | none => rfl
      | some tbl => simp [(interp_call_agrees tbl).1]
  · intro xs
    unfold callMeasureNumber
    split
    · rfl
    · cases measureNumberTable p.span p.ms (beatsPerBar p) (divsPerBeat p) with
      | none => rfl
      | some tbl => simp [(interp_call_agrees tbl).2]
  · intro xs hne
    obtain ⟨x, rest, rfl⟩ := List.exists_cons_of_ne_nil hne
    unfold callMeasureNumber measureNumberMapP
    split
    · rfl
    · cases measureNumberTable p.span p.ms (beatsPerBar p) (divsPerBeat p) with
      | none => rfl
      | some tbl =>
        simp only [Option.map_some, (interp_call_agrees tbl).2]
        have : ((x :: rest).map fun x => some (interpPrev tbl x)) = ((x :: rest).map (interpPrev tbl)).map some := by
          rw [List.map_map]; rfl
        rw [this, allSomeL_map_some]
        rfl

/-- the wrapper called with a 0-dimensional array: the row of the scalar lookup (scipy: shape of the argument;
    the single-sample branch: `np.ndim(input_var) == 0`) -/
theorem interp_call_zerod {α : Type} (tbl : Tbl α) (x : Int) :
    callInterpPrev tbl (.zerod x) = .one (interpPrev tbl x) := by
  cases tbl with
  | nil => rfl
  | cons a rest =>
    cases rest with
    | nil => rfl
    | cons b rest' => rfl

private theorem look_ne_nil {β : Type} (look : List β) (last : β) (h : look.getLast? = some last) : look ≠ [] := by
  intro hn; rw [hn] at h; simp at h

/-- `metrical_position_map` given the bar lookups: the three kinds of argument against the scalar map -/
theorem metrical_of_bars_calls (look : List (Int × Int)) :
    (∀ x, callMetricalOfBars look (.scalar x) = (metricalOfBars look x).map .one) ∧
    (∀ xs, callMetricalOfBars look (.seq xs) = (allSomeL (xs.map (metricalOfBars look))).map .many) ∧
    (∀ x, callMetricalOfBars look (.zerod x)
      = (metricalOfBars look x).map fun r => if look.isEmpty then .one r else .many [r]) := by
  unfold callMetricalOfBars metricalOfBars
  cases hl : look.getLast? with
  | none =>
    have he : look = [] := List.getLast?_eq_none_iff.mp hl
    refine ⟨fun _ => rfl, fun xs => ?_, fun _ => by simp [he, callScipy]⟩
    simp only [callScipy]
    have : (xs.map fun _ => some ((0 : Int), some (0 : Int))) = (xs.map fun _ => ((0 : Int), some (0 : Int))).map some := by
      rw [List.map_map]; rfl
    rw [this, allSomeL_map_some]
    rfl
  | some last =>
    have hne : look ≠ [] := look_ne_nil look last hl
    have hemp : look.isEmpty = false := by
      cases look with
      | nil => exact absurd rfl hne
      | cons a r => rfl
    refine ⟨fun x => ?_, fun xs => ?_, fun x => ?_⟩
    · simp only [callScipy, (interp_call_agrees _).1, Arg.isIterable, Bool.false_eq_true, if_false]
      generalize lookupPrev _ x = o
      cases o <;> rfl
    · simp only [callScipy, (interp_call_agrees _).2, Arg.isIterable, if_true, columnStack, List.zip_map',
        List.map_map]
      congr 2
      apply List.map_congr_left
      intro x _
      simp only [Function.comp_def]
      generalize lookupPrev _ x = o
      cases o <;> rfl
    · simp only [callScipy, interp_call_zerod, Arg.isIterable, if_true, hemp, Bool.false_eq_true, if_false,
        List.map_map]
      generalize lookupPrev _ x = o
      cases o <;> rfl

/-- **`metrical_calls_agree`** (no hypotheses): `metrical_position_map` - the scalar call gives the tuple of the
    scalar map; a sequence one `(position, length)` row per element, each the answer of the scalar call, in order; an
    empty sequence an empty array exactly when the map can be built (it raises for a scalar exactly when it raises
    for a sequence: the error comes from building the map) -/
theorem metrical_calls_agree (p : PartD) :
    (∀ x, callMetrical p (.scalar x) = (metricalMapP p x).map .one) ∧
    (∀ xs, xs ≠ [] → callMetrical p (.seq xs) = (allSomeL (xs.map (metricalMapP p))).map .many) ∧
    (callMetrical p (.seq []) = (metricalMapP p 0).map fun _ => .many []) := by
  unfold callMetrical metricalMapP metricalFromTable
  by_cases hr : raisesP p = true
  · simp only [hr, if_true]
    refine ⟨fun _ => rfl, fun xs hne => ?_, rfl⟩
    obtain ⟨x, rest, rfl⟩ := List.exists_cons_of_ne_nil hne
    rfl
  · simp only [hr, Bool.false_eq_true, if_false]
    cases hb : barLookups (measureTableP p) (bars p) with
    | none =>
      refine ⟨fun _ => rfl, fun xs hne => ?_, rfl⟩
      obtain ⟨x, rest, rfl⟩ := List.exists_cons_of_ne_nil hne
      rfl
    | some look =>
      obtain ⟨h1, h2, _⟩ := metrical_of_bars_calls look
      refine ⟨h1, fun xs _ => h2 xs, ?_⟩
      simp only
      rw [h2]
      -- the scalar map answers at 0
      unfold metricalOfBars
      cases hl : look.getLast? with
      | none => rfl
      | some last =>
        have hne : (look.map fun x => (x.1, x.1)) ≠ [] := by
          intro h; exact look_ne_nil look last hl (List.map_eq_nil_iff.mp h)
        have := lookupPrev_isSome _ 0 hne
        simp only [List.map_map] at this ⊢
        obtain ⟨b, hb0⟩ := Option.isSome_iff_exists.mp this
        have hb0' : lookupPrev (List.map ((fun s : Int => (s, s)) ∘ fun x : Int × Int => x.1) look) 0 = some b := hb0
        rw [hb0']
        rfl

/-- the old form: given rows that are the answers of the scalar map, the sequence call returns exactly them -/
theorem metrical_calls_rows (p : PartD) (xs : List Int) (rows : List (Int × Option Int)) (hne : xs ≠ [])
    (h : ∀ i (hi : i < xs.length), metricalMapP p xs[i] = rows[i]?) (hl : rows.length = xs.length) :
    callMetrical p (.seq xs) = some (.many rows) := by
  rw [(metrical_calls_agree p).2.1 xs hne]
  have : xs.map (metricalMapP p) = rows.map some := by
    apply List.ext_getElem
    · simp [hl]
    · intro i h1 h2
      simp only [List.getElem_map]
      rw [h i (by simpa using h1)]
      simp only [List.length_map] at h2
      rw [List.getElem?_eq_getElem h2]
  rw [this, allSomeL_map_some]
  rfl

/-- **`zerod_calls_agree`**: a 0-dimensional array (`np.array(5)`) as argument - five maps answer exactly as for the
    scalar; `metrical_position_map` answers with the same row, as a one-row array when the part has measures (its
    `isinstance(input, Iterable)` test is true for every `numpy.ndarray`) and as the scalar's row when it has none -/
theorem zerod_calls_agree (p : PartD) (span : Span) (kss : List (Int × Int × Mode)) (clefs : List RawClef)
    (others : List Int) (x : Int) :
    callTS p.span p.ts (.zerod x) = callTS p.span p.ts (.scalar x) ∧
    callKS span kss (.zerod x) = callKS span kss (.scalar x) ∧
    callClef span clefs others (.zerod x) = callClef span clefs others (.scalar x) ∧
    callMeasure p (.zerod x) = callMeasure p (.scalar x) ∧
    callMeasureNumber p (.zerod x) = callMeasureNumber p (.scalar x) ∧
    callMetrical p (.zerod x) = (metricalMapP p x).map fun r => if p.ms.isEmpty then .one r else .many [r] := by
  refine ⟨?_, ?_, ?_, ?_, ?_, ?_⟩
  · unfold callTS; rw [interp_call_zerod, (interp_call_agrees _).1]
  · unfold callKS; rw [interp_call_zerod, (interp_call_agrees _).1]
  · unfold callClef
    cases clefRows clefs with
    | none => rfl
    | some rows =>
      cases clefSignToInt "none" with
      | none => rfl
      | some noneCode =>
        simp only [Option.some.injEq, Res.one.injEq, List.map_map]
        apply List.map_congr_left
        intro i _
        simp only [Function.comp_def]
        rw [interp_call_zerod, (interp_call_agrees _).1]
  · unfold callMeasure
    split
    · rfl
    · rw [interp_call_zerod, (interp_call_agrees _).1]
  · unfold callMeasureNumber
    split
    · rfl
    · cases measureNumberTable p.span p.ms (beatsPerBar p) (divsPerBeat p) with
      | none => rfl
      | some tbl => simp [interp_call_zerod, (interp_call_agrees tbl).1]
  · unfold callMetrical metricalMapP metricalFromTable
    split
    · rfl
    · cases hb : barLookups (measureTableP p) (bars p) with
      | none => rfl
      | some look =>
        simp only
        rw [(metrical_of_bars_calls look).2.2]
        -- `look` is empty exactly when the part has no measures
        have : look.isEmpty = p.ms.isEmpty := by
          unfold bars at hb
          cases hms : p.ms with
          | nil => rw [hms] at hb; simp [barLookups] at hb; subst hb; rfl
          | cons m rest =>
            rw [hms] at hb
            simp only [List.map_cons, barLookups] at hb
            split at hb
            · obtain ⟨rfl⟩ := hb; rfl
            · exact absurd hb (by simp)
        rw [this]

/-- an empty sequence gives an empty array, for every map -/
theorem empty_argument (p : PartD) (span : Span) (kss : List (Int × Int × Mode)) (hr : raisesP p = false) :
    callTS p.span p.ts (.seq []) = .many [] ∧ callKS span kss (.seq []) = .many [] ∧
    callMeasure p (.seq []) = some (.many []) ∧
    callMetrical p (.seq []) = (metricalMapP p 0).map fun _ => .many [] := by
  refine ⟨(interp_call_agrees _).2 [], (interp_call_agrees _).2 [], ?_, (metrical_calls_agree p).2.2⟩
  rw [(measure_calls_agree p).2.1, hr]
  rfl

/-- **`clef_calls_agree`**: `clef_map` - for a scalar the list of staff rows of `clefMap`, for a sequence one such
    list per element -/
theorem clef_calls_agree (span : Span) (clefs : List RawClef) (others : List Int) :
    (∀ x, callClef span clefs others (.scalar x) = (clefMap span clefs others x).map .one) ∧
    (∀ xs, callClef span clefs others (.seq xs)
      = if (clefMap span clefs others 0).isSome
        then some (.many (xs.map fun x => (clefMap span clefs others x).getD [])) else none) := by
  constructor
  · intro x
    unfold callClef clefMap
    cases clefRows clefs with
    | none => rfl
    | some rows =>
      cases clefSignToInt "none" with
      | none => rfl
      | some noneCode =>
        simp only [Option.map_some, Option.some.injEq, Res.one.injEq, List.map_map]
        apply List.map_congr_left
        intro i _
        simp only [Function.comp_def]
        rw [(interp_call_agrees _).1]
  · intro xs
    unfold callClef clefMap
    cases clefRows clefs with
    | none => rfl
    | some rows =>
      cases clefSignToInt "none" with
      | none => rfl
      | some noneCode =>
        simp only [Option.isSome_some, if_true, Option.some.injEq, Res.many.injEq, Option.getD_some, List.map_map]
        apply List.ext_getElem
        · simp
        · intro j h1 h2
          simp only [List.getElem_map, List.getElem_range]
          apply List.map_congr_left
          intro i _
          simp only [Function.comp_def]
          rw [(interp_call_agrees _).2]
          simp only [List.length_map, List.length_range] at h1
          simp [List.getElem?_eq_getElem h1]

example : callTS (some (0, 16)) [⟨0, 3, 4, 3⟩] (.seq [2, 9]) = .many [some (3, 4, 3), some (3, 4, 3)]
    ∧ callTS (some (0, 16)) [⟨0, 3, 4, 3⟩] (.scalar 2) = .one (some (3, 4, 3))
    ∧ callTS (some (0, 16)) [⟨0, 3, 4, 3⟩, ⟨8, 4, 4, 4⟩] (.seq [2, 9]) = .many [some (3, 4, 3), some (4, 4, 4)]
    ∧ callTS (some (0, 16)) [⟨0, 3, 4, 3⟩] (.seq []) = .many [] := by decide

/-! ### one row or an array of rows -/

theorem interp_shape {α : Type} (tbl : Tbl α) (a : Arg) : (callInterpPrev tbl a).isOne = a.isZeroDim := by
  cases tbl with
  | nil => cases a <;> rfl
  | cons e rest =>
    cases rest with
    | nil => cases a <;> rfl
    | cons b rest' => cases a <;> rfl

/-- **`call_shapes`**: whether a call answers with one row or with an array of rows depends on the KIND of the
    argument alone - never on the part or the position: a number or a 0-dimensional array gives one row, a sequence
    an array, for five maps; `metrical_position_map` gives the tuple for a number, an array for a sequence, and for a
    0-dimensional array an array when the part has measures (`Iterable`) and one row when it has none -/
theorem call_shapes (p : PartD) (span : Span) (kss : List (Int × Int × Mode)) (clefs : List RawClef)
    (others : List Int) (a : Arg) :
    (callTS p.span p.ts a).isOne = a.isZeroDim ∧ (callKS span kss a).isOne = a.isZeroDim ∧
    (∀ r, callClef span clefs others a = some r → r.isOne = a.isZeroDim) ∧
    (∀ r, callMeasure p a = some r → r.isOne = a.isZeroDim) ∧
    (∀ r, callMeasureNumber p a = some r → r.isOne = a.isZeroDim) ∧
    (∀ r, callMetrical p a = some r → r.isOne = match a with
      | .scalar _ => true
      | .zerod _ => p.ms.isEmpty
      | .seq _ => false) := by
  refine ⟨interp_shape _ a, interp_shape _ a, ?_, ?_, ?_, ?_⟩
  · intro r hr
    unfold callClef at hr
    cases hc : clefRows clefs with
    | none => rw [hc] at hr; simp at hr
    | some rows =>
      cases hn : clefSignToInt "none" with
      | none => rw [hc, hn] at hr; simp at hr
      | some noneCode =>
        rw [hc, hn] at hr
        simp only [Option.some.injEq] at hr
        rw [← hr]
        cases a <;> rfl
  · intro r hr
    unfold callMeasure at hr
    split at hr
    · simp at hr
    · simp only [Option.some.injEq] at hr
      rw [← hr]; exact interp_shape _ a
  · intro r hr
    unfold callMeasureNumber at hr
    split at hr
    · simp at hr
    · cases ht : measureNumberTable p.span p.ms (beatsPerBar p) (divsPerBeat p) with
      | none => rw [ht] at hr; simp at hr
      | some tbl =>
        rw [ht] at hr
        simp only [Option.map_some, Option.some.injEq] at hr
        rw [← hr]; exact interp_shape _ a
  · intro r hr
    cases a with
    | scalar x =>
      rw [(metrical_calls_agree p).1] at hr
      cases hm : metricalMapP p x with
      | none => rw [hm] at hr; simp at hr
      | some v => rw [hm] at hr; simp only [Option.map_some, Option.some.injEq] at hr; rw [← hr]; rfl
    | zerod x =>
      rw [(zerod_calls_agree p span kss clefs others x).2.2.2.2.2] at hr
      cases hm : metricalMapP p x with
      | none => rw [hm] at hr; simp at hr
      | some v =>
        rw [hm] at hr
        simp only [Option.map_some, Option.some.injEq] at hr
        rw [← hr]
        cases p.ms.isEmpty <;> rfl
    | seq xs =>
      cases xs with
      | nil =>
        rw [(metrical_calls_agree p).2.2] at hr
        cases hm : metricalMapP p 0 with
        | none => rw [hm] at hr; simp at hr
        | some v => rw [hm] at hr; simp only [Option.map_some, Option.some.injEq] at hr; rw [← hr]; rfl
      | cons x rest =>
        rw [(metrical_calls_agree p).2.1 _ (List.cons_ne_nil _ _)] at hr
        cases hm : allSomeL ((x :: rest).map (metricalMapP p)) with
        | none => rw [hm] at hr; simp at hr
        | some v => rw [hm] at hr; simp only [Option.map_some, Option.some.injEq] at hr; rw [← hr]; rfl

/-- non-vacuity of the argument kinds of `metrical_position_map`: a part with a pickup (first bar moved back to -8) -/
def exCallPart : PartD :=
  { npoints := 5, span := some (0, 52), qd := [(0, 4), (28, 8)], ts := [⟨0, 6, 8, 2⟩, ⟨28, 3, 4, 3⟩], musical := true,
    ms := [(0, 4, some 0), (4, 28, some 1), (28, 52, some 2)] }

example : callMetrical exCallPart (.scalar 30) = some (.one (2, some 24))
    ∧ callMetrical exCallPart (.zerod 30) = some (.many [(2, some 24)])
    ∧ callMetrical exCallPart (.seq [30, 2]) = some (.many [(2, some 24), (10, some 12)])
    ∧ callMetrical exCallPart (.seq []) = some (.many [])
    ∧ callMetrical { exCallPart with ms := [] } (.zerod 30) = some (.one (0, some 0))
    ∧ callMeasureNumber exCallPart (.seq [30, 2]) = some (.many [some 2, some 0])
    ∧ callMeasureNumber exCallPart (.zerod 30) = some (.one (some 2)) := by decide +kernel

end C10
