/-
C14 (round 2) — note arrays and their inverse over column subsets, the performance note array, the sorted track
numbering, and the numpy primitives the pedal adjustment relies on (reduced to their documented contracts).
-/
import PartituraModel.Proofs.C14Arrays
import PartituraModel.Props.C14Dict

namespace C14
open Model Model.Pedal C14P

/-! ### numpy primitives: contract ⇒ the list model -/

/-- `np.searchsorted(a, x)` is documented to return an index `i` with `a[:i] < x ≤ a[i:]`; whatever algorithm
    finds it, that index is the model's `searchsortedLeft a x` (number of leading elements `< x`) -/
theorem searchsorted_unique (a : List Rat) (x : Rat) (i : Nat) (h : IsSearchLeft a x i) : searchsortedLeft a x = i :=
  C14P.searchsorted_unique a x i h

/-- on an ascending array the model's value does meet the contract (so the contract is satisfiable there, and the
    two arrays the code searches are ascending: `searched_arrays_sorted`) -/
theorem searchsorted_meets_contract (a : List Rat) (x : Rat) (hs : a.Pairwise (fun u v => u ≤ v)) :
    IsSearchLeft a x (searchsortedLeft a x) :=
  C14P.searchsorted_meets_contract a x hs

/-- numpy's binary search (`npy_binsearch`, side left) returns that index on every ascending array -/
theorem np_binsearch_correct (a : List Rat) (x : Rat) (hs : a.Pairwise (fun u v => u ≤ v)) :
    npSearchsorted a x = searchsortedLeft a x := by
  symm
  apply C14P.searchsorted_unique
  unfold npSearchsorted
  exact binSearch_spec a x hs (a.length + 1) 0 a.length (by omega) (by omega)
    (fun j u hj => absurd hj (Nat.not_lt_zero j))
    (fun j u hj hu => by
      have := (List.getElem?_eq_some_iff.mp hu).1
      omega)

example : npSearchsorted [0, 1, 1, 1, 2, 5] 1 = 1 ∧ npSearchsorted [0, 1, 1, 1, 2, 5] (3/2) = 4
    ∧ npSearchsorted [0, 1, 1, 1, 2, 5] 9 = 6 ∧ npSearchsorted [] 9 = 0 := by decide +kernel
example : IsSearchLeft [0, 1, 1, 2] 1 1 :=
  searchsorted_meets_contract [0, 1, 1, 2] 1 (by decide +kernel)

/-- `a[np.argsort(key(a), kind="stable")]` is documented to be a stable sort; every list meeting that contract is
    the model's insertion sort `sortBy key l` -/
theorem stable_sort_unique {α : Type} (key : α → Rat) (l s : List α) (h : IsStableSort key l s) : s = sortBy key l := by
  apply sorted_filters_unique key s (sortBy key l) h.1 (sorted_sortBy key l)
  intro t
  rw [h.2 t, stable_sortBy key t l]

/-- … and the model's sort meets the contract -/
theorem sortBy_is_stable_sort {α : Type} (key : α → Rat) (l : List α) : IsStableSort key l (sortBy key l) :=
  ⟨sorted_sortBy key l, fun t => stable_sortBy key t l⟩

example : IsStableSort (fun p : Rat × Nat => p.1) [(1, 0), (0, 1), (1, 2), (0, 3)] [(0, 1), (0, 3), (1, 0), (1, 2)] := by
  have h := sortBy_is_stable_sort (fun p : Rat × Nat => p.1) [(1, 0), (0, 1), (1, 2), (0, 3)]
  rwa [show sortBy (fun p : Rat × Nat => p.1) [(1, 0), (0, 1), (1, 2), (0, 3)] = [(0, 1), (0, 3), (1, 0), (1, 2)] from by
    decide +kernel] at h

/-! ### `from_note_array` over column subsets -/

/-- what `from_note_array` needs of a note to take it back: MIDI ranges of what `note_array` reports as pitch and
    velocity, a non-negative onset not after the sounding end -/
def Rebuildable (n : PNote) : Prop :=
  0 ≤ n.midiPitch ∧ n.midiPitch ≤ 127 ∧ 0 ≤ n.vel ∧ n.vel ≤ 127 ∧ 0 ≤ n.on ∧ n.on ≤ n.soundOff

/-- every note of a part built from dictionaries with consistent pitch keys is such a note -/
theorem built_rebuildable (rs : List RawNote) (cs : List Control) (thr : Int) (p : PPart)
    (hk : ∀ r ∈ rs, ∀ a b, r.pitch = some a → r.midiPitch = some b → a = b)
    (hp : buildRaw rs cs thr = some p) : ∀ n ∈ p.notes, Rebuildable n := by
  obtain ⟨ns, hns, hbp⟩ := raw_build_refines rs cs thr p hk hp
  intro n hn
  obtain ⟨i, hi⟩ := List.getElem?_of_mem hn
  -- `buildPart` accepted the notes as read, so each is a valid note; the sounding end is not before the release
  have hvalid : (ns.map PNote.toNote).all validNote = true := by
    unfold buildPart at hbp
    split at hbp
    · assumption
    · cases hbp
  have hreadp : p.notes.map PNote.toNote = ns.map PNote.toNote := by
    obtain ⟨ns', p', hns', hp', hr, _⟩ := raw_total rs cs thr (fun r hr => by
      cases hi' : initNote r with
      | none => rw [raw_rejects rs cs thr r hr hi'] at hp; cases hp
      | some n => exact ⟨n, rfl⟩)
    rw [hns] at hns'
    rw [hp] at hp'
    have e1 := Option.some.inj hns'
    have e2 := Option.some.inj hp'
    subst e1 e2
    exact hr
  have hv : validNote n.toNote = true := by
    have : n.toNote ∈ ns.map PNote.toNote := by
      rw [← hreadp]
      exact List.mem_map.mpr ⟨n, hn, rfl⟩
    exact List.all_eq_true.mp hvalid _ this
  obtain ⟨v1, v2, v3, v4, v5, v6⟩ := (validNote_iff _).mp hv
  simp only [PNote.toNote] at v1 v2 v3 v4 v5 v6
  -- sounding end ≥ release: the part is the result of a threshold assignment
  have hge : n.off ≤ n.soundOff := by
    unfold buildRaw at hp
    rw [hns] at hp
    simp only at hp
    have hst : step { notes := ns, controls := cs, thr := thr } (.thr thr) = (p, .ok) := by
      simp only [step, hp]
    exact (state_sound _ thr p hst i n hi).2
  exact ⟨v1, v2, v5, v6, v3, le_trans v4 hge⟩

/-- an array without `onset_sec`/`duration_sec` or without `velocity` is rejected as soon as it has a row (the
    docstring lists them as mandatory; tick columns are never looked at); an empty array gives an empty part -/
theorem from_array_mandatory (f : ArrFields) (rows : List ARow) :
    (rows ≠ [] → (f.sec = false ∨ f.vel = false) → fromArray f rows = none)
    ∧ fromArray f [] = some ⟨[], [], Gen.C14.defaultThreshold⟩ := by
  constructor
  · intro hne hf
    unfold fromArray
    have : rows.isEmpty = false := by
      cases rows with
      | nil => exact absurd rfl hne
      | cons _ _ => rfl
    rw [this]
    rcases hf with h | h <;> simp [h]
  · rfl

/-- with the mandatory columns, whatever other columns the array has: the part rebuilt from `pp.note_array()`
    restricted to those columns has, note by note, the pitch `note_array` reported (under both keys), the velocity,
    the onset and — as release and as sounding end — the sounding end of the original; tracks and channels are the
    original ones when their column is there and 0 / 1 otherwise; ids are `n0, n1, …` unless the array has an id
    column with at least two different ids; no controls, the default threshold (the defaults are regenerated) -/
theorem from_array_roundtrip (f : ArrFields) (hf : f.sec = true ∧ f.vel = true) (mpq ppq : Nat) (p : PPart)
    (hp : ∀ n ∈ p.notes, Rebuildable n) :
    ∃ q, fromArray f (partRows mpq ppq p) = some q
      ∧ q.notes.map (fun n => (n.pitch, n.midiPitch, n.vel, n.on, n.off, n.soundOff))
          = p.notes.map (fun n => (n.midiPitch, n.midiPitch, n.vel, n.on, n.soundOff, n.soundOff))
      ∧ q.notes.map (·.track) = p.notes.map (fun n => if f.track then n.track else Gen.C14.fromArrayTrackDefault)
      ∧ q.notes.map (·.chan) = p.notes.map (fun n => if f.chan then n.chan else Gen.C14.fromArrayChanDefault)
      ∧ q.notes.map (·.id) = (arrayIds f (partRows mpq ppq p)).map some
      ∧ (∀ n ∈ q.notes, n.onTick = none ∧ n.offTick = none)
      ∧ q.controls = [] ∧ q.thr = Gen.C14.defaultThreshold := by
  by_cases hemp : p.notes = []
  · refine ⟨⟨[], [], Gen.C14.defaultThreshold⟩, ?_, ?_⟩
    · unfold partRows; rw [hemp]; rfl
    · simp [hemp, partRows, arrayIds]
      cases f.hasId <;> simp [nIds]
  · set rows := partRows mpq ppq p with hrows
    set ids := arrayIds f rows with hids
    have hlen : ids.length = rows.length := arrayIds_length f rows
    have hne : rows.isEmpty = false := by
      cases hn : p.notes with
      | nil => exact absurd hn hemp
      | cons a rest => simp [hrows, partRows, hn]
    set ns := (ids.zip rows).map (fun ir => rebuilt f ir.1 ir.2.row) with hnsdef
    have hinit : mapM' initNote ((ids.zip rows).map (fun ir => rawOfRow f ir.1 ir.2.row)) = some ns := by
      rw [hnsdef]
      rw [show (ids.zip rows).map (fun ir => rebuilt f ir.1 ir.2.row)
          = ((ids.zip rows).map (fun ir => rawOfRow f ir.1 ir.2.row)).map
              (fun r => (initNote r).getD ⟨none, 0, 0, 0, 0, 0, 0, 0, 0, none, none⟩) from ?_]
      · apply mapM'_eq_some
        intro r hr
        obtain ⟨ir, hir, rfl⟩ := List.mem_map.mp hr
        have hrow : ir.2 ∈ rows := (List.of_mem_zip hir).2
        rw [hrows] at hrow
        unfold partRows at hrow
        obtain ⟨n, hn, hnr⟩ := List.mem_map.mp hrow
        obtain ⟨a1, a2, a3, a4, a5, a6⟩ := hp n hn
        have := init_rawOfRow f ir.1 ir.2.row (by rw [← hnr]; exact ⟨a1, a2⟩) (by rw [← hnr]; exact ⟨a3, a4⟩)
          (by rw [← hnr]; exact a5) (by rw [← hnr]; simp only [noteRow, PNote.toNote]; linarith)
        rw [this]; rfl
      · rw [List.map_map]
        apply List.map_congr_left
        intro ir hir
        have hrow : ir.2 ∈ rows := (List.of_mem_zip hir).2
        rw [hrows] at hrow
        unfold partRows at hrow
        obtain ⟨n, hn, hnr⟩ := List.mem_map.mp hrow
        obtain ⟨a1, a2, a3, a4, a5, a6⟩ := hp n hn
        have := init_rawOfRow f ir.1 ir.2.row (by rw [← hnr]; exact ⟨a1, a2⟩) (by rw [← hnr]; exact ⟨a3, a4⟩)
          (by rw [← hnr]; exact a5) (by rw [← hnr]; simp only [noteRow, PNote.toNote]; linarith)
        simp only [Function.comp, this, Option.getD_some]
    have hsame : ∀ n ∈ ns, n.soundOff = n.off := by
      intro n hn
      rw [hnsdef] at hn
      obtain ⟨ir, _, rfl⟩ := List.mem_map.mp hn
      rfl
    have hq : fromArray f rows = some ⟨ns, [], Gen.C14.defaultThreshold⟩ := by
      unfold fromArray
      rw [hne]
      simp only [hf.1, hf.2, Bool.and_self, Bool.not_true, Bool.false_eq_true, if_false]
      unfold buildRaw
      rw [← hids, hinit]
      exact assignThr_no_controls ns Gen.C14.defaultThreshold hsame
    refine ⟨⟨ns, [], Gen.C14.defaultThreshold⟩, hq, ?_, ?_, ?_, ?_, ?_, rfl, rfl⟩
    · simp only [hnsdef, List.map_map]
      have := map_zip_snd (fun r : ARow => (r.row.pitch, r.row.pitch, r.row.vel, r.row.onsetSec,
        r.row.onsetSec + r.row.durSec, r.row.onsetSec + r.row.durSec)) ids rows hlen
      simp only [Function.comp_def, rebuilt] at this ⊢
      rw [this, hrows]
      unfold partRows
      rw [List.map_map]
      apply List.map_congr_left
      intro n _
      simp only [Function.comp, noteRow, PNote.toNote]
      have : n.on + (n.soundOff - n.on) = n.soundOff := add_sub_cancel _ _
      rw [this]
    · simp only [hnsdef, List.map_map]
      have := map_zip_snd (fun r : ARow => if f.track then r.row.track else Gen.C14.fromArrayTrackDefault) ids rows hlen
      simp only [Function.comp_def, rebuilt] at this ⊢
      rw [this, hrows]
      unfold partRows
      rw [List.map_map]
      rfl
    · simp only [hnsdef, List.map_map]
      have := map_zip_snd (fun r : ARow => if f.chan then r.row.chan else Gen.C14.fromArrayChanDefault) ids rows hlen
      simp only [Function.comp_def, rebuilt] at this ⊢
      rw [this, hrows]
      unfold partRows
      rw [List.map_map]
      rfl
    · simp only [hnsdef, List.map_map]
      have := map_zip_fst (fun i : String => some i) ids rows hlen
      simp only [Function.comp_def, rebuilt] at this ⊢
      exact this
    · intro n hn
      rw [hnsdef] at hn
      obtain ⟨ir, _, rfl⟩ := List.mem_map.mp hn
      exact ⟨rfl, rfl⟩

/-- the rebuilt part has the default ppq / mpq of `PerformedPart.__init__` (regenerated from the source), and its own note array agrees with the original's
    seconds, pitch and velocity columns (the ticks are the tick images under the defaults: `rows_consistent`) -/
theorem from_array_rows (f : ArrFields) (hf : f.sec = true ∧ f.vel = true) (mpq ppq : Nat) (p q : PPart)
    (hp : ∀ n ∈ p.notes, Rebuildable n) (hq : fromArray f (partRows mpq ppq p) = some q) :
    (partRows defaultMpq defaultPpq q).map (fun r => (r.row.onsetSec, r.row.durSec, r.row.pitch, r.row.vel))
      = (partRows mpq ppq p).map (fun r => (r.row.onsetSec, r.row.durSec, r.row.pitch, r.row.vel))
    ∧ (partRows defaultMpq defaultPpq q).map (fun r => r.row.onsetTick)
      = p.notes.map (fun n => secToTick n.on defaultMpq defaultPpq) := by
  obtain ⟨q', hq', h1, _, _, _, hticks, _, _⟩ := from_array_roundtrip f hf mpq ppq p hp
  rw [hq] at hq'
  have := Option.some.inj hq'
  subst this
  have hA : q.notes.map (fun n => (n.on, n.soundOff - n.on, n.midiPitch, n.vel))
      = p.notes.map (fun n => (n.on, n.soundOff - n.on, n.midiPitch, n.vel)) := by
    have := congrArg (List.map (fun x : Int × Int × Int × Rat × Rat × Rat => (x.2.2.2.1, x.2.2.2.2.2 - x.2.2.2.1, x.2.1, x.2.2.1))) h1
    simpa [List.map_map, Function.comp_def] using this
  have hB : q.notes.map (fun n => n.on) = p.notes.map (fun n => n.on) := by
    have := congrArg (List.map (fun x : Rat × Rat × Int × Int => x.1)) hA
    simpa [List.map_map, Function.comp_def] using this
  constructor
  · simp only [partRows, List.map_map, Function.comp_def, noteRow, PNote.toNote]
    exact hA
  · have hC : (partRows defaultMpq defaultPpq q).map (fun r => r.row.onsetTick)
        = q.notes.map (fun n => secToTick n.on defaultMpq defaultPpq) := by
      simp only [partRows, List.map_map]
      apply List.map_congr_left
      intro n hn
      simp only [Function.comp, noteRow, PNote.toNote, (hticks n hn).1, Option.getD_none]
    rw [hC]
    have := congrArg (List.map (fun t : Rat => secToTick t defaultMpq defaultPpq)) hB
    simpa [List.map_map, Function.comp_def] using this

-- both ids equal -> `n0, n1`; no track column -> the default; channel column kept; the rebuilt part's ticks are under the
-- default ppq / mpq (all regenerated from the source);
-- an array without the seconds columns is rejected
example : ((buildRaw [⟨some "a", some 60, none, some 0, some 2, none, none, some 3, some 5, none, none⟩,
                      ⟨some "a", none, some 60, some 3, some 4, none, some 64, none, none, none, none⟩]
    [⟨64, 1/2, 100, none⟩, ⟨64, 5, 0, none⟩] 64).bind (fun p => fromArray ⟨true, true, true, false, true⟩ (partRows 250000 96 p))).map
      (fun q => (q.notes, (partRows defaultMpq defaultPpq q).map (fun r => (r.id, r.row.onsetTick, r.row.durTick))))
    = some ([⟨some (Gen.C14.fromArrayIdHead ++ "0"), 60, 60, 0, 3, 3, Gen.C14.velDefault, Gen.C14.fromArrayTrackDefault, 5, none, none⟩,
             ⟨some (Gen.C14.fromArrayIdHead ++ "1"), 60, 60, 3, 5, 5, 64, Gen.C14.fromArrayTrackDefault, Gen.C14.chanDefault, none, none⟩],
            [(Gen.C14.fromArrayIdHead ++ "0", 0, secToTick 3 defaultMpq defaultPpq),
             (Gen.C14.fromArrayIdHead ++ "1", secToTick 3 defaultMpq defaultPpq,
              secToTick 5 defaultMpq defaultPpq - secToTick 3 defaultMpq defaultPpq)]) := by
  decide +kernel
example : (buildRaw [⟨some "a", some 60, none, some 0, some 2, none, none, some 3, some 5, none, none⟩] [] 64).bind
    (fun p => fromArray ⟨false, true, true, true, true⟩ (partRows 250000 96 p)) = none := by decide +kernel
example : Rebuildable ⟨some "a", 60, 60, 0, 2, 3, 60, 3, 5, none, none⟩ := by
  unfold Rebuildable; decide +kernel

/-! ### `Performance.note_array()` -/

/-- the order of the performance note array: by onset, rows of equal onset by pitch -/
def RowLe (a b : ARow) : Prop :=
  a.row.onsetSec < b.row.onsetSec ∨ (a.row.onsetSec = b.row.onsetSec ∧ a.row.pitch ≤ b.row.pitch)

/-- whatever arrangement `S` the (unstable) sort by pitch leaves — any rearrangement of the concatenated rows in
    ascending pitch order — the stable sort by onset that follows gives a rearrangement of the concatenated rows
    ordered by onset and, within one onset, by pitch -/
theorem perf_rows_any_pitch_sort (uid : Bool) (parts : List (List ARow)) (S : List ARow)
    (hp : S.Perm (perfConcat uid parts))
    (hS : S.Pairwise (fun a b => a.row.pitch ≤ b.row.pitch)) :
    (sortBy (fun r : ARow => r.row.onsetSec) S).Perm (perfConcat uid parts)
    ∧ (sortBy (fun r : ARow => r.row.onsetSec) S).Pairwise RowLe := by
  refine ⟨(perm_sortBy _ S).trans hp, ?_⟩
  have hsorted := sorted_sortBy (fun r : ARow => r.row.onsetSec) S
  apply List.pairwise_iff_forall_sublist.mpr
  intro a b hab
  have hle : a.row.onsetSec ≤ b.row.onsetSec := List.pairwise_iff_forall_sublist.mp hsorted hab
  rcases lt_or_eq_of_le hle with h | h
  · exact Or.inl h
  · right
    refine ⟨h, ?_⟩
    have hf := hab.filter (fun r : ARow => decide (r.row.onsetSec = a.row.onsetSec))
    rw [stable_sortBy] at hf
    have hb : decide (b.row.onsetSec = a.row.onsetSec) = true := by simp [h]
    simp only [List.filter_cons, decide_true, if_true, hb, List.filter_nil] at hf
    exact List.pairwise_iff_forall_sublist.mp (hS.filter _) hf

/-- `Performance.note_array()` of at least one part: all the rows of all the parts (each exactly once), ordered by
    onset and then pitch; without parts it raises -/
theorem perf_rows_spec (uid : Bool) (parts : List (List ARow)) :
    (parts ≠ [] → ∃ R, perfRows uid parts = some R ∧ R.Perm (perfConcat uid parts) ∧ R.Pairwise RowLe)
    ∧ perfRows uid [] = none := by
  refine ⟨?_, rfl⟩
  intro hne
  have he : parts.isEmpty = false := by
    cases parts with
    | nil => exact absurd rfl hne
    | cons _ _ => rfl
  refine ⟨_, by unfold perfRows; rw [he]; rfl, ?_⟩
  apply perf_rows_any_pitch_sort uid parts _ (perm_sortBy _ _)
  have := sorted_sortBy (fun r : ARow => (r.row.pitch : Rat)) (perfConcat uid parts)
  exact this.imp (fun {a b} h => by
    have h' : ((a.row.pitch : Int) : Rat) ≤ ((b.row.pitch : Int) : Rat) := h
    exact_mod_cast h')

/-- every row of the concatenation is a row of one part's `note_array()` — the same numbers; the id is prefixed
    with the part number when there are several parts (and `unique_id_per_part` is left on) — so `rows_consistent` holds for the performance array -/
theorem perf_rows_are_part_rows (uid : Bool) (parts : List (List ARow)) (x : ARow) (hx : x ∈ perfConcat uid parts) :
    ∃ i rows r, parts[i]? = some rows ∧ r ∈ rows ∧ x.row = r.row
      ∧ x.id = if uid = true ∧ parts.length > 1 then Gen.C14.idPrefixHead ++ pad2 i ++ Gen.C14.idPrefixTail ++ r.id else r.id := by
  unfold perfConcat at hx
  obtain ⟨pr, hpr, hxin⟩ := List.mem_flatMap.mp hx
  have hget : parts[pr.2]? = some pr.1 := List.mem_zipIdx_iff_getElem?.mp hpr
  unfold prefixIds at hxin
  by_cases hl : uid = true ∧ parts.length > 1
  · have hc : (uid && decide (parts.length > 1)) = true := by simp [hl.1, hl.2]
    rw [if_pos hc] at hxin
    obtain ⟨r, hr, rfl⟩ := List.mem_map.mp hxin
    exact ⟨pr.2, pr.1, r, hget, hr, rfl, by rw [if_pos hl]⟩
  · have hc : ¬ (uid && decide (parts.length > 1)) = true := by
      simp only [Bool.and_eq_true, decide_eq_true_eq]; exact hl
    rw [if_neg hc] at hxin
    exact ⟨pr.2, pr.1, x, hget, hxin, rfl, by rw [if_neg hl]⟩

example : perfRows true [[⟨"n0", ⟨1, 1, 960, 960, 62, 64, 0, 1⟩⟩, ⟨"n1", ⟨0, 1, 0, 960, 60, 64, 0, 1⟩⟩],
                    [⟨"n0", ⟨1, 2, 960, 1920, 60, 70, 1, 1⟩⟩]]
    = some [⟨Gen.C14.idPrefixHead ++ pad2 0 ++ Gen.C14.idPrefixTail ++ "n1", ⟨0, 1, 0, 960, 60, 64, 0, 1⟩⟩,
            ⟨Gen.C14.idPrefixHead ++ pad2 1 ++ Gen.C14.idPrefixTail ++ "n0", ⟨1, 2, 960, 1920, 60, 70, 1, 1⟩⟩,
            ⟨Gen.C14.idPrefixHead ++ pad2 0 ++ Gen.C14.idPrefixTail ++ "n0", ⟨1, 1, 960, 960, 62, 64, 0, 1⟩⟩] := by decide +kernel

example : perfRows false [[⟨"n0", ⟨1, 1, 960, 960, 62, 64, 0, 1⟩⟩], [⟨"n0", ⟨1, 2, 960, 1920, 60, 70, 1, 1⟩⟩]]
    = some [⟨"n0", ⟨1, 2, 960, 1920, 60, 70, 1, 1⟩⟩, ⟨"n0", ⟨1, 1, 960, 960, 62, 64, 0, 1⟩⟩] := by decide +kernel

/-! ### track numbers in sorted order (fix C06-3) -/

/-- the enumeration the code uses, `sorted(set(pairs))`, is a duplicate-free enumeration of the (part, track)
    pairs, so `tracks_unique` applies to `sanitizeSorted` (= `sanitizeWith` of it) … -/
theorem tracks_sorted_enumeration (parts : List PartTracks) :
    (sortKeys (dedup (trackKeys parts))).Nodup
    ∧ (∀ k, k ∈ sortKeys (dedup (trackKeys parts)) ↔ k ∈ trackKeys parts)
    ∧ sanitizeSorted parts = sanitizeWith (sortKeys (dedup (trackKeys parts))) parts :=
  ⟨(perm_sortKeys _).nodup_iff.mpr (nodup_dedup _),
   fun k => ((perm_sortKeys _).mem_iff).trans (mem_dedup _ k), rfl⟩

/-- … and the new numbers (`track_map[(i, t)]`) follow the order of the pairs: parts in their order, within a part
    the old track numbers in ascending order -/
theorem tracks_sorted_monotone (parts : List PartTracks) (k₁ k₂ : Nat × Int) (h₁ : k₁ ∈ trackKeys parts)
    (h₂ : k₂ ∈ trackKeys parts) (hle : keyLe k₁ k₂ = true) :
    ∃ j₁ j₂, trackMap (sortKeys (dedup (trackKeys parts))) k₁ = some j₁
      ∧ trackMap (sortKeys (dedup (trackKeys parts))) k₂ = some j₂ ∧ j₁ ≤ j₂ := by
  obtain ⟨_, hmem, _⟩ := tracks_sorted_enumeration parts
  obtain ⟨j₁, e₁, _⟩ := indexOf_some_of_mem k₁ _ ((hmem k₁).mpr h₁)
  obtain ⟨j₂, e₂, _⟩ := indexOf_some_of_mem k₂ _ ((hmem k₂).mpr h₂)
  exact ⟨j₁, j₂, e₁, e₂, indexOf_sorted_mono _ (sorted_sortKeys _) k₁ k₂ j₁ j₂ e₁ e₂ hle⟩

/-- "without mixing parts": every track of an earlier part gets a smaller number than every track of a later part -/
theorem tracks_parts_in_order (parts : List PartTracks) (i₁ i₂ : Nat) (t₁ t₂ : Int) (h₁ : (i₁, t₁) ∈ trackKeys parts)
    (h₂ : (i₂, t₂) ∈ trackKeys parts) (hlt : i₁ < i₂) :
    ∃ j₁ j₂, trackMap (sortKeys (dedup (trackKeys parts))) (i₁, t₁) = some j₁
      ∧ trackMap (sortKeys (dedup (trackKeys parts))) (i₂, t₂) = some j₂ ∧ j₁ < j₂ := by
  obtain ⟨j₁, j₂, e₁, e₂, hle⟩ := tracks_sorted_monotone parts (i₁, t₁) (i₂, t₂) h₁ h₂
    ((keyLe_iff _ _).mpr (Or.inl hlt))
  refine ⟨j₁, j₂, e₁, e₂, ?_⟩
  rcases Nat.lt_or_ge j₁ j₂ with h | h
  · exact h
  · have : j₁ = j₂ := by omega
    subst this
    have := indexOf_inj (i₁, t₁) (i₂, t₂) _ j₁ e₁ e₂
    have := (Prod.mk.inj this).1
    omega

-- `PerformedPart.num_tracks` counts tracks that only carry controls or programs (a missing track key counts as -1)
example : partNumTracks ⟨[0, 0], [some 5, none], [some 0]⟩ = 3 := by decide +kernel

example : sanitizeSorted [⟨[1, 0, 1], [some 0], []⟩, ⟨[0, 0], [none], [some 0]⟩]
    = some [([1, 0, 1], [0], []), ([3, 3], [2], [3])]
  ∧ numTracks [⟨[1, 0, 1], [some 0], []⟩, ⟨[0, 0], [none], [some 0]⟩] = 4 := by decide +kernel

end C14
