/-
C15, round 2 - further statements about `merge_parts` / `load_score_as_part`
(model: PartituraModel/Model/Merge.lean, tables: Gen/C15Tables.lean generated from the live source).

  * the class tuples, guards and constants of the source are those the model and the property text assume
  * dispatch: a Score, a PartGroup (nested to any depth), a list of parts and groups, a single part
  * the order in which the merged part yields its elements
  * references between elements (ties, slurs, tuplets, beams, grace chains) after merging
  * objects that are on a timeline by their end only
  * parts with several divisions values are rejected, a part that starts after 0 stays where it is
Definitions used in the statements (Proofs/C15Refs.lean): `Describes names pred` (a class tuple of the source covers
exactly the classes `pred`, over the whole class table), `RefsClosed` (references stay within a part), `Kept`
(an object is transferred from some input), the concrete part `exE`.
-/
import PartituraModel.Proofs.C15Order

namespace C15
open Model.Merge

-- ================================================================ the tables of the source

/-- The source of `merge_parts` has the form the translator understands and its tables are the ones the model
uses: the accepted `reassign` values; voices in use are those of the GenericNote instances and exactly these get a
new voice in voice and auto mode (none in staff mode); staves in use are those of GenericNote / Words / Direction /
Clef instances and exactly these get a new staff in staff and auto mode (none in voice mode); auto mode reserves 4
voice numbers per staff.  (Whole-table obligation: re-checked whenever the source changes.) -/
theorem source_tables :
    Gen.C15.extractionOk = true
      ∧ (∀ s, s ∈ Gen.C15.reassignValues ↔ s ∈ ["voice", "staff", "auto"])
      ∧ Describes Gen.C15.voiceSource isGeneric
      ∧ Describes Gen.C15.voiceGuardVoice isGeneric ∧ Describes Gen.C15.voiceGuardAuto isGeneric
      ∧ Gen.C15.voiceGuardStaff = []
      ∧ Describes Gen.C15.staffSource withStaff
      ∧ Describes Gen.C15.staffGuardStaff withStaff ∧ Describes Gen.C15.staffGuardAuto withStaff
      ∧ Gen.C15.staffGuardVoice = []
      ∧ Gen.C15.voicesPerStaff = 4 := by
  refine ⟨by decide, ?_, by decide, by decide, by decide, by decide, by decide, by decide, by decide, by decide,
    by decide⟩
  intro s
  constructor <;> intro h <;> simp only [Gen.C15.reassignValues, List.mem_cons, List.not_mem_nil, or_false] at h ⊢ <;>
    tauto

/-- The classes the documentation lists as "only taken from the first part" are exactly the classes the code
discards in voice mode, and in staff / auto mode exactly those except the clefs (which the documentation says are
kept when staves are reassigned) - over the whole class table. -/
theorem doc_table :
    Describes Gen.C15.docStructural (discard .voice)
      ∧ (∀ c ∈ List.range Gen.numClasses,
          discard .staff c = (discard .voice c && !isSub c (classId "Clef"))
            ∧ discard .auto c = discard .staff c) := by
  constructor <;> decide

-- ================================================================ dispatch on the argument

/-- Whatever is passed - one part, one group, a list of parts and (nested) groups, or a Score built from any of
these - the result is that of merging the flat list of its parts, in left-to-right order. -/
theorem dispatch_flat (m : Mode) (s : Shape) : merge m s = merge m (.many ((iterParts s).map .part)) := by
  simp [merge, iterParts, flattenList_parts]

/-- a group is merged like the list of its children -/
theorem dispatch_group (m : Mode) (ts : List Tree) : merge m (.one (.group ts)) = merge m (.many ts) := by
  simp [merge, iterParts, flattenTree_group]

/-- a group inside a list (or inside a group) may be replaced by its children, at any depth -/
theorem dispatch_nested (m : Mode) (a ts b : List Tree) :
    merge m (.many (a ++ [.group ts] ++ b)) = merge m (.many (a ++ ts ++ b)) := by
  simp [merge, iterParts, flattenList_append, flattenList, flattenTree_group]

/-- nothing to merge (an empty list, empty groups): the code raises -/
theorem dispatch_empty (m : Mode) (s : Shape) (h : iterParts s = []) : merge m s = none := by
  simp [merge, h, mergeParts]

/-- `load_score_as_part(file)` is `merge_parts` of the parts of the loaded score in voice mode: in particular a file
with one part (however deeply grouped) gives that part itself, and a file with several parts satisfies every
voice-mode statement of Props/C15.lean -/
theorem load_as_part (s : Shape) :
    loadScoreAsPart s = merge .voice s
      ∧ (∀ p, iterParts s = [p] → loadScoreAsPart s = some (.same p)) := by
  refine ⟨rfl, fun p h => ?_⟩
  simp [loadScoreAsPart, h, mergeParts]

example : iterParts (.many [.group [.part exA, .group [.part exB]], .part exC]) = [exA, exB, exC] := by decide
example : iterParts (.many [.group [], .group [.group []]]) = ([] : List APart) := by decide

-- ================================================================ order of iteration

/-- The order in which the merged part yields its elements (`iter_all()`): by time point, then by the position of
the element's class in the class walk, and - for elements of one class at one time point - in order of insertion,
i.e. by input part and, within a part, in the order that part yielded them. -/
theorem merged_order (m : Mode) (ps : List APart) (L : Nat) (es : List Elem)
    (h : mergeParts m ps = some (.merged L es)) :
    es.Pairwise (fun a b => a.start < b.start ∨ (a.start = b.start ∧ classRank a.cls ≤ classRank b.cls))
      ∧ ∀ (t c : Nat), es.filter (fun e => e.start == t && classRank e.cls == c)
                        = (mergeFrom m L true 0 0 0 ps).filter (fun e => e.start == t && classRank e.cls == c) := by
  obtain ⟨_, _, _, _, rfl⟩ := mergeParts_merged_iff.mp h
  constructor
  · refine (isort_pairwise iterLe_total iterLe_trans _).imp ?_
    intro a b hab
    simpa only [iterLe, Bool.or_eq_true, Bool.and_eq_true, decide_eq_true_eq, beq_iff_eq] using hab
  · intro t c
    apply isort_filter
    intro a b ha hb
    simp only [Bool.and_eq_true, beq_iff_eq] at ha hb
    simp only [iterLe, Bool.or_eq_true, Bool.and_eq_true, decide_eq_true_eq, beq_iff_eq]
    omega

/-- both clauses are exercised by [exA, exB]: seven elements at time 0 of six classes; the two of class Note come in
order of insertion, A's note (oid 0) before B's (oid 10) -/
example : (match mergeParts .voice [exA, exB] with
    | some (.merged _ es) => (es.filter fun e => e.start == 0 && classRank e.cls == classRank (classId "Note")).map (·.oid)
    | _ => []) = [0, 10] := by decide

-- ================================================================ divisions and offsets

/-- Two or more parts one of which has not exactly one divisions value (`_quarter_durations` of length ≠ 1: the
divisions change inside the part) are rejected - the code raises "Merging parts with multiple divisions is not
supported" - in every mode; nothing is merged with wrong times.  (A single such part is returned as is:
`single_identity` holds for any divisions.) -/
theorem multi_division_rejected (m : Mode) (ps : List APart) (h2 : 2 ≤ ps.length) (p : APart) (hp : p ∈ ps)
    (qds : List Nat) (hq : p.divs = divsOf qds) (hlen : qds.length ≠ 1) : mergeParts m ps = none :=
  mergeParts_zero_divs m h2 hp (by rw [hq, divsOf_eq_zero_of_length hlen])

example : divsOf [4, 8] = 0 ∧ divsOf [] = 0 ∧ divsOf [6] = 6 := by decide
example : mergeParts .voice [exA, { exB with divs := divsOf [4, 8] }] = none := by decide

/-- A part keeps its offset: an element is at time 0 of the merged part iff it was at time 0 of its part (parts
whose first time point is later than 0 are not moved to 0), and the order of any two elements of one part is kept. -/
theorem offset_preserved (m : Mode) (ps : List APart) (hpos : ∀ p ∈ ps, 0 < p.divs) (i : Nat) (p : APart)
    (hp : ps[i]? = some p) (a b : Elem) :
    let L := lcmList (ps.map (·.divs))
    ((image m L ps i p a).start = 0 ↔ a.start = 0)
      ∧ (a.start ≤ b.start ↔ (image m L ps i p a).start ≤ (image m L ps i p b).start) := by
  intro L
  have hmem : p ∈ ps := List.mem_of_getElem? hp
  have hd : 0 < p.divs := hpos p hmem
  have hdvd : p.divs ∣ L := dvd_lcmList (List.mem_map.mpr ⟨p, hmem, rfl⟩)
  have hL : 0 < L := lcmList_pos (by
    intro d hd'; obtain ⟨q, hq, rfl⟩ := List.mem_map.mp hd'; exact hpos q hq)
  have hk : 0 < L / p.divs := Nat.div_pos (Nat.le_of_dvd hL hdvd) hd
  simp only [image, xform_start, ctxAt_mult]
  constructor
  · constructor
    · intro h
      rcases Nat.mul_eq_zero.mp h with h | h
      · exact h
      · omega
    · intro h; simp [h]
  · exact (Nat.mul_le_mul_right_iff hk).symm

-- ================================================================ references

/-- no class that is referred to by a tie, slur, tuplet, beam or grace chain - notes and rests of any kind, slurs,
tuplets, beams - is ever discarded (whole class table, every mode) -/
theorem ref_targets_kept :
    ∀ c ∈ List.range Gen.numClasses,
      (isGeneric c || isSub c (classId "Slur") || isSub c (classId "Tuplet") || isSub c (classId "Beam")) = true →
        discard .voice c = false ∧ discard .staff c = false ∧ discard .auto c = false := by decide

/-- Merging leaves the references of every object alone (they are identities of objects, and the objects are
moved, not copied); and the object `t` of the same part that a reference of `e` points to is registered on the merged
part (`es`: by its start; `mergedTails`: by its end only) - at the same musical time, times multiplied by
`L / d_p` - whenever `t` is transferred at all (first part, or a class that is not discarded: by
`ref_targets_kept` every note, rest, slur, tuplet and beam). -/
theorem refs_preserved (m : Mode) (ps : List APart) (L : Nat) (es : List Elem)
    (h : mergeParts m ps = some (.merged L es)) (i : Nat) (p : APart) (hp : ps[i]? = some p)
    (e : Elem) (r : Nat) (_hr : r ∈ e.refs) (t : Elem) (ht : t ∈ allElems p) (hto : t.oid = r)
    (hk : i = 0 ∨ discard m t.cls = false) :
    (image m L ps i p e).refs = e.refs
      ∧ image m L ps i p t ∈ es ++ mergedTails m ps
      ∧ (image m L ps i p t).oid = r ∧ (image m L ps i p t).cls = t.cls
      ∧ (image m L ps i p t).start = t.start * (L / p.divs)
      ∧ (image m L ps i p t).stop = t.stop.map (· * (L / p.divs)) := by
  refine ⟨xform_refs _ _ _, ?_, by rw [← hto]; exact xform_oid _ _ _, xform_cls _ _ _, ?_, ?_⟩
  · refine (mem_registered h _).mpr ⟨i, p, t, hp, ht, ?_, rfl⟩
    rcases hk with rfl | hk
    · simp [keep]
    · simp [keep, hk]
  · simp only [image, xform_start, ctxAt_mult]
  · simp only [image, xform_stop, ctxAt_mult]

/-- Which references leave the merged part: exactly those whose target is not transferred from any input. -/
theorem dangling_iff (m : Mode) (ps : List APart) (L : Nat) (es : List Elem)
    (h : mergeParts m ps = some (.merged L es)) (a r : Nat) :
    (a, r) ∈ dangling (es ++ mergedTails m ps) ↔
      (∃ i p e, ps[i]? = some p ∧ e ∈ allElems p ∧ keep m (i == 0) e = true ∧ e.oid = a ∧ r ∈ e.refs)
        ∧ ¬ Kept m ps r := by
  have hmem := mem_registered h
  have hkept : (∃ t ∈ es ++ mergedTails m ps, t.oid = r) ↔ Kept m ps r := by
    constructor
    · rintro ⟨t', ht', hto⟩
      obtain ⟨j, q, t, hq, ht, hk, rfl⟩ := (hmem t').mp ht'
      exact ⟨j, q, t, hq, ht, hk, by rw [← hto]; exact (xform_oid _ _ _).symm⟩
    · rintro ⟨j, q, t, hq, ht, hk, hto⟩
      exact ⟨image m L ps j q t, (hmem _).mpr ⟨j, q, t, hq, ht, hk, rfl⟩, by rw [← hto]; exact xform_oid _ _ _⟩
  rw [mem_dangling, hkept]
  constructor
  · rintro ⟨e', he', hoa, hr, hn⟩
    obtain ⟨i, p, e, hp, he, hk, rfl⟩ := (hmem e').mp he'
    refine ⟨⟨i, p, e, hp, he, hk, ?_, ?_⟩, hn⟩
    · rw [← hoa]; exact (xform_oid _ _ _).symm
    · rw [← xform_refs m (ctxAt L ps i p) e]; exact hr
  · rintro ⟨⟨i, p, e, hp, he, hk, hoa, hr⟩, hn⟩
    refine ⟨image m L ps i p e, (hmem _).mpr ⟨i, p, e, hp, he, hk, rfl⟩, ?_, ?_, hn⟩
    · rw [← hoa]; exact xform_oid _ _ _
    · rw [image, xform_refs]; exact hr

/-- References stay within the merged part: when every reference points to an object of the same part
(`RefsClosed`) whose class is not discarded - ties, slurs, tuplets, beams, grace chains by `ref_targets_kept` - no
reference of the merged part dangles. -/
theorem no_dangling (m : Mode) (ps : List APart) (L : Nat) (es : List Elem)
    (h : mergeParts m ps = some (.merged L es)) (hc : RefsClosed ps)
    (hcls : ∀ p ∈ ps, ∀ t ∈ allElems p, (∃ e ∈ allElems p, t.oid ∈ e.refs) → discard m t.cls = false) :
    dangling (es ++ mergedTails m ps) = [] := by
  rw [List.eq_nil_iff_forall_not_mem]
  rintro ⟨a, r⟩ hmem
  obtain ⟨⟨i, p, e, hp, he, _, _, hr⟩, hn⟩ := (dangling_iff m ps L es h a r).mp hmem
  have hpm : p ∈ ps := List.mem_of_getElem? hp
  obtain ⟨t, ht, hto⟩ := hc p hpm e he r hr
  have hd := hcls p hpm t ht ⟨e, he, by rw [hto]; exact hr⟩
  exact hn ⟨i, p, t, hp, ht, by simp [keep, hd], hto⟩

/-- A reference that does leave the merged part points to an object of a later part whose class is taken from the
first part only (in practice: the fermata of a note of a later part). -/
theorem dangling_only_discarded (m : Mode) (ps : List APart) (L : Nat) (es : List Elem)
    (h : mergeParts m ps = some (.merged L es)) (hc : RefsClosed ps) (a r : Nat)
    (hd : (a, r) ∈ dangling (es ++ mergedTails m ps)) :
    ∃ i p t, 0 < i ∧ ps[i]? = some p ∧ t ∈ allElems p ∧ t.oid = r ∧ discard m t.cls = true := by
  obtain ⟨⟨i, p, e, hp, he, _, _, hr⟩, hn⟩ := (dangling_iff m ps L es h a r).mp hd
  obtain ⟨t, ht, hto⟩ := hc p (List.mem_of_getElem? hp) e he r hr
  have hnk : keep m (i == 0) t = false := by
    cases hk : keep m (i == 0) t with
    | false => rfl
    | true => exact absurd ⟨i, p, t, hp, ht, hk, hto⟩ hn
  simp only [keep, Bool.or_eq_false_iff, Bool.not_eq_false', beq_eq_false_iff_ne] at hnk
  exact ⟨i, p, t, by omega, hp, ht, hto, hnk.2⟩

-- ================================================================ objects that only have an end

/-- Objects that are on the timeline of an input by their end only (`start is None`: a slur or tuplet whose start
is not in the score, ...) are transferred like every other element - all of the first part, the non-discarded
classes of the later parts, nothing else - and stay objects without a start.  Their end keeps its musical time by
`time_preserved` (which holds for any object), their voice / staff are renumbered with the elements of their part
(the statements of Props/C15.lean range over `allElems`). -/
theorem end_only_transferred (m : Mode) (ps : List APart) (L : Nat) (es : List Elem)
    (h : mergeParts m ps = some (.merged L es)) (t' : Elem) :
    t' ∈ mergedTails m ps ↔ ∃ i p t, ps[i]? = some p ∧ t ∈ p.tails ∧ keep m (i == 0) t = true
                              ∧ t' = image m L ps i p t := by
  obtain ⟨_, _, _, hL, _⟩ := mergeParts_merged_iff.mp h
  rw [mergedTails, ← hL, mem_tails]

/-- the slur of part B that only has an end (16 = bar end in divisions 4) ends at 48 = 16 * (12 / 4) of the merged part -/
example : (mergedTails .voice [exA, exB]).map (fun t => (t.oid, t.stop, t.refs)) = [(16, some 48, [15])] := by decide

/-- hypotheses of `no_dangling` / `dangling_only_discarded` are satisfiable, and both outcomes occur: with E first
nothing dangles; with E second its fermata (taken from the first part only) is dropped and the note's reference
to it is the one dangling reference -/
example : RefsClosed [exD, exE] ∧ OidsDistinct [exD, exE] := by
  unfold RefsClosed OidsDistinct; decide
example : (match mergeParts .voice [exE, exD] with
    | some (.merged _ es) => dangling (es ++ mergedTails .voice [exE, exD]) | _ => [(0, 0)]) = [] := by decide
example : (match mergeParts .voice [exD, exE] with
    | some (.merged _ es) => dangling (es ++ mergedTails .voice [exD, exE]) | _ => []) = [(40, 43)] := by decide
/-- ... and the reference of B's end-only slur to its last note (15) is kept and does not dangle -/
example : (match mergeParts .auto [exA, exB] with
    | some (.merged _ es) => dangling (es ++ mergedTails .auto [exA, exB]) | _ => [(0, 0)]) = [] := by decide

end C15
