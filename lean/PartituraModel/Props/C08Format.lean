/-
C08 — the bookkeeping of the score reconstruction (no snote lost or duplicated; measures exactly for the bars
that hold a stored note) and what the match format does NOT hold (limits of the round trip that no reader can
lift), as theorems about the model (`reconstruct`, `Score.fileView`, `Score.roundTrip` in Model/MatchTime.lean).
-/
import PartituraModel.Model.MatchTime
import PartituraModel.Proofs.C08Sort
import Mathlib.Data.List.Perm.Basic
import Mathlib.Data.List.Range
import Mathlib.Tactic.Linarith
import Mathlib.Tactic.NormNum

namespace C08
open Model Model.MatchTime

/-- 4/4, one division per quarter; bars 2 and 3 hold no stored note and have irregular lengths 2 + 2 -/
def emptyBarsA : Score := { divs := 1, ts := [⟨0, 4, 4⟩], ms := [⟨0, 4⟩, ⟨4, 6⟩, ⟨6, 8⟩, ⟨8, 12⟩] }
/-- the same, but bars 2 and 3 have lengths 3 + 1 -/
def emptyBarsB : Score := { divs := 1, ts := [⟨0, 4, 4⟩], ms := [⟨0, 4⟩, ⟨4, 7⟩, ⟨7, 8⟩, ⟨8, 12⟩] }

/-- **empty_bars_not_stored.**  The format stores a measure only through the notes in it (measure number, beat and
    offset of each stored note; no measure lengths).  Two scores that differ in the bar lines between bars
    WITHOUT a stored note are written to the same file: every stored note gets the same measure number, beat,
    offset, duration and beat times, every signature line the same position.  So no reader can return "measures
    at the same positions" for such bars; the oracle demands measures only for bars that hold a stored note. -/
theorem empty_bars_not_stored :
    emptyBarsA.ms ≠ emptyBarsB.ms
    ∧ emptyBarsA.fileView [(0, 1), (2, 2), (8, 4), (11, 1)] [0] = emptyBarsB.fileView [(0, 1), (2, 2), (8, 4), (11, 1)] [0]
    ∧ (emptyBarsA.fileView [(0, 1), (2, 2), (8, 4), (11, 1)] [0]).1.isSome = true
    ∧ ((emptyBarsA.roundTrip [(0, 1), (2, 2), (8, 4), (11, 1)] []).map (·.barlines))
        = ((emptyBarsB.roundTrip [(0, 1), (2, 2), (8, 4), (11, 1)] []).map (·.barlines))
    ∧ ((emptyBarsA.roundTrip [(0, 1), (2, 2), (8, 4), (11, 1)] []).map (·.barlines)) = some [(1, 0), (4, 32)] := by
  decide +kernel

/-- 4/4, three divisions per quarter, a pickup of two triplet eighths -/
def offGrid : Score := { divs := 3, ts := [⟨0, 4, 4⟩], ms := [⟨0, 2⟩, ⟨2, 14⟩] }

/-- **barline_off_grid.**  The reader's divisions are the least common multiple of the denominators of the
    written offsets and durations (times beat type / 4): the distance of a bar line from the first stored note is
    written nowhere as a fraction, only inside the four-decimal beat times.  Here the stored notes are a grace
    note at the start of the pickup (offset 0, duration 0) and two quarters from the first full bar: the reader
    takes 4 divisions per quarter, but the first bar line lies 2/3 quarter after the first stored note — no
    whole number of divisions (the reader falls back to the four-decimal beat times: onsets 6667/2500 and
    16667/2500 divisions).  So no reader that keeps these divisions can place the notes exactly; the oracle
    demands the score clauses only when every bar line of a stored note lies on the reader's grid (`hgrid` of
    `position_roundtrip`, `hz` of `bars_recovered`). -/
theorem barline_off_grid :
    ((offGrid.roundTrip [(0, 0), (2, 3), (5, 3)] []).map (·.divs)) = some 4
    ∧ ((offGrid.roundTrip [(0, 0), (2, 3), (5, 3)] []).map (·.notes))
        = some [(0, 0, [0]), (1, 6667 / 2500, [4]), (2, 16667 / 2500, [4])]
    ∧ offGrid.quarters 2 - offGrid.quarters 0 = 2 / 3
    ∧ ¬ ∃ z : Int, ((4 : Nat) : Rat) * (offGrid.quarters 2 - offGrid.quarters 0) = (z : Rat) := by
  have h1 : ((offGrid.roundTrip [(0, 0), (2, 3), (5, 3)] []).map (·.divs)) = some 4 := by decide +kernel
  have h2 : offGrid.quarters 2 - offGrid.quarters 0 = 2 / 3 := by decide +kernel
  refine ⟨h1, by decide +kernel, h2, ?_⟩
  rintro ⟨z, hz⟩
  rw [h2] at hz
  have h3 : (8 : Rat) = 3 * (z : Rat) := by
    have : ((4 : Nat) : Rat) = 4 := by norm_num
    rw [this] at hz
    linarith
  have h4 : (8 : Int) = 3 * z := by exact_mod_cast h3
  omega

/-- **reconstruct_keeps_every_note.**  Whenever the reconstruction of the score succeeds — for every list of snotes,
    time and key signature lines — each snote becomes exactly one note of the part: the indices of the notes are a
    permutation of the indices of the snotes (none lost, none twice), in the order of `sort_snotes`; and a measure
    is created for exactly the bar numbers that occur on the snotes, once each. -/
theorem reconstruct_keeps_every_note (raw : List SNote) (ts : List TSLine) (ks : List (Rat × Int)) (r : Recon)
    (h : reconstruct raw ts ks = some r) :
    (r.notes.map (·.1)).Perm (List.range raw.length)
    ∧ r.notes.map (·.1) = (sortSNotes ((List.range raw.length).zip raw)).map (·.1)
    ∧ r.fallback.length = raw.length
    ∧ r.barlines.map (·.1) = barNames (sortSNotes ((List.range raw.length).zip raw)) := by
  unfold reconstruct at h
  simp only [Option.bind_eq_bind, Option.bind_eq_some_iff, Option.pure_def, Option.some.injEq] at h
  obtain ⟨first, _, _, _, bars, hb, notesFb, hn, _, _, _, _, _, _, hr⟩ := h
  subst hr
  have hidx : notesFb.map (fun y => y.1.1) = (sortSNotes ((List.range raw.length).zip raw)).map (·.1) := by
    apply C08S.mapM_map _ _ _ _ _ _ hn
    intro a b hab
    cases hl : lookup a.2.measure bars with
    | none => simp [hl] at hab
    | some bt =>
      simp only [hl, Option.bind_some, Option.some.injEq] at hab
      rw [← hab]
  have hbars : bars.map (·.1) = barNames (sortSNotes ((List.range raw.length).zip raw)) := by
    have := C08S.mapM_map _ (fun y : Int × Rat => y.1) (fun b : Int => b) ?_ _ _ hb
    · simpa using this
    · intro a b hab
      cases hf : firstOfBar (sortSNotes ((List.range raw.length).zip raw)) a with
      | none => simp [hf] at hab
      | some n =>
        simp only [hf, Option.bind_some, Option.some.injEq] at hab
        rw [← hab]
  have hperm : ((sortSNotes ((List.range raw.length).zip raw)).map (·.1)).Perm (List.range raw.length) := by
    have hp : (sortSNotes ((List.range raw.length).zip raw)).Perm ((List.range raw.length).zip raw) :=
      C08S.sortBy_perm _ _
    have := hp.map Prod.fst
    rwa [List.map_fst_zip (by simp)] at this
  have hlen : notesFb.length = raw.length := by
    have h1 := congrArg List.length hidx
    have h2 := hperm.length_eq
    simp only [List.length_map, List.length_range] at h1 h2
    omega
  refine ⟨?_, ?_, ?_, ?_⟩
  · simp only [List.map_map]
    exact hidx ▸ hperm
  · simp only [List.map_map]
    exact hidx
  · simp only [List.length_map]
    exact hlen
  · simp only [List.map_map]
    rw [← hbars]
    apply List.map_congr_left
    intro x _
    rfl

/-- non-vacuity: the reconstruction of the file of `emptyBarsA` succeeds, with its four snotes -/
example : ((emptyBarsA.roundTrip [(0, 1), (2, 2), (8, 4), (11, 1)] []).map fun r => r.notes.map (·.1)) = some [0, 1, 2, 3] := by
  decide +kernel

end C08
