/-
C04 (round 5) — when `save_score_midi` returns.

The theorems of Props/C04Export.lean, C04Sigs.lean, C04Cells.lean, C04History.lean, C04Edit.lean carry the hypothesis
`h : saveScoreMidi … = some ex`.  Here it is discharged: the exporter has four points of failure (the origin, the
time signature of a measure under `time_sig_change`, an unsupported mode / no note at all, a negative first tick)
and for a well-formed score each of them is decided by validity of the input.  `export_returns_iff` is the exact
characterisation for `shift` / `time_sig_change`; `export_returns` covers the three policies (for `pad_bar` the
input condition is that every part has a signature with a non-zero beat type in force at 0 and a pickup no longer
than a bar of it).  `score_roundtrip_total` then states the round trip with no hypothesis about the export or the
import returning.
-/
import PartituraModel.Props.C04Cells
import PartituraModel.Props.C04History
import PartituraModel.Proofs.C04Total
import PartituraModel.Model.ScoreMidiDefaults

namespace C04
open Model Model.Ticks Model.MidiPair Model.MidiModes Model.ScoreMidi

/-- validity of the input for the chosen anacrusis policy: under `time_sig_change` every measure starts where a
    time signature is in force; under `pad_bar` every part has a time signature with a non-zero beat type in force
    at 0 and does not start earlier than one bar of it before the downbeat -/
def SigOk (a : Anacrusis) (parts : List PartIn) : Prop :=
  (a = .timeSigChange → ∀ x ∈ parts, ∀ m ∈ x.measures, (tsAt x.base m.1).isSome) ∧
  (a = .padBar → ∀ x ∈ parts, ∃ beats bt, tsAt x.base 0 = some (beats, bt) ∧ 0 < bt ∧
    -((beats : Rat) / ((bt : Rat) / 4)) ≤ quarter x.base 0)

/-- **The exporter returns** for every well-formed score with at least one sounding note, every mode 0..5, every
    policy, minimum ppq and velocity, when the signatures the policy reads are there (`SigOk`).  No tick is
    negative: every written tick is 0 or the image of a timeline position, and the origin is at or before the
    start of every part. -/
theorem export_returns (mode : Nat) (a : Anacrusis) (minPpq vel : Nat) (parts : List PartIn) (hm : mode ≤ 5)
    (hw : ∀ x ∈ parts, C04T.WellFormed x.base) (hnote : ∃ x ∈ parts, x.notes ≠ []) (hs : SigOk a parts) :
    ∃ ex, saveScoreMidi mode a minPpq vel parts = some ex := by
  have hne : parts.map (·.base) ≠ [] := by
    obtain ⟨x, hx, _⟩ := hnote
    intro h
    have : x.base ∈ parts.map (·.base) := List.mem_map.mpr ⟨x, hx, rfl⟩
    rw [h] at this
    cases this
  -- the origin
  have hor : ∃ o, origin a (parts.map (·.base)) = some o ∧ ∀ b ∈ parts.map (·.base), o ≤ quarter b 0 := by
    by_cases ha : a = .padBar
    · subst ha
      apply C04Tot.origin_pad _ hne
      intro b hb
      obtain ⟨x, hx, rfl⟩ := List.mem_map.mp hb
      exact hs.2 rfl x hx
    · obtain ⟨o, ho⟩ := Option.isSome_iff_exists.mp (C04Tot.origin_isSome a ha _ hne)
      exact ⟨o, ho, C04Tot.origin_le a ha _ o ho⟩
  obtain ⟨o, ho, hle⟩ := hor
  -- no tick is negative
  have hnn : ∀ x ∈ parts, ∀ t, 0 ≤ tick (exportPpq parts minPpq) x.base o t := by
    intro x hx t
    apply C04Tot.tick_nonneg
    exact le_trans (hle x.base (List.mem_map.mpr ⟨x, hx, rfl⟩)) (C04Tot.quarter_mono x.base (hw x hx) 0 t (Nat.zero_le t))
  -- the signatures, the mode, the tracks
  obtain ⟨metas, hmetas⟩ := Option.isSome_iff_exists.mp
    (C04Tot.exportMetas_isSome a (fun x t => tick (exportPpq parts minPpq) x.base o t) parts hs.1)
  obtain ⟨tcs, htc⟩ := C04Tot.mapToTrackChannel_isSome mode hm (noteKeys parts)
  have hlen : tcs.length = (noteKeys parts).length := (mode_export mode hm _ _ htc).1
  have htne : tcs.map (·.1) ≠ [] := by
    have := C04Tot.noteKeys_ne_nil parts hnote
    intro h
    apply this
    have h2 : tcs = [] := by simpa using h
    rw [h2] at hlen
    exact List.length_eq_zero_iff.mp hlen.symm
  obtain ⟨mx, hmx⟩ := Option.isSome_iff_exists.mp (C04Tot.maxList_isSome _ htne)
  have hall : ∀ tr, ∀ e ∈ exportTrack (exportTempos (fun x t => tick (exportPpq parts minPpq) x.base o t) parts) metas
      (exportRecs (fun x t => tick (exportPpq parts minPpq) x.base o t) parts) ((noteKeys parts).zip tcs) vel tr, 0 ≤ e.1 :=
    fun tr => C04Tot.exportTrack_ticks (fun k => 0 ≤ k) a _ (le_refl 0) parts hnn metas hmetas _ vel tr
  refine ⟨⟨exportPpq parts minPpq, (List.range (mx + 1)).map (exportTrack (exportTempos (fun x t => tick (exportPpq parts minPpq) x.base o t) parts)
      metas (exportRecs (fun x t => tick (exportPpq parts minPpq) x.base o t) parts) ((noteKeys parts).zip tcs) vel)⟩, ?_⟩
  unfold saveScoreMidi
  simp only [bind, Option.bind, ho, hmetas, htc, hmx, Option.map, pure]
  split
  · rename_i hc
    exfalso
    obtain ⟨t, ht, hF⟩ := List.any_eq_true.mp hc
    obtain ⟨tr, _, rfl⟩ := List.mem_map.mp ht
    have := hall tr
    split at hF
    · cases hF
    · rename_i e rest heq
      have h0 := this e (by rw [heq]; exact List.mem_cons_self)
      simp only [decide_eq_true_eq] at hF
      omega
  · rfl

/-- **Exactly when the exporter returns** (`shift`, `time_sig_change`), for a well-formed score: the mode is one of
    0..5, some part has a sounding note, and under `time_sig_change` every measure starts where a time signature is
    in force.  In every other case the code raises (unsupported mode, `max()` of no track, NaN signature). -/
theorem export_returns_iff (mode : Nat) (a : Anacrusis) (minPpq vel : Nat) (parts : List PartIn) (ha : a ≠ .padBar)
    (hw : ∀ x ∈ parts, C04T.WellFormed x.base) :
    (∃ ex, saveScoreMidi mode a minPpq vel parts = some ex) ↔
      (mode ≤ 5 ∧ (∃ x ∈ parts, x.notes ≠ []) ∧
        (a = .timeSigChange → ∀ x ∈ parts, ∀ m ∈ x.measures, (tsAt x.base m.1).isSome)) := by
  constructor
  · rintro ⟨ex, h⟩
    obtain ⟨o, metas, tcs, n, ho, hmetas, htc, hn, _⟩ := C04E.save_inv mode a minPpq vel parts ex h
    have hkeys : noteKeys parts ≠ [] := by
      intro hnil
      rw [hnil] at htc
      have : tcs = [] := by
        unfold mapToTrackChannel at htc
        split at htc <;> simp_all [ranks, nranks, rankLoop, nestedLoop]
      rw [this] at hn
      simp [maxList] at hn
    refine ⟨?_, ?_, ?_⟩
    · by_contra hm
      have h5 : 5 < mode := by omega
      cases hk : noteKeys parts with
      | nil => exact hkeys hk
      | cons k ks => rw [hk, mode_export_rejects mode h5] at htc; cases htc
    · by_contra hnone
      apply hkeys
      unfold noteKeys
      have : (parts.zipIdx).flatMap (fun (xi : PartIn × Nat) => xi.1.notes.map fun n => (xi.1.group, xi.2, n.2.2.2)) = [] := by
        rw [List.flatMap_eq_nil_iff]
        intro xi hxi
        have hx := C04Tot.mem_of_mem_zipIdx hxi
        have : xi.1.notes = [] := by
          by_contra hne
          exact hnone ⟨xi.1, hx, hne⟩
        simp [this]
      rw [this]
      rfl
    · intro hts x hx m hm
      subst hts
      obtain ⟨i, hi⟩ := List.getElem?_of_mem hx
      have hmem : (x, i) ∈ parts.zipIdx := by
        rw [List.mem_zipIdx_iff_getElem?]
        simpa using hi
      obtain ⟨e, _, d, hd, _⟩ := C04E.forall₂_mem_left (C04E.exportMetas_spec _ _ parts metas hmetas) (x, i) hmem
      cases hts : tsAt x.base m.1 with
      | some v => rfl
      | none =>
        exfalso
        unfold partMetas at hd
        simp only [C04Tot.tscMeasures_none x.base _ _ x.measures [] [] m hm hts, Option.map_none] at hd
        cases hd
  · rintro ⟨hm, hnote, hts⟩
    exact export_returns mode a minPpq vel parts hm hw hnote ⟨hts, fun h => absurd h ha⟩

/-- **Round trip without side conditions on the run** (`shift`, `time_sig_change`): for every well-formed score with a
    sounding note in which no two notes of equal pitch overlap within a track and channel of the chosen mode, every
    mode 0..5, minimum ppq and audible velocity — the exporter returns a file, the importer (same mode) returns a
    score, and the imported parts hold exactly the score's sounding notes (onset and duration in quarters, pitch)
    with `ppq` divisions per quarter.  The only hypotheses are about the user's input. -/
theorem score_roundtrip_total (mode : Nat) (a : Anacrusis) (minPpq vel : Nat) (parts : List PartIn) (hm : mode ≤ 5)
    (ha : a ≠ .padBar) (hvel : 0 < vel) (hw : ∀ x ∈ parts, C04T.WellFormed x.base)
    (hnote : ∃ x ∈ parts, x.notes ≠ [])
    (hts : a = .timeSigChange → ∀ x ∈ parts, ∀ m ∈ x.measures, (tsAt x.base m.1).isSome)
    (hno : ∀ o tcs, origin a (parts.map (·.base)) = some o → mapToTrackChannel mode (noteKeys parts) = some tcs →
      ∀ tr, C04P.NoOverlap (routedTo (exportPpq parts minPpq) o vel ((noteKeys parts).zip tcs) parts tr)) :
    ∃ ex imp o, saveScoreMidi mode a minPpq vel parts = some ex ∧
      loadScoreMidi mode ex.ppq (ex.tracks.map (deltasFrom 0)) = some imp ∧
      origin a (parts.map (·.base)) = some o ∧ (importedRows o imp).Perm (scoreRows parts) ∧
      ∀ e ∈ imp.parts, e.2.divs = ex.ppq := by
  obtain ⟨ex, h⟩ := export_returns mode a minPpq vel parts hm hw hnote ⟨hts, fun h => absurd h ha⟩
  have hppq : ex.ppq = exportPpq parts minPpq := by
    obtain ⟨_, _, _, _, _, _, _, _, hex⟩ := C04E.save_inv mode a minPpq vel parts ex h
    rw [hex]
  have hno' : ∀ o tcs, origin a (parts.map (·.base)) = some o → mapToTrackChannel mode (noteKeys parts) = some tcs →
      ∀ tr, C04P.NoOverlap (routedTo ex.ppq o vel ((noteKeys parts).zip tcs) parts tr) := by
    rw [hppq]; exact hno
  obtain ⟨_, imp, hi⟩ := roundtrip_total mode a minPpq vel parts ex h hvel hw hnote hno'
  obtain ⟨o, ho, hperm, hdivs⟩ := score_roundtrip mode a minPpq vel parts ex imp h hi ha hvel hw hno'
  exact ⟨ex, imp, o, h, hi, ho, hperm, hdivs⟩

/-- non-vacuity: `demoScore` satisfies the input conditions of every policy and has a sounding note -/
example : SigOk .timeSigChange demoScore := ⟨fun _ => by decide +kernel, fun h => by cases h⟩

example : SigOk .padBar demoScore := by
  refine ⟨(fun h => by cases h), fun _ x hx => ?_⟩
  simp only [demoScore, List.mem_cons, List.mem_nil_iff, or_false] at hx
  rcases hx with rfl | rfl
  · exact ⟨4, 4, by decide +kernel, by decide, by decide +kernel⟩
  · exact ⟨4, 4, by decide +kernel, by decide, by decide +kernel⟩

example : (∃ x ∈ demoScore, x.notes ≠ []) ∧ (saveScoreMidi 3 .padBar 96 64 demoScore).isSome := by
  refine ⟨⟨_, List.mem_cons_self, by simp⟩, by decide +kernel⟩

/-- the failure points are real: no note at all, an unsupported mode, and (`time_sig_change`) a measure that starts
    before the first time signature of a part whose first point is later -/
example : saveScoreMidi 0 .shift 0 64 [⟨0, ⟨4, [], 0, 16, none, [(0, 4, 4)]⟩, [], [], [(0, 16)], []⟩] = none ∧
    saveScoreMidi 6 .shift 0 64 demoScore = none ∧
    saveScoreMidi 0 .timeSigChange 0 64 [⟨0, ⟨4, [], 4, 16, none, [(8, 4, 4)]⟩, [], [], [(0, 16)], [(4, 4, 60, some 1)]⟩] = none := by
  decide +kernel

-- ====================================================================== defaults and literals of the live source

open Gen.C04Sig in
/-- **The source's defaults and literals are the model's** (Gen/C04Sig.lean is regenerated from the live
    `save_score_midi` / `map_to_track_channel` / `load_score_midi` / `assign_group_part_voice` / `create_part` on every
    run, so an edit of one of them re-elaborates this theorem): the documented defaults (mode 0, velocity 64,
    "shift", minimum ppq 0; import mode 0), the three anacrusis names, the modes 0..5 of both directions, and the
    constants the model uses where the code uses its literals — the default tempo a part without tempo marks gets,
    the beat type at which the halving of a fractional beat count stops, the single channel of modes 3, 4, 5, the
    4/4 assumed for a file without time signature. -/
theorem source_constants :
    extractionOk = true ∧
    defaultMode = 0 ∧ defaultVelocity = 64 ∧ anacOf defaultAnacrusis = some .shift ∧ defaultMinimumPpq = 0 ∧
    importDefaultMode = 0 ∧
    anacrusisValues = [anacName .padBar, anacName .shift, anacName .timeSigChange] ∧
    (∀ a : Anacrusis, anacOf (anacName a) = some a) ∧
    exportModes = List.range 6 ∧ importModes = List.range 6 ∧
    (∀ mode, mode < 8 → ((mapToTrackChannel mode [(0, 0, none)]).isSome ↔ mode ∈ exportModes)) ∧
    exportTempos (fun _ _ => 0) [⟨0, ⟨1, [], 0, 0, none, []⟩, [], [], [], []⟩] = [(0, defaultTempo)] ∧
    (refineBeats 8 (1 / 3) 1).2 = beatTypeLimit ∧ (refineBeats 8 (1 / 3) 64).2 = beatTypeLimit ∧
    (∀ mode ∈ [3, 4, 5], mapToTrackChannel mode [(0, 0, some 1), (0, 0, some 2)] = some [(0, singleChannel), (if mode = 5 then 1 else 0, singleChannel)]) ∧
    ((importPart 1 [] [] [] ⟨[], [], [], []⟩ (some 0)).map fun e => e.2.timeSigs) = some [assumedTimeSig] := by
  refine ⟨rfl, rfl, rfl, rfl, rfl, rfl, rfl, ?_, rfl, rfl, ?_, ?_, ?_, ?_, ?_, ?_⟩
  · intro a; cases a <;> rfl
  · decide +kernel
  · decide +kernel
  · decide +kernel
  · decide +kernel
  · decide +kernel
  · decide +kernel

/-- a call with every optional argument omitted is the call the documentation describes: mode 0, velocity 64,
    `shift`, no minimum ppq; the importer's default is mode 0 — so a default export followed by a default import is
    an instance of the round-trip theorems (`score_roundtrip_total` with mode 0, `shift`) -/
theorem default_call (parts : List PartIn) (ticks : Nat) (tracks : List (List (Int × Msg))) :
    saveScoreMidiDefault parts = saveScoreMidi 0 .shift 0 64 parts ∧
    loadScoreMidiDefault ticks tracks = loadScoreMidi 0 ticks tracks := ⟨rfl, rfl⟩

end C04
