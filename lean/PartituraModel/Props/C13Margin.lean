/-
C13, round 6 — "pitch span plus twice the margin when a pitch margin is given", for a margin that is a float with a
fractional part (`Model/PianoRollMargin.lean`; until round 5: not modelled, not compared).

* `makeRows_eq`      : the rasteriser of round 5 (`makeWith`) is the row-parametric rasteriser at the integer rows;
* `margin_extends`   : at an integer margin the real-margin rasteriser IS `makeWith` — for every rounding function that
                       is exact on the (small) integers involved: `id` and the code's `f64` (`f64_int`);
* `margin_rows`      : exact reading, `pm ≥ 0`: `⌊span + 2 pm⌋` rows, a note in row `pitch - lowest + ⌊pm⌋`: inside the
                       roll, different pitches in different rows (the margin is rounded down, nothing merges);
* `margin_neg_merges`: `-1 < pm < 0`: the lowest pitch and its upper neighbour share row 0 — the code's behaviour,
                       compared with the implementation by `prv` requests, not something the property asks for;
* `margin_py`        : the dispatch on the argument (`≤ -1`: no margin; integral float: the integer).
-/
import PartituraModel.Props.C13Kinds
import PartituraModel.Model.PianoRollMargin
import PartituraModel.Proofs.C13Rows

namespace C13
open Model Model.PianoRoll
open List

/-- **`makeWith` is the row-parametric rasteriser at the integer rows** -/
theorem makeRows_eq (fl : ℚ → ℚ) (o : Opts) (notes : List Note) :
    makeWith fl o notes = makeRows fl o notes (rowsFull o notes) (rowOf o (lowestOf o notes))
      (fun n => rowOf o (lowestOf o notes) n - idxStartOf o) := rfl

private theorem mem_of_mem_sorted {notes : List Note} {x : Nat × Note} (hx : x ∈ sorted notes) : x.2 ∈ notes :=
  mem_sortedNotes.mp (mem_map.mpr ⟨x, hx, rfl⟩)

/-- only the rows of the notes that are there matter -/
theorem makeRows_congr (fl : ℚ → ℚ) (o : Opts) (notes : List Note) (M : Int) (row row' irow irow' : Note → Int)
    (h1 : ∀ n ∈ notes, row n = row' n) (h2 : ∀ n ∈ notes, irow n = irow' n) :
    makeRows fl o notes M row irow = makeRows fl o notes M row' irow' := by
  have hf : fillOfR fl o row notes = fillOfR fl o row' notes := by
    unfold fillOfR
    apply flatMap_congr
    intro n hn
    unfold noteCellsR
    rw [h1 n (mem_sortedNotes.mp hn)]
  have hi : idxOfR fl o irow notes = idxOfR fl o irow' notes := by
    unfold idxOfR
    congr 1
    apply map_congr_left
    intro x hx
    rw [h2 x.2 (mem_of_mem_sorted hx)]
  unfold makeRows
  rw [hf, hi]

/-- the code's rounding is exact on integers below `2^53` -/
theorem f64_int (z : Int) (hz : z.natAbs < 2 ^ 53) : f64 (z : ℚ) = z := by
  have := f64_dyadic z 0 hz (by norm_num)
  simpa using this

/-- **an integer margin given as a real number is the integer margin**: the rasteriser with a real `pitch_margin`
    (rows `int(fl(pitch - lowest + pm))`, `int(fl(span + 2 pm))` of them, index positions `int(fl(row - start))`) is
    `makeWith` whenever `pm` is the integer `o.pitchMargin > -1` and `fl` is exact on the integers that occur —
    every `fl` that fixes the integers below `2^53` (the code's `f64`: `f64_int`; `id`) when they stay below `2^53` -/
theorem margin_extends (fl : ℚ → ℚ) (hex : ∀ z : Int, z.natAbs < 2 ^ 53 → fl (z : ℚ) = z) (o : Opts) (notes : List Note)
    (hpm : -1 < o.pitchMargin)
    (hb : ∀ n ∈ notes, (n.pitch - lowestQ notes + o.pitchMargin).natAbs < 2 ^ 53 ∧
      (n.pitch - lowestQ notes + o.pitchMargin - idxStartOf o).natAbs < 2 ^ 53)
    (hM : (2 * o.pitchMargin).natAbs < 2 ^ 53 ∧
      (highestQ notes - lowestQ notes + 1 + 2 * o.pitchMargin).natAbs < 2 ^ 53) :
    makeWithQ fl (o.pitchMargin : ℚ) o notes = makeWith fl o notes := by
  have hlow : lowestOf o notes = lowestQ notes := by
    unfold lowestOf lowestQ; rw [if_pos (by omega)]
  have hhigh : highestOf o notes = highestQ notes := by
    unfold highestOf highestQ; rw [if_pos (by omega)]
  have hrowf : ∀ n ∈ notes, rowFloatQ fl (o.pitchMargin : ℚ) (lowestQ notes) n =
      ((n.pitch - lowestQ notes + o.pitchMargin : Int) : ℚ) := by
    intro n hn
    unfold rowFloatQ
    rw [← Int.cast_add]
    exact hex _ (hb n hn).1
  have hrow : ∀ n ∈ notes, rowOfQ fl (o.pitchMargin : ℚ) (lowestQ notes) n = rowOf o (lowestOf o notes) n := by
    intro n hn
    unfold rowOfQ rowOf
    rw [hrowf n hn, (trunc_spec _).2.2 _ rfl, if_pos (by omega), hlow]
  have hirow : ∀ n ∈ notes, idxPosQ fl (o.pitchMargin : ℚ) (lowestQ notes) (idxStartOf o) n =
      rowOf o (lowestOf o notes) n - idxStartOf o := by
    intro n hn
    unfold idxPosQ rowOf
    rw [hrowf n hn, ← Int.cast_sub, hex _ (hb n hn).2, (trunc_spec _).2.2 _ rfl, if_pos (by omega), hlow]
  have hrows : rowsFullQ fl (o.pitchMargin : ℚ) notes = rowsFull o notes := by
    unfold rowsFullQ rowsFull
    simp only
    rw [if_pos (by omega), hlow, hhigh]
    have h2 : fl (2 * (o.pitchMargin : ℚ)) = ((2 * o.pitchMargin : Int) : ℚ) := by
      have := hex _ hM.1
      push_cast at this ⊢
      exact this
    rw [h2, ← Int.cast_add, hex _ hM.2, (trunc_spec _).2.2 _ rfl]
  rw [makeRows_eq, makeWithQ, hrows]
  exact makeRows_congr fl o notes _ _ _ _ _ hrow hirow

/-! ### the cell clauses for arbitrary rows, hence for a real margin -/

/-- **cell value, whatever the rows**: in the roll of the row-parametric rasteriser a cell no note covers is 0; a covered
    cell holds the maximum velocity of the notes drawn in that row over that frame (1 in binary mode) -/
theorem rows_cell_value (fl : ℚ → ℚ) (o : Opts) (notes : List Note) (M : Int) (row irow : Note → Int) (r : Roll)
    (h : makeRows fl o notes M row irow = some r) (p j : Int) (hp0 : 0 ≤ p) (hp1 : p < r.rows) :
    ((¬ ∃ n ∈ notes, CoversR fl o row notes n (p + r.rowStart) j) → r.cell p j = 0) ∧
    ((∃ n ∈ notes, CoversR fl o row notes n (p + r.rowStart) j) →
      ∃ n ∈ notes, CoversR fl o row notes n (p + r.rowStart) j ∧
        (∀ n' ∈ notes, CoversR fl o row notes n' (p + r.rowStart) j → n'.vel ≤ n.vel) ∧
        r.cell p j = if o.binary = true ∧ n.vel ≠ 0 then 1 else n.vel) :=
  cell_valueR_aux fl o notes M row irow r h p j hp0 hp1

/-- **a real margin: cell (p, j) is non-zero exactly when a note of non-zero velocity whose row
    `int(fl(pitch - lowest + pm))` is `p` sounds during frame `j`** (velocities `≥ 0`; the frames are those of
    `raster_*`: onset frame only in onset mode, last frame dropped under separation, never less than one) — notes the
    truncation puts in one row collide like notes of one pitch: the maximum velocity shows (`rows_cell_value`) -/
theorem margin_cell_iff_sounding (fl : ℚ → ℚ) (pm : ℚ) (o : Opts) (notes : List Note) (r : Roll)
    (h : makeWithQ fl pm o notes = some r) (hv : ∀ n ∈ notes, 0 ≤ n.vel) (p j : Int) (hp0 : 0 ≤ p) (hp1 : p < r.rows) :
    r.cell p j ≠ 0 ↔ ∃ n ∈ notes, n.vel ≠ 0 ∧ rowOfQ fl pm (lowestQ notes) n = p + r.rowStart ∧
      onFrameG fl o (t0Of o notes) n ≤ j ∧ j < offCellG fl o (t0Of o notes) n := by
  obtain ⟨h1, h2⟩ := rows_cell_value fl o notes _ _ _ r h p j hp0 hp1
  constructor
  · intro hne
    have hc : ∃ n ∈ notes, CoversR fl o (rowOfQ fl pm (lowestQ notes)) notes n (p + r.rowStart) j := by
      by_contra hc
      exact hne (h1 hc)
    obtain ⟨n, hn, hcov, _, he⟩ := h2 hc
    refine ⟨n, hn, ?_, hcov.1, hcov.2.1, hcov.2.2⟩
    intro h0
    apply hne
    rw [he, h0]
    simp
  · rintro ⟨n', hn', hv', hc'⟩
    obtain ⟨n, hn, _, hmax, he⟩ := h2 ⟨n', hn', hc'⟩
    have h1' := hmax n' hn' hc'
    have h2' := hv n' hn'
    rw [he]
    split <;> omega

/-- a real margin: nothing is drawn outside the matrix, and the shape is `int(fl(span + 2 pm))` rows (sliced in piano
    range) by the columns of the integer-margin roll -/
theorem margin_shape (fl : ℚ → ℚ) (pm : ℚ) (o : Opts) (notes : List Note) (r : Roll)
    (h : makeWithQ fl pm o notes = some r) :
    r.rows = (if o.pianoRange then slicedRows (rowsFullQ fl pm notes) else rowsFullQ fl pm notes) ∧
    colsOfG fl o notes = some r.cols ∧
    (∀ n ∈ notes, 0 ≤ rowOfQ fl pm (lowestQ notes) n ∧ rowOfQ fl pm (lowestQ notes) n < rowsFullQ fl pm notes ∧
      0 ≤ onFrameG fl o (t0Of o notes) n ∧ offCellG fl o (t0Of o notes) n ≤ r.cols) := by
  obtain ⟨_, _, N, hN, hb, rfl⟩ := (makeRows_eq_some fl o notes _ _ _ r).mp h
  refine ⟨rfl, hN, ?_⟩
  intro n hn
  have hlt := onFrameG_lt_offCellG fl o (t0Of o notes) n
  have a := cells_in_rangeR_aux fl o notes _ _ _ _ h n hn _ (onFrameG fl o (t0Of o notes) n) ⟨rfl, le_refl _, hlt⟩
  have b := cells_in_rangeR_aux fl o notes _ _ _ _ h n hn _ (offCellG fl o (t0Of o notes) n - 1) ⟨rfl, by omega, by omega⟩
  simp only [rollOfR] at a b ⊢
  omega

/-- a real margin: the index rows, in input order: `(int(fl(row - start)), onset frame, offset frame, midi pitch)` -/
theorem margin_idx_rows (fl : ℚ → ℚ) (pm : ℚ) (o : Opts) (notes : List Note) (r : Roll)
    (h : makeWithQ fl pm o notes = some r) :
    r.idx = notes.map fun n =>
      (idxPosQ fl pm (lowestQ notes) (idxStartOf o) n, onFrameG fl o (t0Of o notes) n, offIdxG fl o (t0Of o notes) n,
        n.pitch) := by
  obtain ⟨_, _, N, _, _, rfl⟩ := (makeRows_eq_some fl o notes _ _ _ r).mp h
  simp only [rollOfR, idxOfR_eq]

/-- **a real margin: whatever the order of the input rows** — a permutation of the rows is accepted or rejected alike
    and gives the same shape and the same matrix; the index rows are permuted along -/
theorem margin_order_indep (fl : ℚ → ℚ) (pm : ℚ) (o : Opts) {notes notes' : List Note} (hp : notes ~ notes') :
    (makeWithQ fl pm o notes = none ↔ makeWithQ fl pm o notes' = none) ∧
    ∀ r r', makeWithQ fl pm o notes = some r → makeWithQ fl pm o notes' = some r' →
      r.rows = r'.rows ∧ r.cols = r'.cols ∧ (∀ p j, r.cell p j = r'.cell p j) ∧ r.idx ~ r'.idx := by
  have hlow : lowestQ notes = lowestQ notes' := by
    unfold lowestQ minInt?
    rw [best?_perm linearLe_intLe (hp.map _)]
  have hhigh : highestQ notes = highestQ notes' := by
    unfold highestQ maxInt?
    rw [best?_perm linearLe_intGe (hp.map _)]
  have hM : rowsFullQ fl pm notes = rowsFullQ fl pm notes' := by
    unfold rowsFullQ
    rw [hlow, hhigh]
  have he : makeWithQ fl pm o notes' = makeRows fl o notes' (rowsFullQ fl pm notes) (rowOfQ fl pm (lowestQ notes))
      (idxPosQ fl pm (lowestQ notes) (idxStartOf o)) := by
    unfold makeWithQ
    rw [hM, hlow]
  rw [he]
  unfold makeWithQ
  constructor
  · constructor
    · intro hn
      cases hr : makeRows fl o notes' (rowsFullQ fl pm notes) (rowOfQ fl pm (lowestQ notes))
          (idxPosQ fl pm (lowestQ notes) (idxStartOf o)) with
      | none => rfl
      | some r' =>
        obtain ⟨r, hr2, _⟩ := makeRows_perm fl o _ _ _ hp.symm r' hr
        rw [hn] at hr2; cases hr2
    · intro hn
      cases hr : makeRows fl o notes (rowsFullQ fl pm notes) (rowOfQ fl pm (lowestQ notes))
          (idxPosQ fl pm (lowestQ notes) (idxStartOf o)) with
      | none => rfl
      | some r =>
        obtain ⟨r', hr2, _⟩ := makeRows_perm fl o _ _ _ hp r hr
        rw [hn] at hr2; cases hr2
  · intro r r' hr hr'
    obtain ⟨r'', hr2, h1, h2, h3, h4⟩ := makeRows_perm fl o _ _ _ hp r hr
    rw [hr'] at hr2
    cases hr2
    exact ⟨h1, h2, h3, h4⟩

/-- `int()` of a non-negative number plus an integer -/
private theorem trunc_add_int (k : Int) (q : ℚ) (hk : 0 ≤ k) (hq : 0 ≤ q) : truncRat ((k : ℚ) + q) = k + truncRat q := by
  have hkq : (0 : ℚ) ≤ (k : ℚ) + q := add_nonneg (by exact_mod_cast hk) hq
  obtain ⟨_, a1, a2⟩ := (trunc_spec ((k : ℚ) + q)).1 hkq
  obtain ⟨_, b1, b2⟩ := (trunc_spec q).1 hq
  have h1 : ((truncRat ((k : ℚ) + q) : Int) : ℚ) < ((k + truncRat q + 1 : Int) : ℚ) := by push_cast; linarith
  have h2 : ((k + truncRat q : Int) : ℚ) < ((truncRat ((k : ℚ) + q) + 1 : Int) : ℚ) := by push_cast; linarith
  have h1' := Int.cast_lt.mp h1
  have h2' := Int.cast_lt.mp h2
  omega

/-- **a margin with a fractional part, exact reading, `pm ≥ 0`**: the roll has `span + ⌊2 pm⌋` rows — the pitch span
    plus twice the margin, rounded down —, a note of pitch `p` sits in row `p - lowest + ⌊pm⌋`, which lies inside the
    roll for every pitch between the lowest and the highest, and different pitches get different rows -/
theorem margin_rows (pm : ℚ) (hpm : 0 ≤ pm) (notes : List Note) (hspan : lowestQ notes ≤ highestQ notes) :
    rowsFullQ id pm notes = highestQ notes - lowestQ notes + 1 + truncRat (2 * pm) ∧
    (∀ n : Note, lowestQ notes ≤ n.pitch →
      rowOfQ id pm (lowestQ notes) n = n.pitch - lowestQ notes + truncRat pm ∧
      (n.pitch ≤ highestQ notes → 0 ≤ rowOfQ id pm (lowestQ notes) n ∧
        rowOfQ id pm (lowestQ notes) n < rowsFullQ id pm notes)) ∧
    (∀ n n' : Note, lowestQ notes ≤ n.pitch → lowestQ notes ≤ n'.pitch →
      rowOfQ id pm (lowestQ notes) n = rowOfQ id pm (lowestQ notes) n' → n.pitch = n'.pitch) := by
  have hM : rowsFullQ id pm notes = highestQ notes - lowestQ notes + 1 + truncRat (2 * pm) := by
    unfold rowsFullQ
    simp only [id]
    exact trunc_add_int _ _ (by omega) (by linarith)
  have hrow : ∀ n : Note, lowestQ notes ≤ n.pitch →
      rowOfQ id pm (lowestQ notes) n = n.pitch - lowestQ notes + truncRat pm := by
    intro n hn
    unfold rowOfQ rowFloatQ
    simp only [id]
    exact trunc_add_int _ _ (by omega) hpm
  have h2 : truncRat pm ≤ truncRat (2 * pm) := by
    obtain ⟨_, a1, a2⟩ := (trunc_spec pm).1 hpm
    obtain ⟨_, b1, b2⟩ := (trunc_spec (2 * pm)).1 (by linarith)
    have : ((truncRat pm : Int) : ℚ) < ((truncRat (2 * pm) + 1 : Int) : ℚ) := by push_cast; linarith
    have := Int.cast_lt.mp this
    omega
  have h0 : 0 ≤ truncRat pm := ((trunc_spec pm).1 hpm).1
  refine ⟨hM, ?_, ?_⟩
  · intro n hn
    refine ⟨hrow n hn, ?_⟩
    intro hn'
    rw [hrow n hn, hM]
    omega
  · intro n n' hn hn' he
    rw [hrow n hn, hrow n' hn'] at he
    omega

/-- **a negative fractional margin merges the two lowest pitches** (`-1 < pm < 0`, exact reading): `int()` sends
    `pm` and `1 + pm` both to row 0 -/
theorem margin_neg_merges (pm : ℚ) (h1 : -1 < pm) (h0 : pm < 0) (lowest : Int) (n n' : Note)
    (hn : n.pitch = lowest) (hn' : n'.pitch = lowest + 1) :
    rowOfQ id pm lowest n = 0 ∧ rowOfQ id pm lowest n' = 0 := by
  constructor
  · unfold rowOfQ rowFloatQ
    simp only [id, hn, sub_self, Int.cast_zero, zero_add]
    obtain ⟨a0, a1, a2⟩ := (trunc_spec pm).2.1 h0
    have : ((-1 : Int) : ℚ) < ((truncRat pm : Int) : ℚ) := by push_cast; linarith
    have := Int.cast_lt.mp this
    omega
  · unfold rowOfQ rowFloatQ
    simp only [id, hn']
    have hq : (0 : ℚ) ≤ ((lowest + 1 - lowest : Int) : ℚ) + pm := by push_cast; linarith
    obtain ⟨a0, a1, a2⟩ := (trunc_spec _).1 hq
    have : ((truncRat (((lowest + 1 - lowest : Int) : ℚ) + pm) : Int) : ℚ) < ((1 : Int) : ℚ) := by
      push_cast at a1 ⊢; linarith
    have := Int.cast_lt.mp this
    omega

/-- **the dispatch on a float `pitch_margin`**: an integral float is that integer (`computePianorollPy`, round 5), a
    value `≤ -1` means "no margin" exactly as `-1` does, anything else takes the real-margin rasteriser in binary64 -/
theorem margin_py (kind : String) (a : NoteArray) (p : PyArgs) (q : ℚ) (hp : p.pitchMargin = some (.float q)) :
    (q.den = 1 → computePianorollPyQ kind a p = computePianorollPy kind a p) ∧
    (q.den ≠ 1 → q ≤ -1 →
      computePianorollPyQ kind a p = computePianorollPy kind a { p with pitchMargin := some (.int (-1)) }) ∧
    (q.den ≠ 1 → -1 < q → ∀ kw, readArgs { p with pitchMargin := some (.int 0) } = .ok kw →
      computePianorollPyQ kind a p = .ok (computePianorollKwQ kind a kw q)) := by
  refine ⟨?_, ?_, ?_⟩
  · intro h
    simp only [computePianorollPyQ, hp, if_pos h]
  · intro h h'
    simp only [computePianorollPyQ, hp, if_neg h, if_pos h']
  · intro h h' kw hk
    simp only [computePianorollPyQ, hp, if_neg h, if_neg (not_le.mpr h'), hk]

/-- an argument that is no float with a fractional part is handled as in round 5 -/
theorem margin_py_other (kind : String) (a : NoteArray) (p : PyArgs) (h : ∀ q, p.pitchMargin ≠ some (.float q)) :
    computePianorollPyQ kind a p = computePianorollPy kind a p := by
  unfold computePianorollPyQ
  split
  · rename_i q hq; exact absurd hq (h q)
  · rfl

/-! ### examples (the probes of the live code in harness/props/c13.py `gen_pmq` give the same rolls) -/

def mNotes : List Note := [⟨60, 0, 1, 1⟩, ⟨61, 1, 1, 1⟩, ⟨64, 0, 2, 1⟩]
def mOpts : Opts := { exOpts with timeDiv := 1, pitchMargin := 0 }
def mOpts2 : Opts := { exOpts with timeDiv := 1, pitchMargin := 2 }

/-- margin 1/2: 6 rows, rows 0 / 1 / 4 -/
example : (makeWithQ f64 (1/2) mOpts mNotes).map (fun r => (r.rows, r.idx)) =
    some (6, [(0, 0, 1, 60), (1, 1, 2, 61), (4, 0, 2, 64)]) := by decide +kernel
/-- margin -1/2: 4 rows, pitches 60 and 61 both in row 0 -/
example : (makeWithQ f64 (-1/2) mOpts mNotes).map (fun r => (r.rows, r.idx)) =
    some (4, [(0, 0, 1, 60), (0, 1, 2, 61), (3, 0, 2, 64)]) := by decide +kernel
/-- margin 1 - 2^-53: `1 + pm` rounds to 2.0 in binary64 (rows 0 / 2 / 5 — the exact reading gives 0 / 1 / 4) -/
example : (makeWithQ f64 (1 - 1 / 2 ^ 53) mOpts mNotes).map (fun r => (r.rows, r.idx.map (·.1))) = some (7, [0, 2, 5]) ∧
    (makeWithQ id (1 - 1 / 2 ^ 53) mOpts mNotes).map (fun r => (r.rows, r.idx.map (·.1))) = some (6, [0, 1, 4]) := by
  decide +kernel
/-- piano range: the slice leaves no row, the index positions are `int(row - 21)` (toward zero: -20, not -21) -/
example : (makeWithQ f64 (1/2) { mOpts with pianoRange := true } mNotes).map (fun r => (r.rows, r.idx.map (·.1))) =
    some (0, [-20, -19, -16]) := by decide +kernel
/-- a single pitch and margin -1/2: `int(1 - 1) = 0` rows — rejected (scipy: index exceeds matrix dimension) -/
example : makeWithQ f64 (-1/2) mOpts [⟨60, 0, 1, 1⟩] = none := by decide +kernel
/-- the hypotheses of `margin_extends` hold for `f64` on these notes with margin 2, and both sides are the same roll -/
example : (makeWithQ f64 (2 : ℚ) mOpts2 mNotes).map (fun r => (r.rows, r.idx)) =
    some (9, [(2, 0, 1, 60), (3, 1, 2, 61), (6, 0, 2, 64)]) := by decide +kernel
example : (makeWith f64 mOpts2 mNotes).map (fun r => (r.rows, r.idx)) =
    some (9, [(2, 0, 1, 60), (3, 1, 2, 61), (6, 0, 2, 64)]) := by decide +kernel

end C13
