/-
C06 (round 2) — notes and programs under track merging (mido `merge_tracks` on save and/or on load).

`q` is the exporter's conversion of seconds to ticks, `quant mpq ppq` round-half-even of 10^6·ppq·t/mpq.
-/
import PartituraModel.Props.C06
import PartituraModel.Proofs.C06Merged

namespace C06
open Model Model.PerfMidi C06Sort C06Adjust C06Pair C06Lists C06Export C06Ids C06Notes C06Stable C06Merged

-- ================================================================== notes, merged

/-- Notes survive the round trip under merging on either side.  Let, for every (channel, pitch) hash κ,
    `mergedKeyNotes q parts κ` be the notes of that channel and pitch of ALL tracks in the order their
    messages reach the merged stream before the sort by tick (track number, then part, then (note_on,
    note_off)).  The exact condition merging needs is `MergeOk` for every pair in that order: `a` written
    before `b` is released no later (in ticks) than `b` begins, or `b` is released on a tick strictly before
    the one where `a` begins — i.e. no two notes of equal (channel, pitch) across the merged tracks overlap,
    and two that meet on one tick are written in their order in time.  Then the loader sees ONE track and
    pairs, for every (channel, pitch), exactly these notes (pitch, velocity, channel, ticks `q note_on`,
    `q note_off`), in order of time. -/
theorem notes_kept_merged (q : Rat → Int) (hq : ∀ a b, a ≤ b → q a ≤ q b) (mpq : Nat) (ms ml : Bool)
    (parts : List PPart)
    (hm : ml = true ∨ (ms = true ∧ 1 < (usedTracks q parts).length))
    (hwf : ∀ p ∈ parts, ∀ n ∈ p.notes, n.on ≤ n.off ∧ 0 < n.vel)
    (hno : ∀ κ, (mergedKeyNotes q parts κ).Pairwise (MergeOk q)) :
    ∃ T, loaderTracks ml ((savedAbs q mpq ms parts).map toDelta) = [T] ∧
      ∀ κ, notesOf κ (pairNotes T) = (orderNotes q (mergedKeyNotes q parts κ)).map (toR q) := by
  obtain ⟨T, hT, hproj⟩ := merged_track q mpq ms ml parts hm
  refine ⟨T, hT, fun κ => ?_⟩
  refine pairing_sound T (fun κ => (orderNotes q (mergedKeyNotes q parts κ)).map (toR q)) ?_ κ
  intro κ'
  have hmem : ∀ n ∈ mergedKeyNotes q parts κ', n.on ≤ n.off ∧ 0 < n.vel := by
    intro n hn
    obtain ⟨p, hp, hn⟩ := mem_mergedKeyNotes q parts κ' n hn
    exact hwf p hp n hn
  rw [hproj κ', sortBy_blocks q _ (fun n hn => hq _ _ (hmem n hn).1) (hno κ')]
  exact noteMsgs_alt q _ (fun n hn => (hmem n ((perm_orderNotes q _).mem_iff.mp hn)).2)

/-- … hence the notes the loader returns for the merged file (sorted for the ids) are, as a multiset, the
    notes of the whole performance on the tick grid -/
theorem notes_kept_merged_all (q : Rat → Int) (hq : ∀ a b, a ≤ b → q a ≤ q b) (mpq : Nat) (ms ml : Bool)
    (parts : List PPart)
    (hm : ml = true ∨ (ms = true ∧ 1 < (usedTracks q parts).length))
    (hwf : ∀ p ∈ parts, ∀ n ∈ p.notes, n.on ≤ n.off ∧ 0 < n.vel)
    (hno : ∀ κ, (mergedKeyNotes q parts κ).Pairwise (MergeOk q)) :
    ∃ T, loaderTracks ml ((savedAbs q mpq ms parts).map toDelta) = [T] ∧
      (sortNotes (pairNotes T)).Perm ((parts.flatMap (·.notes)).map (toR q)) := by
  obtain ⟨T, hT, hk⟩ := notes_kept_merged q hq mpq ms ml parts hm hwf hno
  refine ⟨T, hT, (perm_sortBy _ _).trans ?_⟩
  refine perm_of_filter_key RNote.key _ _ ?_
  intro κ
  have h1 : (pairNotes T).filter (fun x => decide (RNote.key x = κ)) = notesOf κ (pairNotes T) := rfl
  rw [h1, hk κ, List.filter_map]
  refine List.Perm.map _ ?_
  exact (perm_orderNotes q _).trans (mergedKeyNotes_perm q parts κ)

/-- … and so does `loadFile` (what `load_performance_midi` builds its performed parts from): at most one
    part, read from file track 0, whose notes — in the order of their ids — are those of the performance -/
theorem load_merged_notes (q : Rat → Int) (hq : ∀ a b, a ≤ b → q a ≤ q b) (mpq : Nat) (ms ml : Bool)
    (parts : List PPart)
    (hm : ml = true ∨ (ms = true ∧ 1 < (usedTracks q parts).length))
    (hwf : ∀ p ∈ parts, ∀ n ∈ p.notes, n.on ≤ n.off ∧ 0 < n.vel)
    (hno : ∀ κ, (mergedKeyNotes q parts κ).Pairwise (MergeOk q)) :
    (loadFile ml ((savedAbs q mpq ms parts).map toDelta)).length ≤ 1 ∧
    ∀ rt ∈ loadFile ml ((savedAbs q mpq ms parts).map toDelta), rt.fileTrack = 0 ∧
      rt.notes.Perm ((parts.flatMap (·.notes)).map (toR q)) ∧
      rt.notes.Pairwise (fun a b => rnoteLe a b = true) := by
  obtain ⟨T, hT, hP⟩ := notes_kept_merged_all q hq mpq ms ml parts hm hwf hno
  have e : loadFile ml ((savedAbs q mpq ms parts).map toDelta) = [readTrack 0 T].filter RTrack.kept := by
    unfold loadFile
    rw [hT]
    rfl
  rw [e]
  constructor
  · exact le_trans (List.length_filter_le _ _) (le_refl _)
  · intro rt hrt
    have : rt = readTrack 0 T := by
      have := (List.mem_filter.mp hrt).1
      simpa using this
    subst this
    exact ⟨rfl, hP, sorted_sortBy rnoteLe rnoteLe_total rnoteLe_trans _⟩

/-- asking for a merge when the performance uses at most one track number changes nothing: the unmerged
    theorems (`notes_kept_tracks`, `…_kept_tracks`) then speak about that file as well -/
theorem merge_single_track (q : Rat → Int) (mpq : Nat) (parts : List PPart)
    (h : (usedTracks q parts).length ≤ 1) : savedAbs q mpq true parts = savedAbs q mpq false parts := by
  unfold savedAbs
  have : ¬ 1 < (exportAbs q mpq parts).length := by rw [length_exportAbs]; omega
  simp [this]

/-- The same condition, track by track, for the unmerged file: `notes_kept_tracks` under the weaker
    hypothesis in ticks (a note may be written after one that sounds later, if strictly apart in ticks —
    e.g. two parts sharing a track number) -/
theorem notes_kept_tracks_ticks (q : Rat → Int) (hq : ∀ a b, a ≤ b → q a ≤ q b) (mpq : Nat) (parts : List PPart)
    (hwf : ∀ p ∈ parts, ∀ n ∈ p.notes, n.on ≤ n.off ∧ 0 < n.vel)
    (hno : ∀ tr κ, (keyNotes parts tr κ).Pairwise (MergeOk q)) :
    List.Forall₂ (fun tr t => ∀ κ, notesOf κ (pairNotes t) = (orderNotes q (keyNotes parts tr κ)).map (toR q))
      (usedTracks q parts) (loaderTracks false ((savedAbs q mpq false parts).map toDelta)) := by
  have hmem : ∀ tr κ, ∀ n ∈ keyNotes parts tr κ, n.on ≤ n.off ∧ 0 < n.vel := by
    intro tr κ n hn
    unfold keyNotes at hn
    obtain ⟨p, hp, hn⟩ := List.mem_flatMap.mp hn
    exact hwf p hp n ((mem_sortBy _ _ _).mp (List.mem_filter.mp hn).1)
  have key : ∀ tr (t : Track), (∀ κ, proj κ t = proj κ (trackAbs (insertAll q parts) tr)) →
      ∀ κ, notesOf κ (pairNotes t) = (orderNotes q (keyNotes parts tr κ)).map (toR q) := by
    intro tr t ht κ
    refine pairing_sound t (fun κ => (orderNotes q (keyNotes parts tr κ)).map (toR q)) ?_ κ
    intro κ'
    rw [ht κ', proj_trackAbs_sort, sortBy_blocks q _ (fun n hn => hq _ _ (hmem tr κ' n hn).1) (hno tr κ')]
    exact noteMsgs_alt q _ (fun n hn => (hmem tr κ' n ((perm_orderNotes q _).mem_iff.mp hn)).2)
  rw [loaderTracks_saved, List.forall₂_map_right_iff]
  refine forall₂_exportAbs _ q mpq parts ?_ ?_
  · intro tr
    refine key tr _ ?_
    intro κ
    rw [proj_fixEot, proj_cons_tempo]
  · intro tr
    refine key tr _ ?_
    intro κ
    rw [proj_fixEot]

/-- two notes strictly apart on the tick grid -/
def TickApart (q : Rat → Int) (a b : PNote) : Prop := q a.off < q b.on ∨ q b.off < q a.on

/-- The proviso of the property for one performed part saved or loaded with merging: notes of the same
    channel and pitch on the same track number do not overlap (in seconds, half-open), and those on
    DIFFERENT track numbers — which end up in one track only through the merge — are strictly apart on the
    tick grid.  Then the loaded notes are those of the part, on the tick grid (exporter's own rounding). -/
theorem notes_kept_part_merged (mpq ppq : Nat) (ms ml : Bool) (p : PPart)
    (hm : ml = true ∨ (ms = true ∧ 1 < (usedTracks (quant mpq ppq) [p]).length))
    (hwf : ∀ n ∈ p.notes, n.on ≤ n.off ∧ 0 < n.vel)
    (hap : p.notes.Pairwise (fun a b => noteHash a.ch a.pitch = noteHash b.ch b.pitch →
      (a.track = b.track → Apart a b) ∧ (a.track ≠ b.track → TickApart (quant mpq ppq) a b))) :
    ∃ T, loaderTracks ml ((savedAbs (quant mpq ppq) mpq ms [p]).map toDelta) = [T] ∧
      (sortNotes (pairNotes T)).Perm (p.notes.map (toR (quant mpq ppq))) := by
  have hq := quant_mono mpq ppq
  have hwf' : ∀ p' ∈ [p], ∀ n ∈ p'.notes, n.on ≤ n.off ∧ 0 < n.vel := by
    intro p' hp'
    rw [List.mem_singleton] at hp'
    subst hp'
    exact hwf
  have hno : ∀ κ, (mergedKeyNotes (quant mpq ppq) [p] κ).Pairwise (MergeOk (quant mpq ppq)) := by
    intro κ
    unfold mergedKeyNotes
    rw [List.pairwise_flatMap]
    constructor
    · intro tr _
      have h1 : p.notes.Pairwise (fun a b => a.track = b.track →
          noteHash a.ch a.pitch = noteHash b.ch b.pitch → Apart a b) :=
        hap.imp (fun h ht hk => (h hk).1 ht)
      exact (keyNotes_single p tr κ (fun n hn => (hwf n hn).1) h1).imp (fun h => Or.inl (hq _ _ h))
    · refine (strict_uniqueSorted _).imp ?_
      intro tr1 tr2 hlt x hx y hy
      have mem : ∀ tr (z : PNote), z ∈ keyNotes [p] tr κ → z ∈ p.notes ∧ z.track = tr ∧ noteHash z.ch z.pitch = κ := by
        intro tr z hz
        unfold keyNotes at hz
        simp only [List.flatMap_cons, List.flatMap_nil, List.append_nil] at hz
        have hz' := List.mem_filter.mp hz
        have : z.track = tr ∧ noteHash z.ch z.pitch = κ := by simpa using hz'.2
        exact ⟨(mem_sortBy _ _ _).mp hz'.1, this⟩
      obtain ⟨hx1, hx2, hx3⟩ := mem tr1 x hx
      obtain ⟨hy1, hy2, hy3⟩ := mem tr2 y hy
      have hne : x.track ≠ y.track := by omega
      have hxy : x ≠ y := fun h => hne (by rw [h])
      have hsym : ∀ a b : PNote, (noteHash a.ch a.pitch = noteHash b.ch b.pitch →
            (a.track = b.track → Apart a b) ∧ (a.track ≠ b.track → TickApart (quant mpq ppq) a b)) →
          (noteHash b.ch b.pitch = noteHash a.ch a.pitch →
            (b.track = a.track → Apart b a) ∧ (b.track ≠ a.track → TickApart (quant mpq ppq) b a)) := by
        intro a b h hk
        obtain ⟨h1, h2⟩ := h hk.symm
        exact ⟨fun ht => (h1 ht.symm).symm, fun ht => (h2 (fun e => ht e.symm)).symm⟩
      have hR := pairwise_mem_ne _ hsym p.notes hap x hx1 y hy1 hxy
      rcases (hR (hx3.trans hy3.symm)).2 hne with h | h
      · exact Or.inl (le_of_lt h)
      · exact Or.inr h
  obtain ⟨T, hT, hP⟩ := notes_kept_merged_all (quant mpq ppq) hq mpq ms ml [p] hm hwf' hno
  refine ⟨T, hT, ?_⟩
  simpa using hP

/-- non-vacuity: one part on track numbers 0 and 3, the same channel and pitch on both (strictly apart on
    the grid, the later one on the lower track number), merged on load; a zero-length note; another pitch
    overlapping everything -/
example : let p : PPart := { metaOther := [], keySigs := [], timeSigs := [], controls := [],
                             notes := [⟨60, 70, 0, 0, 2, 3⟩, ⟨60, 64, 0, 3, 0, 1⟩, ⟨60, 1, 0, 3, 3/2, 3/2⟩,
                                       ⟨61, 5, 0, 0, 0, 4⟩],
                             programs := [] }
    (ml : Bool) → ml = true →
    (ml = true ∨ (false = true ∧ 1 < (usedTracks (quant 500000 480) [p]).length)) ∧
    p.notes.Pairwise (fun a b => noteHash a.ch a.pitch = noteHash b.ch b.pitch →
      (a.track = b.track → Apart a b) ∧ (a.track ≠ b.track → TickApart (quant 500000 480) a b)) ∧
    ((loaderTracks ml ((savedAbs (quant 500000 480) 500000 false [p]).map toDelta)).map
        (fun t => sortNotes (pairNotes t)))
      = [[⟨60, 0, 960, 64, 0⟩, ⟨61, 0, 3840, 5, 0⟩, ⟨60, 1440, 1440, 1, 0⟩, ⟨60, 1920, 2880, 70, 0⟩]] := by
  intro p ml hml
  subst hml
  refine ⟨Or.inl rfl, ?_, by decide +kernel⟩
  have e1 : quant 500000 480 1 = 960 := by decide +kernel
  have e2 : quant 500000 480 2 = 1920 := by decide +kernel
  have e3 : quant 500000 480 3 = 2880 := by decide +kernel
  have e4 : quant 500000 480 (3/2) = 1440 := by decide +kernel
  simp [p, Apart, TickApart, noteHash, e1, e2, e3, e4]
  norm_num

/-- the condition is exact: two notes of one channel and pitch that merely TOUCH (in seconds: no overlap),
    the later one on the lower track number — `MergeOk` fails, and the merged file pairs the wrong messages
    (the second note-on reaches the merged track before the first note-off of the same tick) -/
example : let p : PPart := { metaOther := [], keySigs := [], timeSigs := [], controls := [],
                             notes := [⟨60, 70, 0, 0, 1, 2⟩, ⟨60, 64, 0, 1, 0, 1⟩], programs := [] }
    p.notes.Pairwise (fun a b => Apart a b) ∧
    ¬ (mergedKeyNotes (quant 500000 480) [p] (noteHash 0 60)).Pairwise (MergeOk (quant 500000 480)) ∧
    ((loaderTracks true ((savedAbs (quant 500000 480) 500000 false [p]).map toDelta)).map
        (fun t => sortNotes (pairNotes t))) = [[⟨60, 960, 960, 70, 0⟩]] := by
  refine ⟨by simp [Apart], by decide +kernel, by decide +kernel⟩

-- ================================================================== programs, merged

/-- Programs of the whole file, with or without merging on either side: what the loader reads is the
    multiset of programs of the performance plus default programs only — `program_change 0` on a channel
    that a part WITHOUT programs uses (in a note or a control) on that track -/
theorem programs_kept (q : Rat → Int) (mpq : Nat) (ms ml : Bool) (parts : List PPart) :
    ∃ d : List (Int × Nat × Nat),
      (∀ x ∈ d, ∃ tr ∈ usedTracks q parts, IsDefaultProg parts tr x) ∧
      ((loaderTracks ml ((savedAbs q mpq ms parts).map toDelta)).flatMap programsOf).Perm
        ((usedTracks q parts).flatMap (perfPrograms q parts) ++ d) := by
  obtain ⟨D, hD, hP⟩ := flatMap_perm_extra (perfPrograms q parts) (sel gProg) (IsDefaultProg parts) _ _
    (prog_exportAbs_strong q mpq parts)
  refine ⟨D, hD, ?_⟩
  have hc : programsOf = sel gProg := funext programsOf_eq
  rw [hc]
  exact (sel_file gProg rfl q mpq ms ml parts).trans hP

/-- a performance in which every part has a program: nothing is added -/
theorem programs_kept_exact (q : Rat → Int) (mpq : Nat) (ms ml : Bool) (parts : List PPart)
    (h : ∀ p ∈ parts, p.programs ≠ []) :
    ((loaderTracks ml ((savedAbs q mpq ms parts).map toDelta)).flatMap programsOf).Perm
      ((usedTracks q parts).flatMap (perfPrograms q parts)) := by
  obtain ⟨d, hd, hP⟩ := programs_kept q mpq ms ml parts
  have : d = [] := by
    cases d with
    | nil => rfl
    | cons x d =>
      obtain ⟨_, _, _, p, hp, hnil, _⟩ := hd x List.mem_cons_self
      exact absurd hnil (h p hp)
  rw [this, List.append_nil] at hP
  exact hP

/-- non-vacuity: two parts, the first without programs (channels 0 and 1 on track 0, channel 1 on track 2),
    the second with one; merged on save and on load -/
example : let p1 : PPart := { metaOther := [], keySigs := [], timeSigs := [],
                              controls := [⟨1/3, 64, 127, 1, 2⟩, ⟨0, 7, 100, 0, 0⟩],
                              notes := [⟨60, 64, 1, 0, 1/2, 1⟩], programs := [] }
          let p2 : PPart := { metaOther := [], keySigs := [], timeSigs := [], controls := [],
                              notes := [⟨62, 64, 5, 1, 1/4, 1⟩], programs := [⟨1, 40, 5, 1⟩] }
    (loaderTracks true ((savedAbs (quant 500000 480) 500000 true [p1, p2]).map toDelta)).flatMap programsOf
      = [(0, 0, 0), (0, 0, 1), (0, 0, 1), (960, 40, 5)] := by decide +kernel

end C06
