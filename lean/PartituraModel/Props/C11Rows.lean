/-
C11 — list level: `tie_notes` neither loses nor adds a row of the note array and keeps the order of the rows.

Helper lemmas are in Proofs/C11Rows.lean; the tied duration and end of each row are kept by `tie_notes_sound_same`
(Props/C11.lean) and are determined by the list (`tie_duration_determined`).
-/
import PartituraModel.Props.C11
import PartituraModel.Proofs.C11Rows

namespace C11
open Model Model.Dur Model.Meas Gen C11Rows

/-- **tie_rows_same** (list level, all parts, all note lists with distinct keys whose ties point at notes with a
    back link): the notes without `tie_prev` — the rows of the note array — are, in iteration order, the same before
    and after `tie_notes`, with the same key, onset, pitch, voice and id: no row is lost (the note a split note was
    tied to keeps its back link), none is added (every new piece has a back link), the order is kept (the first
    piece stays where the note was).  The well-formedness is kept too, so the statement composes. -/
theorem tie_rows_same (p : PartM) (ns : List Note) (hkeys : KeysOK ns) (hlinks : LinksOK ns) :
    rowsOf (tieNotes p ns) = rowsOf ns ∧ KeysOK (tieNotes p ns) ∧ LinksOK (tieNotes p ns) := by
  unfold tieNotes
  rw [stage2_dead]
  exact tieStage1_rows p.qd (p.measures.map (·.start)) ns hkeys hlinks

/-- the tied duration and the end of a row (`duration_tied`, `end_tied`: the recursion `Walk`) are functions of the list -/
theorem tie_duration_determined (ns : List Note) (x d e d' e' : Nat) (h : C11Walk.Walk ns x d e) (h' : C11Walk.Walk ns x d' e') :
    d = d' ∧ e = e' :=
  walk_unique ns x d e h d' e' h'

/-- rows with their tied durations: together with `tie_notes_sound_same`, every row of the old list that can be
    walked is a row of the new list at the same place with the same duration and end -/
theorem tie_rows_with_durations (p : PartM) (ns : List Note) (hkeys : KeysOK ns) (hlinks : LinksOK ns) :
    rowsOf (tieNotes p ns) = rowsOf ns ∧
    ∀ x d e, C11Walk.Walk ns x d e → C11Walk.Walk (tieNotes p ns) x d e ∧
      ∀ d' e', C11Walk.Walk (tieNotes p ns) x d' e' → d' = d ∧ e' = e := by
  refine ⟨(tie_rows_same p ns hkeys hlinks).1, ?_⟩
  intro x d e hw
  have hw' := (tie_notes_sound_same p ns).1 x d e hw
  exact ⟨hw', fun d' e' h' => walk_unique _ x d' e' h' d e hw'⟩

-- non-vacuity: the witness of C11-3 — [0, 6) tied to [6, 8), bars of 4: three notes afterwards, still one row
example : KeysOK [exA, exB] := by unfold KeysOK; decide
example : LinksOK [exA, exB] := by
  intro n hn t ht
  simp only [List.mem_cons, List.not_mem_nil, or_false] at hn
  rcases hn with rfl | rfl
  · have : t = 1 := by simpa [exA] using ht.symm
    subst this
    exact ⟨exB, by decide, by decide⟩
  · simp [exB] at ht

def exRow : Fields := (0, 0, "C_0_4", some 1, some "n0")

example : rowsOf [exA, exB] = [exRow] ∧ rowsOf (tieNotes exTiePart [exA, exB]) = [exRow] ∧
    (tieNotes exTiePart [exA, exB]).length = 3 :=
  ⟨by decide +kernel, by decide +kernel, by decide +kernel⟩

end C11
