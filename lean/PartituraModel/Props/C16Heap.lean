/-
C16 — "returns a NEW score or part in which every pitched note — including the later notes of tie chains and grace
notes — has moved by the interval …, while onsets, durations, voices, ties and all other elements are unchanged and
the argument itself is not modified", as theorems over the heap model of `transpose` (Model/TransposeHeap.lean:
deepcopy, dispatch on Score / Part, the two loops, in-place update of each note).

`h` is the heap before the call (the argument and everything reachable from it), `h'` the heap after it; the copy of
the object at address `a` lives at `a + h.length`.  `visited h root` are the pitched notes (Note, GraceNote) of the
parts of the argument, in the order the loops reach them.  The only hypothesis on the input is its validity: a note
is listed once (`Nodup`), step names are step names, the interval is one of the 39 classes.
-/
import PartituraModel.Proofs.C16Heap
import PartituraModel.Props.C16

namespace C16Heap
open Model Model.TH

/-- the notes the loops of `transpose` reach -/
abbrev visited (h : Heap) (root : Nat) : List Nat := targets h (partsOf h root)

private theorem visited_is_note {h : Heap} {ps : List Nat} {a : Nat} (ha : a ∈ targets h ps) :
    ∃ s al o rs p, h[a]? = some (Cell.note s al o rs p) := by
  unfold targets at ha
  obtain ⟨q, _, hq⟩ := List.mem_flatMap.mp ha
  split at hq
  · unfold notesOf at hq
    obtain ⟨_, hn⟩ := List.mem_filter.mp hq
    split at hn
    · rename_i c hc
      cases c <;> simp [Cell.isNote] at hn
      exact ⟨_, _, _, _, _, hc⟩
    · cases hn
  · cases hq

/-- **the argument is not modified and a new object is returned**: the result lives at a fresh address, the heap
    has grown by one copy of every object, and every cell the argument could reach is exactly what it was -/
theorem argument_untouched {h h' : Heap} {root r' : Nat} {iv : Interval}
    (e : transpose h root iv = some (h', r')) :
    r' = root + h.length ∧ h'.length = h.length + h.length ∧ ∀ a, a < h.length → h'[a]? = h[a]? := by
  obtain ⟨hr, f, g, -⟩ := transpose_unfold e
  refine ⟨hr, by simpa using f.1, fun a ha => ?_⟩
  rw [g a, copy_lo h _ ha]
  intro hm
  obtain ⟨b, _, hb⟩ := List.mem_map.mp hm
  omega

/-- **all other elements are unchanged — ties included**: every object of the result is the copy of the argument's
    object: same kind, same references (each leading to the COPY of its target, never into the argument), same
    payload (onset, duration, voice, staff, id, …); at most the three pitch fields differ -/
theorem everything_else_unchanged {h h' : Heap} {root r' : Nat} {iv : Interval}
    (e : transpose h root iv = some (h', r')) (a : Nat) :
    (h'[a + h.length]?).map erase = (h[a]?).map fun c => erase (c.shift h.length) := by
  obtain ⟨-, f, -, -⟩ := transpose_unfold e
  rw [f.2 (a + h.length), copy_hi, Option.map_map]
  rfl

/-- objects that are not pitched notes of the argument's parts (rests, unpitched notes, measures, removed chain
    members, notes of parts outside the argument …) are copied exactly, pitch fields included -/
theorem unvisited_copied {h h' : Heap} {root r' : Nat} {iv : Interval}
    (e : transpose h root iv = some (h', r')) (a : Nat) (ha : a ∉ visited h root) :
    h'[a + h.length]? = (h[a]?).map (Cell.shift h.length) := by
  obtain ⟨-, -, g, -⟩ := transpose_unfold e
  rw [g, copy_hi]
  intro hm
  obtain ⟨b, hb, hab⟩ := List.mem_map.mp hm
  have : b = a := by omega
  exact ha (this ▸ hb)

/-- **every pitched note is transposed from ITS OWN spelling**, whatever it is tied to (a later note of a tie chain,
    a note whose chain head was removed, a grace note): the copy holds `_transpose_note_inplace` of the argument's
    note, with the argument's references and payload -/
theorem every_note_transposed {h h' : Heap} {root r' : Nat} {iv : Interval}
    (e : transpose h root iv = some (h', r')) (nd : (visited h root).Nodup) (a : Nat) (ha : a ∈ visited h root) :
    ∃ s al o rs p r, h[a]? = some (Cell.note s al o rs p) ∧
      transposeSpelling s al o iv.quality iv.number iv.up = some r ∧
      h'[a + h.length]? = some (Cell.note r.1 r.2.1 r.2.2 (rs.map (· + h.length)) p) := by
  obtain ⟨s, al, o, rs, p, hc⟩ := visited_is_note ha
  obtain ⟨-, f, -, k⟩ := transpose_unfold e
  have hk := k nd a ha
  have hf := f.2 (a + h.length)
  rw [copy_hi, hc] at hf
  rw [hc] at hk
  simp only [Option.bind_some, Cell.transposed] at hk
  cases ht : transposeSpelling s al o iv.quality iv.number iv.up with
  | none => simp [hk, ht] at hf
  | some r =>
    refine ⟨s, al, o, rs, p, r, hc, ht, ?_⟩
    rw [hk, ht]
    rfl

/-- validity of the argument: what the score holds are parts, a note belongs to one part and is listed once, step
    names are step names -/
structure ValidArg (h : Heap) (root : Nat) : Prop where
  parts : ∀ p ∈ partsOf h root, ∃ os, h[p]? = some (Cell.part os)
  once : (visited h root).Nodup
  steps : ∀ a ∈ visited h root, ∀ s al o rs p, h[a]? = some (Cell.note s al o rs p) → s ∈ C16.steps7

/-- **`transpose` does not raise** on a valid argument and a valid simple interval -/
theorem transpose_total {h : Heap} {root : Nat} {iv : Interval} (v : ValidArg h root)
    (hiv : (iv.quality, iv.number) ∈ C16.classPairs) : (transpose h root iv).isSome := by
  unfold transpose deepcopy
  simp only [Option.isSome_map]
  apply foldl_parts_total
  · rw [partsOf_copy, targets_copy]
    exact List.Pairwise.map _ (fun x y (hxy : x ≠ y) => by show x + h.length ≠ y + h.length; omega) v.once
  · rw [partsOf_copy]
    intro p hp
    obtain ⟨q, hq, rfl⟩ := List.mem_map.mp hp
    obtain ⟨os, hos⟩ := v.parts q hq
    exact ⟨os.map (· + h.length), by rw [copy_hi, hos]; rfl⟩
  · rw [partsOf_copy, targets_copy]
    intro a ha
    obtain ⟨b, hb, rfl⟩ := List.mem_map.mp ha
    obtain ⟨s, al, o, rs, p, hc⟩ := visited_is_note hb
    obtain ⟨s', al', o', sz, ht, -⟩ := C16.note_moved s (v.steps b hb s al o rs p hc) _ hiv al o iv.up
    rw [copy_hi, hc]
    simp [Cell.shift, Cell.transposed, ht]

/-- **the property, end to end**: on a valid argument every pitched note of the result — tied or not — sounds the
    interval's semitones higher (lower) and stands number − 1 staff steps higher (lower) than the argument's note,
    and keeps its references and payload -/
theorem every_note_moved {h h' : Heap} {root r' : Nat} {iv : Interval}
    (e : transpose h root iv = some (h', r')) (v : ValidArg h root)
    (hiv : (iv.quality, iv.number) ∈ C16.classPairs) (a : Nat) (ha : a ∈ visited h root) :
    ∃ s al o rs p s' al' o' sz m d, h[a]? = some (Cell.note s al o rs p) ∧
      h'[a + h.length]? = some (Cell.note s' al' o' (rs.map (· + h.length)) p) ∧
      intervalSemitones iv.quality iv.number = some sz ∧
      spellingToMidi s al o = some m ∧
      spellingToMidi s' al' o' = some (if iv.up then m + sz else m - sz) ∧
      C16.staffPos s o = some d ∧
      C16.staffPos s' o' = some (if iv.up then d + ((iv.number : Int) - 1) else d - ((iv.number : Int) - 1)) := by
  obtain ⟨s, al, o, rs, p, r, hc, ht, hr⟩ := every_note_transposed e v.once a ha
  obtain ⟨s', al', o', sz, ht', -, hz, ⟨m, hm, hm'⟩, ⟨d, hd, hd'⟩⟩ :=
    C16.note_moved s (v.steps a ha s al o rs p hc) _ hiv al o iv.up
  rw [ht] at ht'
  cases ht'
  exact ⟨s, al, o, rs, p, s', al', o', sz, m, d, hc, hr, hz, hm, hm', hd, hd'⟩

/-- **up and then down (down and then up) restores the original spelling**, on whole scores: transposing the result
    back gives a third score whose notes have the argument's step and octave and the argument's alteration as a
    number (`None` counts as 0), with the argument's references (to the second copies) and payload -/
theorem up_then_down_restores {h h' h'' : Heap} {root r' r'' : Nat} {q : String} {n : Nat} {up : Bool}
    (e1 : transpose h root ⟨q, n, up⟩ = some (h', r')) (e2 : transpose h' r' ⟨q, n, !up⟩ = some (h'', r''))
    (v : ValidArg h root) (hiv : (q, n) ∈ C16.classPairs) (a : Nat) (ha : a ∈ visited h root) :
    ∃ s al o rs p al'', h[a]? = some (Cell.note s al o rs p) ∧
      h''[a + h.length + h'.length]? =
        some (Cell.note s al'' o ((rs.map (· + h.length)).map (· + h'.length)) p) ∧
      al''.getD 0 = al.getD 0 := by
  obtain ⟨s, al, o, rs, p, r, hc, ht, hr⟩ := every_note_transposed e1 v.once a ha
  have hv := targets_result e1
  have nd2 : (visited h' r').Nodup := by
    show (targets h' (partsOf h' r')).Nodup
    rw [hv]
    exact List.Pairwise.map _ (fun x y (hxy : x ≠ y) => by show x + h.length ≠ y + h.length; omega) v.once
  have ha2 : a + h.length ∈ visited h' r' := by
    show _ ∈ targets h' (partsOf h' r')
    rw [hv]
    exact List.mem_map.mpr ⟨a, ha, rfl⟩
  obtain ⟨s1, al1, o1, rs1, p1, r2, hc2, ht2, hr2⟩ := every_note_transposed e2 nd2 _ ha2
  rw [hr] at hc2
  simp only [Option.some.injEq, Cell.note.injEq] at hc2
  obtain ⟨rfl, rfl, rfl, rfl, rfl⟩ := hc2
  obtain ⟨s', al', o', al'', hu, hd, hal⟩ :=
    C16.note_up_down s (v.steps a ha s al o rs p hc) (q, n) hiv al o up
  simp only at ht ht2 hu hd
  rw [hu] at ht
  cases ht
  rw [hd] at ht2
  cases ht2
  exact ⟨s, al, o, rs, p, al'', hc, hr2, hal⟩

/-- non-vacuity, the witness of the round-5 seed: a part (cell 0) with G♯4 (cell 1) tied to A♭4 (cell 2) and a rest;
    a major second up gives A♯4 and B♭4 (not A♯4 twice), ties lead to the copies, the argument is untouched -/
def demo : Heap :=
  [.part [1, 2, 3], .note "G" (some 1) 4 [2] [0, 4], .note "A" (some (-1)) 4 [1] [4, 8], .other [] [8, 12]]

example : transpose demo 0 ⟨"M", 2, true⟩ = some (demo ++
    [.part [5, 6, 7], .note "A" (some 1) 4 [6] [0, 4], .note "B" (some (-1)) 4 [5] [4, 8], .other [] [8, 12]], 4) := by
  decide +kernel

example : ValidArg demo 0 :=
  ⟨by
    intro p hp
    have : partsOf demo 0 = [0] := by decide +kernel
    rw [this] at hp
    obtain rfl : p = 0 := by simpa using hp
    exact ⟨[1, 2, 3], rfl⟩, by decide +kernel, by
    intro a ha s al o rs p hc
    have : a = 1 ∨ a = 2 := by
      have : visited demo 0 = [1, 2] := by decide +kernel
      rw [this] at ha
      simpa using ha
    rcases this with rfl | rfl <;> (simp [demo] at hc; simp [hc.1, C16.steps7])⟩

/-! ## Round 6: no side condition on how often a note is listed; arguments that are neither Score nor Part -/

/-- **what `transpose` does to EVERY object of ANY argument** (no hypothesis at all): the copy of the object at `a`
    is `_transpose_note_inplace` applied to it as often as the loops list it (`iterT`: 0 times = an exact copy —
    rests, measures, notes outside the argument's parts; once = the property; a part listed twice in one score is
    one object after `deepcopy` and its notes are moved TWICE).  `unvisited_copied` and `every_note_transposed` are
    the cases 0 and 1. -/
theorem transposed_as_often_as_listed {h h' : Heap} {root r' : Nat} {iv : Interval}
    (e : transpose h root iv = some (h', r')) (a : Nat) :
    h'[a + h.length]? =
      (h[a]?.bind (iterT iv ((visited h root).count a))).map (Cell.shift h.length) :=
  transpose_count e a

/-- a step name stays a step name under `_transpose_note_inplace` -/
def StepNote (c : Cell) : Prop := ∃ s al o rs p, c = Cell.note s al o rs p ∧ s ∈ C16.steps7

theorem stepNote_transposed {iv : Interval} (hiv : (iv.quality, iv.number) ∈ C16.classPairs) (c : Cell)
    (g : StepNote c) : ∃ c', Cell.transposed iv c = some c' ∧ StepNote c' := by
  obtain ⟨s, al, o, rs, p, rfl, hs⟩ := g
  obtain ⟨s', al', o', sz, ht, hs', -⟩ := C16.note_moved s hs _ hiv al o iv.up
  exact ⟨Cell.note s' al' o' rs p, by simp [Cell.transposed, ht], s', al', o', rs, p, rfl, hs'⟩

/-- **`transpose` does not raise, however often a note is listed** (`ValidArg.once` is not needed for totality):
    what the score holds are parts, step names are step names, the interval is one of the 39 classes -/
theorem transpose_total_listed_anyhow {h : Heap} {root : Nat} {iv : Interval}
    (parts : ∀ p ∈ partsOf h root, ∃ os, h[p]? = some (Cell.part os))
    (steps : ∀ a ∈ visited h root, ∀ s al o rs p, h[a]? = some (Cell.note s al o rs p) → s ∈ C16.steps7)
    (hiv : (iv.quality, iv.number) ∈ C16.classPairs) : (transpose h root iv).isSome := by
  unfold transpose deepcopy
  simp only [Option.isSome_map]
  apply foldl_parts_good iv StepNote (stepNote_transposed hiv) ((visited h root).map (· + h.length))
  · rw [partsOf_copy]
    intro p hp
    obtain ⟨q, hq, rfl⟩ := List.mem_map.mp hp
    obtain ⟨os, hos⟩ := parts q hq
    exact ⟨os.map (· + h.length), by rw [copy_hi, hos]; rfl⟩
  · rw [partsOf_copy, targets_copy]
    exact fun a ha => ha
  · intro a ha
    obtain ⟨b, hb, rfl⟩ := List.mem_map.mp ha
    obtain ⟨s, al, o, rs, p, hc⟩ := visited_is_note hb
    refine ⟨_, by rw [copy_hi, hc]; rfl, s, al, o, rs.map (· + h.length), p, rfl, steps b hb s al o rs p hc⟩

/-- **an argument that is neither a Score nor a Part** (the last branch of the dispatch: a Note, a list, …) comes
    back as an untransposed deep copy; with `argument_untouched` the argument is left alone here too -/
theorem other_argument_copied {h : Heap} {root : Nat} {iv : Interval}
    (hs : ∀ ps, h[root]? ≠ some (Cell.score ps)) (hp : ∀ os, h[root]? ≠ some (Cell.part os)) :
    transpose h root iv = some (deepcopy h root) := by
  have h0 : partsOf h root = [] := by
    unfold partsOf listedParts
    cases hc : h[root]? with
    | none => rfl
    | some c =>
      cases c with
      | score ps => exact absurd hc (hs ps)
      | part os => exact absurd hc (hp os)
      | note s a o rs p => rfl
      | other rs p => rfl
  unfold transpose
  simp only [deepcopy, partsOf_copy, h0, List.map_nil, List.foldlM_nil, Option.pure_def, Option.map_some]

/-- an interval that moves no note (it has no size: `Interval.semitones` raises) makes the whole call raise — unless
    the argument's parts hold no pitched note at all, in which case the result is the plain deep copy -/
theorem sizeless_interval {h h' : Heap} {root r' : Nat} {iv : Interval}
    (hN : ∀ c, Cell.transposed iv c = none) (e : transpose h root iv = some (h', r')) :
    visited h root = [] ∧ (h', r') = deepcopy h root := by
  unfold transpose at e
  simp only [Option.map_eq_some_iff] at e
  obtain ⟨h2, e2, he⟩ := e
  obtain ⟨ht, rfl⟩ := foldl_parts_none iv hN _ _ _ e2
  simp only [deepcopy] at ht
  rw [partsOf_copy, targets_copy, List.map_eq_nil_iff] at ht
  exact ⟨ht, he.symm⟩

/-- **every listed part is reached, and reached once** (fix F-C16-6): the outer loop runs over exactly the parts
    the argument lists, each object one time however often the score lists it -/
theorem parts_reached_once (h : Heap) (root : Nat) :
    (partsOf h root).Nodup ∧ ∀ p, p ∈ partsOf h root ↔ p ∈ listedParts h root := by
  refine ⟨nodup_uniqueParts _ _, fun p => ?_⟩
  unfold partsOf
  rw [mem_uniqueParts]
  simp

/-- non-vacuity, the witness of F-C16-6: one part listed twice in a score — its note moves by ONE major second
    (the unrepaired code moved it twice, to E) -/
example : transpose [.score [1, 1], .part [2], .note "C" none 4 [] [0, 4]] 0 ⟨"M", 2, true⟩ =
    some ([.score [1, 1], .part [2], .note "C" none 4 [] [0, 4],
           .score [4, 4], .part [5], .note "D" (some 0) 4 [] [0, 4]], 3) := by decide +kernel

/-- a note that two different parts hold (possible only by bypassing `Part.add`) is still moved once per part:
    `transposed_as_often_as_listed` with count 2; this is what `ValidArg.once` excludes -/
example : transpose [.score [1, 2], .part [3], .part [3], .note "C" none 4 [] [0, 4]] 0 ⟨"M", 2, true⟩ =
    some ([.score [1, 2], .part [3], .part [3], .note "C" none 4 [] [0, 4],
           .score [5, 6], .part [7], .part [7], .note "E" (some 0) 4 [] [0, 4]], 4) := by decide +kernel

example : iterT ⟨"M", 2, true⟩ 2 (.note "C" none 4 [] [0, 4]) = some (.note "E" (some 0) 4 [] [0, 4]) := by
  decide +kernel

/-- … and a Note as argument: copied, not moved -/
example : transpose [.note "C" none 4 [1] [0, 4], .note "C" none 4 [0] [4, 8]] 0 ⟨"M", 2, true⟩ =
    some ([.note "C" none 4 [1] [0, 4], .note "C" none 4 [0] [4, 8],
           .note "C" none 4 [3] [0, 4], .note "C" none 4 [2] [4, 8]], 2) := by decide +kernel

/-! ## Round 6: the argument is not modified — also when the call raises -/

/-- `transposeRun` (the loops run to the first note that raises, heap kept) is `transpose` with the heap forgotten
    on a raise: the theorems about `transpose` speak about the run the driver answers with -/
theorem run_is_transpose (h : Heap) (root : Nat) (iv : Interval) :
    transpose h root iv = (transposeRun h root iv).2.map fun r => ((transposeRun h root iv).1, r) :=
  transposeRun_agrees h root iv

/-- **the argument itself is not modified — whatever happens**: the call returns, or raises at any note of any part
    (an interval without a size, a step that is no step name, a part list holding something that is no part): every
    cell the argument could reach is exactly what it was.  No hypothesis on heap, root or interval. -/
theorem argument_untouched_even_if_raised (h : Heap) (root : Nat) (iv : Interval) :
    ∀ a, a < h.length → (transposeRun h root iv).1[a]? = h[a]? :=
  fun a ha => transposeRun_frame h root iv a ha

/-- non-vacuity: the second note has a step that is no step name — the call raises after the first note was moved
    in the copy; the argument (cells 0..2) is intact -/
example : transposeRun [.part [1, 2], .note "C" none 4 [] [0, 4], .note "H" none 4 [] [4, 8]] 0 ⟨"M", 2, true⟩ =
    ([.part [1, 2], .note "C" none 4 [] [0, 4], .note "H" none 4 [] [4, 8],
      .part [4, 5], .note "D" (some 0) 4 [] [0, 4], .note "H" none 4 [] [4, 8]], none) := by decide +kernel

end C16Heap
