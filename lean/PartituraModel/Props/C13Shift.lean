/-
C13, round 5 — the round trip under `remove_silence`, a time margin and `end_time`.

`decode_encode` (Props/C13.lean) is stated for the options under which the decoder reads the times back exactly
(no margin, silence kept, no end time).  The other options move every note by ONE common shift — frame 0 is the
first onset when silence is removed, the leading margin is `int(time_margin * time_div)` frames — and append empty
columns; the decoder cannot know the shift, everything else it recovers: `decode_encode_shift`.
-/
import PartituraModel.Props.C13
import PartituraModel.Proofs.C13Shift

namespace C13
open Model Model.PianoRoll
open List

/-- **round trip, any `remove_silence` / non-negative `time_margin` / `end_time` / `piano_range`**: turning the roll
    of non-touching notes that are grid-aligned relative to frame 0 back into a note array recovers every pitch,
    duration and velocity, and every onset moved by the one shift `int(time_margin * time_div) / time_div - min_time`
    (`min_time = t0Of`: `t0_spec`) -/
theorem decode_encode_shift (o : Opts) (notes : List Note) (r : Roll) (ho : ShiftOpts o)
    (h : makePianoroll o notes = some r) (hg : ∀ n ∈ notes, GridAlignedAt o (t0Of o notes) n)
    (hv : ∀ n ∈ notes, 0 < n.vel) (hnt : NonTouching notes)
    (hpr : o.pianoRange = true → ∀ n ∈ notes, 21 ≤ n.pitch ∧ n.pitch ≤ 108) :
    ∃ out, decode r.rows.toNat r.toCols (o.timeDiv : Rat) = some out ∧
      out ~ notes.map (fun n =>
        (n.pitch, n.onset + (((marginFrames o : Int) : Rat) / (o.timeDiv : Rat) - t0Of o notes), n.dur, n.vel)) := by
  obtain ⟨out, h1, h2⟩ := decode_encode_shift_aux o notes r ho h hg hv hnt hpr
  refine ⟨out, h1, h2.trans (Perm.of_eq ?_)⟩
  apply map_congr_left
  intro n hn
  have := (shift_frames ho (hg n hn)).2.2.2
  simp only [shiftNote] at this
  rw [this]

/-- without margin, with silence kept and no negative onset the shift is 0: `decode_encode` is the special case -/
theorem shift_zero (o : Opts) (notes : List Note) (ho : RoundTripOpts o) (hne : notes ≠ [])
    (hg : ∀ n ∈ notes, GridAligned o n) :
    ShiftOpts o ∧ (∀ n ∈ notes, GridAlignedAt o (t0Of o notes) n) ∧
    ((marginFrames o : Int) : Rat) / (o.timeDiv : Rat) - t0Of o notes = 0 := by
  have ht0 := t0_zero ho hne hg
  refine ⟨⟨ho.td_pos, ho.oo, ho.ns, ho.pm, by rw [ho.tm], ho.bi⟩, ?_, ?_⟩
  · intro n hn
    obtain ⟨k, d, hd, hk, hdur⟩ := hg n hn
    exact ⟨k, d, hd, by rw [ht0, sub_zero]; exact hk, hdur⟩
  · rw [ht0]
    unfold marginFrames
    rw [ho.tm, zero_mul, truncRat_zero]
    simp

def shOpts : Opts := { exOpts with removeSilence := true, timeMargin := 3 / 4, endTime := some 6 }
/-- first onset 1/2 (frame 0 after the one-frame margin `int(3/4 * 2)`), a gap between the two notes of pitch 60 -/
def shNotes : List Note := [⟨60, 2, 1, 10⟩, ⟨62, 1/2, 3, 90⟩, ⟨60, 1/2, 1, 50⟩]

example : ShiftOpts shOpts := ⟨by decide, rfl, rfl, rfl, by decide +kernel, rfl⟩
example : t0Of shOpts shNotes = 1 / 2 ∧ marginFrames shOpts = 1 := by decide +kernel
example : ∀ n ∈ shNotes, GridAlignedAt shOpts (t0Of shOpts shNotes) n := by
  intro n hn
  simp only [shNotes, mem_cons, not_mem_nil, or_false] at hn
  rcases hn with rfl | rfl | rfl
  · exact ⟨3, 2, by decide, by decide +kernel, by decide +kernel⟩
  · exact ⟨0, 6, by decide, by decide +kernel, by decide +kernel⟩
  · exact ⟨0, 2, by decide, by decide +kernel, by decide +kernel⟩
/-- 13 columns (end time 6 is frame 11, plus the trailing 3/2 frames rounded up); here the one margin frame and the
    removed silence of 1/2 cancel: every onset comes back as it was -/
example : (makePianoroll shOpts shNotes).bind (fun r => (decode r.rows.toNat r.toCols 2).map (fun l => (r.cols, l)))
    = some (13, [(60, 1/2, 1, 50), (62, 1/2, 3, 90), (60, 2, 1, 10)]) := by decide +kernel
/-- with `time_margin = 2` every onset comes back 4/2 - 1/2 = 3/2 later -/
example : (makePianoroll { shOpts with timeMargin := 2 } shNotes).bind (fun r => decode r.rows.toNat r.toCols 2)
    = some [(60, 2, 1, 50), (62, 2, 3, 90), (60, 7/2, 1, 10)] := by decide +kernel

end C13
