/-
C19 — "the loader picks the reader from the file extension": `partitura.io.load_score`.
Model: `Model/LoadDispatch.lean` (posixpath.splitext, lower-casing, the if / elif chain as a table that is
regenerated from the source and compared on every run; the choice itself is compared on generated paths).
-/
import PartituraModel.Proofs.C19Dispatch

namespace C19
open Model Model.LoadDispatch

/-- every supported extension, in any letter case, after any directory and any file stem, picks the documented
    reader: for every row (extension, reader) of the table, every `dir`, every `stem` without `/` that is not made
    of dots only, and every spelling `v` of the extension (no dot, no slash, lower-casing to the row's extension) -/
theorem load_score_dispatch (row : String × Reader) (hrow : row ∈ table) (dir stem v : List Char)
    (hv : String.ofList ('.' :: lowerChars v) = row.1) (hvc : ∀ c ∈ v, c ≠ '.' ∧ c ≠ '/')
    (hs : ∀ c ∈ stem, c ≠ '/') (hstem : stem.any (· ≠ '.') = true) :
    dispatch (dir ++ '/' :: (stem ++ '.' :: v)) = some row.2 := by
  have hl : lowerChars ('.' :: v) = '.' :: lowerChars v := rfl
  simp only [dispatch, C19D.extOf_spec dir stem v hvc hs hstem, hl, hv]
  exact C19D.table_lookup row hrow

/-- a reader is picked exactly when the lower-cased extension is a row of the table, and then it is that row's
    reader: every other extension is rejected (`NotSupportedFormatError`) -/
theorem load_score_dispatch_only (path : List Char) (r : Reader) :
    dispatch path = some r ↔ (String.ofList (lowerChars (extOf path)), r) ∈ table := by
  constructor
  · intro h
    exact C19D.lookup_mem _ _ _ h
  · intro h
    exact C19D.table_lookup _ h

/-- a file name without extension (no dot in the last path component, or only leading dots) is rejected -/
theorem load_score_no_extension (path : List Char) (h : extOf path = []) : dispatch path = none := by
  simp only [dispatch, h, lowerChars, List.map_nil]
  decide

/-- the documented assignment (whole finite table): MusicXML, MIDI, MEI, Kern, MuseScore formats, match files -/
theorem load_score_table :
    (table.filter (·.2 = .musicxml)).map (·.1) = [".mxl", ".xml", ".musicxml"] ∧
    (table.filter (·.2 = .midi)).map (·.1) = [".midi", ".mid"] ∧
    (table.filter (·.2 = .mei)).map (·.1) = [".mei"] ∧
    (table.filter (·.2 = .kern)).map (·.1) = [".kern", ".krn"] ∧
    (table.filter (·.2 = .matchfile)).map (·.1) = [".match"] ∧
    (table.filter (·.2 = .musescore)).length = 21 := by
  decide

example : dispatch "/data/op.1/Sonata.No.2.KRN".toList = some .kern := by decide +kernel
example : dispatch "scores/.hidden/piece.Mei".toList = some .mei := by decide +kernel
example : dispatch "/tmp/piece.humdrum".toList = none := by decide +kernel
example : dispatch "/tmp/.krn".toList = none := by decide +kernel          -- a hidden file called ".krn" has no extension
example : dispatch "/tmp/dir.krn/piece".toList = none := by decide +kernel  -- the dot belongs to the directory

end C19
