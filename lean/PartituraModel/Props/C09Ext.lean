/-
C09, round 2 — the layout level (what `add_segments` builds for SYMBOLIC boundary times), note-id suffixes,
brackets carrying several numbers.

`mkSegments` = add_segments, `getPaths` = get_paths, `variant` = create_variant_part, `suffixIds` =
update_note_ids_after_unfolding (Model/Unfold.lean).  Helper lemmas: Proofs/C09Table (the boundary table in
closed form), C09LayoutChain, C09LayoutVolta, C09Sort, C09VoltaN, C09Ids.
-/
import PartituraModel.Props.C09
import PartituraModel.Proofs.C09LayoutChain
import PartituraModel.Proofs.C09LayoutVolta
import PartituraModel.Proofs.C09LayoutRep
import PartituraModel.Proofs.C09Nav

namespace C09
open Model.Unfold

/-! ## r pairwise disjoint simple repeats -/

/-- Layout level, symbolic times.  Boundary times `t0 < t1 < … < tn` (ANY strictly increasing integers), section
`[t_i, t_{i+1})` carries a repeat iff `flags[i]`, nothing else in the part (two neighbouring sections without a
repeat would have no boundary between them, hence `NoAdjFalse`): `add_segments` builds exactly the chain table
in which the repeated sections offer `[themselves, next]` and the others `[next]`; the first segment is a leap
destination iff it starts at time 0. -/
theorem simple_repeats_layout (t0 : Int) (rest : List Int) (flags : List Bool)
    (hs : StrictSorted (t0 :: rest)) (hlen : rest.length = flags.length) (hne : flags ≠ [])
    (hadj : NoAdjFalse flags) :
    mkSegments (chainLayout t0 rest flags) =
      some (chainGraph flags (chainTys (t0 :: rest)) ((t0 :: rest).zip rest)) :=
  chain_mkSegments t0 rest flags hs hlen hne hadj

/-- … hence, for the segment graph the code builds from any such part: 2^r variants, the maximal unfolding
plays every repeated section twice, the minimal one every section once (any fuel ≥ 2n+1: the enumeration
terminates). -/
theorem simple_repeats_unfold (t0 : Int) (rest : List Int) (flags : List Bool)
    (hs : StrictSorted (t0 :: rest)) (hlen : rest.length = flags.length) (hne : flags ≠ [])
    (hadj : NoAdjFalse flags) (il : Bool) (fuel : Nat) (hf : 2 * flags.length + 1 ≤ fuel) :
    ((mkSegments (chainLayout t0 rest flags)).bind fun g => getPaths g false false il fuel) = some (allPaths 0 flags) ∧
    (allPaths 0 flags).length = 2 ^ (flags.count true) ∧
    ((mkSegments (chainLayout t0 rest flags)).bind fun g => getPaths g false true il fuel) = some [maxPath 0 flags] ∧
    ((mkSegments (chainLayout t0 rest flags)).bind fun g => getPaths g true false il fuel) = some [minPath 0 flags] := by
  rw [simple_repeats_layout t0 rest flags hs hlen hne hadj]
  have hty : ∀ t ∈ chainTys (t0 :: rest), t ≠ SegType.leapStart := by
    intro t ht
    simp only [chainTys, List.mem_map] at ht
    obtain ⟨x, _, rfl⟩ := ht
    split <;> simp
  obtain ⟨⟨ps, h1, h2, h3⟩, h4, h5⟩ := simple_repeats flags (chainTys (t0 :: rest)) ((t0 :: rest).zip rest) hty il fuel hf hne
  subst h3
  exact ⟨h1, h2, h4, h5⟩

-- non-vacuity: sections [0,4) [4,12) [12,16), the first and the last repeated
example :
    ((mkSegments (chainLayout 0 [4, 12, 16] [true, false, true])).bind fun g => getPaths g false false true 7) =
      some [[0, 0, 1, 2, 2], [0, 0, 1, 2], [0, 1, 2, 2], [0, 1, 2]] := by
  have := (simple_repeats_unfold 0 [4, 12, 16] [true, false, true]
    ⟨by decide, by decide, by decide, trivial⟩ rfl (by simp)
    (by intro j h
        rcases j with _ | _ | _ | j <;> simp at h ⊢) true 7 (by simp)).1
  rw [this]; rfl

/-! ## note ids -/

/-- Ids on request (`update_ids`), FULL statement: in the unfolded part of a part whose notes have unique ids, the
copy `c` of note `o` made in visit number `c.visit` (0-based position in the path) gets the suffix `-k` where
`k` = 1 + the number of EARLIER visits whose segment contains `o`, i.e. the k-th copy of a note along the path gets
`-k`; nothing else of the copy changes.  (Offsets are the running sums and segments have positive length, as
`offsets_are_prefix_sums` provides.) -/
theorem ids_suffixed (p : APart) (vs : List Visit) (hoff : OffsetsOK 0 vs) (hpos : ∀ v ∈ vs, v.s < v.e)
    (huniq : UniqueNoteIds p.objs) (pos : Nat) (c : OObj) (hc : (variant p vs).objs[pos]? = some c)
    (hk : c.kind = .note) (s : String) (hn : c.nid = some s) :
    ∃ (o : Obj) (c' : OObj), p.objs[c.orig]? = some o ∧ (suffixIds (variant p vs).objs)[pos]? = some c' ∧
      c'.nid = some (s ++ "-" ++ toString (1 + ((vs.take c.visit).filter fun v => inWin v o).length)) ∧
      c'.orig = c.orig ∧ c'.visit = c.visit ∧ c'.kind = c.kind ∧ c'.start = c.start ∧ c'.stp = c.stp ∧
      c'.payload = c.payload ∧ c'.refs = c.refs := by
  have hc' : (variantObjs p.objs 0 vs [])[pos]? = some c := hc
  obtain ⟨o, ho, hrank⟩ := idRank_eq p.objs vs hoff hpos huniq pos c hc' hk (by rw [hn]; simp)
  have he : (enum 0 (variant p vs).objs)[pos]? = some (pos, c) := by
    rw [enum_get, hc]; simp
  obtain ⟨c', h1, h2, h3, h4, h5, h6, h7, h8, h9⟩ := ids_suffixed_rank (variant p vs).objs pos c he
  refine ⟨o, c', ho, h1, ?_, h2, h3, h4, h5, h6, h7, h8⟩
  rw [h9, hk, hn]
  show some (s ++ "-" ++ toString (idRank (variantObjs p.objs 0 vs []) pos c)) = _
  rw [hrank]

/-- … and in terms of the path: when the segments are the (disjoint) ones `add_segments` builds and note `o` lies
in segment `j`, the number is 1 + the number of occurrences of `j` among the first `c.visit` elements of the path. -/
theorem ids_suffixed_visit_number (g : List Seg) (path : List Nat) (vs : List Visit) (hvs : visitsOf g path = some vs)
    (hdis : DisjointSegs g) (o : Obj) (j : Nat) (sg : Seg) (hj : g[j]? = some sg)
    (hin : sg.start ≤ o.start ∧ o.start < sg.stp) (K : Nat) :
    ((vs.take K).filter fun v => inWin v o).length = (path.take K).count j :=
  win_count g hdis o j sg hj hin (path.take K) 0 (vs.take K) (visitsFrom_take g path 0 vs K hvs)

-- non-vacuity: path A-B-B, the note of B: its two copies get -1 and -2
example :
    let p : APart := { points := [0, 4, 8], qd := [(0, 1)], objs :=
      [{ kind := .note, start := 0, stp := some 4, payload := [60, 1, 1], nid := some "a", refs := [] },
       { kind := .note, start := 4, stp := some 8, payload := [62, 1, 1], nid := some "b", refs := [] }] }
    ((suffixIds (variant p [⟨0, 4, 0⟩, ⟨4, 8, 4⟩, ⟨4, 8, 8⟩]).objs).map (·.nid)) =
      [some "a-1", some "b-1", some "b-2"] := by decide

/-! ## one repeat with k brackets carrying the numbers 1..N -/

/-- Graph level, EVERY k and N, any assignment `asg` of the numbers to the brackets (`asg[n]` = bracket carrying
number n+1; one number per bracket, several consecutive ones, or interleaved like "1,3" / "2,4"): on the table
in which the section offers the brackets in the order of the numbers and a bracket sends back to the section once
per number it carries except for the last number of all (after which it goes on), the maximal unfolding is
"section, bracket of number 1, section, bracket of number 2, …, section, bracket of number N" and the minimal one
"section, bracket of number N"; fuel 2N+4 suffices. -/
theorem voltas_numbers (pre post : Bool) (k : Nat) (asg : List Nat) (hasg : ∀ x ∈ asg, x < k)
    (last : Nat) (hlast : asg.getLast? = some last) (tys : Nat → SegType) (tms : Nat → Int × Int)
    (hty : ∀ i, tys i ≠ SegType.leapStart) (il : Bool) (fuel : Nat) (hf : 2 * asg.length + 4 ≤ fuel) :
    getPaths (mvGraph pre k post asg tys tms) false true il fuel = some [mvMaxPath pre k post asg] ∧
    getPaths (mvGraph pre k post asg tys tms) true false il fuel = some [mvMinPath pre k post last] :=
  mv_paths_aux pre k post asg tys tms il hty hasg last hlast fuel hf

/-- pass n (0-based) of that maximal path: the section, then the bracket that carries number n+1 -/
theorem voltas_numbers_pass_order (pre : Bool) (asg : List Nat) (n j : Nat) (h : asg[n]? = some j) :
    (mvPasses (vBody pre) asg)[2 * n]? = some (vBody pre) ∧
    (mvPasses (vBody pre) asg)[2 * n + 1]? = some (vBody pre + 1 + j) :=
  mvPasses_get (vBody pre) asg n j h

-- non-vacuity: brackets "1,3" and "2,4" after one bar of lead-in
example : getPaths (mvGraph true 2 false [0, 1, 0, 1] (fun _ => .dflt) (fun _ => (0, 0))) false true true 12 =
    some [[0, 1, 2, 1, 3, 1, 2, 1, 3]] := by decide

/-- Layout level, symbolic times.  Boundary times `ts` strictly increasing = [start of a lead-in] ++ [a] ++
[v_0, …, v_k] ++ [end of the music after the group]; the section is `[a, v_0)`, bracket j is `[v_j, v_{j+1})` and
carries (in increasing order) the numbers n+1 with `asg[n] = j`; a repeat `(a, v_{j+1})` after every bracket but the
last (after the only one when k = 1).  Every bracket carries a number, the last number is on the last bracket, at
most 9 numbers (one decimal digit, the model's domain), a ≥ 0.  Then `add_segments` builds exactly `mvGraph`. -/
theorem voltas_numbers_layout (pre post : Bool) (k : Nat) (asg : List Nat) (ts : List Int)
    (hs : StrictSorted ts) (hlen : ts.length = vLen pre k post + 1) (hk : 1 ≤ k) (hk10 : k ≤ 10)
    (hasg : ∀ x ∈ asg, x < k) (hN9 : asg.length ≤ 9) (hlast : asg.getLast? = some (k - 1))
    (hsurj : ∀ j, j < k → j ∈ asg) (ha : 0 ≤ ts.getD (vBody pre) 0) :
    mkSegments (mvLayout pre k post asg ts) =
      some (mvGraph pre k post asg (tyAt ts) (fun i => (ts.getD i 0, ts.getD (i + 1) 0))) :=
  mv_mkSegments pre k post asg ts hs hlen hk hk10 hasg hN9 hlast hsurj ha

/-- … hence for the segment graph the code builds from such a part: the maximal unfolding plays the section once
per number, taking on pass n the bracket that carries number n; the minimal one plays it once with the last
bracket. -/
theorem voltas_numbers_unfold (pre post : Bool) (k : Nat) (asg : List Nat) (ts : List Int)
    (hs : StrictSorted ts) (hlen : ts.length = vLen pre k post + 1) (hk : 1 ≤ k) (hk10 : k ≤ 10)
    (hasg : ∀ x ∈ asg, x < k) (hN9 : asg.length ≤ 9) (hlast : asg.getLast? = some (k - 1))
    (hsurj : ∀ j, j < k → j ∈ asg) (ha : 0 ≤ ts.getD (vBody pre) 0) (il : Bool) (fuel : Nat)
    (hf : 2 * asg.length + 4 ≤ fuel) :
    ((mkSegments (mvLayout pre k post asg ts)).bind fun g => getPaths g false true il fuel) = some [mvMaxPath pre k post asg] ∧
    ((mkSegments (mvLayout pre k post asg ts)).bind fun g => getPaths g true false il fuel) =
      some [mvMinPath pre k post (k - 1)] := by
  rw [voltas_numbers_layout pre post k asg ts hs hlen hk hk10 hasg hN9 hlast hsurj ha]
  exact voltas_numbers pre post k asg hasg (k - 1) hlast _ _ (tyAt_ne ts) il fuel hf

/-- One number per bracket (endings 1..k, k ≤ 9): the layout is the one with the numbers `[j+1]` on bracket j, and
`add_segments` builds `voltaGraph` — the table `voltas` and `voltas_pass_order` speak about. -/
theorem voltas_layout (pre post : Bool) (k : Nat) (ts : List Int)
    (hs : StrictSorted ts) (hlen : ts.length = vLen pre k post + 1) (hk : 1 ≤ k) (hk9 : k ≤ 9)
    (ha : 0 ≤ ts.getD (vBody pre) 0) :
    (mvLayout pre k post (List.range k) ts).endings =
      ((List.range k).map fun j => (ts.getD (vBody pre + 1 + j) 0, ts.getD (vBody pre + 2 + j) 0, [j + 1])) ∧
    mkSegments (mvLayout pre k post (List.range k) ts) =
      some (voltaGraph pre k post (tyAt ts) (fun i => (ts.getD i 0, ts.getD (i + 1) 0))) := by
  constructor
  · unfold mvLayout
    apply List.map_congr_left
    intro j hj
    rw [numsOf_range k j (by simpa using hj)]
  · rw [← mvGraph_range pre k post _ _ hk]
    apply voltas_numbers_layout pre post k (List.range k) ts hs hlen hk (by omega)
      (by intro x hx; simpa using hx) (by simp; omega)
      (by obtain ⟨k', rfl⟩ : ∃ k', k = k' + 1 := ⟨k - 1, by omega⟩
          simp [List.range_succ])
      (by intro j hj; simpa using hj) ha

-- non-vacuity: lead-in [0,4), section [4,12), brackets [12,16) "1,3" and [16,20) "2,4", rest [20,24)
example :
    ((mkSegments (mvLayout true 2 true [0, 1, 0, 1] [0, 4, 12, 16, 20, 24])).bind fun g => getPaths g false true true 12) =
      some [[0, 1, 2, 1, 3, 1, 2, 1, 3, 4]] := by
  have := (voltas_numbers_unfold true true 2 [0, 1, 0, 1] [0, 4, 12, 16, 20, 24]
    ⟨by decide, by decide, by decide, by decide, by decide, trivial⟩ rfl (by decide) (by decide)
    (by decide) (by decide) rfl (by decide) (by decide) true 12 (by decide)).1
  rw [this]; rfl

/-! ## termination of the enumeration -/

/-- The class: every segment offers its successor (END for the last one), preceded by at most one destination
that is not ahead; no awaiting destinations, no leap start.  On every such table the enumeration terminates in
all three modes (all variants, maximal, minimal), with fuel 2^(n+1).  Measure: Σ over the segments from the
current one on of (backward jump not yet consumed in this round)·(2^(i+1) − 1) + 1 — a forward step drops the
current segment's term, a backward jump from i to j ≤ i consumes the term of i, which outweighs the terms of
j..i−1 it brings back. -/
theorem enumeration_terminates (g : List Seg) (hg : RepForm g) (hne : g ≠ []) (nr ar il : Bool) :
    ∃ ps, getPaths g nr ar il (2 ^ (g.length + 1)) = some ps :=
  repForm_terminates g hg hne nr ar il

/-- Every part whose only structure is repeats — ANY number, nested, disjoint, sharing an end, … (each inside the
part and of positive length) — gets a table of that class from `add_segments` (which does not raise), so the
enumeration terminates without exhausting the fuel. -/
theorem repeats_terminate (L : Layout) (hL : RepeatsOnly L) (nr ar il : Bool) :
    ∃ g ps, mkSegments L = some g ∧ RepForm g ∧ getPaths g nr ar il (2 ^ (g.length + 1)) = some ps := by
  obtain ⟨g, h1, h2, h3⟩ := repeats_repForm L hL
  obtain ⟨ps, h4⟩ := repForm_terminates g h3 h2 nr ar il
  exact ⟨g, ps, h1, h3, h4⟩

-- non-vacuity: a repeat nested in another one
example : RepeatsOnly { first := 0, last := 16, repeats := [(0, 16), (4, 12)] } ∧
    ((mkSegments { first := 0, last := 16, repeats := [(0, 16), (4, 12)] }).bind fun g => getPaths g false true true 16) =
      some [[0, 1, 1, 2, 0, 1, 1, 2]] := by
  refine ⟨⟨rfl, rfl, rfl, rfl, rfl, rfl, rfl, by decide, ?_⟩, by decide⟩
  intro r hr
  simp only [List.mem_cons, List.not_mem_nil, or_false] at hr
  rcases hr with rfl | rfl <;> decide

/-- Outside the class the enumeration need not terminate.  Hand-made table (it is the one `add_segments` built,
before the repair fixes/C09-6, for a da capo in the MIDDLE of a part that starts at time 0, likewise for a dal
segno to a segno at the start): `A.to = [B, A]` with `A` a leap destination but not a leap start.  The minimal
enumeration (which always takes the LAST destination) goes from A to A for ever — for every amount of fuel the
model fails (the code raised IndexError after 100 rounds, because it looks the last used destination up in
`destinations * 100`). -/
theorem enumeration_may_not_terminate (il : Bool) (fuel : Nat) :
    getPaths dcMidGraph true false il fuel = none :=
  dcMid_no_minimal il fuel

-- with the repaired order of destinations (the jump back first, the continuation after it) the part that
-- produced that table unfolds: minimal A-B, maximal A-A-B
example :
    ((mkSegments { first := 0, last := 12, dacapos := [4] }).bind fun g => getPaths g true false true 10) = some [[0, 1]] ∧
    ((mkSegments { first := 0, last := 12, dacapos := [4] }).bind fun g => getPaths g false true true 10) = some [[0, 0, 1]] := by
  decide

/-! ## navigation marks: the standard forms over symbolic times (repaired behaviour, fixes/C09-6, C09-7) -/

/-- The enumeration looks only at destinations, awaiting destinations and types: erasing the times of a segment
table does not change the paths. -/
theorem paths_independent_of_times (g : List Seg) (nr ar il : Bool) (fuel : Nat) :
    getPaths (eraseTimes g) nr ar il fuel = getPaths g nr ar il fuel :=
  getPaths_erase g nr ar il fuel

/-- D.C. al Fine: Fine at `f`, Da Capo at the end `e` of a part that starts at 0, any `0 < f < e`: the maximal
unfolding is "all, then from the start to the Fine", the minimal one plays everything once. -/
theorem dacapo_al_fine (f e : Int) (h0 : 0 < f) (hfe : f < e) (il : Bool) :
    ((mkSegments (dcFineLayout f e)).bind fun g => getPaths g false true il 8) = some [[0, 1, 0]] ∧
    ((mkSegments (dcFineLayout f e)).bind fun g => getPaths g true false il 8) = some [[0, 1]] := by
  rw [dcFine_mkSegments f e h0 hfe]
  exact dcFine_paths f e il

/-- D.C. al Coda: To Coda at `a`, Da Capo and Coda at `b`, any `0 < a < b < e`: maximal "up to the Da Capo, from the
start to To Coda, coda" (A-B-A-C), minimal straight through (A-B-C); exactly these two variants. -/
theorem dacapo_al_coda (a b e : Int) (h0 : 0 < a) (hab : a < b) (hbe : b < e) (il : Bool) :
    ((mkSegments (dcCodaLayout a b e)).bind fun g => getPaths g false true il 8) = some [[0, 1, 0, 2]] ∧
    ((mkSegments (dcCodaLayout a b e)).bind fun g => getPaths g true false il 8) = some [[0, 1, 2]] ∧
    ((mkSegments (dcCodaLayout a b e)).bind fun g => getPaths g false false il 8) = some [[0, 1, 0, 2], [0, 1, 2]] := by
  rw [dcCoda_mkSegments a b e h0 hab hbe]
  exact dcCoda_paths a b e il

/-- D.S. al Coda: Segno at `s`, To Coda at `a`, Dal Segno and Coda at `b`, any `0 < s < a < b < e`: maximal
"up to the Dal Segno, from the sign to To Coda, coda" (A-B-C-B-D), minimal straight through. -/
theorem dalsegno_al_coda (s a b e : Int) (h0 : 0 < s) (hsa : s < a) (hab : a < b) (hbe : b < e) (il : Bool) :
    ((mkSegments (dsCodaLayout s a b e)).bind fun g => getPaths g false true il 10) = some [[0, 1, 2, 1, 3]] ∧
    ((mkSegments (dsCodaLayout s a b e)).bind fun g => getPaths g true false il 10) = some [[0, 1, 2, 3]] := by
  rw [dsCoda_mkSegments s a b e h0 hsa hab hbe]
  exact dsCoda_paths s a b e il

-- non-vacuity
example : ((mkSegments (dsCodaLayout 4 12 16 24)).bind fun g => getPaths g false true true 10) = some [[0, 1, 2, 1, 3]] :=
  (dalsegno_al_coda 4 12 16 24 (by decide) (by decide) (by decide) (by decide) true).1

end C09
