/-
C18 — round 6: the FORMS of an alignment (Model/CodecAl.lean).  Until now the model read an alignment as triples with
string ids; the code receives dicts — entries without `label`, matches without `score_id` / `performance_id`, ids that
are integers or `None` — and `to_matched_score` rewrites the caller's list in place.

* `plain_alignment`        on an alignment with string ids the new functions ARE the old ones (`toMatchedScore`,
                           `matchedNotes` when every match has both keys — a match without one is a `KeyError`, which the
                           old `matchedNotes` could not say) and the list is left as it was: every theorem about the old
                           model speaks about the code path for such alignments
* `matched_score_any_form` `to_matched_score` on ANY alignment = the old function on the alignment read through `flatS`
                           (score id through `str`, performance id only if a string); an unlabelled entry raises
* `matched_table_any_form` the matched-table clause of the property for any form: the rows are a rearrangement, ordered
                           by (onset_div, pitch), of exactly the matches whose `str(score_id)` names a score note and
                           whose performance id is the string id of a performance note
* `alignment_rewritten`    what the in-place rewriting does: same length, labels and performance ids untouched, the
                           score id of a match replaced by its `str` (up to the first entry that raises), nothing else;
                           `rewriting_completes` says when the loop runs to the end
* `rewriting_idempotent`, `matched_score_twice`   a second `to_matched_score` with the list the first one left behind
                           returns the same table and leaves the list alone
* `matched_notes_any_form` `get_matched_notes` on any alignment: a `KeyError` iff a key it reads is missing, else the old
                           function on the alignment read through `flatP` (performance id through `str`, score id only
                           if a string) — the two functions normalise OPPOSITE sides (`id_sides_differ`)
* `matched_notes_after_matched_score`   the rewriting is visible to a later `get_matched_notes` on the same list, but
                           only by ADDING pairs (`rewriting_adds_a_pair`: strictly, for an integer score id)
-/
import PartituraModel.Props.C18
import PartituraModel.Proofs.C18Al

namespace C18
open Model Model.Codec C18P

/-- alignments with string ids: the model of the earlier rounds is exact, and nothing is rewritten -/
theorem plain_alignment (ss : List SRow) (ps : List PRow) (al : List ARow) :
    toMatchedScoreA ss ps (al.map ofARow) = (toMatchedScore ss ps al, al.map ofARow)
    ∧ matchedNotesA ss ps (al.map ofARow)
        = if (al.map ofARow).all keysOk then some (matchedNotes ss ps al) else none := by
  constructor
  · apply Prod.ext
    · rw [toMatchedScoreA_fst ss ps _ (by intro a ha; obtain ⟨b, _, rfl⟩ := List.mem_map.mp ha; rfl)]
      simp [List.map_map, Function.comp_def, flatS_ofARow]
    · rw [toMatchedScoreA_snd, normaliseIds_ofARow]
  · rw [matchedNotesA_flatP]
    simp [List.map_map, Function.comp_def, flatP_ofARow]

theorem matched_score_any_form (ss : List SRow) (ps : List PRow) (al : List AEntry) :
    ((∀ a ∈ al, a.label.isSome) → (toMatchedScoreA ss ps al).1 = toMatchedScore ss ps (al.map flatS))
    ∧ ((∃ a ∈ al, a.label = none) → (toMatchedScoreA ss ps al).1 = none) :=
  ⟨toMatchedScoreA_fst ss ps al, toMatchedScoreA_unlabelled ss ps al⟩

/-- the matched-table clause for an alignment of any form -/
theorem matched_table_any_form (ss : List SRow) (ps : List PRow) (al : List AEntry) (rows : List MRow)
    (h : (toMatchedScoreA ss ps al).1 = some rows) :
    ∃ pairs : List (Nat × Nat),
      (∀ i j, (i, j) ∈ pairs ↔ ∃ a ∈ al, a.label = some "match" ∧ ∃ v p, a.sid = some v ∧ a.pid = some (.str p) ∧
          sIndex ss (pyStr v) = some i ∧ pIndex ps p = some j) ∧
      pairs.Pairwise (fun a b => lexLe (sKey ss a.1) (sKey ss b.1) = true) ∧
      List.Forall₂ (fun ij r => mkRow ss ps ij = some r) pairs rows := by
  have hlab : ∀ a ∈ al, a.label.isSome := by
    by_contra hc
    push Not at hc
    obtain ⟨a, ha, hn⟩ := hc
    have : a.label = none := by cases hx : a.label with | none => rfl | some l => rw [hx] at hn; simp at hn
    rw [toMatchedScoreA_unlabelled ss ps al ⟨a, ha, this⟩] at h
    cases h
  rw [toMatchedScoreA_fst ss ps al hlab] at h
  obtain ⟨pairs, hperm, hsorted, hrows⟩ := matched_table ss ps (al.map flatS) rows h
  refine ⟨pairs, ?_, hsorted, hrows⟩
  intro i j
  rw [hperm.mem_iff, matched_notes]
  constructor
  · rintro ⟨b, hb, hm, s, p, hs, hp, hi, hj⟩
    obtain ⟨a, ha, rfl⟩ := List.mem_map.mp hb
    obtain ⟨l, hl⟩ := Option.isSome_iff_exists.mp (hlab a ha)
    refine ⟨a, ha, ?_, ?_⟩
    · simp only [flatS, hl, Option.getD_some] at hm
      rw [hl, hm]
    · cases hv : a.sid with
      | none => simp [flatS, hv] at hs
      | some v =>
        cases hq : a.pid with
        | none => simp [flatS, hq] at hp
        | some pv =>
          cases pv with
          | str p' =>
            simp only [flatS, hv, hq, Option.map_some, Option.some.injEq] at hs hp
            subst hs; subst hp
            exact ⟨v, p', rfl, rfl, hi, hj⟩
          | int n => simp [flatS, hq] at hp
          | none => simp [flatS, hq] at hp
  · rintro ⟨a, ha, hl, v, p, hv, hq, hi, hj⟩
    exact ⟨flatS a, List.mem_map.mpr ⟨a, ha, rfl⟩, by simp [flatS, hl], pyStr v, p, by simp [flatS, hv],
      by simp [flatS, hq], hi, hj⟩

/-- the alignment as `to_matched_score` leaves it -/
theorem alignment_rewritten (ss : List SRow) (ps : List PRow) (al : List AEntry) :
    (toMatchedScoreA ss ps al).2.length = al.length ∧
    List.Forall₂ (fun a b => b.label = a.label ∧ b.pid = a.pid ∧
      (b.sid = a.sid ∨ (a.label = some "match" ∧ ∃ v, a.sid = some v ∧ b.sid = some (.str (pyStr v)))))
      al (toMatchedScoreA ss ps al).2 := by
  rw [toMatchedScoreA_snd]
  exact ⟨normaliseIds_length al, normaliseIds_spec al⟩

theorem rewriting_completes (al : List AEntry) :
    (normaliseIds al).2 = true ↔ ∀ a ∈ al, ∃ l, a.label = some l ∧ (l = "match" → a.sid.isSome) :=
  normaliseIds_ok_iff al

theorem rewriting_idempotent (al : List AEntry) : normaliseIds (normaliseIds al).1 = normaliseIds al :=
  normaliseIds_idem al

/-- calling `to_matched_score` again with the list the first call left behind: same table, list unchanged -/
theorem matched_score_twice (ss : List SRow) (ps : List PRow) (al : List AEntry) :
    toMatchedScoreA ss ps (toMatchedScoreA ss ps al).2 = toMatchedScoreA ss ps al := by
  rw [toMatchedScoreA_snd]
  unfold toMatchedScoreA
  rw [normaliseIds_idem]

theorem matched_notes_any_form (ss : List SRow) (ps : List PRow) (al : List AEntry) :
    matchedNotesA ss ps al = if al.all keysOk then some (matchedNotes ss ps (al.map flatP)) else none :=
  matchedNotesA_flatP ss ps al

theorem matched_notes_after_matched_score (ss : List SRow) (ps : List PRow) (al : List AEntry) (l : List (Nat × Nat))
    (h : matchedNotesA ss ps al = some l) :
    ∃ l', matchedNotesA ss ps (toMatchedScoreA ss ps al).2 = some l' ∧ l.Sublist l' := by
  rw [toMatchedScoreA_snd]
  exact matchedNotesA_after ss ps al l h

-- ------------------------------------------------------------------ witnesses

def alScore : List SRow := [⟨"1", 0, 60, 0, 1⟩, ⟨"n2", 1, 62, 1, 1⟩, ⟨"3", 2, 64, 2, 1⟩]
def alPerf : List PRow := [⟨"7", 1/2, 1/2, 60⟩, ⟨"p2", 1, 1/2, 70⟩, ⟨"9", 3/2, 1/2, 80⟩]

/-- an integer score id: `to_matched_score` pairs it and rewrites the list, `get_matched_notes` finds nothing before
    and the pair after -/
theorem rewriting_adds_a_pair :
    let al : List AEntry := [⟨some "match", some (.int 1), some (.str "7")⟩]
    (toMatchedScoreA alScore alPerf al).1.map (·.map (·.sidx)) = some [0]
    ∧ (toMatchedScoreA alScore alPerf al).2 = [⟨some "match", some (.str "1"), some (.str "7")⟩]
    ∧ matchedNotesA alScore alPerf al = some []
    ∧ matchedNotesA alScore alPerf (toMatchedScoreA alScore alPerf al).2 = some [(0, 0)] := by
  decide +kernel

/-- the two functions normalise opposite sides: an integer PERFORMANCE id is a `KeyError` in `to_matched_score` (after
    the list has been rewritten) and a pair for `get_matched_notes` -/
theorem id_sides_differ :
    let al : List AEntry := [⟨some "match", some (.int 1), some (.int 7)⟩]
    toMatchedScoreA alScore alPerf al = (none, [⟨some "match", some (.str "1"), some (.int 7)⟩])
    ∧ matchedNotesA alScore alPerf al = some []
    ∧ matchedNotesA alScore alPerf [⟨some "match", some (.str "1"), some (.int 7)⟩] = some [(0, 0)] := by
  decide +kernel

/-- missing keys: an unlabelled entry stops the rewriting where it stands; a match without `performance_id` is skipped
    by `to_matched_score` when its score id is unknown, but raises in `get_matched_notes` -/
example :
    toMatchedScoreA alScore alPerf
        [⟨some "match", some (.int 3), some (.str "9")⟩, ⟨none, none, none⟩, ⟨some "match", some (.int 1), none⟩]
      = (none, [⟨some "match", some (.str "3"), some (.str "9")⟩, ⟨none, none, none⟩, ⟨some "match", some (.int 1), none⟩])
    ∧ (toMatchedScoreA alScore alPerf [⟨some "match", some (.str "zz"), none⟩]).1 = some []
    ∧ matchedNotesA alScore alPerf [⟨some "match", some (.str "zz"), none⟩] = none := by
  decide +kernel

end C18
