/-
C03 — pages and systems: what `_handle_print` makes of ANY sequence of `<print>` elements, in closed form (the numbering state
machine `readPrints` of Model/XmlBar.lean was compared with the importer only; `print_roundtrip` in Props/C03Bar.lean is about
one element).
-/
import PartituraModel.Proofs.C03Prints

namespace C03
open Model Model.XmlBar C03.Prints

/-- **prints_read.**  For every sequence of `<print>` elements (each with the start of its measure and its two flags, in
    document order; any positions, repeated or not): the pages of the loaded part are exactly one page at 0 and one per
    `new-page` at a position other than 0; the systems one at 0, one per `new-page` and one per `new-system` at a position
    other than 0 (an element with both flags makes two systems there — the importer as it is); `stackFrom none` (latest
    first) numbers them 1, 2, 3 … in the order they were made, ends each where the next one starts and leaves the last one
    open. -/
theorem prints_read (ps : List (Nat × (Bool × Bool))) :
    readPrints ps = { pages := stackFrom none ((ps.flatMap pageNews).reverse ++ [0]),
                      systems := stackFrom none ((ps.flatMap systemNews).reverse ++ [0]) } :=
  readPrints_closed ps

/-- **pages_numbered.**  Read off the closed form: in the order they were made the pages carry the numbers 1 … n, start at 0
    and at the positions of the `new-page` elements, and each ends where its successor starts (the last one has no end). -/
theorem pages_numbered (ps : List (Nat × (Bool × Bool))) :
    ((readPrints ps).pages.map (·.number)).reverse = List.range' 1 ((ps.flatMap pageNews).length + 1) ∧
    ((readPrints ps).pages.map (·.start)).reverse = 0 :: ps.flatMap pageNews ∧
    ((readPrints ps).pages.map (·.stop)).reverse = (ps.flatMap pageNews).map some ++ [none] := by
  rw [prints_read]
  refine ⟨?_, ?_, ?_⟩
  · simp [stackFrom_numbers]
  · simp [stackFrom_starts]
  · simp only [stackFrom_stops]
    generalize ps.flatMap pageNews = l
    have h1 : (none :: (l.reverse ++ [0]).map some) = (none :: l.reverse.map some) ++ [some 0] := by simp
    have h2 : ((none :: l.reverse.map some) ++ [some 0]).take (l.reverse ++ [0]).length = none :: l.reverse.map some :=
      List.take_left' (by simp)
    rw [h1, h2]
    simp

/-- **systems_numbered.**  The same for systems. -/
theorem systems_numbered (ps : List (Nat × (Bool × Bool))) :
    ((readPrints ps).systems.map (·.number)).reverse = List.range' 1 ((ps.flatMap systemNews).length + 1) ∧
    ((readPrints ps).systems.map (·.start)).reverse = 0 :: ps.flatMap systemNews := by
  rw [prints_read]
  exact ⟨by simp [stackFrom_numbers], by simp [stackFrom_starts]⟩

/-- a part whose first measure says `new-page new-system` (ignored at 0), with a system break at 16 and a page break with
    system break at 32: two pages, and FOUR systems — two of them at 32 -/
example : readPrints [(0, true, true), (16, false, true), (32, true, true)] =
    { pages := [⟨2, 32, none⟩, ⟨1, 0, some 32⟩],
      systems := [⟨4, 32, none⟩, ⟨3, 32, some 32⟩, ⟨2, 16, some 32⟩, ⟨1, 0, some 16⟩] } := by decide

end C03
