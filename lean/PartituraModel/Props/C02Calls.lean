/-
C02 (round 3) — `quarter_duration_map` after ANY call history of `set_quarter_duration`.

The calls may come in any order of times, repeat a time, repeat a value that is already in force, return to an
earlier value.  Specification (it never mentions the stored lists): **the quarter duration in force at x is the
value of the last call among the recorded calls with the greatest time ≤ x** (`inForce`,
`inForce_is_last_of_greatest`), where a call is recorded unless its time has no recorded call yet and its value
is the one in force just before its time (`Recorded` — "add quarter duration at time t, unless it is redundant",
decided on the earlier recorded calls alone).

* `table_represents_recorded`: for EVERY history of calls at non-negative times the stored lists the list surgery
  leaves (`qdTable`) represent exactly that function, and `table_times_recorded`: their change times are exactly
  the times of the recorded calls;
* `table_represents_all_calls_ascending`: when the calls come in non-decreasing order of time (all importers)
  no call needs to be set aside: the function is "last call among ALL calls with the greatest time ≤ x";
* `table_represents_all_calls_of_recorded`: the same for any order as long as no call is dropped;
* `all_calls_reading_fails_unordered`: for an unordered history with a dropped call the all-calls reading is
  NOT what the code does (witness `Part(quarter_duration=4)`, `set(16, 4)`, `set(8, 6)`: 6 at 20, not 4);
* `hrun_qd` / `built_qd_represents`: the calls may be interleaved with any other edits and with map queries.
-/
import PartituraModel.Props.C02History
import PartituraModel.Proofs.C02Calls

namespace C02
open Model.TimeMap C02Proofs

/-! ### the specification is what its name says -/

/-- **"the value of the last call among those with the greatest time ≤ x"**: `inForce calls x = some v` exactly
when the history splits at a call `(T, v)` with `T ≤ x` such that every EARLIER call at or before `x` has a time
`≤ T` and every LATER call at or before `x` has a time `< T`. -/
theorem inForce_is_last_of_greatest (calls : List (Int × Nat)) (x : Rat) (v : Nat) :
    inForce calls x = some v ↔
      ∃ (pre : List (Int × Nat)) (T : Int) (post : List (Int × Nat)), calls = pre ++ (T, v) :: post ∧ (T : Rat) ≤ x ∧
        (∀ c ∈ pre, (c.1 : Rat) ≤ x → c.1 ≤ T) ∧ (∀ c ∈ post, (c.1 : Rat) ≤ x → c.1 < T) := by
  unfold inForce
  constructor
  · intro h
    cases hb : inForceR calls.reverse x with
    | none => rw [hb] at h; cases h
    | some b =>
      rw [hb] at h
      simp only [Option.map_some, Option.some.injEq] at h
      obtain ⟨_, hbx, hmax⟩ := (inForceR_spec x _).2 b hb
      obtain ⟨pre, post, hl, hpre⟩ := inForceR_first x _ b hb
      have hc : calls = post.reverse ++ b :: pre.reverse := by
        have := congrArg List.reverse hl
        simpa using this
      have hbv : b = (b.1, v) := by rw [← h]
      refine ⟨post.reverse, b.1, pre.reverse, by rw [← hbv]; exact hc, hbx, fun c hc' hcx => ?_, fun c hc' hcx => ?_⟩
      · apply hmax c _ hcx
        rw [hl]
        exact List.mem_append_right _ (List.mem_cons_of_mem _ (List.mem_reverse.mp hc'))
      · have h1 : c ∈ calls.reverse := by
          rw [hl]; exact List.mem_append_left _ (List.mem_reverse.mp hc')
        have h2 := hmax c h1 hcx
        have h3 := hpre c (List.mem_reverse.mp hc')
        omega
  · rintro ⟨pre, T, post, hc, hT, hpre, hpost⟩
    have hr : calls.reverse = post.reverse ++ (T, v) :: pre.reverse := by
      rw [hc]; simp
    rw [hr, inForceR_of_split x (T, v) pre.reverse hT
      (fun c hc' hcx => hpre c (List.mem_reverse.mp hc') hcx) post.reverse
      (fun c hc' hcx => hpost c (List.mem_reverse.mp hc') hcx)]
    rfl

/-- nothing is in force before the first call time -/
theorem inForce_none_iff (calls : List (Int × Nat)) (x : Rat) :
    inForce calls x = none ↔ ∀ c ∈ calls, ¬ ((c.1 : Rat) ≤ x) := by
  unfold inForce
  rw [Option.map_eq_none_iff, inForceR_none_iff]
  exact ⟨fun h c hc => h c (List.mem_reverse.mpr hc), fun h c hc => h c (List.mem_reverse.mp hc)⟩

/-! ### the stored lists represent the recorded calls -/

/-- the stored lists `tb` represent the recorded calls `kept` (most recent first) -/
structure Rep (tb kept : List (Int × Nat)) : Prop where
  head : ∃ a r, tb = (0, a) :: r
  sorted : (tb.map (·.1)).Pairwise (· < ·)
  times : ∀ t, t ∈ tb.map (·.1) ↔ t ∈ kept.map (·.1)
  value : ∀ x : Rat, 0 ≤ x → qdMap tb x = (inForceR kept x).map (·.2)

theorem rep_init (q0 : Nat) : Rep [(0, q0)] [(0, q0)] where
  head := ⟨q0, [], rfl⟩
  sorted := by simp
  times := fun t => Iff.rfl
  value := fun x hx => by
    have : ((0 : Int) : Rat) ≤ x := by exact_mod_cast hx
    simp only [qdMap, prevValue, inForceR, if_pos this, Option.map_some]

/-- the value after a recorded call, from `setQD_law` -/
theorem rep_value_step (a : Nat) (r kept : List (Int × Nat)) (t : Int) (q : Nat)
    (hs : (((0, a) :: r).map (·.1)).Pairwise (· < ·)) (ht : 0 ≤ t)
    (htimes : ∀ u, u ∈ ((0, a) :: r).map (·.1) ↔ u ∈ kept.map (·.1))
    (hval : ∀ x : Rat, 0 ≤ x → qdMap ((0, a) :: r) x = (inForceR kept x).map (·.2))
    (x : Rat) (hx : 0 ≤ x) :
    qdMap (setQD ((0, a) :: r) t q) x = (inForceR ((t, q) :: kept) x).map (·.2) := by
  have hx0 : ((0 : Int) : Rat) ≤ x := by exact_mod_cast hx
  rw [setQD_law 0 a r t q hs ht x hx0]
  cases hb : inForceR kept x with
  | none =>
    exfalso
    have h0 : (0 : Int) ∈ kept.map (·.1) := (htimes 0).mp (by simp)
    obtain ⟨c, hc, hc0⟩ := List.mem_map.mp h0
    apply (inForceR_spec x kept).1 hb c hc
    have hc0 : c.1 = 0 := hc0
    rw [hc0]; exact hx0
  | some b =>
    obtain ⟨hbm, hbx, hbmax⟩ := (inForceR_spec x kept).2 b hb
    have hiff : (∀ e ∈ (0, a) :: r, t < e.1 → x < (e.1 : Rat)) ↔ b.1 ≤ t := by
      constructor
      · intro h
        by_contra hlt
        have hb1 : b.1 ∈ ((0, a) :: r).map (·.1) := (htimes b.1).mpr (List.mem_map.mpr ⟨b, hbm, rfl⟩)
        obtain ⟨e, he, heb⟩ := List.mem_map.mp hb1
        have heb : e.1 = b.1 := heb
        have := h e he (by omega)
        rw [heb] at this
        linarith
      · intro h e he hlt
        by_contra hnl
        have hex : (e.1 : Rat) ≤ x := not_lt.mp hnl
        have he1 : e.1 ∈ kept.map (·.1) := (htimes e.1).mp (List.mem_map.mpr ⟨e, he, rfl⟩)
        obtain ⟨c, hc, hce⟩ := List.mem_map.mp he1
        have hce : c.1 = e.1 := hce
        have := hbmax c hc (by rw [hce]; exact hex)
        omega
    by_cases hc : (t : Rat) ≤ x ∧ b.1 ≤ t
    · rw [if_pos ⟨hc.1, hiff.mpr hc.2⟩]
      simp only [inForceR, hb, if_pos hc, Option.map_some]
    · have hn : ¬ ((t : Rat) ≤ x ∧ (∀ e ∈ (0, a) :: r, t < e.1 → x < (e.1 : Rat))) :=
        fun h => hc ⟨h.1, hiff.mp h.2⟩
      rw [if_neg hn, hval x hx]
      simp only [inForceR, hb, if_neg hc]

/-- **one call**: the representation is kept, the call being recorded or not as `Recorded` says -/
theorem rep_step (tb kept : List (Int × Nat)) (hr : Rep tb kept) (c : Int × Nat) (hc : 0 ≤ c.1) :
    Rep (setQD tb c.1 c.2) (if Recorded kept c then c :: kept else kept) := by
  obtain ⟨a, r, rfl⟩ := hr.head
  obtain ⟨t, q⟩ := c
  simp only at hc ⊢
  obtain ⟨hs1, hs2, hs3⟩ := setQDAux_struct t q ((0, a) :: r) none hr.sorted
  have hhead := setQD_head a r t q hc
  have hsorted : ((setQD ((0, a) :: r) t q).map (·.1)).Pairwise (· < ·) := setQDAux_pairwise t q _ none hr.sorted
  by_cases hmem : t ∈ ((0, a) :: r).map (·.1)
  · have hrec : Recorded kept (t, q) := Or.inl ((hr.times t).mp hmem)
    rw [if_pos hrec]
    refine ⟨hhead, hsorted, fun u => ?_, rep_value_step a r kept t q hr.sorted hc hr.times hr.value⟩
    have e : (setQD ((0, a) :: r) t q).map (·.1) = ((0, a) :: r).map (·.1) := hs1 hmem
    rw [e]
    simp only [List.map_cons (l := kept), List.mem_cons]
    constructor
    · intro h; exact Or.inr ((hr.times u).mp h)
    · rintro (h | h)
      · rw [h]; exact hmem
      · exact (hr.times u).mpr h
  · have h0 : 0 < t := by
      have : t ≠ 0 := by
        intro h; apply hmem; rw [h]; simp
      omega
    have hprev : prevOf none ((0, a) :: r) t = (inForceR kept ((t : Rat) - 1)).map (·.2) := by
      have hx : (0 : Rat) ≤ (t : Rat) - 1 := by
        have : ((0 : Int) : Rat) ≤ (t : Rat) - 1 := (cast_le_pred 0 t).mpr h0
        exact_mod_cast this
      rw [← hr.value _ hx]
      simp only [prevOf, if_pos h0, qdMap]
      exact prevOf_eq t r a
    by_cases hq : prevOf none ((0, a) :: r) t = some q
    · have hrec : ¬ Recorded kept (t, q) := by
        rintro (h | h)
        · exact hmem ((hr.times t).mpr h)
        · apply h; rw [← hprev]; exact hq
      rw [if_neg hrec]
      have e : setQD ((0, a) :: r) t q = (0, a) :: r := hs2 hmem hq
      rw [e]
      exact hr
    · have hrec : Recorded kept (t, q) := Or.inr (by rw [← hprev]; exact hq)
      rw [if_pos hrec]
      refine ⟨hhead, hsorted, fun u => ?_, rep_value_step a r kept t q hr.sorted hc hr.times hr.value⟩
      have e : u ∈ (setQD ((0, a) :: r) t q).map (·.1) ↔ u = t ∨ u ∈ ((0, a) :: r).map (·.1) := hs3 hmem hq u
      rw [e]
      simp only [List.map_cons (l := kept), List.mem_cons]
      rw [hr.times u]

/-- **every history** (induction over the calls) -/
theorem rep_run : ∀ (calls tb kept : List (Int × Nat)), Rep tb kept → (∀ c ∈ calls, 0 ≤ c.1) →
    Rep (qdTableFrom tb calls) (recordedAux kept calls)
  | [], _, _, hr, _ => hr
  | c :: rest, tb, kept, hr, hv => by
    have hstep := rep_step tb kept hr c (hv c List.mem_cons_self)
    have hrest : ∀ d ∈ rest, 0 ≤ d.1 := fun d hd => hv d (List.mem_cons_of_mem _ hd)
    show Rep (qdTableFrom (setQD tb c.1 c.2) rest) (recordedAux kept (c :: rest))
    by_cases hrec : Recorded kept c
    · rw [if_pos hrec] at hstep
      simp only [recordedAux, if_pos hrec]
      exact rep_run rest _ _ hstep hrest
    · rw [if_neg hrec] at hstep
      simp only [recordedAux, if_neg hrec]
      exact rep_run rest _ _ hstep hrest

/-- **The stored quarter lists represent the call history, whatever its order**: after
`Part(quarter_duration=q0)` and any calls `set_quarter_duration(t, q)` at non-negative times — ascending or
not, repeating times, repeating values that are in force, returning to earlier values — `quarter_duration_map`
at every position from 0 on is the value of the last recorded call among those with the greatest time ≤ x. -/
theorem table_represents_recorded (q0 : Nat) (calls : List (Int × Nat)) (hv : ∀ c ∈ calls, 0 ≤ c.1)
    (x : Rat) (hx : 0 ≤ x) : qdMap (qdTable q0 calls) x = inForce (recorded q0 calls) x := by
  unfold inForce recorded qdTable
  rw [List.reverse_reverse]
  exact (rep_run calls _ _ (rep_init q0) hv).value x hx

/-- the change times stored are exactly the times of the recorded calls (nothing lost, nothing invented) -/
theorem table_times_recorded (q0 : Nat) (calls : List (Int × Nat)) (hv : ∀ c ∈ calls, 0 ≤ c.1) (t : Int) :
    t ∈ (qdTable q0 calls).map (·.1) ↔ t ∈ (recorded q0 calls).map (·.1) := by
  unfold recorded qdTable
  rw [(rep_run calls _ _ (rep_init q0) hv).times t]
  simp only [List.map_reverse, List.mem_reverse]

/-- the lists stay strictly increasing and start at time 0 -/
theorem table_sorted (q0 : Nat) (calls : List (Int × Nat)) (hv : ∀ c ∈ calls, 0 ≤ c.1) :
    (∃ a r, qdTable q0 calls = (0, a) :: r) ∧ ((qdTable q0 calls).map (·.1)).Pairwise (· < ·) :=
  ⟨(rep_run calls _ _ (rep_init q0) hv).head, (rep_run calls _ _ (rep_init q0) hv).sorted⟩

/-- the seeded family: 4 | 8 | 4 stored, then a call at an earlier time whose value is already in force
(dropped), resp. a correction of an entry back to the value before it (kept): the later change at 64 survives -/
example : qdTable 4 [(32, 8), (64, 4), (16, 4)] = [(0, 4), (32, 8), (64, 4)] ∧
    qdTable 4 [(16, 6), (32, 8), (64, 4), (16, 4)] = [(0, 4), (16, 4), (32, 8), (64, 4)] ∧
    recorded 4 [(32, 8), (64, 4), (16, 4)] = [(0, 4), (32, 8), (64, 4)] ∧
    recorded 4 [(16, 6), (32, 8), (64, 4), (16, 4)] = [(0, 4), (16, 6), (32, 8), (64, 4), (16, 4)] ∧
    inForce (recorded 4 [(16, 6), (32, 8), (64, 4), (16, 4)]) 20 = some 4 ∧
    inForce (recorded 4 [(16, 6), (32, 8), (64, 4), (16, 4)]) 70 = some 4 ∧
    inForce (recorded 4 [(16, 6), (32, 8), (64, 4), (16, 4)]) 40 = some 8 := by
  decide +kernel

/-! ### when every call counts -/

/-- `tb` represents ALL calls `allR` (most recent first) -/
structure RepAll (tb allR : List (Int × Nat)) : Prop where
  head : ∃ a r, tb = (0, a) :: r
  sorted : (tb.map (·.1)).Pairwise (· < ·)
  sub : ∀ t ∈ tb.map (·.1), t ∈ allR.map (·.1)
  value : ∀ x : Rat, 0 ≤ x → qdMap tb x = (inForceR allR x).map (·.2)

theorem repAll_step (tb allR : List (Int × Nat)) (hr : RepAll tb allR) (c : Int × Nat) (hc : 0 ≤ c.1)
    (hmax : ∀ d ∈ allR, d.1 ≤ c.1) : RepAll (setQD tb c.1 c.2) (c :: allR) := by
  obtain ⟨a, r, rfl⟩ := hr.head
  obtain ⟨t, q⟩ := c
  refine ⟨setQD_head a r t q hc, setQDAux_pairwise t q _ none hr.sorted, fun u hu => ?_, fun x hx => ?_⟩
  · rcases setQDAux_times t q _ none u hu with h | h
    · rw [h]; simp
    · simp only [List.map_cons (l := allR), List.mem_cons]; exact Or.inr (hr.sub u h)
  · have hx0 : ((0 : Int) : Rat) ≤ x := by exact_mod_cast hx
    rw [setQD_law 0 a r t q hr.sorted hc x hx0]
    have hvac : ∀ e ∈ (0, a) :: r, t < e.1 → x < (e.1 : Rat) := by
      intro e he hlt
      have := hr.sub e.1 (List.mem_map.mpr ⟨e, he, rfl⟩)
      obtain ⟨d, hd, hde⟩ := List.mem_map.mp this
      have hde : d.1 = e.1 := hde
      have := hmax d hd
      omega
    cases hb : inForceR allR x with
    | none =>
      by_cases hc' : (t : Rat) ≤ x
      · rw [if_pos ⟨hc', hvac⟩]; simp only [inForceR, hb, if_pos hc', Option.map_some]
      · rw [if_neg (fun h => hc' h.1), hr.value x hx]
        simp only [inForceR, hb, if_neg hc']
    | some b =>
      obtain ⟨hbm, _, _⟩ := (inForceR_spec x allR).2 b hb
      have hbt := hmax b hbm
      by_cases hc' : (t : Rat) ≤ x
      · rw [if_pos ⟨hc', hvac⟩]; simp only [inForceR, hb, if_pos (And.intro hc' hbt), Option.map_some]
      · rw [if_neg (fun h => hc' h.1), hr.value x hx]
        simp only [inForceR, hb, if_neg (fun h : (t : Rat) ≤ x ∧ b.1 ≤ t => hc' h.1)]

theorem repAll_run : ∀ (calls tb allR : List (Int × Nat)), RepAll tb allR → (∀ c ∈ calls, 0 ≤ c.1) →
    (∀ c ∈ calls, ∀ d ∈ allR, d.1 ≤ c.1) → calls.Pairwise (fun a b => a.1 ≤ b.1) →
    RepAll (qdTableFrom tb calls) (calls.reverse ++ allR)
  | [], _, _, hr, _, _, _ => hr
  | c :: rest, tb, allR, hr, hv, hmax, hp => by
    have hp' := List.pairwise_cons.mp hp
    have hstep := repAll_step tb allR hr c (hv c List.mem_cons_self) (hmax c List.mem_cons_self)
    have := repAll_run rest _ _ hstep (fun d hd => hv d (List.mem_cons_of_mem _ hd))
      (fun d hd e he => by
        rcases List.mem_cons.mp he with he | he
        · rw [he]; exact hp'.1 d hd
        · exact hmax d (List.mem_cons_of_mem _ hd) e he) hp'.2
    show RepAll (qdTableFrom (setQD tb c.1 c.2) rest) ((c :: rest).reverse ++ allR)
    rw [List.reverse_cons, List.append_assoc]
    exact this

/-- **Ascending histories** (every importer; calls may repeat a time): no call has to be set aside — the quarter
duration in force at x is the value of the last call among ALL calls with the greatest time ≤ x. -/
theorem table_represents_all_calls_ascending (q0 : Nat) (calls : List (Int × Nat)) (hv : ∀ c ∈ calls, 0 ≤ c.1)
    (hasc : calls.Pairwise (fun a b => a.1 ≤ b.1)) (x : Rat) (hx : 0 ≤ x) :
    qdMap (qdTable q0 calls) x = inForce ((0, q0) :: calls) x := by
  have hr : RepAll [(0, q0)] [(0, q0)] :=
    ⟨⟨q0, [], rfl⟩, by simp, fun t ht => ht, (rep_init q0).value⟩
  have := repAll_run calls _ _ hr hv (fun c hc d hd => by
    simp only [List.mem_singleton] at hd
    rw [hd]; exact hv c hc) hasc
  unfold inForce qdTable
  rw [List.reverse_cons]
  exact this.value x hx

/-- the same in any order as long as every call is recorded -/
theorem table_represents_all_calls_of_recorded (q0 : Nat) (calls : List (Int × Nat)) (hv : ∀ c ∈ calls, 0 ≤ c.1)
    (hall : recorded q0 calls = (0, q0) :: calls) (x : Rat) (hx : 0 ≤ x) :
    qdMap (qdTable q0 calls) x = inForce ((0, q0) :: calls) x := by
  rw [table_represents_recorded q0 calls hv x hx, hall]

/-- non-vacuity: an unordered history with an overwrite in which every call is recorded; an ascending one with
a repeated time and a redundant value -/
example : recorded 4 [(32, 8), (16, 6), (32, 4), (8, 6)] = (0, 4) :: [(32, 8), (16, 6), (32, 4), (8, 6)] ∧
    [((8 : Int), (6 : Nat)), (16, 6), (16, 4), (32, 4)].Pairwise (fun a b => a.1 ≤ b.1) ∧
    qdTable 4 [(8, 6), (16, 6), (16, 4), (32, 4)] = [(0, 4), (8, 6), (16, 4)] := by
  decide +kernel

/-- **The all-calls reading fails for unordered histories**: `Part(quarter_duration=4)`, then
`set_quarter_duration(16, 4)` (already in force: not recorded), then `set_quarter_duration(8, 6)`.  The lists
are `[(0,4),(8,6)]`, so 6 is in force at 20 although the call with the greatest time ≤ 20 said 4. -/
theorem all_calls_reading_fails_unordered :
    qdMap (qdTable 4 [(16, 4), (8, 6)]) 20 = some 6 ∧ inForce ((0, 4) :: [(16, 4), (8, 6)]) 20 = some 4 ∧
    inForce (recorded 4 [(16, 4), (8, 6)]) 20 = some 6 := by
  decide +kernel

/-! ### the calls inside an edit / query history -/

theorem hrun_qd_from (h : List HOp) : ∀ (s : HState), (h.foldl hstep s).qd = qdTableFrom s.qd (qdCalls h) := by
  induction h with
  | nil => intro s; rfl
  | cons op rest ih =>
    intro s
    simp only [List.foldl_cons]
    rw [ih]
    cases op with
    | setQD t q => rfl
    | beat o => cases o <;> rfl
    | measure a e => rfl
    | span a e => rfl
    | query => rfl

/-- **the quarter lists of a part depend on the `set_quarter_duration` calls alone**, in their call order —
whatever signatures, measures, notes are added and whichever maps are read in between -/
theorem hrun_qd (q0 : Nat) (h : List HOp) : (buildPart q0 h).qd = qdTable q0 (qdCalls h) :=
  hrun_qd_from h (hinit q0)

theorem qdCalls_mem : ∀ (h : List HOp) (c : Int × Nat), c ∈ qdCalls h → HOp.setQD c.1 c.2 ∈ h
  | [], c, hc => by simp [qdCalls] at hc
  | op :: rest, c, hc => by
    cases op with
    | setQD t q =>
      simp only [qdCalls, List.mem_cons] at hc
      rcases hc with hc | hc
      · rw [hc]; exact List.mem_cons_self
      · exact List.mem_cons_of_mem _ (qdCalls_mem rest c hc)
    | beat o => exact List.mem_cons_of_mem _ (qdCalls_mem rest c (by simpa [qdCalls] using hc))
    | measure a e => exact List.mem_cons_of_mem _ (qdCalls_mem rest c (by simpa [qdCalls] using hc))
    | span a e => exact List.mem_cons_of_mem _ (qdCalls_mem rest c (by simpa [qdCalls] using hc))
    | query => exact List.mem_cons_of_mem _ (qdCalls_mem rest c (by simpa [qdCalls] using hc))

/-- **`quarter_duration_map` of every part reachable through the API** is the function its
`set_quarter_duration` calls specify, for every valid history (calls in any order, interleaved with any edits
and queries) -/
theorem built_qd_represents (q0 : Nat) (h : List HOp) (hv : ∀ op ∈ h, ValidOp op) (x : Rat) (hx : 0 ≤ x) :
    qdMap (buildPart q0 h).qd x = inForce (recorded q0 (qdCalls h)) x := by
  rw [hrun_qd]
  apply table_represents_recorded q0 _ _ x hx
  intro c hc
  have := hv _ (qdCalls_mem h c hc)
  exact this.1

example : qdCalls [.setQD 32 8, .query, .beat (.addTS 0 6 8), .setQD 64 4, .measure 0 4, .query, .setQD 16 4, .span 0 96] =
      [(32, 8), (64, 4), (16, 4)] ∧
    (buildPart 4 [.setQD 32 8, .query, .beat (.addTS 0 6 8), .setQD 64 4, .measure 0 4, .query, .setQD 16 4, .span 0 96]).qd =
      [(0, 4), (32, 8), (64, 4)] := by
  decide +kernel

end C02
