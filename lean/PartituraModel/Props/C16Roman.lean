/-
C16, last sentence: "the step/alteration arithmetic used for chord roots agrees with the same diatonic arithmetic".
Model: PartituraModel/Model/RomanRoot.lean (`RomanNumeral.find_root_note`), tables regenerated from the source.
-/
import PartituraModel.Model.LocalKey

namespace C16Roman
open Model Gen

/-- the regenerated degree tables are the scale degrees: read in a major key the upper-case degrees are the major
    scale, read in a minor key the natural minor scale; both tables know the same 21 degrees and agree on every
    degree that is not one of III, III+, VI, VII -/
theorem roman_tables_scale_degrees :
    (["I", "II", "III", "IV", "V", "VI", "VII"].map fun d => lookup d ROMAN_MAJ) =
      [some ("P", 1), some ("M", 2), some ("M", 3), some ("P", 4), some ("P", 5), some ("M", 6), some ("M", 7)] ∧
    (["I", "II", "III", "IV", "V", "VI", "VII"].map fun d => lookup d ROMAN_MIN) =
      [some ("P", 1), some ("M", 2), some ("m", 3), some ("P", 4), some ("P", 5), some ("m", 6), some ("m", 7)] ∧
    ROMAN_MAJ.map (·.1) = ROMAN_MIN.map (·.1) ∧ ROMAN_MAJ.length = 21 ∧
    (∀ e ∈ ROMAN_MAJ, e.1 ∈ ["III", "III+", "VI", "VII"] ∨ lookup e.1 ROMAN_MIN = some e.2) := by
  decide +kernel

def steps7 : List String := ["C", "D", "E", "F", "G", "A", "B"]

/-- key names: step letter (upper case = major, lower case = minor) and an optional accidental after it -/
def keyNames : List String :=
  (steps7 ++ steps7.map lower).flatMap fun s => [s, s ++ "#", s ++ "b"]

/-- the accidental of a key name is read AFTER its step letter: "b" is B minor (no flat), "bb" B flat minor -/
theorem key_name_parsed :
    ∀ k ∈ keyNames, keyStep k = k.toList.head? ∧
      keyAlter k = some (match k.toList.drop 1 with | ['#'] => 1 | ['b'] => -1 | _ => 0) := by
  decide +kernel

def pcOf (s : String) (a : Int) : Option Int := (lookup s BASE_PC).map fun b => (b + a) % 12
def idxOf (s : String) : Option Nat := lookup s STEPS_TO_INT

/-- one octave-free transposition moves the step by number − 1 places and the pitch class by the interval's size -/
def stepOK (s : String) (a : Int) (q : String) (n : Nat) : Bool :=
  match transposeNoteNoOctave s a q n, idxOf (upper s), pcOf (upper s) a, lookup (q ++ showNat n) INTERVAL_TO_SEMITONES with
  | some (s', a'), some i, some pc, some sz =>
    decide (idxOf s' = some ((i + n - 1) % 7)) && decide (pcOf s' a' = some ((pc + sz) % 12))
  | some _, _, _, _ => false
  | none, _, _, _ => true

theorem transposition_is_scale_arithmetic :
    ∀ s ∈ steps7 ++ steps7.map lower, ∀ a ∈ [(-2 : Int), -1, 0, 1, 2],
    ∀ e ∈ ROMAN_MAJ ++ ROMAN_MIN, stepOK s a e.2.1 e.2.2 = true := by
  decide +kernel

/-- **the mode of the local key selects the table for an upper-case secondary degree** (what the seeded change
    C16-h broke): wherever both are defined, the applied tonic of /III, /VI, /VII in the minor key lies on the same
    step as in the major key on the same tonic and one semitone lower -/
def modeOK (s acc sec : String) : Bool :=
  match appliedTonic (s ++ acc) sec, appliedTonic (lower s ++ acc) sec with
  | some (s1, a1), some (s2, a2) => decide (s1 = s2) && decide (a2 = a1 - 1)
  | _, _ => true

theorem secondary_degree_read_in_local_mode :
    ∀ s ∈ steps7, ∀ acc ∈ ["", "#", "b"], ∀ sec ∈ ["III", "III+", "VI", "VII"], modeOK s acc sec = true := by
  decide +kernel

/-- the root is two scale-arithmetic steps from the tonic: unfolding of the model (the code's two lookups and two
    transpositions), so that `transposition_is_scale_arithmetic` applies to each -/
theorem root_is_two_transpositions (lk p s : String) :
    romanRoot lk p s =
      (appliedTonic lk s).bind fun t =>
        (romanInterval (pyIsLower s) p).bind fun i => transposeNoteNoOctave t.1 t.2 i.1 i.2 := by
  unfold romanRoot
  cases appliedTonic lk s with
  | none => rfl
  | some t =>
    cases romanInterval (pyIsLower s) p with
    | none => rfl
    | some i => rfl

/-- non-vacuity: V/III in A minor is G (III of a minor is C), in A major G♯ (III is C♯); viio/VI in F♯ minor is
    C♯; V in B minor is F♯ (the key name "b" carries no flat) -/
example : romanRoot "a" "V" "III" = some ("G", 0) ∧ romanRoot "A" "V" "III" = some ("G", 1) ∧
    romanRoot "f#" "viio" "VI" = some ("C", 1) ∧ romanRoot "b" "V" "i" = some ("F", 1) ∧
    romanRoot "bb" "V" "i" = some ("F", 0) := by decide

/-! ## Round 5: the complete chord-root / local-key arithmetic (Model/LocalKey.lean) -/

def steps14 : List String := steps7 ++ steps7.map lower

/-- **partitura reads back the names it writes** (fix C16-4): a step letter followed by the accidental as INT_TO_ALT
    spells it ("-", "--", "#", "##") is parsed to that step and that alteration — for every step, both cases, the
    whole regenerated table -/
theorem key_name_roundtrip :
    ∀ s ∈ steps14, ∀ e ∈ INT_TO_ALT, keyStepAlter (s ++ e.2) = some (s, e.1) := by
  decide +kernel

/-- the key names the arithmetic is checked on: every step, both modes, written with "#", "b" or "-" -/
def keyNamesDash : List String :=
  steps14.flatMap fun s => [s, s ++ "#", s ++ "b", s ++ "-"]

/-- the local keys of DCML: the seven degrees in both cases, plain, lowered, raised -/
def localDegrees : List String :=
  (["i", "ii", "iii", "iv", "v", "vi", "vii"].flatMap fun d => [d, upper d]).flatMap fun d => [d, "b" ++ d, "#" ++ d]

def sharpsMinusFlats (loc : String) : Int := (countChar '#' loc : Int) - (countChar 'b' loc : Int)

/-- one `process_local_key` call against scale arithmetic: the new tonic stands (number − 1) steps above the old one
    and (size of the scale degree's interval + sharps − flats) semitones above it, the degree being read in the
    table of the mode of the global key -/
def localKeyOK (loc glob : String) : Bool :=
  match processLocalKey loc glob true with
  | some (.stepAlter s a) =>
    match keyStepAlter glob,
          lookup (lower (String.ofList (loc.toList.filter fun c => !(c = '#' || c = 'b'))))
            (if pyIsLower glob then DCML_MINOR else DCML_MAJOR) with
    | some (ks, ka), some (num, qual) =>
      match idxOf (upper ks), pcOf (upper ks) ka, lookup (qual ++ showNat num) INTERVAL_TO_SEMITONES with
      | some i, some pc, some sz =>
        decide (idxOf s = some ((i + num - 1) % 7)) &&
        decide (pcOf s a = some ((pc + sz + sharpsMinusFlats loc) % 12))
      | _, _, _ => false
    | _, _ => false
  | some (.name _) => false
  | none => true

theorem local_key_is_scale_arithmetic :
    ∀ glob ∈ keyNamesDash, ∀ loc ∈ localDegrees, localKeyOK loc glob = true := by
  decide +kernel

/-- the NAME `process_local_key` returns denotes the (step, alteration) it returns with `return_step_alter`, in
    the case of the local degree — also when the name is the global key handed back unchanged — so that a local
    key of a local key (the importer's "V/bIII") is computed from the right tonic (fix C16-4) -/
def localKeyNameOK (loc glob : String) : Bool :=
  match processLocalKey loc glob true, processLocalKey loc glob false with
  | some (.stepAlter s a), some (.name nm) =>
    decide ((keyStepAlter nm).map (fun x => (upper x.1, x.2)) = some (s, a)) &&
    decide (pyIsLower nm = pyIsLower (String.ofList (loc.toList.filter fun c => !(c = '#' || c = 'b'))))
  | none, none => true
  | _, _ => false

def namesOver (steps : List String) : List String := steps.flatMap fun s => [s, s ++ "#", s ++ "b", s ++ "-"]

theorem local_key_name_denotes_its_tonic_major :
    ∀ glob ∈ namesOver steps7, ∀ loc ∈ localDegrees, localKeyNameOK loc glob = true := by
  decide +kernel

theorem local_key_name_denotes_its_tonic_minor :
    ∀ glob ∈ namesOver (steps7.map lower), ∀ loc ∈ localDegrees, localKeyNameOK loc glob = true := by
  decide +kernel

/-- the regenerated root → bass intervals are chord tones: the third is minor for a lower-case numeral and major for
    an upper-case one, the fifth perfect, the seventh minor -/
theorem bass_intervals_table :
    BASS_INTERVALS = [((1, true), "m", 3), ((1, false), "M", 3), ((2, true), "P", 5), ((2, false), "P", 5),
      ((3, true), "m", 7), ((3, false), "m", 7)] := by decide +kernel

/-- every root name `find_root_note` can write: step (either case) + INT_TO_ALT accidental -/
def rootNames : List String := steps14.flatMap fun s => INT_TO_ALT.map fun e => s ++ e.2

/-- **the bass note is the chord tone above the root AS SPELLED** (fix C16-4: a root "B-" is B flat): its step lies
    number − 1 places above the root's, its pitch class the interval's size above the root's -/
def bassOK (root : String) (e : (Nat × Bool) × String × Nat) : Bool :=
  match findBassNote root e.1.1 (if e.1.2 then "i" else "I"), keyStepAlter root with
  | some bass, some (rs, ra) =>
    match keyStepAlter bass, idxOf (upper rs), pcOf (upper rs) ra, lookup (e.2.1 ++ showNat e.2.2) INTERVAL_TO_SEMITONES with
    | some (bs, ba), some i, some pc, some sz =>
      decide (idxOf bs = some ((i + e.2.2 - 1) % 7)) && decide (pcOf bs ba = some ((pc + sz) % 12))
    | _, _, _, _ => false
  | none, some _ => true      -- the bass would need a triple accidental: `transpose_note` refuses
  | _, none => false

theorem bass_is_chord_tone_above_spelled_root :
    ∀ root ∈ rootNames, ∀ e ∈ BASS_INTERVALS, bassOK root e = true := by
  decide +kernel

/-- **the fallback of `find_root_note` agrees with its tables** (fix C16-5): the chord on the lowered second degree,
    written "bII" (not in the tables: `process_local_key` path), has the root of the Neapolitan "N" (table path) in
    every key — also in keys whose tonic carries an accidental — up to the case of the letter -/
def neapolitanOK (lk sec : String) : Bool :=
  match findRootNote lk "bII" sec, findRootNote lk "N" sec with
  | some a, some b => decide (upper a = upper b)
  | none, none => true
  | _, _ => false

theorem fallback_root_agrees_with_table :
    ∀ lk ∈ keyNamesDash, ∀ sec ∈ ["I", "i", "V", "IV", "iv", "III", "VI"], neapolitanOK lk sec = true := by
  decide +kernel

/-- on the table path `find_root_note` is `romanRoot` (the function of the earlier theorems) written as a name -/
theorem find_root_note_table_path (lk p s : String)
    (hs : (romanInterval (pyIsLower lk) s).isSome) (hp : (romanInterval (pyIsLower s) p).isSome) :
    findRootNote lk p s = (romanRoot lk p s).bind fun r => (lookup r.2 INT_TO_ALT).map fun alt => r.1 ++ alt := by
  obtain ⟨i1, h1⟩ := Option.isSome_iff_exists.mp hs
  obtain ⟨i2, h2⟩ := Option.isSome_iff_exists.mp hp
  unfold findRootNote romanRoot appliedTonic keyStepAlter
  cases hk : keyStep lk with
  | none => simp
  | some st =>
    cases ha : keyAlter lk with
    | none => simp
    | some ka =>
      simp only [h1, h2, Option.bind_eq_bind, Option.bind_some, Option.pure_def]
      cases transposeNoteNoOctave (String.singleton st) ka i1.1 i1.2 with
      | none => rfl
      | some t =>
        simp only [Option.bind_some]
        cases transposeNoteNoOctave t.1 t.2 i2.1 i2.2 with
        | none => rfl
        | some r => rfl

/-- non-vacuity: IV of F is written "B-" and read back as B flat: V in that key is F, its first inversion has the
    bass A; the Neapolitan of E flat is F flat; V of bIII of C is B flat -/
example : processLocalKey "IV" "F" false = some (.name "B-") ∧ findRootNote "B-" "V" "I" = some "F" ∧
    findBassNote "F" 1 "V" = some "A" ∧ findRootNote "F" "IV" "I" = some "B-" ∧ findBassNote "B-" 1 "IV" = some "D" ∧
    findRootNote "Eb" "bII" "I" = some "F-" ∧
    (processLocalKey "bIII" "C" false).bind (fun r => match r with
      | .name k => processLocalKey "V" k false | _ => none) = some (.name "B-") := by decide +kernel

end C16Roman
