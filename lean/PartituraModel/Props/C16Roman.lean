/-
C16, last sentence: "the step/alteration arithmetic used for chord roots agrees with the same diatonic arithmetic".
Model: PartituraModel/Model/RomanRoot.lean (`RomanNumeral.find_root_note`), tables regenerated from the source.
-/
import PartituraModel.Model.RomanRoot

namespace C16Roman
open Model Gen

/-- the regenerated degree tables are the scale degrees: read in a major key the upper-case degrees are the major
    scale, read in a minor key the natural minor scale; both tables know the same 21 degrees and agree on every
    degree that is not one of III, III+, VI, VII -/
theorem roman_tables_scale_degrees :
    (["I", "II", "III", "IV", "V", "VI", "VII"].map fun d => lookup d ROMAN_MAJ) =
      [some ("P", 1), some ("M", 2), some ("M", 3), some ("P", 4), some ("P", 5), some ("M", 6), some ("M", 7)] ∧
    (["I", "II", "III", "IV", "V", "VI", "VII"].map fun d => lookup d ROMAN_MIN) =
      [some ("P", 1), some ("M", 2), some ("m", 3), some ("P", 4), some ("P", 5), some ("m", 6), some ("m", 7)] ∧
    ROMAN_MAJ.map (·.1) = ROMAN_MIN.map (·.1) ∧ ROMAN_MAJ.length = 21 ∧
    (∀ e ∈ ROMAN_MAJ, e.1 ∈ ["III", "III+", "VI", "VII"] ∨ lookup e.1 ROMAN_MIN = some e.2) := by
  decide +kernel

def steps7 : List String := ["C", "D", "E", "F", "G", "A", "B"]

/-- key names: step letter (upper case = major, lower case = minor) and an optional accidental after it -/
def keyNames : List String :=
  (steps7 ++ steps7.map lower).flatMap fun s => [s, s ++ "#", s ++ "b"]

/-- the accidental of a key name is read AFTER its step letter: "b" is B minor (no flat), "bb" B flat minor -/
theorem key_name_parsed :
    ∀ k ∈ keyNames, keyStep k = k.toList.head? ∧
      keyAlter k = (match k.toList.drop 1 with | ['#'] => 1 | ['b'] => -1 | _ => 0) := by
  decide +kernel

def pcOf (s : String) (a : Int) : Option Int := (lookup s BASE_PC).map fun b => (b + a) % 12
def idxOf (s : String) : Option Nat := lookup s STEPS_TO_INT

/-- one octave-free transposition moves the step by number − 1 places and the pitch class by the interval's size -/
def stepOK (s : String) (a : Int) (q : String) (n : Nat) : Bool :=
  match transposeNoteNoOctave s a q n, idxOf (upper s), pcOf (upper s) a, lookup (q ++ showNat n) INTERVAL_TO_SEMITONES with
  | some (s', a'), some i, some pc, some sz =>
    decide (idxOf s' = some ((i + n - 1) % 7)) && decide (pcOf s' a' = some ((pc + sz) % 12))
  | some _, _, _, _ => false
  | none, _, _, _ => true

theorem transposition_is_scale_arithmetic :
    ∀ s ∈ steps7 ++ steps7.map lower, ∀ a ∈ [(-2 : Int), -1, 0, 1, 2],
    ∀ e ∈ ROMAN_MAJ ++ ROMAN_MIN, stepOK s a e.2.1 e.2.2 = true := by
  decide +kernel

/-- **the mode of the local key selects the table for an upper-case secondary degree** (what the seeded change
    C16-h broke): wherever both are defined, the applied tonic of /III, /VI, /VII in the minor key lies on the same
    step as in the major key on the same tonic and one semitone lower -/
def modeOK (s acc sec : String) : Bool :=
  match appliedTonic (s ++ acc) sec, appliedTonic (lower s ++ acc) sec with
  | some (s1, a1), some (s2, a2) => decide (s1 = s2) && decide (a2 = a1 - 1)
  | _, _ => true

theorem secondary_degree_read_in_local_mode :
    ∀ s ∈ steps7, ∀ acc ∈ ["", "#", "b"], ∀ sec ∈ ["III", "III+", "VI", "VII"], modeOK s acc sec = true := by
  decide +kernel

/-- the root is two scale-arithmetic steps from the tonic: unfolding of the model (the code's two lookups and two
    transpositions), so that `transposition_is_scale_arithmetic` applies to each -/
theorem root_is_two_transpositions (lk p s : String) :
    romanRoot lk p s =
      (appliedTonic lk s).bind fun t =>
        (romanInterval (pyIsLower s) p).bind fun i => transposeNoteNoOctave t.1 t.2 i.1 i.2 := by
  unfold romanRoot
  cases appliedTonic lk s with
  | none => rfl
  | some t =>
    cases romanInterval (pyIsLower s) p with
    | none => rfl
    | some i => rfl

/-- non-vacuity: V/III in A minor is G (III of a minor is C), in A major G♯ (III is C♯); viio/VI in F♯ minor is
    C♯; V in B minor is F♯ (the key name "b" carries no flat) -/
example : romanRoot "a" "V" "III" = some ("G", 0) ∧ romanRoot "A" "V" "III" = some ("G", 1) ∧
    romanRoot "f#" "viio" "VI" = some ("C", 1) ∧ romanRoot "b" "V" "i" = some ("F", 1) ∧
    romanRoot "bb" "V" "i" = some ("F", 0) := by decide

end C16Roman
