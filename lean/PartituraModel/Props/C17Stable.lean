/-
C17 (round 5) — binary64 `np.corrcoef` versus the exact correlation order.  The model decides the key by comparing exact
rational scores; the code takes `argmax` of 24 binary64 numbers.  The two agree whenever (a) each computed number is
within `ε` of the real correlation coefficient it stands for and (b) the best key leads the others by more than `2 ε`:
that is the theorem below, for every `ε`, every note list, every profile set.  (a) and (b) are CHECKED on every generated
case by the harness (stream `corrs`: the 24 numbers `_similarity_with_pitch_profile` returned against the model's exact
signed squares; the margin is computed exactly), so the agreement of the answers is a consequence, not a comparison.
-/
import PartituraModel.Props.C17

namespace C17
open Model Gen

/-- if the computed correlations `rhat` are `ε`-close to the real ones and key `m` leads by more than `2 ε`, then key `m` is
    the model's answer AND the strict maximum of the computed vector — so `np.argmax(rhat)` is `m`, whichever way ties in
    `rhat` would have been broken -/
theorem key_argmax_stable (ps : KeyEst.ProfileSet) (notes : List KeyEst.KNote) (m : Nat) (hm : m < 24)
    (hvar : 0 < KeyEst.cov12 (KeyEst.hist notes) (KeyEst.hist notes))
    (ε : ℝ) (rhat : Nat → ℝ)
    (hclose : ∀ i, i < 24 → |rhat i - corr ps (KeyEst.hist notes) i| ≤ ε)
    (hgap : ∀ i, i < 24 → i ≠ m → corr ps (KeyEst.hist notes) i + 2 * ε < corr ps (KeyEst.hist notes) m) :
    KeyEst.keyIndex ps notes = m ∧ KeyEst.estimateKey ps notes = KeyEst.keyNameAt m ∧
    ∀ i, i < 24 → i ≠ m → rhat i < rhat m := by
  have hε : 0 ≤ ε := le_trans (abs_nonneg _) (hclose m hm)
  have hidx : KeyEst.keyIndex ps notes = m := by
    apply key_is_unique_max ps notes m
    refine ⟨ne_of_gt hvar, hm, fun i hi hne => ?_⟩
    rw [key_order_is_correlation_order ps _ m i hm hi hvar]
    have := hgap i hi hne
    linarith
  refine ⟨hidx, by simp only [KeyEst.estimateKey, hidx], fun i hi hne => ?_⟩
  have h1 := abs_le.mp (hclose i hi)
  have h2 := abs_le.mp (hclose m hm)
  have := hgap i hi hne
  linarith

/-- the same for the whole ranking (`return_sorted_keys=True` sorts the computed numbers): any two keys whose real
    correlations differ by more than `2 ε` are ordered by the computed numbers as the model orders them — so when every
    pair is that far apart, `np.argsort(rhat)[::-1]` is the model's ranking -/
theorem key_order_stable (ps : KeyEst.ProfileSet) (h : Nat → Rat) (hvar : 0 < KeyEst.cov12 h h)
    (ε : ℝ) (rhat : Nat → ℝ) (hclose : ∀ i, i < 24 → |rhat i - corr ps h i| ≤ ε)
    (i j : Nat) (hi : i < 24) (hj : j < 24) (hgap : corr ps h j + 2 * ε < corr ps h i) :
    rhat j < rhat i ∧ KeyEst.better (KeyEst.keyScore ps h i) (KeyEst.keyScore ps h j) = true := by
  have hε : 0 ≤ ε := le_trans (abs_nonneg _) (hclose i hi)
  have h1 := abs_le.mp (hclose i hi)
  have h2 := abs_le.mp (hclose j hj)
  refine ⟨by linarith, ?_⟩
  rw [key_order_is_correlation_order ps h i j hi hj hvar]
  linarith

/-- the first maximum of a vector with a strict maximum at `m` is `m` (what `np.argmax` returns) -/
theorem argmax_of_strict_max (rhat : Nat → ℝ) (m : Nat) (hm : m < 24)
    (hmax : ∀ i, i < 24 → i ≠ m → rhat i < rhat m) (k : Nat) (hk : k < 24)
    (hfirst : ∀ i, i < 24 → rhat i ≤ rhat k) : k = m := by
  by_contra hne
  have := hmax k hk hne
  have := hfirst m hm
  linarith

/-- the hypotheses are satisfiable: `ε = 0` and the exact correlations themselves, for any input with a unique best key -/
example (ps : KeyEst.ProfileSet) (notes : List KeyEst.KNote) (m : Nat)
    (hvar : 0 < KeyEst.cov12 (KeyEst.hist notes) (KeyEst.hist notes)) (hu : UniqueMax ps notes m) :
    ∀ i, i < 24 → i ≠ m → corr ps (KeyEst.hist notes) i + 2 * (0 : ℝ) < corr ps (KeyEst.hist notes) m := by
  intro i hi hne
  have := (key_order_is_correlation_order ps _ m i hu.2.1 hi hvar).mp (hu.2.2 i hi hne)
  linarith

end C17
