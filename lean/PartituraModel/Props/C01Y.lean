/-
C01, round 6 — theorems about Model/TimelineY.lean:

* the rich comparisons of `TimePoint` (`ComparableMixin`, lambdas regenerated from the source) are the comparisons
  of the times — a strict total order — and numpy's `searchsorted` on the object array of points, which calls
  `TimePoint.__lt__`, is the `searchsorted` on times of every other theorem (removes a TRUSTED item);
* the class-query wrappers of `Part` (`notes`, `measures`, …; class and flag regenerated from the source) return
  exactly the matching listed objects in time order, and mean what their documentation says;
* `TimedObject.duration` is the distance between the two points that list the object;
* the `Tuplet.start_note` / `end_note` setters are operations of the machine: exact effect, `WInv` after every
  history, `Inv` when the tuplet sits where its previous note starts / ends.
-/
import PartituraModel.Proofs.C01Y
import PartituraModel.Proofs.C01Staves
import PartituraModel.Props.C01X

namespace C01
open TL

/-! ### `ComparableMixin` on time points -/

/-- each of the six rich comparisons of two time points is the namesake comparison of their times
(the lambdas and the argument order of `_compare` come from the generated table) -/
theorem timepoint_compare (a b : Int) :
    tpCompare "__lt__" a b = some (decide (a < b)) ∧ tpCompare "__le__" a b = some (decide (a ≤ b))
    ∧ tpCompare "__eq__" a b = some (decide (a = b)) ∧ tpCompare "__ge__" a b = some (decide (b ≤ a))
    ∧ tpCompare "__gt__" a b = some (decide (b < a)) ∧ tpCompare "__ne__" a b = some (decide (a ≠ b)) :=
  ⟨tpCompare_lt a b, tpCompare_le a b, tpCompare_eq a b, tpCompare_ge a b, tpCompare_gt a b, tpCompare_ne a b⟩

/-- `<` on time points is a strict total order on times: exactly one of `a < b`, `a == b`, `a > b` holds, `<=` is
`<` or `==`, `!=` is not `==`, `>=` is not `<` — what a binary search (and `sorted`) needs of its comparison -/
theorem timepoint_order_total (a b : Int) :
    ((tpCompare "__lt__" a b = some true ∧ tpCompare "__eq__" a b = some false ∧ tpCompare "__gt__" a b = some false)
      ∨ (tpCompare "__lt__" a b = some false ∧ tpCompare "__eq__" a b = some true ∧ tpCompare "__gt__" a b = some false)
      ∨ (tpCompare "__lt__" a b = some false ∧ tpCompare "__eq__" a b = some false ∧ tpCompare "__gt__" a b = some true))
    ∧ (tpCompare "__le__" a b = some true ↔ tpCompare "__lt__" a b = some true ∨ tpCompare "__eq__" a b = some true)
    ∧ (tpCompare "__ne__" a b = some true ↔ tpCompare "__eq__" a b = some false)
    ∧ (tpCompare "__ge__" a b = some true ↔ tpCompare "__lt__" a b = some false)
    ∧ (tpCompare "__gt__" a b = tpCompare "__lt__" b a) := by
  simp only [tpCompare_lt, tpCompare_le, tpCompare_eq, tpCompare_ge, tpCompare_gt, tpCompare_ne, Option.some.injEq,
    decide_eq_true_eq, decide_eq_false_iff_not]
  refine ⟨?_, ?_, trivial, ?_, trivial⟩
  · omega
  · omega
  · omega

/-- `np.searchsorted(self._points, TimePoint(t))` compares through `TimePoint.__lt__`: it is the `searchsorted`
on times that `get_point`, `_add_point`, `_remove_point`, `iter_all` and `set_quarter_duration` are modelled with -/
theorem searchsorted_through_lt (ts : List Int) (t : Int) : searchsortedC ts t = searchsorted ts t :=
  searchsortedC_eq_searchsorted ts t

/-! ### the class-query wrappers of `Part` -/

/-- every wrapper asks for a timed class of the generated table -/
theorem views_classes_ok : ∀ v ∈ Gen.C01Views.views, v.2.1 < Gen.numClasses := by decide +kernel

/-- the table was extracted (the translator understood the source) and is not empty -/
theorem views_extracted : Gen.C01Views.extractionOk = true ∧ Gen.C01Views.views ≠ [] := by decide +kernel

/-- a wrapper is `iter_all(C, include_subclasses=flag)` over the whole timeline, starting objects -/
theorem view_is_iterAll (s : Part) {name : String} {c : Nat} {incl : Option Bool}
    (h : lookupStr Gen.C01Views.views name = some (c, incl)) :
    partView s name = some (iterAll s (some c) none none (incl.getD false) .starting) := by
  unfold partView
  rw [h]
  simp only [iterAllX_is_iterAll]
  rfl

/-- `part.notes`, `part.measures`, … in ANY reachable state: one duplicate-free segment per time point of the
timeline, in increasing time order, each holding exactly the objects that point lists as starting and whose class
is the wrapper's class (or, with the flag, one of its subclasses) -/
theorem view_any_history {s : Part} (hW : WInv s) (hk : ClsOk s) {name : String} {l : List ObjRef}
    (h : partView s name = some l) :
    ∃ c incl, (name, c, incl) ∈ Gen.C01Views.views
      ∧ ∃ segs : List (Int × List ObjRef), l = segs.flatMap (·.2)
        ∧ (segs.map (·.1)).Pairwise (· < ·)
        ∧ (∀ τ, τ ∈ segs.map (·.1) ↔ τ ∈ s.times)
        ∧ (∀ seg ∈ segs, seg.2.Nodup
            ∧ ∀ o, o ∈ seg.2 ↔ Listed s .start seg.1 o ∧ ClassSpecRT (some c) (incl.getD false) o.cls) := by
  unfold partView at h
  cases hl : lookupStr Gen.C01Views.views name with
  | none => rw [hl] at h; cases h
  | some v =>
    obtain ⟨c, incl⟩ := v
    rw [hl] at h
    simp only [Option.some.injEq] at h
    subst h
    refine ⟨c, incl, lookupStr_mem hl, ?_⟩
    obtain ⟨segs, h1, h2, h3, h4⟩ := iterAllX_any_history hW hk (some c) .absent .absent incl none
    refine ⟨segs, h1, h2, fun τ => ?_, fun seg hs => ?_⟩
    · rw [h3]
      constructor
      · exact fun hh => hh.1
      · exact fun hh => ⟨hh, by unfold inRangeQ; simp [Bound.key]⟩
    · have := h4 seg hs
      simpa [modeOfString_starting, Mode.side, inclEff] using this

/-- what the wrappers mean (their docstrings): name ↦ (class name, subclasses included) -/
def documentedViews : List (String × String × Bool) :=
  [("notes", "Note", true), ("measures", "Measure", false), ("rests", "Rest", false),
   ("cadences", "Cadence", false), ("repeats", "Repeat", false), ("key_sigs", "KeySignature", false),
   ("time_sigs", "TimeSignature", false), ("dynamics", "LoudnessDirection", true),
   ("tempo_directions", "TempoDirection", true), ("harmony", "Harmony", true), ("phrases", "Phrase", false),
   ("articulations", "ArticulationDirection", true)]

/-- each documented wrapper exists in the source and asks for its documented class with its documented flag
(an omitted flag counts as the default `False`) -/
theorem documented_views : ∀ d ∈ documentedViews,
    (lookupStr Gen.C01Views.views d.1).map (fun v => (Gen.classNames.getD v.1 "", v.2.getD false)) = some d.2 := by
  decide +kernel

/-! ### `TimedObject.duration` -/

/-- in ANY reachable state a duration is the distance between a point that lists the object as ending and a
point that lists it as starting -/
theorem duration_any_history {s : Part} (hW : WInv s) (o : ObjRef) {d : Int} (h : durationOf s o = some d) :
    ∃ a b, Listed s .start a o ∧ Listed s .stop b o ∧ d = b - a := by
  unfold durationOf at h
  cases ha : (getObj s.objs o).start with
  | none => simp [ha] at h
  | some a =>
    cases hb : (getObj s.objs o).stop with
    | none => simp [ha, hb] at h
    | some b =>
      simp only [ha, hb, Option.some.injEq] at h
      exact ⟨a, b, backref_listed hW .start o ha, backref_listed hW .stop o hb, h.symm⟩

/-- along valid histories: `o.duration = d` exactly when `o` is listed as starting at some `a` and as ending at
some `b` with `d = b - a`; it is `None` exactly when a side is not registered -/
theorem duration_correct {s : Part} (hI : Inv s) (o : ObjRef) (d : Int) :
    durationOf s o = some d ↔ ∃ a b, Listed s .start a o ∧ Listed s .stop b o ∧ d = b - a := by
  constructor
  · exact duration_any_history ((inv_iff_winv_strict s).mp hI).1 o
  · rintro ⟨a, b, ⟨p, hp, hpa, hop⟩, ⟨p', hp', hpb, hop'⟩, rfl⟩
    have h1 := (listed_iff_backref hI .start o hp).mp hop
    have h2 := (listed_iff_backref hI .stop o hp').mp hop'
    simp only [ObjSt.at] at h1 h2
    unfold durationOf
    rw [h1, h2, hpa, hpb]

theorem duration_none_iff (s : Part) (o : ObjRef) :
    durationOf s o = none ↔ (getObj s.objs o).start = none ∨ (getObj s.objs o).stop = none := by
  unfold durationOf
  cases (getObj s.objs o).start <;> cases (getObj s.objs o).stop <;> simp

/-! ### the Tuplet setters -/

/-- `tuplet.start_note = note` / `tuplet.end_note = note`: nothing happens on the timeline unless the note is
given, has a start (end) and the tuplet's PREVIOUS note has one too; then the tuplet is deregistered from the
point where the previous note starts (ends) by one `remove_*_object` — its reference is cleared, exactly the
listing there goes away, time points and the quarter table stay, `WInv` is kept -/
theorem tuplet_setter_effect {s : Part} (hW : WInv s) (sd : Side) (tup : ObjRef) (old note : Option ObjRef) :
    let s' := tupletDetach s sd tup old note
    WInv s' ∧ s'.times = s.times ∧ s'.qtab = s.qtab
      ∧ (s' = s
         ∨ ∃ o t, old = some o ∧ (getObj s.objs o).at sd = some t
            ∧ (∀ sd' o', (getObj s'.objs o').at sd' = if o' = tup ∧ sd' = sd then none else (getObj s.objs o').at sd')
            ∧ (∀ sd' x o', Listed s' sd' x o' ↔ Listed s sd' x o' ∧ ¬ (o' = tup ∧ sd' = sd ∧ x = t))) := by
  intro s'
  rcases tupletDetach_cases s sd tup old note with he | ⟨n, o, t, -, ho, -, hat, he⟩
  · have : s' = s := he
    rw [this]
    exact ⟨hW, rfl, rfl, Or.inl rfl⟩
  · have e : s' = tpUnregister s sd t tup := he
    obtain ⟨h1, h2, h3, h4, h5, -⟩ := tpRemove_effect hW sd t tup
    rw [e]
    exact ⟨h1, h4, h5, Or.inr ⟨o, t, ho, hat, h2, h3⟩⟩

/-- the intended use — the tuplet is registered where its previous note starts (ends), or not at all on that side
and not listed there: the FULL invariant survives the setter (the emptied point counts as an allowed empty point) -/
theorem tuplet_setter_inv {s : Part} (hI : Inv s) (sd : Side) (tup : ObjRef) (old note : Option ObjRef)
    (h : ∀ o, old = some o → ∀ t, (getObj s.objs o).at sd = some t → (getObj s.objs tup).at sd = some t) :
    Inv (tupletDetach s sd tup old note) := by
  rcases tupletDetach_cases s sd tup old note with he | ⟨n, o, t, -, ho, -, hat, he⟩
  · rw [he]; exact hI
  · rw [he]; exact tpUnregister_inv hI (h o ho t hat)

/-! ### all histories of the round-6 machine -/

/-- after ANY history of the timeline operations, the direct `TimePoint` calls, the Slur AND Tuplet setters, the
wrappers, `number_of_staves` and `duration` reads: the weak invariant holds and the quarter memo is fresh -/
theorem winvY_reachable (staff : ObjRef → Option Nat) (q : Nat) (ops : List OpY) (hq : ∀ op ∈ ops, op.qdNonneg) :
    WInv (runY staff (YPart.init q) ops).c.part ∧ CacheOk (runY staff (YPart.init q) ops).c :=
  runY_yinv (y := YPart.init q) (by
    show XInv (CPart.init q)
    rw [memo_init]; exact xinv_lift (winv_init q)) ops hq

/-- no operation of the round-6 machine raises, except on a negative time-point argument -/
theorem stepY_total {staff : ObjRef → Option Nat} {y : YPart} (hW : WInv y.c.part) (hc : CacheOk y.c) {op : OpY}
    (hq : op.qdNonneg) (hn : op.negTime = false) : ∃ r, stepY staff y op = .ok r :=
  stepY_ok (y := y) ⟨hW, hc⟩ hq hn

/-- without the new operations the part and its quarter memo evolve exactly as in the machine of round 5: every
theorem of Props/C01X (and through `memo_machine_is_timeline` of Props/C01, C01Any, C01Classes, C01Order) is a
theorem about this machine -/
theorem machineY_is_machineX (staff : ObjRef → Option Nat) (q : Nat) (ops : List OpX) :
    (runY staff (YPart.init q) (ops.map .base)).c = runX (CPart.init q) ops :=
  runY_base staff (YPart.init q) ops

/-! ### the memo `Part._number_of_staves` -/

/-- `compute_number_of_staves` is a maximum: at least the initial value, at least the `staff` of every object one
of its `iter_all` calls returns, and attained (by the initial value or by such an object) -/
theorem computeStaves_is_max (s : Part) (staff : ObjRef → Option Nat) :
    Gen.C01Views.stavesInit ≤ computeStaves s staff
    ∧ (∀ q ∈ Gen.C01Views.stavesQueries, ∀ o ∈ iterAllX s (some q.1) .absent .absent (some q.2) none,
        ∀ k, staff o = some k → k ≤ computeStaves s staff)
    ∧ (computeStaves s staff = Gen.C01Views.stavesInit
        ∨ ∃ q ∈ Gen.C01Views.stavesQueries, ∃ o ∈ iterAllX s (some q.1) .absent .absent (some q.2) none,
            staff o = some (computeStaves s staff)) := by
  unfold computeStaves
  generalize Gen.C01Views.stavesQueries = qs
  generalize Gen.C01Views.stavesInit = m
  exact stavesFoldl_spec staff (fun q => iterAllX s (some q.1) .absent .absent (some q.2) none) qs m

/-- which objects count (the loops of the source, as a set — their order does not matter for a maximum): notes of
any kind, clefs, directions of any kind, words; the count starts at 1 -/
theorem staves_queries_documented :
    Gen.C01Views.stavesInit = 1
    ∧ (∀ d ∈ [("GenericNote", true), ("Clef", false), ("Direction", true), ("Words", false)],
        d ∈ Gen.C01Views.stavesQueries.map (fun q => (Gen.classNames.getD q.1 "", q.2)))
    ∧ (∀ q ∈ Gen.C01Views.stavesQueries.map (fun q => (Gen.classNames.getD q.1 "", q.2)),
        q ∈ [("GenericNote", true), ("Clef", false), ("Direction", true), ("Words", false)]) := by
  decide +kernel

/-- an object is returned by a loop of `compute_number_of_staves` exactly when some point lists it as starting and
its class is the loop's class (or, with the flag, one the subclass walk visits) -/
theorem staves_query_members {s : Part} (hW : WInv s) (c : Nat) (incl : Bool) (o : ObjRef) :
    o ∈ iterAllX s (some c) .absent .absent (some incl) none
      ↔ (∃ x, Listed s .start x o) ∧ clsMatch (some c) incl o.cls := by
  rw [stavesQuery_eq, mem_iterAll_whole hW.sorted]

/-- the number of staves depends on the starting listings only (not on quarter durations, empty points, links,
ending objects, or the order inside a point) -/
theorem computeStaves_listings {s s' : Part} (hW : WInv s) (hW' : WInv s')
    (hl : ∀ x o, Listed s' .start x o ↔ Listed s .start x o) (staff : ObjRef → Option Nat) :
    computeStaves s' staff = computeStaves s staff :=
  computeStaves_congr hW.sorted hW'.sorted hl staff

/-- after ANY history of operations that go through `Part` (add / remove in every argument form,
set_quarter_duration, get_or_add_point, all queries, the wrappers, number_of_staves itself, duration) the memo is
empty or holds exactly what `compute_number_of_staves` would return now: `Part.add` / `Part.remove` reset it and
nothing else changes a starting listing -/
theorem staves_memo_fresh (staff : ObjRef → Option Nat) (q : Nat) (ops : List OpY) (hq : ∀ op ∈ ops, op.qdNonneg)
    (hp : ∀ op ∈ ops, op.partLevel = true) : StavesOk staff (runY staff (YPart.init q) ops) :=
  runY_stavesOk (y := YPart.init q) (by
    show XInv (CPart.init q)
    rw [memo_init]; exact xinv_lift (winv_init q)) (Or.inl rfl) ops hq hp

/-- so `part.number_of_staves` returns the freshly computed value after every such history -/
theorem number_of_staves_correct (staff : ObjRef → Option Nat) (q : Nat) (ops : List OpY)
    (hq : ∀ op ∈ ops, op.qdNonneg) (hp : ∀ op ∈ ops, op.partLevel = true) :
    (readStaves (runY staff (YPart.init q) ops) staff).2 = computeStaves (runY staff (YPart.init q) ops).c.part staff := by
  have h := staves_memo_fresh staff q ops hq hp
  unfold readStaves
  rcases h with e | e <;> simp [e]

/-- reading the memo never changes the part -/
theorem number_of_staves_frame (staff : ObjRef → Option Nat) (y : YPart) :
    (readStaves y staff).1.c = y.c ∧ (readStaves (readStaves y staff).1 staff).2 = (readStaves y staff).2 := by
  unfold readStaves
  cases h : y.staves <;> simp [h]

/-! ### non-vacuity -/

section Examples

def yN : ObjRef := { id := 0, cls := 2 }     -- Note
def yM : ObjRef := { id := 1, cls := 3 }     -- GraceNote
def yT : ObjRef := { id := 2, cls := 11 }    -- Tuplet
def yR : ObjRef := { id := 3, cls := 5 }     -- Rest

def yhist : List OpY :=
  [.base (.base (.add yN (some 0) (some 4))), .base (.base (.add yM (some 4) (some 6))), .base (.base (.add yR (some 6) (some 8))),
   .base (.base (.add yT (some 0) (some 6))), .tupletStart yT (some yN), .tupletStart yT (some yM), .view "notes", .staves]

example : ∀ op ∈ yhist, op.qdNonneg := by decide +kernel
/-- the second `start_note = …` takes the tuplet off the point where the FIRST note starts -/
example : (runY (fun _ => none) (YPart.init 1) yhist).c.part.points.map (fun p => (p.t, p.starting.map (·.id), p.ending.map (·.id)))
    = [(0, [0], []), (4, [1], [0]), (6, [3], [1, 2]), (8, [], [3])] := by decide +kernel
example : (getObj (runY (fun _ => none) (YPart.init 1) yhist).c.part.objs yT).start = none := by decide +kernel
example : partView (runY (fun _ => none) (YPart.init 1) yhist).c.part "notes" = some [yN, yM] := by decide +kernel
example : partView (runY (fun _ => none) (YPart.init 1) yhist).c.part "rests" = some [yR] := by decide +kernel
example : partView (Part.init 1) "no_such_wrapper" = none := by decide +kernel
example : durationOf (runY (fun _ => none) (YPart.init 1) yhist).c.part yM = some 2
    ∧ durationOf (runY (fun _ => none) (YPart.init 1) yhist).c.part yT = none := by decide +kernel
example : tpCompare "__lt__" 3 5 = some true ∧ tpCompare "__ge__" 3 5 = some false ∧ tpCompare "__nope__" 3 5 = none := by
  decide +kernel
example : lookupStr Gen.C01Views.views "notes" = some (2, some true) := by decide +kernel

def ystaff (o : ObjRef) : Option Nat := if o.id = 1 then some 3 else if o.id = 3 then some 2 else none
def yhist2 : List OpY :=
  [.base (.base (.add yN (some 0) (some 4))), .staves, .base (.base (.add yM (some 4) (some 6))), .base (.base (.setQD 2 4)),
   .staves, .base (.base (.getOrAdd 9)), .base (.base (.add yR (some 6) none))]
example : (∀ op ∈ yhist2, op.qdNonneg) ∧ (∀ op ∈ yhist2, op.partLevel = true) := by decide +kernel
example : (runY ystaff (YPart.init 1) (yhist2.take 6)).staves = some 3
    ∧ (runY ystaff (YPart.init 1) yhist2).staves = none
    ∧ computeStaves (runY ystaff (YPart.init 1) yhist2).c.part ystaff = 3 := by decide +kernel
/-- a direct `TimePoint.add_starting_object` goes behind the part's back: the memo is STALE afterwards (why
`staves_memo_fresh` asks for part-level operations) -/
example : let y := runY ystaff (YPart.init 1) [.base (.base (.add yN (some 0) (some 4))), .staves, .base (.tpAdd .start 4 yM)]
    y.staves = some 1 ∧ computeStaves y.c.part ystaff = 3 := by decide +kernel

end Examples

end C01
