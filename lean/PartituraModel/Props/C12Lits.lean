/-
C12, round 6 — the theorems restated for the functions the driver runs since round 6: `key_name_to_fifths_mode`,
`pitch_spelling_to_note_name`, `format_symbolic_duration`, `symbolic_to_numeric_duration` (keys of the dict possibly
absent) and `to_quarter_tempo`, each written over the literals of its own body (Gen/C12Lits.lean, regenerated from the
live source on every run by harness/translate_c12b.py).  Proofs/C12Lits.lean proves them equal to the functions of the
earlier rounds; editing a constant of the source re-elaborates (and, when it matters, breaks) these theorems.
-/
import PartituraModel.Proofs.C12Lits
import PartituraModel.Props.C12Keys
import PartituraModel.Props.C12More

namespace C12
open Model Gen Gen.C12 Gen.C12L C12Bridge C12Lits

/-- the second translator could read every literal it looks for in the live source -/
theorem literals_extracted : extractionOkL = true ∧ extractionNotesL = [] := by decide

/-- **every string**: `key_name_to_fifths_mode`, with the rotations, thresholds, marks and the factor seven as the
    source writes them, computes the closed form (position on the line of fifths − 3 for minor − 7 per flat / + 7 per
    sharp) and rejects exactly the strings that do not begin with one of the seven letters -/
theorem key_name_closed_form_src (name : String) :
    keyNameToFifthsModeK name = keyNameValue name ∧
    ((keyNameToFifthsModeK name).isSome ↔ ∃ c rest, name.toList = c :: rest ∧ (fifthsOfLetter c).isSome) := by
  rw [keyNameK_eq]
  exact ⟨key_name_closed_form name, key_name_accepts_iff name⟩

/-- key name ↔ (fifths, mode) is a bijection on the fifteen major and fifteen minor keys, for every accepted
    spelling of the mode, through the two functions as the driver runs them -/
theorem key_bijection_lits (f : Int) (h1 : -7 ≤ f) (h2 : f ≤ 7) (m : PyLit) (mo : Mode) (hm : modeOfLit m = some mo) :
    (fifthsModeToKeyNameG f m).bind keyNameToFifthsModeK = some (f, mo) := by
  have h := (key_bijection_src f h1 h2 m mo hm).2
  have : keyNameToFifthsModeK = keyNameToFifthsModeG := funext keyNameK_eq
  rw [this]; exact h

/-- note-name round trip with the accidentals as `pitch_spelling_to_note_name` writes them (double sharp `x`, else
    repeated `#` / `b`): every step, alteration −3..3, EVERY octave ≥ 0 -/
theorem name_roundtrip_lits (s : String) (hs : s ∈ ["C", "D", "E", "F", "G", "A", "B"])
    (a : Int) (ha : a ∈ [(-3 : Int), -2, -1, 0, 1, 2, 3]) (o : Nat) :
    noteNameToSpellingG (spellingToNoteNameG s a (o : Int)) = some (s, some a, some (o : Int)) ∧
    noteNameToMidiG (spellingToNoteNameG s a (o : Int)) = spellingToMidiG s (some a) (o : Int) := by
  rw [spellingToNoteNameG_eq]
  exact name_roundtrip_src s hs a ha o

/-- the accidental `pitch_spelling_to_note_name` writes for every alteration (no bound): `alter` sharps or flats,
    except the double sharp -/
theorem acc_string_shape (a : Int) :
    (0 < a → a ≠ 2 → accStringG a = String.ofList (List.replicate a.toNat '#')) ∧
    (a < 0 → accStringG a = String.ofList (List.replicate (-a).toNat 'b')) ∧
    accStringG 0 = "" ∧ accStringG 2 = "x" := by
  refine ⟨?_, ?_, by decide, by decide⟩
  · intro h0 h2
    have e : nnDouble = 2 := rfl
    unfold accStringG
    rw [e]
    simp only [gt_iff_lt, h0, if_true, h2, if_false]
    rfl
  · intro h0
    have hn : ¬ (a > 0) := by omega
    unfold accStringG
    simp only [hn, if_false, h0, if_true]
    rfl

/-- tempo units with the dot character counted and stripped as the source writes it -/
theorem tempo_units_lits (u : String) (v : Rat) (d : Nat) (t : Rat) (hu : (u, v) ∈ LABEL_DURS) (hd : d ∈ [0, 1, 2, 3]) :
    toQuarterTempoG (u ++ dotsStr d) t = some (t * ((2 : Rat) - 1 / 2 ^ d) * v) ∧
    toQuarterTempoG (formatSymbolicG (some (some u, some d, none, none))) t = some (t * ((2 : Rat) - 1 / 2 ^ d) * v) := by
  rw [toQuarterTempoG_eq, toQuarterTempoG_eq, formatSymbolicG_eq]
  exact ⟨tempo_units u v d t hu hd, tempo_unit_roundtrip u v d t hu hd⟩

/-- `format_symbolic_duration`: no dict is "unknown"; dots left out are no dots; the tuplet suffix needs both counts -/
theorem format_symbolic_shape (u : String) (d a n : Nat) :
    formatSymbolicG none = "unknown" ∧
    formatSymbolicG (some (some u, none, none, none)) = formatSymbolicG (some (some u, some 0, none, none)) ∧
    formatSymbolicG (some (some u, some d, some a, none)) = formatSymbolicG (some (some u, some d, none, none)) ∧
    formatSymbolicG (some (some u, some d, some a, some n)) = u ++ dotsStr d ++ "_" ++ showNat a ++ "/" ++ showNat n := by
  refine ⟨rfl, rfl, rfl, ?_⟩
  rw [formatSymbolicG_eq]
  rfl

/-- `symbolic_to_numeric_duration` on EVERY dict: value (absent / zero counts stand for 1, absent dots for none) and
    exact rejection set (no / unknown type, more than three dots) -/
theorem symbolic_numeric_lits (ty : Option String) (d a n : Option Nat) (divs : Rat) :
    (symbolicToNumericG ty d a n divs =
      match ty.bind (lookup · LABEL_DURS), DOT_MULTIPLIERS[d.getD 0]? with
      | some v, some m => some (divs * v * m * (orOne n / orOne a))
      | _, _ => none) ∧
    ((symbolicToNumericG ty d a n divs).isSome ↔ (ty.bind (lookup · LABEL_DURS)).isSome ∧ d.getD 0 ≤ 3) := by
  have hd : symbolicToNumericG ty d a n divs = symbolicToNumericG ty (some (d.getD 0)) a n divs := by
    cases d <;> rfl
  cases ty with
  | none =>
    constructor
    · rw [(symbolicToNumericG_absent d a n none divs).1]; rfl
    · rw [(symbolicToNumericG_absent d a n none divs).1]; simp
  | some t =>
    rw [hd, symbolicToNumericG_eq]
    exact ⟨symbolic_numeric_total t (d.getD 0) a n divs, symbolic_numeric_defined t (d.getD 0) a n divs⟩

example : keyNameToFifthsModeK "F#m" = some (3, Mode.minor) ∧ spellingToNoteNameG "c" 2 4 = "Cx4" ∧
    spellingToNoteNameG "g" (-2) (-1) = "Gbb-1" ∧
    symbolicToNumericG (some "eighth") none (some 3) (some 2) 6 = some 2 ∧ symbolicToNumericG none none none none 1 = none ∧
    toQuarterTempoG " h. " 50 = some 150 := by decide +kernel

example : formatSymbolicG (some (some "q", some 2, some 3, some 2)) = "q.._3/2" := by
  rw [formatSymbolicG_eq]; decide +kernel

end C12
