/-
C06 (round 5) — the proviso of the property is exact.  "… pairs each note-on with the next note-off or zero-velocity
note-on of the same channel and pitch … provided no two notes of the same pitch and channel overlap within a
track": for ANY track and any (channel, pitch), the loader turns every note start and every release of that channel
and pitch into a note — none dropped, none unused — if and only if these messages strictly alternate start,
release, start, release, … (`AltC`), i.e. iff no note of that channel and pitch starts while another one sounds and
no release comes without a start.  `pairing_sound` (Props/C06.lean) is the "if" with the notes spelled out; the
"only if" is new.
-/
import PartituraModel.Model.PerfMidi
import PartituraModel.Proofs.C06PairIff
import PartituraModel.Props.C06

namespace C06
open Model Model.PerfMidi C06Pair C06PairIff

/-- the loader never makes more notes of one channel and pitch than the track has note starts, nor than it has
    releases -/
theorem pairing_bounds (T : Track) (κ : Nat) :
    (notesOf κ (pairNotes T)).length ≤ ons (proj κ T) ∧ (notesOf κ (pairNotes T)).length ≤ rels (proj κ T) := by
  have e : notesOf κ (pairNotes T) = pairFrom (fun _ => none) (proj κ T) := pair_proj κ T _ _ rfl
  rw [e]
  obtain ⟨h1, h2, _⟩ := (pair_bounds κ (proj κ T) (proj_key κ T) (fun _ => none)).1 rfl
  exact ⟨h1, h2⟩

/-- **Necessary and sufficient.**  Every note start and every release of one (channel, pitch) in a track becomes a
    loaded note — as many notes as starts, as many as releases — iff the messages of that channel and pitch
    strictly alternate. -/
theorem pairing_complete_iff (T : Track) (κ : Nat) :
    ((notesOf κ (pairNotes T)).length = ons (proj κ T) ∧ (notesOf κ (pairNotes T)).length = rels (proj κ T))
      ↔ AltC (proj κ T) := by
  have e : notesOf κ (pairNotes T) = pairFrom (fun _ => none) (proj κ T) := pair_proj κ T _ _ rfl
  rw [e]
  constructor
  · rintro ⟨h1, h2⟩
    exact ((pair_bounds κ (proj κ T) (proj_key κ T) (fun _ => none)).1 rfl).2.2 h1 h2
  · intro h
    exact pair_altC κ (proj κ T) h (proj_key κ T) (fun _ => none) rfl

/-- … so when they do not alternate (two notes of the channel and pitch overlap, a release without a start), a
    note start or a release of the file is lost: the proviso cannot be dropped -/
theorem pairing_loses_when_overlapping (T : Track) (κ : Nat) (h : ¬ AltC (proj κ T)) :
    (notesOf κ (pairNotes T)).length < ons (proj κ T) ∨ (notesOf κ (pairNotes T)).length < rels (proj κ T) := by
  obtain ⟨b1, b2⟩ := pairing_bounds T κ
  by_contra hc
  apply h
  rw [← pairing_complete_iff]
  omega

/-- non-vacuity: two pitches interleaved, alternating for each; and an overlap (the second start overwrites the
    first: one note for two starts) -/
example : AltC (proj (noteHash 0 60) [(0, Ev.noteOn 0 60 64), (5, Ev.noteOn 1 62 10), (10, Ev.noteOn 0 60 0),
    (10, Ev.noteOn 0 60 70), (12, Ev.noteOff 1 62 0), (20, Ev.noteOff 0 60 5)]) :=
  AltC.pair _ _ _ _ _ rfl rfl (AltC.pair _ _ _ _ _ rfl rfl AltC.nil)

example : (notesOf (noteHash 0 60) (pairNotes [(0, Ev.noteOn 0 60 64), (5, Ev.noteOn 0 60 10), (10, Ev.noteOff 0 60 0),
    (20, Ev.noteOff 0 60 0)])).length = 1 ∧
    ons (proj (noteHash 0 60) [(0, Ev.noteOn 0 60 64), (5, Ev.noteOn 0 60 10), (10, Ev.noteOff 0 60 0), (20, Ev.noteOff 0 60 0)]) = 2 := by
  decide

end C06
