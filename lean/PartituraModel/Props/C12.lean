/-
C12 — pitch, key, duration and time-unit conversions are mutually consistent.
Property theorems over Model/Pitch.lean and the regenerated tables.
-/
import PartituraModel.Model.Pitch
import PartituraModel.Proofs.Round
import PartituraModel.Proofs.Digits
import Mathlib.Tactic.IntervalCases

namespace C12
open Model Gen

/-! ### twelve-tone arithmetic -/

/-- C4 = 60 -/
theorem midi_c4 : spellingToMidi "C" (some 0) 4 = some 60 := by decide

/-- the regenerated base table is the C major scale, in both spellings -/
theorem base_is_major_scale :
    MIDI_BASE_CLASS = [("c", 0), ("d", 2), ("e", 4), ("f", 5), ("g", 7), ("a", 9), ("b", 11)]
    ∧ BASE_PC = MIDI_BASE_CLASS.map (fun e => (upper e.1, e.2)) := by decide

/-- value of the conversion for every octave and alteration (unbounded) -/
theorem midi_value (s : String) (a : Option Int) (o b : Int)
    (h : lookup (lower s) MIDI_BASE_CLASS = some b) :
    spellingToMidi s a o = some ((o + 1) * 12 + b + a.getD 0) := by
  simp [spellingToMidi, h]

/-- each accidental is one semitone -/
theorem midi_alter (s : String) (a o m : Int) (h : spellingToMidi s (some a) o = some m) :
    spellingToMidi s (some (a + 1)) o = some (m + 1) := by
  unfold spellingToMidi at *
  cases hb : lookup (lower s) MIDI_BASE_CLASS with
  | none => simp [hb] at h
  | some b =>
    simp [hb] at h ⊢
    omega

/-- each octave is twelve semitones -/
theorem midi_octave (s : String) (a : Option Int) (o m : Int) (h : spellingToMidi s a o = some m) :
    spellingToMidi s a (o + 1) = some (m + 12) := by
  unfold spellingToMidi at *
  cases hb : lookup (lower s) MIDI_BASE_CLASS with
  | none => simp [hb] at h
  | some b =>
    simp [hb] at h ⊢
    omega

/-- a missing alteration counts as natural -/
theorem midi_none (s : String) (o : Int) : spellingToMidi s none o = spellingToMidi s (some 0) o := by
  simp [spellingToMidi]

def spellOK (k : Nat) : Bool :=
  match DUMMY_PS_BASE_CLASS.find? (fun e => decide ((e.1 : Int) = (k : Int))) with
  | some (_, s, a) =>
    decide (lookup (lower (upper s)) MIDI_BASE_CLASS = some ((k : Int) - a)) && (a == 0 || a == 1)
  | none => false

/-- the regenerated dummy-spelling table: every pitch class has an entry that sounds it -/
theorem dummy_table_sounds : ∀ k ∈ List.range 12, spellOK k = true := by decide

/-- MIDI → spelling → MIDI is the identity for every integer pitch (no bound), and the dummy
    spelling uses only naturals and single sharps -/
theorem midi_spelling (p : Int) :
    ∃ s a o, midiToSpelling p = some (s, a, o) ∧ spellingToMidi s (some a) o = some p ∧ (a = 0 ∨ a = 1) := by
  have h0 : 0 ≤ p % 12 := Int.emod_nonneg p (by decide)
  have h1 : p % 12 < 12 := Int.emod_lt_of_pos p (by decide)
  obtain ⟨k, hk⟩ : ∃ k : Nat, p % 12 = (k : Int) := ⟨(p % 12).toNat, by omega⟩
  have hk12 : k < 12 := by omega
  have hs := dummy_table_sounds k (List.mem_range.mpr hk12)
  unfold spellOK at hs
  unfold midiToSpelling
  rw [hk]
  split at hs
  · rename_i x s a heq
    simp only [Bool.and_eq_true, decide_eq_true_eq, Bool.or_eq_true, beq_iff_eq] at hs
    refine ⟨upper s, a, p / 12 - 1, by rw [heq], ?_, hs.2⟩
    rw [midi_value _ _ _ _ hs.1]
    simp only [Option.getD_some, Option.some.injEq]
    omega
  · simp at hs

/-- `step2pc` is the pitch class of the spelled pitch -/
theorem step2pc_spec (s : String) (a b : Int) (h : lookup s BASE_PC = some b) :
    step2pc s a = some ((b + a) % 12) := by simp [step2pc, h]

/-! ### note names -/

theorem takeWhile_prefix {α : Type} (p : α → Bool) (l1 l2 : List α) (h1 : ∀ x ∈ l1, p x = true)
    (h2 : ∀ x ∈ l2.head?, p x = false) : (l1 ++ l2).takeWhile p = l1 ∧ (l1 ++ l2).dropWhile p = l2 := by
  induction l1 with
  | nil =>
    cases l2 with
    | nil => simp
    | cons y ys =>
      have : p y = false := h2 y (by simp)
      simp [List.takeWhile, List.dropWhile, this]
  | cons x xs ih =>
    have hx : p x = true := h1 x (by simp)
    have := ih (fun y hy => h1 y (by simp [hy]))
    simp [List.takeWhile, List.dropWhile, hx, this.1, this.2]

def stepFacts (s : String) : Bool :=
  match (upper s).toList with
  | [c] => isStepChar c && decide (upper (String.ofList [c]) = s)
  | _ => false

def accFacts (a : Int) : Bool :=
  let f := (accString a).toList
  f.all isAccChar &&
    decide (lookup (if f.isEmpty then "n" else String.ofList f) SIGN_TO_ALTER = some (some a))

theorem name_tables :
    (∀ s ∈ ["C", "D", "E", "F", "G", "A", "B"], stepFacts s = true) ∧
    (∀ a ∈ [(-3 : Int), -2, -1, 0, 1, 2, 3], accFacts a = true) := by decide

/-- **note-name round trip** for every step, every alteration −3..3 and EVERY octave ≥ 0 (no bound):
    parsing the printed name returns the spelling -/
theorem name_roundtrip (s : String) (hs : s ∈ ["C", "D", "E", "F", "G", "A", "B"])
    (a : Int) (ha : a ∈ [(-3 : Int), -2, -1, 0, 1, 2, 3]) (o : Nat) :
    noteNameToSpelling (spellingToNoteName s a (o : Int)) = some (s, some a, (o : Int)) := by
  have hsf := name_tables.1 s hs
  have haf := name_tables.2 a ha
  unfold stepFacts at hsf
  unfold accFacts at haf
  split at hsf
  · rename_i c hc
    simp only [Bool.and_eq_true, decide_eq_true_eq] at hsf haf
    obtain ⟨hstep, hup⟩ := hsf
    obtain ⟨hacc, hlook⟩ := haf
    have hshow : showInt (o : Int) = showNat o := by
      unfold showInt
      have : ¬ ((o : Int) < 0) := by omega
      simp [this]
    have hname : (spellingToNoteName s a (o : Int)).toList = c :: ((accString a).toList ++ natDigits o) := by
      unfold spellingToNoteName
      rw [hshow]
      simp [String.toList_append, hc, showNat]
    have hdig := Digits.natDigits_all o
    have hne := Digits.natDigits_ne_nil o
    have htw := takeWhile_prefix isAccChar (accString a).toList (natDigits o)
      (by simpa [List.all_eq_true] using hacc)
      (by
        intro x hx
        cases hd : natDigits o with
        | nil => exact absurd hd hne
        | cons y ys =>
          rw [hd] at hx
          simp only [List.head?_cons, Option.mem_def, Option.some.injEq] at hx
          subst hx
          have := (hdig y (by rw [hd]; simp)).2
          simp only [Bool.and_eq_true, bne_iff_ne, ne_eq] at this
          simp [isAccChar, this.1.1, this.1.2, this.2])
    have htd : (natDigits o).takeWhile Char.isDigit = natDigits o := by
      have := (takeWhile_prefix Char.isDigit (natDigits o) [] (fun x hx => (hdig x hx).1) (by simp)).1
      simpa using this
    unfold noteNameToSpelling
    rw [hname]
    simp only [searchNoteName, matchNoteNameAt, hstep, if_true, htw.1, htw.2, htd]
    have hemp : (natDigits o).isEmpty = false := by
      cases hd : natDigits o with
      | nil => exact absurd hd hne
      | cons y ys => rfl
    simp only [hemp, Bool.false_eq_true, if_false, hlook, hup, Digits.digitsToNat_natDigits]
  · simp at hsf

/-- the printed name of a spelling sounds the spelled pitch (names ↔ MIDI through the spelling) -/
theorem name_midi (s : String) (hs : s ∈ ["C", "D", "E", "F", "G", "A", "B"])
    (a : Int) (ha : a ∈ [(-3 : Int), -2, -1, 0, 1, 2, 3]) (o : Nat) :
    noteNameToMidi (spellingToNoteName s a (o : Int)) = spellingToMidi s (some a) (o : Int) := by
  unfold noteNameToMidi
  rw [name_roundtrip s hs a ha o]

/-! ### keys -/

/-- key name ↔ (fifths, mode) is a bijection on the fifteen major and fifteen minor keys -/
theorem key_bijection (f : Int) (h1 : -7 ≤ f) (h2 : f ≤ 7) (m : Mode) :
    (fifthsModeToKeyName f m).isSome ∧
    (fifthsModeToKeyName f m).bind keyNameToFifthsMode = some (f, m) := by
  interval_cases f <;> cases m <;> decide

/-- the thirty names are pairwise different -/
theorem key_names_distinct : (MAJOR_KEYS ++ MINOR_KEYS.map (· ++ "m")).Nodup ∧
    MAJOR_KEYS.length = 15 ∧ MINOR_KEYS.length = 15 := by decide

/-- values outside -7..7 are rejected (every integer), never mapped to another key -/
theorem key_rejects (f : Int) (m : Mode) (h : f < -7 ∨ 7 < f) : fifthsModeToKeyName f m = none := by
  unfold fifthsModeToKeyName
  cases m <;> simp only
  all_goals
    split
    · rfl
    · have hl : MAJOR_KEYS.length = 15 ∧ MINOR_KEYS.length = 15 := by decide
      have : 15 ≤ (f + 7).toNat := by omega
      simp [List.getElem?_eq_none, hl.1, hl.2, this]

/-- unknown mode spellings are rejected; the accepted ones are exactly the documented six -/
theorem mode_spellings (s : String) :
    (modeOfString s).isSome ↔ s ∈ ["minor", "-1", "major", "None", "none", "1"] := by
  unfold modeOfString
  split <;> simp_all

/-- mode codes decode to what was encoded -/
theorem mode_code_roundtrip (m : Mode) : keyIntToMode (keyModeToInt m) = some m := by
  cases m <;> decide

/-- clef codes decode to what was encoded, in both directions (whole regenerated table) -/
theorem clef_code_roundtrip :
    (∀ e ∈ CLEF_TO_INT, clefIntToSign e.2 = some e.1 ∧ clefSignToInt e.1 = some e.2) ∧
    (∀ e ∈ INT_TO_CLEF, clefSignToInt e.2 = some e.1 ∧ clefIntToSign e.1 = some e.2) := by decide

/-! ### intervals, durations, tempo -/

def genericBase : Nat → Int
  | 1 => 0 | 2 => 2 | 3 => 4 | 4 => 5 | 5 => 7 | 6 => 9 | 7 => 11 | _ => 0

def qualityOffset (perfect : Bool) : String → Option Int
  | "dd" => some (if perfect then -2 else -3)
  | "d" => some (if perfect then -1 else -2)
  | "m" => if perfect then none else some (-1)
  | "M" => if perfect then none else some 0
  | "P" => if perfect then some 0 else none
  | "A" => some 1
  | "AA" => some 2
  | _ => none

def isPerfect (n : Nat) : Bool := n == 1 || n == 4 || n == 5

/-- every one of the 39 interval classes has its defined size:
    major-scale degree plus the offset of its quality -/
theorem interval_table :
    INTERVALCLASSES.length = 39 ∧ INTERVALCLASSES.Nodup ∧
    ∀ q ∈ ["dd", "d", "m", "M", "P", "A", "AA"], ∀ n ∈ [1, 2, 3, 4, 5, 6, 7],
      (INTERVALCLASSES.contains (q ++ showNat n) = (qualityOffset (isPerfect n) q).isSome) ∧
      (intervalSemitones q n = (qualityOffset (isPerfect n) q).map (genericBase n + ·)) := by
  decide +kernel

/-- `change_quality` on every interval class and every step that stays on the ladder: the result is again one of
    the 39 classes (same number) and its size is the old size plus the step — the size an interval object reports
    after its quality was changed is that of its NEW quality.  (Finite: 7 qualities × 7 numbers × steps −6..6.) -/
def cqOk (q : String) (n : Nat) (k : Int) : Bool :=
  match changeQuality n q k with
  | some q' => intervalValid q' n "up" && (intervalSemitones q' n == (intervalSemitones q n).map (· + k))
  | none => true

theorem change_quality_table :
    ∀ q ∈ ["dd", "d", "m", "M", "P", "A", "AA"], ∀ n ∈ [1, 2, 3, 4, 5, 6, 7],
      ∀ k ∈ ([-6, -5, -4, -3, -2, -1, 0, 1, 2, 3, 4, 5, 6] : List Int),
      intervalValid q n "up" = true → cqOk q n k = true := by
  decide +kernel

theorem indexOf_lt {α : Type} [DecidableEq α] (x : α) : ∀ (l : List α) (i : Nat), indexOf x l = some i → i < l.length := by
  intro l
  induction l with
  | nil => intro i h; simp [indexOf] at h
  | cons a t ih =>
    intro i h
    unfold indexOf at h
    split at h
    · cases h; simp
    · cases hi : indexOf x t with
      | none => simp [hi] at h
      | some j =>
        simp [hi] at h
        have := ih j hi
        subst h
        simp; omega

theorem change_quality_on_far (l : List String) (q : String) (k : Int) (hl : l.length ≤ 6) (hk : k < -5 ∨ 5 < k) :
    changeQualityOn l q k = none := by
  unfold changeQualityOn
  cases h : indexOf q l with
  | none => rfl
  | some i =>
    have := indexOf_lt q l i h
    have hcond : (decide ((i : Int) + k < 0) || decide ((i : Int) + k ≥ (l.length : Int))) = true := by
      simp; omega
    simp only [hcond, if_true]

/-- steps of more than five semitones leave every ladder: the code raises -/
theorem change_quality_far (n : Nat) (q : String) (k : Int) (hk : k < -5 ∨ 5 < k) :
    changeQuality n q k = none := by
  unfold changeQuality
  have h0 : k ≠ 0 := by omega
  simp only [h0, if_false]
  apply change_quality_on_far _ _ _ _ hk
  unfold qualityLadder
  split <;> simp

/-- for EVERY step: whenever `change_quality` succeeds on a valid interval class, the new class is valid and its
    size is the old size plus the step -/
theorem change_quality_size (q : String) (n : Nat) (k : Int) (q' : String)
    (hq : q ∈ ["dd", "d", "m", "M", "P", "A", "AA"]) (hn : n ∈ [1, 2, 3, 4, 5, 6, 7])
    (hv : intervalValid q n "up" = true) (h : changeQuality n q k = some q') :
    intervalValid q' n "up" = true ∧ intervalSemitones q' n = (intervalSemitones q n).map (· + k) := by
  by_cases hk : k < -5 ∨ 5 < k
  · rw [change_quality_far n q k hk] at h; cases h
  · have hk' : k ∈ ([-6, -5, -4, -3, -2, -1, 0, 1, 2, 3, 4, 5, 6] : List Int) := by
      have : -5 ≤ k ∧ k ≤ 5 := by omega
      obtain ⟨h1, h2⟩ := this
      interval_cases k <;> simp
    have := change_quality_table q hq n hn k hk' hv
    unfold cqOk at this
    rw [h] at this
    simpa using this

example : changeQuality 3 "M" (-1) = some "m" ∧ changeQuality 4 "A" (-2) = some "d" ∧
    changeQuality 3 "M" 1 = some "A" ∧ changeQuality 5 "P" 3 = none := by decide

/-- dotted units: the multiplier of d dots is 2 - 1/2^d -/
theorem dot_multipliers : DOT_MULTIPLIERS = [0, 1, 2, 3].map (fun d : Nat => (2 : Rat) - 1 / 2 ^ d) := by
  decide +kernel

/-- note-value labels carry their defined values (whole = 4 quarters, halving each step) -/
theorem label_durs_defined :
    ∀ e ∈ SYMBOLIC_TO_INT_DURS, lookup e.1 LABEL_DURS = some (4 / e.2) := by decide +kernel

def dotsStr (d : Nat) : String := String.ofList (List.replicate d '.')

theorem tempo_units_aux :
    ∀ e ∈ LABEL_DURS, ∀ d ∈ [0, 1, 2, 3],
      countChar '.' (e.1 ++ dotsStr d) = d ∧
      lookup (String.ofList ((stripChars (e.1 ++ dotsStr d).toList).reverse.dropWhile (· = '.')).reverse)
        LABEL_DURS = some e.2 := by
  decide +kernel

/-- tempo units: `unit` with d dots at tempo t is t · (2 − 1/2^d) · value(unit) quarters per minute,
    for every unit string of the table and every tempo -/
theorem tempo_units (u : String) (v : Rat) (d : Nat) (t : Rat)
    (hu : (u, v) ∈ LABEL_DURS) (hd : d ∈ [0, 1, 2, 3]) :
    toQuarterTempo (u ++ dotsStr d) t = some (t * ((2 : Rat) - 1 / 2 ^ d) * v) := by
  obtain ⟨h1, h2⟩ := tempo_units_aux (u, v) hu d hd
  unfold toQuarterTempo
  simp only [h1, h2]
  have hm : DOT_MULTIPLIERS[d]? = some ((2 : Rat) - 1 / 2 ^ d) := by
    rw [dot_multipliers]
    simp only [List.mem_cons, List.mem_nil_iff, or_false] at hd
    rcases hd with rfl | rfl | rfl | rfl <;> rfl
  simp [hm]

/-- symbolic → numeric duration: divs · value · dots · normal/actual -/
theorem symbolic_numeric (ty : String) (v : Rat) (d : Nat) (a n : Nat) (divs : Rat)
    (hu : lookup ty LABEL_DURS = some v) (hd : d ∈ [0, 1, 2, 3]) (ha : a ≠ 0) (hn : n ≠ 0) :
    symbolicToNumeric (ty, d, some a, some n) divs
      = some (divs * v * ((2 : Rat) - 1 / 2 ^ d) * ((n : Rat) / (a : Rat))) := by
  have hm : DOT_MULTIPLIERS[d]? = some ((2 : Rat) - 1 / 2 ^ d) := by
    rw [dot_multipliers]
    simp only [List.mem_cons, List.mem_nil_iff, or_false] at hd
    rcases hd with rfl | rfl | rfl | rfl <;> rfl
  have ha' : ((a : Nat) : Rat) ≠ 0 := by exact_mod_cast ha
  have hn' : ((n : Nat) : Rat) ≠ 0 := by exact_mod_cast hn
  simp [symbolicToNumeric, hu, hm, ha', hn']

/-! ### seconds and ticks -/

/-- ticks = round(10^6·ppq·t/mpq): the result is a nearest integer … -/
theorem tick_nearest (t : Rat) (mpq ppq : Nat) :
    |((secToTick t mpq ppq : Int) : Rat) - 1000000 * (ppq : Rat) * t / (mpq : Rat)| ≤ 1 / 2 :=
  Round.roundHalfEven_close _

/-- … and ties go to the even neighbour -/
theorem tick_ties_even (t : Rat) (mpq ppq : Nat)
    (h : (1000000 * (ppq : Rat) * t / (mpq : Rat)) - ((1000000 * (ppq : Rat) * t / (mpq : Rat)).floor : Rat) = 1 / 2) :
    secToTick t mpq ppq % 2 = 0 :=
  Round.roundHalfEven_tie_even _ h

/-- ticks → seconds → ticks is the identity for every tick, ppq and mpq -/
theorem tick_sec_tick (k : Int) (mpq ppq : Nat) (hm : 0 < mpq) (hp : 0 < ppq) :
    secToTick (tickToSec k mpq ppq) mpq ppq = k := by
  unfold secToTick tickToSec
  have h1 : ((mpq : Nat) : Rat) ≠ 0 := by exact_mod_cast (Nat.pos_iff_ne_zero.mp hm)
  have h2 : ((ppq : Nat) : Rat) ≠ 0 := by exact_mod_cast (Nat.pos_iff_ne_zero.mp hp)
  have : 1000000 * (ppq : Rat) * ((mpq : Rat) * (k : Rat) / (1000000 * (ppq : Rat))) / (mpq : Rat) = (k : Rat) := by
    field_simp
  rw [this]
  exact Round.roundHalfEven_int k

/-- non-vacuity: concrete values -/
example : secToTick (1/3) 500000 480 = 320 ∧ tickToSec 320 500000 480 = 1/3 := by decide +kernel

end C12
