/-
C01, round 5 — ORDER among the objects of one time point (so far only compared with the model).

`regAt pts sd x` is the registry of side `sd` of the point at time `x` AS A LIST (`[]` when there is no point).
Proved: the exact list after every state-changing operation — `add` appends (an object already listed keeps
its position), `remove` deletes without disturbing the others, nothing else touches any registry — and the
exact order of a query answer: time points in increasing time, inside a point the class itself first, then
the classes in `iter_subclasses` order, inside a class insertion order.
-/
import PartituraModel.Proofs.C01Order
import PartituraModel.Props.C01Classes

namespace C01
open TL

/-! ### `_OrderedSet` -/

/-- `_OrderedSet.add`: a new element goes LAST; re-adding an element keeps its position -/
theorem regAdd_order (l : List ObjRef) (o : ObjRef) :
    (o ∉ l → regAdd l o = l ++ [o]) ∧ (o ∈ l → regAdd l o = l) := by
  unfold regAdd
  exact ⟨fun h => by simp [h], fun h => by simp [h]⟩

/-- `_OrderedSet.remove`: the element is gone, the others keep their relative order -/
theorem regRemove_order (l : List ObjRef) (o : ObjRef) :
    (regRemove l o).Sublist l ∧ o ∉ regRemove l o ∧ (∀ x ∈ l, x ≠ o → x ∈ regRemove l o)
      ∧ (o ∉ l → regRemove l o = l) := by
  unfold regRemove
  refine ⟨List.filter_sublist, by simp, fun x hx hne => by simp [hx, hne], fun h => ?_⟩
  rw [List.filter_eq_self]
  intro a ha
  simp only [ne_eq, decide_not, Bool.not_eq_eq_eq_not, Bool.not_true, decide_eq_false_iff_not]
  rintro rfl
  exact h ha

/-! ### the registries as lists, operation by operation -/

/-- `add(o, start, end)` in ANY reachable state: on each supplied side the registry at that time becomes
`regAdd old o`; every other registry is the same list as before -/
theorem registry_order_add {s : Part} (hW : WInv s) {o : ObjRef} {st en : Option Int}
    (hn : (Op.add o st en).negTime = false) :
    ∃ s', step s (.add o st en) = .ok (s', .unit) ∧ ∀ sd x, regAt s'.points sd x
      = if (sd = .start ∧ st = some x) ∨ (sd = .stop ∧ en = some x) then regAdd (regAt s.points sd x) o
        else regAt s.points sd x := by
  have hg := (wgood_iff_winv s).mpr hW
  simp only [Op.negTime, Bool.or_eq_false_iff] at hn
  have stage : ∀ (s0 : Part) (hg0 : WGood s0) (sd0 : Side) (t0 : Option Int) (h0 : isNeg t0 = false),
      ∃ s1, addSideOpt s0 sd0 t0 o = .ok s1 ∧ WGood s1 ∧ ∀ sd x, regAt s1.points sd x
        = if sd = sd0 ∧ t0 = some x then regAdd (regAt s0.points sd x) o else regAt s0.points sd x := by
    intro s0 hg0 sd0 t0 h0
    cases t0 with
    | none => exact ⟨s0, rfl, hg0, fun sd x => by simp⟩
    | some t =>
      have ht := isNeg_false_some h0
      obtain ⟨s1, he, hg1, -⟩ := addSide_wspec hg0 (sd := sd0) (o := o) ht
      refine ⟨s1, he, hg1, fun sd x => ?_⟩
      rw [addSide_regAt hg0 ht he sd x]
      by_cases hx : x = t
      · subst hx
        by_cases hsd : sd = sd0
        · subst hsd; simp
        · simp [hsd]
      · have : ¬ t = x := fun e => hx e.symm
        simp [hx, this]
  obtain ⟨s1, he1, hg1, hr1⟩ := stage s hg .start st hn.1
  obtain ⟨s2, he2, -, hr2⟩ := stage s1 hg1 .stop en hn.2
  refine ⟨s2, ?_, fun sd x => ?_⟩
  · simp [step, stepAdd, hn.1, hn.2, he1, he2, Except.bind, Except.map]
  · rw [hr2, hr1]
    cases sd <;> simp

/-- `remove(o, which)` in ANY reachable state: on each requested side the registry of the point the object
refers to loses the object; every other registry is the same list as before -/
theorem registry_order_remove {s : Part} (hW : WInv s) (o : ObjRef) (w : Which) :
    ∃ s', step s (.remove o w) = .ok (s', .unit) ∧ ∀ sd x, regAt s'.points sd x
      = if w.has sd ∧ (getObj s.objs o).at sd = some x then regRemove (regAt s.points sd x) o
        else regAt s.points sd x := by
  have hg := (wgood_iff_winv s).mpr hW
  have stage : ∀ (s0 : Part) (hg0 : WGood s0) (sd0 : Side) (doit : Prop) [Decidable doit],
      ∃ s1, (if doit then removeSide s0 sd0 o else .ok s0) = .ok s1 ∧ WGood s1
        ∧ (∀ sd', sd' ≠ sd0 → (getObj s1.objs o).at sd' = (getObj s0.objs o).at sd')
        ∧ ∀ sd x, regAt s1.points sd x
          = if doit ∧ sd = sd0 ∧ (getObj s0.objs o).at sd0 = some x then regRemove (regAt s0.points sd x) o
            else regAt s0.points sd x := by
    intro s0 hg0 sd0 doit _
    by_cases hd : doit
    · simp only [hd, if_true, true_and]
      obtain ⟨s1, he, hg1, -, -, hoth, -, -⟩ := removeSide_weffect hg0 sd0 o
      refine ⟨s1, he, hg1, hoth, fun sd x => ?_⟩
      cases hat : (getObj s0.objs o).at sd0 with
      | none =>
        have : s1 = s0 := by
          unfold removeSide at he
          simp only [hat, pure, Except.pure, Except.ok.injEq] at he
          exact he.symm
        subst this
        simp
      | some t =>
        rw [removeSide_regAt hg0 hat he sd x]
        by_cases hx : x = t
        · subst hx
          by_cases hsd : sd = sd0
          · subst hsd; simp
          · simp [hsd]
        · have : ¬ t = x := fun e => hx e.symm
          simp [hx, this]
    · simp only [hd, if_false, false_and]
      exact ⟨s0, rfl, hg0, fun _ _ => rfl, fun _ _ => rfl⟩
  obtain ⟨s1, he1, hg1, ho1, hr1⟩ := stage s hg .start (w = .start ∨ w = .both)
  obtain ⟨s2, he2, -, -, hr2⟩ := stage s1 hg1 .stop (w = .stop ∨ w = .both)
  refine ⟨s2, ?_, fun sd x => ?_⟩
  · simp only [step, stepRemove, he1, Except.bind, he2, Except.map]
  · rw [hr2, hr1, ho1 .stop (by decide)]
    cases sd <;> cases w <;> simp [Which.has]

/-- `get_or_add_point` and `set_quarter_duration` leave every registry as the list it was -/
theorem registry_order_frame {s : Part} (hW : WInv s) :
    (∀ t, 0 ≤ t → ∀ s' out, step s (.getOrAdd t) = .ok (s', out) → ∀ sd x, regAt s'.points sd x = regAt s.points sd x)
    ∧ (∀ t q sd x, regAt (setQD s t q).points sd x = regAt s.points sd x) := by
  have hg := (wgood_iff_winv s).mpr hW
  constructor
  · intro t ht s' out he sd x
    simp only [step, stepGetOrAdd] at he
    cases h1 : ensurePoint s t with
    | error e => simp [h1, Except.map] at he
    | ok s1 =>
      simp only [h1, Except.map, Except.ok.injEq, Prod.mk.injEq] at he
      obtain ⟨rfl, -⟩ := he
      exact ensurePoint_regAt hg ht h1 sd x
  · intro t q sd x
    have key : ∀ (l l' : List Point), l'.map (fun p => (p.t, p.starting, p.ending)) = l.map (fun p => (p.t, p.starting, p.ending)) →
        regAt l' sd x = regAt l sd x := by
      intro l l' h
      unfold regAt findPoint
      induction l generalizing l' with
      | nil => cases l' <;> simp_all
      | cons a l ih =>
        cases l' with
        | nil => simp at h
        | cons a' l' =>
          simp only [List.map_cons, List.cons.injEq, Prod.mk.injEq] at h
          obtain ⟨⟨h1, h2, h3⟩, h4⟩ := h
          simp only [List.find?_cons, h1]
          cases (a.t == x) with
          | true => cases sd <;> simp [Point.reg, h2, h3]
          | false => exact ih l' h4
    apply key
    unfold setQD
    split
    · rfl
    · simp only
      generalize (searchsorted (s.points.map (·.t)) t) = si
      rename_i i tab' _
      generalize (endIdx s.points (tab'[i + 1]?.map (·.1))) = ei
      induction s.points generalizing si ei with
      | nil => rfl
      | cons p ps ih =>
        cases si with
        | zero =>
          cases ei with
          | zero => rfl
          | succ ei => simp only [setQuarterRange, List.map_cons, ih 0 ei]
        | succ si => simp only [setQuarterRange, List.map_cons, ih si (ei - 1)]

/-- `tp.add_*_object(o)` / `tp.remove_*_object(o)` called directly on the point at `t` -/
theorem registry_order_tp {s : Part} (hW : WInv s) (sd : Side) {t : Int} (o : ObjRef) (ht : t ∈ s.times) :
    (∀ sd' x, regAt (tpRegister s sd t o).points sd' x
      = if x = t ∧ sd' = sd then regAdd (regAt s.points sd t) o else regAt s.points sd' x)
    ∧ (∀ sd' x, regAt (tpUnregister s sd t o).points sd' x
      = if x = t ∧ sd' = sd then regRemove (regAt s.points sd t) o else regAt s.points sd' x) := by
  obtain ⟨p, hfp, hreg⟩ := regAt_of_mem hW.sorted ht sd
  have fin : ∀ (f : List ObjRef → List ObjRef) sd' x,
      regAt (modifyPoint s.points t (fun p => p.setReg sd (f (p.reg sd)))) sd' x
        = if x = t ∧ sd' = sd then f (regAt s.points sd t) else regAt s.points sd' x := by
    intro f sd' x
    rw [regAt_modify _ _ _ (fun p => by simp)]
    by_cases hx : x = t
    · subst hx
      simp only [if_true, true_and, hfp, Option.map_some, Option.getD_some, setReg_reg]
      by_cases hsd : sd' = sd
      · subst hsd; simp only [if_true]; rw [← hreg]
      · simp only [hsd, if_false]; simp [regAt, hfp]
    · simp only [hx, if_false, false_and]
  constructor
  · intro sd' x
    exact fin (fun l => regAdd l o) sd' x
  · intro sd' x
    rw [tpUnregister_eq, allowEmpty_points]
    exact fin (fun l => regRemove l o) sd' x

/-! ### the order of a query answer -/

/-- the class walk of `iter_starting / iter_ending` never visits a class twice -/
theorem classOrder_nodup (cls : Option Nat) (incl : Bool) (hc : ∀ c, cls = some c → c < Gen.numClasses) :
    (classOrder cls incl).Nodup := by
  unfold classOrder
  cases cls with
  | none =>
    cases incl
    · simp
    · simpa [subSeq] using classes_object.1
  | some c =>
    have hc' := hc c rfl
    have h := classes_dfs.2.1 c (List.mem_range.mpr hc')
    cases incl
    · simp
    · simp only [if_true, subSeq, List.singleton_append, List.nodup_cons]
      exact ⟨h.2, h.1⟩

/-- ONE point's answer: `iter_starting(cls, incl)` yields the registry's objects of the class itself first,
then of the classes in `iter_subclasses(cls)` order; inside a class in registry (= insertion) order -/
theorem answer_order_in_point {reg : List ObjRef} (hn : reg.Nodup) (cls : Option Nat) (incl : Bool)
    (hc : ∀ c, cls = some c → c < Gen.numClasses) :
    iterReg reg cls incl = ((classOrder cls incl).flatMap fun c => reg.filter (fun o => o.cls == c))
    ∧ (iterReg reg cls incl).Pairwise fun o1 o2 =>
        (classOrder cls incl).idxOf o1.cls < (classOrder cls incl).idxOf o2.cls
        ∨ (o1.cls = o2.cls ∧ reg.idxOf o1 < reg.idxOf o2) := by
  refine ⟨iterReg_eq_classOrder reg cls incl, ?_⟩
  rw [iterReg_eq_classOrder]
  exact buckets_ordered hn (classOrder_nodup cls incl hc)

/-- the whole answer of `iter_all`: the time points of `[a, b)` in increasing time order, each contributing its
registry of the chosen side filtered class by class along the class walk -/
theorem iterAll_order {s : Part} (hW : WInv s) (cls : Option Nat) (a b : Option Int) (incl : Bool) (mode : Mode) :
    iterAll s cls a b incl mode
      = (rangePoints s.points a b).flatMap (fun p =>
          (classOrder cls (inclEff cls incl)).flatMap fun c => (p.reg mode.side).filter (fun o => o.cls == c))
    ∧ ((rangePoints s.points a b).map (·.t)).Pairwise (· < ·)
    ∧ (∀ p, p ∈ rangePoints s.points a b ↔ p ∈ s.points ∧ inRange a b p.t)
    ∧ (∀ p ∈ rangePoints s.points a b, p.reg mode.side = regAt s.points mode.side p.t) := by
  refine ⟨?_, (List.Pairwise.sublist (List.Sublist.map _ List.filter_sublist) hW.sorted), ?_, ?_⟩
  · rw [iterAll_eq hW.sorted]
    congr 1
    funext p
    exact iterReg_eq_classOrder _ _ _
  · intro p
    constructor
    · intro hp
      have hm := (List.mem_filter.mp hp).1
      have : p.t ∈ (rangePoints s.points a b).map (·.t) := List.mem_map_of_mem hp
      exact ⟨hm, (mem_rangePoints_times.mp this).2⟩
    · rintro ⟨hm, hr⟩
      have : p.t ∈ (rangePoints s.points a b).map (·.t) :=
        mem_rangePoints_times.mpr ⟨List.mem_map_of_mem hm, hr⟩
      obtain ⟨p', hp', ht⟩ := List.mem_map.mp this
      have := point_unique hW.sorted (List.mem_filter.mp hp').1 hm ht
      rwa [this] at hp'
  · intro p hp
    have hm := (List.mem_filter.mp hp).1
    obtain ⟨p', hfp, hreg⟩ := regAt_of_mem hW.sorted (List.mem_map_of_mem hm) mode.side
    have := point_unique hW.sorted (findPoint_mem hfp).1 hm (findPoint_mem hfp).2
    rw [hreg, this]

/-! ### non-vacuity -/

section Examples

/-- three notes at one point, the second re-added after removal: it moves to the END of its bucket; the
GraceNote (class 3, a subclass of Note = class 2) comes after the Notes whatever the insertion order -/
def ohist : List Op :=
  [.add nB (some 4) none, .add nA (some 4) none, .add rD (some 4) none,
   .add { id := 7, cls := 2 } (some 4) none, .remove nA .start, .add nA (some 4) none]

example : regAt (run (Part.init 1) ohist).points .start 4 = [nB, rD, { id := 7, cls := 2 }, nA] := by decide +kernel
example : iterAll (run (Part.init 1) ohist) (some 2) none none true .starting = [{ id := 7, cls := 2 }, nA, nB] := by
  decide +kernel
example : classOrder (some 2) true = [2, 3] ∧ classOrder none false = [] := by decide +kernel
example : regAdd [nA, nB] nA = [nA, nB] ∧ regAdd [nA, nB] rD = [nA, nB, rD] ∧ regRemove [nA, nB, rD] nB = [nA, rD] := by
  decide

end Examples

end C01
