/-
C17 (round 5) — the argument dispatch of the estimators: `estimate_spelling(note_info, method, **kwargs)` and
`estimate_key(note_info, method, *args, **kwargs)` (Model/C17Wrap.lean `estimateSpellingOpts`, `estimateKeyOpts`): which
calls are accepted, which defaults apply, and that every accepted call is one of the calls the other theorems speak
about.  The method tuples, defaults and keyword-parameter lists come from Gen/C17Tables.lean (regenerated on every run).
-/
import PartituraModel.Props.C17Options
import PartituraModel.Props.C17Float

namespace C17
open Model Model.C17Wrap Gen

/-! ### estimate_spelling -/

/-- whole regenerated tables: the default method is a method that binds the algorithm, and the keyword parameters of
    `ps13s1` are exactly the two the model looks up -/
theorem spelling_dispatch_tables :
    ESTIMATE_SPELLING_METHOD_DEFAULT ∈ ESTIMATE_SPELLING_METHODS ∧ PS13_KWARGS = ["K_pre", "K_post"] := by
  decide

/-- an accepted call IS ps13 on the rows the unit selection picks, with the given windows or the defaults of the
    signature; any other method, or any other keyword, is rejected (the code raises) -/
theorem spelling_opts_spec (method : Option String) (kw : List (String × Nat)) (a : NoteArray) :
    estimateSpellingOpts method kw a =
      if method.getD ESTIMATE_SPELLING_METHOD_DEFAULT ∈ ESTIMATE_SPELLING_METHODS ∧ ∀ x ∈ kw, x.1 ∈ PS13_KWARGS then
        (spellingRows a).bind fun rows =>
          C17Float.ps13F ((lookup "K_pre" kw).getD PS13_K_PRE) ((lookup "K_post" kw).getD PS13_K_POST) rows
      else none := rfl

/-- no arguments at all: the defaults of the source -/
theorem spelling_opts_default (a : NoteArray) :
    estimateSpellingOpts none [] a = (spellingRows a).bind (C17Float.ps13F PS13_K_PRE PS13_K_POST) := by
  rw [spelling_opts_spec, if_pos ⟨spelling_dispatch_tables.1, by simp⟩]
  simp [lookup]

/-- every accepted call on an array of MIDI pitches, whatever method spelling and windows were passed: one spelling per
    row of the array, each sounding the row's pitch (binary64 steps included) -/
theorem spelling_opts_sound (method : Option String) (kw : List (String × Nat)) (a : NoteArray)
    (rows : List Ps13.Row) (sp : List (String × Int × Int)) (hrows : spellingRows a = some rows)
    (hr : ∀ r ∈ rows, 0 ≤ r.2 ∧ r.2 ≤ 127) (h : estimateSpellingOpts method kw a = some sp) :
    sp.length = rows.length ∧ ∀ i (hi : i < rows.length), ∃ s, sp[i]? = some s ∧ sounding s = some rows[i].2 := by
  rw [spelling_opts_spec] at h
  split at h
  · simp only [hrows, Option.bind_some] at h
    exact spelling_sounds_binary64 _ _ rows sp hr h
  · cases h

/-- totality of the documented interface: the default or a listed method, only `K_pre` / `K_post` as keywords, an array
    that has an onset field and `pitch`, at least one row — the call answers -/
theorem spelling_opts_total (method : Option String) (kw : List (String × Nat)) (a : NoteArray) (rows : List Ps13.Row)
    (hm : method.getD ESTIMATE_SPELLING_METHOD_DEFAULT ∈ ESTIMATE_SPELLING_METHODS)
    (hk : ∀ x ∈ kw, x.1 ∈ PS13_KWARGS) (hrows : spellingRows a = some rows) (hne : rows ≠ []) :
    ∃ sp, estimateSpellingOpts method kw a = some sp := by
  rw [spelling_opts_spec, if_pos ⟨hm, hk⟩, hrows]
  simp [C17Float.ps13F, hne]

example : estimateSpellingOpts (some "ps13") [] { pitch := some [60], cols := [("onset_beat", [0])] } = none := by decide
example : estimateSpellingOpts none [("Kpre", 3)] { pitch := some [60], cols := [("onset_beat", [0])] } = none := by decide

/-! ### estimate_key -/

/-- whole regenerated tables: the default method is accepted, the keywords the model looks up are exactly the
    keyword parameters of `ks_kid`, and the default profile name selects the matrix `ks_kid` itself defaults to -/
theorem key_dispatch_tables :
    ESTIMATE_KEY_METHOD_DEFAULT ∈ ESTIMATE_KEY_METHODS ∧ KS_KID_KWARGS = ["key_profiles", "return_sorted_keys"] ∧
    ESTIMATE_KEY_DEFAULT ∈ VALID_KEY_PROFILES ∧
    (ksKidSet ESTIMATE_KEY_DEFAULT).isSome = true ∧ ksKidSet ESTIMATE_KEY_DEFAULT = setOfMatrix KS_KID_DEFAULT := by
  decide

/-- extra positional arguments are always rejected: `estimate_key` has put `key_profiles` into the keywords, and the
    first positional parameter of `ks_kid` after the array is `key_profiles` (TypeError) -/
theorem key_opts_positional_rejected (method : Option String) (n : Nat) (hn : n ≠ 0) (kw : List (String × KwVal))
    (a : NoteArray) : estimateKeyOpts method n kw a = none := by
  unfold estimateKeyOpts
  split
  · cases keyProfileArg kw with
    | none => rfl
    | some name => simp only [Option.bind_some]; rw [if_neg (fun h => hn h.1)]
  · rfl

/-- a method outside the accepted tuple is rejected (ValueError) -/
theorem key_opts_method_rejected (method : Option String) (n : Nat) (kw : List (String × KwVal)) (a : NoteArray)
    (hm : method.getD ESTIMATE_KEY_METHOD_DEFAULT ∉ ESTIMATE_KEY_METHODS) : estimateKeyOpts method n kw a = none := by
  unfold estimateKeyOpts; rw [if_neg hm]

/-- a `key_profiles` outside `VALID_KEY_PROFILES` (or not a string) is rejected (ValueError) -/
theorem key_opts_profile_rejected (method : Option String) (n : Nat) (kw : List (String × KwVal)) (a : NoteArray)
    (h : keyProfileArg kw = none) : estimateKeyOpts method n kw a = none := by
  unfold estimateKeyOpts; split <;> simp [h]

/-- whatever an accepted call answers is well-formed: a single valid key name, or — `return_sorted_keys=True` — each of
    the 24 key names exactly once -/
theorem key_opts_valid (method : Option String) (n : Nat) (kw : List (String × KwVal)) (a : NoteArray) (r : KeyAnswer)
    (h : estimateKeyOpts method n kw a = some r) :
    match r with
    | .one nm => nm ∈ MAJOR_KEYS ∨ ∃ root ∈ MINOR_KEYS, nm = root ++ "m"
    | .ranking l => l.Perm ((List.finRange 24).map keyName) ∧ l.length = 24 := by
  unfold estimateKeyOpts at h
  split at h
  · cases hp : keyProfileArg kw with
    | none => simp [hp] at h
    | some name =>
      simp only [hp, Option.bind_some] at h
      split at h
      · cases hs : ksKidSet name with
        | none => simp [hs] at h
        | some ps =>
          cases hr : keyRows a with
          | none => simp [hs, hr] at h
          | some rows =>
            simp only [hs, hr, Option.bind_some] at h
            split at h
            · cases h; exact sorted_keys_perm ps rows
            · cases h
            · rw [key_fast_path] at h
              obtain ⟨nm, h1, h2⟩ := key_estimate_valid ps rows
              rw [h1] at h; cases h; exact h2
      · cases h
  · cases h

/-- totality of the documented interface: default or listed method, no extra positional arguments, `key_profiles` absent
    or one of `VALID_KEY_PROFILES`, `return_sorted_keys` absent or a boolean, nothing else, an array with `pitch` and the
    selected duration field — the call answers -/
theorem key_opts_total (method : Option String) (prof : Option String) (srt : Option Bool) (a : NoteArray)
    (rows : List KeyEst.KNote)
    (hm : method.getD ESTIMATE_KEY_METHOD_DEFAULT ∈ ESTIMATE_KEY_METHODS)
    (hp : ∀ n, prof = some n → n ∈ VALID_KEY_PROFILES) (hrows : keyRows a = some rows) :
    ∃ r, estimateKeyOpts method 0
      ((prof.map fun n => ("key_profiles", KwVal.str n)).toList ++
        (srt.map fun b => ("return_sorted_keys", KwVal.bool b)).toList) a = some r := by
  have hdef := key_dispatch_tables
  have hall := valid_profile_names_accepted
  have hset : ∀ n ∈ VALID_KEY_PROFILES, ∃ ps, ksKidSet n = some ps := by
    intro n hn
    have := hall n hn
    simp only [estimateKeySet, List.contains_iff_mem, hn, if_true] at this
    exact Option.isSome_iff_exists.mp this
  -- the keyword list only holds parameters of ks_kid
  have hkw : ∀ x ∈ (prof.map fun n => ("key_profiles", KwVal.str n)).toList ++
      (srt.map fun b => ("return_sorted_keys", KwVal.bool b)).toList, x.1 ∈ KS_KID_KWARGS := by
    intro x hx
    rw [hdef.2.1]
    rcases List.mem_append.mp hx with h | h
    · cases prof <;> simp at h; subst h; simp
    · cases srt <;> simp at h; subst h; simp
  -- the profile name the call selects
  obtain ⟨name, hname, hvalid⟩ : ∃ name, keyProfileArg ((prof.map fun n => ("key_profiles", KwVal.str n)).toList ++
      (srt.map fun b => ("return_sorted_keys", KwVal.bool b)).toList) = some name ∧ name ∈ VALID_KEY_PROFILES := by
    cases prof with
    | none => cases srt <;> exact ⟨_, by simp [keyProfileArg, lookup], hdef.2.2.1⟩
    | some n => exact ⟨n, by simp [keyProfileArg, lookup, hp n rfl], hp n rfl⟩
  obtain ⟨ps, hps⟩ := hset name hvalid
  obtain ⟨nm, h1, _⟩ := key_estimate_valid ps rows
  unfold estimateKeyOpts
  rw [if_pos hm, hname]
  simp only [Option.bind_some]
  rw [if_pos ⟨trivial, hkw⟩, hps, hrows]
  simp only [Option.bind_some]
  split
  · exact ⟨_, rfl⟩
  · rename_i s hs
    exfalso
    cases prof <;> cases srt <;> simp [lookup] at hs
  · exact ⟨_, by rw [key_fast_path, h1]; rfl⟩

example : estimateKeyOpts (some "krumhansl") 1 [] { pitch := some [60], cols := [("onset_beat", [0]), ("duration_beat", [1])] } = none := by
  decide
example : estimateKeyOpts none 0 [("key_profiles", .str "ks")] { pitch := some [60], cols := [("onset_beat", [0]), ("duration_beat", [1])] } = none := by
  decide

end C17
