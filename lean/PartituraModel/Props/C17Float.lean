/-
C17 — the binary64 steps of pitch spelling.  `compute_morphetic_pitch` chooses the octave of a morph by comparing three
distances it evaluates in binary64, and `p2pn` divides in binary64; `Model/C17Float.lean` mirrors these operations one
by one with IEEE 754 round-to-nearest-even.  On the whole MIDI range (0 .. 127, a superset of the property's 21 .. 108)
the rounded evaluation is proved to take the same decisions as the exact rational one, so every theorem of
Props/C17.lean about `Ps13.ps13` is a theorem about the spelling the code computes, rounding included.
-/
import PartituraModel.Proofs.C17Float
import PartituraModel.Proofs.C17RoundOps
import PartituraModel.Props.C17

namespace C17
open Model Gen

/-! ### the model's binary64 operations are correctly rounded

`Model/C17Float.lean` computes with integers only (dyadic numbers `m · 2^e`, a binary search for the leading bit).  That this
IS IEEE 754 round-to-nearest-even — for every input, not for the sampled ones of the correspondence stream `fl` / `fop` —
is proved here; what remains trusted about floating point is that numpy's float64 `+ - /` are correctly rounded and that
no overflow or subnormal occurs (the numbers of ps13 lie between 2^-10 and 2^8). -/

/-- `r` is a correct binary64 rounding of the rational `x`: zero for zero; otherwise a 53-bit significand
    (`2^52 ≤ |m| ≤ 2^53`), at most half a unit in the last place (`2^e`) away from `x`, and an even significand when `x`
    lies exactly halfway between two such numbers -/
def CorrectlyRounded (r : C17Float.Dy) (x : Rat) : Prop :=
  (x = 0 → r.m = 0) ∧
  (x ≠ 0 → (2 : Int) ^ 52 ≤ |r.m| ∧ |r.m| ≤ 2 ^ 53 ∧ 2 * |r.toRat - x| ≤ C17Float.pow2 r.e ∧
    (2 * |r.toRat - x| = C17Float.pow2 r.e → r.m % 2 = 0))

/-- `float(x)`: every rational is rounded correctly -/
theorem binary64_round (x : Rat) : CorrectlyRounded (C17Float.fl x) x := C17R.fl_nearest x

/-- `a + b`, `a - b` and `a / b` (`b ≠ 0`) of two dyadic numbers — in particular of two binary64 numbers — are the
    correctly rounded exact sum, difference and quotient -/
theorem binary64_add (a b : C17Float.Dy) : CorrectlyRounded (C17Float.fadd a b) (a.toRat + b.toRat) :=
  C17R.fadd_nearest a b
theorem binary64_sub (a b : C17Float.Dy) : CorrectlyRounded (C17Float.fsub a b) (a.toRat - b.toRat) :=
  C17R.fsub_nearest a b
theorem binary64_div (a b : C17Float.Dy) (hb : b.m ≠ 0) : CorrectlyRounded (C17Float.fdiv a b) (a.toRat / b.toRat) :=
  C17R.fdiv_nearest a b hb

/-- `np.floor` and `<` on dyadic numbers are exact -/
theorem binary64_floor_lt (a b : C17Float.Dy) :
    a.floor = ⌊a.toRat⌋ ∧ (C17Float.Dy.lt a b = true ↔ a.toRat < b.toRat) :=
  ⟨C17R.floor_eq a, C17R.lt_iff a b⟩

/-- the leading-bit search the rounding relies on: `lg w` is `⌊log2 w⌋` -/
theorem leading_bit (w : Nat) (h : 1 ≤ w) : 2 ^ C17Float.lg w ≤ w ∧ w < 2 ^ (C17Float.lg w + 1) := C17R.lg_spec w h

/-- non-vacuity: an exact tie.  `2^53 + 1` lies halfway between the neighbours `2^53` and `2^53 + 2`; the even significand
    wins (kernel-evaluated), as `float(9007199254740993) == 9007199254740992.0` -/
example : C17Float.fl 9007199254740993 = ⟨4503599627370496, 1⟩ ∧
    2 * |(C17Float.fl 9007199254740993).toRat - 9007199254740993| = C17Float.pow2 1 := by
  decide +kernel

/-! ### ps13 in binary64 -/

/-- the octave `compute_morphetic_pitch` picks in binary64 is the one exact arithmetic picks: every chromatic pitch of
    the MIDI range (cp = MIDI - 21), every morph (whole table 128 x 7, each entry ten rounded operations, kernel-evaluated) -/
theorem morphetic_pitch_binary64 (cp : Int) (m : Nat) (h0 : -21 ≤ cp) (h1 : cp ≤ 106) (hm : m < 7) :
    C17Float.morpheticPitchF cp (m : Int) = Ps13.morpheticPitch cp (m : Int) :=
  C17F.morpheticPitchF_eq cp m h0 h1 hm

/-- outside the range the claim is false, which is why it is stated with the range: near 2^51 semitones the rounding of
    `octave + chroma / 12` moves the note across the middle between two candidate octaves -/
example : C17Float.morpheticPitchF 1688849860263944 1 ≠ Ps13.morpheticPitch 1688849860263944 1 := by decide +kernel

/-- `np.floor(m_pitch / 7.0)` of `p2pn` is the exact floor for every morphetic pitch that can occur (-42 .. 97), so the
    step, alteration and octave computed with the binary64 quotient are the exact ones, for ANY chromatic pitch -/
theorem p2pn_binary64 (c mp : Int) (h0 : -42 ≤ mp) (h1 : mp ≤ 97) : C17Float.p2pnF c mp = Ps13.p2pn c mp :=
  C17F.p2pnF_eq c mp h0 h1

/-- end to end: on every note array whose pitches are MIDI pitches, any window sizes, any onsets, any row order, ps13 with
    the binary64 steps returns exactly what the exact model returns (and rejects the empty array like it) -/
theorem spelling_binary64 (kpre kpost : Nat) (notes : List Ps13.Row) (hr : ∀ r ∈ notes, 0 ≤ r.2 ∧ r.2 ≤ 127) :
    C17Float.ps13F kpre kpost notes = Ps13.ps13 kpre kpost notes :=
  C17F.ps13F_eq kpre kpost notes hr

/-- hence, rounding included: every note is spelled and its spelling sounds exactly its MIDI pitch -/
theorem spelling_sounds_binary64 (kpre kpost : Nat) (notes : List Ps13.Row) (sp : List (String × Int × Int))
    (hr : ∀ r ∈ notes, 0 ≤ r.2 ∧ r.2 ≤ 127) (h : C17Float.ps13F kpre kpost notes = some sp) :
    sp.length = notes.length ∧
    ∀ i (hi : i < notes.length), ∃ s, sp[i]? = some s ∧ sounding s = some notes[i].2 := by
  rw [spelling_binary64 kpre kpost notes hr] at h
  exact spelling_sounds kpre kpost notes sp h

/-- hence, rounding included: at most a double accidental on every note, for the default windows of `ps13s1` -/
theorem double_acc_binary64 (notes : List Ps13.Row) (sp : List (String × Int × Int))
    (hr : ∀ r ∈ notes, 0 ≤ r.2 ∧ r.2 ≤ 127) (h : C17Float.ps13F PS13_K_PRE PS13_K_POST notes = some sp) :
    ∀ s ∈ sp, -2 ≤ s.2.1 ∧ s.2.1 ≤ 2 := by
  rw [spelling_binary64 _ _ notes hr] at h
  exact double_acc_default notes sp h

/-- hence, rounding included: permuting the rows permutes the (row, spelling) pairs -/
theorem spelling_perm_binary64 (kpre kpost : Nat) (notes notes' : List Ps13.Row)
    (sp sp' : List (String × Int × Int)) (hp : notes.Perm notes') (hr : ∀ r ∈ notes, 0 ≤ r.2 ∧ r.2 ≤ 127)
    (h : C17Float.ps13F kpre kpost notes = some sp) (h' : C17Float.ps13F kpre kpost notes' = some sp') :
    (notes.zip sp).Perm (notes'.zip sp') := by
  rw [spelling_binary64 kpre kpost notes hr] at h
  rw [spelling_binary64 kpre kpost notes' (fun r hm => hr r (hp.mem_iff.mpr hm))] at h'
  exact spelling_perm kpre kpost notes notes' sp sp' hp h h'

/-- non-vacuity: the witness of seeded change C17-i on the unchanged tables — E flat, D, D, G sharp: the first note is
    E flat (not D sharp) and the last note an A flat (not an F with three sharps) (stage 1 on the rows in onset order, kernel-evaluated
    through the binary64 model) -/
example : C17Float.stage1F 10 40 [(0, 63), (1, 62), (2, 62), (3, 68)] =
    [("E", -1, 4), ("D", 0, 4), ("D", 0, 4), ("A", -1, 4)] := by decide +kernel

/-- the rounding function on two familiar numbers: `0.1` and `0.1 + 0.2` -/
example : (C17Float.fl (1 / 10)).toRat = (3602879701896397 : Rat) / 36028797018963968 ∧
    (C17Float.fadd (C17Float.fl (1 / 10)) (C17Float.fl (2 / 10))).toRat = (1351079888211149 : Rat) / 4503599627370496 := by
  decide +kernel

end C17
