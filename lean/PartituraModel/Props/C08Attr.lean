/-
C08 (round 5) — "voices, staves and the supported articulations" of the score notes survive writing and reading:
theorems over Model/MatchAttr.lean (the attribute list of an snote line) and the literal pieces of the live source
(Gen/C08Lits.lean, regenerated on every run by harness/translate_c08.py).

* `attrs_roundtrip`   for EVERY score note (any voice, any staff number, any lists of plain articulation / ornament names,
                      fermata, fingerings, grace, diff_score_version, voice_overlap): what the reader takes from the
                      attribute list the writer builds is the note's voice, its staff, `staccato` / `accent` exactly when the
                      note carries them, no tie mark, and its grace-ness;
* `musicxml_names_plain`  every articulation / ornament name a score can carry (tables of the live MusicXML reader and
                      writer) is plain - none is mistaken for a voice, a staff, a tie mark, `stac` or `grace`;
* `supported_articulations`  for each of those names the model loads what the live reader loads (probe table);
* `staff_last_character_loses_the_tens`  the rule before fix C08-18 (staff 12 -> 2, staff 10 -> 0), refuted by the model;
* `voices_kept` / `voices_filled`  the final voice assignment leaves notes that have a voice alone;
* `lits_extracted`    the literal pieces of the live source are the ones the models use.
-/
import PartituraModel.Model.MatchAttr
import PartituraModel.Model.MatchTime
import PartituraModel.Gen.C08Lits
import PartituraModel.Proofs.C08Attr
import PartituraModel.Proofs.C08Sort

namespace C08
open Model Model.MatchCodec Model.MatchAttr C08A

/-- where an attribute of the written list comes from -/
theorem mem_writeAttrs (n : ScoreNote) (a : Str) :
    a ∈ writeAttrs n ↔ (∃ k, n.voice = some k ∧ a = sV ++ showNatS k) ∨ (∃ k, n.staff = some k ∧ a = sStaff ++ showNatS k)
      ∨ a ∈ names n ∨ a ∈ marks n := by
  unfold writeAttrs vPart sPart
  cases n.voice <;> cases n.staff <;> simp [List.mem_append]

/-- a text that is neither a voice nor a staff attribute nor a mark is on the written list iff it is one of the names -/
theorem contains_write (n : ScoreNote) (s : Str) (hv : ∀ k, sV ++ showNatS k ≠ s) (hs : ∀ k, sStaff ++ showNatS k ≠ s)
    (hm : ∀ a ∈ marks n, a ≠ s) : (writeAttrs n).contains s = (names n).contains s := by
  rw [Bool.eq_iff_iff, List.contains_iff_mem, List.contains_iff_mem, mem_writeAttrs]
  constructor
  · rintro (⟨k, _, h⟩ | ⟨k, _, h⟩ | h | h)
    · exact absurd h.symm (hv k)
    · exact absurd h.symm (hs k)
    · exact h
    · exact absurd rfl (hm s h)
  · intro h; exact Or.inr (Or.inr (Or.inl h))

/-- **attrs_roundtrip.**  For every score note whose articulation / ornament names are plain: the reader recovers voice,
    staff, the two supported articulations, no tie mark, and grace-ness from the attribute list the writer builds. -/
theorem attrs_roundtrip (n : ScoreNote) (hnames : ∀ a ∈ names n, plain a = true) :
    readAttrs (writeAttrs n) false = some
      { staff := n.staff, voice := n.voice,
        staccato := (names n).contains sStaccato, accent := (names n).contains sAccent,
        tied := false, grace := n.grace } := by
  -- everything after the voice and staff attributes is quiet
  have hquiet : ∀ a, a ∈ names n ∨ a ∈ marks n → Quiet a := by
    rintro a (h | h)
    · exact (plain_quiet (hnames a h)).1
    · exact (marks_spec n a h).1
  have hmarks := marks_spec n
  -- `s` is not on the list
  have hS : (writeAttrs n).contains sS = false := by
    rw [Bool.eq_false_iff, ne_eq, List.contains_iff_mem, mem_writeAttrs]
    rintro (⟨k, _, h⟩ | ⟨k, _, h⟩ | h | h)
    · exact (vattr_spec k).1 h.symm
    · exact (sattr_spec k).1 h.symm
    · exact (hquiet _ (Or.inl h)).1 rfl
    · exact (hquiet _ (Or.inr h)).1 rfl
  -- no attribute after the voice attribute looks like a voice or starts with a digit
  have hnov : ∀ a ∈ sPart n ++ (names n ++ marks n), vnumberMatch a = false ∧ digitPrefix a = false := by
    intro a ha
    unfold sPart at ha
    rcases List.mem_append.mp ha with h | h
    · cases hst : n.staff with
      | none => simp [hst] at h
      | some k =>
        simp only [hst, List.mem_singleton] at h; subst h
        exact ⟨(sattr_spec k).2.2.1, (sattr_spec k).2.2.2.2.1⟩
    · have := hquiet a (List.mem_append.mp h)
      exact ⟨this.2.2.1, this.2.2.2.1⟩
  have hvoice : readVoice (writeAttrs n) = some n.voice := by
    unfold readVoice
    rw [hS]
    simp only [Bool.false_eq_true, if_false]
    unfold writeAttrs vPart
    cases hvc : n.voice with
    | some k =>
      obtain ⟨_, _, h3, h4, _, _, _, _, _, h10⟩ := vattr_spec k
      simp only [List.singleton_append, List.any_cons, h4, Bool.true_or, if_true, List.find?_cons_of_pos h3, h10,
        Option.map_some]
    | none =>
      simp only [List.nil_append]
      have hnone : List.find? vnumberMatch (sPart n ++ (names n ++ marks n)) = none := by
        rw [List.find?_eq_none]; intro a ha; simp [(hnov a ha).1]
      have hnone2 : List.find? digitPrefix (sPart n ++ (names n ++ marks n)) = none := by
        rw [List.find?_eq_none]; intro a ha; simp [(hnov a ha).2]
      rw [hnone, hnone2]
      split <;> rfl
  have hstaff : readStaff (writeAttrs n) = n.staff := by
    unfold readStaff
    have hskipv : List.find? (fun a => sStaff.isPrefixOf a) (writeAttrs n)
        = List.find? (fun a => sStaff.isPrefixOf a) (sPart n ++ (names n ++ marks n)) := by
      unfold writeAttrs vPart
      cases n.voice with
      | none => rfl
      | some k =>
        simp only [List.singleton_append]
        rw [List.find?_cons_of_neg]
        simp [(vattr_spec k).2.1]
    rw [hskipv]
    unfold sPart
    cases hst : n.staff with
    | some k =>
      simp only [List.singleton_append]
      rw [List.find?_cons_of_pos (sattr_spec k).2.1]
      exact (sattr_spec k).2.2.2.2.2.2.2.2.2.2
    | none =>
      simp only [List.nil_append]
      have : List.find? (fun a => sStaff.isPrefixOf a) (names n ++ marks n) = none := by
        rw [List.find?_eq_none]; intro a ha
        simp [(hquiet a (List.mem_append.mp ha)).2.1]
      rw [this]
  have hstacc : (writeAttrs n).contains sStaccato = (names n).contains sStaccato :=
    contains_write n _ (fun k => (vattr_spec k).2.2.2.2.1) (fun k => (sattr_spec k).2.2.2.2.2.1)
      (fun a ha => (hmarks a ha).2.1)
  have hacc : (writeAttrs n).contains sAccent = (names n).contains sAccent :=
    contains_write n _ (fun k => (vattr_spec k).2.2.2.2.2.2.1) (fun k => (sattr_spec k).2.2.2.2.2.2.2.1)
      (fun a ha => (hmarks a ha).2.2.1)
  have hstac : (writeAttrs n).contains sStac = false := by
    rw [contains_write n _ (fun k => (vattr_spec k).2.2.2.2.2.1) (fun k => (sattr_spec k).2.2.2.2.2.2.1)
      (fun a ha => (hmarks a ha).1.2.2.2.2.1)]
    rw [Bool.eq_false_iff, ne_eq, List.contains_iff_mem]
    intro h
    exact (plain_quiet (hnames _ h)).1.2.2.2.2.1 rfl
  have htied : (writeAttrs n).contains sTied = false := by
    rw [contains_write n _ (fun k => (vattr_spec k).2.2.2.2.2.2.2.1) (fun k => (sattr_spec k).2.2.2.2.2.2.2.2.1)
      (fun a ha => (hmarks a ha).1.2.2.2.2.2)]
    rw [Bool.eq_false_iff, ne_eq, List.contains_iff_mem]
    intro h
    exact (plain_quiet (hnames _ h)).1.2.2.2.2.2 rfl
  have hgrace : (writeAttrs n).contains sGrace = n.grace := by
    rw [Bool.eq_iff_iff, List.contains_iff_mem, mem_writeAttrs]
    constructor
    · rintro (⟨k, _, h⟩ | ⟨k, _, h⟩ | h | h)
      · exact absurd h.symm (vattr_spec k).2.2.2.2.2.2.2.2.1
      · exact absurd h.symm (sattr_spec k).2.2.2.2.2.2.2.2.2.1
      · exact absurd rfl (plain_quiet (hnames _ h)).2
      · exact (hmarks _ h).2.2.2 rfl
    · intro h; exact Or.inr (Or.inr (Or.inr (grace_mem_marks n h)))
  unfold readAttrs
  rw [hvoice, hstaff, hstacc, hacc, hstac, htied, hgrace]
  simp

/-- non-vacuity: voice 3, staff 12, a staccato with a tenuto and a vertical turn (a name that starts with `v`),
    a fermata, two fingerings, a grace note on a deletion line with a voice overlap -/
def busyNote : ScoreNote :=
  { voice := some 3, staff := some 12, arts := some ["staccato".toList, "tenuto".toList]
    orns := some ["vertical-turn".toList], fermata := true, fingerings := [1, 23], grace := true
    diffVersion := true, voiceOverlap := true }

example : (∀ a ∈ names busyNote, plain a = true) ∧ readAttrs (writeAttrs busyNote) false
    = some { staff := some 12, voice := some 3, staccato := true, accent := false, tied := false, grace := true } := by
  decide +kernel

/-- a note without voice and staff whose only attribute is an ornament that starts with `v` -/
def bareNote : ScoreNote :=
  { voice := none, staff := none, arts := none, orns := some ["vertical-turn".toList], fermata := false
    fingerings := [], grace := false, diffVersion := false, voiceOverlap := false }

example : readAttrs (writeAttrs bareNote) false
    = some { staff := none, voice := none, staccato := false, accent := false, tied := false, grace := false } := by
  decide +kernel

/-- **musicxml_names_plain.**  Every articulation / ornament name of the live MusicXML reader and writer is plain. -/
theorem musicxml_names_plain :
    (Gen.C08Lits.articulationNames ++ Gen.C08Lits.ornamentNames).all (fun s => plain s.toList) = true := by
  decide +kernel

/-- what the model loads from a list that carries the one name `s` -/
def loadedNames (s : String) : List String :=
  match readAttrs [s.toList] false with
  | some r => (if r.accent then ["accent"] else []) ++ (if r.staccato then ["staccato"] else [])
  | none => ["<error>"]

/-- **supported_articulations.**  For every MusicXML articulation / ornament name, and for `stac`: the articulations of
    the note the LIVE reader loads from an snote line with that name (probe table of the translator) are the ones the
    model loads - `staccato` for `staccato` and `stac`, `accent` for `accent`, nothing for every other name
    (`staccatissimo`, `strong-accent`, `soft-accent` ... are not taken for one of them). -/
theorem supported_articulations :
    Gen.C08Lits.loadedArticulations.all (fun p => loadedNames p.1 == p.2) = true
    ∧ Gen.C08Lits.loadedArticulations.length = Gen.C08Lits.articulationNames.length + Gen.C08Lits.ornamentNames.length + 1 := by
  decide +kernel

/-- **staff_last_character_loses_the_tens** (witness of F-C08-18).  The rule before the fix reads the last character of
    the staff attribute: staff 12 comes back as 2, staff 10 as 0; the repaired rule and the live reader (probe table)
    give the staff that was written. -/
theorem staff_last_character_loses_the_tens :
    readStaffLastChar [sStaff ++ showNatS 12] = some 2 ∧ readStaffLastChar [sStaff ++ showNatS 10] = some 0
    ∧ readStaff [sStaff ++ showNatS 12] = some 12 ∧ readStaff [sStaff ++ showNatS 10] = some 10
    ∧ Gen.C08Lits.loadedStaff.all (fun p => p.1 == p.2) = true ∧ Gen.C08Lits.loadedStaff.length = 6 := by
  decide +kernel

/-- **voices_kept.**  When every note has a voice the final assignment changes nothing. -/
theorem voices_kept (vs : List Nat) : fillVoices (vs.map some) = vs.map some := by
  unfold fillVoices
  have hk : (vs.map some).filterMap id = vs := by
    induction vs with
    | nil => rfl
    | cons a r ih => simp
  rw [hk]
  cases vs with
  | nil => rfl
  | cons a r =>
    simp only [List.isEmpty_cons, Bool.false_eq_true, if_false, List.map_map]
    apply List.map_congr_left
    intro x _
    rfl

/-- **voices_filled.**  Notes that have a voice keep it whatever the others have; a note without one gets voice 1
    when no note has a voice, else a voice above all the others. -/
theorem voices_filled (vs : List (Option Nat)) (i : Nat) (v : Nat) (h : vs[i]? = some (some v)) :
    (fillVoices vs)[i]? = some (some v) := by
  unfold fillVoices
  have hmem : some v ∈ vs := List.mem_of_getElem? h
  have hne : (vs.filterMap id).isEmpty = false := by
    rw [Bool.eq_false_iff, ne_eq, List.isEmpty_iff]
    intro he
    have : v ∈ vs.filterMap id := List.mem_filterMap.mpr ⟨some v, hmem, rfl⟩
    rw [he] at this; simp at this
  simp only [hne, Bool.false_eq_true, if_false, List.getElem?_map, h, Option.map_some]

/-- non-vacuity: voices 2, none, 5 -> the note without a voice gets 6; no voices at all -> 1 -/
example : fillVoices [some 2, none, some 5] = [some 2, some 6, some 5] ∧ fillVoices [none, none] = [some 1, some 1] := by
  decide +kernel

/-- **pnote_id_stable.**  The id of a performed note as written and read (`format_pnote_id`): an id that starts with
    `n` - the format's convention - is kept as it is; any other id gets one `n` in front, once: writing and reading
    again changes nothing more (the alignment and the performed part of a reloaded file name the same notes). -/
theorem pnote_id_stable (s : Str) :
    pnoteId (pnoteId s) = pnoteId s ∧ (∀ r, s = 'n' :: r → pnoteId s = s) ∧ (pnoteId s = s ∨ pnoteId s = 'n' :: s) := by
  have hcases : pnoteId s = s ∧ (∃ r, s = 'n' :: r) ∨ pnoteId s = 'n' :: s := by
    unfold pnoteId
    split
    · left; exact ⟨rfl, _, rfl⟩
    · right; rfl
  refine ⟨?_, ?_, ?_⟩
  · rcases hcases with ⟨h, _⟩ | h
    · rw [h, h]
    · rw [h]; rfl
  · rintro r rfl; rfl
  · rcases hcases with ⟨h, _⟩ | h
    · left; exact h
    · right; exact h

/-- ids outside the convention can collide: `5` and `n5` are written as the same id -/
example : pnoteId "5".toList = pnoteId "n5".toList := by decide

/-- **pedal_lines_spec.**  For every list of controller events: the pedal lines of the written file are exactly the
    events of controllers 64 and 67 (each once: a permutation), with the nearest tick of their time, in order of that
    tick; every other controller is left out. -/
theorem pedal_lines_spec (mpq ppq : Nat) (cs : List (Nat × Rat × Int)) :
    (Model.MatchTime.pedalLines mpq ppq cs).Perm
        ((cs.filter fun c => c.1 = 64 || c.1 = 67).map fun c => (c.1, secToTick c.2.1 mpq ppq, c.2.2))
    ∧ (Model.MatchTime.pedalLines mpq ppq cs).Pairwise (fun a b => a.2.1 ≤ b.2.1)
    ∧ ∀ l ∈ Model.MatchTime.pedalLines mpq ppq cs, l.1 = 64 ∨ l.1 = 67 := by
  unfold Model.MatchTime.pedalLines
  refine ⟨C08S.sortBy_perm _ _, ?_, ?_⟩
  · have := C08S.sortBy_pairwise (fun a b : Nat × Int × Int => decide (a.2.1 ≤ b.2.1)) (by intro a b; simp; omega)
      (by intro a b c h1 h2; simp at h1 h2 ⊢; omega)
      ((cs.filter fun c => c.1 = 64 || c.1 = 67).map fun c => (c.1, secToTick c.2.1 mpq ppq, c.2.2))
    exact this.imp (by intro a b h; simpa using h)
  · intro l hl
    rw [C08S.mem_sortBy, List.mem_map] at hl
    obtain ⟨c, hc, rfl⟩ := hl
    have := (List.mem_filter.mp hc).2
    simpa using this

/-- non-vacuity: a sustain, a modulation wheel (left out) and a soft pedal event; 480 ticks per quarter of 0.5 s -/
example : Model.MatchTime.pedalLines 500000 480 [(64, 1, 127), (1, 1/2, 5), (67, 1/4, 0)] = [(67, 240, 0), (64, 960, 127)] := by
  decide +kernel

/-- **lits_extracted.**  The literal pieces of the live writer and reader are the ones the models use: the default
    clock 480 / 500000 and version 1.0.0, the order of the header lines, the controllers 64 (sustain) and 67 (soft) and no
    other, measure numbers counted by position from 1 (0 with a pickup) whatever `Measure.number` says, four decimals in
    the beat times (`dec4`), fractions kept up to 1024, pedal threshold 64, no shift of the first note, offsets and
    durations in whole notes, staff split at MIDI pitch 55. -/
theorem lits_extracted :
    Gen.C08Lits.ok = true
    ∧ Gen.C08Lits.defaultMpq = 500000 ∧ Gen.C08Lits.defaultPpq = 480 ∧ Gen.C08Lits.latestVersion = (1, 0, 0)
    ∧ Gen.C08Lits.headerOrder = ["matchFileVersion", "piece", "scoreFileName", "midiFileName", "composer", "performer",
        "midiClockUnits", "midiClockRate", "keySignature", "timeSignature"]
    ∧ Gen.C08Lits.pedalLines = [(64, "sustain"), (67, "soft")]
    ∧ Gen.C08Lits.firstMeasure = 1 ∧ Gen.C08Lits.firstMeasurePickup = 0 ∧ Gen.C08Lits.secondMeasureDuplicate = 2
    ∧ (10 : Nat) ^ Gen.C08Lits.beatDecimals = 10000
    ∧ Gen.C08Lits.fracBound = 1024
    ∧ Gen.C08Lits.pedalThreshold = 64 ∧ Gen.C08Lits.firstNoteAtZero = false ∧ Gen.C08Lits.offsetDurationWhole = true
    ∧ Gen.C08Lits.staffSplit = 55 := by
  decide +kernel

/-- the literals are the ones of the model: the pedal lines the model writes are exactly those of the probe (one event
    per controller number 0..127, value = number, in time order), and the first measure numbers are
    `Score.firstMeasureNumber` of a score without / with a pickup -/
theorem lits_are_the_models :
    ((Model.MatchTime.pedalLines 500000 480 ((List.range 128).map fun k => (k, (1 : Rat) / 10 + (k : Rat) / 1000, (k : Int)))).map
        fun l => (l.1, l.2.2)) = Gen.C08Lits.pedalLines.map (fun p => (p.1, (p.1 : Int)))
    ∧ (Model.MatchTime.Score.firstMeasureNumber { divs := 3, ts := [⟨0, 4, 4⟩], ms := [⟨0, 12⟩, ⟨12, 24⟩] }) = Gen.C08Lits.firstMeasure
    ∧ (Model.MatchTime.Score.firstMeasureNumber { divs := 3, ts := [⟨0, 4, 4⟩], ms := [⟨0, 3⟩, ⟨3, 15⟩, ⟨15, 27⟩] })
        = Gen.C08Lits.firstMeasurePickup := by
  decide +kernel

end C08
