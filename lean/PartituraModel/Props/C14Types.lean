/-
C14 (round 4) — the values are what counts: the sounding ends do not depend on the number types of the dictionaries.

Theorems over Model/PedalTypes.lean: `adjust_offsets_w_sustain` with the dtype of its sounding-end array made
explicit.  The code creates that array with `dtype=float`; then the kinds of the numbers (Python int, numpy ints,
floats) are irrelevant and every theorem of Props/C14.lean holds for typed parts.  With the dtype numpy *infers* from
the releases the same function truncates pedal-release times and re-strike onsets as soon as every release is
integer-typed (the `example`s at the end: the property's `pedal_down` clause fails there).
-/
import PartituraModel.Props.C14
import PartituraModel.Model.PedalTypes

namespace C14
open Model Model.Pedal Model.PedalTypes C14P

/-! ### storing into a typed array -/

/-- a float array holds what is stored -/
theorem store_flt (x : Rat) : store .flt x = x := rfl

/-- an integer array holds integers -/
theorem store_int_is_int (x : Rat) : ∃ k : Int, store .int x = (k : Rat) := ⟨truncZ x, rfl⟩

/-- an integer stored into an integer array is kept -/
theorem store_int_of_int (k : Int) : store .int (k : Rat) = (k : Rat) := by
  unfold store truncZ
  by_cases h : (0 : Rat) ≤ (k : Rat)
  · simp [h, Rat.floor_intCast]
  · have hneg : -(k : Rat) = ((-k : Int) : Rat) := by simp
    simp only [h, if_false, hneg, Rat.floor_intCast]
    simp

/-- truncation toward zero never exceeds a non-negative value … -/
theorem store_int_le (x : Rat) (hx : 0 ≤ x) : store .int x ≤ x := by
  unfold store truncZ
  simp only [hx, if_true]
  exact Rat.floor_le x

/-- … and never goes below an integer that the value has reached: the truncated sounding end of a note with an
    integer release still passes `_validate_sound_off` (no exception is raised, the note just ends too early) -/
theorem store_int_ge (k : Int) (x : Rat) (hk : 0 ≤ k) (hx : (k : Rat) ≤ x) : (k : Rat) ≤ store .int x := by
  have h0 : (0 : Rat) ≤ x := le_trans (by exact_mod_cast hk) hx
  unfold store truncZ
  simp only [h0, if_true]
  exact_mod_cast Rat.le_floor_iff.mpr hx

/-- the dtype numpy infers is integer exactly when every element is integer-typed -/
theorem inferDtype_int_iff (ks : List Kind) : inferDtype ks = .int ↔ ∀ k ∈ ks, k = .int := by
  unfold inferDtype
  by_cases h : ks.all (fun k => decide (k = Kind.int)) = true
  · simp only [h, if_true, true_iff]
    intro k hk
    simpa using List.all_eq_true.mp h k hk
  · simp only [h]
    constructor
    · intro h'; cases h'
    · intro h'
      exact absurd (List.all_eq_true.mpr (fun k hk => by simpa using h' k hk)) h

/-! ### the code: `dtype=float` -/

/-- with a float sounding-end array the typed function IS the function on the values -/
theorem soundOffsD_flt (ns : List Note) (cs : List Control) (thr : Int) :
    soundOffsD .flt ns cs thr = soundOffs ns cs thr := rfl

/-- the code's sounding ends of typed notes and controls are those of their values -/
theorem typed_is_values (tns : List TNote) (tcs : List TControl) (thr : Int) :
    soundOffsTyped tns tcs thr = soundOffs (tns.map (·.note)) (tcs.map (·.ctl)) thr := rfl

/-- … also through the constructor (validation looks at values only) -/
theorem buildTyped_is_values (tns : List TNote) (tcs : List TControl) (thr : Int) :
    buildTyped tns tcs thr = (buildPart (tns.map (·.note)) (tcs.map (·.ctl)) thr).map (·.sound) := by
  unfold buildTyped buildPart setThreshold
  rw [typed_is_values]
  by_cases h : (tns.map (·.note)).all validNote = true
  · simp only [h, if_true]
    cases soundOffs (tns.map (·.note)) (tcs.map (·.ctl)) thr <;> rfl
  · simp only [h]
    rfl

/-- THE VALUES ARE WHAT COUNTS: two parts whose notes and controls have the same values — one all `int`, the other
    all `float`, or any mixture — get the same sounding ends (and are accepted or rejected alike) -/
theorem kinds_irrelevant (tns tns' : List TNote) (tcs tcs' : List TControl) (thr : Int)
    (hn : tns.map (·.note) = tns'.map (·.note)) (hc : tcs.map (·.ctl) = tcs'.map (·.ctl)) :
    buildTyped tns tcs thr = buildTyped tns' tcs' thr := by
  rw [buildTyped_is_values, buildTyped_is_values, hn, hc]

example : buildTyped [⟨⟨60, 0, 1, 64, 0, 1, none⟩, .int, .int⟩] [⟨⟨64, 1/2, 100, none⟩, .flt⟩, ⟨⟨64, 11/4, 0, none⟩, .flt⟩] 64
    = buildTyped [⟨⟨60, 0, 1, 64, 0, 1, none⟩, .flt, .flt⟩] [⟨⟨64, 1/2, 100, none⟩, .flt⟩, ⟨⟨64, 11/4, 0, none⟩, .flt⟩] 64 :=
  kinds_irrelevant _ _ _ _ _ rfl rfl

/-- sounding end of note `i` of a typed part -/
def typedSoundOffAt (tns : List TNote) (tcs : List TControl) (thr : Int) (i : Nat) : Option Rat :=
  match soundOffsTyped tns tcs thr with
  | some so => so[i]?
  | none => none

theorem typedSoundOffAt_eq (tns : List TNote) (tcs : List TControl) (thr : Int) (i : Nat) :
    typedSoundOffAt tns tcs thr i = soundOffAt (tns.map (·.note)) (tcs.map (·.ctl)) thr i := rfl

/-- typed parts: never before the release, whatever the kinds -/
theorem typed_ge_release (tns : List TNote) (tcs : List TControl) (thr : Int) (i : Nat) (tn : TNote)
    (hn : tns[i]? = some tn) : ∃ x, typedSoundOffAt tns tcs thr i = some x ∧ tn.note.off ≤ x := by
  rw [typedSoundOffAt_eq]
  exact ge_release _ _ thr i tn.note (by simp [hn])

/-- typed parts: with the pedal down at the release the note ends at the least moment the property names,
    whatever the kinds (in particular for all-`int` releases and a pedal lifted between two whole seconds) -/
theorem typed_pedal_down (tns : List TNote) (tcs : List TControl) (thr : Int) (i : Nat) (tn : TNote)
    (hwf : ∀ m ∈ tns, m.note.on ≤ m.note.off) (hn : tns[i]? = some tn)
    (hdown : downBefore tn.note.off (pedalStream (tcs.map (·.ctl)) thr) = true)
    (hex : ∃ t, Moment (tns.map (·.note)) (tcs.map (·.ctl)) thr i tn.note t) :
    ∃ x, typedSoundOffAt tns tcs thr i = some x ∧ Moment (tns.map (·.note)) (tcs.map (·.ctl)) thr i tn.note x ∧
      ∀ t, Moment (tns.map (·.note)) (tcs.map (·.ctl)) thr i tn.note t → x ≤ t := by
  rw [typedSoundOffAt_eq]
  refine pedal_down _ _ thr i tn.note ?_ (by simp [hn]) hdown hex
  intro m hm
  obtain ⟨tm, htm, rfl⟩ := List.mem_map.mp hm
  exact hwf tm htm

-- the demo of the round-4 seed: whole-second notes typed `int`, the pedal lifted at 2.75 and at 5.5
example : (List.range 3).map (typedSoundOffAt
    [⟨⟨60, 0, 1, 64, 0, 1, none⟩, .int, .int⟩, ⟨⟨64, 1, 2, 64, 0, 1, none⟩, .int, .int⟩, ⟨⟨67, 2, 4, 64, 0, 1, none⟩, .int, .int⟩]
    [⟨⟨64, 1/2, 127, none⟩, .flt⟩, ⟨⟨7, 1, 90, none⟩, .flt⟩, ⟨⟨64, 11/4, 0, none⟩, .flt⟩, ⟨⟨64, 13/4, 100, none⟩, .flt⟩,
     ⟨⟨64, 11/2, 10, none⟩, .flt⟩] 64) = [some (11/4), some (11/4), some (11/2)] := by decide +kernel

/-! ### what the explicit `dtype=float` buys: the inferred dtype -/

/-- one float-typed release anywhere makes the inferred array a float array: the typed function is again the function
    on the values (this is why a single float `note_off` hides the truncation) -/
theorem inferred_ok_of_float_release (tns : List TNote) (tcs : List TControl) (thr : Int)
    (h : ∃ tn ∈ tns, tn.offK = .flt) :
    soundOffsInferred tns tcs thr = soundOffs (tns.map (·.note)) (tcs.map (·.ctl)) thr := by
  obtain ⟨tn, hmem, hk⟩ := h
  have : offsDtypeInferred (tns.map (·.offK)) = .flt := by
    unfold offsDtypeInferred
    cases hd : inferDtype (tns.map (·.offK)) with
    | flt => rfl
    | int =>
      have := (inferDtype_int_iff _).mp hd tn.offK (List.mem_map.mpr ⟨tn, hmem, rfl⟩)
      rw [hk] at this
      cases this
  unfold soundOffsInferred
  rw [this]
  rfl

/-- with every release integer-typed the inferred array is an integer array and truncates what is stored into it.
    The round-4 seed's demo: the notes end at 2, 2 and 5 instead of 2.75, 2.75 and 5.5 — no exception
    (`store_int_ge`), the first two while the pedal is still down -/
example : soundOffsInferred
    [⟨⟨60, 0, 1, 64, 0, 1, none⟩, .int, .int⟩, ⟨⟨64, 1, 2, 64, 0, 1, none⟩, .int, .int⟩, ⟨⟨67, 2, 4, 64, 0, 1, none⟩, .int, .int⟩]
    [⟨⟨64, 1/2, 127, none⟩, .flt⟩, ⟨⟨7, 1, 90, none⟩, .flt⟩, ⟨⟨64, 11/4, 0, none⟩, .flt⟩, ⟨⟨64, 13/4, 100, none⟩, .flt⟩,
     ⟨⟨64, 11/2, 10, none⟩, .flt⟩] 64 = some [2, 2, 5] := by decide +kernel

/-- … so for the inferred dtype the `pedal_down` clause of the property is false: the sounding end 2 of the first note
    is not a moment at which the pedal is lifted or the pitch struck again -/
example : ¬ Moment [⟨60, 0, 1, 64, 0, 1, none⟩, ⟨64, 1, 2, 64, 0, 1, none⟩, ⟨67, 2, 4, 64, 0, 1, none⟩]
    [⟨64, 1/2, 127, none⟩, ⟨7, 1, 90, none⟩, ⟨64, 11/4, 0, none⟩, ⟨64, 13/4, 100, none⟩, ⟨64, 11/2, 10, none⟩] 64 0
    ⟨60, 0, 1, 64, 0, 1, none⟩ 2 := by
  rintro ⟨_, h | h⟩
  · obtain ⟨c, hc, h64, _, ht⟩ := h
    simp only [List.mem_cons, List.not_mem_nil, or_false] at hc
    rcases hc with rfl | rfl | rfl | rfl | rfl <;> revert ht h64 <;> decide +kernel
  · obtain ⟨j, m, hm, hj, hp, _⟩ := h
    match j, hm, hj with
    | 0, _, hj => exact hj rfl
    | 1, hm, _ => cases hm; revert hp; decide
    | 2, hm, _ => cases hm; revert hp; decide
    | (_ + 3), hm, _ => cases hm

-- a re-strike between two whole seconds is truncated in the same way (release 1, the same pitch struck at 5/2)
example : soundOffsInferred [⟨⟨60, 0, 1, 64, 0, 1, none⟩, .int, .int⟩, ⟨⟨60, 5/2, 3, 64, 0, 1, none⟩, .flt, .int⟩]
    [⟨⟨64, 0, 127, none⟩, .int⟩, ⟨⟨64, 9, 0, none⟩, .int⟩] 64 = some [2, 9] := by decide +kernel
example : soundOffsTyped [⟨⟨60, 0, 1, 64, 0, 1, none⟩, .int, .int⟩, ⟨⟨60, 5/2, 3, 64, 0, 1, none⟩, .flt, .int⟩]
    [⟨⟨64, 0, 127, none⟩, .int⟩, ⟨⟨64, 9, 0, none⟩, .int⟩] 64 = some [5/2, 9] := by decide +kernel

end C14
