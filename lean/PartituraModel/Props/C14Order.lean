/-
C14 (round 6) — "all note lists … unsorted order": the ORDER of the note list is irrelevant.

* `sound_order_free`: the sounding end of a note is the same wherever it and every other note stand in the list
  (any permutation of the list, any controls, any threshold) — so is the whole table of (note, sounding end) pairs
  (`sound_perm_pairs`);
* the comparison protocol of `PerformedNote` (`<`, `<=`, `>`, `>=` by onset: a total preorder; `==` is equality of
  the dictionaries; equal notes hash alike) — the key is REGENERATED (`order_tables`);
* `pp.notes.sort()`, `.sort(reverse=True)`, `.reverse()` rearrange the notes (`reorder_perm`), sort them by onset
  stably (`sort_spec`, `sort_desc_spec`), keep every `sound_off`, and COMMUTE with an assignment of the threshold
  (`reorder_commutes_assign`): sorting then assigning gives every note what assigning then sorting gives it;
* over all histories that also reorder the list an assignment of the threshold never fails and recomputes every
  note from the part as it is then (`yhistory_recompute`, `ystate_sound`).
-/
import PartituraModel.Proofs.C14Order
import PartituraModel.Props.C14Hist
import PartituraModel.Props.C14Arrays

namespace C14
open Model Model.Pedal C14P

/-! ### regenerated constants -/

/-- the probes of harness/translate_c14.py (gen_c14_order) all answered, `a < b` looks at `note_on` alone, `hash` at
    `id` alone, `==` at every key, and `str(note)` is "PerformedNote: <id>" -/
theorem order_tables :
    Gen.C14Order.extractionOk = true ∧ Gen.C14Order.orderKeys = ["note_on"] ∧ Gen.C14Order.hashKeys = ["id"]
      ∧ Gen.C14Order.eqBlindKeys = [] ∧ Gen.C14Order.strHead = "PerformedNote: " := by decide

theorem orderVal_eq (n : PNote) : orderVal n = n.on := by
  simp [orderVal, Gen.C14Order.orderKeys, keyVal]

/-! ### comparing performed notes -/

/-- the four comparisons look at the onsets alone; `>` and `>=` are `<` and `<=` with the sides swapped -/
theorem compare_by_onset (a b : PNote) :
    (noteLt a b = true ↔ a.on < b.on) ∧ (noteLe a b = true ↔ a.on ≤ b.on)
      ∧ noteGt a b = noteLt b a ∧ noteGe a b = noteLe b a := by
  simp [noteLt, noteLe, noteGt, noteGe, orderVal_eq]

/-- `<=` is a total preorder on performed notes and `<` its strict part (what `list.sort` needs of `__lt__`) -/
theorem note_order_total_preorder (a b c : PNote) :
    noteLe a a = true ∧ (noteLe a b = true → noteLe b c = true → noteLe a c = true)
      ∧ (noteLe a b = true ∨ noteLe b a = true) ∧ (noteLt a b = true ↔ ¬ noteLe b a = true) := by
  simp only [noteLt, noteLe, orderVal_eq, decide_eq_true_eq, not_le]
  exact ⟨le_refl _, le_trans, le_total _ _, trivial⟩

/-- `a == b` holds exactly for equal dictionaries (the same keys with the same values) -/
theorem note_eq_iff (a b : PNote) : noteEq a b = true ↔ a = b := by
  constructor
  · intro h
    simp only [noteEq, sameKeys, Bool.and_eq_true, beq_iff_eq, decide_eq_true_eq] at h
    obtain ⟨⟨⟨⟨⟨⟨⟨⟨⟨⟨⟨_, h1⟩, h2⟩, h3⟩, h4⟩, h5⟩, h6⟩, h7⟩, h8⟩, h9⟩, h10⟩, h11⟩ := h
    cases a; cases b
    simp only at h1 h2 h3 h4 h5 h6 h7 h8 h9 h10 h11
    simp only [PNote.mk.injEq]
    exact ⟨h1, h2, h3, h4, h5, h6, h7, h8, h9, h10, h11⟩
  · rintro rfl
    simp [noteEq, sameKeys]

/-- equal notes have equal hashes (`hash(self["id"])`) -/
theorem eq_same_hash (a b : PNote) (h : noteEq a b = true) : hashKey a = hashKey b := by
  rw [(note_eq_iff a b).mp h]

-- same onset, different release: neither is below the other, they are not equal, and (same id) they hash alike
example : noteLt ⟨some "a", 60, 60, 1, 2, 2, 64, 0, 1, none, none⟩ ⟨some "a", 60, 60, 1, 3, 3, 64, 0, 1, none, none⟩ = false
    ∧ noteLe ⟨some "a", 60, 60, 1, 2, 2, 64, 0, 1, none, none⟩ ⟨some "a", 60, 60, 1, 3, 3, 64, 0, 1, none, none⟩ = true
    ∧ noteEq ⟨some "a", 60, 60, 1, 2, 2, 64, 0, 1, none, none⟩ ⟨some "a", 60, 60, 1, 3, 3, 64, 0, 1, none, none⟩ = false
    ∧ noteEq ⟨some "a", 60, 60, 1, 2, 2, 64, 0, 1, none, none⟩ ⟨some "a", 60, 60, 1, 2, 2, 64, 0, 1, some 0, none⟩ = false := by
  decide +kernel

/-! ### the order of the note list is irrelevant -/

/-- "all note lists … unsorted order": rearrange the note list in any way; a note that stood at position `i` and now
    stands at position `i'` has the same sounding end (any controls, any threshold) -/
theorem sound_order_free (ns ns' : List Note) (cs : List Control) (thr : Int) (hp : ns.Perm ns') (i i' : Nat) (n : Note)
    (hi : ns[i]? = some n) (hi' : ns'[i']? = some n) :
    soundOffAt ns cs thr i = soundOffAt ns' cs thr i' := by
  rw [soundOffAt_eq, soundOffAt_eq, hi, hi', Option.map_some, Option.map_some,
    spec_perm ns ns' cs thr hp i i' n hi hi']

/-- … so the table of (note, sounding end) pairs is rearranged with the notes -/
theorem sound_perm_pairs (ns ns' : List Note) (cs : List Control) (thr : Int) (hp : ns.Perm ns') :
    ∃ so so', soundOffs ns cs thr = some so ∧ soundOffs ns' cs thr = some so'
      ∧ so.length = ns.length ∧ so'.length = ns'.length ∧ (ns.zip so).Perm (ns'.zip so') := by
  refine ⟨_, _, soundOffs_eq_map ns cs thr, soundOffs_eq_map ns' cs thr, by simp, by simp, ?_⟩
  have hz : ∀ (f : Note → Rat) (l : List Note), l.zip (l.map f) = l.map (fun n => (n, f n)) := by
    intro f l
    induction l with
    | nil => rfl
    | cons a rest ih => simp [ih]
  rw [hz, hz]
  have : ns.map (fun n => (n, specOf ns cs thr n)) = ns.map (fun n => (n, specOf ns' cs thr n)) := by
    apply List.map_congr_left
    intro n hn
    rw [specOf_perm ns ns' cs thr hp n hn]
  rw [this]
  exact hp.map _

-- the part of Props/C14.lean's example with its notes in another order: b (struck at 3) still cuts a
example : soundOffAt [⟨60, 0, 2, 64, 0, 1, none⟩, ⟨60, 3, 4, 64, 0, 2, none⟩, ⟨62, 0, 2, 64, 0, 1, none⟩]
      [⟨64, 1/2, 100, none⟩, ⟨64, 5, 0, none⟩] 64 0 = some 3
    ∧ soundOffAt [⟨62, 0, 2, 64, 0, 1, none⟩, ⟨60, 3, 4, 64, 0, 2, none⟩, ⟨60, 0, 2, 64, 0, 1, none⟩]
      [⟨64, 1/2, 100, none⟩, ⟨64, 5, 0, none⟩] 64 2 = some 3 := by decide +kernel

/-! ### statements that reorder `pp.notes` -/

/-- every reordering statement rearranges the notes: none is lost, duplicated or changed (so every note keeps its
    `sound_off` until the next assignment) -/
theorem reorder_perm (o : OrdOp) (l : List PNote) : (reorder o l).Perm l := by
  cases o with
  | sort => exact perm_sortBy _ l
  | sortDesc => exact (List.reverse_perm _).trans ((perm_sortBy _ _).trans (List.reverse_perm l))
  | reverse => exact List.reverse_perm l

/-- `pp.notes.sort()`: ascending onsets, notes with equal onsets in their previous order — and every list with these
    two properties (a stable sort by `__lt__`, as Python documents `list.sort`) is this one -/
theorem sort_spec (l : List PNote) :
    (reorder .sort l).Pairwise (fun a b => a.on ≤ b.on)
      ∧ (∀ t : Rat, (reorder .sort l).filter (fun a => decide (a.on = t)) = l.filter (fun a => decide (a.on = t)))
      ∧ ∀ s, IsStableSort (fun a : PNote => a.on) l s → s = reorder .sort l := by
  have hk : orderVal = fun a : PNote => a.on := funext orderVal_eq
  simp only [reorder, hk]
  exact ⟨sorted_sortBy _ l, fun t => stable_sortBy _ t l, fun s hs => stable_sort_unique _ l s hs⟩

/-- `pp.notes.sort(reverse=True)`: descending onsets, notes with equal onsets in their previous order -/
theorem sort_desc_spec (l : List PNote) :
    (reorder .sortDesc l).Pairwise (fun a b => b.on ≤ a.on)
      ∧ ∀ t : Rat, (reorder .sortDesc l).filter (fun a => decide (a.on = t)) = l.filter (fun a => decide (a.on = t)) := by
  have hk : orderVal = fun a : PNote => a.on := funext orderVal_eq
  simp only [reorder, hk]
  constructor
  · rw [List.pairwise_reverse]
    exact sorted_sortBy _ _
  · intro t
    rw [List.filter_reverse, stable_sortBy _ t l.reverse, List.filter_reverse, List.reverse_reverse]

example : (reorder .sort [⟨some "a", 60, 60, 2, 3, 3, 64, 0, 1, none, none⟩, ⟨some "b", 61, 61, 1, 3, 3, 64, 0, 1, none, none⟩,
      ⟨some "c", 62, 62, 2, 2, 2, 64, 0, 1, none, none⟩, ⟨some "d", 63, 63, 1, 1, 1, 64, 0, 1, none, none⟩]).map (·.id)
      = [some "b", some "d", some "a", some "c"]
    ∧ (reorder .sortDesc [⟨some "a", 60, 60, 2, 3, 3, 64, 0, 1, none, none⟩, ⟨some "b", 61, 61, 1, 3, 3, 64, 0, 1, none, none⟩,
      ⟨some "c", 62, 62, 2, 2, 2, 64, 0, 1, none, none⟩, ⟨some "d", 63, 63, 1, 1, 1, 64, 0, 1, none, none⟩]).map (·.id)
      = [some "a", some "c", some "b", some "d"] := by decide +kernel

/-- relabelling that keeps the onsets commutes with every reordering statement -/
theorem reorder_map (o : OrdOp) (g : PNote → PNote) (hg : ∀ n, (g n).on = n.on) (l : List PNote) :
    reorder o (l.map g) = (reorder o l).map g := by
  have hk : (fun a => orderVal (g a)) = orderVal := by
    funext a; rw [orderVal_eq, orderVal_eq, hg]
  cases o with
  | sort => simp only [reorder]; rw [sortBy_map, hk]
  | sortDesc => simp only [reorder]; rw [← List.map_reverse, sortBy_map, hk, List.map_reverse]
  | reverse => simp only [reorder, List.map_reverse]

/-- reordering COMMUTES with the assignment of the threshold: sort (or reverse) the notes and then assign, or assign
    and then sort — the part is the same, note by note with the same sounding ends -/
theorem reorder_commutes_assign (p : PPart) (o : OrdOp) (t : Int) :
    assignThr { p with notes := reorder o p.notes } t
      = (assignThr p t).map (fun q => { q with notes := reorder o q.notes }) := by
  rw [assignThr_eq_map, assignThr_eq_map, Option.map_some]
  simp only
  congr 2
  rw [reorder_map o (resound p.notes p.controls t) (fun _ => rfl)]
  apply List.map_congr_left
  intro n hn
  exact resound_perm _ _ _ _ (reorder_perm o p.notes) n hn

example : (buildRaw [⟨some "b", some 60, none, some 3, some 4, none, none, none, none, none, none⟩,
                     ⟨some "a", some 60, none, some 0, some 2, none, none, none, none, none, none⟩]
      [⟨64, 1/2, 100, none⟩, ⟨64, 5, 0, none⟩] 64).map (fun p =>
        (yrun p [.ord .sort, .x (.base (.thr 64)), .ord .reverse, .x (.base (.thr 0))]).map
           (fun x => (x.2, x.1.notes.map (fun n => (n.id, n.soundOff)))))
    = some [(.ok, [(some "a", 3), (some "b", 5)]), (.ok, [(some "a", 3), (some "b", 5)]),
            (.ok, [(some "b", 5), (some "a", 3)]), (.ok, [(some "b", 5), (some "a", 3)])] := by decide +kernel

/-! ### the rebuilt part, through any rearrangement of the array and through `Performance.note_array()` -/

/-- `from_note_array` of the rows of the part's note array IN ANY ORDER: the rebuilt part has the same pitches,
    velocities, onsets and sounding ends (as release and as sounding end) — the same table, rearranged with the rows -/
theorem from_array_any_order (f : ArrFields) (hf : f.sec = true ∧ f.vel = true) (mpq ppq : Nat) (p : PPart)
    (hp : ∀ n ∈ p.notes, Rebuildable n) (notes' : List PNote) (hperm : notes'.Perm p.notes) :
    ∃ q, fromArray f (partRows mpq ppq { p with notes := notes' }) = some q
      ∧ (q.notes.map (fun n => (n.pitch, n.vel, n.on, n.off, n.soundOff))).Perm
          (p.notes.map (fun n => (n.midiPitch, n.vel, n.on, n.soundOff, n.soundOff)))
      ∧ q.controls = [] ∧ q.thr = Gen.C14.defaultThreshold := by
  obtain ⟨q, hq, hfields, _, _, _, _, hc, ht⟩ :=
    from_array_roundtrip f hf mpq ppq { p with notes := notes' } (fun n hn => hp n (hperm.mem_iff.mp hn))
  refine ⟨q, hq, ?_, hc, ht⟩
  have h1 : q.notes.map (fun n => (n.pitch, n.vel, n.on, n.off, n.soundOff))
      = notes'.map (fun n => (n.midiPitch, n.vel, n.on, n.soundOff, n.soundOff)) := by
    have := congrArg (List.map (fun x : Int × Int × Int × Rat × Rat × Rat => (x.1, x.2.2.1, x.2.2.2.1, x.2.2.2.2.1, x.2.2.2.2.2))) hfields
    rw [List.map_map, List.map_map] at this
    exact this
  rw [h1]
  exact hperm.map _

/-- the composition the property speaks about, through the PERFORMANCE's note array: `Performance(pp).note_array()`
    holds the rows of `pp.note_array()` rearranged (by onset, then pitch), and the part rebuilt from it has the same
    pitches, velocities, onsets and sounding ends as `pp` -/
theorem rebuilt_from_performance_array (f : ArrFields) (hf : f.sec = true ∧ f.vel = true) (uid : Bool) (mpq ppq : Nat)
    (p : PPart) (hp : ∀ n ∈ p.notes, Rebuildable n) :
    ∃ rows q, perfRows uid [partRows mpq ppq p] = some rows ∧ rows.Perm (partRows mpq ppq p)
      ∧ fromArray f rows = some q
      ∧ (q.notes.map (fun n => (n.pitch, n.vel, n.on, n.off, n.soundOff))).Perm
          (p.notes.map (fun n => (n.midiPitch, n.vel, n.on, n.soundOff, n.soundOff)))
      ∧ q.controls = [] ∧ q.thr = Gen.C14.defaultThreshold := by
  set g : PNote → ARow := fun n => { id := idText n.id, row := noteRow mpq ppq n.toNote n.soundOff } with hg
  set notes' := sortBy (fun n => (g n).row.onsetSec) (sortBy (fun n => ((g n).row.pitch : Rat)) p.notes) with hn'
  have hperm : notes'.Perm p.notes := (perm_sortBy _ _).trans (perm_sortBy _ _)
  have hrows : perfRows uid [partRows mpq ppq p] = some (partRows mpq ppq { p with notes := notes' }) := by
    have hc : perfConcat uid [partRows mpq ppq p] = partRows mpq ppq p := by
      simp [perfConcat, prefixIds]
    unfold perfRows
    rw [hc]
    simp only [List.isEmpty_cons, Bool.false_eq_true, if_false, Option.some.injEq]
    unfold partRows
    simp only
    rw [sortBy_map, sortBy_map]
  obtain ⟨q, hq, hf', hc, ht⟩ := from_array_any_order f hf mpq ppq p hp notes' hperm
  refine ⟨_, q, hrows, ?_, hq, hf', hc, ht⟩
  unfold partRows
  exact hperm.map _

-- the part of the example above (b struck at 3 cuts a; given in the order b, a) through the performance's array
example : ((buildRaw [⟨some "b", some 60, none, some 3, some 4, none, none, none, none, none, none⟩,
                      ⟨some "a", some 60, none, some 0, some 2, none, none, none, none, none, none⟩]
      [⟨64, 1/2, 100, none⟩, ⟨64, 5, 0, none⟩] 64).bind (fun p => perfRows true [partRows 500000 480 p])).bind
        (fun rows => (fromArray ⟨true, true, true, true, true⟩ rows).map
          (fun q => q.notes.map (fun n => (n.id, n.pitch, n.on, n.off, n.soundOff))))
    = some [(some "a", 60, 0, 3, 3), (some "b", 60, 3, 5, 5)] := by decide +kernel

/-! ### histories that also reorder the list -/

/-- the statements of a history that are not reorderings -/
def xops : List YOp → List XOp
  | [] => []
  | .x o :: os => o :: xops os
  | .ord _ :: os => xops os

theorem ystep_controls (p : PPart) (o : YOp) : (ystep p o).1.controls = ctlAfter p.controls (xops [o]) := by
  cases o with
  | x o => exact xstep_controls p o
  | ord o => rfl

/-- "setting it recomputes every note", over ALL histories of threshold assignments, item assignments, appended /
    inserted / removed / copied notes, edits of the control stream AND reorderings of the note list: whenever
    statement `k` is the assignment of `t` it succeeds, and afterwards the `sound_off` column is
    `adjust_offsets_w_sustain` of the notes the part holds at that moment — in the order they stand in then, which by
    `sound_order_free` is irrelevant — and of the control stream as it is then; no sounding end lies before its release -/
theorem yhistory_recompute (p : PPart) (ops : List YOp) (k : Nat) (t : Int) (h : ops[k]? = some (.x (.base (.thr t)))) :
    ∃ q, (yrun p ops)[k]? = some (q, .ok) ∧ q.thr = t ∧ q.controls = ctlAfter p.controls (xops (ops.take k))
      ∧ soundOffs (q.notes.map PNote.toNote) q.controls t = some (q.notes.map (·.soundOff))
      ∧ ∀ (i : Nat) (n : PNote), q.notes[i]? = some n → n.off ≤ n.soundOff := by
  induction ops generalizing p k with
  | nil => simp at h
  | cons o rest ih =>
    cases k with
    | zero =>
      simp only [List.getElem?_cons_zero, Option.some.injEq] at h
      subst h
      obtain ⟨q, hq, ht, hc, _, _, _, hs⟩ := step_thr p t
      refine ⟨q, ?_, ht, ?_, hs, ?_⟩
      · simp only [yrun, ystep, xstep, List.getElem?_cons_zero, hq]
      · simpa [ctlAfter, xops] using hc
      · intro i n hn
        exact (state_sound p t q hq i n hn).2
    | succ k' =>
      simp only [List.getElem?_cons_succ] at h
      obtain ⟨q, hq, ht, hc, hs, hge⟩ := ih (ystep p o).1 k' h
      refine ⟨q, ?_, ht, ?_, hs, hge⟩
      · simp only [yrun, List.getElem?_cons_succ]
        exact hq
      · rw [hc, ystep_controls, List.take_succ_cons]
        cases o with
        | x o => simp only [xops]; rw [← ctlAfter_cons]
        | ord o => simp only [xops, ctlAfter]

/-- … so every theorem of Props/C14.lean about `soundOffAt` holds for every note of that state -/
theorem ystate_sound (p : PPart) (ops : List YOp) (k : Nat) (t : Int) (h : ops[k]? = some (.x (.base (.thr t))))
    (q : PPart) (obs : Obs) (hq : (yrun p ops)[k]? = some (q, obs)) (i : Nat) (n : PNote) (hn : q.notes[i]? = some n) :
    soundOffAt (q.notes.map PNote.toNote) q.controls t i = some n.soundOff := by
  obtain ⟨q', hq', _, _, hs, _⟩ := yhistory_recompute p ops k t h
  rw [hq] at hq'
  have : q = q' := (Prod.mk.inj (Option.some.inj hq')).1
  subst this
  unfold soundOffAt
  rw [hs]
  simp [List.getElem?_map, hn]

end C14
