/-
C13, round 2 — the float32 time columns of `pianoroll_to_notearray`, exactly.

The decoded onset / duration is `float(start) / time_div` — a correctly rounded binary64 quotient — stored in
an `f4` column — rounded once more, to binary32.  `roundBin` is that rounding (to nearest, ties to even);
`storeF32 q = f32 (f64 q)`; `decodeStored` is the array as returned.  The correspondence compares every stored
value exactly.
-/
import PartituraModel.Props.C13
import PartituraModel.Proofs.C13Store

namespace C13
open Model Model.PianoRoll C13Float
open List

/-- `pow2 e` is `2^e` -/
theorem pow2_spec (e : Int) : pow2 e = (2 : ℚ) ^ e := pow2_eq e

/-- `ilog2 q = ⌊log₂ q⌋` for positive `q` -/
theorem ilog2_floor (q : ℚ) (hq : 0 < q) : (2 : ℚ) ^ ilog2 q ≤ q ∧ q < (2 : ℚ) ^ (ilog2 q + 1) := by
  have := ilog2_spec q hq
  rwa [pow2_eq, pow2_eq] at this

/-- **the rounding, exactly**: `roundBin prec emin` (binary32: 24, -149; binary64: 53, -1074) maps 0 to 0, is odd,
    returns a multiple of the unit in the last place `2^max(⌊log₂|q|⌋ - prec + 1, emin)` that is within half
    a unit of `q` — the even multiple when `q` is half-way (`Round.roundHalfEven_tie_even`) —, hence within
    `|q| * 2^-prec` in the normal range, and returns every number of the format unchanged -/
theorem round_spec (prec : Nat) (emin : Int) (q : ℚ) :
    roundBin prec emin 0 = 0 ∧
    roundBin prec emin (-q) = -roundBin prec emin q ∧
    (0 < q → ∃ m : Int, m = roundHalfEven (q / ulpOf prec emin q) ∧ roundBin prec emin q = (m : ℚ) * ulpOf prec emin q ∧
      |roundBin prec emin q - q| ≤ ulpOf prec emin q / 2) ∧
    ((2 : ℚ) ^ (emin + (prec : Int) - 1) ≤ |q| → |roundBin prec emin q - q| ≤ |q| * (2 : ℚ) ^ (-(prec : Int))) ∧
    (∀ m k : Int, q = (m : ℚ) * (2 : ℚ) ^ k → m.natAbs < 2 ^ prec → emin ≤ k → roundBin prec emin q = q) := by
  refine ⟨roundBin_zero prec emin, ?_, ?_, ?_, ?_⟩
  · rcases lt_trichotomy q 0 with h | h | h
    · rw [roundBin_neg _ _ _ h, roundBin_pos _ _ _ (by linarith : 0 < -q)]; ring
    · subst h; simp [roundBin_zero]
    · rw [roundBin_pos _ _ _ h, roundBin_neg _ _ _ (by linarith : -q < 0)]; simp
  · intro h
    refine ⟨_, rfl, ?_, ?_⟩
    · rw [roundBin_pos _ _ _ h]; rfl
    · rw [roundBin_pos _ _ _ h]; exact roundPos_close prec emin q
  · intro h
    have := roundBin_rel prec emin q (by rwa [pow2_eq])
    rwa [pow2_eq] at this
  · intro m k hq hm hk
    rw [hq, ← pow2_eq]
    exact roundBin_exact prec emin m k hm hk

/-- **a stored time is close**: for `2^-125 ≤ |q| ≤ 2^127` the binary32 value stored for the exact quotient `q`
    exists (no overflow) and is within `|q| * 2^-23` of it; 0 is stored as 0 -/
theorem stored_close (q : ℚ) :
    storeF32 0 = some 0 ∧
    ((2 : ℚ) ^ (-125 : Int) ≤ |q| → |q| ≤ (2 : ℚ) ^ (127 : Int) →
      ∃ x, storeF32 q = some x ∧ |x - q| ≤ |q| * (2 : ℚ) ^ (-23 : Int)) := by
  refine ⟨storeF32_zero, ?_⟩
  intro h1 h2
  have := storeF32_close q (by rwa [pow2_eq]) (by rwa [pow2_eq])
  rwa [pow2_eq] at this

/-- **a stored time on a power-of-two grid is exact**: `m * 2^k` with `|m| < 2^24`, `-149 ≤ k ≤ 103` is stored
    unchanged -/
theorem stored_exact (m k : Int) (hm : m.natAbs < 2 ^ 24) (hk : -149 ≤ k) (hk2 : k ≤ 103) :
    storeF32 ((m : ℚ) * (2 : ℚ) ^ k) = some ((m : ℚ) * (2 : ℚ) ^ k) := by
  rw [← pow2_eq]
  exact storeF32_exact m k hm hk hk2

example : storeF32 (1 / 3) = some (11184811 / 33554432) := by decide +kernel
example : storeF32 (7 / 12) = some (9786709 / 16777216) := by decide +kernel
example : storeF32 (-5 / 8) = some (-5 / 8) := by decide +kernel
/-- a tie between two binary32 neighbours goes to the even one: `1 + 2^-24 ↦ 1`, `1 + 3 * 2^-24 ↦ 1 + 2^-22` -/
example : storeF32 (1 + 1 / 16777216) = some 1 ∧ storeF32 (1 + 3 / 16777216) = some (1 + 1 / 4194304) := by
  decide +kernel
/-- below the normal range the spacing stays `2^-149`; beyond the largest binary32 number the value is `inf` -/
example : storeF32 ((3 : ℚ) / ((2 ^ 150 : Nat) : ℚ)) = some ((1 : ℚ) / ((2 ^ 148 : Nat) : ℚ)) := by decide +kernel
example : storeF32 (((2 ^ 128 : Nat) : ℚ)) = none := by decide +kernel

/-- **`pianoroll_to_notearray` as returned**: with `time_div` omitted it is 8; the stored array has the exact
    decoder's pitches and velocities (`decode_spec`) and, as onset and duration, the binary32 values `storeF32` of
    the exact quotients -/
theorem stored_times (rows : Nat) (cols : List (List Int)) (td : Option Rat) :
    decodeKw rows cols none = decode rows cols 8 ∧
    decodeKw rows cols (some (td.getD 8)) = decodeKw rows cols td ∧
    (decodeStored rows cols td = none ↔ decodeKw rows cols td = none) ∧
    ∀ l, decodeKw rows cols td = some l →
      decodeStored rows cols td = some (l.map fun (p, on, du, v) => (p, storeF32 on, storeF32 du, v)) := by
  have hd : Gen.C13_DEC_DEFAULT_time_div = 8 := by decide
  refine ⟨?_, ?_, ?_, ?_⟩
  · unfold decodeKw; rw [Option.getD_none, hd]
  · unfold decodeKw; cases td <;> simp [hd]
  · unfold decodeStored; cases decodeKw rows cols td <;> simp
  · intro l hl
    unfold decodeStored
    rw [hl]
    rfl

/-- **on a power-of-two grid the decoded times are exact**: when `time_div = 2^j` (`-103 ≤ j ≤ 149`; e.g. 1, 2, 8,
    16, 1/2) and the roll has fewer than `2^24` columns, every stored onset and duration is exactly
    `start / time_div` resp. `length / time_div` -/
theorem stored_grid (rows : Nat) (cols : List (List Int)) (j : Int) (hj1 : -103 ≤ j) (hj2 : j ≤ 149)
    (hlen : cols.length < 2 ^ 24) :
    decodeStored rows cols (some ((2 : ℚ) ^ j)) =
      (decode rows cols ((2 : ℚ) ^ j)).map fun l => l.map fun (p, on, du, v) => (p, some on, some du, v) := by
  have htd : (2 : ℚ) ^ j ≠ 0 := by positivity
  unfold decodeStored decodeKw
  simp only [Option.getD_some]
  cases hdec : decode rows cols ((2 : ℚ) ^ j) with
  | none => rfl
  | some l =>
    simp only [Option.map_some, Option.some.injEq]
    -- the shape is accepted, so `l` is the image of the runs
    obtain ⟨hbad, hgood⟩ := decode_spec rows cols ((2 : ℚ) ^ j)
    have hrows : rows = 128 ∨ rows = 88 := by
      by_contra hc
      push_neg at hc
      rw [hbad hc] at hdec
      cases hdec
    obtain ⟨init, hinit⟩ : ∃ init : Int, (rows = 128 ∧ init = 0) ∨ (rows = 88 ∧ init = 21) := by
      rcases hrows with h | h
      · exact ⟨0, Or.inl ⟨h, rfl⟩⟩
      · exact ⟨21, Or.inr ⟨h, rfl⟩⟩
    obtain ⟨_, hsome, _, _, hmem⟩ := hgood init hinit
    rw [hsome (Or.inl htd)] at hdec
    simp only [Option.some.injEq] at hdec
    subst hdec
    rw [map_map, map_map]
    apply map_congr_left
    intro x hx
    obtain ⟨_, hlt, hoff, _⟩ := (hmem x).mp hx
    have hdivmul : ∀ n : Nat, (n : ℚ) / (2 : ℚ) ^ j = ((n : Int) : ℚ) * (2 : ℚ) ^ (-j) := by
      intro n
      rw [zpow_neg, div_eq_mul_inv]
      push_cast
      rfl
    have e1 := stored_exact (x.on : Int) (-j) (by simp; omega) (by omega) (by omega)
    have e2 := stored_exact ((x.off - x.on : Nat) : Int) (-j) (by simp; omega) (by omega) (by omega)
    simp only [Function.comp, outOf]
    rw [hdivmul, hdivmul, e1, e2]

/-- two notes decoded at eight frames per unit: frames 3..7 and 8..9 of pitch 60 -/
example : decodeStored 128 ((List.replicate 3 (List.replicate 128 0)) ++
      (List.replicate 5 (List.replicate 60 0 ++ [64] ++ List.replicate 67 0)) ++
      (List.replicate 2 (List.replicate 60 0 ++ [-3] ++ List.replicate 67 0))) none
    = some [(60, some (3 / 8), some (5 / 8), 64), (60, some 1, some (1 / 4), -3)] := by decide +kernel
/-- at three frames per unit the times are the binary32 neighbours of 1/3 and 2/3 -/
example : decodeStored 88 ([List.replicate 88 0] ++ List.replicate 2 ([7] ++ List.replicate 87 0)) (some 3)
    = some [(21, some (11184811 / 33554432), some (11184811 / 16777216), 7)] := by decide +kernel

end C13
