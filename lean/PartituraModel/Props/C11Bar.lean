/-
C11 — the measure theorems for the CONCRETE bar-end map of `add_measures` (C02's beat maps), i.e. for real parts.

`measures_tile` / `numbers_consecutive` / `measure_lengths` (Props/C11.lean) hold for every bar-end map that is
`Integral`.  Here that hypothesis is discharged for `Model.Meas.barEnd p` — `inv_beat_map(min(beat_map(pos) + beats,
beat_map(end)))` over `Model.TimeMap` — under a side condition on the part that is decidable and computed from the
part alone (`BarsIntegral`): positive divisions and signature numbers, and every stretch of one time signature lies on
one linear piece of the beat map (no quarter-duration change strictly inside it) on which a beat lasts a whole
number `L = 4 * quarter_duration / beat_type` of divisions.  The bar length `beats * L` then appears in closed form.
-/
import PartituraModel.Props.C11
import PartituraModel.Proofs.C11Bar

namespace C11
open Model Model.Dur Model.Meas Gen C11Meas C11Bar

/-- **bar_end_closed_form**: on a stretch `[s, e)` with `L` divisions per beat, from an integer position `n` the
    concrete bar-end map answers `n + beats * L` when that is not beyond the end of the stretch, and otherwise a
    position at or beyond the end of the stretch (which `add_measures` cuts to `e`) -/
theorem bar_end_closed_form (p : PartM) (hwf : C02Proofs.WF (toTimeMapPart p) .notated) (s e b L : Nat)
    (hfs : p.first ≤ s) (hel : e ≤ p.last) (hlin : StretchBeat p (s, e, b) L) (n : Nat) (hsn : s ≤ n) (hne : n < e)
    (v : Rat) (h : barEnd p (n : Rat) b = some v) :
    (v = ((n + b * L : Nat) : Rat) ∧ n + b * L ≤ e) ∨ ((e : Rat) ≤ v ∧ e < n + b * L) :=
  barEnd_linear p hwf s e b L hfs hel hlin n hsn hne v h

/-- `add_measures` over the concrete map runs exactly like over its integral completion -/
theorem addMeasures_integ (p : PartM) (fuel : Nat) (l : List (Nat × Nat × Nat)) (hok : TsOK p)
    (hl : stretches p = some l) (hex : ExistingOK p l) (hb : BarsIntegral p l) :
    addMeasures p fuel = addMeasuresWith (integ (barEnd p)) p fuel := by
  rw [addMeasures_eq]
  exact addMeasures_congr (barEnd p) p fuel l hl (barEnd_localOK p l (stretches_chain p hok l hl) hb)
    (td_nonEmpty _ _ hex.ordered)

/-- **measures_tile_real**: `measures_tile` for `add_measures` itself (C02's beat maps) -/
theorem measures_tile_real (p : PartM) (fuel : Nat) (l : List (Nat × Nat × Nat)) (ms' : List Measure) (hok : TsOK p)
    (hl : stretches p = some l) (hex : ExistingOK p l) (hb : BarsIntegral p l) (h : addMeasures p fuel = .ok ms') :
    ms'.Pairwise (fun m m' => m.stop ≤ m'.start) ∧
    (∀ m ∈ ms', p.first ≤ m.start ∧ m.stop ≤ p.last) ∧
    (∀ t, p.first ≤ t → t < p.last → ∃ m ∈ ms', m.start ≤ t ∧ t < m.stop) ∧
    (p.measures.map C11Meas.ext).Sublist (ms'.map C11Meas.ext) := by
  rw [addMeasures_integ p fuel l hok hl hex hb] at h
  exact measures_tile _ (integ_integral _) p fuel l ms' hok hl hex h

/-- **numbers_consecutive_real** -/
theorem numbers_consecutive_real (p : PartM) (fuel : Nat) (l : List (Nat × Nat × Nat)) (ms' : List Measure) (hok : TsOK p)
    (hl : stretches p = some l) (hex : ExistingOK p l) (hb : BarsIntegral p l) (h : addMeasures p fuel = .ok ms') :
    ∀ (i : Nat) (hi : i < ms'.length), (ms'[i]).number = some (1 + (i : Int)) := by
  rw [addMeasures_integ p fuel l hok hl hex hb] at h
  exact numbers_consecutive _ (integ_integral _) p fuel l ms' hok hl hex h

/-- **measure_lengths_real**: every measure after `add_measures` is an old one (same extent) or was added inside a
    stretch `x = (start, end, beats)` of one time signature with `L` divisions per beat, and is a bar of the length
    the signature implies, `beats * L` divisions — shorter only because the stretch ends there (next signature change
    or end of the part) or an existing measure starts there -/
theorem measure_lengths_real (p : PartM) (fuel : Nat) (l : List (Nat × Nat × Nat)) (ms' : List Measure) (hok : TsOK p)
    (hl : stretches p = some l) (hex : ExistingOK p l) (hb : BarsIntegral p l) (h : addMeasures p fuel = .ok ms') :
    ∀ m ∈ ms', (∃ x ∈ p.measures, x.start = m.start ∧ x.stop = m.stop) ∨
      ∃ x ∈ l, ∃ L : Nat, StretchBeat p x L ∧ x.1 ≤ m.start ∧ m.start < x.2.1 ∧ m.stop ≤ x.2.1 ∧
        m.stop ≤ m.start + x.2.2 * L ∧
        (m.stop = m.start + x.2.2 * L ∨ m.stop = x.2.1 ∨ ∃ y ∈ p.measures, y.start = m.stop) := by
  rw [addMeasures_integ p fuel l hok hl hex hb] at h
  intro m hm
  rcases measure_lengths _ (integ_integral _) p fuel l ms' hok hl hex h m hm with h1 | ⟨x, hx, w, hw, g1, g2, g3, g4, g5⟩
  · exact Or.inl h1
  · right
    obtain ⟨s, e, b⟩ := x
    simp only at hw g1 g2 g3 g4 g5
    obtain ⟨_, hlin⟩ := hb.2 (s, e, b) hx
    obtain ⟨L, hL⟩ := hlin (by simp only; omega)
    obtain ⟨b1, b2⟩ := sc_bounds l _ _ (stretches_chain p hok l hl) (s, e, b) hx
    refine ⟨(s, e, b), hx, L, hL, g1, g2, g4, ?_⟩
    -- the answer of the completed map comes from the concrete one
    unfold integ at hw
    cases hv : barEnd p (m.start : Rat) b with
    | none => rw [hv] at hw; simp at hw
    | some v =>
      rw [hv] at hw
      simp only [Option.map_some, Option.some.injEq] at hw
      rcases barEnd_linear p hb.1 s e b L b1 b2 hL m.start g1 g2 v hv with ⟨c1, c2⟩ | ⟨c1, c2⟩
      · -- a whole bar fits: w is its end
        have hwv : (w : Rat) = ((m.start + b * L : Nat) : Rat) := by
          rw [← hw, c1]
          unfold fixUp
          rw [ceil_nat]
          split
          · rfl
          · rename_i hc
            exfalso; apply hc
            have hbpos := (hb.2 (s, e, b) hx).1
            have hLpos : 0 < L := by obtain ⟨_, _, _, _, _, _, _, h, _⟩ := hL; exact h
            have : 0 < b * L := Nat.mul_pos hbpos hLpos
            exact_mod_cast (by omega : m.start < m.start + b * L)
        have hwn : w = m.start + b * L := by exact_mod_cast hwv
        subst hwn
        exact ⟨g3, g5⟩
      · -- the stretch ends first
        simp only
        refine ⟨by omega, ?_⟩
        rcases g5 with g5 | g5 | g5
        · -- m.stop = w ≥ e: then m.stop = e
          right; left
          have hwe : (e : Rat) ≤ (w : Rat) := by
            rw [← hw]
            unfold fixUp
            split
            · have h0 : (0 : Int) ≤ v.ceil := by
                have hv0 : (0 : Rat) ≤ v := le_trans (Nat.cast_nonneg e) c1
                have : (-1 : Int) < v.ceil := Rat.lt_ceil_iff.mpr (by push_cast; linarith)
                omega
              have e1 : ((v.ceil.toNat : Nat) : Rat) = ((v.ceil : Int) : Rat) := by
                have : ((v.ceil.toNat : Nat) : Int) = v.ceil := Int.toNat_of_nonneg h0
                exact_mod_cast this
              rw [e1]
              exact le_trans c1 Rat.le_ceil
            · rename_i hc
              rw [floor_nat]
              have h2 : ((v.ceil.toNat : Nat) : Rat) ≤ (m.start : Rat) := not_lt.mp hc
              have h0 : (0 : Int) ≤ v.ceil := by
                have hv0 : (0 : Rat) ≤ v := le_trans (Nat.cast_nonneg e) c1
                have : (-1 : Int) < v.ceil := Rat.lt_ceil_iff.mpr (by push_cast; linarith)
                omega
              have e1 : ((v.ceil.toNat : Nat) : Rat) = ((v.ceil : Int) : Rat) := by
                have : ((v.ceil.toNat : Nat) : Int) = v.ceil := Int.toNat_of_nonneg h0
                exact_mod_cast this
              have h3 : (e : Rat) ≤ (m.start : Rat) := by
                refine le_trans (le_trans c1 Rat.le_ceil) ?_
                rw [← e1]; exact h2
              have : e ≤ m.start := by exact_mod_cast h3
              omega
          have : e ≤ w := by exact_mod_cast hwe
          omega
        · exact Or.inr (Or.inl g5)
        · exact Or.inr (Or.inr g5)

-- non-vacuity: 6/8 at 2 divisions per quarter, then 3/4 at 4 divisions per quarter from 12 on; bars of 6 and of 12
def exReal : PartM :=
  { first := 0, last := 36, npoints := 3, qd := [(0, 2), (12, 4)], ts := [⟨0, 6, 8, 2⟩, ⟨12, 3, 4, 3⟩], measures := [] }

example : stretches exReal = some [(0, 12, 6), (12, 36, 3)] ∧
    addMeasures exReal 200 = .ok [⟨0, 6, some 1⟩, ⟨6, 12, some 2⟩, ⟨12, 24, some 3⟩, ⟨24, 36, some 4⟩] := by
  decide +kernel

example : TsOK exReal := ⟨by decide, by decide, by decide, by decide⟩
example : ExistingOK exReal [(0, 12, 6), (12, 36, 3)] := ⟨trivial, by decide, by decide⟩

example : BarsIntegral exReal [(0, 12, 6), (12, 36, 3)] := by
  refine ⟨by decide, ?_⟩
  intro x hx
  simp only [List.mem_cons, List.not_mem_nil, or_false] at hx
  rcases hx with rfl | rfl
  · exact ⟨by decide, fun _ => ⟨1, [], [⟨36, 4, 1⟩], ⟨0, 2, 2⟩, ⟨12, 4, 1⟩, by decide +kernel, by decide, by decide, by decide, by norm_num⟩⟩
  · exact ⟨by decide, fun _ => ⟨4, [⟨0, 2, 2⟩], [], ⟨12, 4, 1⟩, ⟨36, 4, 1⟩, by decide +kernel, by decide, by decide, by decide, by norm_num⟩⟩

-- a bar that fits (6 + 6·1 = 12) and one that does not: from 7 the map answers 16, beyond the stretch end 12
-- (one beat of the 6/8 bar is counted after the change, where it lasts 4 divisions); `add_measures` cuts it to 12
example : barEnd exReal ((6 : Nat) : Rat) 6 = some ((12 : Nat) : Rat) ∧ barEnd exReal ((7 : Nat) : Rat) 6 = some ((16 : Nat) : Rat) := by
  decide +kernel

end C11
