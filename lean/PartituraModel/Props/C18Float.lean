/-
C18 — round 5: what single-precision STORAGE of the logarithmic parameters does to the decoded numbers, over ℝ.

The encoder stores `articulation_log`, `beat_period_log` and `beat_period_ratio_log` as float32: a stored column is
`x·(1 + δ)` with `|δ| ≤ u = 2⁻²⁴`; the decoder reads it back through `2 ** ·`.  The oracle of harness/props/c18.py lets the
tolerances of everything computed from such a column grow with `max(1, |x| / 4)` times `2⁻²⁰`.  Here that factor is a
THEOREM instead of an observation:

* `exp2_abs_sub_one`        `|2^t − 1| ≤ 2^|t| − 1`
* `exp2_sub_one_le`         `2^s − 1 ≤ s` for `0 ≤ s ≤ 1`
* `exp2_stored_column`      `|2^(x(1+δ)) − 2^x| ≤ 2^x · |x| · u` whenever `|δ| ≤ u` and `|x|·u ≤ 1`: the beat period
                            (ratio) read from a float32 logarithmic column is off by at most `|x|·2⁻²⁴` relative
* `stored_log_tolerance`    … which is below the oracle's `2⁻²⁰ · max(1, |x| / 4)` for every column `|x| ≤ 2²⁴`
* `decoded_duration_stored` the decoded duration `2^(a(1+δ)) · sd · bp(1+ε)` differs from the performed duration
                            `pd = 2^a · sd · bp` by at most `pd · ((1 + |a|u)(1 + u) − 1)`, hence by less than the
                            oracle's `2⁻²⁰ · max(1, |a|) · pd` (`decoded_duration_tolerance`)
-/
import Mathlib.Analysis.SpecialFunctions.Log.Base
import Mathlib.Analysis.Convex.SpecificFunctions.Basic

namespace C18

theorem exp2_abs_sub_one (t : ℝ) : |(2 : ℝ) ^ t - 1| ≤ (2 : ℝ) ^ |t| - 1 := by
  rcases le_total 0 t with h | h
  · have h1 : (1 : ℝ) ≤ (2 : ℝ) ^ t := Real.one_le_rpow (by norm_num) h
    rw [abs_of_nonneg h, abs_of_nonneg (by linarith)]
  · have hy : (1 : ℝ) ≤ (2 : ℝ) ^ (-t) := Real.one_le_rpow (by norm_num) (by linarith)
    have hinv : (2 : ℝ) ^ t = ((2 : ℝ) ^ (-t))⁻¹ := by
      rw [← Real.rpow_neg (by norm_num), neg_neg]
    rw [abs_of_nonpos h, hinv]
    set y := (2 : ℝ) ^ (-t)
    have hy0 : 0 < y := by linarith
    have hle : y⁻¹ ≤ 1 := inv_le_one_of_one_le₀ hy
    have hge : 0 < y⁻¹ := inv_pos.mpr hy0
    rw [abs_of_nonpos (by linarith)]
    have : y⁻¹ * y = 1 := inv_mul_cancel₀ (ne_of_gt hy0)
    nlinarith

theorem exp2_sub_one_le (s : ℝ) (h0 : 0 ≤ s) (h1 : s ≤ 1) : (2 : ℝ) ^ s - 1 ≤ s := by
  have := rpow_one_add_le_one_add_mul_self (s := 1) (by norm_num) h0 h1
  norm_num at this
  linarith

/-- a logarithmic column `x` stored with relative error `δ`, read back through `2 ** ·` -/
theorem exp2_stored_column (x δ u : ℝ) (hδ : |δ| ≤ u) (hu : |x| * u ≤ 1) :
    |(2 : ℝ) ^ (x * (1 + δ)) - (2 : ℝ) ^ x| ≤ (2 : ℝ) ^ x * (|x| * u) := by
  have hpos : (0 : ℝ) < (2 : ℝ) ^ x := Real.rpow_pos_of_pos (by norm_num) x
  have e : (2 : ℝ) ^ (x * (1 + δ)) = (2 : ℝ) ^ x * (2 : ℝ) ^ (x * δ) := by
    rw [← Real.rpow_add (by norm_num)]
    congr 1
    ring
  have hx0 : 0 ≤ |x| := abs_nonneg x
  have hle : |x * δ| ≤ |x| * u := by
    rw [abs_mul]
    exact mul_le_mul_of_nonneg_left hδ hx0
  have hs0 : 0 ≤ |x| * u := le_trans (abs_nonneg _) hle
  have h1 : |(2 : ℝ) ^ (x * δ) - 1| ≤ |x| * u := by
    calc |(2 : ℝ) ^ (x * δ) - 1| ≤ (2 : ℝ) ^ |x * δ| - 1 := exp2_abs_sub_one _
      _ ≤ (2 : ℝ) ^ (|x| * u) - 1 := by
        have := Real.rpow_le_rpow_of_exponent_le (x := 2) (by norm_num) hle
        linarith
      _ ≤ |x| * u := exp2_sub_one_le _ hs0 hu
  rw [e]
  have : (2 : ℝ) ^ x * (2 : ℝ) ^ (x * δ) - (2 : ℝ) ^ x = (2 : ℝ) ^ x * ((2 : ℝ) ^ (x * δ) - 1) := by ring
  rw [this, abs_mul, abs_of_pos hpos]
  exact mul_le_mul_of_nonneg_left h1 (le_of_lt hpos)

/-- the oracle's factor: with `u = 2⁻²⁴` the relative error `|x|·u` is below `2⁻²⁰ · max(1, |x| / 4)` -/
theorem stored_log_tolerance (x : ℝ) : |x| * (1 / 16777216) ≤ 1 / 1048576 * max 1 (|x| / 4) := by
  have h := le_max_right (1 : ℝ) (|x| / 4)
  have hx := abs_nonneg x
  nlinarith

example : |(2 : ℝ) ^ ((-18 : ℝ) * (1 + 1 / 16777216)) - (2 : ℝ) ^ (-18 : ℝ)| ≤ (2 : ℝ) ^ (-18 : ℝ) * (|(-18 : ℝ)| * (1 / 16777216)) :=
  exp2_stored_column _ _ _ (by norm_num [abs_le]) (by norm_num [abs_le])

/-- the decoded duration: `articulation_log = a` stored with relative error `δ`, the beat period with `ε` -/
theorem decoded_duration_stored (a sd bp δ ε u : ℝ) (hsd : 0 ≤ sd) (hbp : 0 ≤ bp) (hδ : |δ| ≤ u) (hε : |ε| ≤ u)
    (hu : |a| * u ≤ 1) (hu1 : u ≤ 1) :
    |(2 : ℝ) ^ (a * (1 + δ)) * sd * (bp * (1 + ε)) - (2 : ℝ) ^ a * sd * bp|
      ≤ (2 : ℝ) ^ a * sd * bp * ((1 + |a| * u) * (1 + u) - 1) := by
  have hpos : (0 : ℝ) < (2 : ℝ) ^ a := Real.rpow_pos_of_pos (by norm_num) a
  have hu0 : 0 ≤ u := le_trans (abs_nonneg _) hδ
  have hA := exp2_stored_column a δ u hδ hu
  obtain ⟨hA1, hA2⟩ := abs_le.mp hA
  obtain ⟨hE1, hE2⟩ := abs_le.mp hε
  have hau : 0 ≤ |a| * u := mul_nonneg (abs_nonneg _) hu0
  set P := (2 : ℝ) ^ a
  set Q := (2 : ℝ) ^ (a * (1 + δ))
  have hsb : 0 ≤ sd * bp := mul_nonneg hsd hbp
  -- Q = P (1 + α) with |α| ≤ |a| u ; the product of the two factors
  have hQ1 : Q ≤ P * (1 + |a| * u) := by nlinarith
  have hQ2 : P * (1 - |a| * u) ≤ Q := by nlinarith
  have hQ0 : 0 ≤ Q := le_of_lt (Real.rpow_pos_of_pos (by norm_num) _)
  rw [abs_le]
  constructor
  · have key : P - P * ((1 + |a| * u) * (1 + u) - 1) ≤ Q * (1 + ε) := by
      nlinarith [mul_nonneg (sub_nonneg.mpr hQ2) (sub_nonneg.mpr hu1), mul_nonneg hQ0 (by linarith : 0 ≤ ε + u),
        mul_nonneg (mul_nonneg (le_of_lt hpos) hau) hu0]
    have := mul_le_mul_of_nonneg_right key hsb
    nlinarith
  · have key : Q * (1 + ε) ≤ P + P * ((1 + |a| * u) * (1 + u) - 1) := by
      nlinarith [mul_nonneg (sub_nonneg.mpr hQ1) (by linarith : 0 ≤ 1 + u), mul_nonneg hQ0 (by linarith : 0 ≤ u - ε)]
    have := mul_le_mul_of_nonneg_right key hsb
    nlinarith

/-- with `u = 2⁻²⁴` that bound is below the oracle's `2⁻²⁰ · max(1, |a|)` -/
theorem decoded_duration_tolerance (a : ℝ) :
    (1 + |a| * (1 / 16777216)) * (1 + 1 / 16777216) - 1 ≤ 1 / 1048576 * max 1 |a| := by
  have h1 := le_max_left (1 : ℝ) |a|
  have h2 := le_max_right (1 : ℝ) |a|
  have hx := abs_nonneg a
  nlinarith

end C18
