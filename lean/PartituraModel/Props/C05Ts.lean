/-
C05, round 5 — the inverse direction over arrays whose signature columns CHANGE and RETURN (A B A).

`note_array_to_score` collects the time signatures (and, repaired, the key signatures: fixes/C05-10) of the new part
from the array's columns with a loop that appends a change whenever a row differs from the last change appended
(Model/NoteArrayTs.lean `changes`).  The theorems say, for ALL arrays:
  * the collected values are the column with repetitions of neighbours removed — a value that comes back is collected
    again (`changes_are_the_column_destuttered`), every change stands at the onset of a row that carries it
    (`changes_stand_on_rows`);
  * read by "previous" interpolation (what `time_signature_map` / `key_signature_map` do: property C10), the list
    gives at the onset of EVERY row the value that row carries (`signature_in_force_at_every_row`);
  * composed with the model of the created part and of `Part.note_array` (C02 / C10 / C11 models): the table that comes
    back holds, for every row of an array with division and time-signature columns, its onset, duration, pitch and its
    time signature (`time_signature_columns_come_back`), and onsets, durations and pitches come back whatever the source
    of the time signature, the key columns and `sanitize` are (`from_to_array_x`) — no hypothesis on the spelling
    (C12 `midi_spelling` discharges it) other than validity of the user's columns.
-/
import PartituraModel.Proofs.C05Ts
import PartituraModel.Proofs.C05Ks

namespace C05
open NoteArray List Model

/-- The loop collects exactly the column with repetitions of NEIGHBOURS removed: for the column A A B B A it yields
    A, B, A — a signature that returns is collected a second time (`np.unique` would drop it). -/
theorem changes_are_the_column_destuttered {α : Type} [DecidableEq α] (col : List (Int × α)) :
    (changes col).map (·.2) = (col.map (·.2)).destutter (· ≠ ·) := changes_values col

/-- Every collected change after the initial one is a row of the column: it stands at the onset of a row that carries
    the new value, and the changes keep the order of the rows. -/
theorem changes_stand_on_rows {α : Type} [DecidableEq α] (p : Int × α) (col : List (Int × α)) :
    ∃ rest, changes (p :: col) = (0, p.2) :: rest ∧ rest.Sublist col ∧
      (p.2 :: rest.map (·.2)).IsChain (· ≠ ·) :=
  ⟨changesFrom p.2 col, changes_cons p col, changesFrom_sublist p.2 col, changesFrom_chain p.2 col⟩

/-- For a column ordered by onset (the array is sorted first) whose rows agree at equal onsets and start at or after
    time 0: the list handed to `create_part` (first start forced to 0), read by "previous" interpolation, gives at the
    onset of every row the value of that row.  The rebuilt part carries a change wherever the column changes. -/
theorem signature_in_force_at_every_row {α : Type} [DecidableEq α] (col : List (Int × α))
    (hsorted : OnsetSorted col) (hcons : Consistent col) (hnn : ∀ p ∈ col, 0 ≤ p.1) :
    ∀ p ∈ col, StepMap.lastLE (firstAtZero (changes col)) p.1 = some p.2 :=
  lastLE_changes_at_row col hsorted hcons hnn

/-- the sortedness hypothesis is established by the code itself: `np.lexsort` orders the array by onset_div -/
theorem sorted_array_is_onset_sorted (a : List ARow) : OnsetSorted (tsColumn (sortArr true a)) := tsColumn_sorted a

/-- FROM ARRAY TO SCORE TO ARRAY, time-signature columns included.  For every array with division and
    `ts_beats` / `ts_beat_type` columns that `note_array_to_score` accepts (any beat columns, `divs`, key columns,
    `sanitize`), whose rows agree on the signature at equal onsets: the note array of the created part holds exactly the
    (onset_div, duration_div, pitch, ts_beats, ts_beat_type) of the array's rows. -/
theorem time_signature_columns_come_back (hb hk : Bool) (a : List ARow) (dv : Option Nat)
    (tsl : List (Int × Int × Int)) (est san : Bool) (x : XOut)
    (h : fromArrayX hb true true hk a dv tsl est san = .ok x) (hok : TsColumnsOK a) :
    x.rows.map (fun r => (r.onsetDiv, r.durDiv, r.pitch, r.tsBeats, r.tsBeatType))
      ~ a.map (fun r => (r.onsetDiv, r.durDiv, r.pitch, r.tsBeats, r.tsBeatType)) :=
  fromArrayX_ts_back hb hk a dv tsl est san x h hok

/-- ... and the key-signature columns (repaired code, fixes/C05-10): for every array with division and `ks_fifths` /
    `ks_mode` columns (fifths in -7..7, mode 1 or -1, rows agreeing at equal onsets) the note array of the created part
    holds exactly the (onset_div, duration_div, pitch, ks_fifths, ks_mode) of the array's rows — through the key NAMES
    `note_array_to_score` hands to `create_part` (C12 `key_bijection`). -/
theorem key_signature_columns_come_back (hb ht : Bool) (a : List ARow) (dv : Option Nat)
    (tsl : List (Int × Int × Int)) (est san : Bool) (x : XOut)
    (h : fromArrayX hb true ht true a dv tsl est san = .ok x) (hok : KsColumnsOK a) :
    x.rows.map (fun r => (r.onsetDiv, r.durDiv, r.pitch, r.ksFifths, r.ksMode))
      ~ a.map (fun r => (r.onsetDiv, r.durDiv, r.pitch, r.ksFifths, r.ksMode)) :=
  fromArrayX_ks_back hb ht a dv tsl est san x h hok

/-- Onsets, durations and pitches come back for every array with division columns the function accepts, whatever the
    source of the time signature (columns, `time_sigs`, `estimate_time`, none), the key columns and `sanitize`; the
    spelling hypothesis of `from_to_array` is discharged (C12 `midi_spelling`, every integer pitch). -/
theorem from_to_array_x (hb ht hk : Bool) (a : List ARow) (dv : Option Nat)
    (tsl : List (Int × Int × Int)) (est san : Bool) (x : XOut)
    (h : fromArrayX hb true ht hk a dv tsl est san = .ok x) :
    x.rows.map rowTriple ~ a.map divTriple := by
  obtain ⟨d, l, kss, ms, hfa, _, _, _, _, _, _, hrows⟩ := fromArrayX_ok _ _ _ _ _ _ _ _ _ _ h
  have hrows' := rowsC_rows _ _ _ _ hrows
  rw [createdDesc_part] at hrows'
  exact (rows_createPart d l _ dummySpell xOpts x.rows (fun y _ => dummySpell_keeps y.2.2) hrows').trans
    (fromArray_div hb ht a dv d l hfa).1

/-- the divisions of the new part are those `fromArray` decides (C05.from_array_divs_given, from_array_beat) -/
theorem from_array_x_divs (hb hd ht hk : Bool) (a : List ARow) (dv : Option Nat)
    (tsl : List (Int × Int × Int)) (est san : Bool) (x : XOut)
    (h : fromArrayX hb hd ht hk a dv tsl est san = .ok x) :
    ∃ l, fromArray hb hd ht a dv = .ok (x.divs, l) := by
  obtain ⟨d, l, _, _, hfa, _, _, hd', _⟩ := fromArrayX_ok _ _ _ _ _ _ _ _ _ _ h
  exact ⟨l, by rw [hd']; exact hfa⟩

-- ------------------------------------------------------------------ non-vacuity

section Examples

/-- 4/4 | 6/8 | 4/4 at 2 divisions per quarter, one note per bar line and one inside the 6/8 bar -/
def exABA : List ARow :=
  [ { onsetBeat := 0, durBeat := 4, onsetDiv := 0, durDiv := 8, pitch := 60, tsBeatType := 4, tsBeats := 4 },
    { onsetBeat := 4, durBeat := 3, onsetDiv := 8, durDiv := 3, pitch := 62, tsBeatType := 8, tsBeats := 6 },
    { onsetBeat := 7, durBeat := 3, onsetDiv := 11, durDiv := 3, pitch := 64, tsBeatType := 8, tsBeats := 6 },
    { onsetBeat := 10, durBeat := 4, onsetDiv := 14, durDiv := 8, pitch := 65, tsBeatType := 4, tsBeats := 4 } ]

/-- the loop keeps the return to 4/4 (the seeded `np.unique` variant has [(0, 4/4), (8, 6/8)] only) -/
example : changes (tsColumn exABA) = [(0, (4, 4)), (8, (6, 8)), (14, (4, 4))] := by decide +kernel

def xRows (r : Except InvErr XOut) : Option (List (Int × Rat × Rat × Int × Int)) :=
  match r with
  | .ok x => some (x.rows.map fun r => (r.onsetDiv, r.onsetBeat, r.durBeat, r.tsBeats, r.tsBeatType))
  | .error _ => none

def xPart (r : Except InvErr XOut) : Option (Nat × List (Int × (Int × Int)) × List (Int × Int)) :=
  match r with
  | .ok x => some (x.divs, x.tss, x.measures)
  | .error _ => none

/-- the hypotheses of `time_signature_columns_come_back` hold for it, with and without `sanitize`, and the beats
    that come back are the beats that went in (0, 4, 7, 10) -/
example : xRows (fromArrayX true true true false exABA none [] false false) =
    some [(0, 0, 4, 4, 4), (8, 4, 3, 6, 8), (11, 7, 3, 6, 8), (14, 10, 4, 4, 4)] := by decide +kernel
example : xPart (fromArrayX true true true false exABA none [] false false) =
    some (2, [(0, (4, 4)), (8, (6, 8)), (14, (4, 4))], []) := by decide +kernel
example : xRows (fromArrayX true true true false exABA none [] false true) =
    some [(0, 0, 4, 4, 4), (8, 4, 3, 6, 8), (11, 7, 3, 6, 8), (14, 10, 4, 4, 4)] := by decide +kernel
example : xPart (fromArrayX true true true false exABA none [] false true) =
    some (2, [(0, (4, 4)), (8, (6, 8)), (14, (4, 4))], [(0, 8), (8, 14), (14, 22)]) := by decide +kernel

/-- key columns C major | E-flat minor... (fifths -3, minor) | C major on the same bars: the key comes back too -/
def exKeys : List ARow :=
  [ { exABA[0] with ksFifths := 0, ksMode := 1 }, { exABA[1] with ksFifths := -3, ksMode := -1 },
    { exABA[2] with ksFifths := -3, ksMode := -1 }, { exABA[3] with ksFifths := 0, ksMode := 1 } ]

def xKeys (r : Except InvErr XOut) : Option (List (Int × Int × Mode) × List (Int × Int × Int)) :=
  match r with
  | .ok x => some (x.kss, x.rows.map fun r => (r.onsetDiv, r.ksFifths, r.ksMode))
  | .error _ => none

example : xKeys (fromArrayX true true true true exKeys none [] false true) =
    some ([(0, 0, .major), (8, -3, .minor), (14, 0, .major)], [(0, 0, 1), (8, -3, -1), (11, -3, -1), (14, 0, 1)]) := by
  decide +kernel

example : KsColumnsOK exKeys := by
  refine ⟨by decide +kernel, by decide +kernel⟩

/-- a mode that is neither 1 nor -1 makes `fifths_mode_to_key_name` raise: the model refuses -/
example : xKeys (fromArrayX true true true true [{ exABA[0] with ksMode := 0 }] none [] false false) = none := by
  decide +kernel

example : TsColumnsOK exABA := by
  refine ⟨by decide +kernel, by decide +kernel⟩

/-- rows that contradict each other at one onset are not a valid column: the hypothesis is not vacuous -/
example : ¬ TsColumnsOK [ { onsetBeat := 0, durBeat := 1, onsetDiv := 0, durDiv := 1, pitch := 60, tsBeatType := 4, tsBeats := 4 },
    { onsetBeat := 0, durBeat := 1, onsetDiv := 0, durDiv := 1, pitch := 62, tsBeatType := 4, tsBeats := 3 } ] := by
  intro h
  have := h.1 _ (List.mem_cons_self) _ (List.mem_cons_of_mem _ List.mem_cons_self) rfl
  exact absurd this (by decide)

end Examples

end C05
