/-
C06 (round 2) — `load_performance` on a MIDI file: format dispatch (repaired: fixes/C06-6) and
`first_note_at_zero` = `remove_silence_from_performed_part` applied to the first performed part.
-/
import PartituraModel.Model.PerfMidi
import PartituraModel.Proofs.C06Silence
import Mathlib.Tactic.Ring

namespace C06
open Model Model.PerfMidi C06Sort C06Silence

/-- Dispatch: for a MIDI file `load_performance` returns the parts of `load_performance_midi`; with
    `first_note_at_zero` only the FIRST part is touched (silence removed, or left as it is when that raises:
    a part without notes), all other parts are returned as loaded -/
theorem load_performance_dispatch (ps : List SPart) (p : SPart) (rest : List SPart) :
    loadPerformance false ps = ps ∧ loadPerformance true [] = [] ∧
    loadPerformance true (p :: rest) = (removeSilence p).getD p :: rest := by
  refine ⟨by simp [loadPerformance], rfl, ?_⟩
  cases h : removeSilence p <;> simp [loadPerformance, h]

/-- silence removal fails exactly for a part without notes (`min([])`) -/
theorem silence_none (p : SPart) : removeSilence p = none ↔ p.notes = [] := by
  unfold removeSilence
  cases h : minRat (p.notes.map (·.on)) with
  | none =>
    have := (minRat_none _).mp h
    simp only [List.map_eq_nil_iff] at this
    simp [this]
  | some s =>
    have : p.notes ≠ [] := by
      intro hn
      rw [hn] at h
      simp [minRat] at h
    simp [this]

/-- Notes: with `s` the smallest onset of the part — which one of its notes has —, every note keeps its
    pitch, velocity, channel and track and its place in the list; its onset and (for a note that does not
    end before it starts) its release move by exactly `s`; so durations are kept, the order of onsets is
    kept, no onset becomes negative and the first one is 0 -/
theorem silence_notes (p r : SPart) (h : removeSilence p = some r) (hwf : ∀ n ∈ p.notes, n.on ≤ n.off) :
    ∃ s, minRat (p.notes.map (·.on)) = some s ∧ (∃ n ∈ p.notes, n.on = s) ∧ (∀ n ∈ p.notes, s ≤ n.on) ∧
      r.notes = p.notes.map (fun n => { n with on := n.on - s, off := n.off - s }) ∧
      (∀ n ∈ p.notes, (n.off - s) - (n.on - s) = n.off - n.on) ∧
      (∀ a ∈ p.notes, ∀ b ∈ p.notes, (a.on ≤ b.on ↔ a.on - s ≤ b.on - s)) ∧
      (∀ n ∈ r.notes, 0 ≤ n.on) ∧ (∃ n ∈ r.notes, n.on = 0) := by
  unfold removeSilence at h
  cases hs : minRat (p.notes.map (·.on)) with
  | none => rw [hs] at h; cases h
  | some s =>
    rw [hs] at h
    simp only [Option.some.injEq] at h
    obtain ⟨hmem, hmin⟩ := minRat_spec _ s hs
    obtain ⟨n0, hn0, hn0s⟩ := List.mem_map.mp hmem
    have hle : ∀ n ∈ p.notes, s ≤ n.on := fun n hn => hmin n.on (List.mem_map.mpr ⟨n, hn, rfl⟩)
    have hnotes : r.notes = p.notes.map (fun n => { n with on := n.on - s, off := n.off - s }) := by
      rw [← h]
      refine List.map_congr_left ?_
      intro n hn
      rw [shiftT_of_le s n.on (hle n hn), shiftT_of_le s n.off (le_trans (hle n hn) (hwf n hn))]
    refine ⟨s, rfl, ⟨n0, hn0, hn0s⟩, hle, hnotes, ?_, ?_, ?_, ?_⟩
    · intro n _; ring
    · intro a _ b _; constructor <;> intro hab <;> linarith
    · intro n hn
      rw [hnotes] at hn
      obtain ⟨m, hm, rfl⟩ := List.mem_map.mp hn
      have := hle m hm
      show 0 ≤ m.on - s
      linarith
    · refine ⟨{ n0 with on := n0.on - s, off := n0.off - s }, ?_, ?_⟩
      · rw [hnotes]
        exact List.mem_map.mpr ⟨n0, hn0, rfl⟩
      · show n0.on - s = 0
        rw [hn0s]; ring

/-- Programs: every program keeps its number, channel, track and place; its time becomes `max (t - s) 0`
    (programs written before the first note land on 0), which keeps the order of the times -/
theorem silence_programs (p r : SPart) (h : removeSilence p = some r) :
    ∃ s, minRat (p.notes.map (·.on)) = some s ∧
      r.programs = p.programs.map (fun g => { g with time := shiftT s g.time }) ∧
      (∀ t, s ≤ t → shiftT s t = t - s) ∧ (∀ t, t ≤ s → shiftT s t = 0) ∧
      (∀ a b, a ≤ b → shiftT s a ≤ shiftT s b) := by
  unfold removeSilence at h
  cases hs : minRat (p.notes.map (·.on)) with
  | none => rw [hs] at h; cases h
  | some s =>
    rw [hs] at h
    simp only [Option.some.injEq] at h
    refine ⟨s, rfl, by rw [← h], shiftT_of_le s, ?_, shiftT_mono s⟩
    intro t ht
    unfold shiftT
    split
    · rfl
    · linarith

/-- Controls: the result is in order of time, no time is negative; strictly after the first onset the
    controls are exactly those of the part, each moved by `s` (as a multiset of (time, number, channel,
    track)); what lay at or before the first onset is replaced by controls at time 0 -/
theorem silence_controls (p r : SPart) (h : removeSilence p = some r) :
    ∃ s, minRat (p.notes.map (·.on)) = some s ∧
      r.controls.Pairwise (fun a b => a.time ≤ b.time) ∧ (∀ c ∈ r.controls, 0 ≤ c.time) ∧
      (((r.controls.filter (fun c => decide (0 < c.time))).map ctlKey).Perm
        ((p.controls.filter (fun c => decide (s < c.time))).map fun c => (c.time - s, c.num, c.ch, c.track))) := by
  unfold removeSilence at h
  cases hs : minRat (p.notes.map (·.on)) with
  | none => rw [hs] at h; cases h
  | some s =>
    rw [hs] at h
    simp only [Option.some.injEq] at h
    have hc : r.controls = sortBy ctlTimeLe ((groupControls p.controls).flatMap (shiftGroup s)) := by rw [← h]
    refine ⟨s, rfl, ?_, ?_, ?_⟩
    · rw [hc]
      exact (sorted_sortBy ctlTimeLe ctlTimeLe_total ctlTimeLe_trans _).imp (fun h => by simpa [ctlTimeLe] using h)
    · intro c hcm
      rw [hc, mem_sortBy] at hcm
      obtain ⟨g, _, hg⟩ := List.mem_flatMap.mp hcm
      obtain ⟨tr, ch, num, ct⟩ := g
      cases ct with
      | nil => simp [shiftGroup] at hg
      | cons c0 rest =>
        simp only [shiftGroup] at hg
        obtain ⟨t, _, rfl⟩ := List.mem_map.mp hg
        exact shiftT_nonneg s t
    · rw [hc]
      exact (((perm_sortBy ctlTimeLe _).filter _).map _).trans (groups_later s p.controls)

/-- Control values: in a group — the controls of one (track, channel, number) — whose times are strictly
    increasing in list order (what the loader produces unless two such controls share a tick), the
    "previous" interpolation returns, at the time of a control, that control's value: values are kept.
    (Two controls of one group at the same time both get the later value.) -/
theorem silence_control_values (c0 : Rat × Nat) (rest : List (Rat × Nat))
    (hs : (c0 :: rest).Pairwise (fun a b => a.1 < b.1)) (t : Rat) (v : Nat) (hm : (t, v) ∈ c0 :: rest) :
    prevVal c0 rest t = v :=
  prevVal_sorted c0 rest hs t v hm

/-- non-vacuity: first onset at 1/2; a pedal pressed before it (its value is in force at time 0), a control
    of another number after it, a program before it; two pedal values on one time -/
example : removeSilence
    { notes := [⟨60, 64, 0, 0, 1, 2⟩, ⟨62, 70, 0, 0, 1/2, 3/2⟩],
      controls := [⟨1/4, 64, 100, 0, 0⟩, ⟨1/3, 64, 127, 0, 0⟩, ⟨3/4, 7, 90, 0, 0⟩, ⟨1, 64, 10, 0, 0⟩, ⟨1, 64, 0, 0, 0⟩],
      programs := [⟨0, 5, 0, 0⟩] }
  = some
    { notes := [⟨60, 64, 0, 0, 1/2, 3/2⟩, ⟨62, 70, 0, 0, 0, 1⟩],
      controls := [⟨0, 64, 127, 0, 0⟩, ⟨0, 7, 90, 0, 0⟩, ⟨1/4, 7, 90, 0, 0⟩, ⟨1/2, 64, 0, 0, 0⟩, ⟨1/2, 64, 0, 0, 0⟩],
      programs := [⟨0, 5, 0, 0⟩] } := by decide +kernel

example : prevVal (1/4, 100) [(1/3, 127), (1, 10)] (1/3) = 127 ∧ prevVal (1/4, 100) [(1/3, 127), (1, 10)] (1/2) = 127 ∧
    prevVal (1/4, 100) [(1/3, 127), (1, 10)] 0 = 100 ∧ prevVal (1/4, 100) [(1/3, 127), (1, 10)] 2 = 10 := by decide +kernel

end C06
