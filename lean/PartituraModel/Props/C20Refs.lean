/-
C20, the aliasing clause: the copies made by `create_variant_part` (unfolding) hold no list of the original after
`replace_refs`, so an in-place operation on the RESULT (appending a slur / tuplet to a copied note) cannot be seen
through the ARGUMENT.  Model: PartituraModel/Model/RefHeap.lean.  Only property theorems live here.
-/
import PartituraModel.Model.RefHeap

namespace C20Refs
open Model Model.RefHeap

/-- `replace_refs` only ALLOCATES: the cell store it returns is the old one with new cells appended -/
theorem repl_extends (omap : Nat → Option Nat) (as : List Attr) :
    ∀ cells : Cells, ∃ ext, (replAttrs omap cells as).1 = cells ++ ext := by
  induction as with
  | nil => intro cells; exact ⟨[], by simp [replAttrs]⟩
  | cons a t ih =>
    intro cells
    cases a with
    | none => obtain ⟨e, he⟩ := ih cells; exact ⟨e, by simp [replAttrs, he]⟩
    | single o => obtain ⟨e, he⟩ := ih cells; exact ⟨e, by simp [replAttrs, he]⟩
    | list c =>
      obtain ⟨e, he⟩ := ih (cells ++ [(cells.getD c []).map (fun e => e.bind omap)])
      refine ⟨[(cells.getD c []).map (fun e => e.bind omap)] ++ e, ?_⟩
      simp only [replAttrs]
      rw [he, List.append_assoc]

/-- every list attribute of an object after `replace_refs` lives in a cell that did not exist before: it is a
    fresh list, not the list of any object that existed before the call -/
theorem repl_fresh (omap : Nat → Option Nat) (as : List Attr) :
    ∀ (cells : Cells) (a : Nat), Attr.list a ∈ (replAttrs omap cells as).2 → cells.length ≤ a := by
  induction as with
  | nil => intro cells a h; simp [replAttrs] at h
  | cons x t ih =>
    intro cells a h
    cases x with
    | none =>
      simp only [replAttrs, List.mem_cons] at h
      rcases h with h | h
      · cases h
      · exact ih cells a h
    | single o =>
      simp only [replAttrs, List.mem_cons] at h
      rcases h with h | h
      · split at h <;> cases h
      · exact ih cells a h
    | list c =>
      simp only [replAttrs, List.mem_cons] at h
      rcases h with h | h
      · cases h; exact Nat.le_refl _
      · have := ih _ a h
        simp at this
        omega

/-- … and inside the new store: the fresh lists exist -/
theorem repl_fresh_lt (omap : Nat → Option Nat) (as : List Attr) :
    ∀ (cells : Cells) (a : Nat), Attr.list a ∈ (replAttrs omap cells as).2 →
      a < (replAttrs omap cells as).1.length := by
  induction as with
  | nil => intro cells a h; simp [replAttrs] at h
  | cons x t ih =>
    intro cells a h
    cases x with
    | none =>
      simp only [replAttrs, List.mem_cons] at h ⊢
      rcases h with h | h
      · cases h
      · exact ih cells a h
    | single o =>
      simp only [replAttrs, List.mem_cons] at h ⊢
      rcases h with h | h
      · split at h <;> cases h
      · exact ih cells a h
    | list c =>
      simp only [replAttrs, List.mem_cons] at h ⊢
      rcases h with h | h
      · cases h
        obtain ⟨e, he⟩ := repl_extends omap t (cells ++ [(cells.getD c []).map (fun e => e.bind omap)])
        rw [he]; simp
      · exact ih _ a h

/-- `lst.append(x)` on one list leaves every other list as it was -/
theorem append_other (cells : Cells) (a b : Nat) (x : Option Nat) (h : a ≠ b) :
    (appendAt cells a x)[b]? = cells[b]? := by
  unfold appendAt
  split
  · rw [List.getElem?_set_ne h]
  · rfl

/-- **in-place operations on a copy do not reach the original.**  Let `orig` be the reference attributes of any
    object that existed before (all its lists are cells of the old store), let the copy's attributes `ca` go through
    `replace_refs`, and append anything to any list the copy then holds: everything that can be seen through
    `orig` is what it was before. -/
theorem copy_edit_leaves_original (omap : Nat → Option Nat) (cells : Cells) (orig ca : List Attr)
    (hwf : ∀ a, Attr.list a ∈ orig → a < cells.length)
    (a' : Nat) (ha' : Attr.list a' ∈ (replAttrs omap cells ca).2) (x : Option Nat) :
    ∀ at_ ∈ orig, resolve (appendAt (replAttrs omap cells ca).1 a' x) at_ = resolve cells at_ := by
  intro at_ hat
  cases at_ with
  | none => rfl
  | single o => rfl
  | list b =>
    have hb := hwf b hat
    have hfresh := repl_fresh omap ca cells a' ha'
    have hne : a' ≠ b := by omega
    simp only [resolve]
    rw [append_other _ _ _ _ hne]
    obtain ⟨e, he⟩ := repl_extends omap ca cells
    rw [he, List.getElem?_append_left hb]

/-- two copies (two repetitions of an unfolded section) do not share a list either: the second `replace_refs`
    allocates above everything the first one allocated -/
theorem copies_do_not_share (omap : Nat → Option Nat) (cells : Cells) (c1 c2 : List Attr) (a1 a2 : Nat)
    (h1 : Attr.list a1 ∈ (replAttrs omap cells c1).2)
    (h2 : Attr.list a2 ∈ (replAttrs omap (replAttrs omap cells c1).1 c2).2) : a1 ≠ a2 := by
  have l1 := repl_fresh_lt omap c1 cells a1 h1
  have l2 := repl_fresh omap c2 _ a2 h2
  omega

/-- the lists of a copy hold the images of the original's elements, in order (references without an image become
    None): `replace_refs` translates, it does not drop or reorder -/
theorem repl_contents (omap : Nat → Option Nat) (cells : Cells) (c : Nat) (t : List Attr) :
    (replAttrs omap cells (Attr.list c :: t)).2.head? = some (Attr.list cells.length) ∧
    (replAttrs omap cells (Attr.list c :: t)).1[cells.length]? =
      some ((cells.getD c []).map (fun e => e.bind omap)) := by
  constructor
  · simp [replAttrs]
  · simp only [replAttrs]
    obtain ⟨e, he⟩ := repl_extends omap t (cells ++ [(cells.getD c []).map (fun e => e.bind omap)])
    rw [he]
    simp

/-- non-vacuity, and the seeded variant: a note with an empty `slur_starts` list (cell 0) is copied; with the real
    `replace_refs` the copy gets cell 1 and appending there leaves the original's list empty; with the variant that
    skips empty lists (seeded change C20-f) the copy keeps cell 0 and the original sees the appended slur -/
example :
    let cells : Cells := [[]]
    let orig := [Attr.list 0]
    let r := replAttrs (fun _ => none) cells orig
    r.2 = [Attr.list 1] ∧ resolve (appendAt r.1 1 (some 7)) (Attr.list 0) = some [] := by decide

example :
    let cells : Cells := [[]]
    let orig := [Attr.list 0]
    let r := replAttrsSkipEmpty (fun _ => none) cells orig
    r.2 = [Attr.list 0] ∧ resolve (appendAt r.1 0 (some 7)) (Attr.list 0) = some [some 7] := by decide

/-- the whole copying step on a small heap: two tied notes (0 → 1), note 0 starts slur object 2 whose start note is
    0; all three are copied: the copies are 3, 4, 5, tied 3 → 4, note 3's slur list holds 5 in a fresh cell, the
    slur copy points to 3, and the originals are untouched -/
example :
    let h : Heap := { objs := [[Attr.none, Attr.single 1, Attr.list 0], [Attr.single 0, Attr.none, Attr.list 1],
                               [Attr.single 0, Attr.none]],
                      cells := [[some 2], []] }
    let v := variant h [0, 1, 2]
    v.objs = [[Attr.none, Attr.single 1, Attr.list 0], [Attr.single 0, Attr.none, Attr.list 1],
              [Attr.single 0, Attr.none],
              [Attr.none, Attr.single 4, Attr.list 2], [Attr.single 3, Attr.none, Attr.list 3],
              [Attr.single 3, Attr.none]] ∧
    v.cells = [[some 2], [], [some 5], []] := by decide

end C20Refs
