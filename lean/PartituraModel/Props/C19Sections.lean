/-
C19 — the STRUCTURE of an MEI document does not change the notes it denotes.

`<section>` elements only group measures, and a `<tie>` element links the two notes it names wherever it
is written.  The theorems are about the unchanged state machine of `Model/Mei.lean` (`runEvs`, `denote`:
the semantics `load_mei` is compared with on every run, on documents cut into sibling / nested sections
and endings in many ways); helper lemmas are in `Proofs/C19Sections.lean`.  Everything is quantified over
all event lists — no bound on the number of sections, their depth, or what stands in them.
-/
import PartituraModel.Proofs.C19Sections

namespace C19
open Model Model.Mei C19S

/-! ## ties -/

/-- `mei_ties_collected`: after reading ANY event list the tie list holds exactly the `<tie startid endid>`
    elements of the list, in document order — whichever measure, section or ending a tie stands in, before or
    after the notes it names; no other element (a `<slur>` with the same attributes, say) adds one. -/
theorem mei_ties_collected (evs : List Ev) (st : St) (h : runEvs {} evs = some st) :
    st.ties.reverse = tiesOf evs := by
  have := (run_ties evs {} st h).1
  rw [this]
  simp

/-- the ties of a document are those of its pieces: cutting the events anywhere loses none -/
theorem mei_ties_of_pieces (a b : List Ev) : tiesOf (a ++ b) = tiesOf a ++ tiesOf b := by
  induction a with
  | nil => rfl
  | cons e es ih =>
    cases e with
    | op tag as => simp [tiesOf, ih]
    | cl => simp [tiesOf, ih]

/-- a `<tie>` contributes the pair of ids it names (without `#`), an element of any other name nothing -/
theorem mei_tie_element (tag : String) (as : List (String × String)) (a b : String)
    (ha : attr as "startid" = some a) (hb : attr as "endid" = some b) :
    tieOf tag as = if tag = "tie" then [(String.ofList (a.toList.drop 1), String.ofList (b.toList.drop 1))] else [] := by
  simp [tieOf, ha, hb]

example : tiesOf [.op "slur" [("startid", "#a"), ("endid", "#b")], .cl,
                  .op "tie" [("startid", "#a"), ("endid", "#b")], .cl] = [("a", "b")] := by decide +kernel

/-! ## sections -/

/-- `mei_section_merge`: two sibling sections denote what one section holding the content of both denotes.
    If after the events `pre` the innermost open element is a `<section>`, then closing it and opening a new
    `<section>` right there (with any attributes that are not durations) changes nothing of the denotation —
    read from right to left: a section may be cut in two between any two of its children. -/
theorem mei_section_merge (pre post : List Ev) (as : List (String × String)) (st : St)
    (hrun : runEvs {} pre = some st) (htop : ptagOf st.stack = "section") (hp : PlainAttrs as) :
    denote (pre ++ .cl :: .op "section" as :: post) = denote (pre ++ post) := by
  have hin : st.inSection = true := inSection_of_ptag st (run_secInv pre {} st secInv_init hrun) htop
  rw [denote_eq, denote_eq, runEvs_append, runEvs_append, hrun]
  simp only [Option.bind_some]
  cases hs : st.stack with
  | nil => simp [ptagOf, hs] at htop
  | cons f rest =>
    have hf : f.tag = "section" := by simpa [ptagOf, hs] using htop
    exact bind_partsOf_of_rel (fun a b h => h.1) _ _ (cut_state st f rest as post hs hf hin hp)

/-- `mei_section_unnest`: a section nested directly in a section denotes what its content denotes.
    If after `pre` the innermost open element is a `<section>` and `mid` is a list of whole elements, then
    wrapping `mid` into a further `<section>` changes nothing — to any depth, by repetition. -/
theorem mei_section_unnest (pre mid post : List Ev) (as : List (String × String)) (st : St)
    (hrun : runEvs {} pre = some st) (htop : ptagOf st.stack = "section") (hp : PlainAttrs as) (hb : Balanced mid) :
    denote (pre ++ .op "section" as :: (mid ++ .cl :: post)) = denote (pre ++ (mid ++ post)) := by
  have hin : st.inSection = true := inSection_of_ptag st (run_secInv pre {} st secInv_init hrun) htop
  rw [denote_eq, denote_eq, runEvs_append, runEvs_append, hrun]
  simp only [Option.bind_some]
  rw [unnest_state st as mid post htop hin hp hb]

/-- an empty `<section/>` inside a section denotes nothing -/
theorem mei_section_empty (pre post : List Ev) (as : List (String × String)) (st : St)
    (hrun : runEvs {} pre = some st) (htop : ptagOf st.stack = "section") (hp : PlainAttrs as) :
    denote (pre ++ .op "section" as :: .cl :: post) = denote (pre ++ post) :=
  mei_section_unnest pre [] post as st hrun htop hp rfl

/-- the attributes of a `<section>` (`xml:id`, `n`, `label`, ...) carry no denotation: two documents that differ
    only in the attributes of the section that is innermost after `pre` denote the same -/
theorem mei_section_attrs (pre post : List Ev) (as as' : List (String × String))
    (hp : PlainAttrs as) (hp' : PlainAttrs as') (st : St) (hrun : runEvs {} pre = some st) (hin : st.inSection = true) :
    denote (pre ++ .op "section" as :: post) = denote (pre ++ .op "section" as' :: post) := by
  rw [denote_eq, denote_eq, runEvs_append, runEvs_append, hrun]
  simp only [Option.bind_some, runEvs, stepEv_section st as hp hin, stepEv_section st as' hp' hin]
  refine bind_partsOf_of_rel (fun a b h => h.1) _ _ (run_simE post _ _ ⟨rfl, ?_⟩)
  exact .cons (Or.inr ⟨rfl, rfl⟩) (SecEq.refl _)

/-! ## non-vacuity: the document of the round-4 change (a tie written in the first of two sibling sections) -/

def hdr : List Ev :=
  [.op "score" [], .op "scoreDef" [], .op "staffGrp" [],
   .op "staffDef" [("xml:id", "P1"), ("n", "1"), ("meter.count", "2"), ("meter.unit", "4"), ("key.sig", "0")], .cl, .cl, .cl]

def measure (n : String) (notes : List Ev) (ctl : List Ev) : List Ev :=
  [.op "measure" [("n", n)], .op "staff" [("n", "1")], .op "layer" [("n", "1")]] ++ notes ++ [.cl, .cl] ++ ctl ++ [.cl]

def note (id dur pname : String) : List Ev :=
  [.op "note" [("xml:id", id), ("dur", dur), ("pname", pname), ("oct", "4")], .cl]

def tieEl (a b : String) : List Ev := [.op "tie" [("startid", a), ("endid", b)], .cl]

/-- up to the end of the first measure, inside section A: the tie `a2 → a3` is written here -/
def pre1 : List Ev :=
  hdr ++ [.op "section" [("xml:id", "A")]] ++ measure "1" (note "a1" "4" "c" ++ note "a2" "4" "e") (tieEl "#a2" "#a3")

def post1 : List Ev := measure "2" (note "a3" "2" "e") [] ++ [.cl, .cl]

example : ∃ st, runEvs {} pre1 = some st ∧ ptagOf st.stack = "section" ∧ Balanced (measure "2" (note "a3" "2" "e") []) ∧
    PlainAttrs [("xml:id", "B")] := by
  refine ⟨_, rfl, ?_, ?_, ?_⟩ <;> decide +kernel

/-- two sibling sections `A | B` and the single section `A` denote the same -/
example : denote (pre1 ++ .cl :: .op "section" [("xml:id", "B")] :: post1) = denote (pre1 ++ post1) := by
  obtain ⟨st, h1, h2, _, h4⟩ : ∃ st, runEvs {} pre1 = some st ∧ ptagOf st.stack = "section" ∧
      Balanced (measure "2" (note "a3" "2" "e") []) ∧ PlainAttrs [("xml:id", "B")] := by
    refine ⟨_, rfl, ?_, ?_, ?_⟩ <;> decide +kernel
  exact mei_section_merge pre1 post1 _ st h1 h2 h4

/-- ... and the tie written in `A` is there at the end of the two-section document: the e of one quarter (`a2`)
    is continued by the e of a half (`a3`, in section `B`), two more quarters -/
example : ((runEvs {} (pre1 ++ .cl :: .op "section" [("xml:id", "B")] :: post1)).map fun st =>
      (st.ties, st.notes.reverse.map (fun n => (n.xmlid, n.onset, n.dur)), chainDur st.notes st.ties st.ties.length "a2"))
    = some ([("a2", "a3")], [("a1", 0, 1), ("a2", 1, 1), ("a3", 2, 2)], 2) := by
  decide +kernel

end C19
