/-
C07 — version detection and file-level dispatch (`importmatch.get_version`, `load_matchfile`), and the
start offset of a component's search.  Helper lemmas: Proofs/C07Version.lean.
-/
import PartituraModel.Model.MatchLine
import PartituraModel.Gen.MatchTemplates
import PartituraModel.Proofs.C07Version
import PartituraModel.Props.C07

namespace C07
open Model Model.Template Model.MatchCodec Model.MatchLine C07Line

/-- the text of the version line `info(matchFileVersion,a.b.c).` -/
def versionLine (a b c : Nat) : Str := "info(matchFileVersion,".toList ++ encVersion a b c ++ ").".toList

/-- every generated info template (all six versions) has the shape
    `info(Attribute[^,]+ , Value.*).` with `matchFileVersion` interpreted as a version; whole table -/
theorem info_shape : ∀ t ∈ Gen.matchTemplates, t.kind = "info" → isInfoShape t = true := by
  decide +kernel

example : (Gen.matchTemplates.filter (fun t => t.kind == "info")).length = 6 := by decide +kernel

/-- **the version line of EVERY version `a.b.c`** is written by, and read back from, the info class of every
    format version: `parse(format (matchFileVersion, a.b.c)) = (matchFileVersion, a.b.c)` and the text is a
    formatting fixpoint -/
theorem version_line_roundtrip (t : Template) (hmem : t ∈ Gen.matchTemplates) (hk : t.kind = "info") (a b c : Nat) :
    formatT t [.str "matchFileVersion".toList, .ver a b c] = some (versionLine a b c) ∧
    parseT t (versionLine a b c) = .ok [.str "matchFileVersion".toList, .ver a b c] ∧
    ((parseT t (versionLine a b c)).toOption.bind (formatT t)) = some (versionLine a b c) := by
  obtain ⟨h1, h2⟩ := version_line t (templates_ok t hmem) (info_shape t hmem hk) a b c
  exact ⟨h1, h2, by unfold versionLine; rw [h2]; exact h1⟩

private theorem find_info (n : String) (hn : (findTpl Gen.matchTemplates n).isSome = true)
    (hkind : ∀ t ∈ Gen.matchTemplates, t.name = n → t.kind = "info") :
    ∃ t, findTpl Gen.matchTemplates n = some t ∧ t ∈ Gen.matchTemplates ∧ t.kind = "info" := by
  cases h : findTpl Gen.matchTemplates n with
  | none => rw [h] at hn; simp at hn
  | some t =>
    unfold findTpl at h
    have hm := List.mem_of_find?_eq_some h
    have hp := List.find?_some h
    simp only [beq_iff_eq] at hp
    exact ⟨t, rfl, hm, hkind t hm hp⟩

/-- **version detection**: `get_version` of a written version line returns that version, for every
    `a.b.c` (the 1.0.0 info parser, tried first, already reads it) -/
theorem version_detected (a b c : Nat) : getVersion Gen.matchTemplates (versionLine a b c) = some (a, b, c) := by
  obtain ⟨t, hf, hm, hk⟩ := find_info (verName Gen.latestVersion ++ "/info") (by decide +kernel) (by decide +kernel)
  obtain ⟨_, hparse, _⟩ := version_line_roundtrip t hm hk a b c
  have hs := info_shape t hm hk
  unfold isInfoShape at hs
  simp only [Bool.and_eq_true, beq_iff_eq] at hs
  obtain ⟨⟨⟨⟨_, _⟩, hfields⟩, _⟩, _⟩ := hs
  unfold getVersion
  simp only [hf, hparse, hfields]
  rfl

example : versionLine 0 5 0 = "info(matchFileVersion,0.5.0).".toList ∧
    getVersion Gen.matchTemplates "info(matchFileVersion,5.0).".toList = some (0, 5, 0) ∧
    getVersion Gen.matchTemplates "info(keySignature,[en,major]).".toList = some (0, 1, 0) ∧
    getVersion Gen.matchTemplates [] = some (0, 1, 0) := by decide +kernel

/-- **file-level dispatch**: a file whose first non-empty line is the version line `a.b.c` is read as that
    version: every distinct non-empty line (first occurrence) goes through the parser list of that version
    (`FROM_MATCHLINE_METHODS` of matchlines_v1 for `a ≥ 1`, of matchlines_v0 otherwise), in file order -/
theorem loadFile_version (lines rest : List Str) (a b c : Nat) (hne : lines ≠ [])
    (h : lines.filter (fun l => !l.isEmpty) = versionLine a b c :: rest) :
    loadFile Gen.matchTemplates Gen.matchComposites lines =
      some ((a, b, c), (versionLine a b c :: rest).eraseDups.filterMap
        (dispatch Gen.matchTemplates Gen.matchComposites
          (if a ≥ 1 then Gen.dispatchOrderV1 else Gen.dispatchOrderV0) (a, b, c))) := by
  unfold loadFile
  cases lines with
  | nil => exact absurd rfl hne
  | cons l0 ls =>
    simp only [h, List.head?_cons, Option.getD_some, version_detected]

-- non-vacuity: a three-line 1.0.0 file with an empty and a repeated line
example : (loadFile Gen.matchTemplates Gen.matchComposites
      ["".toList, "info(matchFileVersion,1.0.0).".toList, "sustain(10,64).".toList, "sustain(10,64).".toList,
       "junk".toList]).map (fun r => (r.1, r.2.map (·.1)))
    = some ((1, 0, 0), ["info", "sustain"]) := by decide +kernel

-- ---------------------------------------------------------------- the start offset of a search

/-- `searchFrom` (the search that also reports `m.start()`) returns the groups of `search` -/
theorem searchFrom_groups (q : List Seg) (s : List Char) : (searchFrom q s 0).map (·.2) = search q s :=
  searchFrom_search q s 0

/-- **a component is found at its own offset**: behind a prefix in which no anchored match starts, the
    search over the whole line starts exactly at the end of the prefix and returns the encoded fields -/
theorem component_offset (t : Template) (v : String → List Char) (pre tail : List Char)
    (ht : TemplateOK t) (hv : FieldsOKGen t v tail)
    (hpre : noEarly t.pat pre (render t.out v ++ tail) = true) :
    searchFrom t.pat (pre ++ (render t.out v ++ tail)) 0 = some (pre.length, groupsOf t.pat v) := by
  have := searchFrom_skip t.pat _ _ pre 0 (noEarly_spec _ _ _ hpre)
    (matchSegs_render t.pat t.out v tail (agree_of_templateOK t ht) hv)
  simpa using this

example : ∃ t ∈ Gen.matchTemplates, t.name = "v0.5.0/note" ∧
    (searchFrom t.pat "snote(1-1,[C,#],4,1:2,1/8,1/4+1/8,0.5,1.25,[staff1,s])-note(n1,[C,#],4,100,200,210,60).".toList 0).map (·.1)
      = some 55 := by
  decide +kernel

end C07
