/-
C03 — element codecs: what the importer extracts from the elements the exporter writes is what the object denotes.

  Model/XmlNote.lean   `writeNote` (exportmusicxml.make_note_el + add_chord_tags), `readNote`
                       (importmusicxml._handle_note field extraction), `canon`
tied to the code by harness/props/c03.py streams wnote / rnote / cnote / evnote / arts.
-/
import PartituraModel.Proofs.C03Notations
import PartituraModel.Proofs.C03Attr
import PartituraModel.Proofs.C03Slots
import PartituraModel.Proofs.C03Fix
import PartituraModel.Proofs.C03Float

namespace C03
open Model Model.XmlNote Model.XmlDir Model.Binary64 C03.Text C03.Note

/-- **note_roundtrip.**  For every note/rest/unpitched/grace note whose text fields are not empty strings — every id,
    pitch spelling, duration, chord flag, tie flags, voice, stem, fermata, list of articulations, list of technical
    notations, symbolic duration (type, dots, tuplet ratio), staff, slur and tuplet numbers with tuplet contents — the
    importer's field extraction applied to the element the exporter writes does not raise and returns exactly `canon n`:
    all values, in document order.  `canon` makes the identifications MusicXML itself makes (voice/staff missing or 0 = 1,
    alter 0 = none, tuplet ratio only when both numbers are there and not 0, a grace kind other than acciaccatura =
    grace, strings that are not articulation elements and technical notations other than fingerings have no
    element, a tuplet without its four values shows what the note's symbolic duration implies). -/
theorem note_roundtrip (n : NoteAttrs) (h : WellFormedNote n) : readNote (writeNote n) = some (canon n) := by
  obtain ⟨hb, hstem, htype, htup⟩ := h
  obtain ⟨ts, hts, hstop, hstart⟩ := read_ties n
  have hkids : (writeNote n).kids = noteKids n := rfl
  have hferm : (find Tag.fermata (notationKids n)).isSome = n.fermata := by
    rw [← notationsOf_noteKids]; exact read_fermata n
  unfold readNote
  simp only [hkids, read_duration, read_staff, read_voice, read_actual, read_normal, read_body n hb, hts,
    read_fingering, notationsOf_noteKids, read_slurs, read_symType n htype, read_tuplets n htup,
    Option.bind_eq_bind, Option.bind_some, Option.pure_def, read_id, read_chord, read_stem n hstem, read_dots, read_arts,
    hferm, hstop, hstart, Option.some.injEq]
  rfl

/-- the hypothesis is satisfiable by a note that uses every element kind -/
example : WellFormedNote
    { id := some ['n', '1'], body := .pitched ['C'] (some (-1)) 4 (some .acciaccatura), dur := 0, chord := true,
      tiePrev := true, tieNext := true, voice := some 2, stem := some ['u', 'p'], fermata := true,
      arts := [.known .staccato, .unknown, .known .softAccent], technical := [.fingering 4, .otherNotation, .fingering 1],
      symType := some ['e', 'i', 'g', 'h', 't', 'h'], dots := 2, actualNotes := some 3, normalNotes := some 2,
      staff := some 2, nStaves := 2, slurStops := [1], slurStarts := [1, 2], tupletStops := [1],
      tupletStarts := [⟨2, some 3, some ['e'], some 2, some ['e']⟩, ⟨3, none, none, none, none⟩] } := by
  decide

/-- … and is needed: an empty stem string is written as an empty element, which reads back as the string "None" -/
example : (readNote (writeNote
    { id := none, body := .rest false, dur := 4, chord := false, tiePrev := false, tieNext := false, voice := none,
      stem := some [], fermata := false, arts := [], technical := [], symType := none, dots := 0, actualNotes := none,
      normalNotes := none, staff := none, nStaves := 1, slurStops := [], slurStarts := [], tupletStops := [],
      tupletStarts := [] })).map (·.stem) = some (some ['N', 'o', 'n', 'e']) := by
  decide

/-- **note_event.**  The event the measure model (Model/XmlMeasure.lean, theorem `reader_writer`) works with is a function
    of the written element: its `<duration>` (none for a grace note), `<chord/>`, `<grace/>`, and the `<voice>` and
    `<staff>` written (0 = not written). -/
theorem note_event (idx : Nat) (n : NoteAttrs) :
    toEv idx (writeNote n) =
      some (.note idx (if n.body.isGrace then 0 else n.dur) n.chord n.body.isGrace
        (match n.voice with | some v => v.toNat | none => 0)
        (match n.staff with | some s => if s ≠ 1 ∨ n.nStaves > 1 then s.toNat else 0 | none => 0)) := by
  have hkids : (writeNote n).kids = noteKids n := rfl
  have hd : tagInt (find .duration (noteKids n)) = some (if n.body.isGrace then none else some (n.dur : Int)) := by
    unfold find; rw [fa_duration]; unfold durEl
    split <;> simp [tagInt, leaf, Xml.text, natDigits_ne_nil, parseIntC_natDigits]
  have hv : tagInt (find .voice (noteKids n)) =
      some (match n.voice with | some v => if v = 0 then none else some v | none => none) := by
    unfold find; rw [fa_voice]; unfold voiceEl
    split
    · split <;> simp_all [tagInt, leaf, Xml.text, showIntC_ne_nil, parseIntC_showIntC]
    · simp_all [tagInt]
  have hs : tagInt (find .staff (noteKids n)) =
      some (match n.staff with | some s => if s ≠ 1 ∨ n.nStaves > 1 then some s else none | none => none) := by
    unfold find; rw [fa_staff]; unfold staffEl
    split
    · split <;> simp_all [tagInt, leaf, Xml.text, showIntC_ne_nil, parseIntC_showIntC]
    · simp_all [tagInt]
  have hg : (find .grace (noteKids n)).isSome = n.body.isGrace := by
    unfold find
    rw [fa_body .grace n (by decide)]
    cases hb : n.body with
    | pitched step alter octave grace =>
      have : findall Tag.grace (bodyEls (.pitched step alter octave grace)) = graceEl grace := by
        simp only [bodyEls, findall_append, findall_all (tag_graceEl grace)]
        simp [findall, Xml.tag]
      rw [this]
      cases grace with
      | none => rfl
      | some g => cases g <;> rfl
    | unpitched step octave nh =>
      cases nh with
      | none => simp [bodyEls, noteheadEl, findall, Xml.tag, Body.isGrace]
      | some p => simp [bodyEls, noteheadEl, findall, Xml.tag, Body.isGrace]
    | rest hidden => cases hidden <;> simp [bodyEls, findall, empty, Xml.tag, Body.isGrace]
  unfold toEv
  simp only [hkids, hd, hv, hs, hg, read_chord, Option.bind_eq_bind, Option.bind_some, Option.pure_def,
    Option.some.injEq]
  congr 1
  · split <;> simp [intOr]
    omega
  · cases n.voice with
    | none => simp [intOr]
    | some v => by_cases h0 : v = 0 <;> simp [intOr, h0]
  · cases n.staff with
    | none => simp [intOr]
    | some s =>
      by_cases hc : s ≠ 1 ∨ n.nStaves > 1
      · by_cases h0 : s = 0 <;> simp [intOr, hc, h0]
      · simp [intOr, hc]

/-! ### directions, tempo, attributes -/

/-- **direction_roundtrip.**  For every element `do_directions` writes — a dynamics mark, a wedge start with its number,
    words with or without a dashes start, a wedge or dashes stop, a pedal start, a pedal stop; any staff, any number,
    any text that is not empty once NULs are removed — the importer's reading of the element (staff, one item per
    `<direction-type>`) does not raise and is exactly `canonDir d` (staff 1 = no staff). -/
theorem direction_roundtrip (d : DirW) (h : WellFormedDir d) : readDir (writeDir d) = some (canonDir d) :=
  C03.Dir.dir_roundtrip d h

example : WellFormedDir (.words ['c', 'r', 'e', 's', 'c', '.'] (some 2) (some 2)) := by decide

/-- words that consist of NULs only are written as an empty `<words/>`, on which `parse_direction(None)` raises -/
example : readDir (writeDir (.words [Char.ofNat 0] none none)) = none := by decide

/-- **tempo_roundtrip.**  `<sound tempo>`: a whole quarter tempo is written without fractional part and read back as that
    integer; any other one is written as its decimal `repr` and read back as the same decimal. -/
theorem tempo_roundtrip (t : TempoVal) (h : WellFormedTempo t) : readSound (writeSound t) = some (some t) :=
  C03.Dir.sound_roundtrip t h

example : WellFormedTempo (.dec 66 ['5']) := by decide
example : readSound (writeSound (.dec 66 ['5', '0'])) = some (some (.dec 66 ['5'])) := by decide

/-! ### the tempo as a NUMBER: decimal text → binary64 (`float(text)`, `Model.Binary64.readFloat`)

The quarter tempo of a score is a binary64 number `d = m · 2^e`; the file carries a decimal text.  What the importer gets
is `readFloat` of the rational the text denotes.  Whether that is `d` again depends on how many digits were written:
`closeTo d v` (strictly inside the rounding interval of `d`) is the condition, evaluated by the harness on every
`<sound tempo>` the exporter writes (stream wfsound); Python's `repr` satisfies it, six significant digits do not. -/

/-- **float_reads_nearest.**  Correct rounding (binade by `Nat.log2`, significand by round-half-even, carry into the
    next binade) returns the binary64 number in whose rounding interval the text lies — for every normal number and every
    rational strictly inside the interval (half a unit in the last place above, half — a quarter at a power of two —
    below). -/
theorem float_reads_nearest (d : Dbl) (hn : d.Normal) (v : Rat) (hc : closeTo d v = true) : readFloat v = d :=
  C03.Float.readFloat_of_close d hn v hc

/-- **float_reads_itself.**  The exact value (what `int(qtempo)` prints for a whole tempo, whatever its size) is read back. -/
theorem float_reads_itself (d : Dbl) (hn : d.Normal) : readFloat d.value = d := C03.Float.readFloat_exact d hn

/-- **seventeen_digits_suffice.**  Any decimal within 5·10⁻¹⁷ (relative) of a normal binary64 number — the value rounded to
    17 significant digits — is read as that number. -/
theorem seventeen_digits_suffice (d : Dbl) (hn : d.Normal) (v : Rat) (h : |v - d.value| * 10 ^ 17 ≤ 5 * d.value) :
    readFloat v = d := C03.Float.seventeen_digits d hn v h

/-- **too_few_digits_lose.**  Conversely: a positive text further than half a unit in the last place from `d` is read as
    another number — whatever the number of digits that caused it. -/
theorem too_few_digits_lose (d : Dbl) (v : Rat) (hv : 0 < v) (h : pow2 (d.e - 1) < |v - d.value|) : readFloat v ≠ d :=
  C03.Float.readFloat_ne_of_far d v hv h

/-- **tempo_number_roundtrip.**  `<sound tempo>` down to the number: when the decimal the exporter writes lies inside the
    rounding interval of the score's quarter tempo `d`, `float(e.attrib["tempo"])` of the element written is `d`. -/
theorem tempo_number_roundtrip (t : TempoVal) (h : WellFormedTempo t) (d : Dbl) (hn : d.Normal)
    (hc : closeTo d (tempoValue t) = true) : readSoundFloat (writeSound t) = some (some d) :=
  C03.Float.sound_float_roundtrip t h d hn hc

/-- **tempo_text_exponent_roundtrip.**  The float literal as text, exponent notation included (`1.5e-05`, what `repr` prints
    below 10⁻⁴; `1.23457e+06`): mantissa and exponent parsed from the text written are the ones written. -/
theorem tempo_text_exponent_roundtrip (t : TempoVal) (h : WellFormedTempo t) (ex : Int) :
    parseSci (sciText t ex) = some (t, ex) := C03.Float.sci_roundtrip t h ex

/-- **tempo_number_roundtrip_exponent.**  The same as tempo_number_roundtrip for a text with any exponent. -/
theorem tempo_number_roundtrip_exponent (t : TempoVal) (h : WellFormedTempo t) (ex : Int) (d : Dbl) (hn : d.Normal)
    (hc : closeTo d (sciValue (t, ex)) = true) : readSoundNum (writeSoundSci t ex) = some (some d) :=
  C03.Float.sound_num_roundtrip t h ex d hn hc

/-- 1.5e-05 = 8854437155380585 · 2⁻⁶⁹ -/
example : (⟨8854437155380585, -69⟩ : Dbl).Normal ∧ closeTo ⟨8854437155380585, -69⟩ (sciValue (.dec 1 ['5'], -5)) = true ∧
    sciText (.dec 1 ['5']) (-5) = "1.5e-05".toList := by decide +kernel
/-- `"{:g}".format(1234567.0)` = `1.23457e+06` is read as 1234570 = 5302437774622720 · 2⁻³², not as 1234567 -/
example : readSoundNum (writeSoundSci (.dec 1 "23457".toList) 6) = some (some ⟨5302437774622720, -32⟩) ∧
    readFloat 1234567 = ⟨5302424889720832, -32⟩ := by decide +kernel

/-- 60 / 0.45 = 133.33333333333334 = 4691249611844267 · 2⁻⁴⁵: its `repr` is inside the interval … -/
example : (⟨4691249611844267, -45⟩ : Dbl).Normal ∧
    closeTo ⟨4691249611844267, -45⟩ (tempoValue (.dec 133 "33333333333334".toList)) = true := by decide +kernel
/-- … six significant digits (`"{:g}"`) are not, and come back as another tempo -/
example : closeTo ⟨4691249611844267, -45⟩ (tempoValue (.dec 133 "333".toList)) = false ∧
    readSoundFloat (writeSound (.dec 133 "333".toList)) = some (some ⟨4691237883720237, -45⟩) := by decide +kernel
/-- a whole tempo beyond 2⁵³ (10²² = 4768371582031250 · 2²¹) is written with all its digits and read back -/
example : readFloat (tempoValue (.whole 10000000000000000000000)) = ⟨4768371582031250, 21⟩ := by decide +kernel
/-- the carry into the next binade: just below a power of two -/
example : readFloat (tempoValue (.dec 127 "99999999999999999".toList)) = ⟨2 ^ 52, -45⟩ := by decide +kernel

/-- **attributes_roundtrip.**  For every list of entries of one `<attributes>` element (divisions, key signatures with or
    without mode, time signatures, staff details, clefs of any staff with or without octave change, in any order and
    number) and whatever `<staves>` value goes in front of the first clef: the importer's reading is exactly
    `canonAttrs items` — the first time signature, the first key signature, the first divisions value, every clef in
    order. -/
theorem attributes_roundtrip (items : List AttrItem) (staves : Option Nat) (h : WellFormedAttrs items) :
    readAttributes (writeAttributes items staves) = some (canonAttrs items) := by
  have hb := C03.Attr.read_beats items
  have hk : ∀ t, t ≠ Tag.staves → ∀ u, findPath t u (writeAttributes items staves).kids =
      findPath t u (items.flatMap itemEls) := by
    intro t ht u
    unfold findPath
    rw [C03.Attr.findall_kids t ht]
  have hd : find .divisions (writeAttributes items staves).kids = find .divisions (items.flatMap itemEls) := by
    unfold find; rw [C03.Attr.findall_kids _ (by decide)]
  unfold readAttributes
  simp only [hk _ (by decide : Tag.time ≠ Tag.staves), hk _ (by decide : Tag.key ≠ Tag.staves), hd, hb.1, hb.2,
    C03.Attr.read_fifths, C03.Attr.read_mode, C03.Attr.read_divisions, C03.Attr.findall_kids Tag.clef (by decide),
    C03.Attr.read_clefs items h, Option.bind_eq_bind, Option.bind_some, Option.pure_def, Option.some.injEq]
  unfold canonAttrs
  congr 1
  · cases hft : firstTime items with
    | none => simp [truthy]
    | some ab =>
      obtain ⟨a, b⟩ := ab
      by_cases ha : a = 0 <;> by_cases hb0 : b = 0 <;> simp [truthy, ha, hb0]
  · cases hfk : firstKey items with
    | none =>
      have : firstMode items = none := by
        cases hm : firstMode items with
        | none => rfl
        | some m =>
          have := C03.Attr.firstMode_some items (by simp [hm])
          simp [hfk] at this
      simp [this]
    | some fm => simp

example : WellFormedAttrs [.divisions 4, .key (-3) (some ['m', 'i', 'n', 'o', 'r']), .time 6 8,
    .clef none ['G'] (some 2) none, .clef (some 2) ['F'] (some 4) (some (-1))] := by decide

/-- a clef whose sign is the empty string would be read back with the sign "None" -/
example : (readAttributes (writeAttributes [.clef none [] (some 2) none] (some 1))).map (·.clefs.map (·.sign)) =
    some [some ['N', 'o', 'n', 'e']] := by decide

/-! ### wedges and dashes: pairing by number -/

/-- **wedges_paired.**  The wedge (or dashes: another `label`) elements of a part in document order, numbered by the
    exporter's counter (`marksOf`: the smallest number no open range of the label uses; `Mark.note` is the element).  If
    every range is met at most once as a start and once as a stop (`WFEvs`) and its start comes first in the document
    (`StartFirst`: wedges and dashes end after they start, and the document is in time order), then the importer's pairing
    through `ongoing[(kind, number)]` — a start stores the object under its number, a stop takes what is stored there —
    returns, in the order of closing, every closed range with its own start element and stop element, and still holds
    under each number exactly the open range that carries it.  Overlapping and nested ranges included: the numbers of
    ranges that are open at the same time differ (`numbers_distinct`). -/
theorem wedges_paired (label : Nat) (tbl : Nat → C03.Ranges.Rng) (evs : List C03.Ranges.REv)
    (hwf : C03.Ranges.WFEvs [] [] evs) (hsf : C03.Slots.StartFirst [] evs) :
    (slotAll (C03.Ranges.marksOf label tbl [] evs)).2 =
        (C03.Ranges.closedBy [] evs).map (fun r => ((tbl r).sN, (tbl r).eN)) ∧
      ∀ k, Model.lookup k (slotAll (C03.Ranges.marksOf label tbl [] evs)).1 =
        ((C03.Ranges.finalS [] evs).find? fun x => x.2.2 = k).map fun x => (tbl x.1).sN := by
  have := C03.Slots.slots_marksOf tbl label evs [] [] [] [] ⟨by simp, by simp⟩ (fun x hx => by cases hx)
    (fun k => by simp [Model.lookup]) hwf hsf
  simpa [slotAll, C03.Ranges.cOf, C03.Slots.Agree] using this

/-- three wedges A = [e0, e2], B = [e1, e4], C = [e3, e5] that overlap pairwise: written with the numbers 1 2 1 1 2 1 -/
example : C03.Slots.StartFirst [] [(0, true), (1, true), (0, false), (2, true), (1, false), (2, false)] := by
  simp [C03.Slots.StartFirst, C03.Ranges.stepS, C03.Ranges.lookupS, C03.Ranges.eraseS]

example : (slotAll [⟨0, 0, true, 1⟩, ⟨1, 0, true, 2⟩, ⟨2, 0, false, 1⟩, ⟨3, 0, true, 1⟩, ⟨4, 0, false, 2⟩, ⟨5, 0, false, 1⟩]).2 =
    [(0, 2), (1, 4), (3, 5)] := by decide

/-- without the hypothesis the conclusion fails: a stop that comes before its start is ignored by the importer
    (`Did not find a wedge start element for wedge stop!`) -/
example : (slotAll [⟨0, 0, false, 1⟩, ⟨1, 0, true, 1⟩]).2 = [] := by decide

/-! ### the element-level part of the byte fixpoint -/

/-- **note_fixpoint.**  Saving what was loaded writes the same `<note>`: for every note that is the representative of its
    meaning the importer picks (`CanonicalNote`: numbered voice, numbered staff where needed, …), the element the exporter
    writes for the note as the importer rebuilt it (`reexport (canon n)`, which by `note_roundtrip` is what
    `readNote (writeNote n)` describes) is, child for child and attribute for attribute, the element it wrote for `n`.
    This is the `<note>` part of `save(load(save(s))) == save(s)`; the serialisation of the tree and the elements that
    are not modelled are compared on every case. -/
theorem note_fixpoint (n : NoteAttrs) (h : CanonicalNote n) : writeNote (reexport (canon n) n.nStaves) = writeNote n := by
  obtain ⟨hid, hrest, ⟨v, hv, hv0⟩, hstaves, hstaff0, hratio, hnum, htup⟩ := h
  have hk : ∀ k, (k ∈ n.slurStops ∨ k ∈ n.slurStarts ∨ k ∈ n.tupletStops ∨ k ∈ n.tupletStarts.map (·.number)) → k ≠ 0 := by
    intro k hk'
    apply hnum k
    simp only [List.mem_append]
    tauto
  have hsl := C03.Fix.slurs_fix n (fun k hk' => hk k (Or.inl hk')) (fun k hk' => hk k (Or.inr (Or.inl hk')))
  have htu := C03.Fix.tuplets_fix n (fun k hk' => hk k (Or.inr (Or.inr (Or.inl hk'))))
    (fun t ht => ⟨hk _ (Or.inr (Or.inr (Or.inr (List.mem_map.mpr ⟨t, ht, rfl⟩)))), htup t ht⟩)
  unfold writeNote
  congr 1
  · -- id
    unfold idAttrs
    simp only [reexport, canon]
    cases hi : n.id with
    | none => rfl
    | some s => have : s ≠ [] := fun e => hid (by rw [hi, e]); simp [strOrNone, this]
  · unfold noteKids
    have e1 : chordEl (reexport (canon n) n.nStaves) = chordEl n := rfl
    have e2 : bodyEls (reexport (canon n) n.nStaves).body = bodyEls n.body := C03.Fix.body_fix n.body hrest
    have e3 : durEl (reexport (canon n) n.nStaves) = durEl n := by
      unfold durEl
      simp only [reexport, canon, C03.Fix.isGrace_fix]
      split <;> simp_all
    have e4 : ∀ t, tieEls t (reexport (canon n) n.nStaves) = tieEls t n := fun _ => rfl
    have e5 : voiceEl (reexport (canon n) n.nStaves) = voiceEl n := by
      unfold voiceEl
      simp only [reexport, canon, canonVoice, hv, C03.Fix.intOr_ne_zero hv0]
    have e6 : stemEl (reexport (canon n) n.nStaves) = stemEl n := rfl
    have e7 : typeEl (reexport (canon n) n.nStaves) = typeEl n := rfl
    have e8 : dotEls (reexport (canon n) n.nStaves) = dotEls n := rfl
    have e9 : timeModEl (reexport (canon n) n.nStaves) = timeModEl n := by
      unfold timeModEl
      simp only [reexport, canon, canonActual, canonNormal]
      cases ha : n.actualNotes with
      | none => simp
      | some a =>
        cases hb : n.normalNotes with
        | none => simp
        | some b =>
          obtain ⟨ha0, hb0⟩ := hratio a b ha hb
          simp [truthy, ha0, hb0]
    have e10 : staffEl (reexport (canon n) n.nStaves) = staffEl n := by
      unfold staffEl
      simp only [reexport, canon]
      cases hs : n.staff with
      | none =>
        have : ¬ n.nStaves > 1 := fun hgt => by
          obtain ⟨s, hs', _⟩ := hstaves hgt
          simp [hs] at hs'
        simp [intOr, this]
      | some s =>
        have : s ≠ 0 := fun e => hstaff0 (by rw [hs, e])
        simp [intOr, this]
    have e11 : notationsEl (reexport (canon n) n.nStaves) = notationsEl n := by
      have hkids : notationKids (reexport (canon n) n.nStaves) = notationKids n := by
        unfold notationKids
        have a1 : articulationsEl (reexport (canon n) n.nStaves) = articulationsEl n := by
          unfold articulationsEl
          have : (reexport (canon n) n.nStaves).arts = (artsOf n.arts).map .known := rfl
          rw [this, C03.Fix.articEls_fix]
        have a2 : technicalEl (reexport (canon n) n.nStaves) = technicalEl n := by
          unfold technicalEl
          have : (reexport (canon n) n.nStaves).technical = (fingsOf n.technical).map .fingering := rfl
          rw [this, C03.Fix.fingeringEls_fix]
        have a3 : (reexport (canon n) n.nStaves).slurStops = n.slurStops := hsl.1
        have a4 : (reexport (canon n) n.nStaves).slurStarts = n.slurStarts := hsl.2
        have a5 : (reexport (canon n) n.nStaves).tupletStops = n.tupletStops := htu.1
        have a6 : (reexport (canon n) n.nStaves).tupletStarts.map tupletStartEl = n.tupletStarts.map tupletStartEl := htu.2
        have a7 : (reexport (canon n) n.nStaves).fermata = n.fermata := rfl
        rw [e4, a1, a2, a3, a4, a5, a6, a7]
      unfold notationsEl
      rw [hkids]
    rw [e1, e2, e3, e4, e5, e6, e7, e8, e9, e10, e11]

example : CanonicalNote
    { id := some ['n', '1'], body := .pitched ['C'] (some 0) 4 (some .appoggiatura), dur := 0, chord := false,
      tiePrev := false, tieNext := true, voice := some 2, stem := none, fermata := true,
      arts := [.known .staccato, .unknown], technical := [.fingering 4, .otherNotation],
      symType := some ['e'], dots := 1, actualNotes := some 3, normalNotes := some 2,
      staff := some 2, nStaves := 2, slurStops := [1], slurStarts := [2], tupletStops := [],
      tupletStarts := [⟨1, some 3, some ['e'], some 2, some ['e']⟩] } := by
  refine ⟨by decide, by decide, ⟨2, rfl, by decide⟩, fun _ => ⟨2, rfl, by decide⟩, by decide, ?_, by decide, by decide⟩
  intro a b ha hb
  simp only [Option.some.injEq] at ha hb
  subst ha; subst hb
  decide

/-- the hypothesis matters: a note without voice number is written without `<voice>`, read as voice 1, and written
    again with `<voice>1</voice>` -/
example : let n : NoteAttrs :=
      { id := none, body := .rest false, dur := 4, chord := false, tiePrev := false, tieNext := false, voice := none,
        stem := none, fermata := false, arts := [], technical := [], symType := none, dots := 0, actualNotes := none,
        normalNotes := none, staff := none, nStaves := 1, slurStops := [], slurStarts := [], tupletStops := [],
        tupletStarts := [] }
    (writeNote (reexport (canon n) 1)).kids.length = (writeNote n).kids.length + 1 := by
  decide

end C03
