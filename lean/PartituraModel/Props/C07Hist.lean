/-
C07 — histories over several line objects: what a line object writes does not depend on which other line
objects (of whatever class and format version) were constructed, parsed, dispatched, converted or written
before or in between.  Model/MatchHist.lean; the correspondence stream `hist` runs the same histories on
the real classes (lines of several pre-1.0 versions and of 1.0.0 interleaved, written in another order).
-/
import PartituraModel.Model.MatchHist

namespace C07
open Model Model.Template Model.MatchCodec Model.MatchLine Model.MatchHist

theorem step_extends (ts : List Template) (cs : List Composite) (h : List Obj) (op : HOp) :
    ∃ l, (step ts cs h op).1 = h ++ l := by
  cases op with
  | build v k vals => exact ⟨_, rfl⟩
  | parse v k line =>
    simp only [step]
    cases parseLine ts cs (verName v ++ "/" ++ k) line with
    | ok vals => exact ⟨_, rfl⟩
    | error e => exact ⟨[], by simp⟩
  | dispatch v line =>
    simp only [step]
    cases dispatch ts cs (if v.1 ≥ 1 then Gen.dispatchOrderV1 else Gen.dispatchOrderV0) v line with
    | some r => exact ⟨_, rfl⟩
    | none => exact ⟨[], by simp⟩
  | tov1 i =>
    simp only [step]
    cases h[i]? with
    | none => exact ⟨[], by simp⟩
    | some o =>
      simp only
      cases toV1 ts o.kind o.ver o.vals with
      | some r => exact ⟨_, rfl⟩
      | none => exact ⟨[], by simp⟩
  | write i => exact ⟨[], by simp [step]⟩

/-- **objects are never changed**: a history only appends new objects to the heap -/
theorem run_extends (ts : List Template) (cs : List Composite) : ∀ (ops : List HOp) (h : List Obj),
    ∃ l, (run ts cs h ops).1 = h ++ l := by
  intro ops
  induction ops with
  | nil => intro h; exact ⟨[], by simp [run]⟩
  | cons op ops ih =>
    intro h
    obtain ⟨l1, h1⟩ := step_extends ts cs h op
    obtain ⟨l2, h2⟩ := ih (step ts cs h op).1
    refine ⟨l1 ++ l2, ?_⟩
    simp only [run]
    rw [h2, h1, List.append_assoc]

/-- an existing slot holds the same object (class, version, field values) after any history -/
theorem slot_stable (ts : List Template) (cs : List Composite) (h : List Obj) (ops : List HOp) (i : Nat)
    (hi : i < h.length) : (run ts cs h ops).1[i]? = h[i]? := by
  obtain ⟨l, hl⟩ := run_extends ts cs ops h
  rw [hl, List.getElem?_append_left hi]

theorem run_append (ts : List Template) (cs : List Composite) : ∀ (a b : List HOp) (h : List Obj),
    run ts cs h (a ++ b) =
      ((run ts cs (run ts cs h a).1 b).1, (run ts cs h a).2 ++ (run ts cs (run ts cs h a).1 b).2) := by
  intro a
  induction a with
  | nil => intro b h; simp [run]
  | cons op a ih =>
    intro b h
    simp only [List.cons_append, run, ih, List.cons_append]

/-- **writing after a history**: whatever operations `ops` (creating, parsing, dispatching, converting and
    writing any other lines of any version) come first, `obj.matchline` of an object that existed before them
    is the text of that object alone -/
theorem write_after_history (ts : List Template) (cs : List Composite) (h : List Obj) (ops : List HOp) (i : Nat)
    (hi : i < h.length) :
    (run ts cs h (ops ++ [.write i])).2 = (run ts cs h ops).2 ++ [.text ((h[i]?).bind (writeObj ts cs))] := by
  rw [run_append]
  simp only [run, step, slot_stable ts cs h ops i hi]

/-- **a line's text equals what it writes when it is the only object ever created**: build any line after any
    history `ops1`, let any history `ops2` follow, then write it - the text is `formatLine` of its own class,
    version and field values, exactly what the two-step history "build, write" observes -/
theorem history_write_independent (ts : List Template) (cs : List Composite) (ops1 ops2 : List HOp)
    (v : Nat × Nat × Nat) (k : String) (vals : List Val) :
    (run ts cs [] (ops1 ++ [.build v k vals] ++ ops2 ++ [.write (run ts cs [] ops1).1.length])).2.getLast?
        = some (.text (formatLine ts cs (verName v ++ "/" ++ k) vals)) ∧
    (run ts cs [] [.build v k vals, .write 0]).2 = [.made 0, .text (formatLine ts cs (verName v ++ "/" ++ k) vals)] := by
  constructor
  · rw [List.append_assoc, List.append_assoc, run_append]
    simp only
    have hb : run ts cs (run ts cs [] ops1).1 ([HOp.build v k vals] ++ (ops2 ++ [HOp.write (run ts cs [] ops1).1.length]))
        = ((run ts cs ((run ts cs [] ops1).1 ++ [{ ver := v, kind := k, vals := vals }])
              (ops2 ++ [HOp.write (run ts cs [] ops1).1.length])).1,
           Obs.made (run ts cs [] ops1).1.length ::
             (run ts cs ((run ts cs [] ops1).1 ++ [{ ver := v, kind := k, vals := vals }])
               (ops2 ++ [HOp.write (run ts cs [] ops1).1.length])).2) := by
      simp only [List.singleton_append, run, step]
    rw [hb]
    have hi : (run ts cs [] ops1).1.length < ((run ts cs [] ops1).1 ++ [({ ver := v, kind := k, vals := vals } : Obj)]).length := by
      simp
    rw [write_after_history ts cs _ ops2 _ hi]
    simp only [List.getElem?_append_right (Nat.le_refl _), Nat.sub_self, List.getElem?_cons_zero, Option.bind_some,
      ← List.append_assoc, ← List.cons_append, List.getLast?_append, List.getLast?_singleton, Option.or_some]
    rfl
  · simp [run, step, writeObj, Obj.name]

-- non-vacuity: a 0.3.0 pedal line, a 1.0.0 one, the first converted to 1.0.0; then all three are written
example : ((run Gen.matchTemplates Gen.matchComposites []
      [.build (0, 3, 0) "sustain" [.int 10, .int 64], .build (1, 0, 0) "sustain" [.int 7, .int 0], .tov1 0,
       .write 0, .write 1, .write 2]).2.drop 3)
    = [.text (some "sustain(10,64).".toList), .text (some "sustain(7,0).".toList), .text (some "sustain(10,64).".toList)] := by
  decide +kernel

end C07
