/-
C13, round 6 — "normalised per frame on request", for the array the code returns.

`compute_pitch_class_pianoroll` divides every folded entry by its column sum in binary64 (`pc_pianoroll /= norm_term`).
`Model.PianoRoll.pcColumnG fl` (Model/PianoRollPcF.lean) is that column with `fl` applied to the result of the division;
`fl = f64` is the code (driver request `pcf`, compared EXACTLY with the implementation), `fl = id` the exact reading
of Props/C13.lean (`pc_normalised`, `pc_column`).

* `pcf_column`, `pcf_id`     : entry by entry the code's column is `f64` of the exact quotient `pcOut`; nothing is
                               rounded without normalisation;
* `pcf_entry_close`          : every returned entry is within `2^-53` (relative) of the exact quotient;
* `pcf_exact`                : silent classes are exactly 0, a class that sounds alone is exactly 1, and every entry is
                               exact when the column sum is a power of two;
* `pcf_colsum`               : a sounding column of the returned array sums (exactly added) to 1 up to `2^-53`;
                               a silent one is entirely 0 (`pcf_silent`).
-/
import PartituraModel.Props.C13
import PartituraModel.Proofs.C13Raster
import PartituraModel.Model.PianoRollPcF

namespace C13
open Model Model.PianoRoll
open List

/-- every probe of the live normalisation succeeded: the returned array is binary64, an entry is the correctly rounded
    quotient (not a product with the reciprocal), an empty frame stays 0, `binary=True` weighs every class 1 -/
theorem pcf_lits : Gen.C13P_OK = true ∧ Gen.C13P_PREC = 53 ∧ Gen.C13P_EMIN = -1074 ∧ Gen.C13P_QUOTIENT = true ∧
    Gen.C13P_SILENT_ZERO = true ∧ Gen.C13P_BINARY_ONE = true := by decide

/-- the format of the returned array is binary64: the rounding of the normalisation is the `f64` of the rasteriser -/
theorem fPc_eq : fPc = f64 := by
  funext q
  unfold fPc f64
  rw [pcf_lits.2.1, pcf_lits.2.2.1]

/-- **the code's column, entry by entry**: the rounded quotient of `pcOut` when normalising, the folded integer
    otherwise -/
theorem pcf_column (fl : ℚ → ℚ) (r : Roll) (b nz : Bool) (j : Int) :
    pcColumnG fl r b nz j = (range 12).map fun (c : Nat) => (if nz then fl else id) (pcOut r b nz (c : Int) j) := by
  have hs : ((range 12).map fun (c : Nat) => pcValue r b (c : Int) j).foldr (fun v acc => v + acc) 0 = pcColSum r b j := by
    unfold pcColSum
    rw [foldr_map, tbl_pc_rows]
  unfold pcColumnG
  simp only [tbl_pc_rows, hs, map_map]
  cases nz <;> simp [pcOut, Function.comp_def]

/-- without rounding it is the column of the exact model -/
theorem pcf_id (r : Roll) (b nz : Bool) (j : Int) : pcColumnG id r b nz j = pcColumn r b nz j := by
  rw [pcf_column, pc_column]
  cases nz <;> simp

/-- the pitch-class roll of the exact reading is the code's with `fl = id` -/
theorem pcf_roll_id (kw : PcKw) (r : Roll) (ri : Bool) : pcOfRollG id kw r ri = pcOfRoll kw r ri := by
  unfold pcOfRollG pcOfRoll
  simp only [pcf_id]

private theorem pcValue_nonneg (r : Roll) (b : Bool) (j : Int) (hnn : ∀ p j, 0 ≤ r.cell p j) (c : Nat) :
    0 ≤ pcValue r b c j := by
  unfold pcValue
  simp only
  split
  · omega
  · unfold pcCell
    exact sumOver_nonneg (fun i => r.cell (12 * (i : Int) + c) j) (range 11) (fun p _ => hnn _ _)

private theorem pcOut_eq (r : Roll) (b : Bool) (c j : Int) :
    pcOut r b true c j = (pcValue r b c j : ℚ) / (((if pcColSum r b j = 0 then 1 else pcColSum r b j : Int)) : ℚ) := by
  simp [pcOut]

private theorem pcOut_nonneg (r : Roll) (b : Bool) (j : Int) (hnn : ∀ p j, 0 ≤ r.cell p j) (c : Nat) :
    0 ≤ pcOut r b true c j := by
  rw [pcOut_eq]
  have hv := pcValue_nonneg r b j hnn c
  have hsum : pcColSum r b j = sumOver (fun c => pcValue r b c j) (range 12) := rfl
  have hs0 : 0 ≤ pcColSum r b j := hsum ▸ sumOver_nonneg _ _ (fun p _ => pcValue_nonneg r b j hnn p)
  apply div_nonneg
  · exact_mod_cast hv
  · split <;> [norm_num; exact_mod_cast hs0]

/-- **every entry of the normalised roll is the exact quotient up to one rounding**: within `2^-53` of its size
    (cells are non-negative; the column sum stays below `2^1022`, far beyond any integer roll) -/
theorem pcf_entry_close (r : Roll) (b : Bool) (j : Int) (hnn : ∀ p j, 0 ≤ r.cell p j)
    (hbig : pcColSum r b j ≤ 2 ^ 1022) (c : Nat) :
    |f64 (pcOut r b true c j) - pcOut r b true c j| ≤ pcOut r b true c j * (2 : ℚ) ^ (-53 : Int) := by
  have h0 := pcOut_nonneg r b j hnn c
  have key : pcOut r b true c j = 0 ∨ (2 : ℚ) ^ (-1022 : Int) ≤ |pcOut r b true c j| := by
    rw [abs_of_nonneg h0, pcOut_eq]
    have hv := pcValue_nonneg r b j hnn c
    by_cases hv0 : pcValue r b c j = 0
    · left; simp [hv0]
    · right
      have hv1 : (1 : ℚ) ≤ (pcValue r b c j : ℚ) := by exact_mod_cast (by omega : 1 ≤ pcValue r b c j)
      have hd : (0 : ℚ) < (((if pcColSum r b j = 0 then 1 else pcColSum r b j : Int)) : ℚ) ∧
          (((if pcColSum r b j = 0 then 1 else pcColSum r b j : Int)) : ℚ) ≤ (2 : ℚ) ^ (1022 : Nat) := by
        have hsum : pcColSum r b j = sumOver (fun c => pcValue r b c j) (range 12) := rfl
        have hs0 : 0 ≤ pcColSum r b j := hsum ▸ sumOver_nonneg _ _ (fun p _ => pcValue_nonneg r b j hnn p)
        split
        · constructor
          · norm_num
          · rw [Int.cast_one]; exact one_le_pow₀ (by norm_num)
        · rename_i hne
          constructor
          · exact_mod_cast (by omega : 0 < pcColSum r b j)
          · exact_mod_cast hbig
      rw [show (2 : ℚ) ^ (-1022 : Int) = 1 / (2 : ℚ) ^ (1022 : Nat) by
        rw [zpow_neg, one_div]; norm_cast]
      rw [div_le_div_iff₀ (by positivity) hd.1]
      calc 1 * (((if pcColSum r b j = 0 then 1 else pcColSum r b j : Int)) : ℚ)
          = (((if pcColSum r b j = 0 then 1 else pcColSum r b j : Int)) : ℚ) := one_mul _
        _ ≤ (2 : ℚ) ^ (1022 : Nat) := hd.2
        _ ≤ (pcValue r b c j : ℚ) * (2 : ℚ) ^ (1022 : Nat) := le_mul_of_one_le_left (by positivity) hv1
  have := f64_err _ key
  rwa [abs_of_nonneg h0] at this

/-- **exact entries**: a silent pitch class is exactly `0`; a class that holds the whole column is exactly `1`;
    with a column sum `2^e` every entry below `2^53` is the exact quotient -/
theorem pcf_exact (r : Roll) (b : Bool) (c : Nat) (j : Int) :
    (pcValue r b c j = 0 → f64 (pcOut r b true c j) = 0) ∧
    (pcValue r b c j = pcColSum r b j → pcColSum r b j ≠ 0 → f64 (pcOut r b true c j) = 1) ∧
    (∀ e : Nat, pcColSum r b j = 2 ^ e → e ≤ 1074 → (pcValue r b c j).natAbs < 2 ^ 53 →
      f64 (pcOut r b true c j) = pcOut r b true c j) := by
  refine ⟨?_, ?_, ?_⟩
  · intro h
    rw [pcOut_eq, h]
    simp only [Int.cast_zero, zero_div]
    exact C13Float.roundBin_zero 53 (-1074)
  · intro h hne
    rw [pcOut_eq, h, if_neg hne, div_self (by exact_mod_cast hne)]
    have := f64_dyadic 1 0 (by norm_num) (by norm_num)
    simpa using this
  · intro e he hk hv
    have hne : pcColSum r b j ≠ 0 := by rw [he]; positivity
    have hq : pcOut r b true c j = (pcValue r b c j : ℚ) * (2 : ℚ) ^ (-(e : Int)) := by
      rw [pcOut_eq, if_neg hne, he, zpow_neg, div_eq_mul_inv]
      norm_cast
    rw [hq]
    exact f64_dyadic _ _ hv (by omega)

private theorem foldr_err (f g : Nat → ℚ) (ε : ℚ) (l : List Nat) (h : ∀ c ∈ l, |f c - g c| ≤ g c * ε) :
    |l.foldr (fun c s => f c + s) 0 - l.foldr (fun c s => g c + s) 0| ≤ l.foldr (fun c s => g c + s) 0 * ε := by
  induction l with
  | nil => simp
  | cons x l ih =>
    simp only [foldr_cons]
    have h1 := h x (by simp)
    have h2 := ih (fun c hc => h c (by simp [hc]))
    have : f x + foldr (fun c s => f c + s) 0 l - (g x + foldr (fun c s => g c + s) 0 l) =
        (f x - g x) + (foldr (fun c s => f c + s) 0 l - foldr (fun c s => g c + s) 0 l) := by ring
    rw [this]
    calc _ ≤ |f x - g x| + |foldr (fun c s => f c + s) 0 l - foldr (fun c s => g c + s) 0 l| := abs_add_le _ _
      _ ≤ g x * ε + foldr (fun c s => g c + s) 0 l * ε := add_le_add h1 h2
      _ = _ := by ring

/-- **normalised per frame, as returned**: the twelve binary64 entries of a sounding column add up (exactly added)
    to `1` up to `2^-53` -/
theorem pcf_colsum (r : Roll) (b : Bool) (j : Int) (hnn : ∀ p j, 0 ≤ r.cell p j)
    (hbig : pcColSum r b j ≤ 2 ^ 1022) (hs : pcColSum r b j ≠ 0) :
    |(range 12).foldr (fun c s => f64 (pcOut r b true (c : Nat) j) + s) 0 - 1| ≤ (2 : ℚ) ^ (-53 : Int) := by
  have hone : (range 12).foldr (fun (c : Nat) (s : ℚ) => pcOut r b true c j + s) 0 = 1 := by
    have hsum : pcColSum r b j = sumOver (fun c => pcValue r b c j) (range 12) := rfl
    have : (fun (c : Nat) (s : Rat) => pcOut r b true c j + s) =
        fun (c : Nat) (s : Rat) => ((pcValue r b c j : Int) : Rat) / ((pcColSum r b j : Int) : Rat) + s := by
      funext c s
      simp [pcOut, hs]
    rw [this, foldr_div (fun c => pcValue r b c j) _ (range 12), ← hsum]
    exact div_self (by exact_mod_cast hs)
  have := foldr_err (fun c => f64 (pcOut r b true (c : Nat) j)) (fun c => pcOut r b true (c : Nat) j)
    ((2 : ℚ) ^ (-53 : Int)) (range 12) (fun c _ => pcf_entry_close r b j hnn hbig c)
  rw [hone, one_mul] at this
  exact this

/-- a silent column of the returned array is entirely `0` -/
theorem pcf_silent (r : Roll) (b : Bool) (j : Int) (hnn : ∀ p j, 0 ≤ r.cell p j) (hs : pcColSum r b j = 0)
    (c : Nat) (hc : c < 12) : f64 (pcOut r b true c j) = 0 := by
  have hsum : pcColSum r b j = sumOver (fun c => pcValue r b c j) (range 12) := rfl
  have hz := (sumOver_eq_zero_iff (fun c => pcValue r b c j) (range 12)
    (fun p _ => pcValue_nonneg r b j hnn p)).mp (hsum ▸ hs) c (mem_range.mpr hc)
  exact (pcf_exact r b c j).1 hz

/-- **the whole call**: `compute_pitch_class_pianoroll` as the code computes it differs from the binary64-frame model
    of round 5 (`computePcKwF`, exact division) only in the rounding of the entries: same frame count, same index rows,
    every column mapped through `f64` when normalising -/
theorem pcf_call (kind : String) (a : NoteArray) (kw : PcKw) :
    computePcKwFF kind a kw = (computePcKwF kind a kw).map fun pr =>
      { pr with columns := pr.columns.map fun col =>
          col.map (if kw.normalize.getD Gen.C13_PC_DEFAULT_normalize then f64 else id) } := by
  unfold computePcKwFF computePcKwF
  rw [fPc_eq]
  cases computePianorollKwF kind a (pcInnerKw kw) with
  | none => rfl
  | some rr =>
    obtain ⟨r, ri⟩ := rr
    simp only [Option.map_some, pcOfRollG, pcOfRoll, map_map, Option.some.injEq]
    congr 1
    apply map_congr_left
    intro j _
    simp only [Function.comp_def]
    rw [pcf_column, pc_column, map_map]
    rfl

/-- non-vacuity: three notes of velocities 90 / 70 / 50 in one frame — 90/210 is rounded, the column sum 2^k case exact -/
example : f64 (3 / 7) ≠ 3 / 7 ∧ f64 (3 / 8) = 3 / 8 ∧ f64 0 = 0 ∧ f64 1 = 1 := by decide +kernel

example : (makePianoroll exOpts exNotes).map (fun r => (pcColumnG f64 r false true 2).map (· * 16)) =
    some [0, 0, 9, 0, 7, 0, 0, 0, 0, 0, 0, 0] := by decide +kernel

end C13
