/-
C02 (round 5) — the literal data of the source, regenerated on every run by `harness/translate_c02.py`
(`Gen/C02Source.lean`), against the model: editing one of these lines of partitura re-elaborates (and, when
the behaviour changes, breaks) the theorems below.

* the flags `(quarter, inv, musical_beat)` the four public properties pass to `_time_interpolator`
  (`public_map_flags`) and the model's dispatch on them (`public_maps_from_source`);
* the initial values of the carry-forward loop (`carry_init_from_source`);
* the beat factor written at a signature start and the bar length of the pickup test, as the arithmetic
  expressions of the source (`factor_from_source`, `normalDur_from_source`: proved with `ring`, so an
  algebraically equal rewrite of the expression does not alarm);
* `Part.__init__` (`part_init_from_source`), the keyword defaults of the wrapper and the arguments of
  `quarter_duration_map` (`wrapper_defaults_from_source`), the tolerance of the pickup test (`pickup_tolerance`).
-/
import PartituraModel.Props.C02Scipy
import PartituraModel.Gen.C02Source

set_option linter.unreachableTactic false
set_option linter.unusedTactic false

namespace C02
open Model.TimeMap C02Proofs

/-- the translator understood the source -/
theorem source_extracted : Gen.C02.extractionOk = true := by decide

/-- **the flags each public map passes**: the beat maps hand the part's musical-beat switch on, the quarter
maps never do; the inverse maps set `inv`; nothing else is set -/
theorem public_map_flags (b : Bool) :
    Gen.C02.tiDefaults = (false, false, false) ∧
    Gen.C02.beatMapFlags b = (false, false, b) ∧ Gen.C02.invBeatMapFlags b = (false, true, b) ∧
    Gen.C02.quarterMapFlags b = (true, false, false) ∧ Gen.C02.invQuarterMapFlags b = (true, true, false) := by
  cases b <;> decide

/-- the mode of the model for a combination of flags the public maps use -/
def flagMode (f : Bool × Bool × Bool) : Mode := if f.1 then .quarter else if f.2.2 then .musical else .notated

def flagMap (p : Part) (f : Bool × Bool × Bool) : Rat → Option Rat :=
  if f.2.1 then inv p (flagMode f) else fwd p (flagMode f)

/-- **the four public maps of the model are `_time_interpolator` called with the flags of the source** -/
theorem public_maps_from_source (p : Part) :
    beatMap p = flagMap p (Gen.C02.beatMapFlags p.musical) ∧
    invBeatMap p = flagMap p (Gen.C02.invBeatMapFlags p.musical) ∧
    quarterMap p = flagMap p (Gen.C02.quarterMapFlags p.musical) ∧
    invQuarterMap p = flagMap p (Gen.C02.invQuarterMapFlags p.musical) := by
  unfold beatMap invBeatMap quarterMap invQuarterMap beatMode
  cases p.musical <;> exact ⟨rfl, rfl, rfl, rfl⟩

/-- the carry-forward loop starts with the values of the source (`cur_div`, `cur_bt`) -/
theorem carry_init_from_source (p : Part) (m : Mode) :
    keypoints p m = carry (qdAssign p.qd) (facAssign m p.ts) (keyTimes p m) Gen.C02.curDivInit Gen.C02.curBtInit := rfl

/-- **the beat factor of the model is the expression of the source** -/
theorem factor_from_source (s : TSig) :
    factorOf .notated s = Gen.C02.facNotated (s.beats : Rat) (s.beatType : Rat) (s.mb : Rat) ∧
    factorOf .musical s = Gen.C02.facMusical (s.beats : Rat) (s.beatType : Rat) (s.mb : Rat) := by
  unfold factorOf Gen.C02.facNotated Gen.C02.facMusical
  constructor <;> first | rfl | ring

/-- **the bar length of the pickup test is the expression of the source**, for the three flag combinations the
public maps use (the quarter maps do not look at the musical beats) -/
theorem normalDur_from_source (s : TSig) :
    normalDur .quarter s = Gen.C02.normalDur true false (s.beats : Rat) (s.beatType : Rat) (s.mb : Rat) ∧
    normalDur .notated s = Gen.C02.normalDur false false (s.beats : Rat) (s.beatType : Rat) (s.mb : Rat) ∧
    normalDur .musical s = Gen.C02.normalDur false true (s.beats : Rat) (s.beatType : Rat) (s.mb : Rat) := by
  unfold normalDur Gen.C02.normalDur
  refine ⟨?_, ?_, ?_⟩ <;> first | rfl | (simp only; ring)

/-- `Part(id)`: one quarter duration (default 1) stored at time 0 — the initial state of the history model -/
theorem part_init_from_source :
    (hinit Gen.C02.partQuarterDefault).qd = Gen.C02.quarterTimesInit.map (fun t => (t, 1)) := by decide

/-- the wrapper's keyword defaults are the default `Opts` of the model (linear, NaN outside, x sorted by
scipy), and `quarter_duration_map` passes `kind="previous"` and the end values as fill values — what `qdMapS`
does -/
theorem wrapper_defaults_from_source :
    Gen.C02.wrapKind = "linear" ∧ Gen.C02.wrapBoundsError = false ∧ Gen.C02.wrapFillNaN = true ∧
    Gen.C02.wrapAssumeSorted = false ∧ Gen.C02.wrapDtypeNone = true ∧
    ({} : Opts).kind = .linear ∧ ({} : Opts).fillBelow = none ∧ ({} : Opts).fillAbove = none ∧
    Gen.C02.qdmKind = "previous" ∧ Gen.C02.qdmBoundsError = false ∧ Gen.C02.qdmFillEnds = true := by decide

/-- the tolerance of the pickup test: numpy's defaults -/
theorem pickup_tolerance : Gen.C02.pickupTol = some (1 / 100000, 1 / 100000000) := by decide +kernel

end C02
