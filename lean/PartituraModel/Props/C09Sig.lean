/-
C09, round 6 — time signatures, key signatures and clefs of the unfolded part (`sigSkip`, until now "mirrored and compared").

`create_variant_part` copies a TimeSignature / KeySignature / Clef only when it differs from the previous object of its
class in the new part.  `signature_in_force`: nothing is lost by that — for EVERY part (object list in timeline order), every
path and every signature / clef `o` that starts inside a visited segment, at the shifted time of `o` either its copy stands
in the unfolded part or the latest object of that class before it says exactly what `o` says.  `…_end_to_end`: the same from
`add_segments` on, with no hypothesis on offsets and lengths.  What is NOT restored is the signature in force at the START
of a visited segment when no such object starts there (second `example`): see PARTIAL of harness/props/c09.py.
-/
import PartituraModel.Props.C09Entry
import PartituraModel.Proofs.C09Sig

namespace C09
open Model.Unfold

/-- Signatures and clefs survive the "don't repeat if it hasn't changed" rule: for a part whose objects are listed in
timeline order, visits whose offsets are the running sums of positive lengths (what every path gives:
`offsets_are_prefix_sums`, `segments_tile`), visit number `n` of segment `[v.s, v.e)` and a time signature / key
signature / clef `o` starting in it: at `o`'s shifted time `t = o.start − v.s + v.off`
 * either the unfolded part contains the copy of `o` made in visit `n` (at `t`, same fields),
 * or it contains an object of the same class strictly before `t` with the same fields as `o`, and NO object of that class
   in the whole unfolded part lies between that one and `t` — it is the one in force at `t`. -/
theorem signature_in_force (p : APart) (vs : List Visit) (hord : TimeOrdered p.objs) (hoff : OffsetsOK 0 vs)
    (hpos : ∀ v ∈ vs, v.s < v.e) (n : Nat) (v : Visit) (hv : vs[n]? = some v) (i : Nat) (o : Obj)
    (hio : p.objs[i]? = some o) (hw : inWin v o = true) (hs : o.kind.isSig = true) :
    (∃ c ∈ (variant p vs).objs, core c = core (mkCopy i n o (v.off - v.s))) ∨
    InForceBefore ((variant p vs).objs.map sv) o.kind o.payload (o.start + (v.off - v.s)) := by
  have := variantObjs_sig p.objs hord vs 0 [] 0 hoff hpos n v hv i o hio hw hs
  simpa [variant] using this

/-- … END TO END: for the segment table `add_segments` builds for ANY part and any list of segment numbers that has visits
(every enumerated path has), with no hypothesis on offsets or lengths. -/
theorem signature_in_force_end_to_end (L : Layout) (g : List Seg) (hg : mkSegments L = some g) (path : List Nat)
    (vs : List Visit) (hvs : visitsOf g path = some vs) (p : APart) (hord : TimeOrdered p.objs)
    (n : Nat) (v : Visit) (hv : vs[n]? = some v) (i : Nat) (o : Obj)
    (hio : p.objs[i]? = some o) (hw : inWin v o = true) (hs : o.kind.isSig = true) :
    (∃ c ∈ (variant p vs).objs, core c = core (mkCopy i n o (v.off - v.s))) ∨
    InForceBefore ((variant p vs).objs.map sv) o.kind o.payload (o.start + (v.off - v.s)) := by
  obtain ⟨hoff, _, _⟩ := offsets_are_prefix_sums g path vs hvs
  have hposv : ∀ w ∈ vs, w.s < w.e := by
    intro w hw'
    obtain ⟨k, hk'⟩ := List.getElem?_of_mem hw'
    obtain ⟨j, sg, _, hsg, e1, e2⟩ := visits_get g path vs hvs k w hk'
    have := mkSegments_pos L g hg j sg hsg
    omega
  exact signature_in_force p vs hord hoff hposv n v hv i o hio hw hs

/-- A part WITHOUT repeat structure (one visit `[first, last)` at offset 0, what every entry point makes of it:
`unfold_without_structure`): every time signature / key signature / clef of the original is in force in the unfolded part at
its time moved by `−first` — together with `signature_copies_are_signatures` (nothing but copies of the original's
signatures, at their moved times) the signature maps of the unfolded part are those of the original. -/
theorem unfold_without_structure_signatures (p : APart) (first last : Int) (h : first < last) (hord : TimeOrdered p.objs)
    (i : Nat) (o : Obj) (hio : p.objs[i]? = some o) (hw : first ≤ o.start ∧ o.start < last) (hs : o.kind.isSig = true) :
    (∃ c ∈ (variant p [⟨first, last, 0⟩]).objs, core c = core (mkCopy i 0 o (0 - first))) ∨
    InForceBefore ((variant p [⟨first, last, 0⟩]).objs.map sv) o.kind o.payload (o.start + (0 - first)) :=
  signature_in_force p [⟨first, last, 0⟩] hord ⟨rfl, trivial⟩
    (by intro v hv; simp only [List.mem_singleton] at hv; subst hv; exact h) 0 ⟨first, last, 0⟩ rfl i o hio
    (by simp [inWin, hw.1, hw.2]) hs

/-- the class of a copy is the class of the original: a signature of the unfolded part is a copy of a signature -/
theorem signature_copies_are_signatures (p : APart) (vs : List Visit) (c : OObj) (hc : c ∈ (variant p vs).objs)
    (hs : c.kind.isSig = true) :
    ∃ (o : Obj) (v : Visit), p.objs[c.orig]? = some o ∧ vs[c.visit]? = some v ∧ inWin v o = true ∧
      o.kind = c.kind ∧ o.payload = c.payload ∧ c.start = o.start + (v.off - v.s) := by
  rcases variantObjs_mem p.objs vs 0 [] c hc with h | ⟨n, v, out', hv, hcv⟩
  · simp at h
  · obtain ⟨hvis, hkind⟩ := visitCopies_mem p.objs v (0 + n) out' c hcv
    rcases hkind with ⟨_, hk, _, _⟩ | ⟨_, i, o, hio, hw, _, hcore, _⟩
    · rw [hk] at hs; cases hs
    · simp only [core, mkCopy, Prod.mk.injEq] at hcore
      refine ⟨o, v, by rw [hcore.1]; exact hio, by rw [hvis]; simpa using hv, hw, hcore.2.2.1.symm, hcore.2.2.2.2.2.1.symm, hcore.2.2.2.1⟩

-- non-vacuity: 4/4 at 0, a repeated section [4,12) with a change to 3/4 at 8 and the 4/4 restated at 4.  Second pass: the
-- 4/4 at 12 is copied (the 3/4 before it differs), the 3/4 at 16 as well
example :
    let p : APart := { points := [0, 4, 8, 12], qd := [(0, 1)], objs :=
      [{ kind := .timeSig, start := 0, stp := none, payload := [4, 4], nid := none, refs := [] },
       { kind := .timeSig, start := 4, stp := none, payload := [4, 4], nid := none, refs := [] },
       { kind := .timeSig, start := 8, stp := none, payload := [3, 4], nid := none, refs := [] }] }
    ((variant p [⟨0, 4, 0⟩, ⟨4, 12, 4⟩, ⟨4, 12, 12⟩]).objs.map fun c => (c.start, c.payload)) =
      [(0, [4, 4]), (8, [3, 4]), (12, [4, 4]), (16, [3, 4])] := by decide

-- what is NOT restored (open finding proposed, see PARTIAL): the same WITHOUT the restated 4/4 at the start of the repeat.
-- No signature object starts at 4, so nothing is copied at 12: the second pass of [4,8) stands under the 3/4 left over
-- from the end of the first pass, although in the original 4/4 is in force there
example :
    let p : APart := { points := [0, 4, 8, 12], qd := [(0, 1)], objs :=
      [{ kind := .timeSig, start := 0, stp := none, payload := [4, 4], nid := none, refs := [] },
       { kind := .timeSig, start := 8, stp := none, payload := [3, 4], nid := none, refs := [] }] }
    ((variant p [⟨0, 4, 0⟩, ⟨4, 12, 4⟩, ⟨4, 12, 12⟩]).objs.map fun c => (c.start, c.payload)) =
      [(0, [4, 4]), (8, [3, 4])] := by decide

end C09
