-- Root of the `PartituraModel` library: every property module (and through
-- them every model and generated table) is built by `lake build`.
import PartituraModel.Wire
