#!/bin/bash
# Build the Lean side from files on disk only (offline): generated tables, every claimed
# property's theorems and its model driver.  A property whose build fails is reported by its
# own check (broken proof obligation), so keep going.
cd "$(dirname "$0")"
export PYTHONWARNINGS=ignore
PYTHONPATH="$(pwd)/harness:${VERIF_REPO:-/repo}" /venv/bin/python harness/translate.py || echo "setup: translator failed"
ids=$(/venv/bin/python -c "import json; print(' '.join(c['property_id'] for c in json.load(open('MANIFEST.json'))['checks']))")
cd lean
mkdir -p .lake
rc=0
for id in $ids; do
  low=$(echo "$id" | tr 'A-Z' 'a-z')
  mods=$(cd .. && PYTHONPATH="$(pwd)/harness:${VERIF_REPO:-/repo}" /venv/bin/python -c "import importlib; m=importlib.import_module('props.$low'); print(' '.join(m.PROPS))")
  echo "== $id: lake build drv_$low $mods"
  flock .lake/verif.lock lake build "drv_$low" $mods 2>&1 | grep -v '^✔' | tail -15 || rc=1
done
exit 0
