#!/bin/bash
# Build the Lean side from files on disk only (offline).
set -e
cd "$(dirname "$0")"
export PYTHONWARNINGS=ignore
PYTHONPATH="$(pwd)/harness:/repo" /venv/bin/python harness/translate.py
cd lean
lake build
for f in PartituraModel/Driver/C*.lean; do
  n=$(basename "$f" .lean | tr 'A-Z' 'a-z')
  lake build "drv_$n"
done
