"""Translator for C17 (round 2): option / name tables of the estimators' wrappers
-> lean/PartituraModel/Gen/C17Tables.lean.

* `MAX_COST` of voice_separation.py (live module value);
* `VALID_KEY_PROFILES` of globals.py (live value) and the alias tuples of `ks_kid`
  (read with `ast` from the function's source: `if key_profiles in (...): key_profiles = <MATRIX>`);
* which profile vectors each matrix of key_identification.py is built from
  (`<MATRIX> = build_key_profile_matrix(<maj>, <min>)`, module source, `ast`);
* the unit preference of `get_time_units_from_note_array` (utils/music.py, `ast`): the two unit
  sets and, per branch, the chain `if "<field>" in fields: return (<onset>, <duration>)` in source order;
* the method tuple / default of `estimate_key` and the methods for which `estimate_spelling` binds `ps13s1` (`ast`),
  the keyword parameters of `ps13s1` and `ks_kid` (`inspect.signature`);
* the LIVE 24 x 12 matrices KRUMHANSL_KESSLER, CMBS, KOSTKA_PAYNE (module values) - `C17.key_matrix_is_model` proves them
  equal, entry by entry, to the rotations the model computes by formula.
Nothing is executed besides importing the modules.  The generator never raises: see `PINNED` / `extract`.
"""
import ast
import inspect
import textwrap


def _lstr(s):
    return '"%s"' % str(s).replace("\\", "\\\\").replace('"', '\\"')


def _llist(items):
    return "[" + ", ".join(items) + "]"


def _str_tuple(node):
    """a tuple/set/list literal of string constants (also `set((...))`)"""
    if isinstance(node, ast.Call) and isinstance(node.func, ast.Name) and node.func.id == "set" and len(node.args) == 1:
        node = node.args[0]
    if isinstance(node, (ast.Tuple, ast.List, ast.Set)) and all(
            isinstance(e, ast.Constant) and isinstance(e.value, str) for e in node.elts):
        return [e.value for e in node.elts]
    raise RuntimeError("translate_c17: expected a literal of strings, found %s" % ast.dump(node)[:80])


def _ks_kid_aliases(KI):
    tree = ast.parse(textwrap.dedent(inspect.getsource(KI.ks_kid)))
    out = []
    for node in ast.walk(tree):
        if isinstance(node, ast.If) and isinstance(node.test, ast.Compare) and len(node.test.ops) == 1 \
                and isinstance(node.test.ops[0], ast.In) and isinstance(node.test.left, ast.Name) \
                and node.test.left.id == "key_profiles":
            names = _str_tuple(node.test.comparators[0])
            if len(node.body) != 1 or not isinstance(node.body[0], ast.Assign) or not isinstance(node.body[0].value, ast.Name):
                raise RuntimeError("translate_c17: unexpected body of an alias branch of ks_kid")
            out.append((names, node.body[0].value.id))
    if len(out) != 3:
        raise RuntimeError("translate_c17: expected three alias branches in ks_kid, found %d" % len(out))
    return out


def _matrix_args(KI):
    tree = ast.parse(inspect.getsource(KI))
    out = []
    for node in tree.body:
        if isinstance(node, ast.Assign) and len(node.targets) == 1 and isinstance(node.targets[0], ast.Name) \
                and isinstance(node.value, ast.Call) and isinstance(node.value.func, ast.Name) \
                and node.value.func.id == "build_key_profile_matrix":
            args = node.value.args
            if len(args) != 2 or not all(isinstance(a, ast.Name) for a in args):
                raise RuntimeError("translate_c17: unexpected arguments of build_key_profile_matrix")
            out.append((node.targets[0].id, args[0].id, args[1].id))
    if len(out) != 3:
        raise RuntimeError("translate_c17: expected three profile matrices, found %d" % len(out))
    return out


def _ks_kid_default(KI):
    sig = inspect.signature(KI.ks_kid)
    tree = ast.parse(textwrap.dedent(inspect.getsource(KI.ks_kid)))
    fn = tree.body[0]
    names = [a.arg for a in fn.args.args]
    defaults = fn.args.defaults
    d = dict(zip(names[len(names) - len(defaults):], defaults))
    node = d["key_profiles"]
    if not isinstance(node, ast.Name):
        raise RuntimeError("translate_c17: default key_profiles of ks_kid is not a matrix name")
    assert "key_profiles" in sig.parameters
    return node.id


def _estimate_key_default(KI):
    """the literal `kwargs["key_profiles"] = "<name>"` of estimate_key"""
    tree = ast.parse(textwrap.dedent(inspect.getsource(KI.estimate_key)))
    found = []
    for node in ast.walk(tree):
        if isinstance(node, ast.Assign) and len(node.targets) == 1 and isinstance(node.targets[0], ast.Subscript) \
                and isinstance(node.targets[0].value, ast.Name) and node.targets[0].value.id == "kwargs" \
                and isinstance(node.value, ast.Constant) and isinstance(node.value.value, str):
            found.append(node.value.value)
    if len(found) != 1:
        raise RuntimeError("translate_c17: expected one default key_profiles in estimate_key, found %d" % len(found))
    return found[0]


def _chain(node):
    """`if "<f>" in fields: return (a, b)  elif ...` -> [(f, a, b), ...] in source order"""
    out = []
    while True:
        if not (isinstance(node, ast.If) and isinstance(node.test, ast.Compare) and isinstance(node.test.ops[0], ast.In)
                and isinstance(node.test.left, ast.Constant)):
            raise RuntimeError("translate_c17: unexpected test in the unit chain")
        ret = node.body[0]
        if len(node.body) != 1 or not isinstance(ret, ast.Return):
            raise RuntimeError("translate_c17: unexpected body in the unit chain")
        a, b = _str_tuple(ret.value)
        out.append((node.test.left.value, a, b))
        if not node.orelse:
            return out
        if len(node.orelse) != 1:
            raise RuntimeError("translate_c17: unexpected else in the unit chain")
        node = node.orelse[0]


def _time_units(M):
    tree = ast.parse(textwrap.dedent(inspect.getsource(M.get_time_units_from_note_array)))
    fn = tree.body[0]
    sets = {}
    top = None
    for node in fn.body:
        if isinstance(node, ast.Assign) and isinstance(node.targets[0], ast.Name) and node.targets[0].id in ("score_units", "performance_units"):
            sets[node.targets[0].id] = _str_tuple(node.value)
        if isinstance(node, ast.If) and isinstance(node.test, ast.Compare) and isinstance(node.test.left, ast.Call):
            top = node
    if top is None or set(sets) != {"score_units", "performance_units"}:
        raise RuntimeError("translate_c17: get_time_units_from_note_array has an unexpected shape")

    def which(test):
        # len(<set>.intersection(fields)) > 0
        return test.left.args[0].func.value.id

    first = which(top.test)
    if len(top.body) != 1 or len(top.orelse) != 1 or not isinstance(top.orelse[0], ast.If):
        raise RuntimeError("translate_c17: unexpected branches in get_time_units_from_note_array")
    second_if = top.orelse[0]
    second = which(second_if.test)
    if len(second_if.body) != 1 or not second_if.orelse or not isinstance(second_if.orelse[0], ast.Raise):
        raise RuntimeError("translate_c17: unexpected second branch in get_time_units_from_note_array")
    return [(first, sets[first], _chain(top.body[0])), (second, sets[second], _chain(second_if.body[0]))]


# the last known values (partitura at the commit the model was written against): emitted, and listed in
# `C17_PINNED`, when the source can no longer be read in the expected shape - the generator never raises
# (the shared translator must keep working for every property) and the driver keeps building, so the
# correspondence and the oracle still run; `C17.c17_tables_extracted` (Props/C17Tables.lean) then fails to build
PINNED = {
    "VOSA_MAX_COST": 1000,
    "VALID_KEY_PROFILES": ["krumhansl_kessler", "kk", "temperley", "tp", "kostka_payne", "kp"],
    "KS_KID_ALIASES": [(["ks", "kk", "krumhansl_kessler"], "KRUMHANSL_KESSLER"), (["temperley", "tp", "cmbs"], "CMBS"),
                       (["kp", "kostka_payne"], "KOSTKA_PAYNE")],
    "KEY_MATRIX_ARGS": [("KRUMHANSL_KESSLER", "key_prof_maj_kk", "key_prof_min_kk"), ("CMBS", "key_prof_maj_cbms", "key_prof_min_cbms"),
                        ("KOSTKA_PAYNE", "key_prof_maj_kp", "key_prof_min_kp")],
    "KS_KID_DEFAULT": "KRUMHANSL_KESSLER",
    "ESTIMATE_KEY_DEFAULT": "krumhansl_kessler",
    "ESTIMATE_KEY_METHODS": ["krumhansl"],
    "ESTIMATE_KEY_METHOD_DEFAULT": "krumhansl",
    "ESTIMATE_SPELLING_METHODS": ["ps13s1"],
    "ESTIMATE_SPELLING_METHOD_DEFAULT": "ps13s1",
    "PS13_KWARGS": ["K_pre", "K_post"],
    "KS_KID_KWARGS": ["key_profiles", "return_sorted_keys"],
    "TIME_UNIT_BRANCHES": [
        ("score_units", ["onset_beat", "onset_quarter", "onset_div"],
         [("onset_beat", "onset_beat", "duration_beat"), ("onset_quarter", "onset_quarter", "duration_quarter"),
          ("onset_div", "onset_div", "duration_div")]),
        ("performance_units", ["onset_sec", "onset_tick"],
         [("onset_sec", "onset_sec", "duration_sec"), ("onset_tick", "onset_tick", "duration_tick")])],
}


def _plain(x):
    if isinstance(x, str):
        if any(ord(ch) < 32 or ord(ch) > 126 or ch in '"\\' for ch in x):
            raise RuntimeError("a name with characters the generated file cannot hold: %r" % x)
        return x
    if isinstance(x, (list, tuple)):
        return type(x)(_plain(y) for y in x)
    return x


def _estimate_key_methods(KI):
    """the tuple of `if method not in (<names>): raise` of estimate_key and the default of `method`"""
    tree = ast.parse(textwrap.dedent(inspect.getsource(KI.estimate_key)))
    found = []
    for node in ast.walk(tree):
        if isinstance(node, ast.If) and isinstance(node.test, ast.Compare) and len(node.test.ops) == 1 \
                and isinstance(node.test.ops[0], ast.NotIn) and isinstance(node.test.left, ast.Name) \
                and node.test.left.id == "method" and node.body and isinstance(node.body[0], ast.Raise):
            found.append(_str_tuple(node.test.comparators[0]))
    if len(found) != 1:
        raise RuntimeError("translate_c17: expected one `method not in (...)` rejection in estimate_key, found %d" % len(found))
    d = inspect.signature(KI.estimate_key).parameters["method"].default
    if not isinstance(d, str):
        raise RuntimeError("translate_c17: default `method` of estimate_key is not a name")
    # every accepted method must bind `kid` in an `if method == "<name>":` branch
    bound = []
    for node in ast.walk(tree):
        if isinstance(node, ast.If) and isinstance(node.test, ast.Compare) and len(node.test.ops) == 1 \
                and isinstance(node.test.ops[0], ast.Eq) and isinstance(node.test.left, ast.Name) \
                and node.test.left.id == "method" and isinstance(node.test.comparators[0], ast.Constant):
            if any(isinstance(b, ast.Assign) and isinstance(b.targets[0], ast.Name) and b.targets[0].id == "kid"
                   and isinstance(b.value, ast.Name) and b.value.id == "ks_kid" for b in node.body):
                bound.append(node.test.comparators[0].value)
    return [m for m in found[0] if m in bound], d


def _estimate_spelling_methods(PS):
    """the methods for which estimate_spelling binds `ps` (`if method == "<name>": ps = ps13s1`), and the default"""
    tree = ast.parse(textwrap.dedent(inspect.getsource(PS.estimate_spelling)))
    bound = []
    for node in ast.walk(tree):
        if isinstance(node, ast.If) and isinstance(node.test, ast.Compare) and len(node.test.ops) == 1 \
                and isinstance(node.test.ops[0], ast.Eq) and isinstance(node.test.left, ast.Name) \
                and node.test.left.id == "method" and isinstance(node.test.comparators[0], ast.Constant):
            if any(isinstance(b, ast.Assign) and isinstance(b.targets[0], ast.Name) and b.targets[0].id == "ps"
                   and isinstance(b.value, ast.Name) and b.value.id == "ps13s1" for b in node.body):
                bound.append(node.test.comparators[0].value)
    d = inspect.signature(PS.estimate_spelling).parameters["method"].default
    if not bound or not isinstance(d, str):
        raise RuntimeError("translate_c17: estimate_spelling binds no method to ps13s1")
    return bound, d


def _kwargs_of(fn):
    """the keyword parameters of a function after its first (the note array)"""
    ps = list(inspect.signature(fn).parameters.values())[1:]
    if any(p.kind not in (p.POSITIONAL_OR_KEYWORD, p.KEYWORD_ONLY) for p in ps):
        raise RuntimeError("translate_c17: %s takes *args / **kwargs" % fn.__name__)
    return [p.name for p in ps]


def _matrices(KI, names):
    """the live 24 x 12 matrices, every entry as the decimal its shortest repr denotes (the same reading
    translate.py uses for the profile vectors of globals.py, so equal floats give equal rationals)"""
    from fractions import Fraction
    out = []
    for nm in names:
        m = getattr(KI, nm)
        rows = [[Fraction(repr(float(v))) for v in row] for row in m]
        out.append((nm, rows))
    return out


def extract():
    """({name: value}, [(name, reason)])"""
    vals = dict(PINNED)
    vals["KEY_MATRICES"] = []
    pinned = []

    def attempt(names, fn):
        try:
            got = _plain(fn())
            for nm, v in zip(names, got):
                vals[nm] = v
        except Exception as e:
            for nm in names:
                pinned.append((nm, "%s: %s" % (type(e).__name__, str(e)[:160].replace("\n", " "))))

    try:
        import partitura.musicanalysis.voice_separation as VS
        import partitura.musicanalysis.key_identification as KI
        import partitura.musicanalysis.pitch_spelling as PS
        import partitura.utils.globals as G
        import partitura.utils.music as M
    except Exception as e:
        return vals, [(nm, "import failed: %s" % type(e).__name__) for nm in sorted(PINNED)]

    def max_cost():
        v = VS.MAX_COST
        if int(v) != v:
            raise RuntimeError("MAX_COST is not an integer")
        return [int(v)]

    attempt(["VOSA_MAX_COST"], max_cost)
    attempt(["VALID_KEY_PROFILES"], lambda: [[str(s) for s in G.VALID_KEY_PROFILES]])
    attempt(["KS_KID_ALIASES"], lambda: [_ks_kid_aliases(KI)])
    attempt(["KEY_MATRIX_ARGS"], lambda: [_matrix_args(KI)])
    attempt(["KS_KID_DEFAULT"], lambda: [_ks_kid_default(KI)])
    attempt(["ESTIMATE_KEY_DEFAULT"], lambda: [_estimate_key_default(KI)])
    attempt(["ESTIMATE_KEY_METHODS", "ESTIMATE_KEY_METHOD_DEFAULT"], lambda: _estimate_key_methods(KI))
    attempt(["ESTIMATE_SPELLING_METHODS", "ESTIMATE_SPELLING_METHOD_DEFAULT"], lambda: _estimate_spelling_methods(PS))
    attempt(["PS13_KWARGS"], lambda: [_kwargs_of(PS.ps13s1)])
    attempt(["KS_KID_KWARGS"], lambda: [_kwargs_of(KI.ks_kid)])
    attempt(["TIME_UNIT_BRANCHES"], lambda: [_time_units(M)])
    attempt(["KEY_MATRICES"], lambda: [_matrices(KI, [a for a, _, _ in vals["KEY_MATRIX_ARGS"]])])
    return vals, pinned


def _lrat(f):
    if f.denominator == 1:
        return "(%d : Rat)" % f.numerator
    return "((%d : Rat) / %d)" % (f.numerator, f.denominator)


def gen_c17():
    vals, pinned = extract()
    out = []
    w = out.append
    w("/- GENERATED by harness/translate_c17.py from /repo (voice_separation.py, key_identification.py,")
    w("   pitch_spelling.py, utils/globals.py, utils/music.py).  Do not edit. -/")
    w("namespace Gen\n")
    w("/-- `MAX_COST` of voice_separation.py -/")
    w("def VOSA_MAX_COST : Int := %d\n" % vals["VOSA_MAX_COST"])
    w("/-- `VALID_KEY_PROFILES` (what `estimate_key` accepts as `key_profiles`) -/")
    w("def VALID_KEY_PROFILES : List String := %s\n" % _llist(_lstr(s) for s in vals["VALID_KEY_PROFILES"]))
    w("/-- the alias branches of `ks_kid` in source order: (names, matrix) -/")
    w("def KS_KID_ALIASES : List (List String × String) := %s\n" % _llist(
        "(%s, %s)" % (_llist(_lstr(s) for s in names), _lstr(m)) for names, m in vals["KS_KID_ALIASES"]))
    w("/-- `<matrix> = build_key_profile_matrix(<major profile>, <minor profile>)` -/")
    w("def KEY_MATRIX_ARGS : List (String × String × String) := %s\n" % _llist(
        "(%s, %s, %s)" % (_lstr(a), _lstr(b), _lstr(c)) for a, b, c in vals["KEY_MATRIX_ARGS"]))
    w("/-- default `key_profiles` of `ks_kid` (a matrix) and of `estimate_key` (a name) -/")
    w("def KS_KID_DEFAULT : String := %s" % _lstr(vals["KS_KID_DEFAULT"]))
    w("def ESTIMATE_KEY_DEFAULT : String := %s\n" % _lstr(vals["ESTIMATE_KEY_DEFAULT"]))
    w("/-- `estimate_key(method=...)`: the methods that pass `if method not in (...)` AND bind `kid = ks_kid`; the default -/")
    w("def ESTIMATE_KEY_METHODS : List String := %s" % _llist(_lstr(s) for s in vals["ESTIMATE_KEY_METHODS"]))
    w("def ESTIMATE_KEY_METHOD_DEFAULT : String := %s\n" % _lstr(vals["ESTIMATE_KEY_METHOD_DEFAULT"]))
    w("/-- `estimate_spelling(method=...)`: the methods that bind `ps = ps13s1`; the default -/")
    w("def ESTIMATE_SPELLING_METHODS : List String := %s" % _llist(_lstr(s) for s in vals["ESTIMATE_SPELLING_METHODS"]))
    w("def ESTIMATE_SPELLING_METHOD_DEFAULT : String := %s\n" % _lstr(vals["ESTIMATE_SPELLING_METHOD_DEFAULT"]))
    w("/-- the keyword parameters `**kwargs` may carry: those of `ps13s1` / `ks_kid` after the note array, in order -/")
    w("def PS13_KWARGS : List String := %s" % _llist(_lstr(s) for s in vals["PS13_KWARGS"]))
    w("def KS_KID_KWARGS : List String := %s\n" % _llist(_lstr(s) for s in vals["KS_KID_KWARGS"]))
    w("/-- `get_time_units_from_note_array`: the branches in source order: (unit set, chain of")
    w("    (field tested, onset field returned, duration field returned)) -/")
    w("def TIME_UNIT_BRANCHES : List (List String × List (String × String × String)) := %s\n" % _llist(
        "(%s, %s)" % (_llist(_lstr(s) for s in units),
                      _llist("(%s, %s, %s)" % (_lstr(f), _lstr(a), _lstr(b)) for f, a, b in chain))
        for _, units, chain in vals["TIME_UNIT_BRANCHES"]))
    w("/-- the LIVE profile matrices of key_identification.py (`build_key_profile_matrix` evaluated at import), one per")
    w("    entry of KEY_MATRIX_ARGS: every entry as the decimal its shortest repr denotes -/")
    w("def KEY_MATRICES : List (String × List (List Rat)) := [")
    mats = vals["KEY_MATRICES"]
    for k, (nm, rows) in enumerate(mats):
        w("  (%s, [" % _lstr(nm))
        for i, row in enumerate(rows):
            w("    %s%s" % (_llist(_lrat(v) for v in row), "," if i + 1 < len(rows) else ""))
        w("  ])%s" % ("," if k + 1 < len(mats) else ""))
    w("]\n")
    w("/-- the values above that could NOT be read from the source and hold their last known value instead,")
    w("    with the reason (empty on a tree the translator understands; `C17.c17_tables_extracted`) -/")
    w("def C17_PINNED : List (String × String) := %s\n" % _llist("(%s, %s)" % (_lstr(n), _lstr(r)) for n, r in pinned))
    w("end Gen")
    return "\n".join(out) + "\n"


GENERATORS = {"C17Tables.lean": gen_c17}

if __name__ == "__main__":
    print(gen_c17())
