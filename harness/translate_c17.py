"""Translator for C17 (round 2): option / name tables of the estimators' wrappers
-> lean/PartituraModel/Gen/C17Tables.lean.

* `MAX_COST` of voice_separation.py (live module value);
* `VALID_KEY_PROFILES` of globals.py (live value) and the alias tuples of `ks_kid`
  (read with `ast` from the function's source: `if key_profiles in (...): key_profiles = <MATRIX>`);
* which profile vectors each matrix of key_identification.py is built from
  (`<MATRIX> = build_key_profile_matrix(<maj>, <min>)`, module source, `ast`);
* the unit preference of `get_time_units_from_note_array` (utils/music.py, `ast`): the two unit
  sets and, per branch, the chain `if "<field>" in fields: return (<onset>, <duration>)` in source order.
Nothing is executed besides importing the modules.
"""
import ast
import inspect
import textwrap


def _lstr(s):
    return '"%s"' % s


def _llist(items):
    return "[" + ", ".join(items) + "]"


def _str_tuple(node):
    """a tuple/set/list literal of string constants (also `set((...))`)"""
    if isinstance(node, ast.Call) and isinstance(node.func, ast.Name) and node.func.id == "set" and len(node.args) == 1:
        node = node.args[0]
    if isinstance(node, (ast.Tuple, ast.List, ast.Set)) and all(
            isinstance(e, ast.Constant) and isinstance(e.value, str) for e in node.elts):
        return [e.value for e in node.elts]
    raise RuntimeError("translate_c17: expected a literal of strings, found %s" % ast.dump(node)[:80])


def _ks_kid_aliases(KI):
    tree = ast.parse(textwrap.dedent(inspect.getsource(KI.ks_kid)))
    out = []
    for node in ast.walk(tree):
        if isinstance(node, ast.If) and isinstance(node.test, ast.Compare) and len(node.test.ops) == 1 \
                and isinstance(node.test.ops[0], ast.In) and isinstance(node.test.left, ast.Name) \
                and node.test.left.id == "key_profiles":
            names = _str_tuple(node.test.comparators[0])
            if len(node.body) != 1 or not isinstance(node.body[0], ast.Assign) or not isinstance(node.body[0].value, ast.Name):
                raise RuntimeError("translate_c17: unexpected body of an alias branch of ks_kid")
            out.append((names, node.body[0].value.id))
    if len(out) != 3:
        raise RuntimeError("translate_c17: expected three alias branches in ks_kid, found %d" % len(out))
    return out


def _matrix_args(KI):
    tree = ast.parse(inspect.getsource(KI))
    out = []
    for node in tree.body:
        if isinstance(node, ast.Assign) and len(node.targets) == 1 and isinstance(node.targets[0], ast.Name) \
                and isinstance(node.value, ast.Call) and isinstance(node.value.func, ast.Name) \
                and node.value.func.id == "build_key_profile_matrix":
            args = node.value.args
            if len(args) != 2 or not all(isinstance(a, ast.Name) for a in args):
                raise RuntimeError("translate_c17: unexpected arguments of build_key_profile_matrix")
            out.append((node.targets[0].id, args[0].id, args[1].id))
    if len(out) != 3:
        raise RuntimeError("translate_c17: expected three profile matrices, found %d" % len(out))
    return out


def _ks_kid_default(KI):
    sig = inspect.signature(KI.ks_kid)
    tree = ast.parse(textwrap.dedent(inspect.getsource(KI.ks_kid)))
    fn = tree.body[0]
    names = [a.arg for a in fn.args.args]
    defaults = fn.args.defaults
    d = dict(zip(names[len(names) - len(defaults):], defaults))
    node = d["key_profiles"]
    if not isinstance(node, ast.Name):
        raise RuntimeError("translate_c17: default key_profiles of ks_kid is not a matrix name")
    assert "key_profiles" in sig.parameters
    return node.id


def _estimate_key_default(KI):
    """the literal `kwargs["key_profiles"] = "<name>"` of estimate_key"""
    tree = ast.parse(textwrap.dedent(inspect.getsource(KI.estimate_key)))
    found = []
    for node in ast.walk(tree):
        if isinstance(node, ast.Assign) and len(node.targets) == 1 and isinstance(node.targets[0], ast.Subscript) \
                and isinstance(node.targets[0].value, ast.Name) and node.targets[0].value.id == "kwargs" \
                and isinstance(node.value, ast.Constant) and isinstance(node.value.value, str):
            found.append(node.value.value)
    if len(found) != 1:
        raise RuntimeError("translate_c17: expected one default key_profiles in estimate_key, found %d" % len(found))
    return found[0]


def _chain(node):
    """`if "<f>" in fields: return (a, b)  elif ...` -> [(f, a, b), ...] in source order"""
    out = []
    while True:
        if not (isinstance(node, ast.If) and isinstance(node.test, ast.Compare) and isinstance(node.test.ops[0], ast.In)
                and isinstance(node.test.left, ast.Constant)):
            raise RuntimeError("translate_c17: unexpected test in the unit chain")
        ret = node.body[0]
        if len(node.body) != 1 or not isinstance(ret, ast.Return):
            raise RuntimeError("translate_c17: unexpected body in the unit chain")
        a, b = _str_tuple(ret.value)
        out.append((node.test.left.value, a, b))
        if not node.orelse:
            return out
        if len(node.orelse) != 1:
            raise RuntimeError("translate_c17: unexpected else in the unit chain")
        node = node.orelse[0]


def _time_units(M):
    tree = ast.parse(textwrap.dedent(inspect.getsource(M.get_time_units_from_note_array)))
    fn = tree.body[0]
    sets = {}
    top = None
    for node in fn.body:
        if isinstance(node, ast.Assign) and isinstance(node.targets[0], ast.Name) and node.targets[0].id in ("score_units", "performance_units"):
            sets[node.targets[0].id] = _str_tuple(node.value)
        if isinstance(node, ast.If) and isinstance(node.test, ast.Compare) and isinstance(node.test.left, ast.Call):
            top = node
    if top is None or set(sets) != {"score_units", "performance_units"}:
        raise RuntimeError("translate_c17: get_time_units_from_note_array has an unexpected shape")

    def which(test):
        # len(<set>.intersection(fields)) > 0
        return test.left.args[0].func.value.id

    first = which(top.test)
    if len(top.body) != 1 or len(top.orelse) != 1 or not isinstance(top.orelse[0], ast.If):
        raise RuntimeError("translate_c17: unexpected branches in get_time_units_from_note_array")
    second_if = top.orelse[0]
    second = which(second_if.test)
    if len(second_if.body) != 1 or not second_if.orelse or not isinstance(second_if.orelse[0], ast.Raise):
        raise RuntimeError("translate_c17: unexpected second branch in get_time_units_from_note_array")
    return [(first, sets[first], _chain(top.body[0])), (second, sets[second], _chain(second_if.body[0]))]


def gen_c17():
    import partitura.musicanalysis.voice_separation as VS
    import partitura.musicanalysis.key_identification as KI
    import partitura.utils.globals as G
    import partitura.utils.music as M

    out = []
    w = out.append
    w("/- GENERATED by harness/translate_c17.py from /repo (voice_separation.py, key_identification.py,")
    w("   utils/globals.py, utils/music.py).  Do not edit. -/")
    w("namespace Gen\n")
    w("/-- `MAX_COST` of voice_separation.py -/")
    w("def VOSA_MAX_COST : Int := %d\n" % int(VS.MAX_COST))
    w("/-- `VALID_KEY_PROFILES` (what `estimate_key` accepts as `key_profiles`) -/")
    w("def VALID_KEY_PROFILES : List String := %s\n" % _llist(_lstr(s) for s in G.VALID_KEY_PROFILES))
    w("/-- the alias branches of `ks_kid` in source order: (names, matrix) -/")
    w("def KS_KID_ALIASES : List (List String × String) := %s\n" % _llist(
        "(%s, %s)" % (_llist(_lstr(s) for s in names), _lstr(m)) for names, m in _ks_kid_aliases(KI)))
    w("/-- `<matrix> = build_key_profile_matrix(<major profile>, <minor profile>)` -/")
    w("def KEY_MATRIX_ARGS : List (String × String × String) := %s\n" % _llist(
        "(%s, %s, %s)" % (_lstr(a), _lstr(b), _lstr(c)) for a, b, c in _matrix_args(KI)))
    w("/-- default `key_profiles` of `ks_kid` (a matrix) and of `estimate_key` (a name) -/")
    w("def KS_KID_DEFAULT : String := %s" % _lstr(_ks_kid_default(KI)))
    w("def ESTIMATE_KEY_DEFAULT : String := %s\n" % _lstr(_estimate_key_default(KI)))
    w("/-- `get_time_units_from_note_array`: the branches in source order: (unit set, chain of")
    w("    (field tested, onset field returned, duration field returned)) -/")
    tu = _time_units(M)
    w("def TIME_UNIT_BRANCHES : List (List String × List (String × String × String)) := %s\n" % _llist(
        "(%s, %s)" % (_llist(_lstr(s) for s in units),
                      _llist("(%s, %s, %s)" % (_lstr(f), _lstr(a), _lstr(b)) for f, a, b in chain))
        for _, units, chain in tu))
    w("end Gen")
    return "\n".join(out) + "\n"


GENERATORS = {"C17Tables.lean": gen_c17}

if __name__ == "__main__":
    print(gen_c17())
