"""Writes MANIFEST.json from the per-property modules that exist (harness/props/cXX.py)."""
import importlib
import json
import os
import sys

HERE = os.path.dirname(os.path.abspath(__file__))
ROOT = os.path.dirname(HERE)
sys.path.insert(0, HERE)

ALL = ["C%02d" % i for i in range(1, 21)]


def main():
    checks, na = [], []
    claimed = open(os.path.join(HERE, "claimed.txt")).read().split()
    for pid in ALL:
        path = os.path.join(HERE, "props", pid.lower() + ".py")
        if not os.path.exists(path) or pid not in claimed:
            na.append({"property_id": pid, "reason": "check not built yet (work in progress; see DESIGN.md section 5 for the intended design)"})
            continue
        mod = importlib.import_module("props." + pid.lower())
        if getattr(mod, "NOT_CLAIMED", None):
            na.append({"property_id": pid, "reason": mod.NOT_CLAIMED})
            continue
        checks.append({
            "property_id": pid,
            "quick_cmd": "./check %s --tier quick" % pid,
            "thorough_cmd": "./check %s --tier thorough" % pid,
            "evidence_file": "evidence/%s.json" % pid,
            "replay_cmd_template": "./check %s --replay {path}" % pid,
            "engine": "lean4-model+correspondence",
            "level_claimed": {
                "category": getattr(mod, "LEVEL", "proof"),
                "text": mod.LEVEL_TEXT,
                "design_ref": "DESIGN.md section 5, %s" % pid,
            },
            "level_note": "; ".join(mod.TRUSTED + ["partial: " + p for p in getattr(mod, "PARTIAL", [])]),
            "technique": getattr(mod, "TECHNIQUE", "Lean 4 theorems over an executable model + checked model/implementation correspondence"),
        })
    man = {
        "version": 1,
        "setup_cmd": "./setup.sh",
        "hooks": {
            "guard": "CPJKU_PARTITURA_VERIF",
            "enable": "export CPJKU_PARTITURA_VERIF=1 (set by ./check; no hook commit exists: every observable is reachable from plain Python)",
            "baseline_off_cmd": "cd /repo && env -u CPJKU_PARTITURA_VERIF /venv/bin/python -m pytest -q -p no:cacheprovider --timeout=900 --continue-on-collection-errors",
            "source_commits": [],
            "add_only": True,
        },
        "engines": [{
            "name": "lean4-model+correspondence",
            "path": "lean/ (models, theorems, drivers), harness/ (translator, correspondence, oracles), check",
            "serves_properties": [c["property_id"] for c in checks],
            "kind_free_text": "machine-checked proof in Lean 4 over executable models; models tied to /repo by a translator (tables, class DAG, templates regenerated every run) and by a differential correspondence check against the real implementation; oracle search for a failing input when either breaks",
        }],
        "checks": checks,
        "not_applicable": na,
        "notes": "exit 0 = held; exit 1 + VIOLATION line = violation (with replay, or no-failing-input-found naming the broken theorem/correspondence); exit 2 = infrastructure failure. known_findings.json lists recorded findings and fixed defects.",
    }
    json.dump(man, open(os.path.join(ROOT, "MANIFEST.json"), "w"), indent=1)
    print("claimed:", [c["property_id"] for c in checks])


if __name__ == "__main__":
    main()
