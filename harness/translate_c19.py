"""Translator for C19: the literal data of the kern / MEI readers and writers -> lean/PartituraModel/Gen/C19Tables.lean.

Read from the LIVE source on every run (VERIF_REPO, default the installed partitura):

 * tables (imported objects):  importkern.KERN_NOTES / KERN_DURS, exportkern.KERN_NOTES / KERN_DURS / ACC_TO_SIGN / KEYS,
   exportmei.ALTER_TO_MEI and the entries exportmei adds to the inverse of MEI_DURS_TO_SYMBOLIC;
 * the dispatch chains of importmei.MeiParser, read off the source text with `ast`:
     meiLayerTags     the element names `_handle_layer_in_staff_in_measure` has a branch for (anything else: "Tag … not supported")
     meiLayerParents  "layer" + the names whose branch calls `_handle_layer_in_staff_in_measure` again (their children are layer items)
     meiSectionTags   the element names `_handle_section` has a branch for (anything else: "element … is not yet supported")
     meiSectionParents "section" + the names whose branch calls `_handle_section` again
     meiScoreTags     the children of <score> `fill_parts` looks at (all others are skipped)
     meiBarlines      `_handle_barline_symbols`: (value of @left/@right, "start"/"stop"/"" repeat, barline style)
     meiGraceTypes    `_handle_note`: (@grace value, grace_type) for the literal comparisons; meiGraceDefault = the else branch
     meiDefaultClef   `_handle_clef`: (sign, line, number, octave) assigned when a staffDef has no clef
     meiDefaultKey    `_handle_keysig`: (fifths, mode) assigned when no key signature is encoded
     meiMultiRestMax  `_handle_multirest`: the largest @num accepted (`if n_measures > K: raise`)
     meiStaffAttr     the attribute name read for staff crossings by the five handlers (all must agree)

When the source no longer has the expected form the affected table is emitted empty and `extractionOk := false`, so that only
the C19 table theorems stop building (Props/C19Tables.lean), never the shared translator.
"""
import ast
import inspect
import textwrap

from translate import lstr, lnat, lint, ltuple, llist


class Unexpected(Exception):
    pass


def _cls_methods():
    import partitura.io.importmei as IM

    src = textwrap.dedent(inspect.getsource(IM.MeiParser))
    cls = ast.parse(src).body[0]
    return {n.name: n for n in cls.body if isinstance(n, ast.FunctionDef)}


def _ns_name_arg(node):
    """`self._ns_name("x")` -> "x" (None otherwise)"""
    if (isinstance(node, ast.Call) and isinstance(node.func, ast.Attribute) and node.func.attr == "_ns_name"
            and len(node.args) >= 1 and isinstance(node.args[0], ast.Constant) and isinstance(node.args[0].value, str)
            and not node.keywords and len(node.args) == 1):
        return node.args[0].value
    return None


def _tag_tests(test, var):
    """the element names a test `<var>.tag == self._ns_name("x")` (or `in (..., ...)`) compares with"""
    out = []
    for n in ast.walk(test):
        if isinstance(n, ast.Compare) and len(n.ops) == 1 and isinstance(n.left, ast.Attribute) and n.left.attr == "tag" \
                and isinstance(n.left.value, ast.Name) and n.left.value.id == var:
            c = n.comparators[0]
            if isinstance(n.ops[0], ast.Eq) and _ns_name_arg(c) is not None:
                out.append(_ns_name_arg(c))
            elif isinstance(n.ops[0], ast.In) and isinstance(c, (ast.Tuple, ast.List)):
                out += [_ns_name_arg(e) for e in c.elts if _ns_name_arg(e) is not None]
    return out


def _chain(fn, var):
    """the if / elif chain over `<var>.tag` in the body of the `for` loop of `fn`: [(names, body statements)], has_else_raise"""
    loops = [n for n in ast.walk(fn) if isinstance(n, ast.For)]
    for lp in loops:
        for st in lp.body:
            if isinstance(st, ast.If) and _tag_tests(st.test, var):
                rows, node = [], st
                while True:
                    rows.append((_tag_tests(node.test, var), node.body))
                    if len(node.orelse) == 1 and isinstance(node.orelse[0], ast.If) and _tag_tests(node.orelse[0].test, var):
                        node = node.orelse[0]
                        continue
                    tail = node.orelse
                    break
                raises = any(isinstance(x, ast.Raise) for s_ in tail for x in ast.walk(s_))
                return rows, raises
    raise Unexpected("no dispatch chain on %s.tag in %s" % (var, fn.name))


def _calls(stmts, name):
    return any(isinstance(c, ast.Call) and isinstance(c.func, ast.Attribute) and c.func.attr == name
               for s_ in stmts for c in ast.walk(s_))


def _loop_var(fn):
    for n in ast.walk(fn):
        if isinstance(n, ast.For):
            t = n.target
            if isinstance(t, ast.Tuple):
                t = t.elts[-1]
            if isinstance(t, ast.Name):
                return t.id
    raise Unexpected("no loop in %s" % fn.name)


def layer_dispatch():
    m = _cls_methods()
    fn = m["_handle_layer_in_staff_in_measure"]
    rows, raises = _chain(fn, _loop_var(fn))
    if not raises:
        raise Unexpected("the layer chain no longer ends in a raise")
    tags = [t for names, _ in rows for t in names]
    parents = _dedupe(["layer"] + [t for names, body in rows for t in names if _calls(body, fn.name)])
    return tags, parents


def _dedupe(xs):
    out = []
    for x in xs:
        if x not in out:
            out.append(x)
    return out


def section_dispatch():
    m = _cls_methods()
    fn = m["_handle_section"]
    rows, raises = _chain(fn, _loop_var(fn))
    if not raises:
        raise Unexpected("the section chain no longer ends in a raise")
    tags = [t for names, _ in rows for t in names]
    parents = _dedupe(["section"] + [t for names, body in rows for t in names if _calls(body, fn.name)])
    return tags, parents


def score_tags():
    m = _cls_methods()
    fn = m["fill_parts"]
    rows, _ = _chain(fn, _loop_var(fn))
    return [t for names, _ in rows for t in names]


def barlines():
    m = _cls_methods()
    fn = m["_handle_barline_symbols"]
    out = []

    def style_of(body):
        rep, bar = "", None
        for s_ in body:
            for c in ast.walk(s_):
                if isinstance(c, ast.Call) and isinstance(c.func, ast.Attribute) and c.func.attr == "append" and c.args \
                        and isinstance(c.args[0], ast.Dict):
                    d = {k.value: v for k, v in zip(c.args[0].keys, c.args[0].values) if isinstance(k, ast.Constant)}
                    tp = d.get("type")
                    if isinstance(tp, ast.Constant):
                        tgt = c.func.value.attr if isinstance(c.func.value, ast.Attribute) else ""
                        if tgt == "repetitions":
                            rep = tp.value
                        elif tgt == "barlines":
                            bar = tp.value
        return rep, bar

    for n in ast.walk(fn):
        if isinstance(n, ast.If) and isinstance(n.test, ast.Compare) and isinstance(n.test.left, ast.Name) \
                and n.test.left.id == "barline" and isinstance(n.test.ops[0], ast.Eq) and isinstance(n.test.comparators[0], ast.Constant):
            rep, bar = style_of(n.body)
            if bar is None:
                raise Unexpected("barline branch without a style")
            out.append((n.test.comparators[0].value, rep, bar))
    if not out:
        raise Unexpected("no barline branches")
    return out


def grace_types():
    m = _cls_methods()
    fn = m["_handle_note"]
    rows, default = [], None
    for n in ast.walk(fn):
        if isinstance(n, ast.If) and isinstance(n.test, ast.Compare) and isinstance(n.test.left, ast.Name) \
                and n.test.left.id == "grace_attr" and isinstance(n.test.ops[0], ast.Eq):
            node = n
            while True:
                val = [a.value.value for a in node.body if isinstance(a, ast.Assign) and isinstance(a.value, ast.Constant)]
                rows.append((node.test.comparators[0].value, val[0]))
                if len(node.orelse) == 1 and isinstance(node.orelse[0], ast.If):
                    node = node.orelse[0]
                    continue
                dv = [a.value.value for a in node.orelse if isinstance(a, ast.Assign) and isinstance(a.value, ast.Constant)]
                default = dv[0] if dv else None
                break
            break
    if not rows or default is None:
        raise Unexpected("grace chain not found")
    return rows, default


def default_clef():
    m = _cls_methods()
    fn = m["_handle_clef"]
    for n in ast.walk(fn):
        if isinstance(n, ast.If) and n.orelse:
            vals = {}
            for a in n.orelse:
                if isinstance(a, ast.Assign) and isinstance(a.targets[0], ast.Name) and isinstance(a.value, ast.Constant):
                    vals[a.targets[0].id] = a.value.value
            if set(vals) >= {"sign", "line", "number", "octave"}:
                return vals["sign"], int(vals["line"]), int(vals["number"]), int(vals["octave"])
    raise Unexpected("default clef not found")


def default_key():
    m = _cls_methods()
    fn = m["_handle_keysig"]
    for n in ast.walk(fn):
        if isinstance(n, ast.If) and n.orelse:
            vals = {}
            for a in n.orelse:
                if isinstance(a, ast.Assign) and isinstance(a.targets[0], ast.Name) and isinstance(a.value, ast.Constant):
                    vals[a.targets[0].id] = a.value.value
            if set(vals) >= {"fifths", "mode"}:
                return int(vals["fifths"]), vals["mode"]
    raise Unexpected("default key not found")


def multirest_max():
    m = _cls_methods()
    fn = m["_handle_multirest"]
    for n in ast.walk(fn):
        if isinstance(n, ast.If) and isinstance(n.test, ast.Compare) and isinstance(n.test.left, ast.Name) \
                and n.test.left.id == "n_measures" and isinstance(n.test.ops[0], ast.Gt) \
                and isinstance(n.test.comparators[0], ast.Constant) and any(isinstance(x, ast.Raise) for x in n.body):
            return int(n.test.comparators[0].value)
    raise Unexpected("multiRest limit not found")


def staff_attr():
    """the attribute the handlers read for staff crossings: `<x>_el.get("staff")` assigned to `different_staff` (or passed to a helper)"""
    m = _cls_methods()
    names = set()
    for fname in ("_handle_note", "_handle_rest", "_handle_mrest", "_handle_multirest", "_handle_chord"):
        fn = m[fname]
        found = [c.args[0].value for c in ast.walk(fn)
                 if isinstance(c, ast.Call) and isinstance(c.func, ast.Attribute) and c.func.attr == "get" and c.args
                 and isinstance(c.args[0], ast.Constant) and c.args[0].value == "staff"]
        # the helper form: the handler calls a method whose body holds the `.get("staff")`
        if not found:
            for c in ast.walk(fn):
                if isinstance(c, ast.Call) and isinstance(c.func, ast.Attribute) and c.func.attr in m and c.func.attr != fname:
                    found += [k.args[0].value for k in ast.walk(m[c.func.attr])
                              if isinstance(k, ast.Call) and isinstance(k.func, ast.Attribute) and k.func.attr == "get" and k.args
                              and isinstance(k.args[0], ast.Constant) and k.args[0].value == "staff"]
        if not found:
            raise Unexpected("%s reads no @staff" % fname)
        names.update(found)
    if len(names) != 1:
        raise Unexpected("handlers disagree on the staff attribute: %r" % names)
    return names.pop()


def gen_c19():
    import partitura.io.importkern as IK
    import partitura.io.exportkern as EK
    import partitura.io.exportmei as EM
    from partitura.utils.music import MEI_DURS_TO_SYMBOLIC

    out = ["/- GENERATED by harness/translate_c19.py from the live source (partitura/io/importkern.py, exportkern.py, importmei.py,",
           "   exportmei.py).  Do not edit. -/",
           "namespace Gen.C19\n"]
    w = out.append
    ok = True

    def chars(s):
        return "[" + ", ".join("'%s'" % (c if c not in "'\\" else "\\" + c) for c in s) + "]"

    # ---- kern tables
    w("/-- importkern.KERN_NOTES: letter -> (step, octave) -/")
    w("def kernNotes : List (Char × String × Int) := %s\n" % llist(
        [ltuple("'%s'" % k, lstr(v[0]), lint(v[1])) for k, v in IK.KERN_NOTES.items() if len(k) == 1], 4))
    w("def kernNotesAllSingle : Bool := %s\n" % ("true" if all(len(k) == 1 for k in IK.KERN_NOTES) else "false"))
    w("/-- importkern.KERN_DURS: reciprocal -> symbolic type -/")
    w("def kernDurs : List (String × String) := %s\n" % llist(
        [ltuple(lstr(k), lstr(v["type"])) for k, v in IK.KERN_DURS.items()], 4))
    w("/-- exportkern.KERN_DURS: symbolic type -> reciprocal -/")
    w("def kernDursW : List (String × List Char) := %s\n" % llist(
        [ltuple(lstr(k), chars(v)) for k, v in EK.KERN_DURS.items()], 3))
    w("/-- exportkern.ACC_TO_SIGN -/")
    w("def accToSign : List (Int × List Char) := %s\n" % llist(
        [ltuple(lint(k), chars(v)) for k, v in EK.ACC_TO_SIGN.items()], 5))
    steps = "CDEFGAB"
    try:
        rows = [ltuple(lstr(st), "'%s'" % EK.KERN_NOTES[(st, 3)], "'%s'" % EK.KERN_NOTES[(st, 4)]) for st in steps]
        if sorted(EK.KERN_NOTES) != sorted((st, o) for st in steps for o in (3, 4)):
            raise KeyError("other keys")
    except KeyError:
        rows, ok = [], False
    w("/-- exportkern.KERN_NOTES: step -> (letter of octave 3, letter of octave 4) -/")
    w("def stepLetters : List (String × Char × Char) := %s\n" % llist(rows, 4))
    w("/-- exportkern.KEYS -/")
    w("def keyLetters : List Char := %s\n" % chars("".join(EK.KEYS)))
    # ---- MEI writer tables
    w("/-- exportmei.ALTER_TO_MEI -/")
    w("def alterToMei : List (Int × String) := %s\n" % llist([ltuple(lint(k), lstr(v)) for k, v in EM.ALTER_TO_MEI.items()], 5))
    inv = {v: k for k, v in MEI_DURS_TO_SYMBOLIC.items()}
    extra = [(k, v) for k, v in EM.SYMBOLIC_TYPES_TO_MEI_DURS.items() if inv.get(k) != v]
    w("/-- exportmei.SYMBOLIC_TYPES_TO_MEI_DURS: the entries that are not the inverse of MEI_DURS_TO_SYMBOLIC -/")
    w("def meiDursExtra : List (String × String) := %s\n" % llist([ltuple(lstr(k), lstr(v)) for k, v in extra], 4))
    # ---- MEI reader dispatch
    def guarded(f, empty):
        nonlocal ok
        try:
            return f()
        except Exception as e:  # Unexpected, KeyError, ...
            ok = False
            out.append("-- extraction failed: %s" % str(e).replace("\n", " ")[:160])
            return empty

    lt, lp = guarded(layer_dispatch, ([], []))
    st_, sp = guarded(section_dispatch, ([], []))
    w("def meiLayerTags : List String := %s\n" % llist([lstr(t) for t in lt], 9))
    w("def meiLayerParents : List String := %s\n" % llist([lstr(t) for t in lp], 9))
    w("def meiSectionTags : List String := %s\n" % llist([lstr(t) for t in st_], 9))
    w("def meiSectionParents : List String := %s\n" % llist([lstr(t) for t in sp], 9))
    w("def meiScoreTags : List String := %s\n" % llist([lstr(t) for t in guarded(score_tags, [])], 9))
    w("/-- (value of @left / @right, repeat mark \"start\" / \"stop\" / \"\", barline style) -/")
    w("def meiBarlines : List (String × String × String) := %s\n" % llist(
        [ltuple(lstr(a), lstr(b), lstr(c)) for a, b, c in guarded(barlines, [])], 3))
    gt, gd = guarded(grace_types, ([], ""))
    w("def meiGraceTypes : List (String × String) := %s\n" % llist([ltuple(lstr(a), lstr(b)) for a, b in gt], 4))
    w("def meiGraceDefault : String := %s\n" % lstr(gd))
    dc = guarded(default_clef, ("", 0, 0, 0))
    w("/-- (number, sign, line, octave change) of the clef a staffDef without clef gets -/")
    w("def meiDefaultClef : Nat × String × Nat × Int := %s\n" % ltuple(lnat(dc[2]), lstr(dc[0]), lnat(dc[1]), lint(dc[3])))
    dk = guarded(default_key, (0, ""))
    w("def meiDefaultKey : Int × Option String := %s\n" % ltuple(lint(dk[0]), "some " + lstr(dk[1])))
    w("def meiMultiRestMax : Nat := %s\n" % lnat(guarded(multirest_max, 0)))
    w("def meiStaffAttr : String := %s\n" % lstr(guarded(staff_attr, "")))
    w("def extractionOk : Bool := %s\n" % ("true" if ok else "false"))
    w("end Gen.C19")
    return "\n".join(out) + "\n"


GENERATORS = {"C19Tables.lean": gen_c19}

if __name__ == "__main__":
    print(gen_c19())
