"""Translator for C17: constant tables of partitura/musicanalysis/pitch_spelling.py
-> lean/PartituraModel/Gen/Ps13Tables.lean.

Module-level tables (STEPS, UND_CHROMA) are read from the live module.  The two 12-entry tables of
compute_morph_array are found by the ROLE they play in the function's source (`ast`, nothing is executed):

* `PS13_INIT_MORPH` is the table subscripted in the assignment of `m0` (`m0 = <T>[c0]`, Line 4 of ps13);
* `PS13_MORPH_INT` is the table subscripted in the assignments of `tonic_morph_for_tonic_chroma` and
  `morph_for_tonic_chroma` (Lines 6-8 and 13-15; they must be one and the same table, the model has one);

and a table name is resolved through local aliases (`x = y`), local literals (`x = np.array([...], dtype=int)`,
a list or a tuple) and module-level constants (live value).  Moving a literal to a module constant, renaming it
or writing it as a tuple therefore changes nothing, while MERGING the two tables (or swapping them) changes the
generated file and with it every theorem stated over it.  The window sizes are the defaults of ps13s1's signature.

If the source cannot be read by role (a table computed at run time, say) the two tables are read off the BEHAVIOUR of the live
function instead (`_probe_tables`: 24 calls on one- and two-note inputs, then validated on all 12 x 12 x 12 triples), and when
both readings exist they must describe the same function - so the generated tables are what the code does, however it is written.

The generator NEVER raises (the shared translator must keep working for every property): a table that cannot be
extracted is emitted with its LAST KNOWN value (`PINNED` below, the values of the tree the model was written
against), its name and the reason are listed in `PS13_PINNED`, and `C17.ps13_tables_extracted`
(Props/C17Tables.lean: `PS13_PINNED = []`) then no longer builds - a named broken obligation - while the
driver keeps building, so the correspondence and the oracle still run against the pinned model.
"""
import ast
import inspect
import textwrap

# the last known tables (partitura at the commit the model was written against)
PINNED = {
    "STEPS": ["A", "B", "C", "D", "E", "F", "G"],
    "UND_CHROMA": [0, 2, 3, 5, 7, 8, 10],
    "INIT_MORPH": [0, 1, 1, 2, 2, 3, 4, 4, 5, 5, 6, 6],
    "MORPH_INT": [0, 1, 1, 2, 2, 3, 3, 4, 5, 5, 6, 6],
    "K_PRE": 10,
    "K_POST": 40,
}


class Unextractable(Exception):
    pass


def _int_table(values, n, what):
    try:
        out = [int(v) for v in values]
    except Exception as e:
        raise Unextractable("%s is not a table of integers (%s)" % (what, type(e).__name__))
    if any(float(a) != float(b) for a, b in zip(out, values)):
        raise Unextractable("%s holds non-integers" % what)
    if len(out) != n:
        raise Unextractable("%s has %d entries, the model indexes %d" % (what, len(out), n))
    return out


class _Fn:
    """single-target assignments of a function's source and the resolution of table names"""

    def __init__(self, module, fn):
        self.module = module
        self.tree = ast.parse(textwrap.dedent(inspect.getsource(fn)))
        self.assign = {}
        for node in ast.walk(self.tree):
            if isinstance(node, ast.Assign) and len(node.targets) == 1 and isinstance(node.targets[0], ast.Name):
                self.assign.setdefault(node.targets[0].id, []).append(node.value)

    def value_nodes(self, name):
        return self.assign.get(name, [])

    def resolve(self, name, depth=0):
        """the 12 integers a table name stands for"""
        if depth > 8:
            raise Unextractable("alias chain of %s too long" % name)
        nodes = self.value_nodes(name)
        if len(nodes) > 1:
            raise Unextractable("%s is assigned %d times" % (name, len(nodes)))
        if len(nodes) == 1:
            node = nodes[0]
            if isinstance(node, ast.Name):
                return self.resolve(node.id, depth + 1)
            if isinstance(node, ast.Call) and node.args and not isinstance(node.args[0], ast.Name):
                node = node.args[0]          # np.array(<literal>, dtype=int) / np.asarray / tuple(...)
            elif isinstance(node, ast.Call) and node.args and isinstance(node.args[0], ast.Name):
                return self.resolve(node.args[0].id, depth + 1)
            try:
                lit = ast.literal_eval(node)
            except Exception:
                raise Unextractable("%s is not a literal table (%s)" % (name, type(node).__name__))
            return _int_table(lit, 12, name)
        if not hasattr(self.module, name):
            raise Unextractable("%s is neither a local literal nor a module constant" % name)
        return _int_table(list(getattr(self.module, name)), 12, name)

    def subscripted_in(self, target):
        """names X occurring as `X[...]` in the value assigned to `target`"""
        out = []
        for v in self.value_nodes(target):
            for node in ast.walk(v):
                if isinstance(node, ast.Subscript) and isinstance(node.value, ast.Name):
                    out.append(node.value.id)
        return out


def _morph_tables(PS):
    """(init_morph, morph_int) by role; raises Unextractable with the reason"""
    f = _Fn(PS, PS.compute_morph_array)
    # ---- Line 4: m0 = <T>[c0]
    names = f.subscripted_in("m0")
    if len(f.value_nodes("m0")) != 1 or len(names) != 1:
        # not the shape `m0 = <T>[c0]`: the historical name, if it still exists
        names = ["init_morph"]
    init = f.resolve(names[0])
    # ---- Lines 6-8 / 13-15: the table of morphetic intervals, wherever it is subscripted
    cands = []
    for target in ("tonic_morph_for_tonic_chroma", "morph_for_tonic_chroma"):
        for nm in f.subscripted_in(target):
            try:
                cands.append((target, nm, f.resolve(nm)))
            except Unextractable:
                continue            # `chroma_array[j]` and the like: not a 12-entry constant table
    if not cands:
        cands = [("morph_int", "morph_int", f.resolve("morph_int"))]
    tables = set(tuple(c[2]) for c in cands)
    if len(tables) != 1:
        raise Unextractable("Lines 6-8 and 13-15 use different interval tables (%s): the model has one"
                            % ", ".join(sorted(set(c[1] for c in cands))))
    targets = set(c[0] for c in cands)
    if targets not in ({"morph_int"}, {"tonic_morph_for_tonic_chroma", "morph_for_tonic_chroma"}):
        raise Unextractable("the interval table is subscripted only in %s" % sorted(targets))
    return init, list(cands[0][2])


def _canon(mi):
    """the table of morphetic intervals up to what compute_morph_array can observe of it: only differences of its entries
    modulo 7 enter the result, so the representative with entry 0 equal to 0 and entries in 0..6 is taken"""
    return [(v - mi[0]) % 7 for v in mi]


def _probe_tables(PS):
    """(init_morph, morph_int) read off the BEHAVIOUR of the live compute_morph_array, and validated on its whole finite
    domain: with a context vector that counts only the tonic chroma `ct`, the second of two notes (chromas c0, cj) receives
    morph (morph_int[cj - ct] - morph_int[c0 - ct] + init_morph[c0]) mod 7.  The first note alone gives init_morph; c0 = ct = 0
    gives morph_int (canonical representative); all 12 x 12 x 12 triples must then agree, else the function is not of the
    two-table form the model has."""
    import numpy as np

    def second(c0, cj, ct):
        cva = np.zeros((2, 12), dtype=int)
        cva[:, ct] = 1
        return int(PS.compute_morph_array(np.array([c0, cj]), cva)[1])

    init = [int(PS.compute_morph_array(np.array([c]), np.ones((1, 12), dtype=int))[0]) for c in range(12)]
    mi = [(second(0, k, 0) - init[0]) % 7 for k in range(12)]
    for c0 in range(12):
        for cj in range(12):
            for ct in range(12):
                want = (mi[(cj - ct) % 12] - mi[(c0 - ct) % 12] + init[c0]) % 7
                if second(c0, cj, ct) != want:
                    raise Unextractable("compute_morph_array(%d, %d; tonic %d) is not of the two-table form" % (c0, cj, ct))
    return _int_table(init, 12, "probed init_morph"), _int_table(mi, 12, "probed morph_int")


def _morph_tables_checked(PS, notes):
    """the tables by role in the source; if the source cannot be read that way, the tables probed from the behaviour (a table
    computed at run time, say); if both are available they must describe the same function"""
    try:
        by_role = _morph_tables(PS)
    except Exception as e:
        by_role, why = None, "%s: %s" % (type(e).__name__, str(e)[:120])
    try:
        probed = _probe_tables(PS)
    except Exception as e:
        probed, why_p = None, "%s: %s" % (type(e).__name__, str(e)[:120])
    if by_role is None and probed is None:
        raise Unextractable("source: %s; behaviour: %s" % (why, why_p))
    if by_role is None:
        return probed
    if probed is not None and ([v % 7 for v in by_role[0]], _canon(by_role[1])) != ([v % 7 for v in probed[0]], _canon(probed[1])):
        notes.append(("MORPH_TABLES", "the tables read from the source and the behaviour of compute_morph_array disagree"))
    return by_role


def extract():
    """({name: value}, [(name, reason)]): every table, the pinned value where extraction failed"""
    vals = dict(PINNED)
    pinned = []

    def attempt(names, fn):
        try:
            got = fn()
            for nm, v in zip(names, got):
                vals[nm] = v
        except Exception as e:      # never let a source change take the shared translator down
            for nm in names:
                pinned.append((nm, "%s: %s" % (type(e).__name__, str(e)[:160])))

    try:
        import partitura.musicanalysis.pitch_spelling as PS
    except Exception as e:
        return vals, [(nm, "import failed: %s" % type(e).__name__) for nm in sorted(PINNED)]

    def steps():
        s = [str(x) for x in PS.STEPS]
        if len(s) != 7 or any((not x) or any(ord(ch) < 33 or ord(ch) > 126 or ch in '"\\' for ch in x) for x in s):
            raise Unextractable("STEPS is not seven plain names")
        return [s]

    attempt(["STEPS"], steps)
    attempt(["UND_CHROMA"], lambda: [_int_table(list(PS.UND_CHROMA), 7, "UND_CHROMA")])
    attempt(["INIT_MORPH", "MORPH_INT"], lambda: _morph_tables_checked(PS, pinned))

    def windows():
        sig = inspect.signature(PS.ps13s1)
        a, b = sig.parameters["K_pre"].default, sig.parameters["K_post"].default
        if not (isinstance(a, int) and isinstance(b, int) and a >= 0 and b >= 0):
            raise Unextractable("K_pre / K_post defaults are not natural numbers")
        return [int(a), int(b)]

    attempt(["K_PRE", "K_POST"], windows)
    return vals, pinned


def _lstr(s):
    return '"%s"' % str(s).replace("\\", "\\\\").replace('"', '\\"').replace("\n", " ")


def gen_ps13():
    vals, pinned = extract()
    out = []
    w = out.append
    w("/- GENERATED by harness/translate_ps13.py from /repo (partitura/musicanalysis/pitch_spelling.py).")
    w("   Do not edit. -/")
    w("namespace Gen\n")
    w("/-- `STEPS`: step name of each morph -/")
    w("def PS13_STEPS : List String := [%s]\n" % ", ".join(_lstr(s) for s in vals["STEPS"]))
    w("/-- `UND_CHROMA`: undisplaced chroma of each morph -/")
    w("def PS13_UND_CHROMA : List Int := [%s]\n" % ", ".join("%d" % v for v in vals["UND_CHROMA"]))
    w("/-- the table `m0` is read from (`init_morph`, Line 4 of compute_morph_array) -/")
    w("def PS13_INIT_MORPH : List Int := [%s]\n" % ", ".join("%d" % v for v in vals["INIT_MORPH"]))
    w("/-- the table of morphetic intervals (`morph_int`, Lines 6-8 and 13-15 of compute_morph_array) -/")
    w("def PS13_MORPH_INT : List Int := [%s]\n" % ", ".join("%d" % v for v in vals["MORPH_INT"]))
    w("/-- default `K_pre`, `K_post` of ps13s1 -/")
    w("def PS13_K_PRE : Nat := %d" % vals["K_PRE"])
    w("def PS13_K_POST : Nat := %d\n" % vals["K_POST"])
    w("/-- the tables above that could NOT be read from the source and hold their last known value instead,")
    w("    with the reason (empty on a tree the translator understands; `C17.ps13_tables_extracted`) -/")
    w("def PS13_PINNED : List (String × String) := [%s]\n" % ", ".join(
        "(%s, %s)" % (_lstr(n), _lstr(r)) for n, r in pinned))
    w("end Gen")
    return "\n".join(out) + "\n"


if __name__ == "__main__":
    print(gen_ps13())
