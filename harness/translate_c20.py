"""Translator for C20: the literal data and the argument-dispatch tables of the read-only entry points
-> lean/PartituraModel/Gen/C20Tables.lean (regenerated from the LIVE source on every run).

  scoreLike / performanceLike   members of the typing unions `partitura.score.ScoreLike` / `performance.PerformanceLike`
  iterPartsSeqTypes             the tuple in `isinstance(partlist, (list, tuple, set))` of `score.iter_parts`
  sanitizeDefault               the default of every `.get("track", d)` in `Performance.sanitize_track_numbers`
  numTracksDefault              … in `Performance.num_tracks`
  exportTrackDefault            … in `save_performance_midi`
  ensureUniqueDefault           default value of `Performance.__init__(ensure_unique_tracks=…)`
  perfExportDispatch            the if/elif chain at the head of `save_performance_midi`:
                                [(class tested, what the iterated variable is bound to)]
                                binding tokens: attr:<name> | singleton | self | self-if-all:<cls> | ctor | raise
  perfCtorDispatch              the same for `Performance.__init__` (binding of `self.performedparts`): list-self = list(x)
  transposeBranches             the if/elif chain of `utils.music.transpose` that selects the parts to rewrite:
                                [(class tested, copy.parts | [copy] | [] | arg.parts | [arg] | iter:arg | iter:copy)]
  transposeCopies               `transpose` deep-copies its argument before the chain (copy.deepcopy(<param>))
  scoreMidiDispatch             the if/elif chain at the head of `save_score_midi` (binding of `parts`)
  scoreMidiUses / getPpqUses    how `parts` is used afterwards: every use must be `iter_parts(parts)` or `get_ppq(parts)`
  xmlHead / xmlUses             the head of `save_musicxml` (`if not isinstance(x, Score): x = Score(partlist=x)`) and the
                                later uses of the (re)bound variable (for-iter | attr:<name>)
  scoreCtorParts                `self.parts = list(iter_parts(partlist))` of `Score.__init__` -> "list-iter_parts:arg"
  scoreCtorStructure            the chain that binds `self.part_structure`
  notearrayDispatch             the if/elif chain of `ensure_notearray`: (class tested, what is RETURNED):
                                array | part:self | list:attr:<name> | method:note_array | list:self-if-all:<cls> | raise
  scoreProtocol / performanceProtocol   the bodies of __getitem__ / __setitem__ / __iter__ / __len__ of Score / Performance:
                                getitem:<attr> | setitem:<attr> | iter:<attr> | len:<attr> (all must delegate to ONE list)
  sliceSteps                    `slice_notearray_by_time`: how the result is bound in each branch and which arrays are written to
                                afterwards (see _slice_steps)

A shape that is not recognised is emitted as the token "?" (and listed in `notes`): the theorems that interpret the tables
(`Props/C20Gen.lean`) then stop building, nothing else does.
"""
import ast
import inspect
import textwrap
import typing


def _lstr(s):
    return '"' + s.replace("\\", "\\\\").replace('"', '\\"') + '"'


def _func_ast(fn):
    src = textwrap.dedent(inspect.getsource(inspect.unwrap(fn)))
    return ast.parse(src).body[0]


def _isinstance_test(test, var):
    """isinstance(<var>, C) -> 'C' ; isinstance(<var>, (A, B)) -> 'A|B' ; not isinstance(...) -> 'not C' ; else None"""
    neg = False
    if isinstance(test, ast.UnaryOp) and isinstance(test.op, ast.Not):
        neg, test = True, test.operand
    if (isinstance(test, ast.Call) and isinstance(test.func, ast.Name) and test.func.id == "isinstance"
            and len(test.args) == 2 and isinstance(test.args[0], ast.Name) and test.args[0].id == var):
        c = test.args[1]
        names = [c] if not isinstance(c, ast.Tuple) else list(c.elts)
        out = []
        for n_ in names:
            if isinstance(n_, ast.Name):
                out.append(n_.id)
            elif isinstance(n_, ast.Attribute):
                out.append(n_.attr)
            else:
                return None
        return ("not " if neg else "") + "|".join(sorted(out))   # (the order inside a tuple of classes means nothing)
    return None


def _chain(stmt, var):
    """flatten an if / elif / else statement on isinstance(var, …) -> [(test token, body)]"""
    out = []
    while True:
        t = _isinstance_test(stmt.test, var)
        out.append((t or "?", stmt.body))
        if len(stmt.orelse) == 1 and isinstance(stmt.orelse[0], ast.If):
            stmt = stmt.orelse[0]
            continue
        if stmt.orelse:
            out.append(("else", stmt.orelse))
        return out


def _all_isinstance_guard(node):
    """`if not all(isinstance(pp, C) for pp in x)` / `all([...])` -> 'C' (the test of a guard that raises)"""
    t = node.test
    if isinstance(t, ast.UnaryOp) and isinstance(t.op, ast.Not):
        t = t.operand
        if isinstance(t, ast.Call) and isinstance(t.func, ast.Name) and t.func.id == "all" and t.args:
            g = t.args[0]
            if isinstance(g, (ast.GeneratorExp, ast.ListComp)):
                e = g.elt
                if (isinstance(e, ast.Call) and isinstance(e.func, ast.Name) and e.func.id == "isinstance"
                        and isinstance(e.args[1], ast.Name)):
                    return e.args[1].id
    return None


def _bind_token(body, var, is_target):
    """what a branch binds the variable of interest to"""
    guard = None
    listed = False
    for st in body:
        if isinstance(st, ast.If) and _all_isinstance_guard(st) and any(isinstance(x, ast.Raise) for x in st.body):
            guard = _all_isinstance_guard(st)
            continue
        # `x = list(x)`: the variable is rebound to a fresh list of its own items (materialising a one-shot iterable
        # before the type check, fix F-C14-6); a later `target = x` then binds that list: the token `list-self`
        if (isinstance(st, ast.Assign) and len(st.targets) == 1 and isinstance(st.targets[0], ast.Name) and st.targets[0].id == var
                and isinstance(st.value, ast.Call) and isinstance(st.value.func, ast.Name) and st.value.func.id == "list"
                and len(st.value.args) == 1 and not st.value.keywords and isinstance(st.value.args[0], ast.Name) and st.value.args[0].id == var):
            listed = True
            continue
        if isinstance(st, ast.Raise):
            return "raise"
        if isinstance(st, ast.Assign) and len(st.targets) == 1 and is_target(st.targets[0]):
            v = st.value
            if isinstance(v, ast.Attribute) and isinstance(v.value, ast.Name) and v.value.id == var:
                tok = "attr:" + v.attr
            elif isinstance(v, ast.List) and len(v.elts) == 1 and isinstance(v.elts[0], ast.Name) and v.elts[0].id == var:
                tok = "singleton"
            elif isinstance(v, ast.Name) and v.id == var:
                tok = "list-self" if listed else "self"
            elif (isinstance(v, ast.Call) and isinstance(v.func, ast.Name) and v.func.id == "list" and len(v.args) == 1
                  and isinstance(v.args[0], ast.Name) and v.args[0].id == var):
                tok = "list-self"
            elif isinstance(v, ast.Call) and isinstance(v.func, ast.Name) and v.func.id == "Performance":
                tok = "ctor"
            else:
                return "?"
            return tok + ("-if-all:" + guard if guard else "")
        if isinstance(st, (ast.Expr, ast.Pass)):
            continue
        return "?"
    return "?"


def _get_defaults(fn_node, key="track"):
    """the defaults d of every `<x>.get("track", d)` call in a function"""
    out = []
    for n_ in ast.walk(fn_node):
        if (isinstance(n_, ast.Call) and isinstance(n_.func, ast.Attribute) and n_.func.attr == "get" and len(n_.args) == 2
                and isinstance(n_.args[0], ast.Constant) and n_.args[0].value == key):
            try:
                out.append(int(ast.literal_eval(n_.args[1])))
            except Exception:
                out.append(None)
    return out


def _union_members(alias):
    out = []
    for a in typing.get_args(alias):
        if typing.get_origin(a) in (list, typing.List):
            inner = typing.get_args(a)[0]
            out.append("List[%s]" % "|".join(x.__name__ for x in (typing.get_args(inner) or (inner,))))
        else:
            out.append(getattr(a, "__name__", repr(a)))
    return out


def extract():
    notes = []
    v = {"scoreLike": [], "performanceLike": [], "seqTypes": [], "sanitizeDefault": None, "numTracksDefault": None,
         "exportDefault": None, "ensureDefault": None, "perfExport": [], "perfCtor": [], "transposeBranches": [],
         "transposeCopies": False, "scoreMidi": [], "scoreMidiUses": [], "getPpqUses": [], "xmlHead": [],
         "xmlUses": [], "scoreCtorParts": "?", "scoreCtorStructure": [], "notearray": [], "sliceBind": [], "sliceWrites": [], "scoreProtocol": [], "performanceProtocol": [],
         "scoreProtocolExtra": [], "performanceProtocolExtra": []}
    try:
        import partitura.score as S
        import partitura.performance as P
        import partitura.utils.music as M
        from partitura.io import exportmidi
    except Exception as e:  # pragma: no cover
        return v, ["partitura not importable (%s: %s)" % (type(e).__name__, e)]

    def guarded(label, f):
        try:
            f()
        except Exception as e:
            notes.append("%s unreadable (%s: %s)" % (label, type(e).__name__, e))

    def unions():
        v["scoreLike"] = _union_members(S.ScoreLike)
        v["performanceLike"] = _union_members(P.PerformanceLike)

    def seqtypes():
        f = _func_ast(S.iter_parts)
        for n_ in ast.walk(f):
            if isinstance(n_, ast.If):
                t = _isinstance_test(n_.test, f.args.args[0].arg)
                if t and t.startswith("not "):
                    v["seqTypes"] = t[4:].split("|")
                    return
        notes.append("iter_parts: no `if not isinstance(partlist, (…))` found")

    def single_default(fn, slot, label):
        ds = _get_defaults(_func_ast(fn))
        if not ds or None in ds or len(set(ds)) != 1:
            notes.append("%s: the .get(\"track\", d) defaults are %r" % (label, ds))
        else:
            v[slot] = ds[0]

    def ensure_default():
        sig = inspect.signature(P.Performance.__init__)
        d = sig.parameters["ensure_unique_tracks"].default
        if isinstance(d, bool):
            v["ensureDefault"] = d
        else:
            notes.append("Performance.__init__: ensure_unique_tracks default is %r" % (d,))

    def perf_export():
        f = _func_ast(exportmidi.save_performance_midi)
        var = f.args.args[0].arg
        # the variable the part loop iterates over
        loop_var = None
        for st in f.body:
            if isinstance(st, ast.For) and isinstance(st.iter, ast.Name):
                loop_var = st.iter.id
                break
        head = [st for st in f.body if isinstance(st, ast.If) and _isinstance_test(st.test, var) is not None]
        if loop_var is None or len(head) != 1:
            notes.append("save_performance_midi: dispatch not found (loop over %r, %d isinstance statements)" % (loop_var, len(head)))
            v["perfExport"] = [("?", "?")]
            return
        is_t = lambda t: isinstance(t, ast.Name) and t.id == loop_var
        v["perfExport"] = [(t, _bind_token(b, var, is_t)) for t, b in _chain(head[0], var)]
        # anything between the dispatch and the loop that rebinds the loop variable changes the meaning of the table
        i0, i1 = f.body.index(head[0]), [i for i, st in enumerate(f.body) if isinstance(st, ast.For)][0]
        for st in f.body[i0 + 1:i1]:
            if isinstance(st, ast.Assign) and any(is_t(t) for t in st.targets):
                v["perfExport"].append(("after", _bind_token([st], var, is_t)))

    def perf_ctor():
        f = _func_ast(P.Performance.__init__)
        var = f.args.args[1].arg
        head = [st for st in f.body if isinstance(st, ast.If) and _isinstance_test(st.test, var) is not None]
        if len(head) != 1:
            notes.append("Performance.__init__: dispatch not found")
            v["perfCtor"] = [("?", "?")]
            return
        is_t = lambda t: isinstance(t, ast.Attribute) and t.attr == "performedparts"
        v["perfCtor"] = [(t, _bind_token(b, var, is_t)) for t, b in _chain(head[0], var)]

    def transpose():
        f = _func_ast(M.transpose)
        var = f.args.args[0].arg
        copy_var = None
        for st in f.body:
            if (isinstance(st, ast.Assign) and isinstance(st.value, ast.Call) and isinstance(st.value.func, ast.Attribute)
                    and st.value.func.attr == "deepcopy" and len(st.value.args) == 1
                    and isinstance(st.value.args[0], ast.Name) and st.value.args[0].id == var
                    and isinstance(st.targets[0], ast.Name)):
                copy_var = st.targets[0].id
        v["transposeCopies"] = copy_var is not None
        loop_var = None
        for st in f.body:
            if isinstance(st, ast.For) and isinstance(st.iter, ast.Name):
                loop_var = st.iter.id
        head = [st for st in f.body if isinstance(st, ast.If) and
                (_isinstance_test(st.test, copy_var or "?") is not None or _isinstance_test(st.test, var) is not None)]
        if loop_var is None or len(head) != 1:
            notes.append("transpose: branch table not found")
            v["transposeBranches"] = [("?", "?")]
            return
        tested = copy_var if _isinstance_test(head[0].test, copy_var or "?") is not None else var

        def rhs(body):
            for st in body:
                if isinstance(st, ast.Assign) and isinstance(st.targets[0], ast.Name) and st.targets[0].id == loop_var:
                    x = st.value
                    who = lambda n_: "copy" if n_ == copy_var else ("arg" if n_ == var else None)
                    if isinstance(x, ast.Attribute) and isinstance(x.value, ast.Name) and who(x.value.id) and x.attr == "parts":
                        return who(x.value.id) + ".parts"
                    if isinstance(x, ast.List) and len(x.elts) == 1 and isinstance(x.elts[0], ast.Name) and who(x.elts[0].id):
                        return "[" + who(x.elts[0].id) + "]"
                    if isinstance(x, ast.List) and not x.elts:
                        return "[]"
                    if isinstance(x, ast.Call):   # list(s.iter_parts(<who>)) / list(iter_parts(<who>))
                        inner = x.args[0] if (isinstance(x.func, ast.Name) and x.func.id == "list" and x.args) else x
                        if isinstance(inner, ast.Call) and inner.args and isinstance(inner.args[0], ast.Name) and who(inner.args[0].id):
                            fn_ = inner.func
                            nm = fn_.attr if isinstance(fn_, ast.Attribute) else getattr(fn_, "id", "")
                            if nm == "iter_parts":
                                return "iter:" + who(inner.args[0].id)
                    return "?"
            return "?"

        v["transposeBranches"] = [((t or "?") + ("" if tested == copy_var or t == "else" else "@arg"), rhs(b))
                                  for t, b in _chain(head[0], tested)]


    def _uses(fnode, name, skip=()):
        """how the variable `name` is READ in a function body (statements in `skip` excluded): a token per occurrence"""
        parents = {}
        for st in fnode.body:
            if st in skip:
                continue
            for n_ in ast.walk(st):
                for c in ast.iter_child_nodes(n_):
                    parents[c] = n_
        out = []
        for n_, par in parents.items():
            if isinstance(n_, ast.Name) and n_.id == name and isinstance(n_.ctx, ast.Load):
                if isinstance(par, ast.Call) and n_ in par.args:
                    fn_ = par.func
                    out.append(fn_.attr if isinstance(fn_, ast.Attribute) else getattr(fn_, "id", "?"))
                elif isinstance(par, ast.For) and par.iter is n_:
                    out.append("for-iter")
                elif isinstance(par, ast.comprehension) and par.iter is n_:
                    out.append("for-iter")
                elif isinstance(par, ast.Attribute):
                    out.append("attr:" + par.attr)
                else:
                    out.append("?")
        return sorted(out)

    def score_midi():
        f = _func_ast(exportmidi.save_score_midi)
        var = f.args.args[0].arg
        head = [st for st in f.body if isinstance(st, ast.If) and _isinstance_test(st.test, var) is not None]
        if len(head) != 1:
            notes.append("save_score_midi: dispatch not found")
            v["scoreMidi"] = [("?", "?")]
            return
        tgt = None
        for st in head[0].body:
            if isinstance(st, ast.Assign) and isinstance(st.targets[0], ast.Name):
                tgt = st.targets[0].id
        is_t = lambda t: isinstance(t, ast.Name) and t.id == tgt
        v["scoreMidi"] = [(t, _bind_token(b, var, is_t)) for t, b in _chain(head[0], var)]
        v["scoreMidiUses"] = _uses(f, tgt, skip=(head[0],)) + ["arg:" + u for u in _uses(f, var, skip=(head[0],))]
        g = _func_ast(exportmidi.get_ppq)
        v["getPpqUses"] = _uses(g, g.args.args[0].arg)

    def xml_head():
        from partitura.io import exportmusicxml
        f = _func_ast(exportmusicxml.save_musicxml)
        var = f.args.args[0].arg
        head = [st for st in f.body if isinstance(st, ast.If) and _isinstance_test(st.test, var) is not None]
        if len(head) != 1:
            notes.append("save_musicxml: head not found")
            v["xmlHead"] = [("?", "?")]
            return
        out = []
        for t, b in _chain(head[0], var):
            tok = "?"
            if len(b) == 1 and isinstance(b[0], ast.Assign) and isinstance(b[0].targets[0], ast.Name) and b[0].targets[0].id == var:
                c = b[0].value
                if isinstance(c, ast.Call):
                    nm = c.func.attr if isinstance(c.func, ast.Attribute) else getattr(c.func, "id", "")
                    a0 = [a for a in c.args[:1]] + [k.value for k in c.keywords if k.arg == "partlist"]
                    if nm == "Score" and len(a0) == 1 and isinstance(a0[0], ast.Name) and a0[0].id == var:
                        tok = "ctor:Score"
            out.append((t, tok))
        v["xmlHead"] = out
        v["xmlUses"] = _uses(f, var, skip=(head[0],))

    def score_ctor():
        f = _func_ast(S.Score.__init__)
        var = f.args.args[1].arg
        for st in f.body:
            if (isinstance(st, ast.Assign) and isinstance(st.targets[0], ast.Attribute) and st.targets[0].attr == "parts"):
                x = st.value
                if (isinstance(x, ast.Call) and isinstance(x.func, ast.Name) and x.func.id == "list" and len(x.args) == 1
                        and isinstance(x.args[0], ast.Call) and getattr(x.args[0].func, "id", getattr(x.args[0].func, "attr", "")) == "iter_parts"
                        and len(x.args[0].args) == 1 and isinstance(x.args[0].args[0], ast.Name) and x.args[0].args[0].id == var):
                    v["scoreCtorParts"] = "list-iter_parts:arg"
        head = [st for st in f.body if isinstance(st, ast.If) and _isinstance_test(st.test, var) is not None]
        if len(head) != 1:
            notes.append("Score.__init__: dispatch not found")
            v["scoreCtorStructure"] = [("?", "?")]
            return
        is_t = lambda t: isinstance(t, ast.Attribute) and t.attr == "part_structure"
        v["scoreCtorStructure"] = [(t, _bind_token(b, var, is_t)) for t, b in _chain(head[0], var)]

    def _ret_token(body, var):
        """what a branch of ensure_notearray returns"""
        def call_tok(x):
            if isinstance(x, ast.Name) and x.id == var:
                return "array"
            if not isinstance(x, ast.Call):
                return "?"
            fn_ = x.func
            if isinstance(fn_, ast.Attribute) and isinstance(fn_.value, ast.Name) and fn_.value.id == var:
                return "method:" + fn_.attr
            nm = getattr(fn_, "id", getattr(fn_, "attr", "?"))
            a0 = x.args[0] if x.args else None
            what = None
            if isinstance(a0, ast.Name) and a0.id == var:
                what = "self"
            elif isinstance(a0, ast.Attribute) and isinstance(a0.value, ast.Name) and a0.value.id == var:
                what = "attr:" + a0.attr
            if what is None:
                return "?"
            if nm == "note_array_from_part":
                return "part:" + what
            if nm == "note_array_from_part_list":
                return "list:" + what
            return "?"
        for st in body:
            if isinstance(st, ast.Return):
                return call_tok(st.value)
            if isinstance(st, ast.Raise):
                return "raise"
            if isinstance(st, ast.If):
                # `if <guard>: return … else: raise`
                t = st.test
                els_raises = any(isinstance(x, ast.Raise) for x in st.orelse)
                inner = _ret_token(st.body, var)
                if not els_raises:
                    return "?"
                if (isinstance(t, ast.Call) and isinstance(t.func, ast.Name) and t.func.id == "all" and t.args
                        and isinstance(t.args[0], (ast.ListComp, ast.GeneratorExp))):
                    e = t.args[0].elt
                    g = t.args[0].generators[0]
                    if (isinstance(e, ast.Call) and getattr(e.func, "id", "") == "isinstance" and isinstance(e.args[1], ast.Name)
                            and isinstance(g.iter, ast.Name) and g.iter.id == var):
                        return inner + "-if-all:" + e.args[1].id
                    return "?"
                return inner   # a guard on the array itself (structured dtype): irrelevant for score-like arguments
        return "?"

    def notearray():
        f = _func_ast(M.ensure_notearray)
        var = f.args.args[0].arg
        head = [st for st in f.body if isinstance(st, ast.If) and _isinstance_test(st.test, var) is not None]
        if len(head) != 1:
            notes.append("ensure_notearray: dispatch not found")
            v["notearray"] = [("?", "?")]
            return
        v["notearray"] = [(t, _ret_token(b, var)) for t, b in _chain(head[0], var)]


    def slice_steps():
        f = _func_ast(M.slice_notearray_by_time)
        var = f.args.args[0].arg
        # the index variable: assigned from np.array(...) (an integer ARRAY: indexing with it copies)
        idx_arrays = set()
        for n_ in ast.walk(f):
            if (isinstance(n_, ast.Assign) and isinstance(n_.targets[0], ast.Name) and isinstance(n_.value, ast.Call)
                    and getattr(n_.value.func, "attr", getattr(n_.value.func, "id", "")) == "array"):
                idx_arrays.add(n_.targets[0].id)
        res_var, table = None, []

        def val_tok(x):
            if isinstance(x, ast.Call) and getattr(x.func, "attr", getattr(x.func, "id", "")) == "empty":
                return "np.empty"
            if isinstance(x, ast.Name) and x.id == var:
                return "alias:arg"
            if isinstance(x, ast.Subscript) and isinstance(x.value, ast.Name) and x.value.id == var:
                if isinstance(x.slice, ast.Name) and x.slice.id in idx_arrays:
                    return "fancy:arg"
                if isinstance(x.slice, ast.Slice):
                    return "view:arg"
            return "?"

        def test_tok(t):
            if (isinstance(t, ast.Compare) and len(t.ops) == 1 and isinstance(t.ops[0], ast.Eq) and isinstance(t.left, ast.Call)
                    and getattr(t.left.func, "id", "") == "len" and isinstance(t.left.args[0], ast.Name)
                    and t.left.args[0].id in idx_arrays and isinstance(t.comparators[0], ast.Constant) and t.comparators[0].value == 0):
                return "empty-index"
            return "?"

        for st in f.body:
            if isinstance(st, ast.If) and len(st.body) == 1 and len(st.orelse) == 1 and all(
                    isinstance(b, ast.Assign) and isinstance(b.targets[0], ast.Name) for b in (st.body[0], st.orelse[0])):
                if st.body[0].targets[0].id == st.orelse[0].targets[0].id:
                    res_var = st.body[0].targets[0].id
                    table = [(test_tok(st.test), val_tok(st.body[0].value)), ("else", val_tok(st.orelse[0].value))]
        if res_var is None:
            # a single unconditional binding, or a shape this reader does not know
            for st in f.body:
                if isinstance(st, ast.Assign) and isinstance(st.targets[0], ast.Name) and val_tok(st.value) != "?":
                    res_var = st.targets[0].id
                    table.append(("always", val_tok(st.value)))
            ret = [st for st in f.body if isinstance(st, ast.Return)]
            if not table or not ret or not isinstance(ret[-1].value, ast.Name) or ret[-1].value.id != res_var:
                table = [("?", "?")]
        v["sliceBind"] = table
        writes = []
        for n_ in ast.walk(f):
            tg = []
            if isinstance(n_, ast.Assign):
                tg = n_.targets
            elif isinstance(n_, ast.AugAssign):
                tg = [n_.target]
            for t in tg:
                if isinstance(t, ast.Subscript):
                    base = t.value
                    while isinstance(base, ast.Subscript):
                        base = base.value
                    nm = base.id if isinstance(base, ast.Name) else "?"
                    writes.append("result" if nm == res_var else ("arg" if nm == var else "other:" + nm))
            if (isinstance(n_, ast.Call) and isinstance(n_.func, ast.Attribute) and isinstance(n_.func.value, ast.Name)
                    and n_.func.value.id == var and n_.func.attr in ("sort", "fill", "put", "resize", "setfield", "itemset",
                                                                    "partition", "byteswap", "setflags")):
                writes.append("arg." + n_.func.attr)
        v["sliceWrites"] = sorted(writes)


    def protocol():
        """the bodies of the container methods of Score / Performance: which attribute each delegates to"""
        def method_tok(cls, name):
            fn = cls.__dict__.get(name)
            if fn is None:
                return "absent"
            f = _func_ast(fn)
            body = [st for st in f.body if not (isinstance(st, ast.Expr) and isinstance(st.value, ast.Constant))]
            if len(body) != 1:
                return "?"
            st = body[0]
            me = f.args.args[0].arg
            is_attr = lambda x: isinstance(x, ast.Attribute) and isinstance(x.value, ast.Name) and x.value.id == me
            if name == "__getitem__" and isinstance(st, ast.Return) and isinstance(st.value, ast.Subscript) \
                    and is_attr(st.value.value) and isinstance(st.value.slice, ast.Name) and st.value.slice.id == f.args.args[1].arg:
                return "getitem:" + st.value.value.attr
            if name == "__setitem__" and isinstance(st, ast.Assign) and isinstance(st.targets[0], ast.Subscript) \
                    and is_attr(st.targets[0].value) and isinstance(st.targets[0].slice, ast.Name) \
                    and st.targets[0].slice.id == f.args.args[1].arg and isinstance(st.value, ast.Name) and st.value.id == f.args.args[2].arg:
                return "setitem:" + st.targets[0].value.attr
            if name in ("__iter__", "__len__") and isinstance(st, ast.Return) and isinstance(st.value, ast.Call) \
                    and isinstance(st.value.func, ast.Name) and st.value.func.id == name.strip("_") and len(st.value.args) == 1 \
                    and is_attr(st.value.args[0]):
                return name.strip("_") + ":" + st.value.args[0].attr
            return "?"

        for key, cls in (("scoreProtocol", S.Score), ("performanceProtocol", P.Performance)):
            v[key] = [(m, method_tok(cls, m)) for m in ("__getitem__", "__setitem__", "__iter__", "__len__")]
            v[key + "Extra"] = sorted(m for m in ("__contains__", "__reversed__", "__delitem__", "index", "count", "__getattr__")
                                      if any(m in k.__dict__ for k in cls.__mro__[:-1]))

    guarded("typing unions", unions)
    guarded("iter_parts", seqtypes)
    guarded("sanitize_track_numbers", lambda: single_default(P.Performance.sanitize_track_numbers, "sanitizeDefault", "sanitize_track_numbers"))
    guarded("num_tracks", lambda: single_default(P.Performance.num_tracks.fget, "numTracksDefault", "num_tracks"))
    guarded("save_performance_midi defaults", lambda: single_default(exportmidi.save_performance_midi, "exportDefault", "save_performance_midi"))
    guarded("ensure_unique_tracks", ensure_default)
    guarded("save_performance_midi dispatch", perf_export)
    guarded("Performance.__init__ dispatch", perf_ctor)
    guarded("transpose", transpose)
    guarded("save_score_midi dispatch", score_midi)
    guarded("save_musicxml head", xml_head)
    guarded("Score.__init__", score_ctor)
    guarded("ensure_notearray dispatch", notearray)
    guarded("slice_notearray_by_time", slice_steps)
    guarded("container protocol", protocol)
    return v, notes


def gen_c20():
    v, notes = extract()
    out = ["/- GENERATED by harness/translate_c20.py from the live partitura source (score.py, performance.py,",
           "   utils/music.py, io/exportmidi.py).  Do not edit. -/", "namespace Gen.C20", ""]
    w = out.append
    strs = lambda l: "[%s]" % ", ".join(_lstr(x) for x in l)
    pairs = lambda l: "[%s]" % ", ".join("(%s, %s)" % (_lstr(a), _lstr(b)) for a, b in l)
    lint = lambda x: "(%d)" % x
    w("/-- members of `partitura.score.ScoreLike` -/")
    w("def scoreLike : List String := %s" % strs(v["scoreLike"]))
    w("/-- members of `partitura.performance.PerformanceLike` -/")
    w("def performanceLike : List String := %s" % strs(v["performanceLike"]))
    w("/-- `isinstance(partlist, (…))` of `iter_parts`: what is walked as a sequence -/")
    w("def iterPartsSeqTypes : List String := %s" % strs(v["seqTypes"]))
    w("/-- the default of `.get(\"track\", ·)` in `sanitize_track_numbers` / `num_tracks` / `save_performance_midi` -/")
    w("def sanitizeDefault : Int := %s" % lint(v["sanitizeDefault"] if v["sanitizeDefault"] is not None else -1))
    w("def numTracksDefault : Int := %s" % lint(v["numTracksDefault"] if v["numTracksDefault"] is not None else -1))
    w("def exportTrackDefault : Int := %s" % lint(v["exportDefault"] if v["exportDefault"] is not None else 0))
    w("/-- `Performance.__init__(…, ensure_unique_tracks=·)` -/")
    w("def ensureUniqueDefault : Bool := %s" % ("true" if v["ensureDefault"] in (None, True) else "false"))
    w("/-- the argument dispatch of `save_performance_midi`: (class tested, binding of the iterated variable) -/")
    w("def perfExportDispatch : List (String × String) := %s" % pairs(v["perfExport"]))
    w("/-- the argument dispatch of `Performance.__init__`: (class tested, binding of `self.performedparts`) -/")
    w("def perfCtorDispatch : List (String × String) := %s" % pairs(v["perfCtor"]))
    w("/-- the branch table of `transpose`: (class of the COPY tested, the parts whose notes are rewritten) -/")
    w("def transposeBranches : List (String × String) := %s" % pairs(v["transposeBranches"]))
    w("/-- `new_score = copy.deepcopy(score)` precedes the table -/")
    w("def transposeCopies : Bool := %s" % ("true" if v["transposeCopies"] else "false"))
    w("/-- the argument dispatch of `save_score_midi`: (class tested, binding of `parts`) -/")
    w("def scoreMidiDispatch : List (String × String) := %s" % pairs(v["scoreMidi"]))
    w("/-- every later use of `parts` (and `arg:` of the argument itself) in `save_score_midi`; of its parameter in `get_ppq` -/")
    w("def scoreMidiUses : List String := %s" % strs(v["scoreMidiUses"]))
    w("def getPpqUses : List String := %s" % strs(v["getPpqUses"]))
    w("/-- the head of `save_musicxml` and the later uses of the variable it rebinds -/")
    w("def xmlHead : List (String × String) := %s" % pairs(v["xmlHead"]))
    w("def xmlUses : List String := %s" % strs(v["xmlUses"]))
    w("/-- `Score.__init__`: the binding of `self.parts` and the chain that binds `self.part_structure` -/")
    w("def scoreCtorParts : String := %s" % _lstr(v["scoreCtorParts"]))
    w("def scoreCtorStructure : List (String × String) := %s" % pairs(v["scoreCtorStructure"]))
    w("/-- the dispatch of `ensure_notearray`: (class tested, what is returned) -/")
    w("def notearrayDispatch : List (String × String) := %s" % pairs(v["notearray"]))
    w("/-- `slice_notearray_by_time`: how the result is bound (test, value) and the base of every subscript-store -/")
    w("def sliceBind : List (String × String) := %s" % pairs(v["sliceBind"]))
    w("def sliceWrites : List String := %s" % strs(v["sliceWrites"]))
    w("/-- the container methods of Score / Performance: (method, what its body delegates to); and which of the optional")
    w("    sequence methods (__contains__, __reversed__, __delitem__, index, count, __getattr__) the classes define -/")
    w("def scoreProtocol : List (String × String) := %s" % pairs(v["scoreProtocol"]))
    w("def scoreProtocolExtra : List String := %s" % strs(v["scoreProtocolExtra"]))
    w("def performanceProtocol : List (String × String) := %s" % pairs(v["performanceProtocol"]))
    w("def performanceProtocolExtra : List String := %s" % strs(v["performanceProtocolExtra"]))
    w("")
    w("def extractionOk : Bool := %s" % ("true" if not notes else "false"))
    w("def notes : List String := %s" % strs(notes))
    w("")
    w("end Gen.C20")
    return "\n".join(out) + "\n"


GENERATORS = {"C20Tables.lean": gen_c20}

if __name__ == "__main__":
    print(gen_c20())
