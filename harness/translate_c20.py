"""Translator for C20: the literal data and the argument-dispatch tables of the read-only entry points
-> lean/PartituraModel/Gen/C20Tables.lean (regenerated from the LIVE source on every run).

  scoreLike / performanceLike   members of the typing unions `partitura.score.ScoreLike` / `performance.PerformanceLike`
  iterPartsSeqTypes             the tuple in `isinstance(partlist, (list, tuple, set))` of `score.iter_parts`
  sanitizeDefault               the default of every `.get("track", d)` in `Performance.sanitize_track_numbers`
  numTracksDefault              … in `Performance.num_tracks`
  exportTrackDefault            … in `save_performance_midi`
  ensureUniqueDefault           default value of `Performance.__init__(ensure_unique_tracks=…)`
  perfExportDispatch            the if/elif chain at the head of `save_performance_midi`:
                                [(class tested, what the iterated variable is bound to)]
                                binding tokens: attr:<name> | singleton | self | self-if-all:<cls> | ctor | raise
  perfCtorDispatch              the same for `Performance.__init__` (binding of `self.performedparts`): list-self = list(x)
  transposeBranches             the if/elif chain of `utils.music.transpose` that selects the parts to rewrite:
                                [(class tested, copy.parts | [copy] | [] | arg.parts | [arg] | iter:arg | iter:copy)]
  transposeCopies               `transpose` deep-copies its argument before the chain (copy.deepcopy(<param>))

A shape that is not recognised is emitted as the token "?" (and listed in `notes`): the theorems that interpret the tables
(`Props/C20Gen.lean`) then stop building, nothing else does.
"""
import ast
import inspect
import textwrap
import typing


def _lstr(s):
    return '"' + s.replace("\\", "\\\\").replace('"', '\\"') + '"'


def _func_ast(fn):
    src = textwrap.dedent(inspect.getsource(inspect.unwrap(fn)))
    return ast.parse(src).body[0]


def _isinstance_test(test, var):
    """isinstance(<var>, C) -> 'C' ; isinstance(<var>, (A, B)) -> 'A|B' ; not isinstance(...) -> 'not C' ; else None"""
    neg = False
    if isinstance(test, ast.UnaryOp) and isinstance(test.op, ast.Not):
        neg, test = True, test.operand
    if (isinstance(test, ast.Call) and isinstance(test.func, ast.Name) and test.func.id == "isinstance"
            and len(test.args) == 2 and isinstance(test.args[0], ast.Name) and test.args[0].id == var):
        c = test.args[1]
        names = [c] if not isinstance(c, ast.Tuple) else list(c.elts)
        out = []
        for n_ in names:
            if isinstance(n_, ast.Name):
                out.append(n_.id)
            elif isinstance(n_, ast.Attribute):
                out.append(n_.attr)
            else:
                return None
        return ("not " if neg else "") + "|".join(out)
    return None


def _chain(stmt, var):
    """flatten an if / elif / else statement on isinstance(var, …) -> [(test token, body)]"""
    out = []
    while True:
        t = _isinstance_test(stmt.test, var)
        out.append((t or "?", stmt.body))
        if len(stmt.orelse) == 1 and isinstance(stmt.orelse[0], ast.If):
            stmt = stmt.orelse[0]
            continue
        if stmt.orelse:
            out.append(("else", stmt.orelse))
        return out


def _all_isinstance_guard(node):
    """`if not all(isinstance(pp, C) for pp in x)` / `all([...])` -> 'C' (the test of a guard that raises)"""
    t = node.test
    if isinstance(t, ast.UnaryOp) and isinstance(t.op, ast.Not):
        t = t.operand
        if isinstance(t, ast.Call) and isinstance(t.func, ast.Name) and t.func.id == "all" and t.args:
            g = t.args[0]
            if isinstance(g, (ast.GeneratorExp, ast.ListComp)):
                e = g.elt
                if (isinstance(e, ast.Call) and isinstance(e.func, ast.Name) and e.func.id == "isinstance"
                        and isinstance(e.args[1], ast.Name)):
                    return e.args[1].id
    return None


def _bind_token(body, var, is_target):
    """what a branch binds the variable of interest to"""
    guard = None
    listed = False
    for st in body:
        if isinstance(st, ast.If) and _all_isinstance_guard(st) and any(isinstance(x, ast.Raise) for x in st.body):
            guard = _all_isinstance_guard(st)
            continue
        # `x = list(x)`: the variable is rebound to a fresh list of its own items (materialising a one-shot iterable
        # before the type check, fix F-C14-6); a later `target = x` then binds that list: the token `list-self`
        if (isinstance(st, ast.Assign) and len(st.targets) == 1 and isinstance(st.targets[0], ast.Name) and st.targets[0].id == var
                and isinstance(st.value, ast.Call) and isinstance(st.value.func, ast.Name) and st.value.func.id == "list"
                and len(st.value.args) == 1 and not st.value.keywords and isinstance(st.value.args[0], ast.Name) and st.value.args[0].id == var):
            listed = True
            continue
        if isinstance(st, ast.Raise):
            return "raise"
        if isinstance(st, ast.Assign) and len(st.targets) == 1 and is_target(st.targets[0]):
            v = st.value
            if isinstance(v, ast.Attribute) and isinstance(v.value, ast.Name) and v.value.id == var:
                tok = "attr:" + v.attr
            elif isinstance(v, ast.List) and len(v.elts) == 1 and isinstance(v.elts[0], ast.Name) and v.elts[0].id == var:
                tok = "singleton"
            elif isinstance(v, ast.Name) and v.id == var:
                tok = "list-self" if listed else "self"
            elif (isinstance(v, ast.Call) and isinstance(v.func, ast.Name) and v.func.id == "list" and len(v.args) == 1
                  and isinstance(v.args[0], ast.Name) and v.args[0].id == var):
                tok = "list-self"
            elif isinstance(v, ast.Call) and isinstance(v.func, ast.Name) and v.func.id == "Performance":
                tok = "ctor"
            else:
                return "?"
            return tok + ("-if-all:" + guard if guard else "")
        if isinstance(st, (ast.Expr, ast.Pass)):
            continue
        return "?"
    return "?"


def _get_defaults(fn_node, key="track"):
    """the defaults d of every `<x>.get("track", d)` call in a function"""
    out = []
    for n_ in ast.walk(fn_node):
        if (isinstance(n_, ast.Call) and isinstance(n_.func, ast.Attribute) and n_.func.attr == "get" and len(n_.args) == 2
                and isinstance(n_.args[0], ast.Constant) and n_.args[0].value == key):
            try:
                out.append(int(ast.literal_eval(n_.args[1])))
            except Exception:
                out.append(None)
    return out


def _union_members(alias):
    out = []
    for a in typing.get_args(alias):
        if typing.get_origin(a) in (list, typing.List):
            inner = typing.get_args(a)[0]
            out.append("List[%s]" % "|".join(x.__name__ for x in (typing.get_args(inner) or (inner,))))
        else:
            out.append(getattr(a, "__name__", repr(a)))
    return out


def extract():
    notes = []
    v = {"scoreLike": [], "performanceLike": [], "seqTypes": [], "sanitizeDefault": None, "numTracksDefault": None,
         "exportDefault": None, "ensureDefault": None, "perfExport": [], "perfCtor": [], "transposeBranches": [],
         "transposeCopies": False}
    try:
        import partitura.score as S
        import partitura.performance as P
        import partitura.utils.music as M
        from partitura.io import exportmidi
    except Exception as e:  # pragma: no cover
        return v, ["partitura not importable (%s: %s)" % (type(e).__name__, e)]

    def guarded(label, f):
        try:
            f()
        except Exception as e:
            notes.append("%s unreadable (%s: %s)" % (label, type(e).__name__, e))

    def unions():
        v["scoreLike"] = _union_members(S.ScoreLike)
        v["performanceLike"] = _union_members(P.PerformanceLike)

    def seqtypes():
        f = _func_ast(S.iter_parts)
        for n_ in ast.walk(f):
            if isinstance(n_, ast.If):
                t = _isinstance_test(n_.test, f.args.args[0].arg)
                if t and t.startswith("not "):
                    v["seqTypes"] = t[4:].split("|")
                    return
        notes.append("iter_parts: no `if not isinstance(partlist, (…))` found")

    def single_default(fn, slot, label):
        ds = _get_defaults(_func_ast(fn))
        if not ds or None in ds or len(set(ds)) != 1:
            notes.append("%s: the .get(\"track\", d) defaults are %r" % (label, ds))
        else:
            v[slot] = ds[0]

    def ensure_default():
        sig = inspect.signature(P.Performance.__init__)
        d = sig.parameters["ensure_unique_tracks"].default
        if isinstance(d, bool):
            v["ensureDefault"] = d
        else:
            notes.append("Performance.__init__: ensure_unique_tracks default is %r" % (d,))

    def perf_export():
        f = _func_ast(exportmidi.save_performance_midi)
        var = f.args.args[0].arg
        # the variable the part loop iterates over
        loop_var = None
        for st in f.body:
            if isinstance(st, ast.For) and isinstance(st.iter, ast.Name):
                loop_var = st.iter.id
                break
        head = [st for st in f.body if isinstance(st, ast.If) and _isinstance_test(st.test, var) is not None]
        if loop_var is None or len(head) != 1:
            notes.append("save_performance_midi: dispatch not found (loop over %r, %d isinstance statements)" % (loop_var, len(head)))
            v["perfExport"] = [("?", "?")]
            return
        is_t = lambda t: isinstance(t, ast.Name) and t.id == loop_var
        v["perfExport"] = [(t, _bind_token(b, var, is_t)) for t, b in _chain(head[0], var)]
        # anything between the dispatch and the loop that rebinds the loop variable changes the meaning of the table
        i0, i1 = f.body.index(head[0]), [i for i, st in enumerate(f.body) if isinstance(st, ast.For)][0]
        for st in f.body[i0 + 1:i1]:
            if isinstance(st, ast.Assign) and any(is_t(t) for t in st.targets):
                v["perfExport"].append(("after", _bind_token([st], var, is_t)))

    def perf_ctor():
        f = _func_ast(P.Performance.__init__)
        var = f.args.args[1].arg
        head = [st for st in f.body if isinstance(st, ast.If) and _isinstance_test(st.test, var) is not None]
        if len(head) != 1:
            notes.append("Performance.__init__: dispatch not found")
            v["perfCtor"] = [("?", "?")]
            return
        is_t = lambda t: isinstance(t, ast.Attribute) and t.attr == "performedparts"
        v["perfCtor"] = [(t, _bind_token(b, var, is_t)) for t, b in _chain(head[0], var)]

    def transpose():
        f = _func_ast(M.transpose)
        var = f.args.args[0].arg
        copy_var = None
        for st in f.body:
            if (isinstance(st, ast.Assign) and isinstance(st.value, ast.Call) and isinstance(st.value.func, ast.Attribute)
                    and st.value.func.attr == "deepcopy" and len(st.value.args) == 1
                    and isinstance(st.value.args[0], ast.Name) and st.value.args[0].id == var
                    and isinstance(st.targets[0], ast.Name)):
                copy_var = st.targets[0].id
        v["transposeCopies"] = copy_var is not None
        loop_var = None
        for st in f.body:
            if isinstance(st, ast.For) and isinstance(st.iter, ast.Name):
                loop_var = st.iter.id
        head = [st for st in f.body if isinstance(st, ast.If) and
                (_isinstance_test(st.test, copy_var or "?") is not None or _isinstance_test(st.test, var) is not None)]
        if loop_var is None or len(head) != 1:
            notes.append("transpose: branch table not found")
            v["transposeBranches"] = [("?", "?")]
            return
        tested = copy_var if _isinstance_test(head[0].test, copy_var or "?") is not None else var

        def rhs(body):
            for st in body:
                if isinstance(st, ast.Assign) and isinstance(st.targets[0], ast.Name) and st.targets[0].id == loop_var:
                    x = st.value
                    who = lambda n_: "copy" if n_ == copy_var else ("arg" if n_ == var else None)
                    if isinstance(x, ast.Attribute) and isinstance(x.value, ast.Name) and who(x.value.id) and x.attr == "parts":
                        return who(x.value.id) + ".parts"
                    if isinstance(x, ast.List) and len(x.elts) == 1 and isinstance(x.elts[0], ast.Name) and who(x.elts[0].id):
                        return "[" + who(x.elts[0].id) + "]"
                    if isinstance(x, ast.List) and not x.elts:
                        return "[]"
                    if isinstance(x, ast.Call):   # list(s.iter_parts(<who>)) / list(iter_parts(<who>))
                        inner = x.args[0] if (isinstance(x.func, ast.Name) and x.func.id == "list" and x.args) else x
                        if isinstance(inner, ast.Call) and inner.args and isinstance(inner.args[0], ast.Name) and who(inner.args[0].id):
                            fn_ = inner.func
                            nm = fn_.attr if isinstance(fn_, ast.Attribute) else getattr(fn_, "id", "")
                            if nm == "iter_parts":
                                return "iter:" + who(inner.args[0].id)
                    return "?"
            return "?"

        v["transposeBranches"] = [((t or "?") + ("" if tested == copy_var or t == "else" else "@arg"), rhs(b))
                                  for t, b in _chain(head[0], tested)]

    guarded("typing unions", unions)
    guarded("iter_parts", seqtypes)
    guarded("sanitize_track_numbers", lambda: single_default(P.Performance.sanitize_track_numbers, "sanitizeDefault", "sanitize_track_numbers"))
    guarded("num_tracks", lambda: single_default(P.Performance.num_tracks.fget, "numTracksDefault", "num_tracks"))
    guarded("save_performance_midi defaults", lambda: single_default(exportmidi.save_performance_midi, "exportDefault", "save_performance_midi"))
    guarded("ensure_unique_tracks", ensure_default)
    guarded("save_performance_midi dispatch", perf_export)
    guarded("Performance.__init__ dispatch", perf_ctor)
    guarded("transpose", transpose)
    return v, notes


def gen_c20():
    v, notes = extract()
    out = ["/- GENERATED by harness/translate_c20.py from the live partitura source (score.py, performance.py,",
           "   utils/music.py, io/exportmidi.py).  Do not edit. -/", "namespace Gen.C20", ""]
    w = out.append
    strs = lambda l: "[%s]" % ", ".join(_lstr(x) for x in l)
    pairs = lambda l: "[%s]" % ", ".join("(%s, %s)" % (_lstr(a), _lstr(b)) for a, b in l)
    lint = lambda x: "(%d)" % x
    w("/-- members of `partitura.score.ScoreLike` -/")
    w("def scoreLike : List String := %s" % strs(v["scoreLike"]))
    w("/-- members of `partitura.performance.PerformanceLike` -/")
    w("def performanceLike : List String := %s" % strs(v["performanceLike"]))
    w("/-- `isinstance(partlist, (…))` of `iter_parts`: what is walked as a sequence -/")
    w("def iterPartsSeqTypes : List String := %s" % strs(v["seqTypes"]))
    w("/-- the default of `.get(\"track\", ·)` in `sanitize_track_numbers` / `num_tracks` / `save_performance_midi` -/")
    w("def sanitizeDefault : Int := %s" % lint(v["sanitizeDefault"] if v["sanitizeDefault"] is not None else -1))
    w("def numTracksDefault : Int := %s" % lint(v["numTracksDefault"] if v["numTracksDefault"] is not None else -1))
    w("def exportTrackDefault : Int := %s" % lint(v["exportDefault"] if v["exportDefault"] is not None else 0))
    w("/-- `Performance.__init__(…, ensure_unique_tracks=·)` -/")
    w("def ensureUniqueDefault : Bool := %s" % ("true" if v["ensureDefault"] in (None, True) else "false"))
    w("/-- the argument dispatch of `save_performance_midi`: (class tested, binding of the iterated variable) -/")
    w("def perfExportDispatch : List (String × String) := %s" % pairs(v["perfExport"]))
    w("/-- the argument dispatch of `Performance.__init__`: (class tested, binding of `self.performedparts`) -/")
    w("def perfCtorDispatch : List (String × String) := %s" % pairs(v["perfCtor"]))
    w("/-- the branch table of `transpose`: (class of the COPY tested, the parts whose notes are rewritten) -/")
    w("def transposeBranches : List (String × String) := %s" % pairs(v["transposeBranches"]))
    w("/-- `new_score = copy.deepcopy(score)` precedes the table -/")
    w("def transposeCopies : Bool := %s" % ("true" if v["transposeCopies"] else "false"))
    w("")
    w("def extractionOk : Bool := %s" % ("true" if not notes else "false"))
    w("def notes : List String := %s" % strs(notes))
    w("")
    w("end Gen.C20")
    return "\n".join(out) + "\n"


GENERATORS = {"C20Tables.lean": gen_c20}

if __name__ == "__main__":
    print(gen_c20())
