"""Translator for C03: the literal data of the MusicXML exporter / importer that Model/XmlNote.lean, XmlDir.lean, XmlBar.lean
and XmlPartList.lean copy by hand (element and attribute names, fixed attribute values, child order, the articulation and
dynamics tables, the merge order of measure children) -> lean/PartituraModel/Gen/C03Tables.lean   (namespace Gen.C03).

Nothing is read off the source text except one dict literal.  Everything else is obtained by RUNNING the live code:

* tables     `exportmusicxml.ARTICULATIONS`; what `importmusicxml.get_articulations` recognises among all candidate names;
             `importmusicxml.DYN_DIRECTIONS` (name, impulsive?); `PEDAL_DIRECTIONS`; the `order` dict of merge_with_voice
             (the only dict literal with string keys and int values in that function, sorted by value)
* probes     one small score that uses every element kind the models cover is saved with the live `save_musicxml`; the
             written document is parsed and every `<note>`, `<direction>`, `<sound>`, `<attributes>`, `<barline>`,
             `<harmony>`, `<print>` and the children of `<part-list>` are emitted, each as the prefix encoding of its tree
             (Model/XmlNames.lean `Xml.flat`: tag, number of attributes, name and value of each, text, number of children,
             the children).  Props/C03Gen.lean states, for the same objects written down in Lean, that the model writers
             produce exactly these trees: renaming an element, an attribute, a fixed value, or reordering children in the
             source changes this file and the theorems no longer build.  A refactoring that leaves the written file alone
             leaves this file alone.

The generator never raises: what cannot be produced is emitted empty, `extractionOk` becomes false with the reasons in
`extractionNotes`, and `C03.tables_extracted` no longer builds.
"""
import ast
import inspect
import io
import textwrap
import warnings


def _lstr(s):
    out = ['"']
    for ch in str(s):
        if ch == '"':
            out.append('\\"')
        elif ch == "\\":
            out.append("\\\\")
        elif ord(ch) < 32 or ord(ch) > 126:
            out.append("\\u{%x}" % ord(ch))
        else:
            out.append(ch)
    out.append('"')
    return "".join(out)


def _lchars(s):
    return "[]" if s == "" else _lstr(s) + ".toList"


def _flat(el):
    """prefix encoding of an element tree as a list of strings (Xml.flat)"""
    kids = [c for c in el if isinstance(c.tag, str)]
    text = el.text or ""
    if kids and not text.strip():
        text = ""
    out = [el.tag, str(len(el.attrib))]
    for k, v in el.attrib.items():
        out += [k, v]
    out += [text, str(len(kids))]
    for c in kids:
        out += _flat(c)
    return out


def _lflat(el):
    return "[" + ", ".join(_lchars(x) for x in _flat(el)) + "]"


def probe_score():
    """a score that uses every element kind of the models once, every object at a time of its own"""
    import partitura.score as S
    from partitura.directions import parse_direction

    q = 12
    p = S.Part("P1", part_name="Probe", part_abbreviation="Pr.", quarter_duration=q)
    p.add(S.Page(1), 0)
    p.add(S.System(1), 0)
    p.add(S.System(2), 96)
    p.add(S.TimeSignature(4, 4), 0)
    p.add(S.KeySignature(-3, "minor"), 0)
    p.add(S.Clef(1, "G", 2, 0), 0)
    p.add(S.Clef(2, "F", 4, -1), 0)
    p.add(S.Staff(1, 5), 0)
    p.add(S.Clef(2, "G", 2, None), 96)

    def note(cls, t, d, **kw):
        o = cls(**kw)
        p.add(o, t, t + d)
        return o

    n1 = note(S.Note, 0, 12, step="C", octave=4, alter=1, id="n1", voice=1, staff=1, stem_direction="up",
              articulations=["staccato", "accent"], technical=[S.Fingering(3)], symbolic_duration={"type": "quarter", "dots": 1})
    n2 = note(S.Note, 12, 12, step="C", octave=4, alter=1, id="n2", voice=1, staff=1)
    n1.tie_next, n2.tie_prev = n2, n1
    f = S.Fermata(n2)
    p.add(f, 12)
    n2.fermata = f
    p.add(S.Slur(n1, n2), 0, 24)
    note(S.Note, 24, 12, step="G", octave=4, alter=None, id="n3", voice=1, staff=1)
    note(S.Note, 24, 12, step="E", octave=4, alter=0, id="n4", voice=1, staff=1)
    g1 = note(S.GraceNote, 36, 0, grace_type="acciaccatura", step="D", octave=5, id="g1", voice=1, staff=1)
    n5 = note(S.Note, 36, 12, step="D", octave=4, id="n5", voice=1, staff=1)
    g1.grace_next = n5
    ts = [note(S.Note, 48 + 4 * i, 4, step="A", octave=4, id="t%d" % (i + 1), voice=1, staff=1,
               symbolic_duration={"type": "eighth", "actual_notes": 3, "normal_notes": 2}) for i in range(3)]
    p.add(S.Tuplet(ts[0], ts[2], actual_notes=3, normal_notes=2, actual_type="eighth", normal_type="eighth"), 48, 60)
    note(S.UnpitchedNote, 60, 12, step="E", octave=4, id="u1", voice=1, staff=1, notehead="x", noteheadstyle=False)
    note(S.Rest, 72, 24, id="r1", voice=1, staff=1)
    note(S.Note, 48, 48, step="C", octave=3, id="b1", voice=2, staff=2)
    note(S.Note, 96, 48, step="C", octave=4, id="n6", voice=1, staff=1)
    # directions, each at a time of its own
    p.add(S.ConstantLoudnessDirection("f", staff=2), 0)
    p.add(S.IncreasingLoudnessDirection("crescendo", wedge=True), 12, 36)
    d = parse_direction("cresc.")[0]
    p.add(d, 48, 72)
    p.add(S.SustainPedalDirection(line=True, staff=2), 96, 120)
    p.add(S.Tempo(90, "q"), 24)
    # barlines
    p.add(S.Repeat(), 0, 96)
    p.add(S.Ending(1), 48, 96)
    p.add(S.Ending(2), 96, 144)
    p.add(S.Fermata("left"), 96)
    p.add(S.Fermata("right"), 144)
    # harmony
    p.add(S.RomanNumeral("V7"), 0)
    p.add(S.ChordSymbol("C", "maj7", bass="E"), 48)
    p.add(S.Cadence("PAC"), 96)
    for i in range(3):
        p.add(S.Measure(number=i + 1, name=str(i + 1)), 48 * i, 48 * (i + 1))
    p2 = S.Part("P2", part_name=None, quarter_duration=1)
    p2.add(S.Page(1), 0)
    p2.add(S.System(1), 0)
    p2.add(S.Note(step="C", octave=4, id="z1", voice=1, staff=None), 0, 4)
    p2.add(S.Measure(number=1, name="1"), 0, 4)
    ga = S.PartGroup("brace", "A", 1)
    gb = S.PartGroup(None, None, 2)
    gb.parent = ga
    gb.children = [p]
    p.parent = gb
    p2.parent = ga
    ga.children = [gb, p2]
    return S.Score([ga])


def gen_c03():
    notes = []
    tables = {"articulationsExport": [], "articulationsImport": [], "dynDirections": [], "pedalDirections": [],
              "mergeOrder": []}
    probes = {}
    try:
        with warnings.catch_warnings():
            warnings.simplefilter("ignore")
            import partitura
            import partitura.score as S
            import partitura.io.exportmusicxml as X
            import partitura.io.importmusicxml as I
            from lxml import etree

            try:
                tables["articulationsExport"] = [str(a) for a in X.ARTICULATIONS]
            except Exception as e:
                notes.append("ARTICULATIONS: %s" % type(e).__name__)
            try:
                cands = sorted(set(list(X.ARTICULATIONS) + [
                    "accent", "strong-accent", "staccato", "tenuto", "detached-legato", "staccatissimo", "spiccato", "scoop", "plop",
                    "doit", "falloff", "breath-mark", "caesura", "stress", "unstress", "soft-accent", "other-articulation", "fermata"]))
                probe = etree.Element("articulations")
                for c in cands:
                    etree.SubElement(probe, c)
                tables["articulationsImport"] = [str(a) for a in I.get_articulations(probe)]
            except Exception as e:
                notes.append("get_articulations: %s" % type(e).__name__)
            try:
                cls = {S.ConstantLoudnessDirection: False, S.ImpulsiveLoudnessDirection: True}
                tables["dynDirections"] = [(str(k), cls[v]) for k, v in I.DYN_DIRECTIONS.items()]
                tables["pedalDirections"] = [str(k) for k in I.PEDAL_DIRECTIONS]
            except Exception as e:
                notes.append("DYN_DIRECTIONS: %s" % type(e).__name__)
            try:
                fn = ast.parse(textwrap.dedent(inspect.getsource(X.merge_with_voice))).body[0]
                dicts = [n for n in ast.walk(fn) if isinstance(n, ast.Dict) and n.keys and all(
                    isinstance(k, ast.Constant) and isinstance(k.value, str) for k in n.keys) and all(
                    isinstance(v, ast.Constant) and isinstance(v.value, int) for v in n.values)]
                if len(dicts) != 1:
                    raise ValueError("%d candidate dicts" % len(dicts))
                tables["mergeOrder"] = sorted(((k.value, v.value) for k, v in zip(dicts[0].keys, dicts[0].values)), key=lambda x: (x[1], x[0]))
            except Exception as e:
                notes.append("merge order: %s" % e)
            try:
                xml = partitura.save_musicxml(probe_score())
                root = etree.fromstring(xml, etree.XMLParser(remove_comments=True, remove_blank_text=True))
                part = root.findall("part")[0]
                for el in part.iter("note"):
                    probes["note_" + (el.get("id") or "anon")] = el
                kinds = {"direction": "dir", "sound": "sound", "attributes": "attr", "barline": "bar", "harmony": "harm", "print": "print"}
                count = {}
                for m in part.findall("measure"):
                    for el in m:
                        if el.tag in kinds:
                            k = kinds[el.tag]
                            count[k] = count.get(k, 0) + 1
                            probes["%s_%d" % (k, count[k])] = el
                for i, el in enumerate(root.find("part-list")):
                    probes["pl_%d" % (i + 1)] = el
            except Exception as e:
                notes.append("probe score: %s: %s" % (type(e).__name__, e))
    except Exception as e:
        notes.append("import: %s" % type(e).__name__)
    # the probes the theorems name must exist
    expected = (["note_%s" % i for i in ("n1", "n2", "n3", "n4", "g1", "n5", "t1", "t2", "t3", "u1", "r1", "b1", "n6")]
                + ["dir_%d" % i for i in range(1, 8)] + ["sound_1", "attr_1", "attr_2"] + ["bar_%d" % i for i in range(1, 6)]
                + ["harm_%d" % i for i in range(1, 4)] + ["print_1", "print_2"] + ["pl_%d" % i for i in range(1, 7)])
    for k in expected:
        if k not in probes:
            notes.append("no probe %s" % k)
    extra = sorted(set(probes) - set(expected))
    if extra:
        notes.append("unexpected probes %s" % ",".join(extra))
    out = ["/- GENERATED by harness/translate_c03.py from the live partitura source - do not edit -/",
           "namespace Gen.C03", ""]
    out.append("def extractionOk : Bool := %s" % ("true" if not notes else "false"))
    out.append("def extractionNotes : List String := [%s]" % ", ".join(_lstr(n) for n in notes))
    out.append("")
    out.append("def articulationsExport : List (List Char) := [%s]" % ", ".join(_lchars(a) for a in tables["articulationsExport"]))
    out.append("def articulationsImport : List (List Char) := [%s]" % ", ".join(_lchars(a) for a in tables["articulationsImport"]))
    out.append("def dynDirections : List (List Char × Bool) := [%s]" % ", ".join(
        "(%s, %s)" % (_lchars(k), "true" if v else "false") for k, v in tables["dynDirections"]))
    out.append("def pedalDirections : List (List Char) := [%s]" % ", ".join(_lchars(a) for a in tables["pedalDirections"]))
    out.append("def mergeOrder : List (List Char × Nat) := [%s]" % ", ".join("(%s, %d)" % (_lchars(k), v) for k, v in tables["mergeOrder"]))
    out.append("")
    for k in expected:
        body = "[]"
        if k in probes:
            try:
                body = _lflat(probes[k])
            except Exception:
                body = "[]"
        out.append("def %s : List (List Char) := %s" % (k, body))
    out += ["", "end Gen.C03", ""]
    return "\n".join(out)


GENERATORS = {"C03Tables.lean": gen_c03}

if __name__ == "__main__":
    print(gen_c03())
