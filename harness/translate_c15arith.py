"""Translator for C15 (round 6): the ARITHMETIC of `partitura.score.merge_parts` and of
`partitura.utils.music.note_array_from_part_list` -> lean/PartituraModel/Gen/C15Arith.lean.

Read from the live sources (ast):
  lcmFunc        how the common divisions are computed: the dotted name of the call assigned to the variable that is
                 divided (`np.lcm.reduce`)
  multOp / multTrunc
                 the operator of the time multiplier `<lcm> <op> d` in `[... for d in <durations>]` ("/" = float
                 division, "//" = exact quotient) and whether it is wrapped in `int(...)`
  timeOp         the operator of `e.start.t <op> time_multiplier_per_part[p_ind]` (and of the end): "*", for both
  newPartIdIndex / newPartIdAttr / newPartQuarterIsLcm
                 `new_part = Part(parts[<i>].<attr>, quarter_duration=<lcm>)`: whose identifier the new part gets and that
                 its quarter duration is the common one
  refMultOp / refMultTrunc / refEmptyDivs / refScaled
                 note_array_from_part_list: the same multiplier expression, the divisions value a part without notes
                 counts with (`... if len(part_na) else 1`), the fields that are multiplied

`mult_fn()` / `ref_mult_fn()` compile the multiplier expression of the live source into a function (lcm, d) -> value
(the harness runs it on numbers far beyond what a generated score reaches).
When a source no longer has the expected form the constants are emitted empty with `arithOk := false`, so that only
C15.arith_source stops building.
"""
import ast
import inspect
import textwrap


class Unexpected(Exception):
    pass


OPS = {ast.Div: "/", ast.FloorDiv: "//", ast.Mult: "*", ast.Add: "+", ast.Sub: "-", ast.Mod: "%", ast.Pow: "**"}


def _dotted(node):
    if isinstance(node, ast.Name):
        return node.id
    if isinstance(node, ast.Attribute):
        b = _dotted(node.value)
        return None if b is None else b + "." + node.attr
    return None


def _fn_ast(f):
    return ast.parse(textwrap.dedent(inspect.getsource(f))).body[0]


def _multiplier(fn):
    """the list comprehension `[<int(>lcm <op> d<)> for d in X]` whose numerator is a variable assigned from a call of
    something named `...lcm...`; returns (lcm function, lcm variable, op, truncated, element expression, loop variable)"""
    lcm_vars = {}
    for n in ast.walk(fn):
        if isinstance(n, ast.Assign) and len(n.targets) == 1 and isinstance(n.targets[0], ast.Name) \
                and isinstance(n.value, ast.Call):
            name = _dotted(n.value.func)
            if name and "lcm" in name:
                lcm_vars[n.targets[0].id] = name
    found = []
    for n in ast.walk(fn):
        if isinstance(n, ast.ListComp) and len(n.generators) == 1 and isinstance(n.generators[0].target, ast.Name):
            d = n.generators[0].target.id
            e = n.elt
            trunc = False
            if isinstance(e, ast.Call) and isinstance(e.func, ast.Name) and e.func.id == "int" and len(e.args) == 1:
                trunc, e = True, e.args[0]
            if isinstance(e, ast.BinOp) and isinstance(e.left, ast.Name) and e.left.id in lcm_vars \
                    and isinstance(e.right, ast.Name) and e.right.id == d and type(e.op) in OPS:
                found.append((lcm_vars[e.left.id], e.left.id, OPS[type(e.op)], trunc, n.elt, d))
    if len(found) != 1:
        raise Unexpected("one multiplier comprehension expected, found %d" % len(found))
    return found[0]


def _compile(elt, lcm_var, d_var):
    code = compile(ast.Expression(body=elt), "<multiplier>", "eval")

    def f(lcm, d):
        import numpy as np

        return eval(code, {"np": np, "int": int, "__builtins__": {}}, {lcm_var: lcm, d_var: d})

    return f


def mult_fn():
    import partitura.score as S

    _, lv, _, _, elt, dv = _multiplier(_fn_ast(S.merge_parts))
    return _compile(elt, lv, dv)


def ref_mult_fn():
    import partitura.utils.music as M

    _, lv, _, _, elt, dv = _multiplier(_fn_ast(M.note_array_from_part_list))
    return _compile(elt, lv, dv)


def extract():
    import partitura.score as S
    import partitura.utils.music as M

    out = {}
    fn = _fn_ast(S.merge_parts)
    out["lcmFunc"], lcm_var, out["multOp"], out["multTrunc"], _, _ = _multiplier(fn)
    # the variable the multipliers are stored in, and its use on start / end
    mvars = [n.targets[0].id for n in ast.walk(fn) if isinstance(n, ast.Assign) and isinstance(n.value, ast.ListComp)
             and len(n.targets) == 1 and isinstance(n.targets[0], ast.Name)
             and any(isinstance(x, ast.Name) and x.id == lcm_var for x in ast.walk(n.value.elt))]
    if len(mvars) != 1:
        raise Unexpected("variable of the multipliers not found")
    uses = []
    for n in ast.walk(fn):
        if isinstance(n, ast.BinOp) and isinstance(n.right, ast.Subscript) and isinstance(n.right.value, ast.Name) \
                and n.right.value.id == mvars[0]:
            uses.append((_dotted(n.left), OPS.get(type(n.op), "?")))
    uses.sort()
    if [u[0] for u in uses] != ["e.end.t", "e.start.t"]:
        raise Unexpected("uses of the multiplier: %r" % (uses,))
    out["timeOps"] = [u[1] for u in uses]
    # new_part = Part(parts[0].id, quarter_duration=lcm)
    arg0 = fn.args.args[0].arg
    news = [n for n in ast.walk(fn) if isinstance(n, ast.Call) and isinstance(n.func, ast.Name) and n.func.id == "Part"]
    if len(news) != 1:
        raise Unexpected("one Part(...) expected")
    c = news[0]
    a = c.args[0] if c.args else None
    if not (isinstance(a, ast.Attribute) and isinstance(a.value, ast.Subscript) and isinstance(a.value.value, ast.Name)
            and a.value.value.id == arg0 and isinstance(a.value.slice, ast.Constant)):
        raise Unexpected("Part(parts[i].attr, ...) expected")
    out["newPartIdIndex"], out["newPartIdAttr"] = a.value.slice.value, a.attr
    kws = {k.arg: k.value for k in c.keywords}
    q = kws.get("quarter_duration", c.args[3] if len(c.args) > 3 else None)
    out["newPartQuarterIsLcm"] = isinstance(q, ast.Name) and q.id == lcm_var
    out["newPartOtherArgs"] = len(c.args) - 1 + len([k for k in kws if k != "quarter_duration"])
    # ---- note_array_from_part_list
    rf = _fn_ast(M.note_array_from_part_list)
    out["refLcmFunc"], rl, out["refMultOp"], out["refMultTrunc"], _, _ = _multiplier(rf)
    empties = []
    for n in ast.walk(rf):
        if isinstance(n, ast.ListComp) and isinstance(n.elt, ast.IfExp) and isinstance(n.elt.orelse, ast.Constant) \
                and isinstance(n.elt.test, ast.Call) and isinstance(n.elt.test.func, ast.Name) \
                and n.elt.test.func.id == "len":
            empties.append(n.elt.orelse.value)
    if len(empties) != 1 or not isinstance(empties[0], int):
        raise Unexpected("divisions of a part without notes not found")
    out["refEmptyDivs"] = empties[0]
    scaled = []
    for n in ast.walk(rf):
        if isinstance(n, ast.Assign) and len(n.targets) == 1 and isinstance(n.targets[0], ast.Subscript) \
                and isinstance(n.targets[0].slice, ast.Constant) and isinstance(n.value, ast.BinOp) \
                and isinstance(n.value.op, ast.Mult) and isinstance(n.value.left, ast.Subscript) \
                and isinstance(n.value.left.slice, ast.Constant) \
                and n.value.left.slice.value == n.targets[0].slice.value and isinstance(n.value.right, ast.Name):
            scaled.append(n.targets[0].slice.value)
    out["refScaled"] = scaled
    return out


def _ls(xs):
    return "[" + ", ".join('"%s"' % x for x in xs) + "]"


def gen_c15_arith():
    ok, err = True, ""
    try:
        t = extract()
    except Exception as e:  # noqa: BLE001 - any failure must stay local to C15
        ok, err = False, "%s: %s" % (type(e).__name__, e)
        t = {"lcmFunc": "", "multOp": "", "multTrunc": False, "timeOps": [], "newPartIdIndex": 0, "newPartIdAttr": "",
             "newPartQuarterIsLcm": False, "newPartOtherArgs": 0, "refLcmFunc": "", "refMultOp": "",
             "refMultTrunc": False, "refEmptyDivs": 0, "refScaled": []}
    b = lambda x: "true" if x else "false"  # noqa: E731
    out = []
    w = out.append
    w("/- GENERATED by harness/translate_c15arith.py from the live source of partitura.score.merge_parts and")
    w("   partitura.utils.music.note_array_from_part_list (ast).  Do not edit. -/")
    w("namespace Gen.C15\n")
    w("/-- the sources had the expected form%s -/" % ("" if ok else " - NO: " + err.replace("-/", "- /")))
    w("def arithOk : Bool := %s\n" % b(ok))
    w("/-- `lcm = <lcmFunc>(parts_quarter_durations)` -/")
    w('def lcmFunc : String := "%s"' % t["lcmFunc"])
    w("/-- `time_multiplier_per_part = [int(lcm <multOp> d) for d in ...]`; multTrunc: wrapped in `int(...)` -/")
    w('def multOp : String := "%s"' % t["multOp"])
    w("def multTrunc : Bool := %s" % b(t["multTrunc"]))
    w("/-- operators of `e.end.t <op> multiplier` and `e.start.t <op> multiplier` -/")
    w("def timeOps : List String := %s\n" % _ls(t["timeOps"]))
    w("/-- `new_part = Part(parts[<index>].<attr>, quarter_duration=lcm)`; other arguments of that call -/")
    w("def newPartIdIndex : Nat := %d" % t["newPartIdIndex"])
    w('def newPartIdAttr : String := "%s"' % t["newPartIdAttr"])
    w("def newPartQuarterIsLcm : Bool := %s" % b(t["newPartQuarterIsLcm"]))
    w("def newPartOtherArgs : Nat := %d\n" % t["newPartOtherArgs"])
    w("/-- note_array_from_part_list: lcm function, multiplier expression, divisions a part without notes counts with,")
    w("fields of the note array that are multiplied -/")
    w('def refLcmFunc : String := "%s"' % t["refLcmFunc"])
    w('def refMultOp : String := "%s"' % t["refMultOp"])
    w("def refMultTrunc : Bool := %s" % b(t["refMultTrunc"]))
    w("def refEmptyDivs : Nat := %d" % t["refEmptyDivs"])
    w("def refScaled : List String := %s\n" % _ls(t["refScaled"]))
    w("end Gen.C15")
    return "\n".join(out) + "\n"


GENERATORS = {"C15Arith.lean": gen_c15_arith}

if __name__ == "__main__":
    print(gen_c15_arith())
