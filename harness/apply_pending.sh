#!/bin/bash
# coordinator helper: apply given fixes/<patch> files to /repo as fix: commits, sync known_findings, re-pin the lock
cd /verif
for p in "$@"; do /venv/bin/python harness/apply_fix.py /verif/$p 2>&1 | cut -c1-160 | grep -v '^$'; done
/venv/bin/python harness/sync_fixed.py | tail -${#@}
/venv/bin/python harness/source_lock.py --write | tail -1
