#!/bin/bash
# coordinator helper: re-run one recorded or pending seed against the CURRENT /verif and the CURRENT /repo HEAD.
#   harness/reseed5.sh Cxx-y [tier]      -> /tmp/reseed-Cxx-y.out   (patch from seeded/<id>/patch.diff or /tmp/seed-<id>/seed_patch.diff)
set -u
x="$1"; TIER="${2:-quick}"; id=${x%-*}
P=/verif/seeded/$x/patch.diff; D=/verif/seeded/$x/demo.py
[ -f "$P" ] || { P=/tmp/seed-$x/seed_patch.diff; D=/tmp/seed-$x/seed_demo.py; }
WT=/tmp/rs-$x
git -C /repo worktree remove --force $WT >/dev/null 2>&1
git -C /repo worktree add --detach $WT HEAD >/dev/null 2>&1
if ! git -C $WT apply --3way --whitespace=nowarn "$P" >/dev/null 2>&1; then echo "$x PATCH-DOES-NOT-APPLY" > /tmp/reseed-$x.out; git -C /repo worktree remove --force $WT; exit 0; fi
git -C $WT reset -q
(cd /tmp && PYTHONPATH=$WT /venv/bin/python -W ignore "$D" >/dev/null 2>&1; echo "$x demo-on-rebased-seed=$?") > /tmp/reseed-$x.out
BASE=/verif /verif/harness/seedrun5.sh $WT $id $TIER >> /tmp/reseed-$x.out 2>&1
git -C /repo worktree remove --force $WT
